import Unsized.MachineNodeUlist
import Unsized.MachineSorted
/-!
# The `UnsizedMap` node: the keys the binary search sees on canonical bytes (`umapKeys_enc`), the accessor of an
element one level down (`Focus.elem`, `resolve_append`, `offsetOf_append`, `subst_append`, `plug_append`), the
owned-model `BTreeMap` operations at the position the search finds, and `umap_refines`
-/
namespace Unsized.Machine
open Common Unsized Unsized.Text

/-! ## Paths: appending steps -/

theorem resolve_append (p q : List Step) : ∀ (s : Shape) (v : Val) (t : Shape) (u : Val),
    resolve s v p = .ok (t, u) → resolve s v (p ++ q) = resolve t u q := by
  induction p with
  | nil => intro s v t u h; simp [resolve] at h; obtain ⟨rfl, rfl⟩ := h; rfl
  | cons st p ih =>
    intro s v t u h
    simp only [resolve] at h
    cases h1 : resolve1 s v st with
    | error e => simp [h1] at h
    | ok tu =>
      obtain ⟨t1, u1⟩ := tu
      simp only [h1] at h
      simp only [List.cons_append, resolve, h1, ih t1 u1 t u h]

theorem offsetOf_append (p q : List Step) : ∀ (s : Shape) (v : Val) (t : Shape) (u : Val),
    resolve s v p = .ok (t, u) → offsetOf s v (p ++ q) = offsetOf s v p + offsetOf t u q := by
  induction p with
  | nil => intro s v t u h; simp [resolve] at h; obtain ⟨rfl, rfl⟩ := h; simp [offsetOf]
  | cons st p ih =>
    intro s v t u h
    simp only [resolve] at h
    cases h1 : resolve1 s v st with
    | error e => simp [h1] at h
    | ok tu =>
      obtain ⟨t1, u1⟩ := tu
      simp only [h1] at h
      simp only [List.cons_append, offsetOf, h1, ih t1 u1 t u h, Nat.add_assoc]

theorem subst_append (p q : List Step) : ∀ (s : Shape) (v : Val) (t : Shape) (u w : Val),
    resolve s v p = .ok (t, u) → subst s v (p ++ q) w = subst s v p (subst t u q w) := by
  induction p with
  | nil => intro s v t u w h; simp [resolve] at h; obtain ⟨rfl, rfl⟩ := h; rfl
  | cons st p ih =>
    intro s v t u w h
    simp only [resolve] at h
    cases h1 : resolve1 s v st with
    | error e => simp [h1] at h
    | ok tu =>
      obtain ⟨t1, u1⟩ := tu
      simp only [h1] at h
      simp only [List.cons_append, subst, h1, ih t1 u1 t u w h]

theorem plug_append (p q : List Step) : ∀ (s : Shape) (v : Val) (t : Shape) (u : Val) (X : List Nat),
    resolve s v p = .ok (t, u) → plug s v (p ++ q) X = plug s v p (plug t u q X) := by
  induction p with
  | nil => intro s v t u X h; simp [resolve] at h; obtain ⟨rfl, rfl⟩ := h; rfl
  | cons st p ih =>
    intro s v t u X h
    simp only [resolve] at h
    cases h1 : resolve1 s v st with
    | error e => simp [h1] at h
    | ok tu =>
      obtain ⟨t1, u1⟩ := tu
      simp only [h1] at h
      simp only [List.cons_append, plug, h1, ih t1 u1 t u X h]

/-! ## The map node as a serialized offset list -/

theorem good_umap_keys {kw : Nat} {e : Shape} {es : List (List Nat × Val)} (g : Good (.umap kw e) (.umap es)) :
    (∀ kv ∈ es, kv.1.length = kw ∧ BytesWF kv.1 ∧ valid e kv.2 = true ∧ fits e kv.2 = true)
    ∧ strictKeys (es.map fun kv => rdLE kv.1) = true := by
  obtain ⟨_, hv, hf⟩ := g
  simp only [valid, Bool.and_eq_true, List.all_eq_true, beq_iff_eq, decide_eq_true_eq] at hv
  simp only [fits, Bool.and_eq_true, List.all_eq_true] at hf
  exact ⟨fun kv hkv => ⟨(hv.1 kv hkv).1.1, (hv.1 kv hkv).1.2, (hv.1 kv hkv).2, hf.2 kv hkv⟩, hv.2⟩

theorem unode_umap {kw : Nat} {e : Shape} {es : List (List Nat × Val)} (g : Good (.umap kw e) (.umap es)) :
    UNode (.umap kw e) (.umap es) kw (es.map (·.1)) (es.map fun kv => encode e kv.2) :=
  ⟨encode_umap_uBytes kw e es, by simp, by
    intro k hk; obtain ⟨kv, hkv, rfl⟩ := List.mem_map.1 hk; exact ((good_umap_keys g).1 kv hkv).1⟩

theorem umap_elem_ok {kw : Nat} {e : Shape} (h : OkS (.umap kw e)) :
    0 < kw ∧ Shape.okAux false false e = true ∧ e.zst = false := by
  obtain ⟨top, ie, hok⟩ := h
  simp only [Shape.okAux, Bool.and_eq_true, Bool.not_eq_true', decide_eq_true_eq] at hok
  exact ⟨hok.1.1, hok.1.2, hok.2⟩

theorem zip_keys (kw : Nat) : ∀ (o : List Nat) (keys : List (List Nat)), o.length = keys.length →
    (∀ k ∈ keys, k.length = kw) →
    (List.zipWith (fun o k => leN 4 o ++ k) o keys).map (fun en => rdLE ((en.drop 4).take kw)) = keys.map rdLE := by
  intro o
  induction o with
  | nil => intro keys h _; cases keys with
    | nil => rfl
    | cons _ _ => simp at h
  | cons a r ih =>
    intro keys h hk
    cases keys with
    | nil => simp at h
    | cons k ks =>
      have hkl := hk k List.mem_cons_self
      simp only [List.zipWith_cons_cons, List.map_cons]
      rw [ih ks (by simpa using h) (fun k' hk' => hk k' (List.mem_cons_of_mem _ hk'))]
      congr 2
      rw [drop_append_len _ _ _ (by simp), List.take_of_length_le (by omega)]

/-- **The keys `binary_search` sees** on the canonical bytes of an `UnsizedMap` at any path. -/
theorem umapKeys_enc {s v p m} {kw : Nat} {e : Shape} {es : List (List Nat × Val)}
    (F : Focus s v p (.umap kw e) (.umap es) m) (hsm : m.bytes.length < Shape.u32Lim) :
    umapKeys kw (offsetOf s v p) m.bytes = es.map (fun kv => rdLE kv.1) := by
  have N := unode_umap F.sub
  obtain ⟨_, hr2, _⟩ := u_reads F N hsm
  obtain ⟨A, C, hA, henc, _⟩ := plug_frame F.good F.res
  unfold umapKeys
  rw [hr2]
  simp only [List.length_map, Shape.entryW]
  obtain ⟨o, ho⟩ : ∃ x, x = offsets ((es.map fun kv => encode e kv.2).map List.length) 0 := ⟨_, rfl⟩
  have hol : o.length = es.length := by rw [ho]; simp
  have hbytes : m.bytes = (A ++ leN 4 ((es.map fun kv => encode e kv.2).map List.length).sum ++ leN 4 es.length)
      ++ (tbl o (es.map (·.1)) ++ (leN 4 es.length ++ (es.map fun kv => encode e kv.2).flatten ++ C)) := by
    rw [F.bytes, henc, N.enc, uBytes, uHdrOf, ← ho]; simp [List.append_assoc]
  rw [hbytes, drop_append_len _ _ _ (by simp [hA])]
  have hz : (List.zipWith (fun o k => leN 4 o ++ k) o (es.map (·.1))).length = es.length := by simp [hol]
  have hw : ∀ en ∈ List.zipWith (fun o k => leN 4 o ++ k) o (es.map (·.1)), en.length = 4 + kw := by
    intro en hen
    obtain ⟨i, hi, rfl⟩ := List.getElem_of_mem hen
    simp only [List.getElem_zipWith, List.length_append, leN_length]
    rw [N.kw _ (List.getElem_mem _)]
  have hch := chunks_flatten (4 + kw) (List.zipWith (fun o k => leN 4 o ++ k) o (es.map (·.1)))
    (leN 4 es.length ++ (es.map fun kv => encode e kv.2).flatten ++ C) hw
  rw [hz] at hch
  unfold tbl
  rw [hch, zip_keys kw o _ (by simp [hol]) N.kw, List.map_map]
  rfl


/-! ## The accessor of element `i` (`get_by_index_mut(i)` / `index_exclusive(i)`) -/

theorem getElem?_lt {α : Type} {l : List α} {i : Nat} {x : α} (h : l[i]? = some x) : i < l.length := by
  rcases Nat.lt_or_ge i l.length with h' | h'
  · exact h'
  · simp [List.getElem?_eq_none h'] at h

/-- The accessor of the `i`-th element of an `UnsizedMap`: a focus one level down, at the offset the machine
computes from the stored offset table. -/
theorem Focus.elem {s v p m} {kw : Nat} {e : Shape} {es : List (List Nat × Val)}
    (F : Focus s v p (.umap kw e) (.umap es) m) (hsm : m.bytes.length < Shape.u32Lim) (i : Nat)
    (kx : List Nat × Val) (hx : es[i]? = some kx) :
    Focus s v (p ++ [.elem i]) e kx.2 m
    ∧ offsetOf s v (p ++ [.elem i]) = offsetOf s v p + 8 + rd32 m.bytes (offsetOf s v p + 4) * Shape.entryW kw + 4
        + rd32 m.bytes (offsetOf s v p + 8 + i * Shape.entryW kw) := by
  have N := unode_umap F.sub
  obtain ⟨_, hr2, hr3⟩ := u_reads F N hsm
  have hi := getElem?_lt hx
  constructor
  · refine ⟨F.good, ?_, F.bytes⟩
    rw [resolve_append p [.elem i] s v _ _ F.res]
    simp [resolve, resolve1, hx]
  · simp only [Shape.entryW]
    rw [offsetOf_append p [.elem i] s v _ _ F.res, hr2, hr3 i (by simpa using hi)]
    simp only [offsetOf, resolve1, hx, stepPre, List.length_append, Nat.add_zero]
    rw [uHdrOf_length kw _ _ (by simp) N.kw, sum_map_length_take, List.map_take]
    simp only [List.length_set, List.length_map]
    omega

/-- Replacing the `i`-th element's value (the key stays). -/
theorem subst_elem {s v p} {kw : Nat} {e : Shape} {es : List (List Nat × Val)}
    (hres : resolve s v p = .ok (.umap kw e, .umap es)) (i : Nat) (kx : List Nat × Val) (hx : es[i]? = some kx)
    (w : Val) : subst s v (p ++ [.elem i]) w = subst s v p (.umap (es.set i (kx.1, w))) := by
  rw [subst_append p [.elem i] s v _ _ w hres]
  simp [subst, resolve1, hx, subst1]


/-! ## The owned `BTreeMap` at the position the binary search finds -/

theorem insKV_prefix {α : Type} (k : List Nat) (x : α) (a b : List (List Nat × α))
    (h : ∀ y ∈ a, rdLE y.1 < rdLE k) : insKV k x (a ++ b) = a ++ insKV k x b := by
  induction a with
  | nil => rfl
  | cons y r ih =>
    have hy := h y List.mem_cons_self
    have h1 : ¬ rdLE k < rdLE y.1 := by omega
    have h2 : rdLE k ≠ rdLE y.1 := by omega
    simp only [List.cons_append, insKV, h1, h2, if_false]
    rw [ih (fun z hz => h z (List.mem_cons_of_mem _ hz))]

theorem insKV_new {α : Type} (k : List Nat) (x : α) (l : List (List Nat × α)) (j : Nat)
    (hb : ∀ y ∈ l.take j, rdLE y.1 < rdLE k) (ha : ∀ y ∈ l.drop j, rdLE k < rdLE y.1) :
    insKV k x l = Spec.insertAt l j [(k, x)] := by
  conv => lhs; rw [← List.take_append_drop j l]
  rw [insKV_prefix k x _ _ hb]
  simp only [Spec.insertAt]
  cases hd : l.drop j with
  | nil => simp [insKV]
  | cons y r =>
    have := ha y (by rw [hd]; exact List.mem_cons_self)
    simp [insKV, this]

theorem insKV_replace {α : Type} (k : List Nat) (x : α) (l : List (List Nat × α)) (j : Nat) (hj : j < l.length)
    (hk : rdLE l[j].1 = rdLE k) (hb : ∀ y ∈ l.take j, rdLE y.1 < rdLE k) :
    insKV k x l = l.set j (k, x) := by
  have hl : l = l.take j ++ l[j] :: l.drop (j + 1) := by
    rw [← List.drop_eq_getElem_cons hj, List.take_append_drop]
  conv => lhs; rw [hl]
  rw [insKV_prefix k x _ _ hb]
  have h1 : ¬ rdLE k < rdLE l[j].1 := by omega
  simp only [insKV, hk, if_true]
  rw [List.set_eq_take_append_cons_drop]; simp [hj]

theorem hasUKey_at {α : Type} (k : Nat) (l : List (List Nat × α)) (j : Nat) (hj : j < l.length)
    (hk : rdLE l[j].1 = k) : Spec.hasUKey k l = true := by
  simp only [Spec.hasUKey, List.any_eq_true, beq_iff_eq]
  exact ⟨l[j], List.getElem_mem _, hk⟩

theorem insKV_self_mem {α : Type} (k : List Nat) (x : α) (l : List (List Nat × α)) : (k, x) ∈ insKV k x l := by
  induction l with
  | nil => simp [insKV]
  | cons y r ih =>
    simp only [insKV]
    split
    · simp
    · split
      · simp
      · simp [ih]

/-! ## Well-formedness of map values -/

theorem unode_umap_of (kw : Nat) (e : Shape) (es : List (List Nat × Val)) (hk : ∀ kv ∈ es, kv.1.length = kw) :
    UNode (.umap kw e) (.umap es) kw (es.map (·.1)) (es.map fun kv => encode e kv.2) :=
  ⟨encode_umap_uBytes kw e es, by simp, by
    intro k hk'; obtain ⟨kv, hkv, rfl⟩ := List.mem_map.1 hk'; exact hk kv hkv⟩

theorem good_umap_of {kw : Nat} {e : Shape} {es : List (List Nat × Val)} (hok : OkS (.umap kw e))
    (hall : ∀ kv ∈ es, kv.1.length = kw ∧ BytesWF kv.1 ∧ valid e kv.2 = true ∧ fits e kv.2 = true)
    (hs : strictKeys (es.map fun kv => rdLE kv.1) = true)
    (hsz : (encode (.umap kw e) (.umap es)).length < Shape.u32Lim) : Good (.umap kw e) (.umap es) := by
  have hva : es.all (fun kv => valid e kv.2) = true := List.all_eq_true.2 fun kv hkv => (hall kv hkv).2.2.1
  rw [(unode_umap_of kw e es fun kv hkv => (hall kv hkv).1).size, map_encode_length_kv e es hva] at hsz
  have hLle : es.length ≤ es.length * (4 + kw) := Nat.le_mul_of_pos_right _ (by omega)
  simp only [List.length_map] at hsz
  refine ⟨hok, ?_, ?_⟩
  · simp only [valid, Bool.and_eq_true, List.all_eq_true, beq_iff_eq, decide_eq_true_eq]
    exact ⟨fun kv hkv => ⟨⟨(hall kv hkv).1, (hall kv hkv).2.1⟩, (hall kv hkv).2.2.1⟩, hs⟩
  · simp only [fits, Bool.and_eq_true, decide_eq_true_eq, List.all_eq_true]
    exact ⟨⟨by omega, by omega⟩, fun kv hkv => (hall kv hkv).2.2.2⟩

/-- The image of every element lies inside the map's serialization. -/
theorem umap_elem_le (kw : Nat) (e : Shape) (es : List (List Nat × Val)) (kv : List Nat × Val) (h : kv ∈ es) :
    (encode e kv.2).length ≤ (encode (.umap kw e) (.umap es)).length := by
  rw [encode_umap_uBytes, uBytes, List.length_append]
  have : (encode e kv.2).length ≤ (es.map fun kv => encode e kv.2).flatten.length := by
    obtain ⟨i, hi, rfl⟩ := List.getElem_of_mem h
    rw [flatten_split (es.map fun kv => encode e kv.2) i (by simpa using hi)]
    simp only [List.length_append, List.getElem_map]; omega
  omega


/-! ## `UnsizedMap::insert` -/

/-- **`UnsizedMap::insert(k, init)`** with an infallible initialiser: a new key is an `insert_all_with_offsets` of one
item at the insertion point; an existing key is `set_from_init` on the element one level down. -/
theorem umap_insert_refines {s v p m} {kw : Nat} {e : Shape} {es : List (List Nat × Val)}
    (F : Focus s v p (.umap kw e) (.umap es) m) (c : Calm m) (k : List Nat) (hk : k.length = kw)
    (hkwf : BytesWF k) (init : Init) (hio : initOk e init = true) (hf : initFails e init = false)
    (hfit : (encode e (denote e init)).length < Shape.u32Lim → fits e (denote e init) = true)
    (hroom : (plug s v p (encode (.umap kw e) (.umap (insKV k (denote e init) es)))).length ≤ m.orig + maxIncrease) :
    ∃ m', umapInsert ⟨s, p⟩ kw e (offsetOf s v p) k init m = (m', .ok (.flag (!Spec.hasUKey (rdLE k) es)))
      ∧ Focus s (subst s v p (.umap (insKV k (denote e init) es))) p (.umap kw e)
          (.umap (insKV k (denote e init) es)) m'
      ∧ m'.orig = m.orig ∧ m'.refuse = m.refuse := by
  have N := unode_umap F.sub
  obtain ⟨hall, hs⟩ := good_umap_keys F.sub
  obtain ⟨_, hoke, _⟩ := umap_elem_ok F.sub.ok
  obtain ⟨hx, hsize, hval⟩ := initP_all e init hio
  have hvx := hval false false hoke
  have hsz : (initBytes e init).length = initSize e init := by
    rw [hx, hsize]; exact encode_size_all e _ hvx
  have hsm := F.small c _ hroom
  have hpl := plug_length p s v _ _ F.good F.res (encode (.umap kw e) (.umap (insKV k (denote e init) es)))
  have hle := offsetOf_le p s v _ _ F.good F.res
  have hxle := umap_elem_le kw e (insKV k (denote e init) es) (k, denote e init) (insKV_self_mem k _ es)
  have hfx : fits e (denote e init) = true := hfit (by simp only [] at hxle; omega)
  have gU' : Good (.umap kw e) (.umap (insKV k (denote e init) es)) := by
    apply good_umap_of F.sub.ok
    · intro kv hkv
      rcases insKV_mem k _ es kv hkv with h | h
      · subst h; exact ⟨hk, hkwf, hvx, hfx⟩
      · exact hall kv h
    · rw [strictKeys, decide_eq_true_eq]
      exact insKV_pairwise k _ es (by simpa [strictKeys] using hs)
    · omega
  have hkeys := umapKeys_enc F c.lt
  unfold umapInsert
  simp only []
  rw [hkeys]
  rcases search_sorted (fun kv : List Nat × Val => rdLE kv.1) es (rdLE k) 0 hs with
    ⟨j, hj, hse, hkj, hb, _⟩ | ⟨j, hj, hse, hb, ha⟩
  · -- existing key: `set_from_init` one level down
    simp only [Nat.zero_add] at hse
    rw [hse]
    simp only []
    have hxj : es[j]? = some es[j] := List.getElem?_eq_getElem hj
    obtain ⟨hl1, hwf1, _, _⟩ := hall es[j] (List.getElem_mem _)
    have hkey : es[j].1 = k := rdLE_inj (by rw [hl1, hk]) hwf1 hkwf hkj
    have hins : insKV k (denote e init) es = es.set j (k, denote e init) := insKV_replace k _ es j hj hkj hb
    have hhas : Spec.hasUKey (rdLE k) es = true := hasUKey_at (rdLE k) es j hj hkj
    obtain ⟨F', hoff⟩ := F.elem c.lt j es[j] hxj
    have hplug : plug s v (p ++ [.elem j]) (encode e (denote e init))
        = plug s v p (encode (.umap kw e) (.umap (insKV k (denote e init) es))) := by
      rw [plug_append p [.elem j] s v _ _ _ F.res]
      have h1 : resolve1 (.umap kw e) (.umap es) (.elem j) = .ok (e, es[j].2) := by simp [resolve1, hxj]
      have := step_subst_enc (.umap kw e) (.umap es) (.elem j) e es[j].2 (denote e init) F.sub h1
      simp only [plug, h1]
      rw [← this, hins]
      simp [subst1, hxj, hkey]
    have gx : Good e (denote e init) := ⟨⟨false, false, hoke⟩, hvx, hfx⟩
    obtain ⟨m', hm', F'', ho, hr⟩ := setDataInner_refines F' c (denote e init) gx (by rw [hplug]; exact hroom)
    rw [← hoff, hx, hf, hm']
    simp only [hhas, Bool.not_true]
    refine ⟨m', rfl, ?_, ho, hr⟩
    obtain ⟨gs, he, hrs, _, _⟩ := subst_good p s v _ _ (.umap (insKV k (denote e init) es)) F.good F.res gU' hsm
    refine ⟨gs, hrs, ?_⟩
    rw [F''.bytes, subst_elem F.res j es[j] hxj, hkey, ← hins]
  · -- new key: one item at the insertion point
    simp only [Nat.zero_add] at hse
    rw [hse]
    simp only [Shape.entryW]
    have hins : insKV k (denote e init) es = Spec.insertAt es j [(k, denote e init)] := insKV_new k _ es j hb ha
    have hhas : Spec.hasUKey (rdLE k) es = false := any_false_of_split _ es (rdLE k) j hb ha
    have henc' : encode (.umap kw e) (.umap (insKV k (denote e init) es))
        = uBytes (Spec.insertAt (es.map (·.1)) j (List.replicate 1 k))
            (Spec.insertAt (es.map fun kv => encode e kv.2) j (List.replicate 1 (initBytes e init))) := by
      rw [hins, encode_umap_uBytes, map_insertAt, map_insertAt, hx]; rfl
    have hlen' := uBytes_insert_length kw _ _ N.len N.kw j 1 k (initBytes e init) hk
    rw [← henc', ← N.enc, hsz] at hlen'
    obtain ⟨m1, hm1, hb1, ho1, hr1⟩ := ulistInsert_bytes F c N e j 1 init k (by simpa using hj) hk hsz hf (by omega)
    rw [← henc'] at hb1
    rw [hm1]
    simp only [hhas, Bool.not_false]
    exact ⟨m1, rfl, F.finish _ gU' m1 hb1 (by rw [hb1]; exact hsm), ho1, hr1⟩


/-! ## `remove` / `clear` -/

theorem removeRange_sublist {α : Type} (l : List α) (lo hi : Nat) (h : lo ≤ hi) :
    (Spec.removeRange l lo hi).Sublist l := by
  have h1 : (l.drop hi).Sublist (l.drop lo) := by
    have : l.drop hi = (l.drop lo).drop (hi - lo) := by rw [List.drop_drop]; congr 1; omega
    rw [this]; exact List.drop_sublist _ _
  have := List.Sublist.append_left h1 (l.take lo)
  rwa [List.take_append_drop] at this

/-- A sub-map of a well-formed map value is well formed. -/
theorem good_umap_sub {kw : Nat} {e : Shape} {es es' : List (List Nat × Val)} (g : Good (.umap kw e) (.umap es))
    (hsub : es'.Sublist es) (hsz : (encode (.umap kw e) (.umap es')).length < Shape.u32Lim) :
    Good (.umap kw e) (.umap es') := by
  obtain ⟨hall, hs⟩ := good_umap_keys g
  apply good_umap_of g.ok (fun kv hkv => hall kv (hsub.subset hkv)) ?_ hsz
  rw [strictKeys, decide_eq_true_eq] at hs ⊢
  exact List.Pairwise.sublist (hsub.map _) hs

/-- `remove_range` on an `UnsizedMap` node (used for `remove(key)` and `clear`). -/
theorem umap_removeRange_refines {s v p m} {kw : Nat} {e : Shape} {es : List (List Nat × Val)}
    (F : Focus s v p (.umap kw e) (.umap es) m) (c : Calm m) (lo hi : Nat) (hlo : lo ≤ hi) (hhi : hi ≤ es.length) :
    ∃ m', ulistRemoveRange ⟨s, p⟩ (Shape.entryW kw) (offsetOf s v p) lo hi m = (m', .ok ())
      ∧ Focus s (subst s v p (.umap (Spec.removeRange es lo hi))) p (.umap kw e) (.umap (Spec.removeRange es lo hi)) m'
      ∧ m'.orig = m.orig ∧ m'.refuse = m.refuse := by
  have N := unode_umap F.sub
  obtain ⟨m1, hm1, hb1, ho1, hr1, _⟩ := ulistRemoveRange_all_bytes F N c.lt lo hi hlo (by simpa using hhi)
  have henc' : encode (.umap kw e) (.umap (Spec.removeRange es lo hi))
      = uBytes (Spec.removeRange (es.map (·.1)) lo hi) (Spec.removeRange (es.map fun kv => encode e kv.2) lo hi) := by
    rw [encode_umap_uBytes, map_removeRange, map_removeRange]
  rw [← henc'] at hb1
  have hlen' := uBytes_remove_length_le kw _ _ N.len N.kw lo hi hlo
  rw [← henc', ← N.enc] at hlen'
  have hpl := plug_length p s v _ _ F.good F.res (encode (.umap kw e) (.umap (Spec.removeRange es lo hi)))
  have hle := offsetOf_le p s v _ _ F.good F.res
  have hlt := c.lt
  rw [F.bytes] at hlt
  have g' := good_umap_sub F.sub (removeRange_sublist es lo hi hlo) (by omega)
  exact ⟨m1, by simpa only [Shape.entryW] using hm1, F.finish _ g' m1 hb1 (by rw [hb1]; omega), ho1, hr1⟩

theorem umap_rdlen {s v p m} {kw : Nat} {e : Shape} {es : List (List Nat × Val)}
    (F : Focus s v p (.umap kw e) (.umap es) m) (c : Calm m) :
    rd32 m.bytes (offsetOf s v p + 4) = es.length := by
  have := (u_reads F (unode_umap F.sub) c.lt).2.1
  simpa using this

theorem arr_fits {ee : Fixed} {lw : Nat} {xs : List (List Nat)} (hall : xs.all (validE ee) = true)
    (hfl : initFails (.list ee lw) (.array xs) = false)
    (hlt : (encode (.list ee lw) (denote (.list ee lw) (.array xs))).length < Shape.u32Lim) :
    fits (.list ee lw) (denote (.list ee lw) (.array xs)) = true := by
  simp only [initFails, decide_eq_false_iff_not] at hfl
  simp only [denote, fits, Bool.and_eq_true, decide_eq_true_eq]
  refine ⟨by omega, ?_⟩
  simp only [denote] at hlt
  rw [list_enc, List.length_append, leN_length, flatten_width ee.size xs (fun x hx => by
    have := List.all_eq_true.1 hall x hx; exact validE_len this), Nat.mul_comm] at hlt
  have := u32_lt_usize
  omega

/-- **Every op on an `UnsizedMap` node** except `uget` (its `ret` needs the codec's view lemma; `MachineNodeUget`).
`uminsert_arr` with a failing initialiser is the known finding (`Err.initFail`, nothing claimed). -/
theorem umap_refines {s v p m} {kw : Nat} {e : Shape} {es : List (List Nat × Val)}
    (F : Focus s v p (.umap kw e) (.umap es) m) (c : Calm m) (op : Op) (hop : ∀ i, op ≠ .uget i) :
    Refines s v p (.umap kw e) (.umap es) m op := by
  have hrd := umap_rdlen F c
  obtain ⟨_, hoke, _⟩ := umap_elem_ok F.sub.ok
  obtain ⟨hall, hs⟩ := good_umap_keys F.sub
  cases op with
  | touch => exact touch_refines F
  | replace nv => exact replace_refines F c nv
  | reset => exact reset_refines F c
  | uget i => exact absurd rfl (hop i)
  | uminsert k =>
    unfold Refines
    simp only [Spec.applyNode, applyAt]
    by_cases hg : (k.length == kw && decide (BytesWF k)) = true
    · simp only [hg, if_true]
      simp only [Bool.and_eq_true, beq_iff_eq, decide_eq_true_eq] at hg
      intro hroom
      exact umap_insert_refines F c k hg.1 hg.2 .default (initOk_default e false hoke) (initFails_default e)
        (fun _ => fits_default e) hroom
    · simp [hg]
  | uminsertArr k xs =>
    unfold Refines
    simp only [Spec.applyNode, applyAt]
    by_cases hg : (k.length == kw && decide (BytesWF k) && arrOk e xs) = true
    · simp only [hg, if_true]
      simp only [Bool.and_eq_true, beq_iff_eq, decide_eq_true_eq] at hg
      by_cases hfl : initFails e (.array xs) = true
      · simp only [hfl, if_true]
      · simp only [hfl, Bool.false_eq_true, if_false]
        have hfl' : initFails e (.array xs) = false := by simpa using hfl
        have ha := hg.2
        cases e with
        | list ee lw =>
          simp only [arrOk, Bool.and_eq_true] at ha
          have hio : initOk (.list ee lw) (.array xs) = true := by
            simpa [initOk, validE] using ha.2
          intro hroom
          exact umap_insert_refines F c k hg.1.1 hg.1.2 (.array xs) hio hfl' (arr_fits ha.2 hfl') hroom
        | _ => simp only [arrOk, Bool.false_eq_true] at ha
    · simp [hg]
  | umremove k =>
    unfold Refines
    simp only [Spec.applyNode, applyAt]
    by_cases hg : (k.length == kw && decide (BytesWF k)) = true
    · simp only [hg, if_true]
      intro hroom
      rw [umapKeys_enc F c.lt]
      rcases search_sorted (fun kv : List Nat × Val => rdLE kv.1) es (rdLE k) 0 hs with
        ⟨j, hj, hse, hkj, hb, ha⟩ | ⟨j, hj, hse, hb, ha⟩
      · simp only [Nat.zero_add] at hse
        rw [hse]
        simp only []
        have hdel : Spec.delUKey (rdLE k) es = Spec.removeRange es j (j + 1) :=
          filter_ne_of_split _ es (rdLE k) j hj hkj hb ha
        have hhas : Spec.hasUKey (rdLE k) es = true := hasUKey_at (rdLE k) es j hj hkj
        obtain ⟨m', hm', F', ho, hr⟩ := umap_removeRange_refines F c j (j + 1) (by omega) (by omega)
        rw [hm', hhas, hdel]
        exact ⟨m', rfl, F', ho, hr⟩
      · simp only [Nat.zero_add] at hse
        rw [hse]
        simp only []
        have hhas : Spec.hasUKey (rdLE k) es = false := any_false_of_split _ es (rdLE k) j hb ha
        have hdel : Spec.delUKey (rdLE k) es = es := by
          unfold Spec.delUKey
          apply List.filter_eq_self.2
          intro y hy
          have : ¬ rdLE y.1 = rdLE k := by
            intro heq
            have : (es.any fun y => rdLE y.1 == rdLE k) = true :=
              List.any_eq_true.2 ⟨y, hy, by simpa using heq⟩
            rw [Spec.hasUKey] at hhas; rw [hhas] at this; cases this
          simpa using this
        rw [hhas, hdel]
        exact ⟨m, rfl, F.same, rfl, rfl⟩
    · simp [hg]
  | clear =>
    unfold Refines
    simp only [Spec.applyNode, applyAt, hrd]
    intro _
    obtain ⟨m', hm', F', ho, hr⟩ := umap_removeRange_refines F c 0 es.length (by omega) (Nat.le_refl _)
    rw [removeRange_all es] at F'
    exact ⟨m', by rw [hm', unitRes_ok], F', ho, hr⟩
  | utouch i =>
    unfold Refines
    simp only [Spec.applyNode, applyAt, hrd]
    intro _
    exact ⟨m, rfl, F.same, rfl, rfl⟩
  | _ => unfold Refines; simp [Spec.applyNode, applyAt]

/-- Non-vacuity of the hypotheses of `umap_refines`: an `UnsizedMap<u8, List<u8, u8>>` with two entries. -/
example : ∃ (s : Shape) (v : Val) (p : List Step) (kw : Nat) (e : Shape) (es : List (List Nat × Val)) (m : Mem),
    Focus s v p (.umap kw e) (.umap es) m ∧ Calm m ∧ es.length = 2 :=
  ⟨.umap 1 (.list (.pod 1) 1), .umap [([3], .seq [[1]]), ([5], .seq [])], [], 1, .list (.pod 1) 1,
    [([3], .seq [[1]]), ([5], .seq [])],
    ⟨encode (.umap 1 (.list (.pod 1) 1)) (.umap [([3], .seq [[1]]), ([5], .seq [])]), 64, 0, []⟩,
    ⟨⟨⟨true, false, by decide⟩, by decide, by decide⟩, rfl, rfl⟩, ⟨rfl, by decide, by decide⟩, rfl⟩

end Unsized.Machine
