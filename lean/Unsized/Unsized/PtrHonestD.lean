import Unsized.PtrHonestC
namespace Unsized.Ptr
open Common Unsized Unsized.Text Unsized.Machine Unsized.PtrT

/-! ## `check_pointers` accepts an honest object (caches included) -/

def HonCheckOK (s : Shape) : Prop :=
  ∀ top ie, Shape.okAux top ie s = true → s ≠ .unit → ∀ v, valid s v = true → ∀ (b : Nat) (R : PtrTree),
    Hon s v b R → ∀ (r : Rng) (cur : Nat), r.lo ≤ cur → cur ≤ b → b + size s v ≤ r.hi →
    ∃ c, checkPointers r R cur = (true, c) ∧ b ≤ c ∧ c ≤ b + size s v

theorem leaf_check (r : Rng) (k : LeafKind) (b n cur : Nat) (hk : k ≠ .rem) (hn : 0 < n) (h1 : r.lo ≤ cur)
    (h2 : cur ≤ b) (h3 : b + n ≤ r.hi) :
    ∃ c, checkPointers r (.leaf k b) cur = (true, c) ∧ b ≤ c ∧ c ≤ b + n := by
  refine ⟨b, ?_, Nat.le_refl _, by omega⟩
  simp only [checkPointers, hk, ↓reduceIte, Rng.contains, Prod.mk.injEq, Bool.and_eq_true, decide_eq_true_eq, and_true]
  omega

theorem node1_check (r : Rng) (t : PtrTree) (cur c : Nat) (h : checkPointers r t cur = (true, c)) :
    checkPointers r (.node [t]) cur = (true, c) := by
  simp only [checkPointers, checkL, h]

theorem okField_not_unit (f : Shape) (h : Shape.okAux false false f = true) : f ≠ .unit := by
  intro hu; subst hu; simp [Shape.okAux] at h

/-- The fields of a struct: checked in order, the cursor ends inside the last one. -/
theorem honL_check (fs : List Shape) (ih : ∀ f ∈ fs, HonCheckOK f) :
    Shape.okFields fs = true → ∀ vs, validFields fs vs = true → ∀ (b : Nat) (ks : List PtrTree), HonL fs vs b ks →
    ∀ (r : Rng) (cur : Nat), r.lo ≤ cur → cur ≤ b → b + sizeFields fs vs ≤ r.hi →
    ∃ c, checkL r ks cur = (true, c) ∧ cur ≤ c ∧ c ≤ b + sizeFields fs vs ∧ (fs ≠ [] → b ≤ c) := by
  induction fs with
  | nil =>
    intro _ vs _ b ks h r cur h1 h2 h3
    simp only [HonL] at h; subst h
    exact ⟨cur, by simp [checkL], Nat.le_refl _, by omega, fun h => absurd rfl h⟩
  | cons f fs ihf =>
    intro hok vs hv b ks h r cur h1 h2 h3
    cases vs with
    | nil => simp [validFields] at hv
    | cons x xs =>
      simp only [validFields, Bool.and_eq_true] at hv
      simp only [sizeFields] at h3 ⊢
      simp only [HonL] at h
      obtain ⟨k, ks', rfl, hk, hks⟩ := h
      have hfo : Shape.okAux false false f = true ∧ Shape.okFields fs = true := by
        cases fs with
        | nil => exact ⟨by simpa [Shape.okFields] using hok, by simp [Shape.okFields]⟩
        | cons g gs => obtain ⟨h1, _, h3⟩ := okFields_cons2 f g gs hok; exact ⟨h1, h3⟩
      obtain ⟨c1, hc1, hc1a, hc1b⟩ := ih f List.mem_cons_self false false hfo.1 (okField_not_unit f hfo.1) x hv.1 b k hk
        r cur h1 h2 (by omega)
      obtain ⟨c2, hc2, hc2a, hc2b, _⟩ := ihf (fun g hg => ih g (List.mem_cons_of_mem _ hg)) hfo.2 xs hv.2 (b + size f x)
        ks' hks r c1 (by omega) hc1b (by omega)
      exact ⟨c2, by simp only [checkL, hc1, hc2], by omega, by omega, fun _ => by omega⟩

theorem hon_check (s : Shape) : HonCheckOK s := by
  induction s using Shape.induct' with
  | fixed f =>
    intro top ie hok _ v hv b R h r cur h1 h2 h3
    simp only [Shape.okAux, Bool.and_eq_true, decide_eq_true_eq] at hok
    simp only [Hon] at h; subst h
    simp only [size] at h3 ⊢
    exact leaf_check r .checked b f.size cur (by decide) hok.2 h1 h2 h3
  | list e lw =>
    intro top ie hok _ v hv b R h r cur h1 h2 h3
    simp only [Shape.okAux, Bool.and_eq_true] at hok
    have hlw : 0 < lw := by have := hok.2; simp [Shape.lenW] at this; omega
    cases v <;> simp only [valid, Bool.false_eq_true] at hv
    simp only [Hon] at h; subst h
    simp only [size] at h3 ⊢
    obtain ⟨c, hc, a1, a2⟩ := leaf_check r .list b lw cur (by decide) hlw h1 h2 (by omega)
    exact ⟨c, hc, a1, by omega⟩
  | set e lw =>
    intro top ie hok _ v hv b R h r cur h1 h2 h3
    simp only [Shape.okAux, Bool.and_eq_true] at hok
    have hlw : 0 < lw := by have := hok.2; simp [Shape.lenW] at this; omega
    cases v <;> simp only [valid, Bool.false_eq_true] at hv
    simp only [Hon] at h; subst h
    simp only [size] at h3 ⊢
    obtain ⟨c, hc, a1, a2⟩ := leaf_check r .list b lw cur (by decide) hlw h1 h2 (by omega)
    exact ⟨c, node1_check r _ cur c hc, a1, by omega⟩
  | map kw vv lw =>
    intro top ie hok _ v hv b R h r cur h1 h2 h3
    simp only [Shape.okAux, Bool.and_eq_true] at hok
    have hlw : 0 < lw := by have := hok.2; simp [Shape.lenW] at this; omega
    cases v <;> simp only [valid, Bool.false_eq_true] at hv
    simp only [Hon] at h; subst h
    simp only [size] at h3 ⊢
    obtain ⟨c, hc, a1, a2⟩ := leaf_check r .list b lw cur (by decide) hlw h1 h2 (by omega)
    exact ⟨c, node1_check r _ cur c hc, a1, by omega⟩
  | str lw =>
    intro top ie hok _ v hv b R h r cur h1 h2 h3
    simp only [Shape.okAux] at hok
    have hlw : 0 < lw := by simp [Shape.lenW] at hok; omega
    cases v <;> simp only [valid, Bool.false_eq_true] at hv
    simp only [Hon] at h; subst h
    simp only [size] at h3 ⊢
    obtain ⟨c, hc, a1, a2⟩ := leaf_check r .list b lw cur (by decide) hlw h1 h2 (by omega)
    exact ⟨c, node1_check r _ cur c hc, a1, by omega⟩
  | rem =>
    intro top ie hok _ v hv b R h r cur h1 h2 h3
    simp only [Hon] at h; subst h
    refine ⟨b, ?_, Nat.le_refl _, by omega⟩
    simp only [treeOf, checkPointers, ↓reduceIte, Rng.containsIncl, Prod.mk.injEq, Bool.and_eq_true, decide_eq_true_eq,
      and_true]
    omega
  | ulist e ih =>
    intro top ie hok _ v hv b R h r cur h1 h2 h3
    simp only [Shape.okAux, Bool.and_eq_true, Bool.not_eq_true'] at hok
    cases v <;> simp only [valid, Bool.false_eq_true] at hv
    rename_i vs
    simp only [Hon] at h
    obtain ⟨inner, pmb, rfl, hin⟩ := h
    have hsz : 12 ≤ size (.ulist e) (.useq vs) := by simp only [size]; omega
    refine ⟨b, ?_, Nat.le_refl _, by omega⟩
    rcases hin with rfl | ⟨J, x, b0, rfl, gx, i1, i2, hJ⟩
    · simp only [checkPointers, checkO, Rng.contains, Prod.mk.injEq, Bool.and_eq_true, decide_eq_true_eq, and_true]
      omega
    · obtain ⟨c, hc, _, _⟩ := ih false false hok.1 (okField_not_unit e hok.1) x gx.valid b0 J hJ r r.lo (Nat.le_refl _)
        (by omega) (by omega)
      simp only [checkPointers, checkO, hc, Rng.contains, Prod.mk.injEq, Bool.and_eq_true, decide_eq_true_eq, and_true]
      omega
  | umap kw e ih =>
    intro top ie hok _ v hv b R h r cur h1 h2 h3
    simp only [Shape.okAux, Bool.and_eq_true, Bool.not_eq_true'] at hok
    cases v <;> simp only [valid, Bool.false_eq_true] at hv
    rename_i es
    simp only [Hon] at h
    obtain ⟨inner, pmb, rfl, hin⟩ := h
    have hsz : 12 ≤ size (.umap kw e) (.umap es) := by simp only [size]; omega
    refine ⟨b, ?_, Nat.le_refl _, by omega⟩
    apply node1_check
    rcases hin with rfl | ⟨J, x, b0, rfl, gx, i1, i2, hJ⟩
    · simp only [checkPointers, checkO, Rng.contains, Prod.mk.injEq, Bool.and_eq_true, decide_eq_true_eq, and_true]
      omega
    · obtain ⟨c, hc, _, _⟩ := ih false false hok.1.2 (okField_not_unit e hok.1.2) x gx.valid b0 J hJ r r.lo (Nat.le_refl _)
        (by omega) (by omega)
      simp only [checkPointers, checkO, hc, Rng.contains, Prod.mk.injEq, Bool.and_eq_true, decide_eq_true_eq, and_true]
      omega
  | struct sized fs ih =>
    intro top ie hok _ v hv b R h r cur h1 h2 h3
    cases v <;> simp only [valid, Bool.false_eq_true] at hv
    rename_i sz vs
    simp only [Shape.okAux, Bool.and_eq_true, Bool.or_eq_true, decide_eq_true_eq, Bool.not_eq_true'] at hok
    simp only [Bool.and_eq_true, beq_iff_eq, decide_eq_true_eq] at hv
    simp only [size] at h3 ⊢
    simp only [Hon] at h
    obtain ⟨ks, rfl, hks⟩ := h
    have hne : fs ≠ [] := by intro h; subst h; simp at hok
    by_cases he : sized.isEmpty = true
    · have hs0 : Fixed.sizeList sized = 0 := by
        cases sized with
        | nil => rfl
        | cons _ _ => simp at he
      obtain ⟨c, hc, c1, c2, c3⟩ := honL_check fs ih hok.2 vs hv.2 (b + Fixed.sizeList sized) ks hks r cur h1 (by omega) (by omega)
      exact ⟨c, by simp only [he, if_true, checkPointers, hc], by have := c3 hne; omega, by omega⟩
    · have hpos : 0 < Fixed.sizeList sized := by
        rcases hok.1.1.2 with h | h
        · exact absurd h he
        · exact h
      obtain ⟨c, hc, c1, c2, c3⟩ := honL_check fs ih hok.2 vs hv.2 (b + Fixed.sizeList sized) ks hks r b (by omega) (by omega) (by omega)
      refine ⟨c, ?_, by omega, by omega⟩
      simp only [he, Bool.false_eq_true, if_false, checkPointers, checkL, Rng.contains]
      have e1 : (decide (cur ≤ b) && (if LeafKind.checked = LeafKind.rem then r.containsIncl b
          else decide (r.lo ≤ b) && decide (b < r.hi))) = true := by
        simp; omega
      rw [e1]; simp only []; exact hc
  | enum ds ps ih =>
    intro top ie hok _ v hv b R h r cur h1 h2 h3
    cases v <;> simp only [valid, Bool.false_eq_true] at hv
    rename_i i pl
    simp only [Shape.okAux, Bool.and_eq_true, beq_iff_eq, decide_eq_true_eq] at hok
    simp only [Bool.and_eq_true, decide_eq_true_eq] at hv
    obtain ⟨t, ht, hvt⟩ := validVariant_get ps i pl hv.2
    simp only [size, sizeVariant_get ps i t pl ht] at h3 ⊢
    simp only [Hon] at h
    obtain ⟨po, rfl, hpo⟩ := h
    have e1 : (decide (cur ≤ b) && r.contains b) = true := by simp [Rng.contains]; omega
    by_cases hu : t = .unit
    · subst hu
      rw [honV_unit ps i pl (b + 1) po ht] at hpo
      subst hpo
      exact ⟨b, by simp only [checkPointers, e1, if_true], Nat.le_refl _, by omega⟩
    · rw [honV_some ps i t pl (b + 1) po ht hu] at hpo
      obtain ⟨k, rfl, hk⟩ := hpo
      obtain ⟨c, hc, c1, c2⟩ := ih _ (List.mem_of_getElem? ht) false true (okPayloads_get ps i _ ht hok.2) hu pl hvt (b + 1) k hk
        r b (by omega) (by omega) (by omega)
      exact ⟨c, by simp only [checkPointers, e1, if_true, hc], by omega, by omega⟩
  | unit => intro top ie hok hu; exact absurd rfl hu
  | disc d inner ih =>
    intro top ie hok _ v hv b R h r cur h1 h2 h3
    simp only [Shape.okAux, Bool.and_eq_true] at hok
    simp only [valid] at hv
    simp only [size] at h3 ⊢
    simp only [Hon] at h
    obtain ⟨c, hc, c1, c2⟩ := ih false false hok.2 (okField_not_unit inner hok.2) v hv (b + d.length) R h r cur h1 (by omega) (by omega)
    exact ⟨c, hc, by omega, by omega⟩

end Unsized.Ptr
