import Unsized.Machine
/-!
# The container operations as byte-level algorithms (one function per public API call)

Each function mirrors the Rust method it is named after: same checks in the same order, the
(fallible) resize through `Mem.addBytesN` / `Mem.removeBytesN`, then the container's own header
writes. `Mem × Except Err α` is "state after the call, and its result": an `Err` does NOT roll the state
back — what the code changed before failing stays changed (that is the subject of C06).

* `List`            `list.rs` 462–580    : `listInsertAll`, `listRemoveRange`, `pop`, `clear`, slot stores
* `Set` / `Map`     `set.rs`, `map.rs`  : binary search + the `List` op; `insert_all` = loop of `insert`
* `UnsizedString`   `unsized_string.rs` 53–58 : `clear` then `push_all`
* `RemainingBytes`  `remaining_bytes.rs` 128–158 : `remSetLen`
* `UnsizedList`     `unsized_list.rs` 808–1028 : `ulistInsert`, `ulistRemoveRange`, `ulistClear`
* `UnsizedMap`      `unsized_map.rs` 217–251
* `set_data_inner`  `wrapper.rs` 687–733  : `setDataInner` (`set_from_owned`, `set_from_init`, enum setters)
-/
namespace Unsized.Machine
open Common Unsized Unsized.Text

/-- One op line addressed at a node (`unsized_ops.md` §3; `enter`/`leave`/`reborrow` are `Cmd`s). -/
inductive Op where
  | touch
  | replace (v : Val)
  | reset
  | write (b : List Nat)
  | push (e : List Nat)
  | insert (i : Nat) (e : List Nat)
  | insertAll (i : Nat) (es : List (List Nat))
  | remove (i : Nat)
  | removeRange (lo hi : Nat)
  | pop
  | clear
  | set (i : Nat) (e : List Nat)
  | sinsert (e : List Nat)
  | sremove (e : List Nat)
  | sinsertAll (es : List (List Nat))
  | minsert (k e : List Nat)
  | mremove (k : List Nat)
  | mset (k e : List Nat)
  | minsertAll (kvs : List (List Nat × List Nat))
  | strSet (b : List Nat)
  | setLen (n : Nat)
  | uinsert (i n : Nat)
  | uinsertArr (i : Nat) (es : List (List Nat))
  | uget (i : Nat)
  | utouch (i : Nat)
  | uminsert (k : List Nat)
  | uminsertArr (k : List Nat) (es : List (List Nat))
  | umremove (k : List Nat)
  | setVariant (idx : Nat)
  deriving Repr, Inhabited

/-- The `ret=` column. -/
inductive Ret where
  | unit
  | flag (b : Bool)
  | count (n : Nat)
  /-- `Map::insert` / `Map::remove`: the old value -/
  | old (o : Option (List Nat))
  /-- `uget`: key bytes (`[]` for an `UnsizedList`) and element value; `none` = index out of range -/
  | elem (o : Option (List Nat × Val))
  /-- `uget`: the element pointer exists but its view failed -/
  | elemErr
  deriving Repr, Inhabited

/-- Element / key / payload bytes acceptable for a fixed shape. -/
def validE (f : Fixed) (x : List Nat) : Bool :=
  x.length == f.size && f.valid x && decide (BytesWF x)

/-- The `N` values the harness instantiates `[T; N]` initialisers for. -/
def arrNs : List Nat := [0, 1, 2, 3, 4, 5, 8, 255, 256, 300]

/-! ## `List<T, L>` at `b` (`ew = size_of::<T>()`, `lw = size_of::<L>()`) -/

/-- `List::insert_all(idx, items)`. -/
def listInsertAll (c : Ctx) (ew lw b idx : Nat) (items : List (List Nat)) (m : Mem) :
    Mem × Except Err Unit :=
  let len := rdN m.bytes b lw
  if len < idx then (m, .error .ioob)
  else if 256 ^ lw ≤ len + items.length then (m, .error .toPrim)
  else
    match m.addBytesN c b (b + lw + idx * ew) (ew * items.length) with
    | (m1, .error e) => (m1, .error e)
    | (m1, .ok ()) =>
      let bs1 := wr m1.bytes b (leN lw (len + items.length))
      ({ m1 with bytes := wr bs1 (b + lw + idx * ew) items.flatten }, .ok ())

/-- `List::remove_range(lo..hi)`. -/
def listRemoveRange (c : Ctx) (ew lw b lo hi : Nat) (m : Mem) : Mem × Except Err Unit :=
  let len := rdN m.bytes b lw
  if hi < lo then (m, .error .range)
  else if len < hi then (m, .error .ioob)
  else
    match m.removeBytesN c b (b + lw + lo * ew) (b + lw + hi * ew) with
    | (m1, .error e) => (m1, .error e)
    | (m1, .ok ()) => ({ m1 with bytes := wr m1.bytes b (leN lw (len - (hi - lo))) }, .ok ())

/-- `List::pop`. -/
def listPop (c : Ctx) (ew lw b : Nat) (m : Mem) : Mem × Except Err Ret :=
  let len := rdN m.bytes b lw
  if len = 0 then (m, .ok (.flag false))
  else match listRemoveRange c ew lw b (len - 1) len m with
    | (m1, .error e) => (m1, .error e)
    | (m1, .ok ()) => (m1, .ok (.flag true))

/-- `List::clear` = `remove_range(..)`. -/
def listClear (c : Ctx) (ew lw b : Nat) (m : Mem) : Mem × Except Err Unit :=
  listRemoveRange c ew lw b 0 (rdN m.bytes b lw) m

/-- The keys (first `kw` bytes, little endian) of the `len` records of width `ew` of the list at `b`. -/
def listKeys (ew lw kw b : Nat) (bs : List Nat) : List Nat :=
  (chunks ew (rdN bs b lw) (bs.drop (b + lw))).map (keyOf kw)

/-- `Set::insert`. -/
def setInsert (c : Ctx) (ew lw b : Nat) (e : List Nat) (m : Mem) : Mem × Except Err Bool :=
  match search (listKeys ew lw ew b m.bytes) (rdLE e) 0 with
  | .at _ => (m, .ok false)
  | .ins i =>
    match listInsertAll c ew lw b i [e] m with
    | (m1, .error er) => (m1, .error er)
    | (m1, .ok ()) => (m1, .ok true)

/-- `Set::insert_all`: a loop of `insert` that stops at the first error. -/
def setInsertAll (c : Ctx) (ew lw b : Nat) : List (List Nat) → Nat → Mem → Mem × Except Err Ret
  | [], n, m => (m, .ok (.count n))
  | e :: es, n, m =>
    match setInsert c ew lw b e m with
    | (m1, .error er) => (m1, .error er)
    | (m1, .ok new) => setInsertAll c ew lw b es (if new then n + 1 else n) m1

/-- `Set::remove`. -/
def setRemove (c : Ctx) (ew lw b : Nat) (e : List Nat) (m : Mem) : Mem × Except Err Ret :=
  match search (listKeys ew lw ew b m.bytes) (rdLE e) 0 with
  | .ins _ => (m, .ok (.flag false))
  | .at i =>
    match listRemoveRange c ew lw b i (i + 1) m with
    | (m1, .error er) => (m1, .error er)
    | (m1, .ok ()) => (m1, .ok (.flag true))

/-- `Map::insert` (entry = `key ++ value`, `ew = kw + vw`). -/
def mapInsert (c : Ctx) (kw vw lw b : Nat) (k v : List Nat) (m : Mem) :
    Mem × Except Err (Option (List Nat)) :=
  let ew := kw + vw
  match search (listKeys ew lw kw b m.bytes) (rdLE k) 0 with
  | .at i =>
    let pos := b + lw + i * ew + kw
    ({ m with bytes := wr m.bytes pos v }, .ok (some (rd m.bytes pos vw)))
  | .ins i =>
    match listInsertAll c ew lw b i [k ++ v] m with
    | (m1, .error er) => (m1, .error er)
    | (m1, .ok ()) => (m1, .ok none)

/-- `Map::insert_all`. -/
def mapInsertAll (c : Ctx) (kw vw lw b : Nat) :
    List (List Nat × List Nat) → Nat → Mem → Mem × Except Err Ret
  | [], n, m => (m, .ok (.count n))
  | (k, v) :: kvs, n, m =>
    match mapInsert c kw vw lw b k v m with
    | (m1, .error er) => (m1, .error er)
    | (m1, .ok old) => mapInsertAll c kw vw lw b kvs (if old.isNone then n + 1 else n) m1

/-- `Map::remove`. -/
def mapRemove (c : Ctx) (kw vw lw b : Nat) (k : List Nat) (m : Mem) : Mem × Except Err Ret :=
  let ew := kw + vw
  match search (listKeys ew lw kw b m.bytes) (rdLE k) 0 with
  | .ins _ => (m, .ok (.old none))
  | .at i =>
    let old := rd m.bytes (b + lw + i * ew + kw) vw
    match listRemoveRange c ew lw b i (i + 1) m with
    | (m1, .error er) => (m1, .error er)
    | (m1, .ok ()) => (m1, .ok (.old (some old)))

/-- `UnsizedString::set`: `clear()?` then `push_all(bytes)?`. -/
def strSet (c : Ctx) (lw b : Nat) (s : List Nat) (m : Mem) : Mem × Except Err Unit :=
  match listClear c 1 lw b m with
  | (m1, .error e) => (m1, .error e)
  | (m1, .ok ()) => listInsertAll c 1 lw b (rdN m1.bytes b lw) (s.map fun x => [x]) m1

/-! ## `RemainingBytes` at `b` -/

/-- `RemainingBytes::set_len`. -/
def remSetLen (c : Ctx) (b n : Nat) (m : Mem) : Mem × Except Err Unit :=
  let cur := m.bytes.length - b
  if cur < n then m.addBytesN c b (b + cur) (n - cur)
  else if cur = n then (m, .ok ())
  else m.removeBytesN c b (b + n) (b + cur)

/-! ## `set_data_inner` -/

/-- `ExclusiveWrapper::set_data_inner` on the node of shape `t` at `b`: resize the node to `newLen`
bytes at its START (`add_bytes(start, start, Δ)` / `remove_bytes(start..start+Δ)`), then run the
initialiser over `[b, b + newLen)`. `fails` = the initialiser returns an error (before writing). -/
def setDataInner (c : Ctx) (t : Shape) (b : Nat) (newBytes : List Nat) (fails : Bool) (m : Mem) :
    Mem × Except Err Unit :=
  match extent t (m.bytes.drop b) with
  | .error _ => (m, .error .parse)
  | .ok cur =>
    let new := newBytes.length
    let r := if cur < new then m.addBytesN c b b (new - cur)
             else if new < cur then m.removeBytesN c b b (b + (cur - new))
             else (m, .ok ())
    match r with
    | (m1, .error e) => (m1, .error e)
    | (m1, .ok ()) =>
      if fails then (m1, .error .initFail)
      else ({ m1 with bytes := wr m1.bytes b newBytes }, .ok ())

/-- Does `T::init(bytes, arg)` fail (`List`'s `[T; N]` initialiser: `L::from_usize(N)`, raised
before anything is written)? All other initialisers the ops use are infallible. -/
def initFails : Shape → Init → Bool
  | .list _ lw, .array es => decide (256 ^ lw ≤ es.length)
  | _, _ => false

/-! ## `UnsizedList<T, C>` at `b` (`cw = size_of::<C>()`) -/

/-- `get_offset(i)`. -/
def ulistOffset (cw b i : Nat) (bs : List Nat) : Nat :=
  if i < rd32 bs (b + 4) then rd32 bs (b + 8 + i * cw) else rd32 bs b

/-- Write `n` new table entries `le32 (off + j*sz) ++ key` from entry position `pos` and the `n`
initial element images from data position `dpos`. -/
def ulistFill (cw sz : Nat) (key img : List Nat) : (n pos dpos off : Nat) → List Nat → List Nat
  | 0, _, _, _, bs => bs
  | n + 1, pos, dpos, off, bs =>
    ulistFill cw sz key img n (pos + cw) (dpos + sz) (off + sz) (wr (wr bs dpos img) pos (leN 4 off ++ key))

/-- `UnsizedList::insert_all_with_offsets(idx, n × (init, key))` (`unsized_list.rs` 808–890).
All `n` items use the same initialiser `init` of the element shape `e` (the ops insert `n × DefaultInit`
or one `[T; N]`); `key` is the offset-entry payload (`[]` for `PackedValue<u32>`, the key for
`OrdOffset<K>`). -/
def ulistInsert (c : Ctx) (cw : Nat) (e : Shape) (b idx n : Nat) (init : Init) (key : List Nat)
    (m : Mem) : Mem × Except Err Unit :=
  let len := rd32 m.bytes (b + 4)
  if len < idx then (m, .error .ioob)
  else
    let offset := ulistOffset cw b idx m.bytes
    let udata := b + 8 + len * cw + 4
    let start := udata + offset
    let sz := initSize e init
    match m.addBytesN c b start ((sz + cw) * n) with
    | (m1, .error er) => (m1, .error er)
    | (m1, .ok ()) =>
      -- shift the offset-table tail, the len copy and the data before the insertion point
      let tpos := b + 8 + idx * cw
      let bs1 := memmove m1.bytes (tpos + n * cw) tpos (start - tpos)
      let newLen := len + n
      if Shape.u32Lim ≤ newLen then ({ m1 with bytes := bs1 }, .error .arith)
      else
        let bs2 := wr32 bs1 (b + 4) newLen
        let bs3 := wr32 bs2 (b + 8 + newLen * cw) newLen
        let usz := rd32 bs3 b
        let bs4 := wr32 bs3 b (usz + n * sz)
        match adjustOffsets cw b newLen (idx + n) false (n * sz) bs4 with
        | .error er => ({ m1 with bytes := bs4 }, .error er)
        | .ok bs5 =>
          if n = 0 then ({ m1 with bytes := bs5 }, .ok ())
          else if initFails e init then ({ m1 with bytes := bs5 }, .error .initFail)
          else
            let udata' := b + 8 + newLen * cw + 4
            ({ m1 with bytes := ulistFill cw sz key (initBytes e init) n tpos (udata' + offset) offset bs5 },
              .ok ())

/-- `UnsizedList::clear` (`unsized_list.rs` 1000–1028). -/
def ulistClear (c : Ctx) (cw b : Nat) (m : Mem) : Mem × Except Err Unit :=
  let usz := rd32 m.bytes b
  let len := rd32 m.bytes (b + 4)
  let udata := b + 8 + len * cw + 4
  match m.removeBytesN c b (b + 8 + 4) (udata + usz) with
  | (m1, .error e) => (m1, .error e)
  | (m1, .ok ()) =>
    ({ m1 with bytes := wr32 (wr32 (wr32 m1.bytes (b + 4) 0) (b + 8) 0) b 0 }, .ok ())

/-- `UnsizedList::remove_range(lo..hi)` (`unsized_list.rs` 903–998). -/
def ulistRemoveRange (c : Ctx) (cw b lo hi : Nat) (m : Mem) : Mem × Except Err Unit :=
  let len := rd32 m.bytes (b + 4)
  if lo = 0 ∧ hi = len then ulistClear c cw b m
  else if hi < lo then (m, .error .range)
  else if len < hi then (m, .error .ioob)
  else
    let so := ulistOffset cw b lo m.bytes
    let eo := ulistOffset cw b hi m.bytes
    let udata := b + 8 + len * cw + 4
    let n := hi - lo
    let removed := eo - so
    -- close the gap in the offset table (moves the table tail, the len copy, the data before `so`)
    let dst := b + 8 + lo * cw
    let src := b + 8 + hi * cw
    let bs1 := memmove m.bytes dst src (udata + so - src)
    match ({ m with bytes := bs1 } : Mem).removeBytesN c b (udata + so - cw * n) (udata + eo) with
    | (m1, .error e) => (m1, .error e)
    | (m1, .ok ()) =>
      let newLen := len - n
      let bs2 := wr32 m1.bytes (b + 4) newLen
      let bs3 := wr32 bs2 (b + 8 + newLen * cw) newLen
      let usz := rd32 bs3 b
      let bs4 := wr32 bs3 b (usz - removed)
      match adjustOffsets cw b newLen lo true removed bs4 with
      | .error e => ({ m1 with bytes := bs4 }, .error e)
      | .ok bs5 => ({ m1 with bytes := bs5 }, .ok ())

/-- `UnsizedList::pop`. -/
def ulistPop (c : Ctx) (cw b : Nat) (m : Mem) : Mem × Except Err Ret :=
  let len := rd32 m.bytes (b + 4)
  if len = 0 then (m, .ok (.flag false))
  else match ulistRemoveRange c cw b (len - 1) len m with
    | (m1, .error e) => (m1, .error e)
    | (m1, .ok ()) => (m1, .ok (.flag true))

/-- The keys of the offset table of an `UnsizedMap` (bytes `4..4+kw` of every entry). -/
def umapKeys (kw b : Nat) (bs : List Nat) : List Nat :=
  (chunks (Shape.entryW kw) (rd32 bs (b + 4)) (bs.drop (b + 8))).map fun en => rdLE ((en.drop 4).take kw)

/-- `UnsizedList::get(i)` / `UnsizedMap::get_by_index(i)` rendered through the element's `get` view. -/
def ulistGet (cw kw : Nat) (e : Shape) (b i : Nat) (bs : List Nat) : Except Err Ret :=
  let usz := rd32 bs b
  let len := rd32 bs (b + 4)
  if len ≤ i then .ok (.elem none)
  else
    let udata := b + 8 + len * cw + 4
    let s := rd32 bs (b + 8 + i * cw)
    let t := ulistOffset cw b (i + 1) bs
    if t < s ∨ usz < t then .error .parse
    else
      let slice := rd bs (udata + s) (t - s)
      match extent e slice with
      | .error _ => .error .parse
      | .ok _ =>
        match view .get e slice with
        | .error _ => .ok .elemErr
        | .ok v => .ok (.elem (some (rd bs (b + 8 + i * cw + 4) kw, v)))

/-! ## One op on the node of shape `t` at `b` -/

/-- The initialiser of `uinsert_arr` / `uminsert_arr`. -/
def arrOk (e : Shape) (es : List (List Nat)) : Bool :=
  match e with
  | .list ee _ => arrNs.contains es.length && es.all (validE ee)
  | _ => false

def unitRes : Mem × Except Err Unit → Mem × Except Err Ret
  | (m, .error e) => (m, .error e)
  | (m, .ok ()) => (m, .ok .unit)

/-- `UnsizedMap::insert(k, init)`. `c.path` is the path of the map. -/
def umapInsert (c : Ctx) (kw : Nat) (e : Shape) (b : Nat) (k : List Nat) (init : Init) (m : Mem) :
    Mem × Except Err Ret :=
  let cw := Shape.entryW kw
  match search (umapKeys kw b m.bytes) (rdLE k) 0 with
  | .at i =>
    -- `list.index_exclusive(i)?.set_from_init(init)`
    let len := rd32 m.bytes (b + 4)
    let eb := b + 8 + len * cw + 4 + rd32 m.bytes (b + 8 + i * cw)
    match setDataInner { c with path := c.path ++ [.elem i] } e eb (initBytes e init) (initFails e init) m with
    | (m1, .error er) => (m1, .error er)
    | (m1, .ok ()) => (m1, .ok (.flag false))
  | .ins i =>
    match ulistInsert c cw e b i 1 init k m with
    | (m1, .error er) => (m1, .error er)
    | (m1, .ok ()) => (m1, .ok (.flag true))

/-- Apply `op` to the node `(t, b)` reached through the accessor chain `c.path`. -/
def applyAt (c : Ctx) (t : Shape) (b : Nat) (op : Op) (m : Mem) : Mem × Except Err Ret :=
  match op with
  | .touch => (m, .ok .unit)
  | .replace v =>
    if WF t v then unitRes (setDataInner c t b (encode t v) false m) else (m, .error .bad)
  | .reset =>
    if initOk t .default then unitRes (setDataInner c t b (initBytes t .default) false m)
    else (m, .error .bad)
  | op =>
  match t with
  | .fixed f =>
    match op with
    | .write h => if validE f h then ({ m with bytes := wr m.bytes b h }, .ok .unit) else (m, .error .bad)
    | _ => (m, .error .bad)
  | .struct sized _ =>
    match op with
    | .write h =>
      if validE (.record sized) h then ({ m with bytes := wr m.bytes b h }, .ok .unit)
      else (m, .error .bad)
    | _ => (m, .error .bad)
  | .list e lw =>
    let ew := e.size
    let len := rdN m.bytes b lw
    match op with
    | .push x => if validE e x then unitRes (listInsertAll c ew lw b len [x] m) else (m, .error .bad)
    | .insert i x => if validE e x then unitRes (listInsertAll c ew lw b i [x] m) else (m, .error .bad)
    | .insertAll i xs =>
      if xs.all (validE e) then unitRes (listInsertAll c ew lw b i xs m) else (m, .error .bad)
    | .remove i => unitRes (listRemoveRange c ew lw b i (i + 1) m)
    | .removeRange lo hi => unitRes (listRemoveRange c ew lw b lo hi m)
    | .pop => listPop c ew lw b m
    | .clear => unitRes (listClear c ew lw b m)
    | .set i x =>
      if validE e x then
        if i < len then ({ m with bytes := wr m.bytes (b + lw + i * ew) x }, .ok (.flag true))
        else (m, .ok (.flag false))
      else (m, .error .bad)
    | _ => (m, .error .bad)
  | .set e lw =>
    let ew := e.size
    match op with
    | .sinsert x =>
      if validE e x then
        match setInsert c ew lw b x m with
        | (m1, .error er) => (m1, .error er)
        | (m1, .ok new) => (m1, .ok (.flag new))
      else (m, .error .bad)
    | .sremove x => if validE e x then setRemove c ew lw b x m else (m, .error .bad)
    | .sinsertAll xs => if xs.all (validE e) then setInsertAll c ew lw b xs 0 m else (m, .error .bad)
    | .clear => unitRes (listClear c ew lw b m)
    | _ => (m, .error .bad)
  | .map kw v lw =>
    let vw := v.size
    match op with
    | .minsert k x =>
      if k.length == kw && decide (BytesWF k) && validE v x then
        match mapInsert c kw vw lw b k x m with
        | (m1, .error er) => (m1, .error er)
        | (m1, .ok old) => (m1, .ok (.old old))
      else (m, .error .bad)
    | .mremove k =>
      if k.length == kw && decide (BytesWF k) then mapRemove c kw vw lw b k m else (m, .error .bad)
    | .mset k x =>
      if k.length == kw && decide (BytesWF k) && validE v x then
        match search (listKeys (kw + vw) lw kw b m.bytes) (rdLE k) 0 with
        | .at i => ({ m with bytes := wr m.bytes (b + lw + i * (kw + vw) + kw) x }, .ok (.flag true))
        | .ins _ => (m, .ok (.flag false))
      else (m, .error .bad)
    | .minsertAll kvs =>
      if kvs.all (fun kx => kx.1.length == kw && decide (BytesWF kx.1) && validE v kx.2) then
        mapInsertAll c kw vw lw b kvs 0 m
      else (m, .error .bad)
    | .clear => unitRes (listClear c (kw + vw) lw b m)
    | _ => (m, .error .bad)
  | .str lw =>
    match op with
    | .strSet s =>
      if utf8Valid s && decide (BytesWF s) then unitRes (strSet c lw b s m) else (m, .error .bad)
    | _ => (m, .error .bad)
  | .rem =>
    match op with
    | .setLen n => unitRes (remSetLen c b n m)
    | .set i x =>
      if x.length == 1 && decide (BytesWF x) then
        if i < m.bytes.length - b then ({ m with bytes := wr m.bytes (b + i) x }, .ok (.flag true))
        else (m, .ok (.flag false))
      else (m, .error .bad)
    | _ => (m, .error .bad)
  | .ulist e =>
    match op with
    | .uinsert i n => unitRes (ulistInsert c 4 e b i n .default [] m)
    | .uinsertArr i xs =>
      if arrOk e xs then unitRes (ulistInsert c 4 e b i 1 (.array xs) [] m) else (m, .error .bad)
    | .remove i => unitRes (ulistRemoveRange c 4 b i (i + 1) m)
    | .removeRange lo hi => unitRes (ulistRemoveRange c 4 b lo hi m)
    | .pop => ulistPop c 4 b m
    | .clear => unitRes (ulistClear c 4 b m)
    | .uget i =>
      match ulistGet 4 0 e b i m.bytes with
      | .error er => (m, .error er)
      | .ok r => (m, .ok r)
    | .utouch i => (m, .ok (.flag (decide (i < rd32 m.bytes (b + 4)))))
    | _ => (m, .error .bad)
  | .umap kw e =>
    let cw := Shape.entryW kw
    match op with
    | .uminsert k =>
      if k.length == kw && decide (BytesWF k) then umapInsert c kw e b k .default m else (m, .error .bad)
    | .uminsertArr k xs =>
      if k.length == kw && decide (BytesWF k) && arrOk e xs then umapInsert c kw e b k (.array xs) m
      else (m, .error .bad)
    | .umremove k =>
      if k.length == kw && decide (BytesWF k) then
        match search (umapKeys kw b m.bytes) (rdLE k) 0 with
        | .ins _ => (m, .ok (.flag false))
        | .at i =>
          match ulistRemoveRange c cw b i (i + 1) m with
          | (m1, .error er) => (m1, .error er)
          | (m1, .ok ()) => (m1, .ok (.flag true))
      else (m, .error .bad)
    | .clear => unitRes (ulistRemoveRange c cw b 0 (rd32 m.bytes (b + 4)) m)
    | .uget i =>
      match ulistGet cw kw e b i m.bytes with
      | .error er => (m, .error er)
      | .ok r => (m, .ok r)
    | .utouch i => (m, .ok (.flag (decide (i < rd32 m.bytes (b + 4)))))
    | _ => (m, .error .bad)
  | .enum ds _ =>
    match op with
    | .setVariant idx =>
      if idx < ds.length ∧ initOk t (.variant idx .default) then
        unitRes (setDataInner c t b (initBytes t (.variant idx .default)) false m)
      else (m, .error .bad)
    | _ => (m, .error .bad)
  | _ => (m, .error .bad)

/-- One op line `op path…` called on the accessor at absolute path `abs` of the top type `s`. -/
def applyOp (s : Shape) (abs : List Step) (op : Op) (m : Mem) : Mem × Except Err Ret :=
  match locate s abs 0 m.bytes with
  | .error e => (m, .error e)
  | .ok (t, b) => applyAt ⟨s, abs⟩ t b op m

end Unsized.Machine
