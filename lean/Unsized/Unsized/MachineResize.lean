import Unsized.MachineLocate
/-!
# Resizing inside a sub-value of a canonical buffer: `grow_at`, `shrink_at` (resize + notification =
`plug` of the spliced node), `grow_refused`, and reads / writes inside the hole (`plug_wr`, `plug_rd`)
-/
namespace Unsized.Machine
open Common Unsized Unsized.Text

theorem plug_self (p : List Step) : ∀ (s : Shape) (v : Val) (t : Shape) (u : Val), Good s v →
    resolve s v p = .ok (t, u) → plug s v p (encode t u) = encode s v := by
  induction p with
  | nil => intro s v t u g h; simp [resolve] at h; obtain ⟨rfl, rfl⟩ := h; simp [plug]
  | cons st p ih =>
    intro s v t u g h
    simp only [resolve] at h
    cases h1 : resolve1 s v st with
    | error e => simp [h1] at h
    | ok tu =>
      obtain ⟨t1, u1⟩ := tu
      simp only [h1] at h
      obtain ⟨g1, henc, _, _⟩ := step_facts s v st t1 u1 g h1
      simp only [plug, h1, ih t1 u1 t u g1 h]
      exact henc.symm

/-- The canonical bytes, split around the sub-value at `p`. -/
theorem encode_split (p : List Step) (s : Shape) (v : Val) (t : Shape) (u : Val) (g : Good s v)
    (h : resolve s v p = .ok (t, u)) :
    ∃ A C : List Nat, A.length = offsetOf s v p ∧ encode s v = A ++ encode t u ++ C
      ∧ ∀ X : List Nat, splice (encode s v) (offsetOf s v p) (encode t u).length X = A ++ X ++ C := by
  obtain ⟨C, hC⟩ := plug_decomp p s v t u g h
  obtain ⟨A, hA, hAX⟩ := hC (encode t u).length
  have henc : encode s v = A ++ encode t u ++ C := by
    rw [← plug_self p s v t u g h]; exact hAX _ rfl
  refine ⟨A, C, hA, henc, fun X => ?_⟩
  rw [henc]
  have := splice_mid A (encode t u) C X 0 (encode t u).length (offsetOf s v p) hA.symm (by omega)
  simp only [Nat.add_zero] at this
  rw [this, splice_self]

/-- Growth is neither refused by the schedule nor beyond the limit. -/
structure Room (m : Mem) (amt : Nat) : Prop where
  noRefuse : m.grows + 1 ∉ m.refuse
  limit : m.bytes.length + amt ≤ m.orig + maxIncrease

/-- **`add_bytes` inside the sub-value at `p`** (`k` bytes after its start): the result is the value with
the gap spliced in and all enclosing list headers updated. The gap content `G` is stale. -/
theorem grow_at (p : List Step) (s : Shape) (v : Val) (t : Shape) (u : Val) (g : Good s v)
    (h : resolve s v p = .ok (t, u)) (m : Mem) (hm : m.bytes = encode s v) (k amt : Nat)
    (hk : k ≤ (encode t u).length) (hamt : 0 < amt) (hroom : Room m amt)
    (hbig : (encode s v).length + amt < Shape.u32Lim) :
    ∃ G : List Nat, G = ((m.bytes.drop (offsetOf s v p + k) ++ List.replicate amt 0).take amt) ∧ G.length = amt ∧
      m.addBytesN ⟨s, p⟩ (offsetOf s v p) (offsetOf s v p + k) amt
        = ({ m with grows := m.grows + 1,
                    bytes := plug s v p ((encode t u).take k ++ G ++ (encode t u).drop k) }, .ok ()) := by
  obtain ⟨A, C, hA, henc, hsp⟩ := encode_split p s v t u g h
  obtain ⟨G, hG⟩ : ∃ G, G = ((m.bytes.drop (offsetOf s v p + k) ++ List.replicate amt 0).take amt) := ⟨_, rfl⟩
  have hGl : G.length = amt := by rw [hG]; simp
  refine ⟨G, hG, hGl, ?_⟩
  have hle := offsetOf_le p s v t u g h
  have hraw : addBytesRaw m.bytes (offsetOf s v p + k) amt
      = splice (encode s v) (offsetOf s v p) (encode t u).length
          ((encode t u).take k ++ G ++ (encode t u).drop k) := by
    rw [hsp, addBytesRaw, ← hG, hm, henc]
    have e : A ++ encode t u ++ C = A ++ (encode t u ++ C) := List.append_assoc ..
    rw [e, take_append_add A _ _ _ hA.symm, drop_append_add A _ _ _ hA.symm,
      List.take_append_of_le_length hk, List.drop_append_of_le_length hk]
    simp [List.append_assoc]
  have hnot := notify_plug p s v t u g h [] [] ((encode t u).take k ++ G ++ (encode t u).drop k) 0
    (offsetOf s v p) false amt rfl hamt
    (by simp [applyDelta, hGl]; omega) (by intro h; cases h) (by simp) (fun _ => hbig)
  simp only [List.nil_append, List.append_nil] at hnot
  unfold Mem.addBytesN Mem.addBytes
  have h1 : ¬ m.bytes.length < offsetOf s v p + k := by rw [hm]; omega
  have h2 : amt ≠ 0 := by omega
  have h4 : ¬ m.orig + maxIncrease < m.bytes.length + amt := by have := hroom.limit; omega
  simp only [h1, h2, hroom.noRefuse, h4, if_false, hraw, hnot]


/-- **`remove_bytes` inside the sub-value at `p`** (`[k1, k2)` relative to its start). -/
theorem shrink_at (p : List Step) (s : Shape) (v : Val) (t : Shape) (u : Val) (g : Good s v)
    (h : resolve s v p = .ok (t, u)) (m : Mem) (hm : m.bytes = encode s v) (k1 k2 : Nat)
    (hk : k1 < k2) (hk2 : k2 ≤ (encode t u).length) :
    m.removeBytesN ⟨s, p⟩ (offsetOf s v p) (offsetOf s v p + k1) (offsetOf s v p + k2)
      = ({ m with bytes := plug s v p ((encode t u).take k1 ++ (encode t u).drop k2) }, .ok ()) := by
  obtain ⟨A, C, hA, henc, hsp⟩ := encode_split p s v t u g h
  have hle := offsetOf_le p s v t u g h
  have hraw : removeBytesRaw m.bytes (offsetOf s v p + k1) (offsetOf s v p + k2)
      = splice (encode s v) (offsetOf s v p) (encode t u).length
          ((encode t u).take k1 ++ (encode t u).drop k2) := by
    rw [hsp, removeBytesRaw, hm, henc]
    have e : A ++ encode t u ++ C = A ++ (encode t u ++ C) := List.append_assoc ..
    rw [e, take_append_add A _ _ _ hA.symm, drop_append_add A _ _ _ hA.symm,
      List.take_append_of_le_length (by omega), List.drop_append_of_le_length hk2]
    simp [List.append_assoc]
  have hnot := notify_plug p s v t u g h [] [] ((encode t u).take k1 ++ (encode t u).drop k2) 0
    (offsetOf s v p) true (k2 - k1) rfl (by omega)
    (by simp [applyDelta]; omega) (by intro _; omega) (by simp) (by intro h; cases h)
  simp only [List.nil_append, List.append_nil] at hnot
  unfold Mem.removeBytesN Mem.removeBytes
  have h1 : ¬ m.bytes.length < offsetOf s v p + k1 := by rw [hm]; omega
  have h2 : ¬ offsetOf s v p + k2 < offsetOf s v p + k1 := by omega
  have h3 : ¬ m.bytes.length < offsetOf s v p + k2 := by rw [hm]; omega
  have h4 : offsetOf s v p + k2 ≠ offsetOf s v p + k1 := by omega
  have h5 : offsetOf s v p + k2 - (offsetOf s v p + k1) = k2 - k1 := by omega
  simp only [h1, h2, h3, h4, if_false, hraw, h5, hnot]

/-- A growth that is refused (schedule or limit) changes nothing but the counter. -/
theorem grow_refused (c : Ctx) (m : Mem) (src start amt : Nat) (hs : start ≤ m.bytes.length) (hamt : 0 < amt)
    (hr : m.grows + 1 ∈ m.refuse ∨ m.orig + maxIncrease < m.bytes.length + amt) :
    m.addBytesN c src start amt = ({ m with grows := m.grows + 1 }, .error .realloc) := by
  unfold Mem.addBytesN Mem.addBytes
  have h1 : ¬ m.bytes.length < start := by omega
  have h2 : amt ≠ 0 := by omega
  simp only [h1, h2, if_false]
  rcases hr with hr | hr
  · simp only [hr, if_true]
  · by_cases h3 : m.grows + 1 ∈ m.refuse
    · simp only [h3, if_true]
    · simp only [h3, hr, if_false, if_true]

/-- Writing inside the plugged hole. -/
theorem plug_wr (p : List Step) (s : Shape) (v : Val) (t : Shape) (u : Val) (g : Good s v)
    (h : resolve s v p = .ok (t, u)) (X w : List Nat) (k : Nat) (hk : k + w.length ≤ X.length) :
    wr (plug s v p X) (offsetOf s v p + k) w = plug s v p (wr X k w) := by
  obtain ⟨C, hC⟩ := plug_decomp p s v t u g h
  obtain ⟨A, hA, hAX⟩ := hC X.length
  rw [hAX X rfl, hAX (wr X k w) (wr_length X k w hk), wr_mid A X C _ k w hA.symm hk]

/-- Reading inside the plugged hole. -/
theorem plug_rd (p : List Step) (s : Shape) (v : Val) (t : Shape) (u : Val) (g : Good s v)
    (h : resolve s v p = .ok (t, u)) (X : List Nat) (k n : Nat) (hk : k + n ≤ X.length) :
    rd (plug s v p X) (offsetOf s v p + k) n = rd X k n := by
  obtain ⟨C, hC⟩ := plug_decomp p s v t u g h
  obtain ⟨A, hA, hAX⟩ := hC X.length
  rw [hAX X rfl, rd_mid A X C _ k n hA.symm hk]

theorem plug_rdN (p : List Step) (s : Shape) (v : Val) (t : Shape) (u : Val) (g : Good s v)
    (h : resolve s v p = .ok (t, u)) (X : List Nat) (k w : Nat) (hk : k + w ≤ X.length) :
    rdN (plug s v p X) (offsetOf s v p + k) w = rdN X k w := by
  unfold rdN; rw [plug_rd p s v t u g h X k w hk]

/-- On canonical bytes the node's own bytes are read. -/
theorem enc_rdN (p : List Step) (s : Shape) (v : Val) (t : Shape) (u : Val) (g : Good s v)
    (h : resolve s v p = .ok (t, u)) (k w : Nat) (hk : k + w ≤ (encode t u).length) :
    rdN (encode s v) (offsetOf s v p + k) w = rdN (encode t u) k w := by
  rw [← plug_self p s v t u g h, plug_rdN p s v t u g h _ k w hk]

theorem enc_rd (p : List Step) (s : Shape) (v : Val) (t : Shape) (u : Val) (g : Good s v)
    (h : resolve s v p = .ok (t, u)) (k n : Nat) (hk : k + n ≤ (encode t u).length) :
    rd (encode s v) (offsetOf s v p + k) n = rd (encode t u) k n := by
  rw [← plug_self p s v t u g h, plug_rd p s v t u g h _ k n hk]

theorem enc_wr (p : List Step) (s : Shape) (v : Val) (t : Shape) (u : Val) (g : Good s v)
    (h : resolve s v p = .ok (t, u)) (w : List Nat) (k : Nat) (hk : k + w.length ≤ (encode t u).length) :
    wr (encode s v) (offsetOf s v p + k) w = plug s v p (wr (encode t u) k w) := by
  conv => lhs; rw [← plug_self p s v t u g h]
  rw [plug_wr p s v t u g h _ w k hk]

end Unsized.Machine
