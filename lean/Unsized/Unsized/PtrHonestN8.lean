import Unsized.PtrHonestN7
namespace Unsized.Ptr
open Common Unsized Unsized.Text Unsized.Machine Unsized.PtrT Unsized.PtrM

/-- `opAt` for a multi-resize op on a single-address node, WHATEVER its result (success, or the registered
findings: stopped half-way), given what `runEvs` does with its events and that the bytes are canonical for the
value with the node replaced by `u'` (the partially updated value on an error exit). -/
theorem opAt_hon_comp_any {w : World} {s : Shape} {v : Val} (c : PCtx w .A s v) (π : List Step) (t : Shape) (u : Val)
    (hres : resolve s v π = .ok (t, u)) (T : PtrTree) (hp : HonPath s v w.a.base π w.a.root T)
    (hT : Hon t u (w.a.base + offsetOf s v π) T) (hl : leafy t = true) (op : Op) (hcomp : simpleOp op = false)
    (hpre : ∀ len fd, preOf t len fd op = .none) (hsd : setDataLen t op = none)
    (m' : Mem) (res : Except Err Ret) (evs : List Ev) (u' : Val)
    (htr : applyAtT ⟨s, π⟩ t (offsetOf s v π) op w.a.mem = ((m', res), evs))
    (hrun : ∀ R, HonPath s v w.a.base π R T → ∃ R', runEvs w w.a R evs = .ok R'
      ∧ HonPath s (subst s v π u') w.a.base π R' T)
    (F' : Focus s (subst s v π u') π t u' m') (ho : m'.orig = w.a.mem.orig) (hr : m'.refuse = w.a.mem.refuse)
    (hroom : (encode s (subst s v π u')).length ≤ w.a.mem.orig + maxIncrease) :
    StepRes w s v π t u op (opAt w .A ⟨s, π⟩ (tpath s v π) t op) := by
  have F : Focus s v π t u w.a.mem := ⟨c.good, hres, c.bytes⟩
  have gt := F.sub
  have hnl : ∀ e, t ≠ .ulist e := by intro e h; subst h; simp [leafy] at hl
  have hnm : ∀ kw e, t ≠ .umap kw e := by intro kw e h; subst h; simp [leafy] at hl
  obtain ⟨hsub, hrep⟩ := honPath_nav π s v t u _ _ T c.good hres hp
  have hle := offsetOf_le π s v t u c.good hres
  have hbytes := c.bytes
  simp only [World.get] at hbytes
  have hlno : ∀ t2, listOf t t2 = none := fun t2 => listOf_none t t2 hnl hnm
  have hon : ∀ t2 f, onList t t2 f = t2 := fun t2 f => onList_other t t2 f hnl hnm
  have hTeq := (hon_leafy t u u' _ T hl hT)
  have hsa : startAddr T = some (w.a.base + offsetOf s v π) := by
    rw [hTeq.1]; cases t <;> simp [leafy] at hl <;> rfl
  unfold opAt
  simp only [World.get, hsub, hsa]
  have hown : w.owner (w.a.base + offsetOf s v π) = some .A :=
    ownsOwn_A w _ (by simp [World.get, PBuf.owns, hbytes]; omega)
  have hb : w.a.base + offsetOf s v π - w.a.base = offsetOf s v π := by omega
  simp only [hown, World.get, hb, htr]
  obtain ⟨R1, hR1, hp1⟩ := hrep T
  obtain ⟨R', hrunE, hp2⟩ := hrun R1 hp1
  have g' := F'.good
  have hres' := resolve_subst π s v t u u' hres
  have hoff' := offsetOf_subst π s v t u u' c.good hres
  have htp' := tpath_subst π s v t u u' hres
  obtain ⟨hsub2, hrep2⟩ := honPath_nav π s _ t u' _ _ T g' hres' hp2
  rw [htp'] at hsub2 hrep2
  cases res with
  | ok r =>
    simp only [hpre, runPre, hR1, Option.getD_some, hrunE, if_true, hsub2, hon, hlno, hsa, hsd]
    obtain ⟨R3, hR3, hp3⟩ := hrep2 T
    simp only [hR3, Option.getD_some, StepRes]
    refine ⟨subst s v π u', u', T, ?_, hres', ?_, ?_, rfl, rfl, ?_, rfl, rfl, rfl, Or.inr (Or.inr ⟨hcomp, rfl⟩)⟩
    · exact pctx_after c m' R3 g' F'.bytes ho hr hroom
    · simpa [World.set, World.get] using hp3
    · simp only [World.set, World.get, hoff']; exact hTeq.2
    · simpa [World.set, World.get] using ho
  | error e =>
    cases e
    case bad => simp only [StepRes]
    all_goals (
      simp only [hpre, runPre, hR1, Option.getD_some, hrunE, Bool.false_eq_true, if_false, StepRes]
      refine ⟨subst s v π u', u', T, ?_, hres', ?_, ?_, rfl, rfl, ?_, rfl, rfl, rfl, Or.inr (Or.inr ⟨hcomp, rfl⟩)⟩
      · exact pctx_after c m' R' g' F'.bytes ho hr hroom
      · simpa [World.set, World.get] using hp2
      · simp only [World.set, World.get, hoff']; exact hTeq.2
      · simpa [World.set, World.get] using ho)


/-- The canonical bytes determine the value (`own ∘ encode = id`, C05). -/
theorem encode_inj_good {s : Shape} {v v' : Val} (g : Good s v) (g' : Good s v') (h : encode s v = encode s v') :
    v = v' := by
  obtain ⟨top, ie, hok⟩ := g.ok
  have h1 := (roundTrip_all s top ie hok v [] g.valid g.fits (Or.inl rfl)).2
  obtain ⟨top', ie', hok'⟩ := g'.ok
  have h2 := (roundTrip_all s top' ie' hok' v' [] g'.valid g'.fits (Or.inl rfl)).2
  rw [h] at h1; rw [h1] at h2; cases h2; rfl

/-- **The three composite ops, every exit, no side condition**: afterwards the world is honest for the value
the bytes now encode (the fully or the partially updated one). -/
theorem opAt_hon_comp_all {w : World} {s : Shape} {v : Val} (c : PCtx w .A s v) (π : List Step) (t : Shape) (u : Val)
    (hres : resolve s v π = .ok (t, u)) (T : PtrTree) (hp : HonPath s v w.a.base π w.a.root T)
    (hT : Hon t u (w.a.base + offsetOf s v π) T) (op : Op) (hcomp : simpleOp op = false) :
    StepRes w s v π t u op (opAt w .A ⟨s, π⟩ (tpath s v π) t op) := by
  have gt : Good t u := (Focus.sub ⟨c.good, hres, c.bytes⟩)
  have cm := c.calm
  simp only [World.get] at cm
  cases op <;> simp [simpleOp] at hcomp
  case sinsertAll xs =>
    cases t with
    | set e lw =>
      obtain ⟨es, rfl⟩ := good_set_val e lw u gt
      have F : Focus s v π (.set e lw) (.seq es) w.a.mem := ⟨c.good, hres, c.bytes⟩
      by_cases hval : xs.all (validE e) = true
      · have hval' : ∀ x ∈ xs, validE e x = true := List.all_eq_true.1 hval
        obtain ⟨m', res, evs, _, es', hm', _, _, F', ho', hr', c'⟩ := run_setInsertAll_any (amb_of_ctx c) w π e lw T xs
          v w.a.mem es 0 w.a.root F cm rfl hp hT hval'
        refine opAt_hon_comp_any c π _ _ hres T hp hT rfl _ rfl (fun _ _ => rfl) rfl m' res evs (.seq es')
          (by simp only [applyAtT, hval, if_true]; exact hm') ?_ F' ho' hr'
          (by rw [← F'.bytes, ← ho']; exact c'.fitsNow)
        intro R hpR
        obtain ⟨m2, res2, evs2, R', es2, hm2, hrun, hp', F2, _⟩ := run_setInsertAll_any (amb_of_ctx c) w π e lw T xs
          v w.a.mem es 0 R F cm rfl hpR hT hval'
        rw [hm'] at hm2
        simp only [Prod.mk.injEq] at hm2
        obtain ⟨⟨rfl, rfl⟩, rfl⟩ := hm2
        -- the value is determined by the bytes
        have hv2 : subst s v π (.seq es2) = subst s v π (.seq es') :=
          encode_inj_good F2.good F'.good (by rw [← F2.bytes, ← F'.bytes])
        rw [hv2] at hp'
        exact ⟨R', hrun, hp'⟩
      · exact opAt_hon_bad c π _ _ hres T hp hT _ ⟨w.a.mem, [], by simp only [applyAtT, hval, Bool.false_eq_true, if_false]⟩
    | _ => exact opAt_hon_bad c π _ _ hres T hp hT _ ⟨w.a.mem, [], by simp [applyAtT, applyAt]⟩
  case minsertAll kvs =>
    cases t with
    | map kw f lw =>
      obtain ⟨es, rfl⟩ := good_map_val kw f lw u gt
      have F : Focus s v π (.map kw f lw) (.seq es) w.a.mem := ⟨c.good, hres, c.bytes⟩
      by_cases hval : kvs.all (fun kx => kx.1.length == kw && decide (BytesWF kx.1) && validE f kx.2) = true
      · have hval' : ∀ kx ∈ kvs, kx.1.length = kw ∧ BytesWF kx.1 ∧ validE f kx.2 = true := by
          intro kx hkx
          have := List.all_eq_true.1 hval kx hkx
          simp only [Bool.and_eq_true, beq_iff_eq, decide_eq_true_eq] at this
          exact ⟨this.1.1, this.1.2, this.2⟩
        obtain ⟨m', res, evs, _, es', hm', _, _, F', ho', hr', c'⟩ := run_mapInsertAll_any (amb_of_ctx c) w π kw f lw T kvs
          v w.a.mem es 0 w.a.root F cm rfl hp hT hval'
        refine opAt_hon_comp_any c π _ _ hres T hp hT rfl _ rfl (fun _ _ => rfl) rfl m' res evs (.seq es')
          (by simp only [applyAtT, hval, if_true]; exact hm') ?_ F' ho' hr'
          (by rw [← F'.bytes, ← ho']; exact c'.fitsNow)
        intro R hpR
        obtain ⟨m2, res2, evs2, R', es2, hm2, hrun, hp', F2, _⟩ := run_mapInsertAll_any (amb_of_ctx c) w π kw f lw T kvs
          v w.a.mem es 0 R F cm rfl hpR hT hval'
        rw [hm'] at hm2
        simp only [Prod.mk.injEq] at hm2
        obtain ⟨⟨rfl, rfl⟩, rfl⟩ := hm2
        have hv2 : subst s v π (.seq es2) = subst s v π (.seq es') :=
          encode_inj_good F2.good F'.good (by rw [← F2.bytes, ← F'.bytes])
        rw [hv2] at hp'
        exact ⟨R', hrun, hp'⟩
      · exact opAt_hon_bad c π _ _ hres T hp hT _ ⟨w.a.mem, [], by simp only [applyAtT, hval, Bool.false_eq_true, if_false]⟩
    | _ => exact opAt_hon_bad c π _ _ hres T hp hT _ ⟨w.a.mem, [], by simp [applyAtT, applyAt]⟩
  case strSet sb =>
    cases t with
    | str lw =>
      obtain ⟨l, rfl⟩ := good_str_val lw u gt
      have F : Focus s v π (.str lw) (.bytes l) w.a.mem := ⟨c.good, hres, c.bytes⟩
      by_cases hx : (utf8Valid sb && decide (BytesWF sb)) = true
      · obtain ⟨m', res, evs, _, l', hm', _, _, F', ho', hr', c'⟩ := run_strSet_any (amb_of_ctx c) w π lw l sb T w.a.root
          v w.a.mem F cm rfl hp hT hx
        have htr : applyAtT ⟨s, π⟩ (.str lw) (offsetOf s v π) (.strSet sb) w.a.mem
            = ((m', match res with | .ok () => .ok .unit | .error e => .error e), evs) := by
          simp only [applyAtT, hx, if_true, hm']
          cases res <;> rfl
        refine opAt_hon_comp_any c π _ _ hres T hp hT rfl _ rfl (fun _ _ => rfl) rfl m' _ evs (.bytes l')
          htr ?_ F' ho' hr' (by rw [← F'.bytes, ← ho']; exact c'.fitsNow)
        intro R hpR
        obtain ⟨m2, res2, evs2, R', l2, hm2, hrun, hp', F2, _⟩ := run_strSet_any (amb_of_ctx c) w π lw l sb T R
          v w.a.mem F cm rfl hpR hT hx
        rw [hm'] at hm2
        simp only [Prod.mk.injEq] at hm2
        obtain ⟨⟨rfl, rfl⟩, rfl⟩ := hm2
        have hv2 : subst s v π (.bytes l2) = subst s v π (.bytes l') :=
          encode_inj_good F2.good F'.good (by rw [← F2.bytes, ← F'.bytes])
        rw [hv2] at hp'
        exact ⟨R', hrun, hp'⟩
      · exact opAt_hon_bad c π _ _ hres T hp hT _ ⟨w.a.mem, [], by simp only [applyAtT, hx, Bool.false_eq_true, if_false]⟩
    | _ => exact opAt_hon_bad c π _ _ hres T hp hT _ ⟨w.a.mem, [], by simp [applyAtT, applyAt]⟩

end Unsized.Ptr
