import Unsized.MachineAtomicSeq
import Unsized.MachineUmapAtomic
/-!
# Atomicity and canonical-on-error for EVERY node kind and every op, under ANY refusal schedule
(`node_atomic_all`, `node_err_canonical`, `applyOp_atomic_all`, `applyOp_err_canonical`)

Wires the per-container results into one statement: `MachineAtomic.lean` (fixed / list / str / rem / struct /
enum, generic ops), `MachineAtomicSeq.lean` (set / map, by b-proof-map), `MachineUlistAtomic.lean` /
`MachineUmapAtomic.lean` (ulist / umap, by b-proof-map on b-proof-ulist's byte algebra).
-/
namespace Unsized.Machine
open Common Unsized Unsized.Text

/-- **Atomicity of every single-container op on every node kind, any refusal schedule**: an error other
than the known-finding class `initFail` leaves bytes, `orig` and the schedule untouched. -/
theorem node_atomic_all {s v p t u m} (F : Focus s v p t u m) (sm : Small m) (op : Op)
    (hnc : composite op = false) (m' : Mem) (e : Err) (hne : e ≠ .initFail)
    (h : applyAt ⟨s, p⟩ t (offsetOf s v p) op m = (m', .error e)) :
    m'.bytes = m.bytes ∧ m'.orig = m.orig ∧ m'.refuse = m.refuse := by
  by_cases hg : genericOp op = true
  · exact node_atomic F sm op (by simp [SupportedA, hg]) hnc m' e h
  · have hg' : genericOp op = false := by simpa using hg
    have hv := F.sub.valid
    have same : ∀ {m'' : Mem} {e' : Err}, (m, (Except.error e' : Except Err Ret)) = (m'', .error e) →
        m''.bytes = m.bytes ∧ m''.orig = m.orig ∧ m''.refuse = m.refuse := by
      intro m'' e' hh; cases hh; exact ⟨rfl, rfl, rfl⟩
    cases t <;> cases u <;> simp only [valid, Bool.false_eq_true] at hv
    · exact node_atomic F sm op (by simp [SupportedA, atomicShape]) hnc m' e h
    · exact node_atomic F sm op (by simp [SupportedA, atomicShape]) hnc m' e h
    · exact set_atomic F sm op hg' hnc m' e h
    · exact map_atomic F sm op hg' hnc m' e h
    · exact node_atomic F sm op (by simp [SupportedA, atomicShape]) hnc m' e h
    · exact node_atomic F sm op (by simp [SupportedA, atomicShape]) hnc m' e h
    · exact ulist_atomic F sm op hg' m' e hne h
    · exact umap_atomic_all F sm op hg' m' e hne h
    · exact node_atomic F sm op (by simp [SupportedA, atomicShape]) hnc m' e h
    · exact node_atomic F sm op (by simp [SupportedA, atomicShape]) hnc m' e h
    · cases op <;> simp [genericOp] at hg' <;> simp only [applyAt] at h <;> exact same h
    all_goals (cases op <;> simp [genericOp] at hg' <;> simp only [applyAt] at h <;> exact same h)

/-- **Every op, composite or not, every node kind, any refusal schedule**: on an error (other than
`initFail`) the buffer is the canonical serialization of SOME well-formed value at the node — the old one
for single-container ops; for `Map/Set::insert_all` the container with the first i new entries, for
`UnsizedString::set` the old or the empty string. -/
theorem node_err_canonical {s v p t u m} (F : Focus s v p t u m) (sm : Small m) (op : Op)
    (m' : Mem) (e : Err) (hne : e ≠ .initFail)
    (h : applyAt ⟨s, p⟩ t (offsetOf s v p) op m = (m', .error e)) :
    ∃ u', Focus s (subst s v p u') p t u' m' ∧ m'.orig = m.orig ∧ m'.refuse = m.refuse := by
  have same : ∀ {m'' : Mem}, m''.bytes = m.bytes → m''.orig = m.orig → m''.refuse = m.refuse →
      ∃ u', Focus s (subst s v p u') p t u' m'' ∧ m''.orig = m.orig ∧ m''.refuse = m.refuse := by
    intro m'' hb ho hr
    exact ⟨u, Focus.congr F.same m'' hb, ho, hr⟩
  by_cases hnc : composite op = false
  · obtain ⟨hb, ho, hr⟩ := node_atomic_all F sm op hnc m' e hne h
    exact same hb ho hr
  · have hv := F.sub.valid
    have bad : ∀ {m'' : Mem} {e' : Err}, (m, (Except.error e' : Except Err Ret)) = (m'', .error e) →
        ∃ u', Focus s (subst s v p u') p t u' m'' ∧ m''.orig = m.orig ∧ m''.refuse = m.refuse := by
      intro m'' e' hh; cases hh; exact same rfl rfl rfl
    cases op <;> simp [composite] at hnc
    · -- sinsertAll
      cases t <;> simp only [applyAt] at h <;> try exact bad h
      cases u <;> simp only [valid, Bool.false_eq_true] at hv
      split at h
      · rename_i hx
        obtain ⟨es', F', ho, hr⟩ := setInsertAll_err_canonical F sm _ (by simpa [List.all_eq_true] using hx) 0 m' e h
        exact ⟨_, F', ho, hr⟩
      · exact bad h
    · -- minsertAll
      cases t <;> simp only [applyAt] at h <;> try exact bad h
      cases u <;> simp only [valid, Bool.false_eq_true] at hv
      split at h
      · rename_i hx
        obtain ⟨es', F', ho, hr⟩ := mapInsertAll_err_canonical F sm _ (by
          intro kx hkx
          have := (List.all_eq_true.1 hx) kx hkx
          simp only [Bool.and_eq_true, beq_iff_eq, decide_eq_true_eq] at this
          exact ⟨this.1.1, this.1.2, this.2⟩) 0 m' e h
        exact ⟨_, F', ho, hr⟩
      · exact bad h
    · -- strSet
      cases t <;> simp only [applyAt] at h <;> try exact bad h
      cases u <;> simp only [valid, Bool.false_eq_true] at hv
      split at h
      · obtain ⟨F', ho, hr, _⟩ := strSet_err_canonical F sm _ m' e (unitRes_err_inv h)
        exact ⟨_, F', ho, hr⟩
      · exact bad h

/-- Whole-value atomicity, every op line. -/
theorem applyOp_atomic_all (s : Shape) (v : Val) (g : Good s v) (m : Mem) (hm : m.bytes = encode s v)
    (sm : Small m) (p : List Step) (op : Op) (hnc : composite op = false)
    (m' : Mem) (e : Err) (hne : e ≠ .initFail) (h : applyOp s p op m = (m', .error e)) :
    m'.bytes = m.bytes ∧ m'.orig = m.orig ∧ m'.refuse = m.refuse := by
  have hloc := locate_encode p s v g [] [] 0 rfl
  simp only [List.nil_append, List.append_nil, Nat.zero_add] at hloc
  unfold applyOp at h
  rw [hm, hloc] at h
  cases hr : resolve s v p with
  | error e' => rw [hr] at h; simp only [] at h; cases h; exact ⟨rfl, rfl, rfl⟩
  | ok tu =>
    obtain ⟨t, u⟩ := tu
    rw [hr] at h
    simp only [] at h
    exact node_atomic_all ⟨g, hr, hm⟩ sm op hnc m' e hne h

/-- Whole-value "no corruption", every op line, every refusal schedule. -/
theorem applyOp_err_canonical (s : Shape) (v : Val) (g : Good s v) (m : Mem) (hm : m.bytes = encode s v)
    (sm : Small m) (p : List Step) (op : Op)
    (m' : Mem) (e : Err) (hne : e ≠ .initFail) (h : applyOp s p op m = (m', .error e)) :
    ∃ v', Good s v' ∧ m'.bytes = encode s v' ∧ m'.orig = m.orig ∧ m'.refuse = m.refuse := by
  have hloc := locate_encode p s v g [] [] 0 rfl
  simp only [List.nil_append, List.append_nil, Nat.zero_add] at hloc
  unfold applyOp at h
  rw [hm, hloc] at h
  cases hr : resolve s v p with
  | error e' => rw [hr] at h; simp only [] at h; cases h; exact ⟨v, g, hm, rfl, rfl⟩
  | ok tu =>
    obtain ⟨t, u⟩ := tu
    rw [hr] at h
    simp only [] at h
    obtain ⟨u', F', ho, hrf⟩ := node_err_canonical ⟨g, hr, hm⟩ sm op m' e hne h
    exact ⟨_, F'.good, F'.bytes, ho, hrf⟩

end Unsized.Machine
