import Unsized.Runtime
/-!
# Lemmas about the C07 runtime model (`Unsized/Runtime.lean`)

The invariant `Inv`, the facts about the borrow byte (finite tables closed by `decide`), the layout /
pointer-list lemmas, and one characterisation lemma per operation. `Props/C07.lean` only assembles
these.
-/
namespace Unsized.Runtime

/-! ## Borrow byte: bit operations as arithmetic (all 256 byte values checked by the kernel) -/

theorem land8_eq : ∀ b, b < 256 → ((b &&& 8 = 0) ↔ b % 16 < 8) := by decide +kernel
theorem land7_eq : ∀ b, b < 256 → b &&& 7 = b % 8 := by decide +kernel
theorem land15_eq : ∀ b, b < 256 → b &&& 15 = b % 16 := by decide +kernel
theorem landF7_eq : ∀ b, b < 256 → b &&& 0xF7 = if b % 16 < 8 then b else b - 8 := by decide +kernel
theorem lor8_eq : ∀ b, b < 256 → b ||| 8 = if b % 16 < 8 then b + 8 else b := by decide +kernel

theorem canBorrowData_iff {b : Nat} (h : b < 256) : canBorrowData b = true ↔ 9 ≤ b % 16 := by
  unfold canBorrowData
  have h8 := land8_eq b h
  have h7 := land7_eq b h
  by_cases c1 : b &&& 8 = 0
  · simp only [c1, if_true]
    have := h8.mp c1
    constructor
    · intro h; cases h
    · intro; omega
  · have c1' : ¬ b % 16 < 8 := fun x => c1 (h8.mpr x)
    simp only [c1, if_false]
    by_cases c2 : b &&& 7 = 0
    · simp only [c2, if_true]
      rw [h7] at c2
      constructor
      · intro h; cases h
      · intro; omega
    · simp only [c2, if_false]
      rw [h7] at c2
      constructor
      · intro; omega
      · intro; trivial

theorem canBorrowMutData_iff {b : Nat} (h : b < 256) : canBorrowMutData b = true ↔ b % 16 = 15 := by
  unfold canBorrowMutData
  rw [land15_eq b h]
  by_cases c : b % 16 = 15 <;> simp [c]

/-! ## `resize_unchecked` -/

theorem wrapI32_small {n : Nat} (h : n ≤ 2147483647) : wrapI32 n = (n : Int) := by
  unfold wrapI32
  have : n % 4294967296 = n := Nat.mod_eq_of_lt (by omega)
  rw [this]
  have : n < 2147483648 := by omega
  simp [this]

/-- Facts about the account that every reachable state satisfies. -/
structure AcctOK (a : Acct) : Prop where
  delta : a.delta = (a.len : Int) - (a.orig : Int)
  cap : a.len ≤ a.orig + MAX_INC
  small : a.orig + MAX_INC ≤ 2147483647
  baseOk : a.base + a.orig + MAX_INC + MAX_INC ≤ 4611686018427387904

theorem resize_same {a : Acct} (h : AcctOK a) : resizeUnchecked a a.len = .ok a none := by
  unfold resizeUnchecked
  have h1 := h.cap; have h2 := h.small
  rw [wrapI32_small (by omega)]
  rw [if_neg (by omega), if_pos rfl]

/-- Within the allowance a (real) resize succeeds and keeps `delta = len - orig`. -/
theorem resize_ok {a : Acct} (h : AcctOK a) {n : Nat} (hne : n ≠ a.len) (hfit : n ≤ a.orig + MAX_INC) :
    ∃ fill, resizeUnchecked a n = .ok { a with len := n, delta := (n : Int) - (a.orig : Int) } fill := by
  unfold resizeUnchecked
  have h1 := h.cap; have h2 := h.small; have h3 := h.delta
  rw [wrapI32_small (by omega)]
  have c6 : a.delta + ((n : Int) - (a.len : Int)) = (n : Int) - (a.orig : Int) := by omega
  rw [if_neg (by omega), if_neg (by omega), if_pos (by unfold inI32; omega), if_pos (by unfold inI32; omega),
    if_neg (by omega), c6]
  exact ⟨_, rfl⟩

/-- Past the allowance the resize is refused with `InvalidRealloc` (never a panic). -/
theorem resize_over {a : Acct} (h : AcctOK a) {n : Nat} (hover : a.orig + MAX_INC < n) :
    resizeUnchecked a n = .err .invalidRealloc := by
  unfold resizeUnchecked
  have h1 := h.cap; have h2 := h.small; have h3 := h.delta
  rw [wrapI32_small (by omega)]
  by_cases c1 : I32_MAX < (n : Int)
  · rw [if_pos c1]
  · rw [if_neg c1, if_neg (by omega), if_pos (by unfold inI32; omega), if_pos (by unfold inI32; omega),
      if_pos (by omega)]

/-- The zero-filled interval of a successful resize lies inside the allocation `[0, orig + 10240)`
and starts at the old length. -/
theorem resize_fill_in_allocation {a a' : Acct} (h : AcctOK a) {n off cnt : Nat}
    (hr : resizeUnchecked a n = .ok a' (some (off, cnt))) :
    off = a.len ∧ off + cnt = n ∧ off + cnt ≤ a.orig + MAX_INC := by
  have h1 := h.cap; have h2 := h.small; have h3 := h.delta
  by_cases hfit : n ≤ a.orig + MAX_INC
  · by_cases hne : n = a.len
    · subst hne
      rw [resize_same h] at hr
      cases hr
    · unfold resizeUnchecked at hr
      rw [wrapI32_small (by omega)] at hr
      rw [if_neg (by omega), if_neg (by omega), if_pos (by unfold inI32; omega), if_pos (by unfold inI32; omega),
        if_neg (by omega)] at hr
      by_cases c6 : 0 < (n : Int) - (a.len : Int)
      · rw [if_pos c6] at hr
        simp only [ResizeRes.ok.injEq, Option.some.injEq, Prod.mk.injEq] at hr
        obtain ⟨_, ho, hc⟩ := hr
        omega
      · rw [if_neg c6] at hr
        cases hr
  · rw [resize_over h (by omega)] at hr
    cases hr

/-! ## `data_mut`: the range -/

/-- With the data nibble free, `data_mut` takes the mutable flag and hands out the range
`base .. base + orig + 10240` — whatever `resize_delta` is. -/
theorem dataMut_ok {a : Acct} (h : AcctOK a) (hb : a.borrow < 256) (hfree : a.borrow % 16 = 15) :
    dataMut a = ({ a with borrow := a.borrow - 8 }, .ok (a.len, a.base, a.base + a.orig + MAX_INC)) := by
  unfold dataMut tryBorrowMutData
  have hc := (canBorrowMutData_iff hb).mpr hfree
  have hF7 : a.borrow &&& 0xF7 = a.borrow - 8 := by
    rw [landF7_eq _ hb, if_neg (by omega)]
  have h1 := h.cap; have h2 := h.small; have h3 := h.delta; have h4 := h.baseOk
  rw [if_pos hc, hF7]
  show (if I64_MAX < ((a.base + a.len + MAX_INC : Nat) : Int) then _ else _) = _
  have c4 : (((a.base + a.len + MAX_INC : Nat) : Int) - a.delta).toNat = a.base + a.orig + MAX_INC := by omega
  rw [if_neg (by omega)]
  show (if I64_MAX < ((a.base + a.len + MAX_INC : Nat) : Int) - a.delta then _ else _) = _
  rw [if_neg (by omega)]
  show (if ((a.base + a.len + MAX_INC : Nat) : Int) - a.delta < 0 then _ else _) = _
  rw [if_neg (by omega)]
  show (_, Res.ok (a.len, a.base, (((a.base + a.len + MAX_INC : Nat) : Int) - a.delta).toNat)) = _
  rw [c4]

theorem dataMut_refused {a : Acct} (hb : a.borrow < 256) (hbusy : a.borrow % 16 ≠ 15) :
    dataMut a = (a, .err .accountBorrowFailed) := by
  unfold dataMut tryBorrowMutData
  have hc : ¬ canBorrowMutData a.borrow = true := fun h => hbusy ((canBorrowMutData_iff hb).mp h)
  rw [if_neg hc]

/-! ## Layouts and pointer lists -/

/-- The fields exactly tile `[off, stop)` up to trailing slack; every field before the last has
positive width; a `RemainingBytes` is last and takes everything. -/
def LayoutOK : List Kind → List Nat → Nat → Nat → Prop
  | [], [], off, stop => off ≤ stop
  | k :: ks, c :: cs, off, stop =>
    if k = .remaining then ks = [] ∧ cs = [] ∧ off + c = stop
    else 0 < k.width c ∧ LayoutOK ks cs (off + k.width c) stop
  | _, _, _, _ => False

theorem LayoutOK.le : ∀ {ks cs off stop}, LayoutOK ks cs off stop → off ≤ stop
  | [], [], _, _, h => h
  | [], _ :: _, _, _, h => by simp [LayoutOK] at h
  | _ :: _, [], _, _, h => by simp [LayoutOK] at h
  | k :: ks, c :: cs, off, stop, h => by
    unfold LayoutOK at h
    by_cases hk : k = .remaining
    · simp only [hk, if_true] at h; omega
    · simp only [hk, if_false] at h
      have := LayoutOK.le h.2
      omega

theorem LayoutOK.length_eq : ∀ {ks cs off stop}, LayoutOK ks cs off stop → cs.length = ks.length
  | [], [], _, _, _ => rfl
  | [], _ :: _, _, _, h => by simp [LayoutOK] at h
  | _ :: _, [], _, _, h => by simp [LayoutOK] at h
  | k :: ks, c :: cs, off, stop, h => by
    unfold LayoutOK at h
    by_cases hk : k = .remaining
    · simp only [hk, if_true] at h; simp [h.1, h.2.1]
    · simp only [hk, if_false] at h
      simp [LayoutOK.length_eq h.2]

/-- `get_ptr` of a well-formed layout succeeds, returns the canonical pointers and sees the stored counts. -/
theorem getPtrs_ok : ∀ {ks cs off stop}, LayoutOK ks cs off stop →
    getPtrs ks cs off stop = .ok (ptrsFrom off ks cs, cs)
  | [], [], _, _, _ => by simp [getPtrs, ptrsFrom]
  | [], _ :: _, _, _, h => by simp [LayoutOK] at h
  | _ :: _, [], _, _, h => by simp [LayoutOK] at h
  | k :: ks, c :: cs, off, stop, h => by
    unfold LayoutOK at h
    by_cases hk : k = .remaining
    · simp only [hk, if_true] at h
      obtain ⟨rfl, rfl, hc⟩ := h
      subst hk
      have e : stop - off = c := by omega
      simp [getPtrs, ptrsFrom, Kind.width, e, hc]
    · simp only [hk, if_false] at h
      have ih := getPtrs_ok h.2
      have hle := LayoutOK.le h.2
      simp [getPtrs, ptrsFrom, hk, ih, hle]

theorem ptrsFrom_ge : ∀ {ks cs off p}, p ∈ ptrsFrom off ks cs → off ≤ p.addr
  | [], _, _, _, h => by simp [ptrsFrom] at h
  | _ :: _, [], _, _, h => by simp [ptrsFrom] at h
  | k :: ks, c :: cs, off, p, h => by
    simp only [ptrsFrom, List.mem_cons] at h
    rcases h with rfl | h
    · exact Nat.le_refl _
    · have := ptrsFrom_ge h
      omega

/-- The drop / pre-resize pointer check passes on the canonical pointers of a well-formed layout
whenever the range covers `[lo, stop]` — including an empty tail sitting exactly at `hi = stop`. -/
theorem check_ptrsFrom : ∀ {ks cs off stop lo hi cur}, LayoutOK ks cs off stop →
    lo ≤ off → cur ≤ off → stop ≤ hi → checkPointers lo hi cur (ptrsFrom off ks cs) = true
  | [], [], _, _, _, _, _, _, _, _, _ => by simp [ptrsFrom, checkPointers]
  | [], _ :: _, _, _, _, _, _, h, _, _, _ => by simp [LayoutOK] at h
  | _ :: _, [], _, _, _, _, _, h, _, _, _ => by simp [LayoutOK] at h
  | k :: ks, c :: cs, off, stop, lo, hi, cur, h, hlo, hcur, hhi => by
    unfold LayoutOK at h
    by_cases hk : k = .remaining
    · simp only [hk, if_true] at h
      obtain ⟨rfl, rfl, hc⟩ := h
      have : off ≤ hi := by omega
      simp [ptrsFrom, checkPointers, Ptr.inRange, hk, hlo, hcur, this]
    · simp only [hk, if_false] at h
      have hle := LayoutOK.le h.2
      have ih := check_ptrsFrom (lo := lo) (hi := hi) (cur := off) h.2 (by omega) (by omega) hhi
      have : off < hi := by omega
      simp [ptrsFrom, checkPointers, Ptr.inRange, hk, hlo, hcur, this, ih]

/-! ### Resize notifications on canonical pointer lists -/

theorem notifyUp_all_gt : ∀ {ks cs off src n}, src < off →
    notifyUp (ptrsFrom off ks cs) src n = some (ptrsFrom (off + n) ks cs)
  | [], _, _, _, _, _ => by simp [ptrsFrom, notifyUp]
  | _ :: _, [], _, _, _, _ => by simp [ptrsFrom, notifyUp]
  | k :: ks, c :: cs, off, src, n, h => by
    have ih := notifyUp_all_gt (ks := ks) (cs := cs) (off := off + k.width c) (src := src) (n := n) (by omega)
    have e : off + k.width c + n = off + n + k.width c := by omega
    simp [ptrsFrom, notifyUp, Ptr.notifyUp, h, ih, e]

theorem notifyDown_all_gt : ∀ {ks cs off src n}, src < off → n ≤ off →
    notifyDown (ptrsFrom off ks cs) src n = some (ptrsFrom (off - n) ks cs)
  | [], _, _, _, _, _, _ => by simp [ptrsFrom, notifyDown]
  | _ :: _, [], _, _, _, _, _ => by simp [ptrsFrom, notifyDown]
  | k :: ks, c :: cs, off, src, n, h, hn => by
    have ih := notifyDown_all_gt (ks := ks) (cs := cs) (off := off + k.width c) (src := src) (n := n) (by omega) (by omega)
    have e : off + k.width c - n = off - n + k.width c := by omega
    simp [ptrsFrom, notifyDown, Ptr.notifyDown, h, ih, e]

/-- Growing field `f` (whose pointer is the notification source) by `amt` bytes: the notified
pointers are the canonical pointers of the new layout, which is again well-formed. -/
theorem notifyUp_ptrsFrom : ∀ {ks cs off stop f k c p c' amt}, LayoutOK ks cs off stop →
    ks[f]? = some k → cs[f]? = some c → (ptrsFrom off ks cs)[f]? = some p →
    k.width c' = k.width c + amt →
    notifyUp (ptrsFrom off ks cs) p.addr amt = some (ptrsFrom off ks (cs.set f c')) ∧
      LayoutOK ks (cs.set f c') off (stop + amt) ∧ off ≤ p.addr ∧ p.addr + k.width c ≤ stop
  | [], _, _, _, _, _, _, _, _, _, _, hk, _, _, _ => by simp at hk
  | _ :: _, [], _, _, _, _, _, _, _, _, _, _, hc, _, _ => by simp at hc
  | k0 :: ks, c0 :: cs, off, stop, 0, k, c, p, c', amt, h, hk, hc, hp, hw => by
    simp only [List.getElem?_cons_zero, Option.some.injEq] at hk hc
    subst hk; subst hc
    simp only [ptrsFrom, List.getElem?_cons_zero, Option.some.injEq] at hp
    subst hp
    unfold LayoutOK at h
    by_cases hr : k0 = .remaining
    · simp only [hr, if_true] at h
      obtain ⟨rfl, rfl, hcs⟩ := h
      subst hr
      simp only [Kind.width] at hw
      simp [ptrsFrom, notifyUp, Ptr.notifyUp, List.set, LayoutOK, Kind.width]
      omega
    · simp only [hr, if_false] at h
      have ht := notifyUp_all_gt (ks := ks) (cs := cs) (off := off + k0.width c0) (src := off) (n := amt) (by omega)
      have hle := LayoutOK.le h.2
      have e : off + k0.width c0 + amt = off + k0.width c' := by omega
      refine ⟨?_, ?_, Nat.le_refl _, by simpa using hle⟩
      · simp [ptrsFrom, notifyUp, Ptr.notifyUp, List.set, ht, e]
      · simp only [List.set, LayoutOK, hr, if_false]
        refine ⟨by omega, ?_⟩
        rw [← e]
        exact layout_shift h.2 amt
  | k0 :: ks, c0 :: cs, off, stop, f + 1, k, c, p, c', amt, h, hk, hc, hp, hw => by
    simp only [List.getElem?_cons_succ] at hk hc
    simp only [ptrsFrom, List.getElem?_cons_succ] at hp
    unfold LayoutOK at h
    by_cases hr : k0 = .remaining
    · simp only [hr, if_true] at h
      obtain ⟨rfl, rfl, _⟩ := h
      simp at hk
    · simp only [hr, if_false] at h
      obtain ⟨ih1, ih2, ih3, ih4⟩ := notifyUp_ptrsFrom (c' := c') (amt := amt) h.2 hk hc hp hw
      have hr' : decide (k0 = .remaining) = false := by simp [hr]
      refine ⟨?_, ?_, by omega, ih4⟩
      · have : ¬ (p.addr < off) := by omega
        simp [ptrsFrom, notifyUp, Ptr.notifyUp, List.set, ih1, this, hr']
      · simp only [List.set, LayoutOK, hr, if_false]
        exact ⟨h.1, ih2⟩
where
  layout_shift : ∀ {ks cs off stop}, LayoutOK ks cs off stop → ∀ n, LayoutOK ks cs (off + n) (stop + n)
    | [], [], _, _, h, n => by simp only [LayoutOK] at *; omega
    | [], _ :: _, _, _, h, _ => by simp [LayoutOK] at h
    | _ :: _, [], _, _, h, _ => by simp [LayoutOK] at h
    | k :: ks, c :: cs, off, stop, h, n => by
      unfold LayoutOK at h ⊢
      by_cases hk : k = .remaining
      · simp only [hk, if_true] at h ⊢
        refine ⟨h.1, h.2.1, ?_⟩
        omega
      · simp only [hk, if_false] at h ⊢
        refine ⟨h.1, ?_⟩
        have := layout_shift h.2 n
        have e : off + n + k.width c = off + k.width c + n := by omega
        rw [e]; exact this


theorem layout_shift_down : ∀ {ks cs off stop}, LayoutOK ks cs off stop → ∀ n, n ≤ off →
    LayoutOK ks cs (off - n) (stop - n)
  | [], [], _, _, h, n, hn => by simp only [LayoutOK] at *; omega
  | [], _ :: _, _, _, h, _, _ => by simp [LayoutOK] at h
  | _ :: _, [], _, _, h, _, _ => by simp [LayoutOK] at h
  | k :: ks, c :: cs, off, stop, h, n, hn => by
    unfold LayoutOK at h ⊢
    by_cases hk : k = .remaining
    · simp only [hk, if_true] at h ⊢
      refine ⟨h.1, h.2.1, ?_⟩
      omega
    · simp only [hk, if_false] at h ⊢
      refine ⟨h.1, ?_⟩
      have := layout_shift_down h.2 n (by omega)
      have e : off - n + k.width c = off + k.width c - n := by omega
      rw [e]; exact this

/-- Shrinking field `f` by `amt` bytes: same statement as `notifyUp_ptrsFrom`, downwards. -/
theorem notifyDown_ptrsFrom : ∀ {ks cs off stop f k c p c' amt}, LayoutOK ks cs off stop →
    ks[f]? = some k → cs[f]? = some c → (ptrsFrom off ks cs)[f]? = some p →
    k.width c = k.width c' + amt → (k ≠ .remaining → 0 < k.width c') →
    notifyDown (ptrsFrom off ks cs) p.addr amt = some (ptrsFrom off ks (cs.set f c')) ∧
      LayoutOK ks (cs.set f c') off (stop - amt) ∧ off ≤ p.addr ∧ p.addr + k.width c ≤ stop
  | [], _, _, _, _, _, _, _, _, _, _, hk, _, _, _, _ => by simp at hk
  | _ :: _, [], _, _, _, _, _, _, _, _, _, _, hc, _, _, _ => by simp at hc
  | k0 :: ks, c0 :: cs, off, stop, 0, k, c, p, c', amt, h, hk, hc, hp, hw, hpos => by
    simp only [List.getElem?_cons_zero, Option.some.injEq] at hk hc
    subst hk; subst hc
    simp only [ptrsFrom, List.getElem?_cons_zero, Option.some.injEq] at hp
    subst hp
    unfold LayoutOK at h
    by_cases hr : k0 = .remaining
    · simp only [hr, if_true] at h
      obtain ⟨rfl, rfl, hcs⟩ := h
      subst hr
      simp only [Kind.width] at hw
      simp [ptrsFrom, notifyDown, Ptr.notifyDown, List.set, LayoutOK, Kind.width]
      omega
    · simp only [hr, if_false] at h
      have hle := LayoutOK.le h.2
      have ht := notifyDown_all_gt (ks := ks) (cs := cs) (off := off + k0.width c0) (src := off) (n := amt)
        (by omega) (by omega)
      have e : off + k0.width c0 - amt = off + k0.width c' := by omega
      refine ⟨?_, ?_, Nat.le_refl _, by simpa using hle⟩
      · simp [ptrsFrom, notifyDown, Ptr.notifyDown, List.set, ht, e]
      · simp only [List.set, LayoutOK, hr, if_false]
        refine ⟨hpos hr, ?_⟩
        rw [← e]
        exact layout_shift_down h.2 amt (by omega)
  | k0 :: ks, c0 :: cs, off, stop, f + 1, k, c, p, c', amt, h, hk, hc, hp, hw, hpos => by
    simp only [List.getElem?_cons_succ] at hk hc
    simp only [ptrsFrom, List.getElem?_cons_succ] at hp
    unfold LayoutOK at h
    by_cases hr : k0 = .remaining
    · simp only [hr, if_true] at h
      obtain ⟨rfl, rfl, _⟩ := h
      simp at hk
    · simp only [hr, if_false] at h
      obtain ⟨ih1, ih2, ih3, ih4⟩ := notifyDown_ptrsFrom (c' := c') (amt := amt) h.2 hk hc hp hw hpos
      have hr' : decide (k0 = .remaining) = false := by simp [hr]
      refine ⟨?_, ?_, by omega, ih4⟩
      · have : ¬ (p.addr < off) := by omega
        simp [ptrsFrom, notifyDown, Ptr.notifyDown, List.set, ih1, this, hr']
      · simp only [List.set, LayoutOK, hr, if_false]
        exact ⟨h.1, ih2⟩

theorem ptrsFrom_getElem?_isSome : ∀ {ks : List Kind} {cs : List Nat} {off f : Nat} {k : Kind} {c : Nat}, ks[f]? = some k → cs[f]? = some c →
    ∃ p, (ptrsFrom off ks cs)[f]? = some p
  | [], _, _, _, _, _, hk, _ => by simp at hk
  | _ :: _, [], _, _, _, _, _, hc => by simp at hc
  | k0 :: ks, c0 :: cs, off, 0, k, c, _, _ => ⟨⟨off, decide (k0 = .remaining)⟩, by simp [ptrsFrom]⟩
  | k0 :: ks, c0 :: cs, off, f + 1, k, c, hk, hc => by
    simp only [List.getElem?_cons_succ] at hk hc
    obtain ⟨p, hp⟩ := ptrsFrom_getElem?_isSome (off := off + k0.width c0) hk hc
    exact ⟨p, by simp [ptrsFrom, hp]⟩

end Unsized.Runtime
