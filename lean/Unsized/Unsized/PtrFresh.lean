import Unsized.Ptr
namespace Unsized.Ptr
open Common Unsized Unsized.Text Unsized.Machine Unsized.PtrT

/-- Below 2^64 (and not below zero) `wrapping_byte_offset(±amt)` is plain `±amt`. -/
theorem wrapOff_eq (neg : Bool) (amt a : Nat) (h1 : neg = true → amt ≤ a)
    (h2 : neg = false → a + amt < Shape.usizeLim) : wrapOff neg amt a = applyDelta neg amt a := by
  unfold wrapOff applyDelta
  cases neg
  · simp; exact Nat.mod_eq_of_lt (h2 rfl)
  · simp [h1 rfl]

theorem appD_add (neg : Bool) (amt b k : Nat) (h : neg = true → amt ≤ b) :
    applyDelta neg amt (b + k) = applyDelta neg amt b + k := by
  unfold applyDelta; cases neg
  · simp; omega
  · have := h rfl; simp; omega

/-- A value that lies entirely AFTER the source pointer: every pointer in its tree shifts — the result
is the fresh tree at the shifted base. (`hi` bounds the addresses: `b + size ≤ hi`, `hi + amt < 2^64`.) -/
def AfterOK (s : Shape) : Prop :=
  ∀ (v : Val) (b hi : Nat) (usz : Nat → Nat) (src : Nat) (neg : Bool) (amt : Nat), src < b →
    (neg = true → amt ≤ b) → b + size s v ≤ hi → (neg = false → hi + amt < Shape.usizeLim) →
    resizeNotify usz src neg amt (treeOf s v b) = some (treeOf s v (applyDelta neg amt b))

theorem after_trees (fs : List Shape) (ih : ∀ f ∈ fs, AfterOK f) :
    ∀ (vs : List Val) (b hi : Nat) (usz : Nat → Nat) (src : Nat) (neg : Bool) (amt : Nat), src < b →
      (neg = true → amt ≤ b) → b + sizeFields fs vs ≤ hi → (neg = false → hi + amt < Shape.usizeLim) →
      notifyL usz src neg amt (treesOf fs vs b) = some (treesOf fs vs (applyDelta neg amt b)) := by
  induction fs with
  | nil => intro vs b hi usz src neg amt _ _ _ _; simp [treesOf, notifyL]
  | cons f fs ihf =>
    intro vs b hi usz src neg amt hs hn hb hh
    cases vs with
    | nil => simp [treesOf, notifyL]
    | cons v vs =>
      simp only [sizeFields] at hb
      simp only [treesOf, notifyL]
      rw [ih f List.mem_cons_self v b hi usz src neg amt hs hn (by omega) hh]
      simp only []
      rw [ihf (fun g hg => ih g (List.mem_cons_of_mem _ hg)) vs (b + size f v) hi usz src neg amt (by omega)
        (fun h => by have := hn h; omega) (by omega) hh]
      simp only []
      rw [appD_add neg amt b _ hn]

theorem sizeVariant_get (ps : List Shape) (i : Nat) (t : Shape) (pl : Val) (ht : ps[i]? = some t) :
    sizeVariant ps i pl = size t pl := by
  induction i generalizing ps with
  | zero => cases ps with
    | nil => simp at ht
    | cons q qs => simp at ht; subst ht; rfl
  | succ j ihj => cases ps with
    | nil => simp at ht
    | cons q qs => simp only [sizeVariant]; exact ihj qs (by simpa using ht)

theorem after_variant (ps : List Shape) (ih : ∀ p ∈ ps, AfterOK p) :
    ∀ (i : Nat) (v : Val) (b hi : Nat) (usz : Nat → Nat) (src : Nat) (neg : Bool) (amt : Nat), src < b →
      (neg = true → amt ≤ b) → b + sizeVariant ps i v ≤ hi → (neg = false → hi + amt < Shape.usizeLim) →
      notifyO usz src neg amt (variantTree ps i v b) = some (variantTree ps i v (applyDelta neg amt b)) := by
  induction ps with
  | nil => intro i v b hi usz src neg amt _ _ _ _; simp [variantTree, notifyO]
  | cons q qs ihq =>
    intro i v b hi usz src neg amt hs hn hb hh
    cases i with
    | zero =>
      simp only [sizeVariant] at hb
      cases q <;> simp only [variantTree, notifyO] <;>
        first
        | rfl
        | (rw [ih _ List.mem_cons_self v b hi usz src neg amt hs hn hb hh])
    | succ i =>
      simp only [variantTree, sizeVariant] at hb ⊢
      exact ihq (fun g hg => ih g (List.mem_cons_of_mem _ hg)) i v b hi usz src neg amt hs hn hb hh

theorem after_all (s : Shape) : AfterOK s := by
  induction s using Shape.induct' with
  | struct sized fs ih =>
    intro v b hi usz src neg amt hs hn hb hh
    have hw : wrapOff neg amt b = applyDelta neg amt b :=
      wrapOff_eq neg amt b hn (fun h => by have := hh h; omega)
    cases v <;> try (simp only [treeOf, resizeNotify, hs, if_true, hw])
    rename_i sz vs
    simp only [size] at hb
    by_cases he : sized.isEmpty = true
    · have hs0 : Fixed.sizeList sized = 0 := by
        cases sized with
        | nil => rfl
        | cons _ _ => simp at he
      simp only [treeOf, he, if_true, resizeNotify]
      rw [after_trees fs ih vs b hi usz src neg amt hs hn (by omega) hh]
    · simp only [treeOf, he, Bool.false_eq_true, if_false, resizeNotify, notifyL, hs, if_true, hw]
      rw [after_trees fs ih vs (b + Fixed.sizeList sized) hi usz src neg amt (by omega)
        (fun h => by have := hn h; omega) (by omega) hh]
      simp only []
      rw [appD_add neg amt b _ hn]
  | enum ds ps ih =>
    intro v b hi usz src neg amt hs hn hb hh
    have hw : wrapOff neg amt b = applyDelta neg amt b :=
      wrapOff_eq neg amt b hn (fun h => by have := hh h; omega)
    cases v <;> try (simp only [treeOf, resizeNotify, hs, if_true, hw])
    rename_i i pl
    simp only [size] at hb
    rw [after_variant ps ih i pl (b + 1) hi usz src neg amt (by omega) (fun h => by have := hn h; omega)
      (by omega) hh]
    simp only []
    rw [appD_add neg amt b 1 hn]
  | ulist e ih =>
    intro v b hi usz src neg amt hs hn hb hh
    have hw : wrapOff neg amt b = applyDelta neg amt b :=
      wrapOff_eq neg amt b hn (fun h => by have := hh h; omega)
    cases v <;> try (simp only [treeOf, resizeNotify, hs, if_true, hw])
    rename_i vs
    have hw2 : wrapOff neg amt (b + size (.ulist e) (.useq vs)) = applyDelta neg amt (b + size (.ulist e) (.useq vs)) :=
      wrapOff_eq neg amt _ (fun h => by have := hn h; omega) (fun h => by have := hh h; omega)
    simp only [treeOf, resizeNotify, notifyO, hs, if_true, hw, hw2]
    rw [appD_add neg amt b _ hn]
  | umap kw e ih =>
    intro v b hi usz src neg amt hs hn hb hh
    have hw : wrapOff neg amt b = applyDelta neg amt b :=
      wrapOff_eq neg amt b hn (fun h => by have := hh h; omega)
    cases v <;> try (simp only [treeOf, resizeNotify, hs, if_true, hw])
    rename_i es
    have hw2 : wrapOff neg amt (b + size (.umap kw e) (.umap es)) = applyDelta neg amt (b + size (.umap kw e) (.umap es)) :=
      wrapOff_eq neg amt _ (fun h => by have := hn h; omega) (fun h => by have := hh h; omega)
    simp only [treeOf, resizeNotify, notifyL, notifyO, hs, if_true, hw, hw2]
    rw [appD_add neg amt b _ hn]
  | disc d inner ih =>
    intro v b hi usz src neg amt hs hn hb hh
    simp only [size] at hb
    simp only [treeOf]
    rw [ih v (b + d.length) hi usz src neg amt (by omega) (fun h => by have := hn h; omega) (by omega) hh,
      appD_add neg amt b _ hn]
  | unit => intro v b hi usz src neg amt hs hn hb hh; simp [treeOf, resizeNotify, notifyL]
  | _ =>
    intro v b hi usz src neg amt hs hn hb hh
    have hw : wrapOff neg amt b = applyDelta neg amt b :=
      wrapOff_eq neg amt b hn (fun h => by have := hh h; omega)
    simp only [treeOf, resizeNotify, notifyL, hs, if_true, hw]


/-- A (non-ZST) value that lies entirely BEFORE the source pointer, its bytes intact: nothing in its
tree moves (an `UnsizedList` sibling sees "the change happened after me"). -/
def BeforeOK (s : Shape) : Prop :=
  ∀ top ie, Shape.okAux top ie s = true → s.zst = false → ∀ v, valid s v = true → fits s v = true →
    ∀ (pre rest : List Nat) (b : Nat), b = pre.length → ∀ (src : Nat), b + size s v ≤ src →
    ∀ (neg : Bool) (amt : Nat),
      resizeNotify (fun a => rd32 (pre ++ encode s v ++ rest) a) src neg amt (treeOf s v b) = some (treeOf s v b)

theorem before_trees (fs : List Shape) (ih : ∀ f ∈ fs, BeforeOK f) :
    Shape.okFields fs = true → Shape.zstLast false fs = false → ∀ vs, validFields fs vs = true →
      fitsFields fs vs = true → ∀ (pre rest : List Nat) (b : Nat), b = pre.length → ∀ (src : Nat),
      b + sizeFields fs vs ≤ src → ∀ (neg : Bool) (amt : Nat),
      notifyL (fun a => rd32 (pre ++ encodeFields fs vs ++ rest) a) src neg amt (treesOf fs vs b)
        = some (treesOf fs vs b) := by
  induction fs with
  | nil => intro _ _ vs _ _ pre rest b _ src _ neg amt; cases vs <;> simp [treesOf, notifyL]
  | cons f fs ihf =>
    intro hok hz vs hv hf pre rest b hb src hs neg amt
    cases vs with
    | nil => simp [validFields] at hv
    | cons x xs =>
      simp only [validFields, fitsFields, Bool.and_eq_true] at hv hf
      simp only [sizeFields] at hs
      have hfo : Shape.okAux false false f = true ∧ f.zst = false ∧ (fs ≠ [] → Shape.okFields fs = true ∧ Shape.zstLast false fs = false) := by
        cases fs with
        | nil => exact ⟨by simpa [Shape.okFields] using hok, by simpa [Shape.zstLast] using hz, fun h => absurd rfl h⟩
        | cons g gs =>
          obtain ⟨h1, h2, h3⟩ := okFields_cons2 f g gs hok
          rw [zstLast_cons_cons] at hz
          exact ⟨h1, h2, fun _ => ⟨h3, hz⟩⟩
      simp only [treesOf, notifyL, encodeFields]
      have e1 : pre ++ (encode f x ++ encodeFields fs xs) ++ rest = pre ++ encode f x ++ (encodeFields fs xs ++ rest) := by
        simp [List.append_assoc]
      rw [e1, ih f List.mem_cons_self false false hfo.1 hfo.2.1 x hv.1 hf.1 pre _ b hb src (by omega) neg amt]
      simp only []
      by_cases hfs : fs = []
      · subst hfs; cases xs <;> simp [treesOf, notifyL]
      · obtain ⟨h3, h4⟩ := hfo.2.2 hfs
        have e2 : pre ++ encode f x ++ (encodeFields fs xs ++ rest) = (pre ++ encode f x) ++ encodeFields fs xs ++ rest := by
          simp [List.append_assoc]
        rw [e2, ihf (fun g hg => ih g (List.mem_cons_of_mem _ hg)) h3 h4 xs hv.2 hf.2 (pre ++ encode f x) rest
          (b + size f x) (by simp [hb, encode_size_all f x hv.1]) src (by omega) neg amt]

theorem variantTree_unit (ps : List Shape) (i : Nat) (pl : Val) (b : Nat) (ht : ps[i]? = some .unit) :
    variantTree ps i pl b = none := by
  induction i generalizing ps with
  | zero => cases ps with
    | nil => simp at ht
    | cons p ps => simp at ht; subst ht; rfl
  | succ i ih => cases ps with
    | nil => simp at ht
    | cons p ps => simp only [variantTree]; exact ih ps (by simpa using ht)

theorem variantTree_some (ps : List Shape) (i : Nat) (t : Shape) (pl : Val) (b : Nat) (ht : ps[i]? = some t)
    (hu : t ≠ .unit) : variantTree ps i pl b = some (treeOf t pl b) := by
  induction i generalizing ps with
  | zero => cases ps with
    | nil => simp at ht
    | cons p ps => simp at ht; subst ht; cases p <;> first | rfl | exact absurd rfl hu
  | succ i ih => cases ps with
    | nil => simp at ht
    | cons p ps => simp only [variantTree]; exact ih ps (by simpa using ht)

theorem before_all (s : Shape) : BeforeOK s := by
  induction s using Shape.induct' with
  | struct sized fs ih =>
    intro top ie hok hz v hv hf pre rest b hb src hs neg amt
    cases v <;> simp only [valid, Bool.false_eq_true] at hv
    rename_i sz vs
    simp only [Shape.okAux, Bool.and_eq_true] at hok
    simp only [Bool.and_eq_true, beq_iff_eq, decide_eq_true_eq] at hv
    simp only [fits] at hf
    simp only [Shape.zst] at hz
    simp only [size] at hs
    simp only [treeOf, encode]
    have e1 : pre ++ (sz ++ encodeFields fs vs) ++ rest = (pre ++ sz) ++ encodeFields fs vs ++ rest := by
      simp [List.append_assoc]
    by_cases he : sized.isEmpty = true
    · have hs0 : Fixed.sizeList sized = 0 := by
        cases sized with
        | nil => rfl
        | cons _ _ => simp at he
      simp only [he, if_true, resizeNotify]
      have hsz : sz = [] := by cases sz with | nil => rfl | cons _ _ => simp [hs0] at hv
      subst hsz
      rw [e1, List.append_nil, before_trees fs ih hok.2 hz vs hv.2 hf pre rest b hb src (by omega) neg amt]
    · simp only [he, Bool.false_eq_true, if_false, resizeNotify, notifyL]
      have h1 : ¬ src < b := by omega
      simp only [h1, if_false]
      rw [e1, before_trees fs ih hok.2 hz vs hv.2 hf (pre ++ sz) rest (b + Fixed.sizeList sized)
        (by simp [hb, hv.1.1.1]) src (by omega) neg amt]
  | enum ds ps ih =>
    intro top ie hok hz v hv hf pre rest b hb src hs neg amt
    cases v <;> simp only [valid, Bool.false_eq_true] at hv
    rename_i i pl
    simp only [Shape.okAux, Bool.and_eq_true, beq_iff_eq, decide_eq_true_eq] at hok
    simp only [Bool.and_eq_true, decide_eq_true_eq] at hv
    simp only [fits] at hf
    simp only [Shape.zst] at hz
    obtain ⟨t, ht, hvt⟩ := validVariant_get ps i pl hv.2
    have hd : ds[i]? = some ds[i] := List.getElem?_eq_getElem hv.1
    simp only [size, sizeVariant_get ps i t pl ht] at hs
    simp only [treeOf, encode, resizeNotify]
    rw [encodeVariant_get ds ps i pl _ t hd ht]
    have h1 : ¬ src < b := by omega
    by_cases hu : t = .unit
    · subst hu
      rw [variantTree_unit ps i pl (b + 1) ht]
      simp [notifyO, h1]
    · rw [variantTree_some ps i t pl (b + 1) ht hu]
      simp only [notifyO]
      have e1 : ∀ E : List Nat, pre ++ ds[i] :: E ++ rest = (pre ++ [ds[i]]) ++ E ++ rest := by
        intro E; simp [List.append_assoc]
      rw [e1, ih _ (List.mem_of_getElem? ht) false true (okPayloads_get ps i _ ht hok.2)
        (zstAny_false_mem ps hz _ (List.mem_of_getElem? ht)) pl hvt (fitsVariant_get ps i pl _ ht hf)
        (pre ++ [ds[i]]) rest (b + 1) (by simp [hb]) src (by omega) neg amt]
      simp [h1]
  | ulist e ih =>
    intro top ie hok hz v hv hf pre rest b hb src hs neg amt
    cases v <;> simp only [valid, Bool.false_eq_true] at hv
    rename_i vs
    simp only [fits, Bool.and_eq_true, decide_eq_true_eq] at hf
    have hsizes := map_encode_length e vs hv
    have husz : rd32 (pre ++ encode (.ulist e) (.useq vs) ++ rest) b = (vs.map (size e)).sum := by
      rw [encode_ulist_uBytes, uBytes, ← hsizes]
      have e1 : pre ++ (uHdrOf (vs.map fun _ => []) ((vs.map (encode e)).map List.length)
          ++ (vs.map (encode e)).flatten) ++ rest
          = pre ++ uHdrOf (vs.map fun _ => []) ((vs.map (encode e)).map List.length)
            ++ ((vs.map (encode e)).flatten ++ rest) := by simp [List.append_assoc]
      rw [e1, rd32_uHdr_usz _ _ pre _ b hb (by rw [hsizes]; exact hf.1.2)]
    simp only [size] at hs
    simp only [treeOf, resizeNotify, husz]
    have h1 : ¬ src < b := by omega
    have h2 : src ≠ b := by omega
    have h3 : ¬ src < b + (8 + vs.length * 4 + 4 + (vs.map (size e)).sum) := by omega
    simp only [h1, h2, h3, if_false]
  | umap kw e ih =>
    intro top ie hok hz v hv hf pre rest b hb src hs neg amt
    cases v <;> simp only [valid, Bool.false_eq_true] at hv
    rename_i es
    simp only [Bool.and_eq_true] at hv
    simp only [fits, Bool.and_eq_true, decide_eq_true_eq] at hf
    have hvall : es.all (fun kv => valid e kv.2) = true := by
      rw [List.all_eq_true] at hv ⊢
      intro x hx'; have := hv.1 x hx'; simp only [Bool.and_eq_true] at this; exact this.2
    have hsizes := map_encode_length_kv e es hvall
    have husz : rd32 (pre ++ encode (.umap kw e) (.umap es) ++ rest) b = (es.map (fun kv => size e kv.2)).sum := by
      rw [encode_umap_uBytes, uBytes, ← hsizes]
      have e1 : pre ++ (uHdrOf (es.map (·.1)) ((es.map fun kv => encode e kv.2).map List.length)
          ++ (es.map fun kv => encode e kv.2).flatten) ++ rest
          = pre ++ uHdrOf (es.map (·.1)) ((es.map fun kv => encode e kv.2).map List.length)
            ++ ((es.map fun kv => encode e kv.2).flatten ++ rest) := by simp [List.append_assoc]
      rw [e1, rd32_uHdr_usz _ _ pre _ b hb (by rw [hsizes]; exact hf.1.2)]
    simp only [size] at hs
    simp only [treeOf, resizeNotify, notifyL, husz]
    have h1 : ¬ src < b := by omega
    have h2 : src ≠ b := by omega
    have h3 : ¬ src < b + (8 + es.length * Shape.entryW kw + 4 + (es.map (fun kv => size e kv.2)).sum) := by omega
    simp only [h1, h2, h3, if_false]
  | rem => intro top ie hok hz; simp [Shape.zst] at hz
  | unit => intro top ie hok hz v hv hf pre rest b hb src hs neg amt; simp [treeOf, resizeNotify, notifyL]
  | disc d inner ih =>
    intro top ie hok hz v hv hf pre rest b hb src hs neg amt
    simp only [Shape.okAux, Bool.and_eq_true] at hok
    simp only [valid] at hv
    simp only [fits] at hf
    simp only [size] at hs
    simp only [treeOf, encode]
    have e1 : pre ++ (d ++ encode inner v) ++ rest = (pre ++ d) ++ encode inner v ++ rest := by
      simp [List.append_assoc]
    rw [e1]
    exact ih false false hok.2 (by simpa [Shape.zst] using hz) v hv hf (pre ++ d) rest (b + d.length)
      (by simp [hb]) src (by omega) neg amt
  | _ =>
    intro top ie hok hz v hv hf pre rest b hb src hs neg amt
    have h1 : ¬ src < b := by omega
    simp only [treeOf, resizeNotify, notifyL, h1, if_false]

end Unsized.Ptr
