import Unsized.PtrHonestM9
import Unsized.AccessStoreAll
import Unsized.AccessLemmasCanon
import Unsized.MachineRefine
namespace Unsized.Ptr
open Common Unsized Unsized.Text Unsized.Machine Unsized.PtrT Unsized.PtrM

theorem simple_not_composite (op : Op) (h : simpleOp op = true) : composite op = false := by
  cases op <;> simp [simpleOp] at h <;> rfl

/-- What `runEvs` does with the events of one non-composite op whose notification (if any) has the node
itself as source. -/
def RunOut (w : World) (x : Which) (s : Shape) (v : Val) (π : List Step) (t : Shape) (u : Val) (op : Op)
    (R1 T1 : PtrTree) : Prop :=
  let X := w.get x
  let tr := applyAtT ⟨s, π⟩ t (offsetOf s v π) op X.mem
  (∃ e, Spec.applyNode t u op = .error e ∧ tr.1 = (X.mem, .error e) ∧ runEvs w X R1 tr.2 = .ok R1) ∨
  (∃ u' r m', Spec.applyNode t u op = .ok (u', r) ∧ tr.1 = (m', .ok r)
      ∧ Focus s (subst s v π u') π t u' m' ∧ m'.orig = X.mem.orig ∧ m'.refuse = X.mem.refuse ∧
      ((size t u' = size t u ∧ runEvs w X R1 tr.2 = .ok R1) ∨
       (∃ neg amt snap R2 T2, runEvs w X R1 tr.2 = .ok R2
          ∧ HonPath s (subst s v π u') X.base π R2 T2
          ∧ resizeNotify (uszIn w X.base snap) (X.base + offsetOf s v π) neg amt T1 = some T2
          ∧ size t u' = applyDelta neg amt (size t u) ∧ (neg = true → amt ≤ size t u) ∧ 0 < amt
          ∧ (neg = false → size s v + amt ≤ X.mem.orig + maxIncrease))))

theorem run_op {w : World} {x : Which} {s : Shape} {v : Val} (c : PCtx w x s v) (π : List Step) (t : Shape)
    (u : Val) (hres : resolve s v π = .ok (t, u)) (R1 T1 : PtrTree)
    (hp : HonPath s v (w.get x).base π R1 T1) (hT : Hon t u ((w.get x).base + offsetOf s v π) T1)
    (op : Op) (hs : simpleOp op = true)
    (hsrc : srcOf t (offsetOf s v π) op (w.get x).mem = offsetOf s v π)
    (hcmd : match Spec.applyNode t u op with
      | .ok (u', _) => (plug s v π (encode t u')).length ≤ (w.get x).mem.orig + maxIncrease
      | .error e => e ≠ .initFail) :
    RunOut w x s v π t u op R1 T1 := by
  have F : Focus s v π t u (w.get x).mem := ⟨c.good, hres, c.bytes⟩
  have gt := F.sub
  have href := node_refines F c.calm op
  have hlen := applyAtT_len_exact F c.calm op
  have hesp := applyAtT_espec ⟨s, π⟩ t (offsetOf s v π) op (w.get x).mem hs (fun cw hc => ulistOk_of_focus F cw hc)
  rw [hsrc] at hesp
  have hfst := applyAtT_fst ⟨s, π⟩ t (offsetOf s v π) op (w.get x).mem
  have hroot : checkTop (w.get x).rng R1 = true :=
    checkTop_hon c R1 (honPath_fill π s v t u _ R1 T1 c.good hres hp hT)
  have hst : size t u = (encode t u).length := (encode_size_all _ _ gt.valid).symm
  have hsv : size s v = (encode s v).length := (encode_size_all _ _ c.good.valid).symm
  unfold RunOut
  simp only []
  unfold Refines at href
  cases hspec : Spec.applyNode t u op with
  | error e =>
    rw [hspec] at href hcmd
    simp only [] at hcmd
    have happ : applyAt ⟨s, π⟩ t (offsetOf s v π) op (w.get x).mem = ((w.get x).mem, .error e) := by
      cases e <;> first
        | exact absurd rfl hcmd
        | (rcases href with h | h
           · rw [simple_not_composite op hs] at h; cases h
           · exact h)
    refine Or.inl ⟨e, rfl, by rw [hfst, happ], ?_⟩
    rcases hesp with ⟨hn, _⟩ | ⟨neg, amt, pre, snap, post, hev, h1, h2, h3, h4, h5, h6⟩
    · exact runEvs_noNotify w _ R1 _ hn hroot
    · exfalso
      have hq := hlen.1
      rw [h6, hfst, happ] at hq
      simp only [] at hq
      cases neg with
      | false => simp only [applyDelta, Bool.false_eq_true, if_false] at hq; omega
      | true => have := h4 rfl; simp only [applyDelta, if_true] at hq; omega
  | ok ur =>
    obtain ⟨u', r⟩ := ur
    rw [hspec] at href hcmd
    simp only [] at href hcmd
    obtain ⟨m', happ, F', ho, hr⟩ := href hcmd
    have gt' := F'.sub
    have hst' : size t u' = (encode t u').length := (encode_size_all _ _ gt'.valid).symm
    have hpl := plug_length π s v t u c.good hres (encode t u')
    have henc' : encode s (subst s v π u') = plug s v π (encode t u') := subst_encode π s v t u u' c.good hres
    have hm'len : m'.bytes.length = (plug s v π (encode t u')).length := by rw [F'.bytes, henc']
    have hlen1 := hlen.1
    rw [hfst, happ] at hlen1
    simp only [] at hlen1
    have hle := offsetOf_le π s v t u c.good hres
    refine Or.inr ⟨u', r, m', rfl, by rw [hfst, happ], F', ho, hr, ?_⟩
    rcases hesp with ⟨hn, hl0⟩ | ⟨neg, amt, pre, snap, post, hev, h1, h2, h3, h4, h5, h6⟩
    · refine Or.inl ⟨?_, runEvs_noNotify w _ R1 _ hn hroot⟩
      rw [hl0, c.bytes] at hlen1
      omega
    · refine Or.inr ?_
      rw [h6, c.bytes] at hlen1
      have hX : (encode t u').length = applyDelta neg amt (encode t u).length := by
        cases neg with
        | false => simp only [applyDelta, Bool.false_eq_true, if_false] at hlen1 ⊢; omega
        | true =>
          have := h4 rfl; rw [c.bytes] at this
          simp only [applyDelta, if_true] at hlen1 ⊢; omega
      have hneg : neg = true → amt ≤ (encode t u).length := by
        intro hn; subst hn
        have := h4 rfl; rw [c.bytes] at this
        simp only [applyDelta, if_true] at hlen1; omega
      have hroom : neg = false → (encode s v).length + amt ≤ (w.get x).mem.orig + maxIncrease := by
        intro hn; subst hn
        simp only [applyDelta, Bool.false_eq_true, if_false] at hlen1; omega
      rw [c.bytes] at h5
      obtain ⟨R2, T2, hrun, hp2, hself⟩ := run_notify c π t u u' hres F'.good R1 T1 hp hT pre post neg amt snap h1 h2 h3
        h5 hX hneg hroom
      rw [← hev] at hrun
      exact ⟨neg, amt, snap, R2, T2, hrun, hp2, hself, by rw [hst', hst]; exact hX, by rw [hst]; exact hneg, h3,
        by rw [hsv]; exact hroom⟩

end Unsized.Ptr
