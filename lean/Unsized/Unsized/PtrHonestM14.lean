import Unsized.PtrHonestN8
import Unsized.PtrHonestS1
namespace Unsized.Ptr
open Common Unsized Unsized.Text Unsized.Machine Unsized.PtrT Unsized.PtrM

/-- The invariant of buffer `A` of the pointer machine on an honest history: the bytes are the canonical
serialization of a well-formed value `v` (C01/C02), the live levels are nested accessor paths, and the top
pointer object is honest for `v` along the innermost live level (hence along every live level,
`honPath_split`), with an honest pointer in the innermost accessor's hands. -/
structure PInv (s : Shape) (w : World) (v : Val) : Prop where
  ctx : PCtx w .A s v
  chain : w.a.levels.Pairwise (fun a b => a <+: b)
  hon : ∃ t u T, resolve s v w.a.cur = .ok (t, u) ∧ HonPath s v w.a.base w.a.cur w.a.root T
    ∧ Hon t u (w.a.base + offsetOf s v w.a.cur) T

theorem pctx_root {w : World} {s : Shape} {v : Val} (c : PCtx w .A s v) (R : PtrTree) :
    PCtx (w.set .A { w.a with root := R }) .A s v := by
  have h1 := c.bytes; have h2 := c.calm; have h3 := c.big; have h4 := c.far
  simp only [World.get] at h1 h2 h3 h4
  exact ⟨c.good, c.ok, c.nd, by simpa [World.set, World.get] using h1, by simpa [World.set, World.get] using h2,
    ownsOwn_A _, ⟨by simpa [World.set, World.get] using h4, by simpa [World.set, World.get] using h3⟩⟩

theorem resolve_prefix (p : List Step) : ∀ (s : Shape) (v : Val) (q : List Step) (t : Shape) (u : Val),
    resolve s v (p ++ q) = .ok (t, u) → ∃ t1 u1, resolve s v p = .ok (t1, u1) ∧ resolve t1 u1 q = .ok (t, u) := by
  induction p with
  | nil => intro s v q t u h; exact ⟨s, v, by simp [resolve], by simpa using h⟩
  | cons st p ih =>
    intro s v q t u h
    simp only [List.cons_append, resolve] at h ⊢
    cases h1 : resolve1 s v st with
    | error e => simp [h1] at h
    | ok tu =>
      obtain ⟨t1, u1⟩ := tu
      simp only [h1] at h ⊢
      exact ih t1 u1 q t u h

/-- An honest object along `p ++ q` is honest along `p` (the accessors below are just cached pointers). -/
theorem honPath_close (p q : List Step) (s : Shape) (v : Val) (t : Shape) (u : Val) (b : Nat) (R T : PtrTree)
    (g : Good s v) (h : resolve s v (p ++ q) = .ok (t, u)) (hp : HonPath s v b (p ++ q) R T)
    (hT : Hon t u (b + offsetOf s v (p ++ q)) T) :
    ∃ t1 u1 M, resolve s v p = .ok (t1, u1) ∧ HonPath s v b p R M ∧ Hon t1 u1 (b + offsetOf s v p) M := by
  obtain ⟨t1, u1, h1, h2⟩ := resolve_prefix p s v q t u h
  obtain ⟨M, hM, hq⟩ := honPath_split p s v t1 u1 b q R T h1 hp
  have g1 : Good t1 u1 := (Focus.sub (m := ⟨encode s v, 0, 0, []⟩) ⟨g, h1, rfl⟩)
  have hoff := offsetOf_append p q s v t1 u1 h1
  rw [hoff, ← Nat.add_assoc] at hT
  exact ⟨t1, u1, M, h1, hM, honPath_fill q t1 u1 t u _ M T g1 h2 hq hT⟩


theorem not_disc_of_ok (f : Shape) (ie : Bool) (h : Shape.okAux false ie f = true) : ∀ d i, f ≠ .disc d i := by
  intro d i hd; subst hd; simp [Shape.okAux] at h

theorem step_not_disc (s : Shape) (v : Val) (st : Step) (t : Shape) (u : Val) (g : Good s v)
    (h : resolve1 s v st = .ok (t, u)) : ∀ d i, t ≠ .disc d i := by
  unfold resolve1 at h
  split at h
  · rename_i sized fs sz vs i
    split at h
    · rename_i f x hf hx
      cases h
      obtain ⟨top, ie, hok⟩ := g.ok
      simp only [Shape.okAux, Bool.and_eq_true] at hok
      exact not_disc_of_ok t false (okFields_get fs i t hf hok.2)
    · cases h
  · rename_i e vs i
    split at h
    · cases h
      obtain ⟨top, ie, hok⟩ := g.ok
      simp only [Shape.okAux, Bool.and_eq_true, Bool.not_eq_true'] at hok
      exact not_disc_of_ok t false hok.1
    · cases h
  · rename_i kw e es i
    split at h
    · cases h
      obtain ⟨top, ie, hok⟩ := g.ok
      simp only [Shape.okAux, Bool.and_eq_true, Bool.not_eq_true', decide_eq_true_eq] at hok
      exact not_disc_of_ok t false hok.1.2
    · cases h
  · rename_i ds ps idx pl
    split at h
    · cases h
    · cases h
    · rename_i t' hnu ht
      cases h
      obtain ⟨top, ie, hok⟩ := g.ok
      simp only [Shape.okAux, Bool.and_eq_true] at hok
      exact not_disc_of_ok t true (okPayloads_get ps idx t ht hok.2)
  · cases h

theorem resolve_not_disc (p : List Step) : ∀ (s : Shape) (v : Val) (t : Shape) (u : Val), Good s v →
    (∀ d i, s ≠ .disc d i) → resolve s v p = .ok (t, u) → ∀ d i, t ≠ .disc d i := by
  induction p with
  | nil => intro s v t u g hnd h; simp [resolve] at h; obtain ⟨rfl, rfl⟩ := h; exact hnd
  | cons st p ih =>
    intro s v t u g hnd h
    simp only [resolve] at h
    cases h1 : resolve1 s v st with
    | error e => simp [h1] at h
    | ok tu =>
      obtain ⟨t1, u1⟩ := tu
      simp only [h1] at h
      exact ih t1 u1 t u (step_facts s v st t1 u1 g h1).1 (step_not_disc s v st t1 u1 g h1) h

/-- The ops whose pointer-level effect is proved: EVERY op of the op language on every node kind. The only
condition comes from the C03 machine itself: for `UnsizedMap::insert` on a key the map already holds it replaces
the cached element pointer only when its `start_ptr` is defined, and `PtrM.startAddr` looks two struct levels
deep; so the element shape must be `startOk` (decidable, `Ptr.startOk_start`; true of every leaf, container and
enum shape, of every struct with a sized part, and of sized-part-less structs nested at most two deep). -/
def Covered (sh : Shape) (u : Val) (op : Op) : Prop :=
  ∀ kw e es k, sh = .umap kw e → u = .umap es →
    (op = .uminsert k ∨ ∃ xs, op = .uminsertArr k xs) → Spec.hasUKey (rdLE k) es = true →
    startOk e = true

/-- The side condition of one op (C01's `CmdOk` at node level), needed for the single-resize ops only: a
successful model step stays inside the allocation, and a failing one is not the registered "initialiser fails
behind the resize" finding. The composite ops (`str_set`, `Set/Map::insert_all`) need NO side condition: every
exit is covered, including the registered findings (a refused/failed resize half-way leaves the partially
updated value, for which the pointers are honest). -/
def NodeOk (s : Shape) (v : Val) (π : List Step) (t : Shape) (u : Val) (op : Op) (orig : Nat) : Prop :=
  simpleOp op = true →
  match Spec.applyNode t u op with
  | .ok (u', _) => (plug s v π (encode t u')).length ≤ orig + maxIncrease
  | .error e => e ≠ .initFail

/-- `opAt` on any covered node. -/
theorem opAt_hon {w : World} {s : Shape} {v : Val} (c : PCtx w .A s v) (π : List Step) (t : Shape) (u : Val)
    (hres : resolve s v π = .ok (t, u)) (T : PtrTree) (hp : HonPath s v w.a.base π w.a.root T)
    (hT : Hon t u (w.a.base + offsetOf s v π) T) (op : Op) (hcov : Covered t u op)
    (hcmd : NodeOk s v π t u op w.a.mem.orig) :
    StepRes w s v π t u op (opAt w .A ⟨s, π⟩ (tpath s v π) t op) := by
  have hnd := resolve_not_disc π s v t u c.good c.nd hres
  by_cases hsimple : simpleOp op = true
  case neg =>
    have hs' : simpleOp op = false := by simpa using hsimple
    exact opAt_hon_comp_all c π t u hres T hp hT op hs'
  have hcmd' : match Spec.applyNode t u op with
      | .ok (u', _) => (plug s v π (encode t u')).length ≤ w.a.mem.orig + maxIncrease
      | .error e => e ≠ .initFail := hcmd hsimple
  by_cases hl : ∃ e, t = .ulist e
  · obtain ⟨e, rfl⟩ := hl
    have gt : Good (.ulist e) u := (Focus.sub ⟨c.good, hres, c.bytes⟩)
    obtain ⟨vs, rfl⟩ := good_ulist_val e u gt
    exact opAt_hon_ulist c π e vs hres T hp hT op hsimple hcmd'
  · by_cases hm : ∃ kw e, t = .umap kw e
    · obtain ⟨kw, e, rfl⟩ := hm
      have gt : Good (.umap kw e) u := (Focus.sub ⟨c.good, hres, c.bytes⟩)
      obtain ⟨es, rfl⟩ := good_umap_val kw e u gt
      have F : Focus s v π (.umap kw e) (.umap es) w.a.mem := ⟨c.good, hres, c.bytes⟩
      by_cases hex : ∃ k, (op = .uminsert k ∨ ∃ xs, op = .uminsertArr k xs) ∧ Spec.hasUKey (rdLE k) es = true
      · obtain ⟨k, hk, hhas⟩ := hex
        have hop : ∃ init, InsOp op k init := by
          rcases hk with rfl | ⟨xs, rfl⟩
          · exact ⟨.default, Or.inl ⟨rfl, rfl⟩⟩
          · exact ⟨.array xs, Or.inr ⟨xs, rfl, rfl⟩⟩
        obtain ⟨init, hop⟩ := hop
        exact opAt_hon_umap_at c π kw e es hres T hp hT op hsimple k init hop hhas (startOk_start e (hcov kw e es k rfl rfl hk hhas)) hcmd'
      · exact opAt_hon_umap c π kw e es hres T hp hT op hsimple
          (srcOf_of_nokey F c.calm op (fun k hk => by
            cases hh : Spec.hasUKey (rdLE k) es with
            | false => rfl
            | true => exact absurd ⟨k, hk, hh⟩ hex)) hcmd'
    · exact opAt_hon_plain c π t u hres T hp hT (fun e h => hl ⟨e, h⟩) (fun kw e h => hm ⟨kw, e, h⟩) hnd op hsimple hcmd'

end Unsized.Ptr
