import Unsized.PtrHonestM6
namespace Unsized.Ptr
open Common Unsized Unsized.Text Unsized.Machine Unsized.PtrT Unsized.PtrM

/-- **The address assumptions, stated once.** An account's data sits at address `base` of a 64-bit address
space, `orig` is its `original_data_len` (so the allocation is `[base, base + orig + 10240)`):
* `far`: the data does not sit in the first `orig + 10240` bytes of the address space (the pointer arithmetic
  of `resize_notification` on a shrink, `addr - amount`, is done for pointers `≥ source` and must not wrap);
* `big`: `base + 2 * (orig + 10240)` is below `2^64` (no pointer of the allocation, plus one more growth amount,
  wraps — `wrapping_add`/`checked_add` in the adjust helpers then act as plain addition).
`addrOk_solana` below is the non-vacuity example: the runtime's input region `0x4_0000_0000` with a 10 MiB
account. -/
def AddrOk (base orig : Nat) : Prop :=
  orig + maxIncrease ≤ base ∧ base + 2 * (orig + maxIncrease) < Shape.usizeLim

/-- Non-vacuity of `AddrOk` at realistic numbers: the first account of a transaction lives a few bytes above
`MM_INPUT_START = 0x4_0000_0000`; the largest account is 10 MiB. -/
example : AddrOk (0x400000000 + 96) (10 * 1024 * 1024) := by
  unfold AddrOk maxIncrease Shape.usizeLim; omega

/-- … and in fact every address of the input region and every legal account length. -/
theorem addrOk_solana (base orig : Nat) (h1 : 0x400000000 ≤ base) (h2 : base < 0x500000000)
    (h3 : orig ≤ 10 * 1024 * 1024) : AddrOk base orig := by
  unfold AddrOk maxIncrease Shape.usizeLim; omega

/-- The byte-level invariant of buffer `x` of the pointer machine (what C01/C02 maintain), plus the address
assumptions: the buffer's addresses are its own, and do not wrap (`AddrOk`). -/
structure PCtx (w : World) (x : Which) (s : Shape) (v : Val) : Prop where
  good : Good s v
  ok : s.ok = true
  nd : ∀ d i, s ≠ .disc d i
  bytes : (w.get x).mem.bytes = encode s v
  calm : Calm (w.get x).mem
  own : OwnsOwn w x
  addr : AddrOk (w.get x).base (w.get x).mem.orig

theorem PCtx.big {w x s v} (c : PCtx w x s v) :
    (w.get x).base + 2 * ((w.get x).mem.orig + maxIncrease) < Shape.usizeLim := c.addr.2

/-- the data does not sit in the first `orig + 10240` bytes of the address space -/
theorem PCtx.far {w x s v} (c : PCtx w x s v) : (w.get x).mem.orig + maxIncrease ≤ (w.get x).base := c.addr.1

theorem PCtx.nu {w x s v} (c : PCtx w x s v) : s ≠ .unit := by
  intro h; have := c.ok; subst h; simp [Shape.ok, Shape.okAux] at this

theorem PCtx.len {w x s v} (c : PCtx w x s v) : size s v ≤ (w.get x).mem.orig + maxIncrease := by
  rw [← encode_size_all s v c.good.valid, ← c.bytes]; exact c.calm.fitsNow

/-- `check_pointers` with the allocation range accepts every honest top pointer object: the
`debug_assert!`s of `add_bytes` / `remove_bytes` and `ExclusiveTopDrop::drop` never fire on it. -/
theorem checkTop_hon {w x s v} (c : PCtx w x s v) (R : PtrTree) (h : Hon s v (w.get x).base R) :
    checkTop (w.get x).rng R = true := by
  obtain ⟨cc, hc, _, _⟩ := hon_check s true false c.ok c.nu v c.good.valid _ R h (w.get x).rng (w.get x).base
    (Nat.le_refl _) (Nat.le_refl _) (by simp only [PBuf.rng]; have := c.len; omega)
  simp only [checkTop, PBuf.rng] at hc ⊢
  rw [hc]

theorem rd32_take (bs : List Nat) (k n : Nat) (h : k + 4 ≤ n) : rd32 (bs.take n) k = rd32 bs k := by
  unfold rd32 rdN rd
  rw [List.drop_take, List.take_take]
  congr 2; omega

theorem rd32_prepend (pre E : List Nat) (a : Nat) (h : pre.length ≤ a) : rd32 (pre ++ E) a = rd32 E (a - pre.length) := by
  unfold rd32 rdN rd
  have : a = pre.length + (a - pre.length) := by omega
  rw [this, drop_append_add pre E _ _ rfl]
  congr 3; omega


/-- What `unsized_size` reads during the broadcast agrees with the OLD canonical bytes before the source. -/
theorem usz_agree (w : World) (base : Nat) (snap E : List Nat) (src : Nat) (hsrc : src ≤ E.length)
    (htk : snap.take src = E.take src) :
    ∀ a, base ≤ a → a + 4 ≤ base + src → uszIn w base snap a = rd32 (List.replicate base 0 ++ E) a := by
  intro a h1 h2
  have hsl : src ≤ snap.length := by
    have := congrArg List.length htk
    simp only [List.length_take] at this; omega
  have hc : base ≤ a ∧ a + 4 ≤ base + snap.length := ⟨h1, by omega⟩
  simp only [uszIn, hc, and_self, if_true]
  rw [rd32_prepend _ _ _ (by simpa using h1)]
  simp only [List.length_replicate]
  rw [← rd32_take snap (a - base) src (by omega), ← rd32_take E (a - base) src (by omega), htk]

/-- **One notification of an op, walked by `runEvs`** on an honest top object whose chain along `π` ends in
an honest pointer `T`: the calls before it pass the `debug_assert!`, the notification turns the object into
the chain of the new value, ending in the self-notified `T'`. -/
theorem run_notify {w : World} {x : Which} {s : Shape} {v : Val} (c : PCtx w x s v) (π : List Step) (t : Shape)
    (u u' : Val) (hres : resolve s v π = .ok (t, u)) (g' : Good s (subst s v π u')) (R T : PtrTree)
    (hp : HonPath s v (w.get x).base π R T) (hT : Hon t u ((w.get x).base + offsetOf s v π) T)
    (pre post : List Ev) (neg : Bool) (amt : Nat) (snap : List Nat) (hpre : NoNotify pre) (hpost : Inert post)
    (hamt : 0 < amt) (htk : snap.take (offsetOf s v π) = (encode s v).take (offsetOf s v π))
    (hX : (encode t u').length = applyDelta neg amt (encode t u).length)
    (hneg : neg = true → amt ≤ (encode t u).length)
    (hroom : neg = false → (encode s v).length + amt ≤ (w.get x).mem.orig + maxIncrease) :
    ∃ R2 T', runEvs w (w.get x) R (pre ++ Ev.notify (offsetOf s v π) neg amt snap :: post) = .ok R2
      ∧ HonPath s (subst s v π u') (w.get x).base π R2 T'
      ∧ resizeNotify (uszIn w (w.get x).base snap) ((w.get x).base + offsetOf s v π) neg amt T = some T' := by
  have gt : Good t u := (Focus.sub ⟨c.good, hres, c.bytes⟩)
  have hle := offsetOf_le π s v t u c.good hres
  have hlen := c.calm.fitsNow
  rw [c.bytes] at hlen
  have hbig := c.big
  have hfar := c.far
  have hst : size t u = (encode t u).length := (encode_size_all _ _ gt.valid).symm
  obtain ⟨top, ie, hokt⟩ := gt.ok
  obtain ⟨T', hT'⟩ := hon_self t top ie hokt u gt.valid ((w.get x).base + offsetOf s v π)
    ((w.get x).base + (encode s v).length) (uszIn w (w.get x).base snap) neg amt T
    (fun hn => by have := hneg hn; omega) (by omega)
    (fun hn => by have := hroom hn; omega) hT
  obtain ⟨R2, hr1, hr2⟩ := notify_path π s v t u u' c.good g' hres (List.replicate (w.get x).base 0) (w.get x).base
    ((w.get x).base + offsetOf s v π) neg amt R T T' (by simp) hX hneg rfl
    (by cases neg with
        | false => have := hroom rfl; omega
        | true => have := hneg rfl; omega)
    (uszIn w (w.get x).base snap)
    (usz_agree w (w.get x).base snap (encode s v) (offsetOf s v π) (by omega) htk) hp hT'
  refine ⟨R2, T', ?_, hr2, hT'⟩
  exact runEvs_one w (w.get x) R R2 pre post _ neg amt snap hpre hpost
    (checkTop_hon c R (honPath_fill π s v t u _ R T c.good hres hp hT)) hr1

end Unsized.Ptr
