import Unsized.PtrHonestN1
namespace Unsized.Ptr
open Common Unsized Unsized.Text Unsized.Machine Unsized.PtrT Unsized.PtrM

/-- The ambient buffer `runEvs` is called with during a multi-resize op, and the facts about the allocation
that do not change during the op. -/
structure Amb (s : Shape) (X0 : PBuf) : Prop where
  ok : s.ok = true
  nd : ∀ d i, s ≠ .disc d i
  addr : AddrOk X0.base X0.mem.orig

theorem Amb.big {s X0} (a : Amb s X0) : X0.base + 2 * (X0.mem.orig + maxIncrease) < Shape.usizeLim := a.addr.2
theorem Amb.far {s X0} (a : Amb s X0) : X0.mem.orig + maxIncrease ≤ X0.base := a.addr.1

/-- The byte-level context of an intermediate state `m` of a multi-resize op. -/
theorem Amb.ctx {s : Shape} {X0 : PBuf} (a : Amb s X0) (w0 : World) {v : Val} {π : List Step} {t : Shape} {u : Val}
    {m : Mem} (F : Focus s v π t u m) (cm : Calm m) (ho : m.orig = X0.mem.orig) :
    PCtx ⟨{ X0 with mem := m }, w0.b⟩ .A s v :=
  ⟨F.good, a.ok, a.nd, F.bytes, cm, ownsOwn_A _, ⟨by simp only [World.get]; rw [ho]; exact a.far,
    by simp only [World.get]; rw [ho]; exact a.big⟩⟩

theorem run_setInsertAll {s : Shape} {X0 : PBuf} (a : Amb s X0) (w0 : World) (π : List Step) (e : Fixed) (lw : Nat)
    (T : PtrTree) (xs : List (List Nat)) :
    ∀ (v : Val) (m : Mem) (es : List (List Nat)) (n : Nat) (R : PtrTree), Focus s v π (.set e lw) (.seq es) m → Calm m →
      m.orig = X0.mem.orig → HonPath s v X0.base π R T → Hon (.set e lw) (.seq es) (X0.base + offsetOf s v π) T →
      (∀ x ∈ xs, validE e x = true) →
      ∀ (es' : List (List Nat)) (n' : Nat), Spec.setInsertAll e.size lw xs es n = .ok (es', n') →
      (plug s v π (encode (.set e lw) (.seq es'))).length ≤ m.orig + maxIncrease →
      ∃ m' evs R', setInsertAllT ⟨s, π⟩ e.size lw (offsetOf s v π) xs n m = ((m', .ok (.count n')), evs)
        ∧ runEvs w0 X0 R evs = .ok R' ∧ HonPath s (subst s v π (.seq es')) X0.base π R' T
        ∧ Focus s (subst s v π (.seq es')) π (.set e lw) (.seq es') m'
        ∧ m'.orig = m.orig ∧ m'.refuse = m.refuse := by
  induction xs with
  | nil =>
    intro v m es n R F c ho hp hT _ es' n' h hroom
    simp [Spec.setInsertAll] at h
    obtain ⟨rfl, rfl⟩ := h
    refine ⟨m, [], R, rfl, rfl, ?_, F.same, rfl, rfl⟩
    rw [subst_self π s v _ _ F.res]; exact hp
  | cons x xs ih =>
    intro v m es n R F c ho hp hT hxs es' n' h hroom
    have hx := hxs x List.mem_cons_self
    have hxs' : ∀ y ∈ xs, validE e y = true := fun y hy => hxs y (List.mem_cons_of_mem _ hy)
    obtain ⟨h1, h2, h3⟩ := set_insert_step F c x hx
    have hfst := setInsertT_fst ⟨s, π⟩ e.size lw (offsetOf s v π) x m
    have hesp := setInsertT_espec ⟨s, π⟩ e.size lw (offsetOf s v π) x m
    have hlenx := (applyAtT_len_exact F c (.sinsert x)).1
    simp only [applyAtT, hx, if_true] at hlenx
    simp only [Spec.setInsertAll] at h
    simp only [setInsertAllT]
    by_cases hhas : Spec.hasKey e.size (rdLE x) es = true
    · simp only [hhas, if_true] at h
      rw [h1 hhas] at hfst
      rcases hT1 : setInsertT ⟨s, π⟩ e.size lw (offsetOf s v π) x m with ⟨⟨mm, rr⟩, ev⟩
      rw [hT1] at hfst hesp hlenx
      simp only [Prod.mk.injEq] at hfst
      obtain ⟨rfl, rfl⟩ := hfst
      simp only [Bool.false_eq_true, if_false]
      -- nothing changed: the events contain no notification
      have hnn : NoNotify ev := by
        rcases hesp with ⟨hn, _⟩ | ⟨neg, amt, pre, snap, post, hev, _, _, h3', h4, _, h6⟩
        · exact hn
        · exfalso
          simp only [] at hlenx h6
          rw [h6] at hlenx
          cases neg with
          | false => simp only [applyDelta, Bool.false_eq_true, if_false] at hlenx; omega
          | true => have := h4 rfl; simp only [applyDelta, if_true] at hlenx; omega
      obtain ⟨m', evs, R', hm', hrun, hp', F', ho', hr'⟩ := ih v mm es n R F c ho hp hT hxs' es' n' h hroom
      have hc0 : checkTop X0.rng R = true := by
        have := checkTop_hon (a.ctx w0 F c ho) R (by
          simpa [World.get] using honPath_fill π s v _ _ _ R T F.good F.res hp hT)
        simpa [World.get, PBuf.rng, ho] using this
      refine ⟨m', ev ++ evs, R', by rw [hm'], ?_, hp', F', ho', hr'⟩
      rw [runEvs_append_ok w0 X0 R R ev evs (runEvs_noNotify w0 X0 R ev hnn hc0)]; exact hrun
    · have hhas' : Spec.hasKey e.size (rdLE x) es = false := by simpa using hhas
      simp only [hhas', Bool.false_eq_true, if_false] at h
      by_cases hov : 256 ^ lw ≤ es.length + 1
      · simp only [hov, if_true] at h; cases h
      · simp only [hov, if_false] at h
        have hmono := setInsertAll_len_mono e.size lw xs _ _ es' n' h
        have hpl1 := plug_length π s v _ _ F.good F.res (encode (.set e lw) (.seq (insKey e.size x es)))
        have hpl2 := plug_length π s v _ _ F.good F.res (encode (.set e lw) (.seq es'))
        obtain ⟨hval, _, _, _⟩ := good_set F.sub
        have hw1 : ∀ y ∈ insKey e.size x es, y.length = e.size := by
          intro y hy
          rcases (insKey_mem e.size x es) y hy with h | h
          · subst h; exact validE_len hx
          · exact validE_len (hval y h)
        have hw2 : ∀ y ∈ es', y.length = e.size := by
          intro y hy
          rcases setInsertAll_mem e.size lw xs _ _ es' n' h y hy with h' | h'
          · exact hw1 y h'
          · exact validE_len (hxs' y h')
        have hroom1 : (plug s v π (encode (.set e lw) (.seq (insKey e.size x es)))).length ≤ m.orig + maxIncrease := by
          simp only [set_enc, List.length_append, leN_length] at hpl1 hpl2 hroom ⊢
          rw [flatten_width e.size _ hw1] at hpl1
          rw [flatten_width e.size _ hw2] at hpl2
          have := Nat.mul_le_mul_right e.size hmono
          omega
        obtain ⟨m1, hm1, F1, ho1, hr1⟩ := h3 hhas' hov hroom1
        rw [hm1] at hfst
        rcases hT1 : setInsertT ⟨s, π⟩ e.size lw (offsetOf s v π) x m with ⟨⟨mm, rr⟩, ev⟩
        rw [hT1] at hfst hesp hlenx
        simp only [Prod.mk.injEq] at hfst
        obtain ⟨rfl, rfl⟩ := hfst
        simp only [if_true]
        have c1 : Calm mm := c.next ho1 hr1 (by
          rw [F1.bytes, subst_encode π s v _ _ _ F.good F.res]; exact hroom1)
        obtain ⟨hoff, hplug, hss⟩ := F.next_facts _ mm F1 (by have := c1.fitsNow; have := c1.small; omega)
        -- the pointer side of this insert
        obtain ⟨R1, hrun1, hp1⟩ := run_trace (a.ctx w0 F c ho) w0 X0 rfl (by simp [World.get, PBuf.rng, ho]) π _ _
          (.seq (insKey e.size x es)) F.res rfl F1.good R T (by simpa [World.get] using hp) (by simpa [World.get] using hT)
          ev (by simpa [World.get] using hesp)
          (by simp only [World.get]; simp only [] at hlenx; rw [← hlenx, F1.bytes])
          (by simp only [World.get]; rw [subst_encode π s v _ _ _ F.good F.res]; exact hroom1)
        simp only [World.get] at hp1
        have hT1' : Hon (.set e lw) (.seq (insKey e.size x es))
            (X0.base + offsetOf s (subst s v π (.seq (insKey e.size x es))) π) T := by
          rw [hoff]; exact (hon_leafy _ _ _ _ T rfl hT).2
        obtain ⟨m', evs, R', hm', hrun, hp', F', ho', hr'⟩ := ih _ mm _ (n + 1) R1 F1 c1 (by rw [ho1]; exact ho) hp1 hT1' hxs'
          es' n' h (by rw [hplug, ho1]; exact hroom)
        rw [hoff] at hm'
        rw [hss] at hp' F'
        refine ⟨m', ev ++ evs, R', by rw [hm'], ?_, hp', F', by rw [ho', ho1], by rw [hr', hr1]⟩
        rw [runEvs_append_ok w0 X0 R R1 ev evs hrun1]; exact hrun


theorem run_mapInsertAll {s : Shape} {X0 : PBuf} (a : Amb s X0) (w0 : World) (π : List Step) (kw : Nat) (f : Fixed)
    (lw : Nat) (T : PtrTree) (kvs : List (List Nat × List Nat)) :
    ∀ (v : Val) (m : Mem) (es : List (List Nat)) (n : Nat) (R : PtrTree), Focus s v π (.map kw f lw) (.seq es) m → Calm m →
      m.orig = X0.mem.orig → HonPath s v X0.base π R T → Hon (.map kw f lw) (.seq es) (X0.base + offsetOf s v π) T →
      (∀ kx ∈ kvs, kx.1.length = kw ∧ BytesWF kx.1 ∧ validE f kx.2 = true) →
      ∀ (es' : List (List Nat)) (n' : Nat), Spec.mapInsertAll kw lw kvs es n = .ok (es', n') →
      (plug s v π (encode (.map kw f lw) (.seq es'))).length ≤ m.orig + maxIncrease →
      ∃ m' evs R', mapInsertAllT ⟨s, π⟩ kw f.size lw (offsetOf s v π) kvs n m = ((m', .ok (.count n')), evs)
        ∧ runEvs w0 X0 R evs = .ok R' ∧ HonPath s (subst s v π (.seq es')) X0.base π R' T
        ∧ Focus s (subst s v π (.seq es')) π (.map kw f lw) (.seq es') m'
        ∧ m'.orig = m.orig ∧ m'.refuse = m.refuse := by
  induction kvs with
  | nil =>
    intro v m es n R F c ho hp hT _ es' n' h hroom
    simp [Spec.mapInsertAll] at h
    obtain ⟨rfl, rfl⟩ := h
    refine ⟨m, [], R, rfl, rfl, ?_, F.same, rfl, rfl⟩
    rw [subst_self π s v _ _ F.res]; exact hp
  | cons kx kvs ih =>
    intro v m es n R F c ho hp hT hkvs es' n' h hroom
    obtain ⟨k, x⟩ := kx
    obtain ⟨hk, hkw, hx⟩ := hkvs (k, x) List.mem_cons_self
    simp only [] at hk hkw hx
    have hkvs' : ∀ kx ∈ kvs, kx.1.length = kw ∧ BytesWF kx.1 ∧ validE f kx.2 = true :=
      fun y hy => hkvs y (List.mem_cons_of_mem _ hy)
    obtain ⟨h1, h2, h3⟩ := map_insert_step F c k x hk hkw hx
    obtain ⟨hval, _, _, _⟩ := good_map F.sub
    have hfst := mapInsertT_fst ⟨s, π⟩ kw f.size lw (offsetOf s v π) k x m
    have hesp := mapInsertT_espec ⟨s, π⟩ kw f.size lw (offsetOf s v π) k x m
    have hlenx := (applyAtT_len_exact F c (.minsert k x)).1
    have hcond : (k.length == kw && decide (BytesWF k) && validE f x) = true := by simp [hk, hkw, hx]
    simp only [applyAtT, hcond, if_true] at hlenx
    simp only [Spec.mapInsertAll] at h
    simp only [mapInsertAllT]
    have cont : ∀ (n2 : Nat) (o : Option (List Nat)),
        Spec.mapInsertAll kw lw kvs (insKey kw (k ++ x) es) n2 = .ok (es', n') →
        ((plug s v π (encode (.map kw f lw) (.seq (insKey kw (k ++ x) es)))).length ≤ m.orig + maxIncrease →
          ∃ m1, mapInsert ⟨s, π⟩ kw f.size lw (offsetOf s v π) k x m = (m1, .ok o)
            ∧ Focus s (subst s v π (.seq (insKey kw (k ++ x) es))) π (.map kw f lw) (.seq (insKey kw (k ++ x) es)) m1
            ∧ m1.orig = m.orig ∧ m1.refuse = m.refuse) →
        n2 = (if o.isNone then n + 1 else n) →
        ∃ m' evs R', (match mapInsertT ⟨s, π⟩ kw f.size lw (offsetOf s v π) k x m with
            | ((m1, .error er), ev) => ((m1, .error er), ev)
            | ((m1, .ok old), ev) =>
              match mapInsertAllT ⟨s, π⟩ kw f.size lw (offsetOf s v π) kvs (if old.isNone then n + 1 else n) m1 with
              | (r, ev2) => (r, ev ++ ev2))
            = ((m', .ok (.count n')), evs)
          ∧ runEvs w0 X0 R evs = .ok R' ∧ HonPath s (subst s v π (.seq es')) X0.base π R' T
          ∧ Focus s (subst s v π (.seq es')) π (.map kw f lw) (.seq es') m'
          ∧ m'.orig = m.orig ∧ m'.refuse = m.refuse := by
      intro n2 o h2 hstep hn2
      have hmono := mapInsertAll_len_mono kw lw kvs _ _ es' n' h2
      have hpl1 := plug_length π s v _ _ F.good F.res (encode (.map kw f lw) (.seq (insKey kw (k ++ x) es)))
      have hpl2 := plug_length π s v _ _ F.good F.res (encode (.map kw f lw) (.seq es'))
      have hw1 : ∀ y ∈ insKey kw (k ++ x) es, y.length = kw + f.size := by
        intro y hy
        rcases insKey_mem kw (k ++ x) es y hy with h | h
        · subst h; simp [hk, validE_len hx]
        · exact validKV_len (hval y h)
      have hw2 : ∀ y ∈ es', y.length = kw + f.size := by
        intro y hy
        rcases mapInsertAll_mem kw lw kvs _ _ es' n' h2 y hy with h' | ⟨kx, hkx, rfl⟩
        · exact hw1 y h'
        · obtain ⟨a1, _, b1⟩ := hkvs' kx hkx; simp [a1, validE_len b1]
      have hroom1 : (plug s v π (encode (.map kw f lw) (.seq (insKey kw (k ++ x) es)))).length ≤ m.orig + maxIncrease := by
        simp only [map_enc, List.length_append, leN_length] at hpl1 hpl2 hroom ⊢
        rw [flatten_width (kw + f.size) _ hw1] at hpl1
        rw [flatten_width (kw + f.size) _ hw2] at hpl2
        have := Nat.mul_le_mul_right (kw + f.size) hmono
        omega
      obtain ⟨m1, hm1, F1, ho1, hr1⟩ := hstep hroom1
      rw [hm1] at hfst
      rcases hT1 : mapInsertT ⟨s, π⟩ kw f.size lw (offsetOf s v π) k x m with ⟨⟨mm, rr⟩, ev⟩
      rw [hT1] at hfst hesp hlenx
      simp only [Prod.mk.injEq] at hfst
      obtain ⟨rfl, rfl⟩ := hfst
      simp only []
      have c1 : Calm mm := c.next ho1 hr1 (by
        rw [F1.bytes, subst_encode π s v _ _ _ F.good F.res]; exact hroom1)
      obtain ⟨hoff, hplug, hss⟩ := F.next_facts _ mm F1 (by have := c1.fitsNow; have := c1.small; omega)
      obtain ⟨R1, hrun1, hp1⟩ := run_trace (a.ctx w0 F c ho) w0 X0 rfl (by simp [World.get, PBuf.rng, ho]) π _ _
        (.seq (insKey kw (k ++ x) es)) F.res rfl F1.good R T (by simpa [World.get] using hp) (by simpa [World.get] using hT)
        ev (by simpa [World.get] using hesp)
        (by simp only [World.get]; simp only [] at hlenx; rw [← hlenx, F1.bytes])
        (by simp only [World.get]; rw [subst_encode π s v _ _ _ F.good F.res]; exact hroom1)
      simp only [World.get] at hp1
      have hT1' : Hon (.map kw f lw) (.seq (insKey kw (k ++ x) es))
          (X0.base + offsetOf s (subst s v π (.seq (insKey kw (k ++ x) es))) π) T := by
        rw [hoff]; exact (hon_leafy _ _ _ _ T rfl hT).2
      obtain ⟨m', evs, R', hm', hrun, hp', F', ho', hr'⟩ := ih _ mm _ n2 R1 F1 c1 (by rw [ho1]; exact ho) hp1 hT1' hkvs'
        es' n' h2 (by rw [hplug, ho1]; exact hroom)
      rw [hoff, hn2] at hm'
      rw [hss] at hp' F'
      refine ⟨m', ev ++ evs, R', by rw [hm'], ?_, hp', F', by rw [ho', ho1], by rw [hr', hr1]⟩
      rw [runEvs_append_ok w0 X0 R R1 ev evs hrun1]; exact hrun
    cases hfind : Spec.findKey kw (rdLE k) es with
    | some old =>
      have hhas : Spec.hasKey kw (rdLE k) es = true := by
        rcases map_search F k hk hkw with ⟨j, hj, _, _, _, hh, _, _⟩ | ⟨j, _, _, hf, _, _⟩
        · exact hh
        · rw [hfind] at hf; cases hf
      simp only [hhas, if_true] at h
      exact cont n (some (old.drop kw)) h (fun hr => h1 old hfind hr) (by simp)
    | none =>
      have hhas : Spec.hasKey kw (rdLE k) es = false := by
        rcases map_search F k hk hkw with ⟨j, hj, _, _, hf, _, _, _⟩ | ⟨j, _, _, _, hh, _⟩
        · rw [hfind] at hf; cases hf
        · exact hh
      simp only [hhas, Bool.false_eq_true, if_false] at h
      by_cases hov : 256 ^ lw ≤ es.length + 1
      · simp only [hov, if_true] at h; cases h
      · simp only [hov, if_false] at h
        exact cont (n + 1) none h (fun hr => h3 hfind hov hr) (by simp)

end Unsized.Ptr
