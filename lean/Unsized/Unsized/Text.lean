import Unsized.Codec
import Common.Proto
/-!
# Text grammar of the unsized area (`notes/unsized_grammar.md`): parser and printer

Used by every unsized model driver. Pipeline: `lex` (string → tokens; brackets `( ) [ ] { } < >`
are tokens of their own) → `parseSx` (tokens → generic bracket trees, total, no fuel) →
`toShape` / `toVal` / `toInit`. Printers: `showVal`, `showShape`, `showInit`.

Additions to the shared grammar made here (recorded in `notes/unsized_grammar.md`):
* shape `(disc HEX INNER)` — `AccountDiscriminant<T>` with discriminant bytes `HEX`;
* initializer arguments: `default`, `(own HEX)`, `(arr e1 e2 …)`, `(uarr I1 I2 …)`,
  `(fields SIZED I1 … In)` (`SIZED` = `-` when the struct has no sized part), `(var IDX ARG)` /
  `(var IDX)` for a unit variant.
-/
namespace Unsized.Text
open Common Common.Proto Unsized

/-- Generic bracket tree. -/
inductive Sx where
  | atom (s : String)
  | node (br : Char) (kids : List Sx)
  deriving Repr, Inhabited

def isOpen (c : Char) : Bool := c == '(' || c == '[' || c == '{' || c == '<'
def isClose (c : Char) : Bool := c == ')' || c == ']' || c == '}' || c == '>'
def closerOf (c : Char) : Char :=
  if c == '(' then ')' else if c == '[' then ']' else if c == '{' then '}' else '>'

/-- Characters → tokens. -/
def lexGo : List Char → List Char → List String → List String
  | [], cur, acc => (if cur.isEmpty then acc else String.ofList cur.reverse :: acc).reverse
  | c :: cs, cur, acc =>
    let flush := if cur.isEmpty then acc else String.ofList cur.reverse :: acc
    if c == ' ' || c == '\t' || c == '\n' || c == '\r' then lexGo cs [] flush
    else if isOpen c || isClose c then lexGo cs [] (String.singleton c :: flush)
    else lexGo cs (c :: cur) acc

def lex (s : String) : List String := lexGo s.toList [] []

/-- Tokens → trees, with an explicit stack of open brackets (structural on the token list). -/
def parseGo : List String → List (Char × List Sx) → List Sx → Option (List Sx)
  | [], [], cur => some cur.reverse
  | [], _ :: _, _ => none
  | t :: ts, stack, cur =>
    match t.toList with
    | [c] =>
      if isOpen c then parseGo ts ((c, cur) :: stack) []
      else if isClose c then
        match stack with
        | (o, parent) :: st =>
          if closerOf o == c then parseGo ts st (Sx.node o cur.reverse :: parent) else none
        | [] => none
      else parseGo ts stack (Sx.atom t :: cur)
    | _ => parseGo ts stack (Sx.atom t :: cur)

def parseSx (toks : List String) : Option (List Sx) := parseGo toks [] []

/-- Parse exactly one tree from already-split protocol tokens (re-joined and re-lexed). -/
def parseOne (toks : List String) : Option Sx :=
  match parseSx (lex (" ".intercalate toks)) with
  | some [x] => some x
  | _ => none

/-! ## Shapes -/

mutual
def toFixed : Sx → Option Fixed
  | .node '(' (.atom "pod" :: [.atom n]) => n.toNat?.map Fixed.pod
  | .node '(' [.atom "bool"] => some .bool
  | .node '(' (.atom "cenum" :: [.atom k]) => k.toNat?.map Fixed.cenum
  | .node '(' (.atom "rec" :: fs) => (toFixeds fs).map Fixed.record
  | .node '(' (.atom "podd" :: [.atom h]) => (parseHex h).map Fixed.podd
  | _ => none
def toFixeds : List Sx → Option (List Fixed)
  | [] => some []
  | x :: xs => match toFixed x, toFixeds xs with
    | some f, some fs => some (f :: fs)
    | _, _ => none
end

mutual
def toShape : Sx → Option Shape
  | .node '(' (.atom "list" :: e :: [.atom lw]) =>
      match toFixed e, lw.toNat? with
      | some f, some w => some (.list f w)
      | _, _ => none
  | .node '(' (.atom "set" :: e :: [.atom lw]) =>
      match toFixed e, lw.toNat? with
      | some f, some w => some (.set f w)
      | _, _ => none
  | .node '(' (.atom "map" :: .atom kw :: v :: [.atom lw]) =>
      match kw.toNat?, toFixed v, lw.toNat? with
      | some k, some f, some w => some (.map k f w)
      | _, _, _ => none
  | .node '(' (.atom "str" :: [.atom lw]) => lw.toNat?.map Shape.str
  | .node '(' [.atom "rem"] => some .rem
  | .node '(' (.atom "ulist" :: [e]) => (toShape e).map Shape.ulist
  | .node '(' (.atom "umap" :: .atom kw :: [e]) =>
      match kw.toNat?, toShape e with
      | some k, some s => some (.umap k s)
      | _, _ => none
  | .node '(' (.atom "struct" :: .node '(' (.atom "rec" :: sized) :: fs) =>
      match toFixeds sized, toShapes fs with
      | some sz, some ss => some (.struct sz ss)
      | _, _ => none
  | .node '(' (.atom "enum" :: vs) =>
      match toVariants vs with
      | some (ds, ps) => some (.enum ds ps)
      | none => none
  | .node '(' (.atom "disc" :: .atom d :: [inner]) =>
      match parseHex d, toShape inner with
      | some bytes, some s => some (.disc bytes s)
      | _, _ => none
  | .node '(' (.atom "pod" :: [.atom n]) => n.toNat?.map (fun k => .fixed (.pod k))
  | .node '(' [.atom "bool"] => some (.fixed .bool)
  | .node '(' (.atom "cenum" :: [.atom k]) => k.toNat?.map (fun k => .fixed (.cenum k))
  | .node '(' (.atom "rec" :: fs) => (toFixeds fs).map (fun l => .fixed (.record l))
  | .node '(' (.atom "podd" :: [.atom h]) => (parseHex h).map (fun d => .fixed (.podd d))
  | _ => none
def toShapes : List Sx → Option (List Shape)
  | [] => some []
  | x :: xs => match toShape x, toShapes xs with
    | some s, some ss => some (s :: ss)
    | _, _ => none
def toVariants : List Sx → Option (List Nat × List Shape)
  | [] => some ([], [])
  | .node '(' (.atom d :: [.atom "unit"]) :: rest =>
      match d.toNat?, toVariants rest with
      | some dn, some (ds, ps) => some (dn :: ds, Shape.unit :: ps)
      | _, _ => none
  | .node '(' (.atom d :: [p]) :: rest =>
      match d.toNat?, toShape p, toVariants rest with
      | some dn, some ps', some (ds, ps) => some (dn :: ds, ps' :: ps)
      | _, _, _ => none
  | _ => none
end

mutual
def showFixed : Fixed → String
  | .pod n => s!"(pod {n})"
  | .bool => "(bool)"
  | .cenum k => s!"(cenum {k})"
  | .record fs => "(rec" ++ showFixeds fs ++ ")"
  | .podd d => "(podd " ++ toHex d ++ ")"
def showFixeds : List Fixed → String
  | [] => ""
  | f :: fs => " " ++ showFixed f ++ showFixeds fs
end

mutual
def showShape : Shape → String
  | .fixed f => showFixed f
  | .list e lw => s!"(list {showFixed e} {lw})"
  | .set e lw => s!"(set {showFixed e} {lw})"
  | .map kw v lw => s!"(map {kw} {showFixed v} {lw})"
  | .str lw => s!"(str {lw})"
  | .rem => "(rem)"
  | .ulist e => "(ulist " ++ showShape e ++ ")"
  | .umap kw e => s!"(umap {kw} " ++ showShape e ++ ")"
  | .struct sized fs => "(struct (rec" ++ showFixeds sized ++ ")" ++ showShapes fs ++ ")"
  | .enum ds ps => "(enum" ++ showVariants ds ps ++ ")"
  | .unit => "unit"
  | .disc d inner => "(disc " ++ toHex d ++ " " ++ showShape inner ++ ")"
def showShapes : List Shape → String
  | [] => ""
  | s :: ss => " " ++ showShape s ++ showShapes ss
def showVariants : List Nat → List Shape → String
  | d :: ds, p :: ps => s!" ({d} " ++ showShape p ++ ")" ++ showVariants ds ps
  | _, _ => ""
end

/-! ## Values -/

def atomsHex : List Sx → Option (List (List Nat))
  | [] => some []
  | .atom a :: xs => match parseHex a, atomsHex xs with
    | some b, some bs => some (b :: bs)
    | _, _ => none
  | _ => none

/-- Map entries `k:v` ↦ `key ++ val`. -/
def atomsKV : List Sx → Option (List (List Nat))
  | [] => some []
  | .atom a :: xs =>
    match a.splitOn ":" with
    | [k, v] => match parseHex k, parseHex v, atomsKV xs with
      | some kb, some vb, some rest => some ((kb ++ vb) :: rest)
      | _, _, _ => none
    | _ => none
  | _ => none

mutual
def toVal : Shape → Sx → Option Val
  | .fixed _, .atom a => (parseHex a).map Val.bytes
  | .list _ _, .node '[' kids => (atomsHex kids).map Val.seq
  | .set _ _, .node '[' kids => (atomsHex kids).map Val.seq
  | .map _ _ _, .node '[' kids => (atomsKV kids).map Val.seq
  | .str _, .node '[' kids => (atomsHex kids).map (fun es => Val.bytes es.flatten)
  | .rem, .atom a => (parseHex a).map Val.bytes
  | .ulist e, .node '(' kids => (toVals e kids).map Val.useq
  | .umap _ e, .node '(' kids => (toKVs e kids).map Val.umap
  | .struct _ fs, .node '{' (.atom sz :: kids) =>
      match parseHex sz, toFieldVals fs kids with
      | some b, some vs => some (.record b vs)
      | _, _ => none
  | .enum _ ps, .node '<' (.atom i :: kids) =>
      match i.toNat? with
      | some idx => (toVariantVal ps idx kids).map (Val.variant idx)
      | none => none
  | .disc _ inner, x => toVal inner x
  | _, _ => none
def toVals : Shape → List Sx → Option (List Val)
  | _, [] => some []
  | e, x :: xs => match toVal e x, toVals e xs with
    | some v, some vs => some (v :: vs)
    | _, _ => none
def toKVs : Shape → List Sx → Option (List (List Nat × Val))
  | _, [] => some []
  | e, .node '(' (.atom k :: [x]) :: xs =>
    match parseHex k, toVal e x, toKVs e xs with
    | some kb, some v, some rest => some ((kb, v) :: rest)
    | _, _, _ => none
  | _, _ => none
def toFieldVals : List Shape → List Sx → Option (List Val)
  | [], [] => some []
  | f :: fs, x :: xs => match toVal f x, toFieldVals fs xs with
    | some v, some vs => some (v :: vs)
    | _, _ => none
  | _, _ => none
def toVariantVal : List Shape → Nat → List Sx → Option Val
  | .unit :: _, 0, [] => some .unit
  | p :: _, 0, [x] => toVal p x
  | _ :: ps, i + 1, kids => toVariantVal ps i kids
  | _, _, _ => none
end

def showHexList (es : List (List Nat)) : String := " ".intercalate (es.map toHex)

mutual
def showVal : Shape → Val → String
  | .fixed _, .bytes l => toHex l
  | .list _ _, .seq es => "[" ++ showHexList es ++ "]"
  | .set _ _, .seq es => "[" ++ showHexList es ++ "]"
  | .map kw _ _, .seq es =>
      "[" ++ " ".intercalate (es.map (fun x => toHex (x.take kw) ++ ":" ++ toHex (x.drop kw))) ++ "]"
  | .str _, .bytes l => "[" ++ showHexList (l.map (fun b => [b])) ++ "]"
  | .rem, .bytes l => toHex l
  | .ulist e, .useq vs => "(" ++ " ".intercalate (vs.map (showVal e)) ++ ")"
  | .umap _ e, .umap es =>
      "(" ++ " ".intercalate (es.map (fun kv => "(" ++ toHex kv.1 ++ " " ++ showVal e kv.2 ++ ")")) ++ ")"
  | .struct _ fs, .record sz vs => "{" ++ toHex sz ++ showFieldVals fs vs ++ "}"
  | .enum _ ps, .variant i p => s!"<{i}" ++ showVariantVal ps i p ++ ">"
  | .unit, _ => ""
  | .disc _ inner, v => showVal inner v
  | _, _ => "?"
def showFieldVals : List Shape → List Val → String
  | f :: fs, v :: vs => " " ++ showVal f v ++ showFieldVals fs vs
  | _, _ => ""
def showVariantVal : List Shape → Nat → Val → String
  | .unit :: _, 0, _ => ""
  | p :: _, 0, v => " " ++ showVal p v
  | _ :: ps, i + 1, v => showVariantVal ps i v
  | [], _, _ => ""
end

/-! ## Initializer arguments -/

mutual
def toInit : Sx → Option Init
  | .atom "default" => some .default
  | .atom "-" => some .default
  | .node '(' (.atom "own" :: [.atom h]) => (parseHex h).map Init.owned
  | .node '(' (.atom "arr" :: es) => (atomsHex es).map Init.array
  | .node '(' (.atom "uarr" :: is) => (toInits is).map Init.uarray
  | .node '(' (.atom "fields" :: sz :: is) =>
      match toInit sz, toInits is with
      | some s, some l => some (.fields s l)
      | _, _ => none
  | .node '(' (.atom "var" :: [.atom i]) => i.toNat?.map (fun k => .variant k .default)
  | .node '(' (.atom "var" :: .atom i :: [a]) =>
      match i.toNat?, toInit a with
      | some k, some x => some (.variant k x)
      | _, _ => none
  | _ => none
def toInits : List Sx → Option (List Init)
  | [] => some []
  | x :: xs => match toInit x, toInits xs with
    | some a, some as => some (a :: as)
    | _, _ => none
end

/-! ## Paths (`f2.e5.v`, `.` = top) -/

inductive Step where
  | field (i : Nat)
  | elem (i : Nat)
  | payload
  deriving Repr, DecidableEq

def toStep (s : String) : Option Step :=
  match s.toList with
  | ['v'] => some .payload
  | 'f' :: ds => (String.ofList ds).toNat?.map Step.field
  | 'e' :: ds => (String.ofList ds).toNat?.map Step.elem
  | _ => none

def toPath (s : String) : Option (List Step) :=
  if s = "." then some [] else
  (s.splitOn ".").foldr (fun t acc => match toStep t, acc with
    | some st, some l => some (st :: l)
    | _, _ => none) (some [])

/-! ## Outcome printing -/

/-- `ok …` / `err:<Class>` / `panic`. -/
def showExcept {α : Type} (f : α → String) : Except E α → String
  | .ok a => f a
  | .error e => e.name

end Unsized.Text
