import Unsized.MachineNodeMap
import Unsized.CodecLemmasViewRound
/-!
# `uget` / `utouch` on `UnsizedList` / `UnsizedMap` nodes: the return values

`UnsizedList::get(i)` / `UnsizedMap::get_by_index(i)` rendered through the element's `get` view
(`ulistGet`): on canonical bytes the header reads give `len`, the offsets of element `i` and `i + 1`,
the slice `[udata + off_i, udata + off_{i+1})` is exactly `encode e x_i`, `get_ptr` on it succeeds and
the view walk returns `x_i` (`viewRT_all`); the key bytes of entry `i` are the key. `utouch` compares `i`
with the stored `len`.

(`UGNode`, `ug_reads`, `ug_offset` are the same facts as `UNode`, `u_reads`, `u_offset` of
`MachineNodeUlist.lean`, restated here so that this file only depends on the stable chain up to
`MachineAtomic`.)
-/
namespace Unsized.Machine
open Common Unsized Unsized.Text

/-- The node `(t, u)` is stored as an `UnsizedList` with entry payloads `keys` (width `kw`) and element
images `datas`. -/
structure UGNode (t : Shape) (u : Val) (kw : Nat) (keys datas : List (List Nat)) : Prop where
  enc : encode t u = uBytes keys datas
  len : keys.length = datas.length
  kw : ∀ k ∈ keys, k.length = kw

theorem UGNode.size {t u kw keys datas} (N : UGNode t u kw keys datas) :
    (encode t u).length = 12 + datas.length * (4 + kw) + (datas.map List.length).sum := by
  rw [N.enc, uBytes, List.length_append, uHdrOf_length kw keys _ (by simpa using N.len) N.kw,
    sum_map_length_flatten]
  simp

/-- The header fields read through the accessor. -/
theorem ug_reads {s v p t u m kw keys datas} (F : Focus s v p t u m) (N : UGNode t u kw keys datas)
    (hsm : m.bytes.length < Shape.u32Lim) :
    rd32 m.bytes (offsetOf s v p) = (datas.map List.length).sum
    ∧ rd32 m.bytes (offsetOf s v p + 4) = datas.length
    ∧ ∀ j, j < datas.length →
        rd32 m.bytes (offsetOf s v p + 8 + j * (4 + kw)) = ((datas.map List.length).take j).sum := by
  have hsz := N.size
  have hle := offsetOf_le p s v t u F.good F.res
  rw [F.bytes] at hsm
  have hE : encode t u = [] ++ uHdrOf keys (datas.map List.length) ++ datas.flatten := by
    rw [N.enc, uBytes]; simp
  have hl' : keys.length = (datas.map List.length).length := by simpa using N.len
  have hLle : datas.length ≤ datas.length * (4 + kw) := Nat.le_mul_of_pos_right _ (by omega)
  refine ⟨?_, ?_, ?_⟩
  · have := enc_rdN p s v t u F.good F.res 0 4 (by omega)
    rw [Nat.add_zero] at this
    unfold rd32
    rw [F.bytes, this, hE]
    exact rd32_uHdr_usz keys _ [] _ 0 rfl (by omega)
  · have := enc_rdN p s v t u F.good F.res 4 4 (by omega)
    unfold rd32
    rw [F.bytes, this, hE]
    have := rd32_uHdr_len keys (datas.map List.length) [] datas.flatten 0 rfl (by simp; omega)
    simpa [rd32] using this
  · intro j hj
    have hjm : (j + 1) * (4 + kw) ≤ datas.length * (4 + kw) := Nat.mul_le_mul_right _ hj
    rw [Nat.add_mul] at hjm
    have := enc_rdN p s v t u F.good F.res (8 + j * (4 + kw)) 4 (by omega)
    unfold rd32
    rw [F.bytes, Nat.add_assoc, this, hE]
    have := rd32_uHdr_off kw keys (datas.map List.length) [] datas.flatten 0 j rfl hl' N.kw (by omega)
      (by simpa using hj)
    simpa [rd32] using this

/-- `get_offset(idx)` for `idx ≤ len`. -/
theorem ug_offset {s v p t u m kw keys datas} (F : Focus s v p t u m) (N : UGNode t u kw keys datas)
    (hsm : m.bytes.length < Shape.u32Lim) (idx : Nat) (hidx : idx ≤ datas.length) :
    ulistOffset (4 + kw) (offsetOf s v p) idx m.bytes = ((datas.map List.length).take idx).sum := by
  obtain ⟨h1, h2, h3⟩ := ug_reads F N hsm
  unfold ulistOffset
  rw [h2]
  by_cases h : idx < datas.length
  · rw [if_pos h, h3 idx h]
  · rw [if_neg h, h1, List.take_of_length_le (by simp; omega)]

/-- The key bytes of table entry `j`. -/
theorem rd_tbl_key (kw : Nat) (offs : List Nat) (keys : List (List Nat)) (pre post : List Nat) (pos j : Nat)
    (hp : pos = pre.length) (hl : offs.length = keys.length) (hk : ∀ k ∈ keys, k.length = kw)
    (hj : j < keys.length) :
    rd (pre ++ tbl offs keys ++ post) (pos + j * (4 + kw) + 4) kw = keys[j] := by
  have hj' : j < offs.length := by omega
  rw [tbl_split offs keys j]
  have hd : offs.drop j = offs[j] :: offs.drop (j + 1) := by
    rw [List.drop_eq_getElem_cons hj']
  have hdk : keys.drop j = keys[j] :: keys.drop (j + 1) := by
    rw [List.drop_eq_getElem_cons hj]
  rw [hd, hdk, tbl_cons]
  have e : pre ++ (tbl (offs.take j) (keys.take j) ++ (leN 4 offs[j] ++ keys[j] ++ tbl (offs.drop (j + 1)) (keys.drop (j + 1)))) ++ post
      = (pre ++ tbl (offs.take j) (keys.take j) ++ leN 4 offs[j]) ++ keys[j] ++ (tbl (offs.drop (j + 1)) (keys.drop (j + 1)) ++ post) := by
    simp [List.append_assoc]
  rw [e]
  apply rd_after
  · simp only [List.length_append, leN_length]
    rw [tbl_length kw (offs.take j) (keys.take j) (by simp; omega)
      (fun k hk' => hk k (List.mem_of_mem_take hk'))]
    simp [hp, Nat.min_eq_left (Nat.le_of_lt hj')]
  · exact (hk _ (List.getElem_mem _)).symm

theorem rd_uHdr_key (kw : Nat) (keys : List (List Nat)) (sizes : List Nat) (pre R : List Nat) (base j : Nat)
    (hb : base = pre.length) (hl : keys.length = sizes.length) (hk : ∀ k ∈ keys, k.length = kw)
    (hj : j < keys.length) :
    rd (pre ++ uHdrOf keys sizes ++ R) (base + 8 + j * (4 + kw) + 4) kw = keys[j] := by
  have e : pre ++ uHdrOf keys sizes ++ R = (pre ++ leN 4 sizes.sum ++ leN 4 sizes.length)
      ++ tbl (offsets sizes 0) keys ++ (leN 4 sizes.length ++ R) := by
    simp [uHdrOf, List.append_assoc]
  rw [e]
  exact rd_tbl_key kw (offsets sizes 0) keys _ _ (base + 8) j (by simp [hb]) (by simp; omega) hk hj

/-- The key of entry `j` read through the accessor. -/
theorem ug_key {s v p t u m kw keys datas} (F : Focus s v p t u m) (N : UGNode t u kw keys datas)
    (j : Nat) (hj : j < keys.length) :
    rd m.bytes (offsetOf s v p + 8 + j * (4 + kw) + 4) kw = keys[j] := by
  have hsz := N.size
  have hjd : j < datas.length := by rw [← N.len]; exact hj
  have hjm : (j + 1) * (4 + kw) ≤ datas.length * (4 + kw) := Nat.mul_le_mul_right _ hjd
  rw [Nat.add_mul] at hjm
  have hE : encode t u = [] ++ uHdrOf keys (datas.map List.length) ++ datas.flatten := by
    rw [N.enc, uBytes]; simp
  have := enc_rd p s v t u F.good F.res (8 + j * (4 + kw) + 4) kw (by omega)
  have hpos : offsetOf s v p + 8 + j * (4 + kw) + 4 = offsetOf s v p + (8 + j * (4 + kw) + 4) := by omega
  rw [hpos, F.bytes, this, hE]
  have := rd_uHdr_key kw keys (datas.map List.length) [] datas.flatten 0 j rfl (by simpa using N.len) N.kw hj
  simpa using this

/-- The image of element `i` read through the accessor. -/
theorem ug_elem {s v p t u m kw keys datas} (F : Focus s v p t u m) (N : UGNode t u kw keys datas)
    (i : Nat) (hi : i < datas.length) :
    rd m.bytes (offsetOf s v p + 8 + datas.length * (4 + kw) + 4 + ((datas.map List.length).take i).sum)
        (((datas.map List.length).take (i + 1)).sum - ((datas.map List.length).take i).sum) = datas[i] := by
  have hsz := N.size
  have hst := sum_take_succ (datas.map List.length) i (by simpa using hi)
  have hle := sum_take_le (datas.map List.length) (i + 1)
  simp only [List.getElem_map] at hst
  have hn : ((datas.map List.length).take (i + 1)).sum - ((datas.map List.length).take i).sum = (datas[i]).length := by
    omega
  rw [hn]
  have := enc_rd p s v t u F.good F.res (12 + datas.length * (4 + kw) + ((datas.map List.length).take i).sum)
    (datas[i]).length (by omega)
  have hpos : offsetOf s v p + 8 + datas.length * (4 + kw) + 4 + ((datas.map List.length).take i).sum
      = offsetOf s v p + (12 + datas.length * (4 + kw) + ((datas.map List.length).take i).sum) := by omega
  rw [hpos, F.bytes, this, N.enc, uBytes, flatten_split datas i hi]
  have e : uHdrOf keys (datas.map List.length) ++ ((datas.take i).flatten ++ datas[i] ++ (datas.drop (i + 1)).flatten)
      = (uHdrOf keys (datas.map List.length) ++ (datas.take i).flatten) ++ datas[i] ++ (datas.drop (i + 1)).flatten := by
    simp [List.append_assoc]
  rw [e]
  apply rd_after _ _ _ _ _ _ rfl
  rw [List.length_append, uHdrOf_length kw keys _ (by simpa using N.len) N.kw, sum_map_length_take]
  simp

/-- **`UnsizedList::get(i)` on canonical bytes**: out of range ↦ `none`; in range the slice handed to the
element's `get_ptr` / view is exactly the element image, and the key bytes are the entry's key. -/
theorem ulistGet_canon {s v p t u m kw keys datas} (F : Focus s v p t u m) (N : UGNode t u kw keys datas)
    (hsm : m.bytes.length < Shape.u32Lim) (e : Shape) (i : Nat) :
    (datas.length ≤ i → ulistGet (4 + kw) kw e (offsetOf s v p) i m.bytes = .ok (.elem none))
    ∧ (∀ (hi : i < datas.length) (hk : i < keys.length) (x : Val), (∃ n, extent e datas[i] = .ok n) →
        view .get e datas[i] = .ok x →
        ulistGet (4 + kw) kw e (offsetOf s v p) i m.bytes = .ok (.elem (some (keys[i], x)))) := by
  obtain ⟨h1, h2, h3⟩ := ug_reads F N hsm
  refine ⟨fun hle => ?_, fun hi hk x hext hview => ?_⟩
  · unfold ulistGet
    simp only [h2, hle, if_true]
  · obtain ⟨n, hext⟩ := hext
    have hoff := ug_offset F N hsm (i + 1) (by omega)
    have hle1 := sum_take_le (datas.map List.length) (i + 1)
    have hst := sum_take_succ (datas.map List.length) i (by simpa using hi)
    unfold ulistGet
    simp only [h1, h2, h3 i hi, hoff]
    have hn1 : ¬ datas.length ≤ i := by omega
    have hn2 : ¬ (((datas.map List.length).take (i + 1)).sum < ((datas.map List.length).take i).sum
        ∨ (datas.map List.length).sum < ((datas.map List.length).take (i + 1)).sum) := by omega
    simp only [hn1, hn2, if_false]
    rw [ug_elem F N i hi, ug_key F N i hk]
    simp only [hext, hview]

/-! ## The nodes -/

theorem ugnode_ulist (e : Shape) (vs : List Val) :
    UGNode (.ulist e) (.useq vs) 0 (vs.map fun _ => []) (vs.map (encode e)) :=
  ⟨encode_ulist_uBytes e vs, by simp, by intro k hk; simp only [List.mem_map] at hk; obtain ⟨_, _, rfl⟩ := hk; rfl⟩

theorem ugnode_umap (kw : Nat) (e : Shape) (es : List (List Nat × Val)) (g : Good (.umap kw e) (.umap es)) :
    UGNode (.umap kw e) (.umap es) kw (es.map (·.1)) (es.map fun kv => encode e kv.2) := by
  refine ⟨encode_umap_uBytes kw e es, by simp, ?_⟩
  intro k hk
  simp only [List.mem_map] at hk
  obtain ⟨kx, hkx, rfl⟩ := hk
  obtain ⟨i, hi, rfl⟩ := List.getElem_of_mem hkx
  exact (good_umap_elem kw e es i es[i] g (by simp [hi])).2.2

/-- Element images parse and view back to the element. -/
theorem elem_view {e : Shape} {x : Val} (g : Good e x) :
    (∃ n, extent e (encode e x) = .ok n) ∧ view .get e (encode e x) = .ok x := by
  obtain ⟨⟨top, ie, hok⟩, hv, hf⟩ := g
  have h1 := (roundTrip_all e top ie hok x [] hv hf (Or.inl rfl)).1
  have h2 := viewRT_all e .get top ie hok x [] hv hf (Or.inl rfl)
  rw [List.append_nil] at h1 h2
  exact ⟨⟨_, h1⟩, h2⟩

theorem calm_small_len {m : Mem} (c : Calm m) : m.bytes.length < Shape.u32Lim := by
  have := c.small; have := c.fitsNow; omega

/-- `uget i` on an `UnsizedList` node: the element value (or `none` past the end), state unchanged. -/
theorem ulist_uget_refines {s v p m} {e : Shape} {vs : List Val}
    (F : Focus s v p (.ulist e) (.useq vs) m) (c : Calm m) (i : Nat) :
    Refines s v p (.ulist e) (.useq vs) m (.uget i) := by
  unfold Refines
  simp only [Spec.applyNode, applyAt]
  intro _
  have N := ugnode_ulist e vs
  obtain ⟨hnone, hsome⟩ := ulistGet_canon F N (calm_small_len c) e i
  simp only [List.length_map, Nat.add_zero] at hnone hsome
  by_cases hi : i < vs.length
  · have hx : vs[i]? = some vs[i] := by simp [hi]
    obtain ⟨hext, hview⟩ := elem_view (good_ulist_elem e vs i vs[i] F.sub hx).1
    have := hsome hi hi vs[i] (by simpa using hext) (by simpa using hview)
    simp only [List.getElem_map] at this
    refine ⟨m, ?_, F.same, rfl, rfl⟩
    rw [this, hx]; rfl
  · have hx : vs[i]? = none := by simp; omega
    refine ⟨m, ?_, F.same, rfl, rfl⟩
    rw [hnone (by omega), hx]; rfl

/-- `utouch i` on an `UnsizedList` node. -/
theorem ulist_utouch_refines {s v p m} {e : Shape} {vs : List Val}
    (F : Focus s v p (.ulist e) (.useq vs) m) (c : Calm m) (i : Nat) :
    Refines s v p (.ulist e) (.useq vs) m (.utouch i) := by
  unfold Refines
  simp only [Spec.applyNode, applyAt]
  intro _
  obtain ⟨_, h2, _⟩ := ug_reads F (ugnode_ulist e vs) (calm_small_len c)
  simp only [List.length_map] at h2
  exact ⟨m, by rw [h2], F.same, rfl, rfl⟩

/-- `uget i` on an `UnsizedMap` node: key and element value of entry `i`. -/
theorem umap_uget_refines {s v p m} {kw : Nat} {e : Shape} {es : List (List Nat × Val)}
    (F : Focus s v p (.umap kw e) (.umap es) m) (c : Calm m) (i : Nat) :
    Refines s v p (.umap kw e) (.umap es) m (.uget i) := by
  unfold Refines
  simp only [Spec.applyNode, applyAt, Shape.entryW]
  intro _
  have N := ugnode_umap kw e es F.sub
  obtain ⟨hnone, hsome⟩ := ulistGet_canon F N (calm_small_len c) e i
  simp only [List.length_map] at hnone hsome
  by_cases hi : i < es.length
  · have hx : es[i]? = some es[i] := by simp [hi]
    obtain ⟨hext, hview⟩ := elem_view (good_umap_elem kw e es i es[i] F.sub hx).1
    have := hsome hi hi es[i].2 (by simpa using hext) (by simpa using hview)
    simp only [List.getElem_map] at this
    refine ⟨m, ?_, F.same, rfl, rfl⟩
    rw [this, hx]
  · have hx : es[i]? = none := by simp; omega
    refine ⟨m, ?_, F.same, rfl, rfl⟩
    rw [hnone (by omega), hx]

/-- `utouch i` on an `UnsizedMap` node. -/
theorem umap_utouch_refines {s v p m} {kw : Nat} {e : Shape} {es : List (List Nat × Val)}
    (F : Focus s v p (.umap kw e) (.umap es) m) (c : Calm m) (i : Nat) :
    Refines s v p (.umap kw e) (.umap es) m (.utouch i) := by
  unfold Refines
  simp only [Spec.applyNode, applyAt]
  intro _
  obtain ⟨_, h2, _⟩ := ug_reads F (ugnode_umap kw e es F.sub) (calm_small_len c)
  simp only [List.length_map] at h2
  exact ⟨m, by rw [h2], F.same, rfl, rfl⟩

end Unsized.Machine
