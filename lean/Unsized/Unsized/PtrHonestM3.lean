import Unsized.PtrHonestM2
namespace Unsized.Ptr
open Common Unsized Unsized.Text Unsized.Machine Unsized.PtrT Unsized.PtrM

/-- What taking an accessor chain does to an honest pointer. -/
def WalkRes (t : Shape) (u : Val) (B : Nat) (p : List Step) (r : PtrTree × WalkOut) : Prop :=
  match r.2 with
  | .ok tp t2 => ∃ u2 T2, resolve t u p = .ok (t2, u2) ∧ tp = tpath t u p ∧ HonPath t u B p r.1 T2
      ∧ Hon t2 u2 (B + offsetOf t u p) T2
  | .panic => False
  | _ => Hon t u B r.1

theorem good_ulist_val (e : Shape) (u : Val) (g : Good (.ulist e) u) : ∃ vs, u = .useq vs := by
  have := g.valid; cases u <;> simp [valid] at this; exact ⟨_, rfl⟩
theorem good_umap_val (kw : Nat) (e : Shape) (u : Val) (g : Good (.umap kw e) u) : ∃ es, u = .umap es := by
  have := g.valid; cases u <;> simp [valid] at this; exact ⟨_, rfl⟩
theorem good_struct_val (sized : List Fixed) (fs : List Shape) (u : Val) (g : Good (.struct sized fs) u) :
    ∃ sz vs, u = .record sz vs := by
  have := g.valid; cases u <;> simp [valid] at this; exact ⟨_, _, rfl⟩
theorem good_enum_val (ds : List Nat) (ps : List Shape) (u : Val) (g : Good (.enum ds ps) u) :
    ∃ i pl, u = .variant i pl := by
  have := g.valid; cases u <;> simp [valid] at this; exact ⟨_, _, rfl⟩

/-- Out of range: `index_exclusive` reports it before touching anything. -/
theorem enter_oob_ulist (w : World) (e e' : Shape) (vs : List Val) (B i : Nat) (L : PtrTree)
    (hL : Hon (.ulist e) (.useq vs) B L) (hi : vs.length ≤ i) : listEnter w e' L i = .oob := by
  simp only [Hon] at hL
  obtain ⟨inner, pmb, rfl, _⟩ := hL
  simp [listEnter, hi]

theorem enter_oob_umap (w : World) (kw : Nat) (e e' : Shape) (es : List (List Nat × Val)) (B i : Nat) (L : PtrTree)
    (hL : Hon (.umap kw e) (.umap es) B (.node [L])) (hi : es.length ≤ i) : listEnter w e' L i = .oob := by
  simp only [Hon] at hL
  obtain ⟨inner, pmb, hEq, _⟩ := hL
  simp only [PtrTree.node.injEq, List.cons.injEq, and_true] at hEq
  subst hEq
  simp [listEnter, hi]

theorem walk_hon (w : World) (x : Which) (hown : OwnsOwn w x) (t : Shape) (T : PtrTree) (p : List Step) :
    ∀ (u : Val) (B : Nat) (A C : List Nat), Good t u → (w.get x).mem.bytes = A ++ encode t u ++ C →
    B = (w.get x).base + A.length → Hon t u B T → WalkRes t u B p (walk w false t T p) := by
  fun_induction walk w false t T p
  case case1 sh T =>
    intro u B A C g hb hB hT
    exact ⟨u, T, by simp [resolve], by simp [tpath], by simp [HonPath], by simpa [offsetOf] using hT⟩
  case case2 sized fs ks i p f k hk hf k' o hw ih =>
    intro u B A C g hb hB hT
    obtain ⟨sz, vs, rfl⟩ := good_struct_val sized fs u g
    have hv := g.valid
    simp only [valid, Bool.and_eq_true, beq_iff_eq, decide_eq_true_eq] at hv
    have hl := validFields_length fs vs hv.2
    have hif : i < fs.length := by
      rcases Nat.lt_or_ge i fs.length with h | h
      · exact h
      · simp [List.getElem?_eq_none h] at hf
    have hx : vs[i]? = some vs[i] := List.getElem?_eq_getElem (by omega)
    have h1 : resolve1 (.struct sized fs) (.record sz vs) (.field i) = .ok (f, vs[i]) := by
      simp only [resolve1, hf, hx]
    obtain ⟨g1, henc, hlen, _⟩ := step_facts _ _ _ f vs[i] g h1
    obtain ⟨child, hstep, hchild⟩ := step_open _ _ _ f vs[i] g h1 (by intro j h; cases h) B _ hT
    obtain ⟨n1, n2⟩ := step_nav _ _ _ f vs[i] g h1 B _ child hstep
    have hkc : k = child := by
      simp only [tstep, subtreeAt] at n1
      simp only [kidIdx] at hk
      rw [hk] at n1; simpa using n1
    subst hkc
    obtain ⟨R', hr1, hr2⟩ := n2 k'
    have hR' : R' = .node (ks.set (kidIdx sized i) k') := by
      simp only [tstep, replaceAt] at hr1
      simp only [kidIdx] at hk ⊢
      rw [hk] at hr1; simpa using hr1.symm
    subst hR'
    have ihr := ih vs[i] (B + (stepPre (.struct sized fs) (.record sz vs) (.field i) 0).length)
      (A ++ stepPre (.struct sized fs) (.record sz vs) (.field i) (encode f vs[i]).length)
      (stepPost (.struct sized fs) (.record sz vs) (.field i) ++ C) g1
      (by rw [hb, henc]; simp [List.append_assoc])
      (by simp only [List.length_append]; rw [hlen (encode f vs[i]).length 0]; omega) hchild
    rw [hw] at ihr
    have hoff : ∀ q, B + offsetOf (.struct sized fs) (.record sz vs) (.field i :: q)
        = B + (stepPre (.struct sized fs) (.record sz vs) (.field i) 0).length + offsetOf f vs[i] q := by
      intro q; simp only [offsetOf, h1]; omega
    cases o with
    | ok tp t2 =>
      simp only [WalkRes, WalkOut.pre] at ihr ⊢
      obtain ⟨u2, T2, a1, a2, a3, a4⟩ := ihr
      refine ⟨u2, T2, by simp only [resolve, h1]; exact a1, by simp only [tpath, h1, tstep, kidIdx, a2], ?_, by rw [hoff]; exact a4⟩
      simp only [HonPath, h1]
      exact ⟨k', hr2, a3⟩
    | panic => simp only [WalkRes] at ihr
    | bad => simp only [WalkRes, WalkOut.pre] at ihr ⊢; exact step_fill _ _ _ f vs[i] g h1 B _ k' hr2 ihr
    | ioob => simp only [WalkRes, WalkOut.pre] at ihr ⊢; exact step_fill _ _ _ f vs[i] g h1 B _ k' hr2 ihr
    | perr => simp only [WalkRes, WalkOut.pre] at ihr ⊢; exact step_fill _ _ _ f vs[i] g h1 B _ k' hr2 ihr
  case case3 => intro u B A C g hb hB hT; exact hT
  case case4 => intro u B A C g hb hB hT; simpa [WalkRes] using hT
  case case5 e L i p hle =>
    intro u B A C g hb hB hT
    obtain ⟨vs, rfl⟩ := good_ulist_val e u g
    exfalso
    by_cases hi : i < vs.length
    · have h1 : resolve1 (.ulist e) (.useq vs) (.elem i) = .ok (e, vs[i]) := by simp [resolve1, hi]
      have := (enter_elem w x hown _ _ i e vs[i] A C B g h1 hb hB L (Or.inl ⟨e, vs, rfl, rfl, hT⟩)).1
      rw [hle] at this; cases this
    · have := enter_oob_ulist w e e vs B i L hT (by omega); rw [hle] at this; cases this
  case case6 e L i p hle =>
    intro u B A C g hb hB hT
    obtain ⟨vs, rfl⟩ := good_ulist_val e u g
    exfalso
    by_cases hi : i < vs.length
    · have h1 : resolve1 (.ulist e) (.useq vs) (.elem i) = .ok (e, vs[i]) := by simp [resolve1, hi]
      have := (enter_elem w x hown _ _ i e vs[i] A C B g h1 hb hB L (Or.inl ⟨e, vs, rfl, rfl, hT⟩)).1
      rw [hle] at this; cases this
    · have := enter_oob_ulist w e e vs B i L hT (by omega); rw [hle] at this; cases this
  case case7 e L i p hle =>
    intro u B A C g hb hB hT
    obtain ⟨vs, rfl⟩ := good_ulist_val e u g
    exfalso
    by_cases hi : i < vs.length
    · have h1 : resolve1 (.ulist e) (.useq vs) (.elem i) = .ok (e, vs[i]) := by simp [resolve1, hi]
      have := (enter_elem w x hown _ _ i e vs[i] A C B g h1 hb hB L (Or.inl ⟨e, vs, rfl, rfl, hT⟩)).1
      rw [hle] at this; cases this
    · have := enter_oob_ulist w e e vs B i L hT (by omega); rw [hle] at this; cases this
  case case8 e L i p fresh hle k' o hw ih =>
    intro u B A C g hb hB hT
    obtain ⟨vs, rfl⟩ := good_ulist_val e u g
    have hi : i < vs.length := by
      rcases Nat.lt_or_ge i vs.length with h | h
      · exact h
      · have := enter_oob_ulist w e e vs B i L hT h; rw [hle] at this; cases this
    have h1 : resolve1 (.ulist e) (.useq vs) (.elem i) = .ok (e, vs[i]) := by simp [resolve1, hi]
    obtain ⟨he, cw, len, lo, hiR, inner, pmb, hLf⟩ :=
      enter_elem w x hown _ _ i e vs[i] A C B g h1 hb hB L (Or.inl ⟨e, vs, rfl, rfl, hT⟩)
    rw [hle] at he
    have hfresh : fresh = treeOf e vs[i] (B + (stepPre (.ulist e) (.useq vs) (.elem i) 0).length) := by
      injection he
    obtain ⟨g1, henc, hlen, _⟩ := step_facts _ _ _ e vs[i] g h1
    have ihr := ih vs[i] (B + (stepPre (.ulist e) (.useq vs) (.elem i) 0).length)
      (A ++ stepPre (.ulist e) (.useq vs) (.elem i) (encode e vs[i]).length)
      (stepPost (.ulist e) (.useq vs) (.elem i) ++ C) g1
      (by rw [hb, henc]; simp [List.append_assoc])
      (by simp only [List.length_append]; rw [hlen (encode e vs[i]).length 0]; omega)
      (by rw [hfresh]; exact hon_treeOf e _ _)
    rw [hw] at ihr
    have hstep : HonStep (.ulist e) (.useq vs) (.elem i) B (setInner L k') k' := by
      simp only [Hon] at hT
      obtain ⟨inner', pmb', rfl, _⟩ := hT
      simp only [setInner, HonStep]; exact ⟨true, rfl⟩
    have hoff : ∀ q, B + offsetOf (.ulist e) (.useq vs) (.elem i :: q)
        = B + (stepPre (.ulist e) (.useq vs) (.elem i) 0).length + offsetOf e vs[i] q := by
      intro q; simp only [offsetOf, h1]; omega
    cases o with
    | ok tp t2 =>
      simp only [WalkRes, WalkOut.pre] at ihr ⊢
      obtain ⟨u2, T2, a1, a2, a3, a4⟩ := ihr
      refine ⟨u2, T2, by simp only [resolve, h1]; exact a1, by simp only [tpath, h1, tstep, a2], ?_, by rw [hoff]; exact a4⟩
      simp only [HonPath, h1]
      exact ⟨k', hstep, a3⟩
    | panic => simp only [WalkRes] at ihr
    | bad => simp only [WalkRes, WalkOut.pre] at ihr ⊢; exact step_fill _ _ _ e vs[i] g h1 B _ k' hstep ihr
    | ioob => simp only [WalkRes, WalkOut.pre] at ihr ⊢; exact step_fill _ _ _ e vs[i] g h1 B _ k' hstep ihr
    | perr => simp only [WalkRes, WalkOut.pre] at ihr ⊢; exact step_fill _ _ _ e vs[i] g h1 B _ k' hstep ihr
  case case9 => intro u B A C g hb hB hT; simpa [WalkRes] using hT
  case case10 kw e L i p hle =>
    intro u B A C g hb hB hT
    obtain ⟨es, rfl⟩ := good_umap_val kw e u g
    exfalso
    by_cases hi : i < es.length
    · have h1 : resolve1 (.umap kw e) (.umap es) (.elem i) = .ok (e, es[i].2) := by simp [resolve1, hi]
      have := (enter_elem w x hown _ _ i e es[i].2 A C B g h1 hb hB L (Or.inr ⟨kw, e, es, rfl, rfl, hT⟩)).1
      rw [hle] at this; cases this
    · have := enter_oob_umap w kw e e es B i L hT (by omega); rw [hle] at this; cases this
  case case11 kw e L i p hle =>
    intro u B A C g hb hB hT
    obtain ⟨es, rfl⟩ := good_umap_val kw e u g
    exfalso
    by_cases hi : i < es.length
    · have h1 : resolve1 (.umap kw e) (.umap es) (.elem i) = .ok (e, es[i].2) := by simp [resolve1, hi]
      have := (enter_elem w x hown _ _ i e es[i].2 A C B g h1 hb hB L (Or.inr ⟨kw, e, es, rfl, rfl, hT⟩)).1
      rw [hle] at this; cases this
    · have := enter_oob_umap w kw e e es B i L hT (by omega); rw [hle] at this; cases this
  case case12 kw e L i p hle =>
    intro u B A C g hb hB hT
    obtain ⟨es, rfl⟩ := good_umap_val kw e u g
    exfalso
    by_cases hi : i < es.length
    · have h1 : resolve1 (.umap kw e) (.umap es) (.elem i) = .ok (e, es[i].2) := by simp [resolve1, hi]
      have := (enter_elem w x hown _ _ i e es[i].2 A C B g h1 hb hB L (Or.inr ⟨kw, e, es, rfl, rfl, hT⟩)).1
      rw [hle] at this; cases this
    · have := enter_oob_umap w kw e e es B i L hT (by omega); rw [hle] at this; cases this
  case case13 kw e L i p fresh hle k' o hw ih =>
    intro u B A C g hb hB hT
    obtain ⟨es, rfl⟩ := good_umap_val kw e u g
    have hi : i < es.length := by
      rcases Nat.lt_or_ge i es.length with h | h
      · exact h
      · have := enter_oob_umap w kw e e es B i L hT h; rw [hle] at this; cases this
    have h1 : resolve1 (.umap kw e) (.umap es) (.elem i) = .ok (e, es[i].2) := by simp [resolve1, hi]
    obtain ⟨he, cw, len, lo, hiR, inner, pmb, hLf⟩ :=
      enter_elem w x hown _ _ i e es[i].2 A C B g h1 hb hB L (Or.inr ⟨kw, e, es, rfl, rfl, hT⟩)
    rw [hle] at he
    have hfresh : fresh = treeOf e es[i].2 (B + (stepPre (.umap kw e) (.umap es) (.elem i) 0).length) := by
      injection he
    obtain ⟨g1, henc, hlen, _⟩ := step_facts _ _ _ e es[i].2 g h1
    have ihr := ih es[i].2 (B + (stepPre (.umap kw e) (.umap es) (.elem i) 0).length)
      (A ++ stepPre (.umap kw e) (.umap es) (.elem i) (encode e es[i].2).length)
      (stepPost (.umap kw e) (.umap es) (.elem i) ++ C) g1
      (by rw [hb, henc]; simp [List.append_assoc])
      (by simp only [List.length_append]; rw [hlen (encode e es[i].2).length 0]; omega)
      (by rw [hfresh]; exact hon_treeOf e _ _)
    rw [hw] at ihr
    have hstep : HonStep (.umap kw e) (.umap es) (.elem i) B (.node [setInner L k']) k' := by
      simp only [Hon] at hT
      obtain ⟨inner', pmb', hEq, _⟩ := hT
      simp only [PtrTree.node.injEq, List.cons.injEq, and_true] at hEq
      subst hEq
      simp only [setInner, HonStep]; exact ⟨true, rfl⟩
    have hoff : ∀ q, B + offsetOf (.umap kw e) (.umap es) (.elem i :: q)
        = B + (stepPre (.umap kw e) (.umap es) (.elem i) 0).length + offsetOf e es[i].2 q := by
      intro q; simp only [offsetOf, h1]; omega
    cases o with
    | ok tp t2 =>
      simp only [WalkRes, WalkOut.pre] at ihr ⊢
      obtain ⟨u2, T2, a1, a2, a3, a4⟩ := ihr
      refine ⟨u2, T2, by simp only [resolve, h1]; exact a1, by simp only [tpath, h1, tstep, a2], ?_, by rw [hoff]; exact a4⟩
      simp only [HonPath, h1]
      exact ⟨k', hstep, a3⟩
    | panic => simp only [WalkRes] at ihr
    | bad => simp only [WalkRes, WalkOut.pre] at ihr ⊢; exact step_fill _ _ _ e es[i].2 g h1 B _ k' hstep ihr
    | ioob => simp only [WalkRes, WalkOut.pre] at ihr ⊢; exact step_fill _ _ _ e es[i].2 g h1 B _ k' hstep ihr
    | perr => simp only [WalkRes, WalkOut.pre] at ihr ⊢; exact step_fill _ _ _ e es[i].2 g h1 B _ k' hstep ihr
  case case14 ds ps a idx k p sh hps k' o hw ih =>
    intro u B A C g hb hB hT
    obtain ⟨i, pl, rfl⟩ := good_enum_val ds ps u g
    have hTT := hT
    simp only [Hon] at hTT
    obtain ⟨po, hEq, hpo⟩ := hTT
    simp only [PtrTree.start.injEq] at hEq
    obtain ⟨rfl, rfl, rfl⟩ := hEq
    have hnu : sh ≠ .unit := by
      intro hu; subst hu
      rw [honV_unit ps idx pl (a + 1) _ hps] at hpo; cases hpo
    have h1 : resolve1 (.enum ds ps) (.variant idx pl) .payload = .ok (sh, pl) := by
      simp only [resolve1]
      split
      · rename_i h0; rw [hps] at h0; cases h0
      · rename_i h0; rw [hps] at h0; cases h0; exact absurd rfl hnu
      · rename_i t2 hnu2 h0; rw [hps] at h0; cases h0; rfl
    obtain ⟨g1, henc, hlen, _⟩ := step_facts _ _ _ sh pl g h1
    rw [honV_some ps idx sh pl (a + 1) _ hps hnu] at hpo
    obtain ⟨k0, hk0, hk⟩ := hpo
    cases hk0
    have ihr := ih pl (a + (stepPre (.enum ds ps) (.variant idx pl) .payload 0).length)
      (A ++ stepPre (.enum ds ps) (.variant idx pl) .payload (encode sh pl).length)
      (stepPost (.enum ds ps) (.variant idx pl) .payload ++ C) g1
      (by rw [hb, henc]; simp [List.append_assoc])
      (by simp only [List.length_append]; rw [hlen (encode sh pl).length 0]; omega)
      (by simpa [stepPre] using hk)
    rw [hw] at ihr
    have hstep : HonStep (.enum ds ps) (.variant idx pl) .payload a (.start a idx (some k')) k' := by
      simp only [HonStep]
    have hoff : ∀ q, a + offsetOf (.enum ds ps) (.variant idx pl) (.payload :: q)
        = a + (stepPre (.enum ds ps) (.variant idx pl) .payload 0).length + offsetOf sh pl q := by
      intro q; simp only [offsetOf, h1]; omega
    cases o with
    | ok tp t2 =>
      simp only [WalkRes, WalkOut.pre] at ihr ⊢
      obtain ⟨u2, T2, a1, a2, a3, a4⟩ := ihr
      refine ⟨u2, T2, by simp only [resolve, h1]; exact a1, by simp only [tpath, h1, tstep, a2], ?_, by rw [hoff]; exact a4⟩
      simp only [HonPath, h1]
      exact ⟨k', hstep, a3⟩
    | panic => simp only [WalkRes] at ihr
    | bad => simp only [WalkRes, WalkOut.pre] at ihr ⊢; exact step_fill _ _ _ sh pl g h1 a _ k' hstep ihr
    | ioob => simp only [WalkRes, WalkOut.pre] at ihr ⊢; exact step_fill _ _ _ sh pl g h1 a _ k' hstep ihr
    | perr => simp only [WalkRes, WalkOut.pre] at ihr ⊢; exact step_fill _ _ _ sh pl g h1 a _ k' hstep ihr
  case case15 => intro u B A C g hb hB hT; exact hT
  case case16 => intro u B A C g hb hB hT; exact hT

end Unsized.Ptr
