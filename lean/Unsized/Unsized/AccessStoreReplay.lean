import Unsized.AccessStoreNotify
/-!
# The complete event list DETERMINES the byte machine's bytes (no store is missing, none is invented)

`replayData bs evs` applies the events to a plain byte list: a granted realloc sets the length (zero-fill on
growth, truncation on shrink), `move` is `memmove`, `store` is `wr`. For every op — on ANY state — replaying
the events of the store-tracing op on the old bytes yields exactly the bytes the byte machine returns
(`applyAtS_replay`). So the store events are complete and faithful: the footprint theorems (`frame`) speak
about everything the machine writes.
-/
namespace Unsized.Machine
open Common Unsized Unsized.Text

def replayEv : List Nat → EvS → List Nat
  | bs, .raw (.realloc _ new true) =>
    if bs.length < new then bs ++ List.replicate (new - bs.length) 0 else bs.take new
  | bs, .raw (.move d s n) => memmove bs d s n
  | bs, .store off v => wr bs off v
  | bs, _ => bs

def replayData (bs : List Nat) (evs : List EvS) : List Nat := evs.foldl replayEv bs

theorem replayData_append (a b : List EvS) (bs : List Nat) :
    replayData bs (a ++ b) = replayData (replayData bs a) b := by
  simp [replayData, List.foldl_append]

theorem replayData_nil (bs : List Nat) : replayData bs [] = bs := rfl

/-- Store-only events: `replayData` is `replayStores`. -/
theorem replayData_stores (evs : List EvS) : ∀ bs, storesOnly evs = true → replayData bs evs = replayStores bs evs := by
  induction evs with
  | nil => intro bs _; rfl
  | cons e es ih =>
    intro bs h
    cases e with
    | raw e => simp [storesOnly] at h
    | store o v =>
      simp only [storesOnly] at h
      simp only [replayData, List.foldl_cons, replayEv, replayStores]
      exact ih _ h

/-- The traced call's events reproduce its bytes. -/
def Replays {α : Type} (m : Mem) (x : TracedS α) : Prop := replayData m.bytes x.2 = x.1.1.bytes

theorem Replays.nil {α : Type} (m : Mem) (r : Except Err α) : Replays m (((m, r), []) : TracedS α) := rfl

theorem Replays.retag {α β : Type} {m m1 : Mem} {r : Except Err α} {ev : List EvS}
    (h : Replays m (((m1, r), ev) : TracedS α)) (r' : Except Err β) : Replays m (((m1, r'), ev) : TracedS β) := h

theorem Replays.add_store {α β : Type} {m m1 : Mem} {r : Except Err α} {ev : List EvS}
    (h : Replays m (((m1, r), ev) : TracedS α)) (off : Nat) (v : List Nat) (r' : Except Err β) :
    Replays m ((({ m1 with bytes := wr m1.bytes off v }, r'), ev ++ [.store off v]) : TracedS β) := by
  unfold Replays at h ⊢
  simp only [replayData_append, h]
  rfl

theorem Replays.add_move {α β : Type} {m m1 : Mem} {r : Except Err α} {ev : List EvS}
    (h : Replays m (((m1, r), ev) : TracedS α)) (d s n : Nat) (r' : Except Err β) :
    Replays m ((({ m1 with bytes := memmove m1.bytes d s n }, r'), ev ++ [.raw (.move d s n)]) : TracedS β) := by
  unfold Replays at h ⊢
  simp only [replayData_append, h]
  rfl

theorem Replays.add_stores {α β : Type} {m m1 : Mem} {r : Except Err α} {ev : List EvS}
    (h : Replays m (((m1, r), ev) : TracedS α)) (sv : List EvS) (bs' : List Nat)
    (hso : storesOnly sv = true) (hrep : replayStores m1.bytes sv = bs') (r' : Except Err β) :
    Replays m ((({ m1 with bytes := bs' }, r'), ev ++ sv) : TracedS β) := by
  unfold Replays at h ⊢
  simp only [replayData_append, h]
  rw [replayData_stores sv _ hso, hrep]

theorem Replays.seq {α β : Type} {m m1 : Mem} {r1 : Except Err α} {ev1 : List EvS} {x2 : TracedS β}
    (h1 : Replays m (((m1, r1), ev1) : TracedS α)) (h2 : Replays m1 x2) :
    Replays m ((x2.1, ev1 ++ x2.2) : TracedS β) := by
  unfold Replays at h1 h2 ⊢
  simp only [replayData_append, h1]
  exact h2

/-! ## The wrapper primitives -/

theorem addBytes_replayData (m m1 : Mem) (start amount : Nat) (h : m.addBytes start amount = (m1, .ok ())) :
    replayData m.bytes (liftEvs (addBytesEvs m start amount)) = m1.bytes := by
  by_cases h1 : m.bytes.length < start
  · simp [Mem.addBytes, h1] at h
  by_cases h2 : amount = 0
  · simp only [Mem.addBytes, h1, h2, ↓reduceIte, Prod.mk.injEq, and_true] at h
    subst h
    simp [addBytesEvs, h1, h2, liftEvs, replayData, replayEv]
  by_cases h3 : m.grows + 1 ∈ m.refuse
  · simp [Mem.addBytes, h1, h2, h3] at h
  by_cases h4 : m.orig + maxIncrease < m.bytes.length + amount
  · simp [Mem.addBytes, h1, h2, h3, h4] at h
  simp only [Mem.addBytes, h1, h2, h3, h4, ↓reduceIte, Prod.mk.injEq, and_true] at h
  subst h
  simp only [Nat.not_lt] at h1
  have hgrow : m.bytes.length < m.bytes.length + amount := by omega
  have hsub : m.bytes.length + amount - m.bytes.length = amount := by omega
  simp only [addBytesEvs, Nat.not_lt.mpr h1, h2, h3, h4, or_self, ↓reduceIte]
  split
  · rename_i h5
    subst h5
    simp [liftEvs, replayData, replayEv, hgrow, hsub, addBytesRaw]
  · rename_i h5
    simp only [liftEvs, List.map_cons, List.map_nil, replayData, List.foldl_cons, List.foldl_nil, replayEv,
      hgrow, ↓reduceIte, hsub]
    unfold memmove rd wr addBytesRaw
    have e1 : ((m.bytes ++ List.replicate amount 0).drop start).take (m.bytes.length - start)
        = m.bytes.drop start := by
      rw [List.drop_append_of_le_length h1, List.take_append_of_le_length (by simp)]
      apply List.take_of_length_le; simp
    rw [e1]
    have e2 : (m.bytes ++ List.replicate amount 0).take (start + amount)
        = m.bytes.take start ++ ((m.bytes.drop start ++ List.replicate amount 0).take amount) := by
      have : m.bytes ++ List.replicate amount 0
          = m.bytes.take start ++ (m.bytes.drop start ++ List.replicate amount 0) := by
        rw [← List.append_assoc, List.take_append_drop]
      rw [this, List.take_append, List.length_take, Nat.min_eq_left h1]
      have : start + amount - start = amount := by omega
      rw [this, List.take_of_length_le (by simp; omega)]
    rw [e2]
    have e3 : (m.bytes ++ List.replicate amount 0).drop (start + amount + (m.bytes.drop start).length) = [] := by
      apply List.drop_eq_nil_of_le; simp; omega
    rw [e3]; simp

theorem removeBytes_replayData (m m1 : Mem) (start stop : Nat) (h : m.removeBytes start stop = (m1, .ok ())) :
    replayData m.bytes (liftEvs (removeBytesEvs m start stop)) = m1.bytes := by
  by_cases h1 : m.bytes.length < start
  · simp [Mem.removeBytes, h1] at h
  by_cases h2 : stop < start
  · simp [Mem.removeBytes, h1, h2] at h
  by_cases h3 : m.bytes.length < stop
  · simp [Mem.removeBytes, h1, h2, h3] at h
  by_cases h4 : stop = start
  · subst h4
    simp only [Mem.removeBytes, h1, h3, Nat.lt_irrefl, ↓reduceIte, Prod.mk.injEq, and_true] at h
    subst h
    simp [removeBytesEvs, h1, liftEvs, replayData, replayEv]
  simp only [Mem.removeBytes, h1, h2, h3, h4, ↓reduceIte, Prod.mk.injEq, and_true] at h
  subst h
  simp only [Nat.not_lt] at h1 h2 h3
  have hshrink : ¬ m.bytes.length < m.bytes.length - (stop - start) := by omega
  simp only [removeBytesEvs, Nat.not_lt.mpr h1, Nat.not_lt.mpr h2, Nat.not_lt.mpr h3, h4, ↓reduceIte]
  split
  · rename_i h5
    have hnew : m.bytes.length - (stop - start) = start := by omega
    simp only [liftEvs, List.map_cons, List.map_nil, replayData, List.foldl_cons, List.foldl_nil, replayEv,
      hshrink, ↓reduceIte, removeBytesRaw, hnew]
    rw [h5, List.drop_length, List.append_nil, if_neg (Nat.not_lt.mpr h1)]
  · rename_i h5
    have hml : (memmove m.bytes start stop (m.bytes.length - stop)).length = m.bytes.length :=
      memmove_length _ _ _ _ (by omega)
    simp only [liftEvs, List.map_cons, List.map_nil, replayData, List.foldl_cons, List.foldl_nil, replayEv, hml,
      hshrink, ↓reduceIte]
    unfold memmove rd wr removeBytesRaw
    have e1 : (m.bytes.drop stop).take (m.bytes.length - stop) = m.bytes.drop stop := by
      apply List.take_of_length_le; simp
    rw [e1]
    have hl : (m.bytes.take start ++ m.bytes.drop stop).length = m.bytes.length - (stop - start) := by
      simp only [List.length_append, List.length_take, List.length_drop]; omega
    rw [List.take_append_of_le_length (by rw [hl]; exact Nat.le_refl _)]
    exact List.take_of_length_le (by rw [hl]; exact Nat.le_refl _)

theorem addBytes_err_replay (m m1 : Mem) (start amount : Nat) (e : Err) (h : m.addBytes start amount = (m1, .error e)) :
    replayData m.bytes (liftEvs (addBytesEvs m start amount)) = m1.bytes := by
  by_cases h1 : m.bytes.length < start
  · simp only [Mem.addBytes, h1, ↓reduceIte, Prod.mk.injEq] at h
    obtain ⟨rfl, _⟩ := h
    simp [addBytesEvs, h1, liftEvs, replayData, replayEv]
  by_cases h2 : amount = 0
  · simp [Mem.addBytes, h1, h2] at h
  by_cases h3 : m.grows + 1 ∈ m.refuse
  · simp only [Mem.addBytes, h1, h2, h3, ↓reduceIte, Prod.mk.injEq] at h
    obtain ⟨rfl, _⟩ := h
    simp [addBytesEvs, h1, h2, h3, liftEvs, replayData, replayEv]
  by_cases h4 : m.orig + maxIncrease < m.bytes.length + amount
  · simp only [Mem.addBytes, h1, h2, h3, h4, ↓reduceIte, Prod.mk.injEq] at h
    obtain ⟨rfl, _⟩ := h
    simp [addBytesEvs, h1, h2, h3, h4, liftEvs, replayData, replayEv]
  · simp [Mem.addBytes, h1, h2, h3, h4] at h

theorem removeBytes_err_replay (m m1 : Mem) (start stop : Nat) (e : Err)
    (h : m.removeBytes start stop = (m1, .error e)) :
    replayData m.bytes (liftEvs (removeBytesEvs m start stop)) = m1.bytes := by
  by_cases h1 : m.bytes.length < start
  · simp only [Mem.removeBytes, h1, ↓reduceIte, Prod.mk.injEq] at h
    obtain ⟨rfl, _⟩ := h
    simp [removeBytesEvs, h1, liftEvs, replayData, replayEv]
  by_cases h2 : stop < start
  · simp only [Mem.removeBytes, h1, h2, ↓reduceIte, Prod.mk.injEq] at h
    obtain ⟨rfl, _⟩ := h
    simp [removeBytesEvs, h1, h2, liftEvs, replayData, replayEv]
  by_cases h3 : m.bytes.length < stop
  · simp only [Mem.removeBytes, h1, h2, h3, ↓reduceIte, Prod.mk.injEq] at h
    obtain ⟨rfl, _⟩ := h
    simp [removeBytesEvs, h1, h2, h3, liftEvs, replayData, replayEv]
  by_cases h4 : stop = start
  · simp [Mem.removeBytes, h1, h2, h3, h4] at h
  · simp [Mem.removeBytes, h1, h2, h3, h4] at h

theorem addBytesNS_replays (m : Mem) (c : Ctx) (src start amount : Nat) :
    Replays m (m.addBytesNS c src start amount) := by
  unfold Mem.addBytesNS Mem.addBytesT Replays
  rcases hadd : m.addBytes start amount with ⟨m1, r⟩
  cases r with
  | error e => exact addBytes_err_replay m m1 start amount e hadd
  | ok uu =>
    cases uu
    have h0 := addBytes_replayData m m1 start amount hadd
    simp only []
    split
    · exact h0
    · have hsp := notifyS_spec c.path c.shape 0 src false amount m1.bytes
      have hrp := notifyS_replay c.path c.shape 0 src false amount m1.bytes
      generalize notifyS c.shape c.path 0 src false amount m1.bytes = y at *
      rcases y with ⟨r2, sv⟩
      cases r2 with
      | error e => simp only [replayData_append, h0]; rfl
      | ok bs =>
        simp only [replayData_append, h0]
        have := (hrp bs rfl).1
        simp only [] at this hsp
        show replayData m1.bytes (EvS.raw _ :: sv) = bs
        simp only [replayData, List.foldl_cons, replayEv]
        have h2 := replayData_stores sv m1.bytes hsp.2
        simp only [replayData] at h2
        rw [h2, this]

theorem removeBytesNS_replays (m : Mem) (c : Ctx) (src start stop : Nat) :
    Replays m (m.removeBytesNS c src start stop) := by
  unfold Mem.removeBytesNS Mem.removeBytesT Replays
  rcases hrem : m.removeBytes start stop with ⟨m1, r⟩
  cases r with
  | error e => exact removeBytes_err_replay m m1 start stop e hrem
  | ok uu =>
    cases uu
    have h0 := removeBytes_replayData m m1 start stop hrem
    simp only []
    split
    · exact h0
    · have hsp := notifyS_spec c.path c.shape 0 src true (stop - start) m1.bytes
      have hrp := notifyS_replay c.path c.shape 0 src true (stop - start) m1.bytes
      generalize notifyS c.shape c.path 0 src true (stop - start) m1.bytes = y at *
      rcases y with ⟨r2, sv⟩
      cases r2 with
      | error e => simp only [replayData_append, h0]; rfl
      | ok bs =>
        simp only [replayData_append, h0]
        have := (hrp bs rfl).1
        simp only [] at this hsp
        show replayData m1.bytes (EvS.raw _ :: sv) = bs
        simp only [replayData, List.foldl_cons, replayEv]
        have h2 := replayData_stores sv m1.bytes hsp.2
        simp only [replayData] at h2
        rw [h2, this]

/-! ## Ops -/

theorem listInsertAllS_replays (c : Ctx) (ew lw b idx : Nat) (items : List (List Nat)) (m : Mem) :
    Replays m (listInsertAllS c ew lw b idx items m) := by
  unfold listInsertAllS
  simp only []
  split
  · exact Replays.nil _ _
  · split
    · exact Replays.nil _ _
    · have h := addBytesNS_replays m c b (b + lw + idx * ew) (ew * items.length)
      generalize m.addBytesNS c b (b + lw + idx * ew) (ew * items.length) = y at *
      rcases y with ⟨⟨m1, r⟩, ev⟩
      cases r with
      | error e => exact h
      | ok uu =>
        cases uu
        have h1 := h.add_store (β := Unit) b (leN lw (rdN m.bytes b lw + items.length)) (.ok ())
        have h2 := h1.add_store (β := Unit) (b + lw + idx * ew) items.flatten (.ok ())
        simpa [List.append_assoc] using h2

theorem listRemoveRangeS_replays (c : Ctx) (ew lw b lo hi : Nat) (m : Mem) :
    Replays m (listRemoveRangeS c ew lw b lo hi m) := by
  unfold listRemoveRangeS
  simp only []
  split
  · exact Replays.nil _ _
  · split
    · exact Replays.nil _ _
    · have h := removeBytesNS_replays m c b (b + lw + lo * ew) (b + lw + hi * ew)
      generalize m.removeBytesNS c b (b + lw + lo * ew) (b + lw + hi * ew) = y at *
      rcases y with ⟨⟨m1, r⟩, ev⟩
      cases r with
      | error e => exact h
      | ok uu => cases uu; exact h.add_store (β := Unit) b _ (.ok ())

theorem listPopS_replays (c : Ctx) (ew lw b : Nat) (m : Mem) : Replays m (listPopS c ew lw b m) := by
  unfold listPopS
  simp only []
  split
  · exact Replays.nil _ _
  · have h := listRemoveRangeS_replays c ew lw b (rdN m.bytes b lw - 1) (rdN m.bytes b lw) m
    generalize listRemoveRangeS c ew lw b (rdN m.bytes b lw - 1) (rdN m.bytes b lw) m = y at *
    rcases y with ⟨⟨m1, r⟩, ev⟩
    cases r with
    | error e => exact h
    | ok uu => cases uu; exact h

theorem setInsertS_replays (c : Ctx) (ew lw b : Nat) (e : List Nat) (m : Mem) :
    Replays m (setInsertS c ew lw b e m) := by
  unfold setInsertS
  split
  · exact Replays.nil _ _
  · rename_i i _
    have h := listInsertAllS_replays c ew lw b i [e] m
    generalize listInsertAllS c ew lw b i [e] m = y at *
    rcases y with ⟨⟨m1, r⟩, ev⟩
    cases r with
    | error er => exact h
    | ok uu => cases uu; exact h

theorem setInsertAllS_replays (c : Ctx) (ew lw b : Nat) (es : List (List Nat)) :
    ∀ (n : Nat) (m : Mem), Replays m (setInsertAllS c ew lw b es n m) := by
  induction es with
  | nil => intro n m; exact Replays.nil _ _
  | cons e es ih =>
    intro n m
    simp only [setInsertAllS]
    have h := setInsertS_replays c ew lw b e m
    generalize setInsertS c ew lw b e m = y at *
    rcases y with ⟨⟨m1, r⟩, ev⟩
    cases r with
    | error er => exact h
    | ok new => exact h.seq (ih _ m1)

theorem setRemoveS_replays (c : Ctx) (ew lw b : Nat) (e : List Nat) (m : Mem) :
    Replays m (setRemoveS c ew lw b e m) := by
  unfold setRemoveS
  split
  · exact Replays.nil _ _
  · rename_i i _
    have h := listRemoveRangeS_replays c ew lw b i (i + 1) m
    generalize listRemoveRangeS c ew lw b i (i + 1) m = y at *
    rcases y with ⟨⟨m1, r⟩, ev⟩
    cases r with
    | error er => exact h
    | ok uu => cases uu; exact h

theorem mapInsertS_replays (c : Ctx) (kw vw lw b : Nat) (k v : List Nat) (m : Mem) :
    Replays m (mapInsertS c kw vw lw b k v m) := by
  unfold mapInsertS
  simp only []
  split
  · exact (Replays.nil (α := Unit) m (.ok ())).add_store _ v _
  · rename_i i _
    have h := listInsertAllS_replays c (kw + vw) lw b i [k ++ v] m
    generalize listInsertAllS c (kw + vw) lw b i [k ++ v] m = y at *
    rcases y with ⟨⟨m1, r⟩, ev⟩
    cases r with
    | error er => exact h
    | ok uu => cases uu; exact h

theorem mapInsertAllS_replays (c : Ctx) (kw vw lw b : Nat) (kvs : List (List Nat × List Nat)) :
    ∀ (n : Nat) (m : Mem), Replays m (mapInsertAllS c kw vw lw b kvs n m) := by
  induction kvs with
  | nil => intro n m; exact Replays.nil _ _
  | cons kv kvs ih =>
    intro n m
    obtain ⟨k, v⟩ := kv
    simp only [mapInsertAllS]
    have h := mapInsertS_replays c kw vw lw b k v m
    generalize mapInsertS c kw vw lw b k v m = y at *
    rcases y with ⟨⟨m1, r⟩, ev⟩
    cases r with
    | error er => exact h
    | ok old => exact h.seq (ih _ m1)

theorem mapRemoveS_replays (c : Ctx) (kw vw lw b : Nat) (k : List Nat) (m : Mem) :
    Replays m (mapRemoveS c kw vw lw b k m) := by
  unfold mapRemoveS
  simp only []
  split
  · exact Replays.nil _ _
  · rename_i i _
    have h := listRemoveRangeS_replays c (kw + vw) lw b i (i + 1) m
    generalize listRemoveRangeS c (kw + vw) lw b i (i + 1) m = y at *
    rcases y with ⟨⟨m1, r⟩, ev⟩
    cases r with
    | error er => exact h
    | ok uu => cases uu; exact h

theorem strSetS_replays (c : Ctx) (lw b : Nat) (s : List Nat) (m : Mem) : Replays m (strSetS c lw b s m) := by
  unfold strSetS listClearS
  have h := listRemoveRangeS_replays c 1 lw b 0 (rdN m.bytes b lw) m
  generalize listRemoveRangeS c 1 lw b 0 (rdN m.bytes b lw) m = y at *
  rcases y with ⟨⟨m1, r⟩, ev⟩
  cases r with
  | error e => exact h
  | ok uu => cases uu; exact h.seq (listInsertAllS_replays c 1 lw b _ _ m1)

theorem remSetLenS_replays (c : Ctx) (b n : Nat) (m : Mem) : Replays m (remSetLenS c b n m) := by
  unfold remSetLenS
  simp only []
  split
  · exact addBytesNS_replays ..
  · split
    · exact Replays.nil _ _
    · exact removeBytesNS_replays ..

theorem setDataInnerS_replays (c : Ctx) (t : Shape) (b : Nat) (newBytes : List Nat) (fails : Bool) (m : Mem) :
    Replays m (setDataInnerS c t b newBytes fails m) := by
  unfold setDataInnerS
  cases hx : extent t (m.bytes.drop b) with
  | error e => exact Replays.nil _ _
  | ok cur =>
    simp only []
    by_cases h1 : cur < newBytes.length
    · simp only [h1, ↓reduceIte]
      have h := addBytesNS_replays m c b b (newBytes.length - cur)
      generalize m.addBytesNS c b b (newBytes.length - cur) = y at *
      rcases y with ⟨⟨m1, r⟩, ev⟩
      cases r with
      | error e => exact h
      | ok uu =>
        cases uu
        simp only []
        split
        · exact h
        · exact h.add_store (β := Unit) b newBytes (.ok ())
    · by_cases h2 : newBytes.length < cur
      · simp only [h1, h2, ↓reduceIte]
        have h := removeBytesNS_replays m c b b (b + (cur - newBytes.length))
        generalize m.removeBytesNS c b b (b + (cur - newBytes.length)) = y at *
        rcases y with ⟨⟨m1, r⟩, ev⟩
        cases r with
        | error e => exact h
        | ok uu =>
          cases uu
          simp only []
          split
          · exact h
          · exact h.add_store (β := Unit) b newBytes (.ok ())
      · simp only [h1, h2, ↓reduceIte]
        split
        · exact Replays.nil _ _
        · exact (Replays.nil (α := Unit) m (.ok ())).add_store (β := Unit) b newBytes (.ok ())

/-! ## `UnsizedList` -/

theorem adjustOffsetsS_err (cw base len start : Nat) (neg : Bool) (amt : Nat) (bs : List Nat) (e : Err)
    (h : (adjustOffsetsS cw base len start neg amt bs).1 = .error e) :
    (adjustOffsetsS cw base len start neg amt bs).2 = [] := by
  unfold adjustOffsetsS at h ⊢
  by_cases h0 : len = 0
  · simp [h0] at h
  by_cases h1 : amt = 0
  · simp [h0, h1] at h
  by_cases h2 : len ≤ start
  · simp [h0, h1, h2] at h
  cases neg with
  | true =>
    by_cases h3 : rd32 bs (base + 8 + start * cw) < amt
    · simp [h0, h1, h2, h3]
    · simp [h0, h1, h2, h3] at h
  | false =>
    by_cases h3 : Shape.u32Lim ≤ rd32 bs (base + 8 + (len - 1) * cw) + amt
    · simp [h0, h1, h2, h3]
    · simp [h0, h1, h2, h3] at h

theorem ulistFillS_replay (cw sz : Nat) (key img : List Nat) : ∀ (n pos dpos off : Nat) (bs : List Nat),
    replayStores bs (ulistFillS cw sz key img n pos dpos off bs).2 = (ulistFillS cw sz key img n pos dpos off bs).1 := by
  intro n
  induction n with
  | zero => intro pos dpos off bs; rfl
  | succ n ih =>
    intro pos dpos off bs
    simp only [ulistFillS, replayStores]
    exact ih _ _ _ _

theorem ulistInsertS_replays (c : Ctx) (cw : Nat) (e : Shape) (b idx n : Nat) (init : Init) (key : List Nat)
    (m : Mem) : Replays m (ulistInsertS c cw e b idx n init key m) := by
  unfold ulistInsertS
  simp only []
  split
  · exact Replays.nil _ _
  · have h := addBytesNS_replays m c b (b + 8 + rd32 m.bytes (b + 4) * cw + 4 + ulistOffset cw b idx m.bytes)
      ((initSize e init + cw) * n)
    generalize m.addBytesNS c b (b + 8 + rd32 m.bytes (b + 4) * cw + 4 + ulistOffset cw b idx m.bytes)
      ((initSize e init + cw) * n) = y at *
    rcases y with ⟨⟨m1, r⟩, ev⟩
    cases r with
    | error er => exact h
    | ok uu =>
      cases uu
      simp only [wr32]
      have hA := h.add_move (β := Unit) (b + 8 + idx * cw + n * cw) (b + 8 + idx * cw)
        (b + 8 + rd32 m.bytes (b + 4) * cw + 4 + ulistOffset cw b idx m.bytes - (b + 8 + idx * cw)) (.error .arith)
      split
      · exact hA
      · have hB := hA.add_store (β := Unit) (b + 4) (leN 4 (rd32 m.bytes (b + 4) + n)) (.ok ())
        have hC := hB.add_store (β := Unit) (b + 8 + (rd32 m.bytes (b + 4) + n) * cw) (leN 4 (rd32 m.bytes (b + 4) + n)) (.ok ())
        simp only [] at hC
        generalize wr (wr (memmove m1.bytes _ _ _) _ _) _ _ = bs3 at hC ⊢
        have hD := hC.add_store (β := Unit) b (leN 4 (rd32 bs3 b + n * initSize e init)) (.ok ())
        simp only [] at hD
        generalize wr bs3 b (leN 4 (rd32 bs3 b + n * initSize e init)) = bs4 at hD ⊢
        have hsp := adjustOffsetsS_spec cw b (rd32 m.bytes (b + 4) + n) (idx + n) false (n * initSize e init) bs4
        have hrp := adjustOffsetsS_replay cw b (rd32 m.bytes (b + 4) + n) (idx + n) false (n * initSize e init) bs4
        have her := adjustOffsetsS_err cw b (rd32 m.bytes (b + 4) + n) (idx + n) false (n * initSize e init) bs4
        generalize adjustOffsetsS cw b (rd32 m.bytes (b + 4) + n) (idx + n) false (n * initSize e init) bs4 = ao at *
        rcases ao with ⟨r5, ev3⟩
        cases r5 with
        | error er =>
          have : ev3 = [] := her er rfl
          subst this
          simpa [List.append_assoc] using hD.retag (β := Unit) (.error er)
        | ok bs5 =>
          have hE := hD.add_stores (β := Unit) ev3 bs5 hsp.2 (hrp bs5 rfl).1 (.ok ())
          simp only []
          split
          · simpa [List.append_assoc] using hE
          · split
            · simpa [List.append_assoc] using hE.retag (β := Unit) (.error .initFail)
            · have hf := ulistFillS_replay cw (initSize e init) key (initBytes e init) n (b + 8 + idx * cw)
                (b + 8 + (rd32 m.bytes (b + 4) + n) * cw + 4 + ulistOffset cw b idx m.bytes)
                (ulistOffset cw b idx m.bytes) bs5
              have hfs := (ulistFillS_spec cw (initSize e init) key (initBytes e init) n (b + 8 + idx * cw)
                (b + 8 + (rd32 m.bytes (b + 4) + n) * cw + 4 + ulistOffset cw b idx m.bytes)
                (ulistOffset cw b idx m.bytes) bs5).2
              generalize ulistFillS cw (initSize e init) key (initBytes e init) n (b + 8 + idx * cw)
                (b + 8 + (rd32 m.bytes (b + 4) + n) * cw + 4 + ulistOffset cw b idx m.bytes)
                (ulistOffset cw b idx m.bytes) bs5 = fo at *
              rcases fo with ⟨bs6, ev4⟩
              have hF := hE.add_stores (β := Unit) ev4 bs6 hfs hf (.ok ())
              simpa [List.append_assoc] using hF

theorem ulistClearS_replays (c : Ctx) (cw b : Nat) (m : Mem) : Replays m (ulistClearS c cw b m) := by
  unfold ulistClearS
  simp only []
  have h := removeBytesNS_replays m c b (b + 8 + 4) (b + 8 + rd32 m.bytes (b + 4) * cw + 4 + rd32 m.bytes b)
  generalize m.removeBytesNS c b (b + 8 + 4) (b + 8 + rd32 m.bytes (b + 4) * cw + 4 + rd32 m.bytes b) = y at *
  rcases y with ⟨⟨m1, r⟩, ev⟩
  cases r with
  | error e => exact h
  | ok uu =>
    cases uu
    simp only [wr32]
    have h1 := h.add_store (β := Unit) (b + 4) (leN 4 0) (.ok ())
    have h2 := h1.add_store (β := Unit) (b + 8) (leN 4 0) (.ok ())
    have h3 := h2.add_store (β := Unit) b (leN 4 0) (.ok ())
    simpa [List.append_assoc] using h3

/-- A raw `memmove` before the call. -/
theorem Replays.prepend_move {α : Type} {m : Mem} (d s n : Nat) {x : TracedS α}
    (h : Replays ({ m with bytes := memmove m.bytes d s n } : Mem) x) :
    Replays m ((x.1, [.raw (.move d s n)] ++ x.2) : TracedS α) := by
  unfold Replays at h ⊢
  simp only [List.singleton_append, replayData, List.foldl_cons, replayEv]
  exact h

theorem ulistRemoveRangeS_replays (c : Ctx) (cw b lo hi : Nat) (m : Mem) :
    Replays m (ulistRemoveRangeS c cw b lo hi m) := by
  unfold ulistRemoveRangeS
  simp only []
  split
  · exact ulistClearS_replays c cw b m
  · split
    · exact Replays.nil _ _
    · split
      · exact Replays.nil _ _
      · generalize hy : Mem.removeBytesNS _ c b _ _ = y
        have h : Replays ({ m with bytes := (memmove m.bytes (b + 8 + lo * cw) (b + 8 + hi * cw) (b + 8 + rd32 m.bytes (b + 4) * cw + 4 + ulistOffset cw b lo m.bytes - (b + 8 + hi * cw))) } : Mem) y := by
          rw [← hy]; exact removeBytesNS_replays _ _ _ _ _
        rcases y with ⟨⟨m1, r⟩, ev⟩
        have hP := Replays.prepend_move (m := m) _ _ _ h
        simp only [] at hP
        cases r with
        | error e => exact hP
        | ok uu =>
          cases uu
          simp only [wr32]
          have hB := hP.add_store (β := Unit) (b + 4) (leN 4 (rd32 m.bytes (b + 4) - (hi - lo))) (.ok ())
          have hC := hB.add_store (β := Unit) (b + 8 + (rd32 m.bytes (b + 4) - (hi - lo)) * cw)
            (leN 4 (rd32 m.bytes (b + 4) - (hi - lo))) (.ok ())
          simp only [] at hC
          generalize wr (wr m1.bytes _ _) _ _ = bs3 at hC ⊢
          have hD := hC.add_store (β := Unit) b
            (leN 4 (rd32 bs3 b - (ulistOffset cw b hi m.bytes - ulistOffset cw b lo m.bytes))) (.ok ())
          simp only [] at hD
          generalize wr bs3 b _ = bs4 at hD ⊢
          have hsp := adjustOffsetsS_spec cw b (rd32 m.bytes (b + 4) - (hi - lo)) lo true
            (ulistOffset cw b hi m.bytes - ulistOffset cw b lo m.bytes) bs4
          have hrp := adjustOffsetsS_replay cw b (rd32 m.bytes (b + 4) - (hi - lo)) lo true
            (ulistOffset cw b hi m.bytes - ulistOffset cw b lo m.bytes) bs4
          have her := adjustOffsetsS_err cw b (rd32 m.bytes (b + 4) - (hi - lo)) lo true
            (ulistOffset cw b hi m.bytes - ulistOffset cw b lo m.bytes) bs4
          generalize adjustOffsetsS cw b (rd32 m.bytes (b + 4) - (hi - lo)) lo true
            (ulistOffset cw b hi m.bytes - ulistOffset cw b lo m.bytes) bs4 = ao at *
          rcases ao with ⟨r5, ev3⟩
          cases r5 with
          | error er =>
            have : ev3 = [] := her er rfl
            subst this
            simpa [List.append_assoc] using hD.retag (β := Unit) (.error er)
          | ok bs5 =>
            have hE := hD.add_stores (β := Unit) ev3 bs5 hsp.2 (hrp bs5 rfl).1 (.ok ())
            simpa [List.append_assoc] using hE

theorem ulistPopS_replays (c : Ctx) (cw b : Nat) (m : Mem) : Replays m (ulistPopS c cw b m) := by
  unfold ulistPopS
  simp only []
  split
  · exact Replays.nil _ _
  · have h := ulistRemoveRangeS_replays c cw b (rd32 m.bytes (b + 4) - 1) (rd32 m.bytes (b + 4)) m
    generalize ulistRemoveRangeS c cw b (rd32 m.bytes (b + 4) - 1) (rd32 m.bytes (b + 4)) m = y at *
    rcases y with ⟨⟨m1, r⟩, ev⟩
    cases r with
    | error e => exact h
    | ok uu => cases uu; exact h

theorem umapInsertS_replays (c : Ctx) (kw : Nat) (e : Shape) (b : Nat) (k : List Nat) (init : Init) (m : Mem) :
    Replays m (umapInsertS c kw e b k init m) := by
  unfold umapInsertS
  simp only []
  split
  · generalize hy : setDataInnerS _ e _ (initBytes e init) (initFails e init) m = y
    have h' : Replays m y := by rw [← hy]; exact setDataInnerS_replays _ _ _ _ _ _
    rcases y with ⟨⟨m1, r⟩, ev⟩
    cases r with
    | error er => exact h'
    | ok uu => cases uu; exact h'
  · rename_i i _
    have h := ulistInsertS_replays c (Shape.entryW kw) e b i 1 init k m
    generalize ulistInsertS c (Shape.entryW kw) e b i 1 init k m = y at *
    rcases y with ⟨⟨m1, r⟩, ev⟩
    cases r with
    | error er => exact h
    | ok uu => cases uu; exact h

theorem unitResS_replays {m : Mem} {x : TracedS Unit} (h : Replays m x) : Replays m (unitResS x) := by
  rcases x with ⟨⟨m1, r⟩, ev⟩
  cases r with
  | error e => exact h
  | ok uu => cases uu; exact h

/-- in-place / no-op pairs: unfold and compare -/
macro "inplace_replay" : tactic =>
  `(tactic| (unfold Replays; simp only [inPlaceS, applyAt]; (repeat' split) <;>
      first | rfl | (simp [replayData, replayEv]; done) | simp_all [replayData, replayEv]))

theorem sinsertS_replays (c : Ctx) (e : Fixed) (lw b : Nat) (x : List Nat) (m : Mem) :
    Replays m (applyAtS c (.set e lw) b (.sinsert x) m) := by
  simp only [applyAtS]
  split
  · have h := setInsertS_replays c e.size lw b x m
    generalize setInsertS c e.size lw b x m = y at *
    rcases y with ⟨⟨m1, r⟩, ev⟩
    cases r <;> exact h
  · exact Replays.nil _ _

theorem minsertS_replays (c : Ctx) (kw : Nat) (v : Fixed) (lw b : Nat) (k x : List Nat) (m : Mem) :
    Replays m (applyAtS c (.map kw v lw) b (.minsert k x) m) := by
  simp only [applyAtS]
  split
  · have h := mapInsertS_replays c kw v.size lw b k x m
    generalize mapInsertS c kw v.size lw b k x m = y at *
    rcases y with ⟨⟨m1, r⟩, ev⟩
    cases r <;> exact h
  · exact Replays.nil _ _

theorem umremoveS_replays (c : Ctx) (kw : Nat) (e : Shape) (b : Nat) (k : List Nat) (m : Mem) :
    Replays m (applyAtS c (.umap kw e) b (.umremove k) m) := by
  simp only [applyAtS]
  split
  · split
    · exact Replays.nil _ _
    · rename_i i _
      have h := ulistRemoveRangeS_replays c (Shape.entryW kw) b i (i + 1) m
      generalize ulistRemoveRangeS c (Shape.entryW kw) b i (i + 1) m = y at *
      rcases y with ⟨⟨m1, r⟩, ev⟩
      cases r with
      | error e => exact h
      | ok uu => cases uu; exact h
  · exact Replays.nil _ _

theorem msetS_replays (c : Ctx) (kw : Nat) (v : Fixed) (lw b : Nat) (k x : List Nat) (m : Mem) :
    Replays m (applyAtS c (.map kw v lw) b (.mset k x) m) := by
  simp only [applyAtS, inPlaceS, applyAt]
  unfold Replays
  by_cases hx : (k.length == kw && decide (BytesWF k) && validE v x) = true
  · simp only [hx, ↓reduceIte]
    cases search (listKeys (kw + v.size) lw kw b m.bytes) (rdLE k) 0 <;> simp [replayData, replayEv]
  · simp [hx, replayData]

theorem replays_fixed (c : Ctx) (f : Fixed) (b : Nat) (op : Op) (m : Mem) :
    Replays m (applyAtS c (.fixed f) b op m) := by
  cases op with
  | sinsert x => first | (with_reducible exact sinsertS_replays ..) | (simp only [applyAtS]; inplace_replay)
  | minsert k x => first | (with_reducible exact minsertS_replays ..) | (simp only [applyAtS]; inplace_replay)
  | umremove k => first | (with_reducible exact umremoveS_replays ..) | (simp only [applyAtS]; inplace_replay)
  | mset k x => first | (with_reducible exact msetS_replays ..) | (simp only [applyAtS]; inplace_replay)
  | _ =>
   simp only [applyAtS] <;> (try split) <;> first
    | with_reducible exact Replays.nil _ _
    | with_reducible exact unitResS_replays (setDataInnerS_replays _ _ _ _ _ _)
    | with_reducible exact unitResS_replays (listInsertAllS_replays _ _ _ _ _ _ _)
    | with_reducible exact setInsertAllS_replays _ _ _ _ _ _ _
    | with_reducible exact mapInsertAllS_replays _ _ _ _ _ _ _ _
    | with_reducible exact setRemoveS_replays _ _ _ _ _ _
    | with_reducible exact mapRemoveS_replays _ _ _ _ _ _ _
    | with_reducible exact unitResS_replays (strSetS_replays _ _ _ _ _)
    | with_reducible exact unitResS_replays (ulistInsertS_replays _ _ _ _ _ _ _ _ _)
    | with_reducible exact umapInsertS_replays _ _ _ _ _ _ _
    | with_reducible exact unitResS_replays (listRemoveRangeS_replays _ _ _ _ _ _ _)
    | with_reducible exact listPopS_replays _ _ _ _ _
    | with_reducible exact unitResS_replays (remSetLenS_replays _ _ _ _)
    | with_reducible exact unitResS_replays (ulistRemoveRangeS_replays _ _ _ _ _ _)
    | with_reducible exact ulistPopS_replays _ _ _ _
    | with_reducible exact unitResS_replays (ulistClearS_replays _ _ _ _)
    | (simp only [listClearS]
       with_reducible exact unitResS_replays (listRemoveRangeS_replays _ _ _ _ _ _ _))
    | inplace_replay

theorem replays_list (c : Ctx) (e : Fixed) (lw : Nat) (b : Nat) (op : Op) (m : Mem) :
    Replays m (applyAtS c (.list e lw) b op m) := by
  cases op with
  | sinsert x => first | (with_reducible exact sinsertS_replays ..) | (simp only [applyAtS]; inplace_replay)
  | minsert k x => first | (with_reducible exact minsertS_replays ..) | (simp only [applyAtS]; inplace_replay)
  | umremove k => first | (with_reducible exact umremoveS_replays ..) | (simp only [applyAtS]; inplace_replay)
  | mset k x => first | (with_reducible exact msetS_replays ..) | (simp only [applyAtS]; inplace_replay)
  | _ =>
   simp only [applyAtS] <;> (try split) <;> first
    | with_reducible exact Replays.nil _ _
    | with_reducible exact unitResS_replays (setDataInnerS_replays _ _ _ _ _ _)
    | with_reducible exact unitResS_replays (listInsertAllS_replays _ _ _ _ _ _ _)
    | with_reducible exact setInsertAllS_replays _ _ _ _ _ _ _
    | with_reducible exact mapInsertAllS_replays _ _ _ _ _ _ _ _
    | with_reducible exact setRemoveS_replays _ _ _ _ _ _
    | with_reducible exact mapRemoveS_replays _ _ _ _ _ _ _
    | with_reducible exact unitResS_replays (strSetS_replays _ _ _ _ _)
    | with_reducible exact unitResS_replays (ulistInsertS_replays _ _ _ _ _ _ _ _ _)
    | with_reducible exact umapInsertS_replays _ _ _ _ _ _ _
    | with_reducible exact unitResS_replays (listRemoveRangeS_replays _ _ _ _ _ _ _)
    | with_reducible exact listPopS_replays _ _ _ _ _
    | with_reducible exact unitResS_replays (remSetLenS_replays _ _ _ _)
    | with_reducible exact unitResS_replays (ulistRemoveRangeS_replays _ _ _ _ _ _)
    | with_reducible exact ulistPopS_replays _ _ _ _
    | with_reducible exact unitResS_replays (ulistClearS_replays _ _ _ _)
    | (simp only [listClearS]
       with_reducible exact unitResS_replays (listRemoveRangeS_replays _ _ _ _ _ _ _))
    | inplace_replay

theorem replays_set (c : Ctx) (e : Fixed) (lw : Nat) (b : Nat) (op : Op) (m : Mem) :
    Replays m (applyAtS c (.set e lw) b op m) := by
  cases op with
  | sinsert x => first | (with_reducible exact sinsertS_replays ..) | (simp only [applyAtS]; inplace_replay)
  | minsert k x => first | (with_reducible exact minsertS_replays ..) | (simp only [applyAtS]; inplace_replay)
  | umremove k => first | (with_reducible exact umremoveS_replays ..) | (simp only [applyAtS]; inplace_replay)
  | mset k x => first | (with_reducible exact msetS_replays ..) | (simp only [applyAtS]; inplace_replay)
  | _ =>
   simp only [applyAtS] <;> (try split) <;> first
    | with_reducible exact Replays.nil _ _
    | with_reducible exact unitResS_replays (setDataInnerS_replays _ _ _ _ _ _)
    | with_reducible exact unitResS_replays (listInsertAllS_replays _ _ _ _ _ _ _)
    | with_reducible exact setInsertAllS_replays _ _ _ _ _ _ _
    | with_reducible exact mapInsertAllS_replays _ _ _ _ _ _ _ _
    | with_reducible exact setRemoveS_replays _ _ _ _ _ _
    | with_reducible exact mapRemoveS_replays _ _ _ _ _ _ _
    | with_reducible exact unitResS_replays (strSetS_replays _ _ _ _ _)
    | with_reducible exact unitResS_replays (ulistInsertS_replays _ _ _ _ _ _ _ _ _)
    | with_reducible exact umapInsertS_replays _ _ _ _ _ _ _
    | with_reducible exact unitResS_replays (listRemoveRangeS_replays _ _ _ _ _ _ _)
    | with_reducible exact listPopS_replays _ _ _ _ _
    | with_reducible exact unitResS_replays (remSetLenS_replays _ _ _ _)
    | with_reducible exact unitResS_replays (ulistRemoveRangeS_replays _ _ _ _ _ _)
    | with_reducible exact ulistPopS_replays _ _ _ _
    | with_reducible exact unitResS_replays (ulistClearS_replays _ _ _ _)
    | (simp only [listClearS]
       with_reducible exact unitResS_replays (listRemoveRangeS_replays _ _ _ _ _ _ _))
    | inplace_replay

theorem replays_map (c : Ctx) (kw : Nat) (v : Fixed) (lw : Nat) (b : Nat) (op : Op) (m : Mem) :
    Replays m (applyAtS c (.map kw v lw) b op m) := by
  cases op with
  | sinsert x => first | (with_reducible exact sinsertS_replays ..) | (simp only [applyAtS]; inplace_replay)
  | minsert k x => first | (with_reducible exact minsertS_replays ..) | (simp only [applyAtS]; inplace_replay)
  | umremove k => first | (with_reducible exact umremoveS_replays ..) | (simp only [applyAtS]; inplace_replay)
  | mset k x => first | (with_reducible exact msetS_replays ..) | (simp only [applyAtS]; inplace_replay)
  | _ =>
   simp only [applyAtS] <;> (try split) <;> first
    | with_reducible exact Replays.nil _ _
    | with_reducible exact unitResS_replays (setDataInnerS_replays _ _ _ _ _ _)
    | with_reducible exact unitResS_replays (listInsertAllS_replays _ _ _ _ _ _ _)
    | with_reducible exact setInsertAllS_replays _ _ _ _ _ _ _
    | with_reducible exact mapInsertAllS_replays _ _ _ _ _ _ _ _
    | with_reducible exact setRemoveS_replays _ _ _ _ _ _
    | with_reducible exact mapRemoveS_replays _ _ _ _ _ _ _
    | with_reducible exact unitResS_replays (strSetS_replays _ _ _ _ _)
    | with_reducible exact unitResS_replays (ulistInsertS_replays _ _ _ _ _ _ _ _ _)
    | with_reducible exact umapInsertS_replays _ _ _ _ _ _ _
    | with_reducible exact unitResS_replays (listRemoveRangeS_replays _ _ _ _ _ _ _)
    | with_reducible exact listPopS_replays _ _ _ _ _
    | with_reducible exact unitResS_replays (remSetLenS_replays _ _ _ _)
    | with_reducible exact unitResS_replays (ulistRemoveRangeS_replays _ _ _ _ _ _)
    | with_reducible exact ulistPopS_replays _ _ _ _
    | with_reducible exact unitResS_replays (ulistClearS_replays _ _ _ _)
    | (simp only [listClearS]
       with_reducible exact unitResS_replays (listRemoveRangeS_replays _ _ _ _ _ _ _))
    | inplace_replay

theorem replays_str (c : Ctx) (lw : Nat) (b : Nat) (op : Op) (m : Mem) :
    Replays m (applyAtS c (.str lw) b op m) := by
  cases op with
  | sinsert x => first | (with_reducible exact sinsertS_replays ..) | (simp only [applyAtS]; inplace_replay)
  | minsert k x => first | (with_reducible exact minsertS_replays ..) | (simp only [applyAtS]; inplace_replay)
  | umremove k => first | (with_reducible exact umremoveS_replays ..) | (simp only [applyAtS]; inplace_replay)
  | mset k x => first | (with_reducible exact msetS_replays ..) | (simp only [applyAtS]; inplace_replay)
  | _ =>
   simp only [applyAtS] <;> (try split) <;> first
    | with_reducible exact Replays.nil _ _
    | with_reducible exact unitResS_replays (setDataInnerS_replays _ _ _ _ _ _)
    | with_reducible exact unitResS_replays (listInsertAllS_replays _ _ _ _ _ _ _)
    | with_reducible exact setInsertAllS_replays _ _ _ _ _ _ _
    | with_reducible exact mapInsertAllS_replays _ _ _ _ _ _ _ _
    | with_reducible exact setRemoveS_replays _ _ _ _ _ _
    | with_reducible exact mapRemoveS_replays _ _ _ _ _ _ _
    | with_reducible exact unitResS_replays (strSetS_replays _ _ _ _ _)
    | with_reducible exact unitResS_replays (ulistInsertS_replays _ _ _ _ _ _ _ _ _)
    | with_reducible exact umapInsertS_replays _ _ _ _ _ _ _
    | with_reducible exact unitResS_replays (listRemoveRangeS_replays _ _ _ _ _ _ _)
    | with_reducible exact listPopS_replays _ _ _ _ _
    | with_reducible exact unitResS_replays (remSetLenS_replays _ _ _ _)
    | with_reducible exact unitResS_replays (ulistRemoveRangeS_replays _ _ _ _ _ _)
    | with_reducible exact ulistPopS_replays _ _ _ _
    | with_reducible exact unitResS_replays (ulistClearS_replays _ _ _ _)
    | (simp only [listClearS]
       with_reducible exact unitResS_replays (listRemoveRangeS_replays _ _ _ _ _ _ _))
    | inplace_replay

theorem replays_rem (c : Ctx)  (b : Nat) (op : Op) (m : Mem) :
    Replays m (applyAtS c .rem b op m) := by
  cases op with
  | sinsert x => first | (with_reducible exact sinsertS_replays ..) | (simp only [applyAtS]; inplace_replay)
  | minsert k x => first | (with_reducible exact minsertS_replays ..) | (simp only [applyAtS]; inplace_replay)
  | umremove k => first | (with_reducible exact umremoveS_replays ..) | (simp only [applyAtS]; inplace_replay)
  | mset k x => first | (with_reducible exact msetS_replays ..) | (simp only [applyAtS]; inplace_replay)
  | _ =>
   simp only [applyAtS] <;> (try split) <;> first
    | with_reducible exact Replays.nil _ _
    | with_reducible exact unitResS_replays (setDataInnerS_replays _ _ _ _ _ _)
    | with_reducible exact unitResS_replays (listInsertAllS_replays _ _ _ _ _ _ _)
    | with_reducible exact setInsertAllS_replays _ _ _ _ _ _ _
    | with_reducible exact mapInsertAllS_replays _ _ _ _ _ _ _ _
    | with_reducible exact setRemoveS_replays _ _ _ _ _ _
    | with_reducible exact mapRemoveS_replays _ _ _ _ _ _ _
    | with_reducible exact unitResS_replays (strSetS_replays _ _ _ _ _)
    | with_reducible exact unitResS_replays (ulistInsertS_replays _ _ _ _ _ _ _ _ _)
    | with_reducible exact umapInsertS_replays _ _ _ _ _ _ _
    | with_reducible exact unitResS_replays (listRemoveRangeS_replays _ _ _ _ _ _ _)
    | with_reducible exact listPopS_replays _ _ _ _ _
    | with_reducible exact unitResS_replays (remSetLenS_replays _ _ _ _)
    | with_reducible exact unitResS_replays (ulistRemoveRangeS_replays _ _ _ _ _ _)
    | with_reducible exact ulistPopS_replays _ _ _ _
    | with_reducible exact unitResS_replays (ulistClearS_replays _ _ _ _)
    | (simp only [listClearS]
       with_reducible exact unitResS_replays (listRemoveRangeS_replays _ _ _ _ _ _ _))
    | inplace_replay

theorem replays_ulist (c : Ctx) (e : Shape) (b : Nat) (op : Op) (m : Mem) :
    Replays m (applyAtS c (.ulist e) b op m) := by
  cases op with
  | sinsert x => first | (with_reducible exact sinsertS_replays ..) | (simp only [applyAtS]; inplace_replay)
  | minsert k x => first | (with_reducible exact minsertS_replays ..) | (simp only [applyAtS]; inplace_replay)
  | umremove k => first | (with_reducible exact umremoveS_replays ..) | (simp only [applyAtS]; inplace_replay)
  | mset k x => first | (with_reducible exact msetS_replays ..) | (simp only [applyAtS]; inplace_replay)
  | _ =>
   simp only [applyAtS] <;> (try split) <;> first
    | with_reducible exact Replays.nil _ _
    | with_reducible exact unitResS_replays (setDataInnerS_replays _ _ _ _ _ _)
    | with_reducible exact unitResS_replays (listInsertAllS_replays _ _ _ _ _ _ _)
    | with_reducible exact setInsertAllS_replays _ _ _ _ _ _ _
    | with_reducible exact mapInsertAllS_replays _ _ _ _ _ _ _ _
    | with_reducible exact setRemoveS_replays _ _ _ _ _ _
    | with_reducible exact mapRemoveS_replays _ _ _ _ _ _ _
    | with_reducible exact unitResS_replays (strSetS_replays _ _ _ _ _)
    | with_reducible exact unitResS_replays (ulistInsertS_replays _ _ _ _ _ _ _ _ _)
    | with_reducible exact umapInsertS_replays _ _ _ _ _ _ _
    | with_reducible exact unitResS_replays (listRemoveRangeS_replays _ _ _ _ _ _ _)
    | with_reducible exact listPopS_replays _ _ _ _ _
    | with_reducible exact unitResS_replays (remSetLenS_replays _ _ _ _)
    | with_reducible exact unitResS_replays (ulistRemoveRangeS_replays _ _ _ _ _ _)
    | with_reducible exact ulistPopS_replays _ _ _ _
    | with_reducible exact unitResS_replays (ulistClearS_replays _ _ _ _)
    | (simp only [listClearS]
       with_reducible exact unitResS_replays (listRemoveRangeS_replays _ _ _ _ _ _ _))
    | inplace_replay

theorem replays_umap (c : Ctx) (kw : Nat) (e : Shape) (b : Nat) (op : Op) (m : Mem) :
    Replays m (applyAtS c (.umap kw e) b op m) := by
  cases op with
  | sinsert x => first | (with_reducible exact sinsertS_replays ..) | (simp only [applyAtS]; inplace_replay)
  | minsert k x => first | (with_reducible exact minsertS_replays ..) | (simp only [applyAtS]; inplace_replay)
  | umremove k => first | (with_reducible exact umremoveS_replays ..) | (simp only [applyAtS]; inplace_replay)
  | mset k x => first | (with_reducible exact msetS_replays ..) | (simp only [applyAtS]; inplace_replay)
  | _ =>
   simp only [applyAtS] <;> (try split) <;> first
    | with_reducible exact Replays.nil _ _
    | with_reducible exact unitResS_replays (setDataInnerS_replays _ _ _ _ _ _)
    | with_reducible exact unitResS_replays (listInsertAllS_replays _ _ _ _ _ _ _)
    | with_reducible exact setInsertAllS_replays _ _ _ _ _ _ _
    | with_reducible exact mapInsertAllS_replays _ _ _ _ _ _ _ _
    | with_reducible exact setRemoveS_replays _ _ _ _ _ _
    | with_reducible exact mapRemoveS_replays _ _ _ _ _ _ _
    | with_reducible exact unitResS_replays (strSetS_replays _ _ _ _ _)
    | with_reducible exact unitResS_replays (ulistInsertS_replays _ _ _ _ _ _ _ _ _)
    | with_reducible exact umapInsertS_replays _ _ _ _ _ _ _
    | with_reducible exact unitResS_replays (listRemoveRangeS_replays _ _ _ _ _ _ _)
    | with_reducible exact listPopS_replays _ _ _ _ _
    | with_reducible exact unitResS_replays (remSetLenS_replays _ _ _ _)
    | with_reducible exact unitResS_replays (ulistRemoveRangeS_replays _ _ _ _ _ _)
    | with_reducible exact ulistPopS_replays _ _ _ _
    | with_reducible exact unitResS_replays (ulistClearS_replays _ _ _ _)
    | (simp only [listClearS]
       with_reducible exact unitResS_replays (listRemoveRangeS_replays _ _ _ _ _ _ _))
    | inplace_replay

theorem replays_struct (c : Ctx) (sized : List Fixed) (fs : List Shape) (b : Nat) (op : Op) (m : Mem) :
    Replays m (applyAtS c (.struct sized fs) b op m) := by
  cases op with
  | sinsert x => first | (with_reducible exact sinsertS_replays ..) | (simp only [applyAtS]; inplace_replay)
  | minsert k x => first | (with_reducible exact minsertS_replays ..) | (simp only [applyAtS]; inplace_replay)
  | umremove k => first | (with_reducible exact umremoveS_replays ..) | (simp only [applyAtS]; inplace_replay)
  | mset k x => first | (with_reducible exact msetS_replays ..) | (simp only [applyAtS]; inplace_replay)
  | _ =>
   simp only [applyAtS] <;> (try split) <;> first
    | with_reducible exact Replays.nil _ _
    | with_reducible exact unitResS_replays (setDataInnerS_replays _ _ _ _ _ _)
    | with_reducible exact unitResS_replays (listInsertAllS_replays _ _ _ _ _ _ _)
    | with_reducible exact setInsertAllS_replays _ _ _ _ _ _ _
    | with_reducible exact mapInsertAllS_replays _ _ _ _ _ _ _ _
    | with_reducible exact setRemoveS_replays _ _ _ _ _ _
    | with_reducible exact mapRemoveS_replays _ _ _ _ _ _ _
    | with_reducible exact unitResS_replays (strSetS_replays _ _ _ _ _)
    | with_reducible exact unitResS_replays (ulistInsertS_replays _ _ _ _ _ _ _ _ _)
    | with_reducible exact umapInsertS_replays _ _ _ _ _ _ _
    | with_reducible exact unitResS_replays (listRemoveRangeS_replays _ _ _ _ _ _ _)
    | with_reducible exact listPopS_replays _ _ _ _ _
    | with_reducible exact unitResS_replays (remSetLenS_replays _ _ _ _)
    | with_reducible exact unitResS_replays (ulistRemoveRangeS_replays _ _ _ _ _ _)
    | with_reducible exact ulistPopS_replays _ _ _ _
    | with_reducible exact unitResS_replays (ulistClearS_replays _ _ _ _)
    | (simp only [listClearS]
       with_reducible exact unitResS_replays (listRemoveRangeS_replays _ _ _ _ _ _ _))
    | inplace_replay

theorem replays_enum (c : Ctx) (ds : List Nat) (ps : List Shape) (b : Nat) (op : Op) (m : Mem) :
    Replays m (applyAtS c (.enum ds ps) b op m) := by
  cases op with
  | sinsert x => first | (with_reducible exact sinsertS_replays ..) | (simp only [applyAtS]; inplace_replay)
  | minsert k x => first | (with_reducible exact minsertS_replays ..) | (simp only [applyAtS]; inplace_replay)
  | umremove k => first | (with_reducible exact umremoveS_replays ..) | (simp only [applyAtS]; inplace_replay)
  | mset k x => first | (with_reducible exact msetS_replays ..) | (simp only [applyAtS]; inplace_replay)
  | _ =>
   simp only [applyAtS] <;> (try split) <;> first
    | with_reducible exact Replays.nil _ _
    | with_reducible exact unitResS_replays (setDataInnerS_replays _ _ _ _ _ _)
    | with_reducible exact unitResS_replays (listInsertAllS_replays _ _ _ _ _ _ _)
    | with_reducible exact setInsertAllS_replays _ _ _ _ _ _ _
    | with_reducible exact mapInsertAllS_replays _ _ _ _ _ _ _ _
    | with_reducible exact setRemoveS_replays _ _ _ _ _ _
    | with_reducible exact mapRemoveS_replays _ _ _ _ _ _ _
    | with_reducible exact unitResS_replays (strSetS_replays _ _ _ _ _)
    | with_reducible exact unitResS_replays (ulistInsertS_replays _ _ _ _ _ _ _ _ _)
    | with_reducible exact umapInsertS_replays _ _ _ _ _ _ _
    | with_reducible exact unitResS_replays (listRemoveRangeS_replays _ _ _ _ _ _ _)
    | with_reducible exact listPopS_replays _ _ _ _ _
    | with_reducible exact unitResS_replays (remSetLenS_replays _ _ _ _)
    | with_reducible exact unitResS_replays (ulistRemoveRangeS_replays _ _ _ _ _ _)
    | with_reducible exact ulistPopS_replays _ _ _ _
    | with_reducible exact unitResS_replays (ulistClearS_replays _ _ _ _)
    | (simp only [listClearS]
       with_reducible exact unitResS_replays (listRemoveRangeS_replays _ _ _ _ _ _ _))
    | inplace_replay

theorem replays_unit (c : Ctx)  (b : Nat) (op : Op) (m : Mem) :
    Replays m (applyAtS c .unit b op m) := by
  cases op with
  | sinsert x => first | (with_reducible exact sinsertS_replays ..) | (simp only [applyAtS]; inplace_replay)
  | minsert k x => first | (with_reducible exact minsertS_replays ..) | (simp only [applyAtS]; inplace_replay)
  | umremove k => first | (with_reducible exact umremoveS_replays ..) | (simp only [applyAtS]; inplace_replay)
  | mset k x => first | (with_reducible exact msetS_replays ..) | (simp only [applyAtS]; inplace_replay)
  | _ =>
   simp only [applyAtS] <;> (try split) <;> first
    | with_reducible exact Replays.nil _ _
    | with_reducible exact unitResS_replays (setDataInnerS_replays _ _ _ _ _ _)
    | with_reducible exact unitResS_replays (listInsertAllS_replays _ _ _ _ _ _ _)
    | with_reducible exact setInsertAllS_replays _ _ _ _ _ _ _
    | with_reducible exact mapInsertAllS_replays _ _ _ _ _ _ _ _
    | with_reducible exact setRemoveS_replays _ _ _ _ _ _
    | with_reducible exact mapRemoveS_replays _ _ _ _ _ _ _
    | with_reducible exact unitResS_replays (strSetS_replays _ _ _ _ _)
    | with_reducible exact unitResS_replays (ulistInsertS_replays _ _ _ _ _ _ _ _ _)
    | with_reducible exact umapInsertS_replays _ _ _ _ _ _ _
    | with_reducible exact unitResS_replays (listRemoveRangeS_replays _ _ _ _ _ _ _)
    | with_reducible exact listPopS_replays _ _ _ _ _
    | with_reducible exact unitResS_replays (remSetLenS_replays _ _ _ _)
    | with_reducible exact unitResS_replays (ulistRemoveRangeS_replays _ _ _ _ _ _)
    | with_reducible exact ulistPopS_replays _ _ _ _
    | with_reducible exact unitResS_replays (ulistClearS_replays _ _ _ _)
    | (simp only [listClearS]
       with_reducible exact unitResS_replays (listRemoveRangeS_replays _ _ _ _ _ _ _))
    | inplace_replay

theorem replays_disc (c : Ctx) (d : List Nat) (inner : Shape) (b : Nat) (op : Op) (m : Mem) :
    Replays m (applyAtS c (.disc d inner) b op m) := by
  cases op with
  | sinsert x => first | (with_reducible exact sinsertS_replays ..) | (simp only [applyAtS]; inplace_replay)
  | minsert k x => first | (with_reducible exact minsertS_replays ..) | (simp only [applyAtS]; inplace_replay)
  | umremove k => first | (with_reducible exact umremoveS_replays ..) | (simp only [applyAtS]; inplace_replay)
  | mset k x => first | (with_reducible exact msetS_replays ..) | (simp only [applyAtS]; inplace_replay)
  | _ =>
   simp only [applyAtS] <;> (try split) <;> first
    | with_reducible exact Replays.nil _ _
    | with_reducible exact unitResS_replays (setDataInnerS_replays _ _ _ _ _ _)
    | with_reducible exact unitResS_replays (listInsertAllS_replays _ _ _ _ _ _ _)
    | with_reducible exact setInsertAllS_replays _ _ _ _ _ _ _
    | with_reducible exact mapInsertAllS_replays _ _ _ _ _ _ _ _
    | with_reducible exact setRemoveS_replays _ _ _ _ _ _
    | with_reducible exact mapRemoveS_replays _ _ _ _ _ _ _
    | with_reducible exact unitResS_replays (strSetS_replays _ _ _ _ _)
    | with_reducible exact unitResS_replays (ulistInsertS_replays _ _ _ _ _ _ _ _ _)
    | with_reducible exact umapInsertS_replays _ _ _ _ _ _ _
    | with_reducible exact unitResS_replays (listRemoveRangeS_replays _ _ _ _ _ _ _)
    | with_reducible exact listPopS_replays _ _ _ _ _
    | with_reducible exact unitResS_replays (remSetLenS_replays _ _ _ _)
    | with_reducible exact unitResS_replays (ulistRemoveRangeS_replays _ _ _ _ _ _)
    | with_reducible exact ulistPopS_replays _ _ _ _
    | with_reducible exact unitResS_replays (ulistClearS_replays _ _ _ _)
    | (simp only [listClearS]
       with_reducible exact unitResS_replays (listRemoveRangeS_replays _ _ _ _ _ _ _))
    | inplace_replay

/-- **The complete event list determines the bytes**: for every op on ANY state, replaying the events of
the store-tracing op on the old bytes gives exactly the bytes the op returns. -/
theorem applyAtS_replays (c : Ctx) (t : Shape) (b : Nat) (op : Op) (m : Mem) :
    Replays m (applyAtS c t b op m) := by
  cases t with
  | fixed f => exact replays_fixed ..
  | list e lw => exact replays_list ..
  | set e lw => exact replays_set ..
  | map kw v lw => exact replays_map ..
  | str lw => exact replays_str ..
  | rem => exact replays_rem ..
  | ulist e => exact replays_ulist ..
  | umap kw e => exact replays_umap ..
  | struct sized fs => exact replays_struct ..
  | «enum» ds ps => exact replays_enum ..
  | unit => exact replays_unit ..
  | disc d inner => exact replays_disc ..

theorem applyOpS_replays (s : Shape) (abs : List Step) (op : Op) (m : Mem) :
    replayData m.bytes (applyOpS s abs op m).2 = (applyOpS s abs op m).1.1.bytes := by
  unfold applyOpS
  cases locate s abs 0 m.bytes with
  | error e => rfl
  | ok tb => obtain ⟨t, b⟩ := tb; exact applyAtS_replays ..

end Unsized.Machine
