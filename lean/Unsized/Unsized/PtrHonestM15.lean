import Unsized.PtrHonestM14
namespace Unsized.Ptr
open Common Unsized Unsized.Text Unsized.Machine Unsized.PtrT Unsized.PtrM

/-- Result of a line on an honest world. -/
def LineRes (s : Shape) (w : World) (r : World × Ans) : Prop :=
  match r.2 with
  | .bad => r.1 = w
  | .panic => False
  | .panicDrop => False
  | .res _ _ => ∃ v', PInv s r.1 v' ∧ r.1.a.mem.orig = w.a.mem.orig ∧ r.1.a.base = w.a.base ∧ r.1.b = w.b

theorem pinv_root {s : Shape} {w : World} {v : Val} (inv : PInv s w v) (R : PtrTree) (t : Shape) (u : Val) (T : PtrTree)
    (h1 : resolve s v w.a.cur = .ok (t, u)) (h2 : HonPath s v w.a.base w.a.cur R T)
    (h3 : Hon t u (w.a.base + offsetOf s v w.a.cur) T) : PInv s (w.set .A { w.a with root := R }) v := by
  refine ⟨pctx_root inv.ctx R, ?_, ?_⟩
  · simpa [World.set] using inv.chain
  · exact ⟨t, u, T, by simpa [World.set, PBuf.cur] using h1, by simpa [World.set, PBuf.cur] using h2,
      by simpa [World.set, PBuf.cur] using h3⟩

theorem execOp_hon {s : Shape} {w : World} {v : Val} (inv : PInv s w v) (p : List Step) (mk : Shape → Option Op)
    (hcov : ∀ sh u2 op, resolve s v (w.a.cur ++ p) = .ok (sh, u2) → mk sh = some op →
      Covered sh u2 op ∧ NodeOk s v (w.a.cur ++ p) sh u2 op w.a.mem.orig) :
    LineRes s w (execOp s w .A false p mk) := by
  obtain ⟨tc, uc, Tc, hrc, hpc, hTc⟩ := inv.hon
  have c := inv.ctx
  have gc : Good tc uc := (Focus.sub ⟨c.good, hrc, c.bytes⟩)
  obtain ⟨A, C, hA, henc, _⟩ := encode_split w.a.cur s v tc uc c.good hrc
  have hloc := locTree_honPath w.a.cur s v tc uc _ _ Tc c.good hrc hpc
  obtain ⟨hsubc, hrepc⟩ := honPath_nav w.a.cur s v tc uc _ _ Tc c.good hrc hpc
  have hwalk := walk_hon w .A (ownsOwn_A w) tc Tc p uc (w.a.base + offsetOf s v w.a.cur) A C gc
    (by have := c.bytes; simp only [World.get] at this ⊢; rw [this, henc])
    (by simp only [World.get]; rw [hA]) hTc
  unfold execOp
  simp only [World.get, curPtr, hloc]
  rcases hw : walk w false tc Tc p with ⟨Tc', out⟩
  rw [hw] at hwalk
  obtain ⟨R', hR', hp'⟩ := hrepc Tc'
  simp only [hR', Option.getD_some]
  cases out with
  | bad => simp [LineRes]
  | panic => simp only [WalkRes] at hwalk
  | ioob =>
    simp only [WalkRes] at hwalk
    simp only [LineRes]
    exact ⟨v, pinv_root inv R' tc uc Tc' hrc hp' hwalk, by simp [World.set], by simp [World.set], by simp [World.set]⟩
  | perr =>
    simp only [WalkRes] at hwalk
    simp only [LineRes]
    exact ⟨v, pinv_root inv R' tc uc Tc' hrc hp' hwalk, by simp [World.set], by simp [World.set], by simp [World.set]⟩
  | ok tp sh =>
    simp only [WalkRes] at hwalk
    obtain ⟨u2, T2, hr2, htp, hp2, hT2⟩ := hwalk
    simp only []
    cases hmk : mk sh with
    | none => simp [LineRes]
    | some op =>
      simp only []
      have hrfull : resolve s v (w.a.cur ++ p) = .ok (sh, u2) := by
        rw [resolve_append w.a.cur p s v tc uc hrc]; exact hr2
      obtain ⟨hcv, hno⟩ := hcov sh u2 op hrfull hmk
      have c' := pctx_root c R'
      have hpfull : HonPath s v w.a.base (w.a.cur ++ p) R' T2 :=
        honPath_append w.a.cur s v tc uc _ p R' Tc' T2 hrc hp' hp2
      have hoff := offsetOf_append w.a.cur p s v tc uc hrc
      have htpf : tpath s v w.a.cur ++ tp = tpath s v (w.a.cur ++ p) := by
        rw [tpath_append w.a.cur s v tc uc p hrc, htp]
      rw [htpf]
      have hstep := opAt_hon c' (w.a.cur ++ p) sh u2 hrfull T2
        (by simpa [World.set] using hpfull)
        (by simp only [World.set]; rw [hoff, ← Nat.add_assoc]; exact hT2) op hcv
        (by simpa [World.set] using hno)
      simp only [World.set] at hstep ⊢
      generalize opAt _ Which.A _ _ sh op = rr at hstep ⊢
      obtain ⟨w2, o⟩ := rr
      cases o with
      | bad => simp [LineRes]
      | panic => simp only [StepRes] at hstep
      | done res evs =>
        simp only [StepRes] at hstep
        obtain ⟨v', u', T', c2, hr', hp2', hT2', hlev, hbase, horig, hb, _, _, _⟩ := hstep
        simp only [LineRes]
        have hcur : w2.a.cur = w.a.cur := by simp only [PBuf.cur, hlev]
        obtain ⟨t1, u1, M, a1, a2, a3⟩ := honPath_close w.a.cur p s v' sh u' w2.a.base _ T' c2.good hr' hp2' hT2'
        exact ⟨v', ⟨c2, by rw [hlev]; exact inv.chain, ⟨t1, u1, M, by rw [hcur]; exact a1, by rw [hcur]; exact a2,
          by rw [hcur]; exact a3⟩⟩, horig, hbase, hb⟩


theorem chain_last (ls : List (List Step)) (h : ls.Pairwise (fun a b => a <+: b)) :
    ∀ l ∈ ls, l <+: ls.getLastD [] := by
  induction ls with
  | nil => intro l hl; cases hl
  | cons a r ih =>
    intro l hl
    rw [List.pairwise_cons] at h
    cases r with
    | nil =>
      simp only [List.mem_singleton] at hl; subst hl
      simp [List.getLastD]
    | cons b r' =>
      have hlast : (a :: b :: r').getLastD [] = (b :: r').getLastD [] := by simp [List.getLastD]
      rw [hlast]
      rcases List.mem_cons.1 hl with rfl | hl'
      · exact (h.1 _ (by
          have : (b :: r').getLastD [] ∈ b :: r' := by
            simp only [List.getLastD]
            exact List.getLast_mem _
          exact this))
      · exact ih h.2 l hl'

theorem execEnter_hon {s : Shape} {w : World} {v : Val} (inv : PInv s w v) (st : Step) :
    LineRes s w (execEnter s w .A false st) := by
  obtain ⟨tc, uc, Tc, hrc, hpc, hTc⟩ := inv.hon
  have c := inv.ctx
  have gc : Good tc uc := (Focus.sub ⟨c.good, hrc, c.bytes⟩)
  obtain ⟨A, C, hA, henc, _⟩ := encode_split w.a.cur s v tc uc c.good hrc
  have hloc := locTree_honPath w.a.cur s v tc uc _ _ Tc c.good hrc hpc
  obtain ⟨hsubc, hrepc⟩ := honPath_nav w.a.cur s v tc uc _ _ Tc c.good hrc hpc
  have hwalk := walk_hon w .A (ownsOwn_A w) tc Tc [st] uc (w.a.base + offsetOf s v w.a.cur) A C gc
    (by have := c.bytes; simp only [World.get] at this ⊢; rw [this, henc])
    (by simp only [World.get]; rw [hA]) hTc
  unfold execEnter
  simp only [World.get, curPtr, hloc]
  rcases hw : walk w false tc Tc [st] with ⟨Tc', out⟩
  rw [hw] at hwalk
  obtain ⟨R', hR', hp'⟩ := hrepc Tc'
  simp only [hR', Option.getD_some]
  cases out with
  | bad => simp [LineRes]
  | panic => simp only [WalkRes] at hwalk
  | ioob =>
    simp only [WalkRes] at hwalk
    simp only [LineRes]
    exact ⟨v, pinv_root inv R' tc uc Tc' hrc hp' hwalk, by simp [World.set], by simp [World.set], by simp [World.set]⟩
  | perr =>
    simp only [WalkRes] at hwalk
    simp only [LineRes]
    exact ⟨v, pinv_root inv R' tc uc Tc' hrc hp' hwalk, by simp [World.set], by simp [World.set], by simp [World.set]⟩
  | ok tp sh =>
    simp only [WalkRes] at hwalk
    obtain ⟨u2, T2, hr2, htp, hp2, hT2⟩ := hwalk
    have hrfull : resolve s v (w.a.cur ++ [st]) = .ok (sh, u2) := by
      rw [resolve_append w.a.cur [st] s v tc uc hrc]; exact hr2
    have hpfull : HonPath s v w.a.base (w.a.cur ++ [st]) R' T2 :=
      honPath_append w.a.cur s v tc uc _ [st] R' Tc' T2 hrc hp' hp2
    have hoff := offsetOf_append w.a.cur [st] s v tc uc hrc
    simp only [LineRes, World.set, World.get]
    have hcur' : (w.a.levels ++ [w.a.levels.getLastD [] ++ [st]]).getLastD [] = w.a.cur ++ [st] := by
      rw [List.getLastD_concat]; rfl
    refine ⟨v, ⟨?_, ?_, ⟨sh, u2, T2, ?_, ?_, ?_⟩⟩, by simp⟩
    · have := pctx_root c R'
      exact ⟨this.good, this.ok, this.nd, by simpa [World.set, World.get] using this.bytes,
        by simpa [World.set, World.get] using this.calm, ownsOwn_A _,
        ⟨by simpa [World.set, World.get] using this.far, by simpa [World.set, World.get] using this.big⟩⟩
    · simp only [PBuf.cur]
      rw [List.pairwise_append]
      refine ⟨inv.chain, by simp, ?_⟩
      intro a ha b hb
      simp only [List.mem_singleton] at hb; subst hb
      exact (chain_last _ inv.chain a ha).trans (List.prefix_append _ _)
    · simp only [PBuf.cur, hcur']; exact hrfull
    · simp only [PBuf.cur, hcur']; exact hpfull
    · simp only [PBuf.cur, hcur']; simp only [PBuf.cur] at hoff hT2; rw [hoff, ← Nat.add_assoc]; exact hT2


theorem root_hon {s : Shape} {w : World} {v : Val} (inv : PInv s w v) : Hon s v w.a.base w.a.root := by
  obtain ⟨tc, uc, Tc, hrc, hpc, hTc⟩ := inv.hon
  exact honPath_fill w.a.cur s v tc uc _ _ Tc inv.ctx.good hrc hpc hTc

/-- **`checkTop_passes`**: on an honest world the drop check / `debug_assert!` of the top wrapper accepts the
top pointer object. -/
theorem checkTop_inv {s : Shape} {w : World} {v : Val} (inv : PInv s w v) : checkTop w.a.rng w.a.root = true := by
  have := checkTop_hon inv.ctx w.a.root (by simpa [World.get] using root_hon inv)
  simpa [World.get] using this

theorem execLeave_hon {s : Shape} {w : World} {v : Val} (inv : PInv s w v) :
    LineRes s w (execLeave w .A) := by
  unfold execLeave
  simp only [World.get]
  by_cases hlen : w.a.levels.length ≤ 1
  · simp [hlen, LineRes]
  · simp only [hlen, if_false, LineRes, World.set]
    obtain ⟨tc, uc, Tc, hrc, hpc, hTc⟩ := inv.hon
    have c := inv.ctx
    -- the new innermost level is a prefix of the old one
    have hpre : w.a.levels.dropLast.getLastD [] <+: w.a.cur := by
      have hmem : w.a.levels.dropLast.getLastD [] ∈ w.a.levels := by
        have hne : w.a.levels.dropLast ≠ [] := by
          intro h
          have := congrArg List.length h
          simp only [List.length_dropLast, List.length_nil] at this; omega
        have : w.a.levels.dropLast.getLastD [] ∈ w.a.levels.dropLast := by
          cases hd : w.a.levels.dropLast with
          | nil => exact absurd hd hne
          | cons a r => simp only [List.getLastD]; exact List.getLast_mem _
        exact List.dropLast_subset _ this
      exact chain_last _ inv.chain _ hmem
    obtain ⟨q, hq⟩ := hpre
    have hrc' := hrc; rw [← hq] at hrc' hpc hTc
    obtain ⟨t1, u1, M, a1, a2, a3⟩ := honPath_close _ q s v tc uc w.a.base _ Tc c.good hrc' hpc hTc
    refine ⟨v, ⟨?_, ?_, ⟨t1, u1, M, ?_, ?_, ?_⟩⟩, by simp⟩
    · exact ⟨c.good, c.ok, c.nd, by simpa [World.get] using c.bytes, by simpa [World.get] using c.calm, ownsOwn_A _,
        ⟨by simpa [World.get] using c.far, by simpa [World.get] using c.big⟩⟩
    · exact inv.chain.sublist (List.dropLast_sublist _)
    · simpa [PBuf.cur] using a1
    · simpa [PBuf.cur] using a2
    · simpa [PBuf.cur] using a3

theorem execReborrow_hon {s : Shape} {w : World} {v : Val} (inv : PInv s w v) :
    LineRes s w (execReborrow s w .A) := by
  have c := inv.ctx
  have hchk := checkTop_inv inv
  have hget : getPtr s w.a.mem.bytes w.a.base = .ok (treeOf s v w.a.base, size s v) := by
    have := c.bytes; simp only [World.get] at this
    rw [this]
    have h := getPtr_encode s v [] w.a.base c.good (Or.inl rfl)
    rw [List.append_nil] at h; exact h
  unfold execReborrow
  simp only [World.get, hchk, Bool.not_true, Bool.false_eq_true, if_false, hget, LineRes, World.set]
  refine ⟨v, ⟨?_, by simp, ⟨s, v, treeOf s v w.a.base, ?_, ?_, ?_⟩⟩, by simp⟩
  · exact ⟨c.good, c.ok, c.nd, by simpa [World.get] using c.bytes, by simpa [World.get] using c.calm, ownsOwn_A _,
      ⟨by simpa [World.get] using c.far, by simpa [World.get] using c.big⟩⟩
  · simp [PBuf.cur, resolve]
  · simp only [PBuf.cur, List.getLastD, List.getLast_singleton, HonPath]
  · simp only [PBuf.cur, List.getLastD, List.getLast_singleton, offsetOf, Nat.add_zero]; exact hon_treeOf s v _

end Unsized.Ptr
