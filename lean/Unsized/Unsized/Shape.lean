import Common.Bytes
/-!
# Shapes of the unsized-type system (`star_frame::unsize`)

A `Shape` describes one Rust type built from the unsized containers; it is the model-side
counterpart of the s-expressions of `notes/unsized_grammar.md`.

* `Fixed`  — the "sized" types: every `CheckedBitPattern + NoUninit + Align1` value. Its owned value
  is just its bytes; what matters is the size and the *validity class* of every byte
  (`CheckedBitPattern::is_valid_bit_pattern`).
* `Shape`  — `Fixed` plus `List/Set/Map/UnsizedString/RemainingBytes/UnsizedList/UnsizedMap`,
  `#[unsized_type] struct` (sized prefix + unsized fields), `#[unsized_type] #[repr(u8)] enum`
  and the `AccountDiscriminant<T>` prefix wrapper.

Everything here is total and structurally recursive (helper functions over `List Fixed` /
`List Shape` in `mutual` blocks).
-/
namespace Unsized
open Common

/-- Fixed-size ("sized") shapes. `record` is the grammar's `(rec F1 … Fn)`: a `#[repr(C, packed)]`
struct of fixed fields (also the generated `…Sized` part of an `#[unsized_type]` struct). -/
inductive Fixed where
  /-- `(pod n)`: `n` bytes, every bit pattern valid (`u8`, `PackedValue<uN>`, `[u8; n]`, `Pubkey`…). -/
  | pod (n : Nat)
  /-- `(bool)`: one byte, valid iff `0` or `1`. -/
  | bool
  /-- `(cenum k)`: `#[repr(u8)]` unit enum with variants numbered `0..k-1`; valid iff `< k`. -/
  | cenum (k : Nat)
  /-- `(rec F1 … Fn)`: packed struct; valid iff every field is. -/
  | record (fs : List Fixed)
  /-- `(podd HEX)`: a pod-like user type (every bit pattern valid, `|HEX|` bytes) that is NOT
  `Zeroable` and has a hand-written `DefaultInitable` whose default value is the bytes `HEX`
  (e.g. `struct Version { major: u8 = 1, minor: u8 = 0 }` = `(podd 0100)`). Only where Rust allows a
  non-`Zeroable` fixed type: as an unsized type of its own and as a `List` element — not inside
  packed records / sized parts / `Set` / `Map` (`Fixed.zeroable`). -/
  | podd (dflt : List Nat)
  deriving Repr, Inhabited

mutual
/-- `size_of::<T>()`. -/
def Fixed.size : Fixed → Nat
  | .pod n => n
  | .bool => 1
  | .cenum _ => 1
  | .record fs => Fixed.sizeList fs
  | .podd d => d.length
def Fixed.sizeList : List Fixed → Nat
  | [] => 0
  | f :: fs => f.size + Fixed.sizeList fs
end

mutual
/-- `CheckedBitPattern::is_valid_bit_pattern` on the (exactly `size` many) bytes of the value.
The generated impl for packed structs is the conjunction over the fields in order
(`struct_impl.rs` 491–503, `map.rs` 44–51). -/
def Fixed.valid : Fixed → List Nat → Bool
  | .pod _, _ => true
  | .bool, bs => decide (bs.headD 0 < 2)
  | .cenum k, bs => decide (bs.headD 0 < k)
  | .record fs, bs => Fixed.validList fs bs
  | .podd _, _ => true
def Fixed.validList : List Fixed → List Nat → Bool
  | [], _ => true
  | f :: fs, bs => f.valid (bs.take f.size) && Fixed.validList fs (bs.drop f.size)
end

/-- `T: Zeroable` (the blanket `DefaultInitable` then yields the all-zero value). -/
def Fixed.zeroable : Fixed → Bool
  | .podd _ => false
  | _ => true

/-- The bytes `UnsizedInit<DefaultInit>` writes for a fixed type: `T::default_init()` — zeroes for
every `Zeroable` type (blanket impl, `init.rs` 30–37), the hand-written default for `podd`. -/
def Fixed.dflt : Fixed → List Nat
  | .podd d => d
  | .pod n => List.replicate n 0
  | .bool => List.replicate 1 0
  | .cenum _ => List.replicate 1 0
  | .record fs => List.replicate (Fixed.sizeList fs) 0

@[simp] theorem Fixed.dflt_pod (n : Nat) : (Fixed.pod n).dflt = List.replicate n 0 := rfl
@[simp] theorem Fixed.dflt_bool : Fixed.bool.dflt = List.replicate 1 0 := rfl
@[simp] theorem Fixed.dflt_cenum (k : Nat) : (Fixed.cenum k).dflt = List.replicate 1 0 := rfl
@[simp] theorem Fixed.dflt_record (fs : List Fixed) :
    (Fixed.record fs).dflt = List.replicate (Fixed.sizeList fs) 0 := rfl
@[simp] theorem Fixed.dflt_podd (d : List Nat) : (Fixed.podd d).dflt = d := rfl

theorem Fixed.dflt_length (f : Fixed) : f.dflt.length = f.size := by
  cases f <;> simp [Fixed.size]

mutual
/-- Well-formed fixed shapes: the default value is valid (every `cenum` has at least one variant),
`podd` defaults are bytes, and packed records only contain `Zeroable` fields. -/
def Fixed.okF : Fixed → Bool
  | .pod _ => true
  | .bool => true
  | .cenum k => decide (0 < k ∧ k ≤ 256)
  | .record fs => Fixed.okList fs
  | .podd d => decide (BytesWF d)
def Fixed.okList : List Fixed → Bool
  | [] => true
  | f :: fs => f.okF && f.zeroable && Fixed.okList fs
end

/-- Unsized shapes. Widths are in bytes. -/
inductive Shape where
  /-- A fixed shape used as an unsized type (blanket impl in `impls/checked.rs`). -/
  | fixed (f : Fixed)
  /-- `(list ELEM LW)`: `List<T, L>`, `LW = size_of::<L>()`: `le(LW,count) ++ elems`. -/
  | list (elem : Fixed) (lw : Nat)
  /-- `(set ELEM LW)`: `Set<T, L>`; a `List` kept strictly sorted; elements are compared as unsigned
  little-endian integers (`rdLE`). -/
  | set (elem : Fixed) (lw : Nat)
  /-- `(map KW VAL LW)`: `Map<K, V, L>` = `List<ListItemSized<K,V>, L>` sorted by the `KW`-byte
  unsigned LE key. An entry is `key ++ val`. -/
  | map (kw : Nat) (val : Fixed) (lw : Nat)
  /-- `(str LW)`: `UnsizedString<L>` = `List<u8, L>` that must hold UTF-8. -/
  | str (lw : Nat)
  /-- `(rem)`: `RemainingBytes` — all remaining bytes (the only "ZST-status" type). -/
  | rem
  /-- `(ulist ELEM)`: `UnsizedList<T>` (offset entries `PackedValue<u32>`):
  `le32 unsized_size ++ le32 len ++ le32 offset* ++ le32 len ++ elems`. -/
  | ulist (elem : Shape)
  /-- `(umap KW ELEM)`: `UnsizedMap<K, V>` = `UnsizedList<V, OrdOffset<K>>`; offset entry is
  `le32 offset ++ key` (offset FIRST, `unsized_map.rs` 21–29), sorted by key. -/
  | umap (kw : Nat) (elem : Shape)
  /-- `(struct SIZED F1 … Fn)`: `#[unsized_type] struct`; `sized` lists the leading fixed fields
  (`[]` = no sized part, so no `…Sized` struct is generated), `fields` the `#[unsized_start]` ones. -/
  | struct (sized : List Fixed) (fields : List Shape)
  /-- `(enum (D1 P1) … (Dk Pk))`: `#[unsized_type] #[repr(u8)] enum`. `discs[i]` is the discriminant
  byte of variant `i`, `payloads[i]` its payload shape (`Shape.unit` for a unit variant). The two
  lists have equal length (`Shape.ok`). The `#[default_init]` variant is variant 0 by convention. -/
  | enum (discs : List Nat) (payloads : List Shape)
  /-- Payload of a unit variant: zero bytes, value `Val.unit`. Only used inside `enum`. -/
  | unit
  /-- `AccountDiscriminant<T>`: the program-account discriminant bytes `d`, then `T`. Top level only. -/
  | disc (d : List Nat) (inner : Shape)
  deriving Repr, Inhabited

namespace Shape

/-- Width of one offset-table entry of `UnsizedList<_, C>`: `size_of::<C>()`. -/
def entryW (kw : Nat) : Nat := 4 + kw

/-- `2^64`: `usize::MAX + 1` on the (64-bit) targets. -/
def usizeLim : Nat := 18446744073709551616
/-- `2^32`. -/
def u32Lim : Nat := 4294967296

mutual
/-- `!ZST_STATUS`: the type ends in a `RemainingBytes` (so it may only stand in tail position).
`checked.rs` 68 (`size_of != 0`), `list.rs` 354, `remaining_bytes.rs` 73, `unsized_list.rs` 532,
`struct_impl.rs` (last field), `enum_impl.rs` (conjunction over payloads), `account.rs` 164. -/
def zst : Shape → Bool
  | .fixed f => f.size == 0
  | .list _ lw => lw == 0
  | .set _ lw => lw == 0
  | .map _ _ lw => lw == 0
  | .str lw => lw == 0
  | .rem => true
  | .ulist _ => false
  | .umap _ _ => false
  | .struct _ fields => zstLast false fields
  | .enum _ ps => zstAny ps
  | .unit => false
  | .disc _ inner => zst inner
/-- ZST status of the last of the fields (`dflt` when there is none). -/
def zstLast : Bool → List Shape → Bool
  | dflt, [] => dflt
  | _, [f] => zst f
  | dflt, _ :: f :: fs => zstLast dflt (f :: fs)
def zstAny : List Shape → Bool
  | [] => false
  | p :: ps => zst p || zstAny ps
end

/-- Admissible length-prefix widths (`u8/u16/u32/u64`). -/
def lenW (lw : Nat) : Bool := lw == 1 || lw == 2 || lw == 4 || lw == 8

mutual
/-- The shapes the Rust type system accepts (and the harness family uses): legal widths,
non-zero-size elements, `rem` only in tail position (the compile-time `ZST_STATUS` checks),
distinct discriminant bytes, `unit` only as an enum payload (`inEnum`), `disc` only at top
(`top`). All theorems that need well-formed shapes assume `ok`. -/
def okAux : (top inEnum : Bool) → Shape → Bool
  | _, _, .fixed f => f.okF && decide (0 < f.size)
  | _, _, .list e lw => e.okF && decide (0 < e.size) && lenW lw
  | _, _, .set e lw => e.okF && e.zeroable && decide (0 < e.size) && lenW lw
  | _, _, .map kw v lw => v.okF && v.zeroable && decide (0 < kw) && lenW lw
  | _, _, .str lw => lenW lw
  | _, _, .rem => true
  | _, _, .ulist e => okAux false false e && !zst e
  | _, _, .umap kw e => decide (0 < kw) && okAux false false e && !zst e
  | _, _, .struct sized fields =>
      Fixed.okList sized && (sized.isEmpty || decide (0 < Fixed.sizeList sized))
        && !fields.isEmpty && okFields fields
  | _, _, .enum ds ps =>
      ds.length == ps.length && !ds.isEmpty && ds.all (fun d => decide (d < 256)) && ds.Nodup
        && okPayloads ps
  | _, inEnum, .unit => inEnum
  | top, _, .disc d inner => top && !d.isEmpty && d.all (fun b => decide (b < 256))
      && okAux false false inner
/-- Every field ok, and every field but the last is not ZST-status. -/
def okFields : List Shape → Bool
  | [] => true
  | [f] => okAux false false f
  | f :: g :: fs => okAux false false f && !zst f && okFields (g :: fs)
def okPayloads : List Shape → Bool
  | [] => true
  | p :: ps => okAux false true p && okPayloads ps
end

/-- Well-formed top-level shape. -/
def ok (s : Shape) : Bool := okAux true false s

end Shape
end Unsized
