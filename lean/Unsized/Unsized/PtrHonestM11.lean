import Unsized.PtrHonestM10
namespace Unsized.Ptr
open Common Unsized Unsized.Text Unsized.Machine Unsized.PtrT Unsized.PtrM

theorem tpath_subst (p : List Step) : ∀ (s : Shape) (v : Val) (t : Shape) (u u' : Val),
    resolve s v p = .ok (t, u) → tpath s (subst s v p u') p = tpath s v p := by
  induction p with
  | nil => intro s v t u u' h; simp [tpath]
  | cons st p ih =>
    intro s v t u u' h
    simp only [resolve] at h
    cases h1 : resolve1 s v st with
    | error e => simp [h1] at h
    | ok tu =>
      obtain ⟨t1, u1⟩ := tu
      simp only [h1] at h
      simp only [subst, h1, tpath, resolve1_subst1 s v st t1 u1 _ h1, ih t1 u1 t u u' h]

/-- `set_data_inner` parses the new pointer from exactly the bytes it wrote. -/
theorem setDataLen_spec (t : Shape) (u u' : Val) (op : Op) (r : Ret) (n : Nat)
    (hn : setDataLen t op = some n) (hs : Spec.applyNode t u op = .ok (u', r)) : n = (encode t u').length := by
  cases op <;> simp only [setDataLen, Option.some.injEq] at hn <;> try (cases hn)
  · -- replace

    simp only [Spec.applyNode] at hs
    split at hs
    · cases hs; rfl
    · cases hs
  · -- reset

    simp only [Spec.applyNode] at hs
    split at hs
    · rename_i hi
      cases hs
      rw [(initP_all t .default hi).1]
    · cases hs
  · -- setVariant

    cases t <;> cases u <;> simp only [Spec.applyNode] at hs <;> try (cases hs)
    split at hs
    · rename_i hi
      cases hs
      rw [(initP_all _ _ hi.2).1]
    · cases hs

def leafy : Shape → Bool
  | .fixed _ | .list _ _ | .set _ _ | .map _ _ _ | .str _ | .rem => true
  | _ => false

theorem hon_leafy (t : Shape) (u u' : Val) (B : Nat) (T : PtrTree) (h : leafy t = true) (hT : Hon t u B T) :
    T = treeOf t u' B ∧ Hon t u' B T := by
  cases t <;> simp [leafy] at h <;> simp only [Hon] at hT ⊢ <;> subst hT <;> exact ⟨rfl, rfl⟩

theorem getPtr_leafy (t : Shape) (u : Val) (bs : List Nat) (B : Nat) (fresh : PtrTree) (k : Nat) (h : leafy t = true)
    (hg : getPtr t bs B = .ok (fresh, k)) : fresh = treeOf t u B := by
  cases t <;> simp [leafy] at h <;> simp only [getPtr] at hg
  all_goals first
    | (split at hg
       · cases hg
       · simp only [Except.ok.injEq, Prod.mk.injEq] at hg; exact hg.1.symm)
    | (simp only [Except.ok.injEq, Prod.mk.injEq] at hg; exact hg.1.symm)

theorem onList_other (sh : Shape) (t : PtrTree) (f : PtrTree → PtrTree) (h1 : ∀ e, sh ≠ .ulist e)
    (h2 : ∀ kw e, sh ≠ .umap kw e) : onList sh t f = t := by
  unfold onList
  split
  · exact absurd rfl (h1 _)
  · exact absurd rfl (h2 _ _)
  · rfl

theorem preOf_other (sh : Shape) (len : Nat) (found : Option Found) (op : Op) (h1 : ∀ e, sh ≠ .ulist e)
    (h2 : ∀ kw e, sh ≠ .umap kw e) : preOf sh len found op = .none ∨ preOf sh len found op = .setData := by
  cases op <;> unfold preOf <;> (try split) <;> (try split) <;> first
    | exact Or.inl rfl
    | exact Or.inr rfl
    | exact absurd rfl (h1 _)
    | exact absurd rfl (h2 _ _)

/-- Reading the buffer `A` of the world after the op. -/
theorem read_A (w : World) (p : PBuf) (addr n : Nat) (h1 : p.base ≤ addr) (h2 : addr ≤ p.base + p.mem.bytes.length) :
    (w.set .A p).read addr n = ((p.mem.bytes.drop (addr - p.base)).take n) :=
  world_read (w.set .A p) .A (ownsOwn_A _) addr n h1 h2

/-- The fresh `get_ptr` of the node after `set_data_inner`, on the new canonical bytes. -/
theorem fresh_after (s : Shape) (v' : Val) (π : List Step) (t : Shape) (u' : Val) (g' : Good s v')
    (hres : resolve s v' π = .ok (t, u')) (w : World) (p : PBuf) (hb : p.mem.bytes = encode s v') :
    getPtr t ((w.set .A p).read (p.base + offsetOf s v' π) (encode t u').length) (p.base + offsetOf s v' π)
      = .ok (treeOf t u' (p.base + offsetOf s v' π), size t u') := by
  obtain ⟨A, C, hA, henc, _⟩ := encode_split π s v' t u' g' hres
  have hle := offsetOf_le π s v' t u' g' hres
  have gt : Good t u' := (Focus.sub (m := p.mem) ⟨g', hres, hb⟩)
  rw [read_A w p _ _ (by omega) (by rw [hb]; omega)]
  have : p.base + offsetOf s v' π - p.base = A.length := by omega
  rw [this, hb, henc, List.append_assoc, List.drop_append_of_le_length (Nat.le_refl _), List.drop_length,
    List.nil_append, List.take_append_of_le_length (Nat.le_refl _), List.take_length]
  have := getPtr_encode t u' [] (p.base + offsetOf s v' π) gt (Or.inl rfl)
  simpa using this

end Unsized.Ptr
