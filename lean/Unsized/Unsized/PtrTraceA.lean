import Unsized.AccessLemmasBounds
/-!
# What the events of one (non-composite) traced op look like: at most one `notify`

`ESpec m src evs`: either no `resize_notification` at all, or exactly one `notify src ±amt snap`, preceded
by no other notification and followed by neither a notification nor a `call`; the snapshot agrees with the
bytes before the op on everything before `src` (the top wrapper only moves bytes at or after the insertion
point), and the data length after the events is the old one `±amt`.
-/
namespace Unsized.Ptr
open Common Unsized Unsized.Text Unsized.Machine

def isNotify : Ev → Bool
  | .notify _ _ _ _ => true
  | _ => false
def isCall : Ev → Bool
  | .call => true
  | _ => false
def isRealloc : Ev → Bool
  | .realloc _ _ _ => true
  | _ => false

def NoNotify (evs : List Ev) : Prop := ∀ e ∈ evs, isNotify e = false
/-- only `move`s (and whatever else is neither a notification, a call nor a realloc) -/
def Inert (evs : List Ev) : Prop := ∀ e ∈ evs, isNotify e = false ∧ isCall e = false ∧ isRealloc e = false

def ESpec (m : Mem) (src : Nat) (evs : List Ev) : Prop :=
(NoNotify evs ∧ lenAfter m.bytes.length evs = m.bytes.length) ∨ ∃ neg amt pre snap post, evs = pre ++ Ev.notify src neg amt snap :: post ∧ NoNotify pre
    ∧ Inert post ∧ 0 < amt ∧ (neg = true → amt ≤ m.bytes.length) ∧ snap.take src = m.bytes.take src
    ∧ lenAfter m.bytes.length evs = applyDelta neg amt m.bytes.length

theorem noNotify_nil : NoNotify [] := fun _ h => by cases h
theorem inert_nil : Inert [] := fun _ h => by cases h

theorem NoNotify.append {a b : List Ev} (ha : NoNotify a) (hb : NoNotify b) : NoNotify (a ++ b) := by
  intro e he; rcases List.mem_append.1 he with h | h
  · exact ha e h
  · exact hb e h

theorem Inert.noNotify {a : List Ev} (h : Inert a) : NoNotify a := fun e he => (h e he).1

theorem Inert.append {a b : List Ev} (ha : Inert a) (hb : Inert b) : Inert (a ++ b) := by
  intro e he; rcases List.mem_append.1 he with h | h
  · exact ha e h
  · exact hb e h

theorem lenAfter_inert (evs : List Ev) (h : Inert evs) : ∀ len, lenAfter len evs = len := by
  induction evs with
  | nil => intro len; rfl
  | cons e es ih =>
    intro len
    have he := (h e List.mem_cons_self).2.2
    have := ih (fun x hx => h x (List.mem_cons_of_mem _ hx)) len
    cases e <;> simp [lenAfter, isRealloc] at he ⊢ <;> exact this

theorem ESpec.nil (m : Mem) (src : Nat) : ESpec m src [] := Or.inl ⟨noNotify_nil, rfl⟩

/-- Inert events (table `memmove`s) after the op's resize. -/
theorem ESpec.append_inert {m : Mem} {src : Nat} {evs post : List Ev} (h : ESpec m src evs) (hp : Inert post) :
    ESpec m src (evs ++ post) := by
  rcases h with ⟨h, hl⟩ | ⟨neg, amt, pre, snap, post0, rfl, h1, h2, h3, h4, h5, h6⟩
  · exact Or.inl ⟨h.append hp.noNotify, by rw [lenAfter_append, lenAfter_inert post hp]; exact hl⟩
  · refine Or.inr ⟨neg, amt, pre, snap, post0 ++ post, by simp, h1, h2.append hp, h3, h4, h5, ?_⟩
    rw [lenAfter_append, lenAfter_inert post hp]; exact h6

/-- Inert events before the resize, performed on bytes that agree before `src` and have the same length. -/
theorem ESpec.prepend_inert {m m' : Mem} {src : Nat} {evs pre0 : List Ev} (h : ESpec m' src evs) (hp : Inert pre0)
    (htk : m'.bytes.take src = m.bytes.take src) (hlen : m'.bytes.length = m.bytes.length) :
    ESpec m src (pre0 ++ evs) := by
  rcases h with ⟨h, hl⟩ | ⟨neg, amt, pre, snap, post0, rfl, h1, h2, h3, h4, h5, h6⟩
  · exact Or.inl ⟨hp.noNotify.append h, by rw [lenAfter_append, lenAfter_inert pre0 hp, ← hlen]; exact hl⟩
  · refine Or.inr ⟨neg, amt, pre0 ++ pre, snap, post0, by simp, hp.noNotify.append h1, h2, h3, ?_, ?_, ?_⟩
    · rw [← hlen]; exact h4
    · rw [h5, htk]
    · rw [lenAfter_append, lenAfter_inert pre0 hp, ← hlen]; exact h6

theorem addBytesEvs_noNotify (m : Mem) (start amount : Nat) : NoNotify (addBytesEvs m start amount) := by
  unfold addBytesEvs
  intro e he
  split at he <;> (try split at he) <;> (try split at he) <;> (try split at he) <;>
    simp only [List.mem_cons, List.mem_singleton, List.not_mem_nil, or_false] at he <;>
    (rcases he with rfl | rfl | rfl) <;> rfl

theorem removeBytesEvs_noNotify (m : Mem) (start stop : Nat) : NoNotify (removeBytesEvs m start stop) := by
  unfold removeBytesEvs
  intro e he
  split at he <;> (try split at he) <;> (try split at he) <;> (try split at he) <;> (try split at he) <;>
    simp only [List.mem_cons, List.mem_singleton, List.not_mem_nil, or_false] at he <;>
    (rcases he with rfl | rfl | rfl) <;> rfl

theorem addBytesRaw_take (bs : List Nat) (start amount src : Nat) (h1 : src ≤ start) (h2 : start ≤ bs.length) :
    (addBytesRaw bs start amount).take src = bs.take src := by
  unfold addBytesRaw
  rw [List.append_assoc, List.take_append_of_le_length (by simp; omega), List.take_take]
  congr 1; omega

theorem removeBytesRaw_take (bs : List Nat) (start stop src : Nat) (h1 : src ≤ start) (h2 : start ≤ bs.length) :
    (removeBytesRaw bs start stop).take src = bs.take src := by
  unfold removeBytesRaw
  rw [List.take_append_of_le_length (by simp; omega), List.take_take]
  congr 1; omega

theorem addBytes_bytes (m m0 : Mem) (start amount : Nat) (h0 : m.addBytes start amount = (m0, .ok ()))
    (hamt : amount ≠ 0) : m0.bytes = addBytesRaw m.bytes start amount := by
  unfold Mem.addBytes at h0
  by_cases a1 : m.bytes.length < start
  · simp [a1] at h0
  · by_cases a2 : m.grows + 1 ∈ m.refuse
    · simp [a1, hamt, a2] at h0
    · by_cases a3 : m.orig + maxIncrease < m.bytes.length + amount
      · simp [a1, hamt, a2, a3] at h0
      · simp [a1, hamt, a2, a3] at h0
        rw [← h0]

theorem addBytesEvs_err (m m0 : Mem) (start amount : Nat) (e : Err) (h0 : m.addBytes start amount = (m0, .error e)) :
    ∀ len, lenAfter len (addBytesEvs m start amount) = len := by
  intro len
  unfold Mem.addBytes at h0
  unfold addBytesEvs
  by_cases a1 : m.bytes.length < start
  · simp [a1, lenAfter]
  · by_cases a0 : amount = 0
    · simp [a1, a0, lenAfter]
    · by_cases a2 : m.grows + 1 ∈ m.refuse
      · simp [a1, a0, a2, lenAfter]
      · by_cases a3 : m.orig + maxIncrease < m.bytes.length + amount
        · simp [a1, a0, a2, a3, lenAfter]
        · simp [a1, a0, a2, a3] at h0

theorem removeBytesEvs_err (m m0 : Mem) (start stop : Nat) (e : Err) (h0 : m.removeBytes start stop = (m0, .error e)) :
    ∀ len, lenAfter len (removeBytesEvs m start stop) = len := by
  intro len
  unfold Mem.removeBytes at h0
  unfold removeBytesEvs
  by_cases a1 : m.bytes.length < start
  · simp [a1, lenAfter]
  · by_cases a2 : stop < start
    · simp [a1, a2, lenAfter]
    · by_cases a3 : m.bytes.length < stop
      · simp [a1, a2, a3, lenAfter]
      · by_cases a4 : stop = start
        · simp [a1, a2, a3, a4] at h0
        · simp [a1, a2, a3, a4] at h0

theorem removeBytesEvs_eq (m : Mem) (start : Nat) : ∀ len, lenAfter len (removeBytesEvs m start start) = len := by
  intro len
  unfold removeBytesEvs
  by_cases a1 : m.bytes.length < start
  · simp [a1, lenAfter]
  · simp [a1, lenAfter]

theorem addBytesNT_espec (m : Mem) (c : Ctx) (src start amount : Nat) (hs : src ≤ start) :
    ESpec m src (m.addBytesNT c src start amount).2 := by
  unfold Mem.addBytesNT Mem.addBytesT
  rcases h0 : m.addBytes start amount with ⟨m0, r⟩
  cases r with
  | error e => exact Or.inl ⟨addBytesEvs_noNotify m start amount, addBytesEvs_err m m0 start amount e h0 _⟩
  | ok u =>
    cases u
    obtain ⟨h1, h2, _, _, h5⟩ := addBytes_ok m m0 start amount h0
    simp only []
    split
    · rename_i hz
      exact Or.inl ⟨addBytesEvs_noNotify m start amount, by rw [h5]; simp [hz]⟩
    · rename_i hamt
      have hbytes : m0.bytes = addBytesRaw m.bytes start amount := addBytes_bytes m m0 start amount h0 hamt
      have key : ESpec m src (addBytesEvs m start amount ++ [Ev.notify src false amount m0.bytes]) := by
        refine Or.inr ⟨false, amount, _, m0.bytes, [], rfl, addBytesEvs_noNotify m start amount, inert_nil,
          by omega, (by intro h; cases h), ?_, ?_⟩
        · rw [hbytes]; exact addBytesRaw_take _ _ _ _ hs h1
        · rw [lenAfter_notify, h5]; simp [hamt, applyDelta]
      split <;> exact key

theorem removeBytes_facts (m m0 : Mem) (start stop : Nat) (h0 : m.removeBytes start stop = (m0, .ok ()))
    (hne : stop ≠ start) : start ≤ m.bytes.length ∧ start < stop ∧ stop ≤ m.bytes.length
      ∧ m0.bytes = removeBytesRaw m.bytes start stop
      ∧ ∀ len, lenAfter len (removeBytesEvs m start stop) = m.bytes.length - (stop - start) := by
  unfold Mem.removeBytes at h0
  unfold removeBytesEvs
  by_cases a1 : m.bytes.length < start
  · simp [a1] at h0
  · by_cases a2 : stop < start
    · simp [a1, a2] at h0
    · by_cases a3 : m.bytes.length < stop
      · simp [a1, a2, a3] at h0
      · simp [a1, a2, a3, hne] at h0
        refine ⟨by omega, by omega, by omega, by rw [← h0], fun len => ?_⟩
        simp only [a1, a2, a3, hne, if_false]
        split <;> simp [lenAfter]

theorem removeBytesNT_espec (m : Mem) (c : Ctx) (src start stop : Nat) (hs : src ≤ start) :
    ESpec m src (m.removeBytesNT c src start stop).2 := by
  unfold Mem.removeBytesNT Mem.removeBytesT
  rcases h0 : m.removeBytes start stop with ⟨m0, r⟩
  cases r with
  | error e => exact Or.inl ⟨removeBytesEvs_noNotify m start stop, removeBytesEvs_err m m0 start stop e h0 _⟩
  | ok u =>
    cases u
    simp only []
    split
    · rename_i hz
      exact Or.inl ⟨removeBytesEvs_noNotify m start stop, by rw [hz]; exact removeBytesEvs_eq m start _⟩
    · rename_i hne
      obtain ⟨h1, h2, h3, hbytes, h5⟩ := removeBytes_facts m m0 start stop h0 hne
      have key : ESpec m src (removeBytesEvs m start stop ++ [Ev.notify src true (stop - start) m0.bytes]) := by
        refine Or.inr ⟨true, stop - start, _, m0.bytes, [], rfl, removeBytesEvs_noNotify m start stop, inert_nil,
          by omega, by intro _; omega, ?_, ?_⟩
        · rw [hbytes]; exact removeBytesRaw_take _ _ _ _ hs h1
        · rw [lenAfter_notify, h5]; simp [applyDelta]
      split <;> exact key

end Unsized.Ptr
