import Unsized.PtrTree
import Unsized.CodecLemmas
/-!
# Lemmas about pointer trees: induction principle, `getPtr` vs `extent`, what `check_pointers` guarantees
-/
namespace Unsized.PtrT
open Common Unsized

/-- Induction over a pointer tree together with its `Option` / `List` occurrences. -/
theorem PtrTree.induct3 {P : PtrTree → Prop} {PO : Option PtrTree → Prop} {PL : List PtrTree → Prop}
    (leaf : ∀ k a, P (.leaf k a))
    (ulist : ∀ cw a len lo hi inner pmb, PO inner → P (.ulist cw a len lo hi inner pmb))
    (node : ∀ ks, PL ks → P (.node ks))
    (start : ∀ a idx p, PO p → P (.start a idx p))
    (onone : PO none) (osome : ∀ t, P t → PO (some t))
    (lnil : PL []) (lcons : ∀ t ts, P t → PL ts → PL (t :: ts)) :
    (∀ t, P t) ∧ (∀ o, PO o) ∧ (∀ l, PL l) := by
  have hP : ∀ t, P t := fun t =>
    PtrTree.rec (motive_1 := P) (motive_2 := PO) (motive_3 := PL)
      leaf (fun cw a len lo hi inner pmb ih => ulist cw a len lo hi inner pmb ih)
      (fun ks ih => node ks ih) (fun a idx p ih => start a idx p ih)
      onone (fun t ih => osome t ih) lnil (fun t ts ih1 ih2 => lcons t ts ih1 ih2) t
  refine ⟨hP, ?_, ?_⟩
  · intro o
    cases o with
    | none => exact onone
    | some t => exact osome t (hP t)
  · intro l
    induction l with
    | nil => exact lnil
    | cons t ts ih => exact lcons t ts (hP t) ih

/-! ## `getPtr` consumes exactly what `extent` says -/

theorem getPtr_extent_all (s : Shape) :
    (∀ bs base, (getPtr s bs base).map (·.2) = extent s bs) := by
  induction s using Shape.induct' with
  | fixed f => intro bs base; simp only [getPtr, extent]; cases extentFixed f bs <;> rfl
  | list e lw => intro bs base; simp only [getPtr, extent]; cases extentList e.size lw bs <;> rfl
  | set e lw => intro bs base; simp only [getPtr, extent]; cases extentList e.size lw bs <;> rfl
  | map kw v lw => intro bs base; simp only [getPtr, extent]; cases extentList (kw + v.size) lw bs <;> rfl
  | str lw => intro bs base; simp only [getPtr, extent]; cases extentList 1 lw bs <;> rfl
  | rem => intro bs base; rfl
  | ulist e _ => intro bs base; simp only [getPtr, extent]; cases extentUlist 4 bs <;> rfl
  | umap kw e _ => intro bs base; simp only [getPtr, extent]; cases extentUlist (Shape.entryW kw) bs <;> rfl
  | unit => intro bs base; rfl
  | disc d inner ih =>
    intro bs base
    simp only [getPtr, extent]
    split
    · have := ih (bs.drop d.length) (base + d.length)
      cases h1 : getPtr inner (List.drop d.length bs) (base + d.length) with
      | error e => rw [h1] at this; simp [Except.map] at this; rw [← this]; rfl
      | ok tn => rw [h1] at this; simp [Except.map] at this; rw [← this]; rfl
    · rfl
  | struct sized fs ih =>
    have hf : ∀ (fs : List Shape), (∀ f ∈ fs, ∀ bs base, (getPtr f bs base).map (·.2) = extent f bs) →
        ∀ bs base, (getPtrFields fs bs base).map (·.2) = extentFields fs bs := by
      intro fs
      induction fs with
      | nil => intro _ bs base; rfl
      | cons f fs ihf =>
        intro h bs base
        simp only [getPtrFields, extentFields]
        have h1 := h f (by simp) bs base
        cases hg : getPtr f bs base with
        | error e => rw [hg] at h1; simp [Except.map] at h1; rw [← h1]; rfl
        | ok tn =>
          obtain ⟨t, n⟩ := tn
          rw [hg] at h1; simp [Except.map] at h1; rw [← h1]
          have h2 := ihf (fun g hg' => h g (by simp [hg'])) (bs.drop n) (base + n)
          cases hg2 : getPtrFields fs (List.drop n bs) (base + n) with
          | error e => simp [hg2, Except.map] at h2 ⊢; simp [← h2]
          | ok tsm => simp [hg2, Except.map] at h2 ⊢; simp [← h2]
    intro bs base
    simp only [getPtr, extent]
    split
    · have h2 := hf fs ih bs base
      cases hg2 : getPtrFields fs bs base with
      | error e => simp [hg2, Except.map] at h2 ⊢; simp [← h2]
      | ok tsm => simp [hg2, Except.map] at h2 ⊢; simp [← h2]
    · cases extentFixed (.record sized) bs with
      | error e => rfl
      | ok n =>
        simp only []
        have h2 := hf fs ih (bs.drop n) (base + n)
        cases hg2 : getPtrFields fs (List.drop n bs) (base + n) with
        | error e => simp [hg2, Except.map] at h2 ⊢; simp [← h2]
        | ok tsm => simp [hg2, Except.map] at h2 ⊢; simp [← h2]
  | «enum» ds ps ih =>
    have hv : ∀ (ds : List Nat) (ps : List Shape),
        (∀ p ∈ ps, ∀ bs base, (getPtr p bs base).map (·.2) = extent p bs) →
        ∀ r bs base i, (getPtrVariant ds ps r bs base i).map (·.2.2) = extentVariant ds ps r bs := by
      intro ds
      induction ds with
      | nil => intro ps _ r bs base i; cases ps <;> rfl
      | cons d ds ihd =>
        intro ps h r bs base i
        cases ps with
        | nil => rfl
        | cons p ps =>
          simp only [getPtrVariant, extentVariant]
          split
          · have h1 := h p (by simp) bs base
            cases hg : getPtr p bs base with
            | error e => rw [hg] at h1; simp [Except.map] at h1; rw [← h1]; rfl
            | ok tn => rw [hg] at h1; simp [Except.map] at h1; rw [← h1]; rfl
          · exact ihd ps (fun q hq => h q (by simp [hq])) r bs base (i + 1)
    intro bs base
    simp only [getPtr, extent]
    cases bs with
    | nil => rfl
    | cons r rest =>
      simp only []
      have h2 := hv ds ps ih r rest (base + 1) 0
      cases hg2 : getPtrVariant ds ps r rest (base + 1) 0 with
      | error e => simp [hg2, Except.map] at h2 ⊢; simp [← h2]
      | ok x => simp [hg2, Except.map] at h2 ⊢; simp [← h2]

/-- `get_ptr` advances the data pointer by exactly `extent` bytes (and fails exactly when it does). -/
theorem getPtr_extent (s : Shape) (bs : List Nat) (base : Nat) :
    (getPtr s bs base).map (·.2) = extent s bs := getPtr_extent_all s bs base

/-! ## What a passing `check_pointers` guarantees -/

theorem contains_incl (r : Rng) (a : Nat) (h : r.contains a = true) : r.lo ≤ a ∧ a ≤ r.hi := by
  simp [Rng.contains] at h; omega

theorem containsIncl_incl (r : Rng) (a : Nat) (h : r.containsIncl a = true) : r.lo ≤ a ∧ a ≤ r.hi := by
  simp [Rng.containsIncl] at h; omega

/-- **Every address of a pointer tree that passes `check_pointers` lies in `[range.start, range.end]`.** -/
theorem checkPointers_addrs_all (r : Rng) :
    (∀ t cur c, checkPointers r t cur = (true, c) → ∀ a ∈ addrs t, r.lo ≤ a ∧ a ≤ r.hi) ∧
    (∀ o t, o = some t → ∀ cur c, checkPointers r t cur = (true, c) → ∀ a ∈ addrs t, r.lo ≤ a ∧ a ≤ r.hi) ∧
    (∀ l cur c, checkL r l cur = (true, c) → ∀ a ∈ addrsL l, r.lo ≤ a ∧ a ≤ r.hi) := by
  apply PtrTree.induct3
  · -- leaf
    intro k a cur c h x hx
    simp only [addrs, List.mem_singleton] at hx
    subst hx
    simp only [checkPointers, Prod.mk.injEq, Bool.and_eq_true] at h
    obtain ⟨⟨_, h2⟩, _⟩ := h
    split at h2
    · exact containsIncl_incl r x h2
    · exact contains_incl r x h2
  · -- ulist
    intro cw a len lo hi inner pmb ih cur c h x hx
    simp only [checkPointers, Prod.mk.injEq, Bool.and_eq_true] at h
    obtain ⟨⟨⟨_, h2⟩, h3⟩, _⟩ := h
    simp only [addrs, List.mem_cons] at hx
    cases hx with
    | inl hx => subst hx; exact contains_incl r x h2
    | inr hx =>
      cases inner with
      | none => simp [addrsO] at hx
      | some t =>
        simp only [checkO] at h3
        simp only [addrsO] at hx
        have : checkPointers r t r.lo = (true, (checkPointers r t r.lo).2) := by rw [← h3]
        exact ih t rfl r.lo _ this x hx
  · -- node
    intro ks ih cur c h x hx
    simp only [checkPointers] at h
    simp only [addrs] at hx
    exact ih cur c h x hx
  · -- start
    intro a idx p ih cur c h x hx
    cases p with
    | none =>
      simp only [checkPointers] at h
      split at h
      · rename_i hc
        simp only [Bool.and_eq_true] at hc
        simp only [addrs, addrsO, List.mem_cons, List.not_mem_nil, or_false] at hx
        subst hx; exact contains_incl r x hc.2
      · simp at h
    | some t =>
      simp only [checkPointers] at h
      split at h
      · rename_i hc
        simp only [Bool.and_eq_true] at hc
        simp only [addrs, addrsO, List.mem_cons] at hx
        cases hx with
        | inl hx => subst hx; exact contains_incl r x hc.2
        | inr hx => exact ih t rfl a c h x hx
      · simp at h
  · intro t h; cases h
  · intro t ih t' h; cases h; exact ih
  · intro cur c _ x hx; simp [addrsL] at hx
  · intro t ts ih1 ih2 cur c h x hx
    simp only [checkL] at h
    simp only [addrsL, List.mem_append] at hx
    split at h
    · rename_i c1 hc1
      cases hx with
      | inl hx => exact ih1 cur c1 hc1 x hx
      | inr hx => exact ih2 c1 c h x hx
    · simp at h

theorem checkPointers_addrs (r : Rng) (t : PtrTree) (cur c : Nat) (h : checkPointers r t cur = (true, c)) :
    ∀ a ∈ addrs t, r.lo ≤ a ∧ a ≤ r.hi := (checkPointers_addrs_all r).1 t cur c h

/-- If some address of the tree is outside `[range.start, range.end]`, `check_pointers` fails. -/
theorem checkPointers_false (r : Rng) (t : PtrTree) (cur a : Nat) (ha : a ∈ addrs t)
    (hout : a < r.lo ∨ r.hi < a) : (checkPointers r t cur).1 = false := by
  cases h : (checkPointers r t cur).1 with
  | false => rfl
  | true =>
    have : checkPointers r t cur = (true, (checkPointers r t cur).2) := by rw [← h]
    have := checkPointers_addrs r t cur _ this a ha
    omega

end Unsized.PtrT
