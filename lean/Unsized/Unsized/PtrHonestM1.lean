import Unsized.PtrHonestI
import Unsized.PtrMachine
namespace Unsized.Ptr
open Common Unsized Unsized.Text Unsized.Machine Unsized.PtrT Unsized.PtrM

/-! ## Reading the buffer through the world -/

/-- Buffer `x`'s own addresses are resolved to `x` (always true of `A`; of `B` when the two allocations
are disjoint). -/
def OwnsOwn (w : World) (x : Which) : Prop := ∀ addr, (w.get x).owns addr = true → w.owner addr = some x

theorem ownsOwn_A (w : World) : OwnsOwn w .A := by
  intro addr h
  simp only [World.get] at h
  simp [World.owner, h]

theorem world_read (w : World) (x : Which) (h : OwnsOwn w x) (addr n : Nat)
    (h1 : (w.get x).base ≤ addr) (h2 : addr ≤ (w.get x).base + (w.get x).mem.bytes.length) :
    w.read addr n = (((w.get x).mem.bytes.drop (addr - (w.get x).base)).take n) := by
  have := h addr (by simp [PBuf.owns, h1, h2])
  simp only [World.read, this]

theorem world_rd32 (w : World) (x : Which) (h : OwnsOwn w x) (addr : Nat)
    (h1 : (w.get x).base ≤ addr) (h2 : addr ≤ (w.get x).base + (w.get x).mem.bytes.length) :
    w.rd32 addr = rd32 (w.get x).mem.bytes (addr - (w.get x).base) := by
  simp only [World.rd32, world_read w x h addr 4 h1 h2, rd32, rdN, rd]

theorem flatten_take_len (datas : List (List Nat)) (i : Nat) :
    (datas.take i).flatten.length = ((datas.map List.length).take i).sum := by
  rw [sum_map_length_flatten, List.map_take]

/-- `index_exclusive(i)` on an honest list pointer over canonical bytes: the fresh `get_ptr` of element `i`. -/
theorem listEnter_ok (w : World) (x : Which) (hown : OwnsOwn w x) (kw : Nat) (keys datas : List (List Nat))
    (A C : List Nat) (e : Shape) (xi : Val) (i B lo hiR : Nat) (inner : Option PtrTree) (pmb : Bool)
    (hbytes : (w.get x).mem.bytes = A ++ uBytes keys datas ++ C) (hB : B = (w.get x).base + A.length)
    (hkl : keys.length = datas.length) (hk : ∀ k ∈ keys, k.length = kw)
    (hsum : (datas.map List.length).sum < Shape.u32Lim) (hi : i < datas.length)
    (hxi : datas[i] = encode e xi) (g : Good e xi) (hz : e.zst = false)
    (hchk : checkInnerInitialized (.ulist (4 + kw) B datas.length lo hiR inner pmb) = true) :
    listEnter w e (.ulist (4 + kw) B datas.length lo hiR inner pmb) i
      = .ok (treeOf e xi (B + (12 + datas.length * (4 + kw)) + ((datas.map List.length).take i).sum)) := by
  obtain ⟨X, hX⟩ : ∃ X, X = w.get x := ⟨_, rfl⟩
  rw [← hX] at hbytes hB
  have hsz : (datas.map List.length).length = datas.length := by simp
  have hhdr : (uHdrOf keys (datas.map List.length)).length = 12 + datas.length * (4 + kw) := by
    rw [uHdrOf_length kw _ _ (by simp [hkl]) hk]; simp
  have hlenb : X.mem.bytes.length = A.length + (12 + datas.length * (4 + kw)) + datas.flatten.length + C.length := by
    rw [hbytes]; simp only [uBytes, List.length_append, hhdr]; omega
  have hfl : datas.flatten.length = (datas.map List.length).sum := sum_map_length_flatten datas
  have htk := sum_take_le (datas.map List.length) i
  have hile : i * (4 + kw) + (4 + kw) ≤ datas.length * (4 + kw) := by
    have : (i + 1) * (4 + kw) ≤ datas.length * (4 + kw) := Nat.mul_le_mul_right _ hi
    rw [Nat.add_mul] at this; omega
  have e0 : X.mem.bytes = A ++ uHdrOf keys (datas.map List.length) ++ (datas.flatten ++ C) := by
    rw [hbytes]; simp [uBytes, List.append_assoc]
  have r1 : w.rd32 (B + 8 + i * (4 + kw)) = ((datas.map List.length).take i).sum := by
    rw [world_rd32 w x hown _ (by rw [← hX]; omega) (by rw [← hX]; omega), ← hX]
    have : B + 8 + i * (4 + kw) - X.base = A.length + 8 + i * (4 + kw) := by omega
    rw [this, e0, rd32_uHdr_off kw keys _ A _ A.length i rfl (by simp [hkl]) hk hsum (by simpa using hi)]
  have r2 : w.rd32 B = (datas.map List.length).sum := by
    rw [world_rd32 w x hown _ (by rw [← hX]; omega) (by rw [← hX]; omega), ← hX]
    have : B - X.base = A.length := by omega
    rw [this, e0, rd32_uHdr_usz keys _ A _ A.length rfl hsum]
  have hdrop : datas.drop i = datas[i] :: datas.drop (i + 1) := List.drop_eq_getElem_cons hi
  have hsplit : (datas.map List.length).sum = ((datas.map List.length).take i).sum + ((datas.map List.length).drop i).sum := by
    have := congrArg List.sum (List.take_append_drop i (datas.map List.length))
    rw [List.sum_append] at this; exact this.symm
  have r3 : w.read (B + 8 + datas.length * (4 + kw) + 4 + ((datas.map List.length).take i).sum)
      ((datas.map List.length).sum - ((datas.map List.length).take i).sum)
      = encode e xi ++ (datas.drop (i + 1)).flatten := by
    rw [world_read w x hown _ _ (by rw [← hX]; omega) (by rw [← hX]; omega), ← hX]
    have e1 : X.mem.bytes = (A ++ uHdrOf keys (datas.map List.length) ++ (datas.take i).flatten)
        ++ ((datas.drop i).flatten ++ C) := by
      rw [e0]
      have : datas.flatten = (datas.take i).flatten ++ (datas.drop i).flatten := by
        rw [← List.flatten_append, List.take_append_drop]
      rw [this]; simp [List.append_assoc]
    have e2 : B + 8 + datas.length * (4 + kw) + 4 + ((datas.map List.length).take i).sum - X.base
        = (A ++ uHdrOf keys (datas.map List.length) ++ (datas.take i).flatten).length := by
      simp only [List.length_append, hhdr, flatten_take_len]; omega
    rw [e2, e1, List.drop_append_of_le_length (Nat.le_refl _), List.drop_length, List.nil_append,
      List.take_append_of_le_length (by
        rw [sum_map_length_flatten, List.map_drop]; omega)]
    rw [List.take_of_length_le (by rw [sum_map_length_flatten, List.map_drop]; omega), hdrop, hxi]
    simp
  have hnot : ¬ datas.length ≤ i := by omega
  simp only [listEnter, hnot, if_false, hchk, Bool.not_true, Bool.false_eq_true, r1, r2, r3]
  have e3 : B + 8 + datas.length * (4 + kw) + 4 + ((datas.map List.length).take i).sum
      = B + (12 + datas.length * (4 + kw)) + ((datas.map List.length).take i).sum := by omega
  rw [e3, getPtr_encode e xi _ _ g (Or.inr hz)]

end Unsized.Ptr
