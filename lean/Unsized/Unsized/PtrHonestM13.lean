import Unsized.PtrHonestM12
namespace Unsized.Ptr
open Common Unsized Unsized.Text Unsized.Machine Unsized.PtrT Unsized.PtrM

theorem sum_map_split {α : Type} (f : α → Nat) (l : List α) (i : Nat) :
    (l.map f).sum = ((l.take i).map f).sum + ((l.drop i).map f).sum := by
  have := sum_take_add_drop (l.map f) i
  simp only [List.map_take, List.map_drop] at this ⊢
  omega

theorem size_useq (e : Shape) (vs : List Val) :
    size (.ulist e) (.useq vs) = 12 + vs.length * 4 + (vs.map (size e)).sum := by simp only [size]; omega

/-- What the model says about the successful non-`set_data_inner` ops of an `UnsizedList`: the new length is
the one the method stores in the pointer, and unless the call clears the cached inner pointer first
(`remove_range`, `clear`, `pop`) the list does not shrink. -/
theorem ulist_spec_facts (e : Shape) (vs : List Val) (op : Op) (found : Option Found) (u' : Val) (r : Ret)
    (hn : setDataLen (.ulist e) op = none) (hs : Spec.applyNode (.ulist e) (.useq vs) op = .ok (u', r)) :
    ∃ vs', u' = .useq vs' ∧ vs'.length = postLen (.ulist e) op found vs.length
      ∧ (preOf (.ulist e) vs.length found op = .checkClear
          ∨ size (.ulist e) (.useq vs) ≤ size (.ulist e) (.useq vs')) := by
  cases op <;> simp only [setDataLen] at hn <;> try (cases hn)
  all_goals simp only [Spec.applyNode] at hs
  case touch => cases hs; exact ⟨vs, rfl, rfl, Or.inr (Nat.le_refl _)⟩
  case uget i => cases hs; exact ⟨vs, rfl, rfl, Or.inr (Nat.le_refl _)⟩
  case utouch i => cases hs; exact ⟨vs, rfl, rfl, Or.inr (Nat.le_refl _)⟩
  case uinsert i n =>
    split at hs
    · cases hs
    · rename_i hi
      cases hs
      refine ⟨_, rfl, by simp [Spec.insertAt, postLen]; omega, Or.inr ?_⟩
      rw [size_useq, size_useq, sum_map_split (size e) vs i]
      simp [Spec.insertAt]; omega
  case uinsertArr i xs =>
    split at hs
    · split at hs
      · cases hs
      · split at hs
        · cases hs
        · rename_i hi _
          cases hs
          refine ⟨_, rfl, by simp [Spec.insertAt, postLen]; omega, Or.inr ?_⟩
          rw [size_useq, size_useq, sum_map_split (size e) vs i]
          simp [Spec.insertAt]; omega
    · cases hs
  case remove i =>
    split at hs
    · cases hs
    · rename_i hi
      cases hs
      exact ⟨_, rfl, by simp [Spec.removeRange, postLen]; omega, Or.inl (by simp [preOf])⟩
  case removeRange lo hi =>
    split at hs
    · rename_i h; cases hs
      exact ⟨_, rfl, by simp [postLen, h.1, h.2], Or.inl (by simp [preOf])⟩
    · split at hs
      · cases hs
      · split at hs
        · cases hs
        · rename_i h1 h2
          cases hs
          exact ⟨_, rfl, by simp [Spec.removeRange, postLen]; omega, Or.inl (by simp [preOf])⟩
  case pop =>
    split at hs
    · rename_i he
      cases hs
      have : vs = [] := by simpa using he
      subst this
      exact ⟨[], rfl, by simp [postLen], Or.inr (Nat.le_refl _)⟩
    · rename_i he
      cases hs
      have : vs.length ≠ 0 := by intro h; apply he; simpa using h
      exact ⟨_, rfl, by simp [postLen], Or.inl (by simp [preOf, this])⟩
  case clear => cases hs; exact ⟨[], rfl, by simp [postLen], Or.inl (by simp [preOf])⟩
  all_goals cases hs


theorem preOf_ulist_ne (e : Shape) (len : Nat) (found : Option Found) (op : Op) (i : Nat) :
    preOf (.ulist e) len found op ≠ .enterSetData i := by
  cases op <;> simp only [preOf] <;> (try split) <;> intro h <;> cases h

theorem opAt_hon_ulist {w : World} {s : Shape} {v : Val} (c : PCtx w .A s v) (π : List Step) (e : Shape) (vs : List Val)
    (hres : resolve s v π = .ok (.ulist e, .useq vs)) (T : PtrTree) (hp : HonPath s v w.a.base π w.a.root T)
    (hT : Hon (.ulist e) (.useq vs) (w.a.base + offsetOf s v π) T) (op : Op) (hs : simpleOp op = true)
    (hcmd : match Spec.applyNode (.ulist e) (.useq vs) op with
      | .ok (u', _) => (plug s v π (encode (.ulist e) u')).length ≤ w.a.mem.orig + maxIncrease
      | .error er => er ≠ .initFail) :
    StepRes w s v π (.ulist e) (.useq vs) op (opAt w .A ⟨s, π⟩ (tpath s v π) (.ulist e) op) := by
  have F : Focus s v π (.ulist e) (.useq vs) w.a.mem := ⟨c.good, hres, c.bytes⟩
  have gt := F.sub
  obtain ⟨hsub, hrep⟩ := honPath_nav π s v _ _ _ _ T c.good hres hp
  have hle := offsetOf_le π s v _ _ c.good hres
  have hfit := c.calm.fitsNow
  have hbytes := c.bytes
  have hbig := c.big
  have hfar := c.far
  simp only [World.get] at hfit hbytes hbig hfar
  have hsu : size (.ulist e) (.useq vs) = (encode (.ulist e) (.useq vs)).length := (encode_size_all _ _ gt.valid).symm
  -- the form of the target pointer
  have hT0 := hT
  simp only [Hon] at hT0
  obtain ⟨inner, pmb, rfl, hin⟩ := hT0
  have key1 : ∀ pre, runPre w w.a.rng (.ulist e) (.ulist 4 (w.a.base + offsetOf s v π) vs.length
      (w.a.base + offsetOf s v π) (w.a.base + offsetOf s v π + size (.ulist e) (.useq vs)) inner pmb) pre ≠ none := by
    intro pre h
    obtain ⟨T1, h1, _⟩ := prologue_hon c π _ _ hres _ hT pre
    simp only [World.get] at h1; rw [h] at h1; cases h1
  have key2 : ∀ pre t1, runPre w w.a.rng (.ulist e) (.ulist 4 (w.a.base + offsetOf s v π) vs.length
      (w.a.base + offsetOf s v π) (w.a.base + offsetOf s v π + size (.ulist e) (.useq vs)) inner pmb) pre = some t1 →
      ∃ inner1 pmb1, t1 = .ulist 4 (w.a.base + offsetOf s v π) vs.length (w.a.base + offsetOf s v π)
          (w.a.base + offsetOf s v π + size (.ulist e) (.useq vs)) inner1 pmb1
        ∧ (pre = .checkClear → inner1 = none)
        ∧ (inner1 = none ∨ ∃ J x b0, inner1 = some J ∧ Good e x ∧ w.a.base + offsetOf s v π + 12 ≤ b0
            ∧ b0 + size e x ≤ w.a.base + offsetOf s v π + size (.ulist e) (.useq vs) ∧ Hon e x b0 J) := by
    intro pre t1 h
    obtain ⟨T1, h1, h2, _, h4⟩ := prologue_hon c π _ _ hres _ hT pre
    simp only [World.get] at h1 h2 h4; rw [h] at h1; cases h1
    simp only [Hon] at h2
    obtain ⟨inner1, pmb1, rfl, hin1⟩ := h2
    exact ⟨inner1, pmb1, rfl, fun hc => h4 hc _ _ _ _ _ _ _ rfl, hin1⟩
  unfold opAt
  simp only [World.get, hsub, startAddr]
  have hown : w.owner (w.a.base + offsetOf s v π) = some .A :=
    ownsOwn_A w _ (by simp [World.get, PBuf.owns, hbytes]; omega)
  have hb : w.a.base + offsetOf s v π - w.a.base = offsetOf s v π := by omega
  simp only [hown, World.get, hb, listOf, lenOf]
  have hrun := fun R1 t1 (h1 : HonPath s v w.a.base π R1 t1) (h2 : Hon (.ulist e) (.useq vs) (w.a.base + offsetOf s v π) t1) =>
    run_op c π _ _ hres R1 t1 h1 h2 op hs (srcOf_other _ _ op _ (by intro kw e' h; cases h)) hcmd
  simp only [RunOut, World.get] at hrun
  rcases htr : applyAtT ⟨s, π⟩ (.ulist e) (offsetOf s v π) op w.a.mem with ⟨⟨m', res⟩, evs⟩
  rw [htr] at hrun
  simp only [] at hrun
  cases res with
  | ok r =>
    simp only []
    split
    · rename_i heq; exact absurd heq (key1 _)
    · rename_i t1 heq
      obtain ⟨inner1, pmb1, rfl, hcc, hin1⟩ := key2 _ _ heq
      have hT1 : Hon (.ulist e) (.useq vs) (w.a.base + offsetOf s v π) (.ulist 4 (w.a.base + offsetOf s v π) vs.length
          (w.a.base + offsetOf s v π) (w.a.base + offsetOf s v π + size (.ulist e) (.useq vs)) inner1 pmb1) := by
        simp only [Hon]; exact ⟨inner1, pmb1, rfl, hin1⟩
      obtain ⟨R1, hR1, hp1⟩ := hrep (.ulist 4 (w.a.base + offsetOf s v π) vs.length
          (w.a.base + offsetOf s v π) (w.a.base + offsetOf s v π + size (.ulist e) (.useq vs)) inner1 pmb1)
      simp only [hR1, Option.getD_some]
      rcases hrun R1 _ hp1 hT1 with ⟨e', _, h, _⟩ | ⟨u', r', m1, hspec, heq2, F', ho, hr, hcases⟩
      · cases h
      · cases heq2
        have g' := F'.good
        have hres' := resolve_subst π s v _ _ u' hres
        have hoff' := offsetOf_subst π s v _ _ u' c.good hres
        have htp' := tpath_subst π s v _ _ u' hres
        have hroom : (encode s (subst s v π u')).length ≤ w.a.mem.orig + maxIncrease := by
          rw [subst_encode π s v _ _ u' c.good hres]; rw [hspec] at hcmd; exact hcmd
        have hfresh := fresh_after s _ π _ u' g' hres' w { w.a with mem := m' } F'.bytes
        simp only [hoff'] at hfresh
        -- the list pointer after the events
        obtain ⟨root2, hrunE, hp2⟩ : ∃ root2, runEvs w w.a R1 evs = .ok root2
            ∧ HonPath s (subst s v π u') w.a.base π root2 (.ulist 4 (w.a.base + offsetOf s v π) vs.length
                (w.a.base + offsetOf s v π) (w.a.base + offsetOf s v π + size (.ulist e) u') inner1 pmb1)
            ∧ True := by
          rcases hcases with ⟨hsz, hre⟩ | ⟨neg, amt, snap, R2, T2, hre, hp2, hself, hsz, hng, hpos, hroom2⟩
          · refine ⟨R1, hre, ?_, trivial⟩
            rw [hsz]
            exact honPath_same π s v _ _ u' _ R1 _ c.good g' hres hsz hp1
          · refine ⟨R2, hre, ?_, trivial⟩
            have hw : wrapOff neg amt (w.a.base + offsetOf s v π + size (.ulist e) (.useq vs))
                = w.a.base + offsetOf s v π + size (.ulist e) u' := by
              rw [wrapOff_eq neg amt _ (fun hn => by have := hng hn; omega)
                (fun hn => by
                  have h1 := hroom2 hn
                  have hsv : size s v = (encode s v).length := (encode_size_all _ _ c.good.valid).symm
                  omega),
                appD_add' neg amt _ _ hng, hsz]
            have : T2 = .ulist 4 (w.a.base + offsetOf s v π) vs.length (w.a.base + offsetOf s v π)
                (w.a.base + offsetOf s v π + size (.ulist e) u') inner1 pmb1 := by
              cases inner1 <;> simp only [resizeNotify, Nat.lt_irrefl, if_false, if_true, Option.some.injEq] at hself <;>
                rw [← hself, hw]
            rw [← this]; exact hp2
        obtain ⟨hp2, _⟩ := hp2
        obtain ⟨hsub2, hrep2⟩ := honPath_nav π s _ _ u' _ _ _ g' hres' hp2
        rw [htp'] at hsub2 hrep2
        simp only [hrunE, if_true, hsub2, onList, setLen, startAddr, listOf]
        cases hsd : setDataLen (.ulist e) op with
        | none =>
          simp only []
          split
          · rename_i hq _ _; exact absurd hq (preOf_ulist_ne e _ _ op _)
          obtain ⟨vs', rfl, hlen', hgrow⟩ := ulist_spec_facts e vs op _ u' r hsd hspec
          obtain ⟨R3, hR3, hp3⟩ := hrep2 (.ulist 4 (w.a.base + offsetOf s v π) vs'.length (w.a.base + offsetOf s v π)
            (w.a.base + offsetOf s v π + size (.ulist e) (.useq vs')) inner1 pmb1)
          rw [← hlen']
          simp only [hR3, Option.getD_some, StepRes]
          refine ⟨subst s v π (.useq vs'), .useq vs', (.ulist 4 (w.a.base + offsetOf s v π) vs'.length (w.a.base + offsetOf s v π)
            (w.a.base + offsetOf s v π + size (.ulist e) (.useq vs')) inner1 pmb1), ?_, hres', ?_, ?_, rfl, rfl, ?_, rfl, rfl, rfl,
            Or.inl ⟨r, hspec, rfl, rfl⟩⟩
          · exact pctx_after c m' R3 g' F'.bytes ho hr hroom
          · simpa [World.set, World.get] using hp3
          · simp only [World.set, World.get, hoff', Hon]
            refine ⟨inner1, pmb1, rfl, ?_⟩
            rcases hin1 with h | ⟨J, x, b0, h, gx, a1, a2, a3⟩
            · exact Or.inl h
            · rcases hgrow with hq | hq
              · have := hcc hq; rw [this] at h; cases h
              · exact Or.inr ⟨J, x, b0, h, gx, a1, by omega, a3⟩
          · simpa [World.set, World.get] using ho
        | some n =>
          have hn := setDataLen_spec _ _ u' op r n hsd hspec
          subst hn
          simp only [hfresh]
          obtain ⟨R3, hR3, hp3⟩ := hrep2 (treeOf (.ulist e) u' (w.a.base + offsetOf s v π))
          simp only [hR3, Option.getD_some, StepRes]
          refine ⟨subst s v π u', u', treeOf (.ulist e) u' (w.a.base + offsetOf s v π), ?_, hres', ?_, ?_, rfl, rfl, ?_, rfl, rfl, rfl, Or.inl ⟨r, hspec, rfl, rfl⟩⟩
          · exact pctx_after c m' R3 g' F'.bytes ho hr hroom
          · simpa [World.set, World.get] using hp3
          · simp only [World.set, World.get, hoff']; exact hon_treeOf _ u' _
          · simpa [World.set, World.get] using ho
  | error er =>
    cases er
    case bad => simp only [StepRes]
    all_goals (
      simp only []
      split
      · rename_i heq; exact absurd heq (key1 _)
      · rename_i t1 heq
        obtain ⟨inner1, pmb1, rfl, hcc, hin1⟩ := key2 _ _ heq
        have hT1 : Hon (.ulist e) (.useq vs) (w.a.base + offsetOf s v π) (.ulist 4 (w.a.base + offsetOf s v π) vs.length
            (w.a.base + offsetOf s v π) (w.a.base + offsetOf s v π + size (.ulist e) (.useq vs)) inner1 pmb1) := by
          simp only [Hon]; exact ⟨inner1, pmb1, rfl, hin1⟩
        obtain ⟨R1, hR1, hp1⟩ := hrep (.ulist 4 (w.a.base + offsetOf s v π) vs.length
            (w.a.base + offsetOf s v π) (w.a.base + offsetOf s v π + size (.ulist e) (.useq vs)) inner1 pmb1)
        simp only [hR1, Option.getD_some]
        rcases hrun R1 _ hp1 hT1 with ⟨e', hspec, h, hre⟩ | ⟨u', r', m1, hspec, heq2, _⟩
        · cases h
          simp only [hre, Bool.false_eq_true, if_false, StepRes]
          refine ⟨v, .useq vs, (.ulist 4 (w.a.base + offsetOf s v π) vs.length
            (w.a.base + offsetOf s v π) (w.a.base + offsetOf s v π + size (.ulist e) (.useq vs)) inner1 pmb1), ?_, hres, ?_, ?_, rfl, rfl, rfl, rfl, rfl, rfl, Or.inr (Or.inl ⟨_, hspec, rfl, rfl, rfl⟩)⟩
          · exact pctx_after c w.a.mem R1 c.good hbytes rfl rfl (by rw [← hbytes]; exact hfit)
          · simpa [World.set, World.get] using hp1
          · simpa [World.set, World.get] using hT1
        · cases heq2)

end Unsized.Ptr
