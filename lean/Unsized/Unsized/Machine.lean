import Unsized.Text
/-!
# The in-place resize machine of the unsized-type system (C01 / C02 / C06)

Byte-level model of `star_frame::unsize::wrapper` (`add_bytes`, `remove_bytes`, `set_data_inner`) and of
the `resize_notification` broadcast, as far as it touches **bytes**:

* `Mem`            — the data access of the harness (`hx-unsized/src/access.rs`): the bytes
                     `data[0..len)`, `orig`, the counter of growing reallocs and the refusal schedule.
* `Mem.addBytes`   — `ExclusiveRecurse::add_bytes` at the top wrapper (`wrapper.rs` 347–434): pointer
                     bounds checks, early return on `amount = 0`, realloc FIRST (may be refused, or
                     exceed `orig + 10240`), then one `memmove` of the tail. The gap keeps the stale
                     bytes that were there (a `memmove` does not clear its source).
* `Mem.removeBytes`— `remove_bytes` (`wrapper.rs` 437–572): bounds checks, early return on an empty range,
                     `memmove` of the tail, shrinking realloc (never refused).
* `child`/`locate` — taking the chain of child accessors: struct fields by walking the `get_ptr`
                     extents of the earlier fields, `UnsizedList`/`UnsizedMap` elements through the stored
                     offset table, enum payloads through the discriminant byte.
* `notify`         — `resize_notification` from the root along the path of live accessors: every
                     `UnsizedList`/`UnsizedMap` on the way runs the three-way comparison of
                     `unsized_list.rs` 625–674 and, in the "an element in me is changing its size" branch,
                     rewrites `unsized_size` and `adjust_offsets_from_ptr`s (binary search on
                     `source − unsized_data_ptr`, then `adjust_offsets`). All other pointer types only shift
                     pointers (no byte effect; the pointer trees are the subject of `Unsized/Ptr.lean`).

Pointers are absolute offsets into `data`. Everything is total; the error branches that the code has
but canonical states never reach (`PointerOutOfBounds`, `ArithmeticOverflow`, a failing `get_ptr`) are
present as `Err.ptrOob`, `Err.arith`, `Err.parse`.
-/
namespace Unsized.Machine
open Common Unsized Unsized.Text

/-- Outcome classes of one API call. -/
inductive Err where
  /-- the op line is inapplicable (`bad-op`): nothing was called -/
  | bad
  /-- `ErrorCode::IndexOutOfBounds` -/
  | ioob
  /-- `ErrorCode::InvalidRange` -/
  | range
  /-- `ErrorCode::ToPrimitiveError` raised by the validation that precedes the resize -/
  | toPrim
  /-- `ProgramError::InvalidRealloc`: growth refused by the schedule or beyond `orig + 10240` -/
  | realloc
  /-- `ErrorCode::ToPrimitiveError` raised by an initialiser that runs AFTER the resize
  (known findings `ulist_insert_init_fails_after_resize`, `set_data_inner_init_fails_after_resize`) -/
  | initFail
  /-- `ErrorCode::PointerOutOfBounds` (bounds checks of `add_bytes` / `remove_bytes`) -/
  | ptrOob
  /-- `ProgramError::ArithmeticOverflow` (`adjust_offsets`) -/
  | arith
  /-- a `get_ptr` on the way failed -/
  | parse
  deriving DecidableEq, Repr, Inhabited

/-- `MAX_PERMITTED_DATA_INCREASE`. -/
def maxIncrease : Nat := 10240

/-- The data access: `bytes = data[0..len)`. -/
structure Mem where
  bytes : List Nat
  orig : Nat
  /-- number of growing `unsized_data_realloc` calls so far -/
  grows : Nat
  /-- 1-based indices of the growing reallocs that are refused -/
  refuse : List Nat
  deriving Repr, Inhabited

/-! ## Raw byte access -/

/-- `n` bytes at `off`. -/
def rd (bs : List Nat) (off n : Nat) : List Nat := (bs.drop off).take n
/-- little-endian integer of width `w` at `off`. -/
def rdN (bs : List Nat) (off w : Nat) : Nat := rdLE (rd bs off w)
def rd32 (bs : List Nat) (off : Nat) : Nat := rdN bs off 4
/-- overwrite `v.length` bytes at `off`. -/
def wr (bs : List Nat) (off : Nat) (v : List Nat) : List Nat :=
  bs.take off ++ v ++ bs.drop (off + v.length)
def wr32 (bs : List Nat) (off n : Nat) : List Nat := wr bs off (leN 4 n)
/-- `sol_memmove(dst, src, n)` (overlap-safe copy). -/
def memmove (bs : List Nat) (dst src n : Nat) : List Nat := wr bs dst (rd bs src n)

/-- The bytes after `add_bytes(start, amount)` succeeded: the tail `[start, len)` moved up by
`amount`; the gap `[start, start + amount)` still shows what was there before the move (old tail
bytes, then the zeros the realloc appended). -/
def addBytesRaw (bs : List Nat) (start amount : Nat) : List Nat :=
  bs.take start ++ ((bs.drop start ++ List.replicate amount 0).take amount) ++ bs.drop start

/-- The bytes after `remove_bytes(start..stop)`. -/
def removeBytesRaw (bs : List Nat) (start stop : Nat) : List Nat :=
  bs.take start ++ bs.drop stop

/-- `add_bytes` without the notification. -/
def Mem.addBytes (m : Mem) (start amount : Nat) : Mem × Except Err Unit :=
  if m.bytes.length < start then (m, .error .ptrOob)
  else if amount = 0 then (m, .ok ())
  else
    let m1 : Mem := { m with grows := m.grows + 1 }
    if m1.grows ∈ m.refuse then (m1, .error .realloc)
    else if m.orig + maxIncrease < m.bytes.length + amount then (m1, .error .realloc)
    else ({ m1 with bytes := addBytesRaw m.bytes start amount }, .ok ())

/-- `remove_bytes` without the notification (`start..stop`, both `Excluded`/`Included` as the callers
use them: `start` inclusive, `stop` exclusive). -/
def Mem.removeBytes (m : Mem) (start stop : Nat) : Mem × Except Err Unit :=
  if m.bytes.length < start then (m, .error .ptrOob)
  else if stop < start then (m, .error .ptrOob)
  else if m.bytes.length < stop then (m, .error .ptrOob)
  else if stop = start then (m, .ok ())
  else ({ m with bytes := removeBytesRaw m.bytes start stop }, .ok ())

/-! ## Walking the layout -/

/-- Base of the `i`-th unsized field: the `get_ptr` chain over the earlier fields. -/
def fieldBase : List Shape → Nat → Nat → List Nat → Except Err (Shape × Nat)
  | [], _, _, _ => .error .bad
  | f :: _, 0, base, _ => .ok (f, base)
  | f :: fs, i + 1, base, bs =>
    match extent f (bs.drop base) with
    | .error _ => .error .parse
    | .ok n => fieldBase fs i (base + n) bs

/-- The payload shape of the variant whose discriminant byte is `r`. -/
def variantOf : List Nat → List Shape → Nat → Option Shape
  | d :: ds, p :: ps, r => if r = d then some p else variantOf ds ps r
  | _, _, _ => none

/-- Index of the variant whose discriminant byte is `r`. -/
def variantIdx : List Nat → Nat → Nat → Option Nat
  | d :: ds, r, i => if r = d then some i else variantIdx ds r (i + 1)
  | [], _, _ => none

/-- One accessor step (`unsized_ops.md` §2): the child's shape and absolute base.
`e<i>` on an `UnsizedList` with `i ≥ len` is the API error `IndexOutOfBounds`; on an `UnsizedMap`
it is inapplicable (no API call exists). -/
def child (s : Shape) (st : Step) (base : Nat) (bs : List Nat) : Except Err (Shape × Nat) :=
  match s, st with
  | .struct sized fs, .field i =>
    -- the generated accessor `f<i>` exists only for `i < #fields`
    if i < fs.length then fieldBase fs i (base + Fixed.sizeList sized) bs else .error .bad
  | .ulist e, .elem i =>
    let len := rd32 bs (base + 4)
    if i < len then .ok (e, base + 8 + len * 4 + 4 + rd32 bs (base + 8 + i * 4))
    else .error .ioob
  | .umap kw e, .elem i =>
    let len := rd32 bs (base + 4)
    if i < len then
      .ok (e, base + 8 + len * Shape.entryW kw + 4 + rd32 bs (base + 8 + i * Shape.entryW kw))
    else .error .bad
  | .enum ds ps, .payload =>
    match bs[base]? with
    | none => .error .parse
    | some r =>
      match variantOf ds ps r with
      | none => .error .parse
      | some .unit => .error .bad
      | some p => .ok (p, base + 1)
  | _, _ => .error .bad

/-- Resolve a path from `(s, base)`. -/
def locate : Shape → List Step → Nat → List Nat → Except Err (Shape × Nat)
  | s, [], base, _ => .ok (s, base)
  | s, st :: p, base, bs =>
    match child s st base bs with
    | .error e => .error e
    | .ok (t, b) => locate t p b bs

/-! ## `resize_notification` -/

/-- Result of `binary_search_by` on a strictly increasing key list. -/
inductive Found where
  | at (i : Nat)
  | ins (i : Nat)
  deriving Repr, DecidableEq

/-- `slice::binary_search_by(|probe| probe.cmp(k))` — its specification (first position whose key
is `≥ k`), which determines the result on strictly increasing input. `i` = index of the head. -/
def search : List Nat → Nat → Nat → Found
  | [], _, i => .ins i
  | x :: xs, k, i => if x < k then search xs k (i + 1) else if x = k then .at i else .ins i

/-- A signed change applied to an unsigned quantity. -/
def applyDelta (neg : Bool) (amt x : Nat) : Nat := if neg then x - amt else x + amt

/-- The offsets (first 4 bytes of each `cw`-wide entry) of `n` table entries starting at `pos`. -/
def tableOffsets (cw : Nat) (bs : List Nat) : (pos n : Nat) → List Nat
  | _, 0 => []
  | pos, n + 1 => rd32 bs pos :: tableOffsets cw bs (pos + cw) n

/-- `offset ± amt` on `n` consecutive entries starting at `pos`. -/
def shiftOffsets (cw : Nat) (neg : Bool) (amt : Nat) : (pos n : Nat) → List Nat → List Nat
  | _, 0, bs => bs
  | pos, n + 1, bs =>
    shiftOffsets cw neg amt (pos + cw) n (wr32 bs pos (applyDelta neg amt (rd32 bs pos)))

/-- `UnsizedList::adjust_offsets(start_index, change)` (`unsized_list.rs` 265–314) on the list at
`base` with `len` entries of width `cw`. -/
def adjustOffsets (cw base len start : Nat) (neg : Bool) (amt : Nat) (bs : List Nat) :
    Except Err (List Nat) :=
  if len = 0 then .ok bs
  else if amt = 0 then .ok bs
  else if len ≤ start then .ok bs
  else if neg then
    -- the first entry is the smallest: `checked_sub`
    if rd32 bs (base + 8 + start * cw) < amt then .error .arith
    else .ok (shiftOffsets cw true amt (base + 8 + start * cw) (len - start) bs)
  else
    -- the last entry is the largest: `checked_add`
    if Shape.u32Lim ≤ rd32 bs (base + 8 + (len - 1) * cw) + amt then .error .arith
    else .ok (shiftOffsets cw false amt (base + 8 + start * cw) (len - start) bs)

/-- `adjust_offsets_from_ptr` (`unsized_list.rs` 316–329). -/
def adjustOffsetsFromPtr (cw base len src : Nat) (neg : Bool) (amt : Nat) (bs : List Nat) :
    Except Err (List Nat) :=
  if len = 0 then .ok bs
  else
    let udata := base + 8 + len * cw + 4
    let start := match search (tableOffsets cw bs (base + 8) len) (src - udata) 0 with
      | .at i => i + 1
      | .ins i => i
    adjustOffsets cw base len start neg amt bs

/-- Byte effect of `UnsizedList::resize_notification` (`unsized_list.rs` 625–674) for the list at
`base` (entry width `cw`), source pointer `src`, change `±amt`. -/
def ulistNotify (cw base src : Nat) (neg : Bool) (amt : Nat) (bs : List Nat) :
    Except Err (List Nat) :=
  let usz := rd32 bs base
  let len := rd32 bs (base + 4)
  if src < base then .ok bs                    -- the change happened before me: pointers shift
  else if src = base then .ok bs               -- my own resize: handled by the list op itself
  else if src < base + (12 + len * cw + usz) then
    -- an element in me is changing its size
    if neg && decide (usz < amt) then .error .arith
    else if Shape.u32Lim ≤ applyDelta neg amt usz then .error .arith
    else adjustOffsetsFromPtr cw base len src neg amt (wr32 bs base (applyDelta neg amt usz))
  else .ok bs                                  -- the change happened after me

/-- `Top::resize_notification(top_mut, source_ptr, change)` along the chain of live accessors
`p` (from the node `s` at `base`): inner accessor first, then the node's own reaction. -/
def notify : Shape → List Step → (base src : Nat) → (neg : Bool) → (amt : Nat) → List Nat →
    Except Err (List Nat)
  | _, [], _, _, _, _, bs => .ok bs
  | s, st :: p, base, src, neg, amt, bs =>
    match child s st base bs with
    | .error e => .error e
    | .ok (t, b) =>
      match notify t p b src neg amt bs with
      | .error e => .error e
      | .ok bs1 =>
        match s with
        | .ulist _ => ulistNotify 4 base src neg amt bs1
        | .umap kw _ => ulistNotify (Shape.entryW kw) base src neg amt bs1
        | _ => .ok bs1

/-- Where an operation happens: the top type and the absolute path of the accessor it is called on. -/
structure Ctx where
  shape : Shape
  path : List Step
  deriving Repr

/-- `ExclusiveRecurse::add_bytes(self, source_ptr, start, amount)`. -/
def Mem.addBytesN (m : Mem) (c : Ctx) (src start amount : Nat) : Mem × Except Err Unit :=
  match m.addBytes start amount with
  | (m1, .error e) => (m1, .error e)
  | (m1, .ok ()) =>
    if amount = 0 then (m1, .ok ())
    else
      match notify c.shape c.path 0 src false amount m1.bytes with
      | .error e => (m1, .error e)
      | .ok bs => ({ m1 with bytes := bs }, .ok ())

/-- `ExclusiveRecurse::remove_bytes(self, source_ptr, start..stop)`. -/
def Mem.removeBytesN (m : Mem) (c : Ctx) (src start stop : Nat) : Mem × Except Err Unit :=
  match m.removeBytes start stop with
  | (m1, .error e) => (m1, .error e)
  | (m1, .ok ()) =>
    if stop = start then (m1, .ok ())
    else
      match notify c.shape c.path 0 src true (stop - start) m1.bytes with
      | .error e => (m1, .error e)
      | .ok bs => ({ m1 with bytes := bs }, .ok ())

end Unsized.Machine
