import Unsized.PtrHonestN6
namespace Unsized.Ptr
open Common Unsized Unsized.Text Unsized.Machine Unsized.PtrT Unsized.PtrM

theorem addBytesNT_quiet (m m' : Mem) (c : Ctx) (src start amount : Nat) (e : Err) (ev : List Ev)
    (h : m.addBytesNT c src start amount = ((m', .error e), ev)) (hl : m'.bytes.length = m.bytes.length) :
    NoNotify ev := by
  unfold Mem.addBytesNT Mem.addBytesT at h
  rcases h0 : m.addBytes start amount with ⟨m0, r⟩
  rw [h0] at h
  cases r with
  | error e0 =>
    simp only [Prod.mk.injEq] at h
    rw [← h.2]; exact addBytesEvs_noNotify m start amount
  | ok u =>
    cases u
    obtain ⟨_, h2, _⟩ := addBytes_ok m m0 start amount h0
    simp only [] at h
    split at h
    · simp at h
    · rename_i hamt
      split at h
      · simp only [Prod.mk.injEq] at h
        obtain ⟨⟨rfl, _⟩, _⟩ := h
        omega
      · simp at h

theorem listInsertAllT_quiet (c : Ctx) (ew lw b idx : Nat) (items : List (List Nat)) (m m' : Mem) (e : Err)
    (ev : List Ev) (h : listInsertAllT c ew lw b idx items m = ((m', .error e), ev))
    (hl : m'.bytes.length = m.bytes.length) : NoNotify ev := by
  unfold listInsertAllT at h
  simp only [] at h
  split at h
  · simp only [Prod.mk.injEq] at h; rw [← h.2]; exact noNotify_nil
  · split at h
    · simp only [Prod.mk.injEq] at h; rw [← h.2]; exact noNotify_nil
    · rcases h0 : m.addBytesNT c b (b + lw + idx * ew) (ew * items.length) with ⟨⟨m0, r⟩, ev0⟩
      rw [h0] at h
      cases r with
      | error e0 =>
        simp only [Prod.mk.injEq] at h
        obtain ⟨⟨rfl, _⟩, rfl⟩ := h
        exact addBytesNT_quiet m m0 c b _ _ e0 ev0 h0 hl
      | ok u => cases u; simp at h


theorem run_strSet_any {s : Shape} {X0 : PBuf} (a : Amb s X0) (w0 : World) (π : List Step) (lw : Nat) (l sb : List Nat)
    (T R : PtrTree) (v : Val) (m : Mem) (F : Focus s v π (.str lw) (.bytes l) m) (c : Calm m)
    (ho : m.orig = X0.mem.orig) (hp : HonPath s v X0.base π R T)
    (hT : Hon (.str lw) (.bytes l) (X0.base + offsetOf s v π) T)
    (hx : (utf8Valid sb && decide (BytesWF sb)) = true) :
    ∃ m2 res evs R' l', strSetT ⟨s, π⟩ lw (offsetOf s v π) sb m = ((m2, res), evs)
      ∧ runEvs w0 X0 R evs = .ok R' ∧ HonPath s (subst s v π (.bytes l')) X0.base π R' T
      ∧ Focus s (subst s v π (.bytes l')) π (.str lw) (.bytes l') m2
      ∧ m2.orig = m.orig ∧ m2.refuse = m.refuse ∧ Calm m2 := by
  have hx' := hx
  simp only [Bool.and_eq_true, decide_eq_true_eq] at hx'
  obtain ⟨_, hv, hf⟩ := F.sub
  simp only [fits, Bool.and_eq_true, decide_eq_true_eq] at hf
  have hes : ∀ x ∈ l.map (fun b => [b]), x.length = 1 := by
    intro x hx; obtain ⟨b, _, rfl⟩ := List.mem_map.1 hx; rfl
  have hrd0 : rdN m.bytes (offsetOf s v π) lw = l.length := by
    have := enc_rdN π s v _ _ F.good F.res 0 lw (by simp [encode])
    rw [Nat.add_zero] at this
    rw [F.bytes, this]; simp only [encode]; exact rdN_leN_zero lw _ _ hf.1
  obtain ⟨m1, hm1, hb1, ho1, hr1, hg1⟩ := listRemoveRange_bytes F 1 lw (l.map fun b => [b]) (str_enc lw l) hes
    (by simpa using hf.1) 0 l.length (by omega) (by simp)
  have g0 : Good (.str lw) (.bytes []) := good_str_of F.sub.ok (by decide) (by simp) (Nat.pow_pos (by omega)) (by decide)
  have hb1' : m1.bytes = plug s v π (encode (.str lw) (.bytes [])) := by
    have hra : Spec.removeRange (l.map fun b => [b]) 0 l.length = [] := by
      have := removeRange_all (l.map fun b => [b]); simpa using this
    rw [hb1, hra]; simp [encode]
  have hpl0 := plug_length π s v _ _ F.good F.res (encode (.str lw) (.bytes []))
  have hle := offsetOf_le π s v _ _ F.good F.res
  have hcf := c.fitsNow; have hcs := c.small
  have hsm1 : m1.bytes.length < Shape.u32Lim := by
    rw [hb1']; rw [F.bytes] at hcf
    simp only [encode, List.length_append, leN_length, List.length_nil] at hpl0 hle ⊢; omega
  have F1 := F.finish (.bytes []) g0 m1 hb1' hsm1
  have c1 : Calm m1 := c.next ho1 hr1 (by
    rw [hb1']; rw [F.bytes] at hcf
    simp only [encode, List.length_append, leN_length, List.length_nil] at hpl0 hle ⊢; omega)
  have hrd1 : rdN m1.bytes (offsetOf s v π) lw = 0 := by
    have := enc_rdN π s _ _ _ F1.good F1.res 0 lw (by simp [encode])
    rw [Nat.add_zero, (subst_good π s v _ _ (.bytes []) F.good F.res g0 (by rw [← hb1']; exact hsm1)).2.2.2.1] at this
    rw [F1.bytes, this]; simp only [encode, List.length_nil]; exact rdN_leN_zero lw 0 _ (Nat.pow_pos (by omega))
  obtain ⟨hoff1, hplug1, hss1⟩ := F.next_facts _ m1 F1 hsm1
  have hpl1 := plug_length π s v _ _ F.good F.res (encode (.str lw) (.bytes sb))
  -- the traced clear
  have hfst1 := listRemoveRangeT_fst ⟨s, π⟩ 1 lw (offsetOf s v π) 0 l.length m
  rw [hm1] at hfst1
  rcases hT1 : listRemoveRangeT ⟨s, π⟩ 1 lw (offsetOf s v π) 0 l.length m with ⟨⟨mm1, rr1⟩, ev1⟩
  rw [hT1] at hfst1
  simp only [Prod.mk.injEq] at hfst1
  obtain ⟨rfl, rfl⟩ := hfst1
  have hesp1 := listRemoveRangeT_espec ⟨s, π⟩ 1 lw (offsetOf s v π) 0 l.length m
  rw [hT1] at hesp1
  have hla1 := listRemoveRangeT_lenAfter _ _ _ _ _ _ _ _ _ hT1
  obtain ⟨R1, hrun1, hp1⟩ := run_trace (a.ctx w0 F c ho) w0 X0 rfl (by simp [World.get, PBuf.rng, ho]) π _ _
    (.bytes []) F.res rfl F1.good R T (by simpa [World.get] using hp) (by simpa [World.get] using hT)
    ev1 (by simpa [World.get] using hesp1)
    (by
      simp only [World.get]
      rw [hla1, ← F1.bytes, hb1', F.bytes]
      simp only [encode, List.length_append, leN_length, List.length_nil] at hpl0 hle ⊢; omega)
    (by simp only [World.get]; rw [← F1.bytes, ← ho1]; exact c1.fitsNow)
  simp only [World.get] at hp1
  have hT1' : Hon (.str lw) (.bytes []) (X0.base + offsetOf s (subst s v π (.bytes [])) π) T := by
    rw [hoff1]; exact (hon_leafy _ _ _ _ T rfl hT).2
  have hc1 : checkTop X0.rng R1 = true := by
    have := checkTop_hon (a.ctx w0 F1 c1 (by rw [ho1]; exact ho)) R1 (by
      simpa [World.get] using honPath_fill π s _ _ _ _ R1 T F1.good F1.res hp1 hT1')
    simpa [World.get, PBuf.rng, ho, ho1] using this
  -- the traced push_all
  have hfst2 := listInsertAllT_fst ⟨s, π⟩ 1 lw (offsetOf s v π) 0 (sb.map fun x => [x]) mm1
  rcases hT2 : listInsertAllT ⟨s, π⟩ 1 lw (offsetOf s v π) 0 (sb.map fun x => [x]) mm1 with ⟨⟨mm2, rr2⟩, ev2⟩
  rw [hT2] at hfst2
  simp only [] at hfst2
  have hstrT : strSetT ⟨s, π⟩ lw (offsetOf s v π) sb m = ((mm2, rr2), ev1 ++ ev2) := by
    unfold strSetT listClearT
    rw [hrd0, hT1]; simp only [hrd1, hT2]
  by_cases hov : 256 ^ lw ≤ sb.length
  · -- prefix overflow: the string stays empty
    have hT2' : listInsertAllT ⟨s, π⟩ 1 lw (offsetOf s v π) 0 (sb.map fun x => [x]) mm1 = ((mm1, .error .toPrim), []) := by
      unfold listInsertAllT
      simp only [hrd1, Nat.not_lt_zero, if_false, List.length_map, Nat.zero_add, hov, if_true]
    rw [hT2'] at hT2
    simp only [Prod.mk.injEq] at hT2
    obtain ⟨⟨rfl, rfl⟩, rfl⟩ := hT2
    refine ⟨mm1, _, ev1 ++ [], R1, [], hstrT, ?_, hp1, F1, ho1, hr1, c1⟩
    rw [runEvs_append_ok w0 X0 R R1 ev1 [] hrun1]; rfl
  · rcases listInsertAll_cases F1 c1.toSmall 1 lw [] (by simp [encode]) (by simp) (Nat.pow_pos (by omega)) 0
      (sb.map fun x => [x]) (by intro x hx; obtain ⟨b, _, rfl⟩ := List.mem_map.1 hx; rfl) (by simp) (by simpa using hov)
      with hr | ⟨m2, hm2, hb2, ho2, hr2, hroom2⟩
    · -- the growth is refused: the string stays empty
      rw [hoff1] at hr
      rw [hr] at hfst2
      simp only [Prod.mk.injEq] at hfst2
      obtain ⟨rfl, rfl⟩ := hfst2
      have hnn := listInsertAllT_quiet _ _ _ _ _ _ _ _ _ _ hT2 rfl
      have F1' : Focus s (subst s v π (.bytes [])) π (.str lw) (.bytes []) { mm1 with grows := mm1.grows + 1 } :=
        F1.congr _ rfl
      refine ⟨_, _, ev1 ++ ev2, R1, [], hstrT, ?_, hp1, F1', ho1, hr1, c1.next rfl rfl c1.fitsNow⟩
      rw [runEvs_append_ok w0 X0 R R1 ev1 ev2 hrun1]
      exact runEvs_noNotify w0 X0 R1 ev2 hnn hc1
    · rw [hoff1] at hm2
      rw [hm2] at hfst2
      simp only [Prod.mk.injEq] at hfst2
      obtain ⟨rfl, rfl⟩ := hfst2
      have hroom : (plug s v π (encode (.str lw) (.bytes sb))).length ≤ m.orig + maxIncrease := by
        rw [← F1.bytes, hb1', ho1] at hroom2
        simp only [encode, List.length_append, leN_length, List.length_nil, List.length_map] at hpl0 hpl1 hroom2 ⊢
        omega
      have g2 : Good (.str lw) (.bytes sb) := by
        have := F.small c _ hroom
        simp only [encode, List.length_append, leN_length] at hpl1 this hle
        have h64 := u32_lt_usize
        exact good_str_of F.sub.ok hx'.1 hx'.2 (by omega) (by omega)
      have hb2' : mm2.bytes = plug s v π (encode (.str lw) (.bytes sb)) := by
        rw [hb2, hplug1]; simp [Spec.insertAt, encode, flatten_singletons]
      have F2 := F.finish _ g2 mm2 hb2' (by rw [hb2']; exact F.small c _ hroom)
      have hesp2 := listInsertAllT_espec ⟨s, π⟩ 1 lw (offsetOf s v π) 0 (sb.map fun x => [x]) mm1
      rw [hT2] at hesp2
      have hla2 := listInsertAllT_lenAfter _ _ _ _ _ _ _ _ _ hT2
      obtain ⟨R2, hrun2, hp2⟩ := run_trace (a.ctx w0 F1 c1 (by rw [ho1]; exact ho)) w0 X0 rfl
        (by simp [World.get, PBuf.rng, ho, ho1]) π _ _
        (.bytes sb) F1.res rfl (by rw [hss1]; exact F2.good) R1 T (by simpa [World.get] using hp1)
        (by simpa [World.get] using hT1')
        ev2 (by simp only [World.get]; rw [hoff1]; exact hesp2)
        (by
          simp only [World.get]
          rw [hla2, hss1, ← F2.bytes, hb2', hb1']
          simp only [encode, List.length_append, leN_length, List.length_nil, List.length_map] at hpl0 hpl1 hle ⊢; omega)
        (by simp only [World.get]; rw [hss1, ← F2.bytes, hb2', ho1]; exact hroom)
      simp only [World.get] at hp2
      rw [hss1] at hp2
      refine ⟨mm2, _, ev1 ++ ev2, R2, sb, hstrT, ?_, hp2, F2, by rw [ho2, ho1], by rw [hr2, hr1],
        c.next (by rw [ho2, ho1]) (by rw [hr2, hr1]) (by rw [hb2']; exact hroom)⟩
      rw [runEvs_append_ok w0 X0 R R1 ev1 ev2 hrun1]; exact hrun2

end Unsized.Ptr
