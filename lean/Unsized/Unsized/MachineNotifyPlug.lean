import Unsized.MachineStepNotify
/-!
# Paths: `resolve`, `offsetOf`, `plug`, `subst`, and the path induction `notify_plug`
(`resize_notification` along the accessor chain rewrites exactly the enclosing list headers)
-/
namespace Unsized.Machine
open Common Unsized Unsized.Text

/-- Resolve a path on the owned value (error classes of `unsized_ops.md` §2). -/
def resolve : Shape → Val → List Step → Except Err (Shape × Val)
  | s, v, [] => .ok (s, v)
  | s, v, st :: p =>
    match resolve1 s v st with
    | .error e => .error e
    | .ok (t, u) => resolve t u p

/-- Offset of the sub-value at `p` inside `encode s v`. -/
def offsetOf : Shape → Val → List Step → Nat
  | _, _, [] => 0
  | s, v, st :: p =>
    match resolve1 s v st with
    | .error _ => 0
    | .ok (t, u) => (stepPre s v st 0).length + offsetOf t u p

/-- `encode s v` with the bytes of the sub-value at `p` replaced by `X` and the headers of all
enclosing `UnsizedList`/`UnsizedMap`s recomputed for the new size. -/
def plug : Shape → Val → List Step → List Nat → List Nat
  | _, _, [], X => X
  | s, v, st :: p, X =>
    match resolve1 s v st with
    | .error _ => []
    | .ok (t, u) => stepPre s v st (plug t u p X).length ++ plug t u p X ++ stepPost s v st

/-- The owned value with the sub-value at `p` replaced. -/
def subst : Shape → Val → List Step → Val → Val
  | _, _, [], u' => u'
  | s, v, st :: p, u' =>
    match resolve1 s v st with
    | .error _ => v
    | .ok (t, u) => subst1 v st (subst t u p u')

/-- `l` with `n` bytes at `o` replaced by `X`. -/
def splice (l : List Nat) (o n : Nat) (X : List Nat) : List Nat := l.take o ++ X ++ l.drop (o + n)

theorem splice_mid (A E C X : List Nat) (o n a : Nat) (ha : a = A.length) (h : o + n ≤ E.length) :
    splice (A ++ E ++ C) (a + o) n X = A ++ splice E o n X ++ C := by
  unfold splice
  have e : A ++ E ++ C = A ++ (E ++ C) := List.append_assoc ..
  rw [e, take_append_add A _ _ _ ha, List.take_append_of_le_length (by omega)]
  rw [Nat.add_assoc, drop_append_add A _ _ _ ha, List.drop_append_of_le_length (by omega)]
  simp [List.append_assoc]

theorem splice_self (E X : List Nat) : splice E 0 E.length X = X := by simp [splice]

theorem splice_length (l X : List Nat) (o n : Nat) (h : o + n ≤ l.length) :
    (splice l o n X).length + n = l.length + X.length := by
  simp [splice]; omega

/-- `plug` only changes the length by the change of the hole. -/
theorem plug_length (p : List Step) : ∀ (s : Shape) (v : Val) (t : Shape) (u : Val), Good s v →
    resolve s v p = .ok (t, u) → ∀ X : List Nat,
    (plug s v p X).length + (encode t u).length = (encode s v).length + X.length := by
  induction p with
  | nil => intro s v t u g h X; simp [resolve] at h; obtain ⟨rfl, rfl⟩ := h; simp [plug]; omega
  | cons st p ih =>
    intro s v t u g h X
    simp only [resolve] at h
    cases h1 : resolve1 s v st with
    | error e => simp [h1] at h
    | ok tu =>
      obtain ⟨t1, u1⟩ := tu
      simp only [h1] at h
      obtain ⟨g1, henc, hlen, _⟩ := step_facts s v st t1 u1 g h1
      have := ih t1 u1 t u g1 h X
      simp only [plug, h1, List.length_append]
      rw [henc]; simp only [List.length_append]
      rw [hlen (plug t1 u1 p X).length (encode t1 u1).length]; omega

/-- The hole fits inside the value. -/
theorem offsetOf_le (p : List Step) : ∀ (s : Shape) (v : Val) (t : Shape) (u : Val), Good s v →
    resolve s v p = .ok (t, u) → offsetOf s v p + (encode t u).length ≤ (encode s v).length := by
  induction p with
  | nil => intro s v t u g h; simp [resolve] at h; obtain ⟨rfl, rfl⟩ := h; simp [offsetOf]
  | cons st p ih =>
    intro s v t u g h
    simp only [resolve] at h
    cases h1 : resolve1 s v st with
    | error e => simp [h1] at h
    | ok tu =>
      obtain ⟨t1, u1⟩ := tu
      simp only [h1] at h
      obtain ⟨g1, henc, hlen, _⟩ := step_facts s v st t1 u1 g h1
      have := ih t1 u1 t u g1 h
      simp only [offsetOf, h1]
      rw [henc]; simp only [List.length_append]
      rw [hlen (encode t1 u1).length 0]; omega


theorem okAux_inEnum (s : Shape) (top ie : Bool) (h : s ≠ .unit) :
    Shape.okAux top ie s = Shape.okAux top false s := by
  cases s <;> first | rfl | exact absurd rfl h

theorem size_pos' (s : Shape) (v : Val) (g : Good s v) (hu : s ≠ .unit) (hz : s.zst = false) :
    0 < (encode s v).length := by
  obtain ⟨⟨top, ie, hok⟩, hv, _⟩ := g
  rw [encode_size_all s v hv]
  rw [okAux_inEnum s top ie hu] at hok
  exact size_pos s top hok hz v hv

theorem zst_field (fs : List Shape) (i : Nat) (f : Shape) (hok : Shape.okFields fs = true)
    (hz : Shape.zstLast false fs = false) (hf : fs[i]? = some f) : f.zst = false := by
  induction fs generalizing i with
  | nil => simp at hf
  | cons f' fs ih =>
    cases fs with
    | nil =>
      cases i with
      | zero => simp at hf; subst hf; simpa [Shape.zstLast] using hz
      | succ i => simp at hf
    | cons g gs =>
      obtain ⟨_, h2, h3⟩ := okFields_cons2 f' g gs hok
      rw [zstLast_cons_cons] at hz
      cases i with
      | zero => simp at hf; subst hf; exact h2
      | succ i => exact ih i h3 hz (by simpa using hf)

/-- Children of a non-ZST node are non-ZST (and never the unit payload). -/
theorem step_nonzst (s : Shape) (v : Val) (st : Step) (t : Shape) (u : Val) (g : Good s v)
    (hz : s.zst = false) (h : resolve1 s v st = .ok (t, u)) : t ≠ .unit ∧ t.zst = false := by
  have gc := (step_facts s v st t u g h).1
  unfold resolve1 at h
  split at h
  · rename_i sized fs sz vs i
    split at h
    · rename_i f x hf hx
      cases h
      obtain ⟨⟨top, ie, hok⟩, _, _⟩ := g
      simp only [Shape.okAux, Bool.and_eq_true] at hok
      have hfo := okFields_get fs i t hf hok.2
      refine ⟨?_, zst_field fs i t hok.2 (by simpa [Shape.zst] using hz) hf⟩
      intro hu; subst hu; simp [Shape.okAux] at hfo
    · cases h
  · rename_i e vs i
    split at h
    · rename_i x hx
      cases h
      obtain ⟨⟨top, ie, hok⟩, _, _⟩ := g
      simp only [Shape.okAux, Bool.and_eq_true, Bool.not_eq_true'] at hok
      refine ⟨?_, hok.2⟩
      intro hu; subst hu; simp [Shape.okAux] at hok
    · cases h
  · rename_i kw e es i
    split at h
    · rename_i kx hx
      cases h
      obtain ⟨⟨top, ie, hok⟩, _, _⟩ := g
      simp only [Shape.okAux, Bool.and_eq_true, Bool.not_eq_true'] at hok
      refine ⟨?_, hok.2⟩
      intro hu; subst hu; simp [Shape.okAux] at hok
    · cases h
  · rename_i ds ps idx pl
    split at h
    · cases h
    · cases h
    · rename_i t' hnu ht
      cases h
      refine ⟨fun hu => hnu (by rw [hu]), ?_⟩
      exact zstAny_false_mem ps (by simpa [Shape.zst] using hz) t (List.mem_of_getElem? ht)
  · cases h

/-- In a non-ZST value every reachable sub-value starts strictly inside it. -/
theorem offsetOf_lt (p : List Step) : ∀ (s : Shape) (v : Val) (t : Shape) (u : Val), Good s v →
    s ≠ .unit → s.zst = false → resolve s v p = .ok (t, u) → offsetOf s v p < (encode s v).length := by
  induction p with
  | nil => intro s v t u g hu hz h; simp only [offsetOf]; exact size_pos' s v g hu hz
  | cons st p ih =>
    intro s v t u g hu hz h
    simp only [resolve] at h
    cases h1 : resolve1 s v st with
    | error e => simp [h1] at h
    | ok tu =>
      obtain ⟨t1, u1⟩ := tu
      simp only [h1] at h
      obtain ⟨g1, henc, hlen, _⟩ := step_facts s v st t1 u1 g h1
      obtain ⟨hu1, hz1⟩ := step_nonzst s v st t1 u1 g hz h1
      have := ih t1 u1 t u g1 hu1 hz1 h
      simp only [offsetOf, h1]
      rw [henc]; simp only [List.length_append]
      rw [hlen (encode t1 u1).length 0]; omega


theorem applyDelta_mono (neg : Bool) (amt a b : Nat) (h : a ≤ b) (hneg : neg = true → amt ≤ a) :
    applyDelta neg amt a ≤ applyDelta neg amt b := by
  unfold applyDelta; cases neg <;> simp <;> omega

/-- **`resize_notification` along a path**: after the bytes of the sub-value at `p` were replaced by
`X` (size change `±amt`, source pointer = start of that sub-value), the notification broadcast turns
the stale headers of all enclosing `UnsizedList`/`UnsizedMap`s into the headers of the new sizes. -/
theorem notify_plug (p : List Step) : ∀ (s : Shape) (v : Val) (t : Shape) (u : Val), Good s v →
    resolve s v p = .ok (t, u) → ∀ (pre post X : List Nat) (base src : Nat) (neg : Bool) (amt : Nat),
    base = pre.length → 0 < amt → X.length = applyDelta neg amt (encode t u).length →
    (neg = true → amt ≤ (encode t u).length) → src = base + offsetOf s v p →
    (neg = false → (encode s v).length + amt < Shape.u32Lim) →
    notify s p base src neg amt
        (pre ++ splice (encode s v) (offsetOf s v p) (encode t u).length X ++ post)
      = .ok (pre ++ plug s v p X ++ post) := by
  induction p with
  | nil =>
    intro s v t u g h pre post X base src neg amt hb hamt hX hneg hsrc hbig
    simp [resolve] at h; obtain ⟨rfl, rfl⟩ := h
    simp [notify, offsetOf, plug, splice_self]
  | cons st p ih =>
    intro s v t u g h pre post X base src neg amt hb hamt hX hneg hsrc hbig
    simp only [resolve] at h
    cases h1 : resolve1 s v st with
    | error e => simp [h1] at h
    | ok tu =>
      obtain ⟨t1, u1⟩ := tu
      simp only [h1] at h
      obtain ⟨g1, henc, hlen, hchild⟩ := step_facts s v st t1 u1 g h1
      have hle := offsetOf_le p t1 u1 t u g1 h
      -- the bytes, split around the child
      have hsp : pre ++ splice (encode s v) (offsetOf s v (st :: p)) (encode t u).length X ++ post
          = (pre ++ stepPre s v st (encode t1 u1).length)
            ++ splice (encode t1 u1) (offsetOf t1 u1 p) (encode t u).length X
            ++ (stepPost s v st ++ post) := by
        simp only [offsetOf, h1]
        conv => lhs; rw [henc]
        rw [splice_mid _ _ _ X _ _ _ (hlen 0 (encode t1 u1).length) hle]
        simp [List.append_assoc]
      have hch := hchild pre (splice (encode t1 u1) (offsetOf t1 u1 p) (encode t u).length X
        ++ (stepPost s v st ++ post)) base hb
      have hih := ih t1 u1 t u g1 h (pre ++ stepPre s v st (encode t1 u1).length) (stepPost s v st ++ post) X
        (base + (stepPre s v st 0).length) src neg amt
        (by simp [hb, hlen 0 (encode t1 u1).length]) hamt hX hneg
        (by rw [hsrc]; simp only [offsetOf, h1]; omega)
        (by intro hn; have := hbig hn; rw [henc] at this; simp only [List.length_append] at this; omega)
      rw [hsp]
      simp only [notify]
      rw [List.append_assoc (pre ++ stepPre s v st (encode t1 u1).length), hch]
      simp only []
      rw [← List.append_assoc (pre ++ stepPre s v st (encode t1 u1).length), hih]
      simp only [plug, h1]
      obtain ⟨Y, hYdef⟩ : ∃ Y, Y = plug t1 u1 p X := ⟨_, rfl⟩
      rw [← hYdef]
      have hYlen : Y.length = applyDelta neg amt (encode t1 u1).length := by
        have := plug_length p t1 u1 t u g1 h X
        rw [← hYdef] at this
        cases neg with
        | false => simp only [applyDelta, Bool.false_eq_true, if_false] at hX ⊢; omega
        | true => have := hneg rfl; simp only [applyDelta, if_true] at hX ⊢; omega
      have hnegY : neg = true → amt ≤ (encode t1 u1).length := fun hn => by have := hneg hn; omega
      have h1' := h1
      unfold resolve1 at h1
      split at h1
      · -- struct: no header
        split at h1
        · cases h1; simp [stepPre, List.append_assoc]
        · cases h1
      · -- ulist
        rename_i e vs i
        split at h1
        · rename_i x hx
          cases h1
          obtain ⟨⟨top, ie, hok⟩, hv, hfit⟩ := g
          simp only [Shape.okAux, Bool.and_eq_true, Bool.not_eq_true'] at hok
          simp only [valid] at hv
          simp only [fits, Bool.and_eq_true, decide_eq_true_eq] at hfit
          have hi : i < vs.length := by
            rcases Nat.lt_or_ge i vs.length with h | h
            · exact h
            · simp [List.getElem?_eq_none h] at hx
          have hxi : vs[i] = u1 := by
            have := List.getElem?_eq_getElem hi; rw [hx] at this; exact (Option.some.inj this).symm
          have hdi : (vs.map (encode t1))[i]'(by simpa using hi) = encode t1 u1 := by simp [hxi]
          have hkeys : ∀ k ∈ vs.map (fun _ => ([] : List Nat)), k.length = 0 := by
            intro k hk; obtain ⟨_, _, rfl⟩ := List.mem_map.1 hk; rfl
          have hsizes := map_encode_length t1 vs hv
          have hu1 : t1 ≠ .unit := by intro hu; subst hu; simp [Shape.okAux] at hok
          have hpos : ∀ d ∈ vs.map (encode t1), 0 < d.length := by
            intro d hd; obtain ⟨x', hx', rfl⟩ := List.mem_map.1 hd
            obtain ⟨j, hj⟩ := List.getElem?_of_mem hx'
            exact size_pos' t1 x' (good_ulist_elem t1 vs j x' ⟨⟨top, ie, by simp [Shape.okAux, hok]⟩, by simpa [valid] using hv,
              by simp [fits, hfit]⟩ hj).1 hu1 hok.2
          have hol := offsetOf_lt p t1 u1 t u g1 hu1 hok.2 h
          have hencl : (encode (.ulist t1) (.useq vs)).length
              = 12 + vs.length * 4 + ((vs.map (encode t1)).map List.length).sum := by
            rw [encode_ulist_uBytes, uBytes, List.length_append, uHdrOf_length 0 _ _ (by simp) hkeys,
              sum_map_length_flatten]; simp
          have hsum' : (((vs.map (encode t1)).set i Y).map List.length).sum < Shape.u32Lim := by
            rw [List.map_set]
            have hs := sum_set ((vs.map (encode t1)).map List.length) i Y.length (by simpa using hi)
            simp only [List.getElem_map] at hs
            rw [hxi] at hs
            rw [hsizes] at hs hencl
            cases neg with
            | true => have := hnegY rfl; simp only [applyDelta, if_true] at hYlen; rw [hsizes]; omega
            | false =>
              have := hbig rfl
              simp only [applyDelta, Bool.false_eq_true, if_false] at hYlen; rw [hsizes]; omega
          have := uNotify_items 0 (vs.map fun _ => []) (vs.map (encode t1)) pre post Y base src i
            (offsetOf t1 u1 p) neg amt hb (by simp) hkeys (by simpa using hi) (by rw [hdi]; exact hYlen)
            (by rw [hdi]; exact hnegY) hamt hpos (by rw [hsizes]; exact hfit.1.2) hsum'
            (by simpa using hfit.1.1) (by rw [hdi]; exact hol)
            (by
              rw [hsrc]; simp only [offsetOf, h1', stepPre, List.length_append]
              rw [uHdrOf_length 0 _ _ (by simp) hkeys]; simp [List.map_take]; omega)
          simp only [stepPre, stepPost, hdi, List.map_take, List.map_drop, Nat.add_zero] at this ⊢
          simp only [List.append_assoc] at this ⊢
          exact this
        · cases h1
      · -- umap
        rename_i kw e es i
        split at h1
        · rename_i kx hx
          cases h1
          have gcopy := g
          obtain ⟨⟨top, ie, hok⟩, hv, hfit⟩ := g
          simp only [Shape.okAux, Bool.and_eq_true, Bool.not_eq_true', decide_eq_true_eq] at hok
          simp only [valid, Bool.and_eq_true] at hv
          simp only [fits, Bool.and_eq_true, decide_eq_true_eq] at hfit
          have hvall : es.all (fun kv => valid t1 kv.2) = true := by
            rw [List.all_eq_true] at hv ⊢
            intro x hx'; have := hv.1 x hx'; simp only [Bool.and_eq_true] at this; exact this.2
          have hi : i < es.length := by
            rcases Nat.lt_or_ge i es.length with h | h
            · exact h
            · simp [List.getElem?_eq_none h] at hx
          have hxi : es[i] = kx := by
            have := List.getElem?_eq_getElem hi; rw [hx] at this; exact (Option.some.inj this).symm
          have hdi : (es.map fun kv => encode t1 kv.2)[i]'(by simpa using hi) = encode t1 kx.2 := by simp [hxi]
          have hkeys : ∀ k ∈ es.map (·.1), k.length = kw := by
            intro k hk; obtain ⟨kv, hkv, rfl⟩ := List.mem_map.1 hk
            have := (List.all_eq_true.1 hv.1) kv hkv
            simp only [Bool.and_eq_true, beq_iff_eq] at this; exact this.1.1
          have hsizes := map_encode_length_kv t1 es hvall
          have hu1 : t1 ≠ .unit := by intro hu; subst hu; simp [Shape.okAux] at hok
          have hpos : ∀ d ∈ es.map (fun kv => encode t1 kv.2), 0 < d.length := by
            intro d hd; obtain ⟨x', hx', rfl⟩ := List.mem_map.1 hd
            obtain ⟨j, hj⟩ := List.getElem?_of_mem hx'
            exact size_pos' t1 x'.2 (good_umap_elem kw t1 es j x' gcopy hj).1 hu1 hok.2
          have hol := offsetOf_lt p t1 kx.2 t u g1 hu1 hok.2 h
          have hencl : (encode (.umap kw t1) (.umap es)).length
              = 12 + es.length * (4 + kw) + ((es.map fun kv => encode t1 kv.2).map List.length).sum := by
            rw [encode_umap_uBytes, uBytes, List.length_append, uHdrOf_length kw _ _ (by simp) hkeys,
              sum_map_length_flatten]; simp
          have hsum' : (((es.map fun kv => encode t1 kv.2).set i Y).map List.length).sum < Shape.u32Lim := by
            rw [List.map_set]
            have hs := sum_set ((es.map fun kv => encode t1 kv.2).map List.length) i Y.length (by simpa using hi)
            simp only [List.getElem_map] at hs
            rw [hxi] at hs
            rw [hsizes] at hs hencl
            cases neg with
            | true => have := hnegY rfl; simp only [applyDelta, if_true] at hYlen; rw [hsizes]; omega
            | false =>
              have := hbig rfl
              simp only [applyDelta, Bool.false_eq_true, if_false] at hYlen; rw [hsizes]; omega
          have := uNotify_items kw (es.map (·.1)) (es.map fun kv => encode t1 kv.2) pre post Y base src i
            (offsetOf t1 kx.2 p) neg amt hb (by simp) hkeys (by simpa using hi) (by rw [hdi]; exact hYlen)
            (by rw [hdi]; exact hnegY) hamt hpos (by rw [hsizes]; exact hfit.1.2) hsum'
            (by simpa using hfit.1.1) (by rw [hdi]; exact hol)
            (by
              rw [hsrc]; simp only [offsetOf, h1', stepPre, List.length_append]
              rw [uHdrOf_length kw _ _ (by simp) hkeys]; simp [List.map_take]; omega)
          simp only [stepPre, stepPost, hdi, List.map_take, List.map_drop, Shape.entryW] at this ⊢
          simp only [List.append_assoc] at this ⊢
          exact this
        · cases h1
      · -- enum: no header
        split at h1
        · cases h1
        · cases h1
        · cases h1; simp [stepPre, List.append_assoc]
      · cases h1

end Unsized.Machine
