import Unsized.MachineNodeUlist
import Unsized.MachineAtomic
/-!
# C06 for `UnsizedList` / `UnsizedMap` nodes under ANY refusal schedule
-/
namespace Unsized.Machine
open Common Unsized Unsized.Text

/-- `ulistInsert` only looks at the initialiser through `initSize`, `initFails`, `initBytes`: if the call
succeeds with a twin initialiser of the same size, then with `init` it can only fail with `initFail`. -/
theorem ulistInsert_twin (c : Ctx) (cw : Nat) (e e' : Shape) (b idx n : Nat) (init init' : Init) (key : List Nat)
    (m m2 : Mem) (hs : initSize e' init' = initSize e init)
    (hok : ulistInsert c cw e' b idx n init' key m = (m2, .ok ())) (m' : Mem) (er : Err)
    (h : ulistInsert c cw e b idx n init key m = (m', .error er)) : er = .initFail := by
  unfold ulistInsert at h hok
  simp only [hs] at hok
  split at hok
  · cases hok
  · rename_i hidx
    simp only [hidx, if_false] at h
    split at hok
    · cases hok
    · rename_i m1 hadd
      simp only [hadd] at h
      split at hok
      · cases hok
      · rename_i hlim
        simp only [hlim, if_false] at h
        split at hok
        · cases hok
        · rename_i bs5 hadj
          simp only [hadj] at h
          split at h
          · cases h
          · split at h
            · cases h; rfl
            · cases h

theorem small_len {m : Mem} (sm : Small m) : m.bytes.length < Shape.u32Lim := by
  have := sm.small; have := sm.fitsNow; omega

/-- **`UnsizedList::insert_all_with_offsets` is atomic under any refusal schedule**, except for the known
finding: an error other than `initFail` (the initialiser failing behind the resize) leaves bytes, `orig`
and the schedule alone. The only such errors are `IndexOutOfBounds` and the refused growth. -/
theorem ulistInsert_atomic {s v p t u m kw keys datas} (F : Focus s v p t u m) (N : UNode t u kw keys datas)
    (sm : Small m) (e : Shape) (idx n : Nat) (init : Init) (key : List Nat) (hkey : key.length = kw)
    (m' : Mem) (er : Err) (hne : er ≠ .initFail)
    (h : ulistInsert ⟨s, p⟩ (4 + kw) e (offsetOf s v p) idx n init key m = (m', .error er)) :
    m'.bytes = m.bytes ∧ m'.orig = m.orig ∧ m'.refuse = m.refuse := by
  have hsm := small_len sm
  obtain ⟨hr1, hr2, _⟩ := u_reads F N hsm
  by_cases hidx : idx ≤ datas.length
  · have hoff := u_offset F N hsm idx hidx
    have hEsz := N.size
    have hoffle := sum_take_le (datas.map List.length) idx
    obtain ⟨sz, hszdef⟩ : ∃ x, x = initSize e init := ⟨_, rfl⟩
    rcases F.grow_cases sm (12 + datas.length * (4 + kw) + ((datas.map List.length).take idx).sum)
        ((sz + (4 + kw)) * n) (by omega) with hr | ⟨G, m1, hG, hadd, hb1, ho1, hrf, hroom⟩
    · -- refused
      unfold ulistInsert at h
      simp only [hr2, hoff] at h
      have hpos : offsetOf s v p + 8 + datas.length * (4 + kw) + 4 + ((datas.map List.length).take idx).sum
          = offsetOf s v p + (12 + datas.length * (4 + kw) + ((datas.map List.length).take idx).sum) := by omega
      have h1 : ¬ datas.length < idx := by omega
      rw [hpos, ← hszdef, hr] at h
      simp only [h1, if_false] at h
      cases h; exact ⟨rfl, rfl, rfl⟩
    · -- the growth succeeded: the call can only fail in the initialiser
      exfalso
      have hs : initSize (.fixed (.pod sz)) .default = sz := by simp [initSize, Fixed.size]
      have hb : (initBytes (.fixed (.pod sz)) .default).length = initSize (.fixed (.pod sz)) .default := by
        simp [initBytes, initFixedBytes, zeros, initSize, Fixed.size]
      have hok := ulistInsert_grown F N (.fixed (.pod sz)) idx n .default key hidx hkey hb (by simp [initFails]) G m1
        (by rw [hs]; exact hG) (by rw [hs]; exact hadd) hb1 (by rw [hs]; have := sm.small; omega)
      exact hne (ulistInsert_twin _ _ e _ _ _ _ init _ key m _ (by rw [hs, hszdef]) hok m' er h)
  · unfold ulistInsert at h
    have h1 : datas.length < idx := by omega
    simp only [hr2, h1, if_true] at h
    cases h; exact ⟨rfl, rfl, rfl⟩

/-- `UnsizedList::remove_range` (any range, incl. the `clear` shortcut) can only fail in its validation. -/
theorem ulistRemoveRange_atomic {s v p t u m kw keys datas} (F : Focus s v p t u m) (N : UNode t u kw keys datas)
    (sm : Small m) (lo hi : Nat) (m' : Mem) (er : Err)
    (h : ulistRemoveRange ⟨s, p⟩ (4 + kw) (offsetOf s v p) lo hi m = (m', .error er)) : m' = m := by
  have hsm := small_len sm
  by_cases h1 : hi < lo
  · rw [ulistRemoveRange_range F N hsm lo hi h1] at h; cases h; rfl
  · by_cases h2 : datas.length < hi
    · rw [ulistRemoveRange_ioob F N hsm lo hi h1 h2] at h; cases h; rfl
    · obtain ⟨m1, hm1, _⟩ := ulistRemoveRange_all_bytes F N hsm lo hi (by omega) (by omega)
      rw [hm1] at h; cases h

/-- `UnsizedList::clear` never fails on canonical bytes. -/
theorem ulistClear_atomic {s v p t u m kw keys datas} (F : Focus s v p t u m) (N : UNode t u kw keys datas)
    (sm : Small m) (m' : Mem) (er : Err)
    (h : ulistClear ⟨s, p⟩ (4 + kw) (offsetOf s v p) m = (m', .error er)) : m' = m := by
  obtain ⟨m1, hm1, _⟩ := ulistClear_bytes F N (small_len sm)
  rw [hm1] at h; cases h

/-- `UnsizedList::pop` never fails on canonical bytes. -/
theorem ulistPop_atomic {s v p t u m kw keys datas} (F : Focus s v p t u m) (N : UNode t u kw keys datas)
    (sm : Small m) (m' : Mem) (er : Err)
    (h : ulistPop ⟨s, p⟩ (4 + kw) (offsetOf s v p) m = (m', .error er)) : m' = m := by
  unfold ulistPop at h
  simp only [] at h
  split at h
  · cases h
  · split at h
    · rename_i m1 e1 hrr
      cases h
      exact ulistRemoveRange_atomic F N sm _ _ _ _ hrr
    · cases h

/-- An `UnsizedList` node is stored as `uBytes` with empty entry payloads. -/
theorem UNode.ofUlist (e : Shape) (vs : List Val) :
    UNode (.ulist e) (.useq vs) 0 (vs.map fun _ => []) (vs.map (encode e)) :=
  ⟨encode_ulist_uBytes e vs, by simp, by intro k hk; simp only [List.mem_map] at hk; obtain ⟨_, _, rfl⟩ := hk; rfl⟩

theorem same3' {α : Type} {m m'' : Mem} {r : Except Err α} {e : Err}
    (hh : (m, r) = (m'', (Except.error e : Except Err α))) :
    m''.bytes = m.bytes ∧ m''.orig = m.orig ∧ m''.refuse = m.refuse := by
  cases hh; exact ⟨rfl, rfl, rfl⟩

/-- **Every non-generic op on an `UnsizedList` node is atomic under any refusal schedule**, up to the known
finding `ulist_insert_init_fails_after_resize` (`initFail`). -/
theorem ulist_atomic {s v p m} {el : Shape} {vs : List Val}
    (F : Focus s v p (.ulist el) (.useq vs) m) (sm : Small m) (op : Op)
    (hg : genericOp op = false) (m' : Mem) (e : Err) (hne : e ≠ .initFail)
    (h : applyAt ⟨s, p⟩ (.ulist el) (offsetOf s v p) op m = (m', .error e)) :
    m'.bytes = m.bytes ∧ m'.orig = m.orig ∧ m'.refuse = m.refuse := by
  have N := UNode.ofUlist el vs
  have eqm : ∀ {m'' : Mem}, m'' = m → m''.bytes = m.bytes ∧ m''.orig = m.orig ∧ m''.refuse = m.refuse := by
    intro m'' hh; subst hh; exact ⟨rfl, rfl, rfl⟩
  cases op <;> simp [genericOp] at hg <;> simp only [applyAt] at h
  all_goals first
    | exact same3' h
    | exact eqm (ulistRemoveRange_atomic F N sm _ _ m' e (unitRes_err_inv h))
    | exact eqm (ulistClear_atomic F N sm m' e (unitRes_err_inv h))
    | exact eqm (ulistPop_atomic F N sm m' e h)
    | exact ulistInsert_atomic F N sm el _ _ _ [] rfl m' e hne (unitRes_err_inv h)
    | skip
  · -- uinsertArr
    split at h
    · exact ulistInsert_atomic F N sm el _ _ _ [] rfl m' e hne (unitRes_err_inv h)
    · exact same3' h
  · -- uget
    split at h
    · exact same3' h
    · cases h

/-! ## `UnsizedMap` -/

/-- `set_data_inner` with a possibly failing initialiser: an error other than `initFail` (known finding
`set_data_inner_init_fails_after_resize`) leaves everything alone. -/
theorem setDataInner_atomic' {s v p t u m} (F : Focus s v p t u m) (sm : Small m) (newBytes : List Nat)
    (fails : Bool) (m' : Mem) (e : Err) (hne : e ≠ .initFail)
    (h : setDataInner ⟨s, p⟩ t (offsetOf s v p) newBytes fails m = (m', .error e)) :
    m'.bytes = m.bytes ∧ m'.orig = m.orig ∧ m'.refuse = m.refuse := by
  cases fails with
  | false => exact setDataInner_atomic F sm newBytes m' e h
  | true =>
    unfold setDataInner at h
    rw [extent_at F] at h
    simp only [if_true] at h
    by_cases h1 : (encode t u).length < newBytes.length
    · simp only [h1, if_true] at h
      rcases F.grow_cases sm 0 (newBytes.length - (encode t u).length) (by omega) with hr | ⟨G, m1, _, hadd, _⟩
      · rw [Nat.add_zero] at hr; rw [hr] at h; simp only [] at h; cases h; exact ⟨rfl, rfl, rfl⟩
      · rw [Nat.add_zero] at hadd; rw [hadd] at h; simp only [] at h; cases h; exact absurd rfl hne
    · simp only [h1, if_false] at h
      by_cases h2 : newBytes.length < (encode t u).length
      · simp only [h2, if_true] at h
        obtain ⟨m1, hrem, _⟩ := F.shrink 0 ((encode t u).length - newBytes.length) (by omega) (by omega)
        rw [Nat.add_zero] at hrem
        rw [hrem] at h; simp only [] at h; cases h; exact absurd rfl hne
      · simp only [h2, if_false] at h; cases h; exact absurd rfl hne

/-- An `UnsizedMap` node is stored as `uBytes` with the keys as entry payloads. -/
theorem UNode.ofUmap (kw : Nat) (e : Shape) (es : List (List Nat × Val)) (g : Good (.umap kw e) (.umap es)) :
    UNode (.umap kw e) (.umap es) kw (es.map (·.1)) (es.map fun kv => encode e kv.2) := by
  refine ⟨encode_umap_uBytes kw e es, by simp, ?_⟩
  intro k hk
  simp only [List.mem_map] at hk
  obtain ⟨kx, hkx, rfl⟩ := hk
  obtain ⟨i, hi, rfl⟩ := List.getElem_of_mem hkx
  exact (good_umap_elem kw e es i es[i] g (by simp [hi])).2.2

/-- What `umap_atomic` needs to know about an existing key: the element accessor `index_exclusive(i)` is a
`Focus` one level down, at the address the machine computes. (Provided by `Focus.elem` of
`MachineNodeUmap.lean`.) -/
def ChildFocus (s : Shape) (v : Val) (p : List Step) (kw : Nat) (e : Shape) (m : Mem) : Prop :=
  ∀ (k : List Nat) (i : Nat), search (umapKeys kw (offsetOf s v p) m.bytes) (rdLE k) 0 = .at i →
    ∃ x, Focus s v (p ++ [.elem i]) e x m
      ∧ offsetOf s v (p ++ [.elem i])
          = offsetOf s v p + 8 + rd32 m.bytes (offsetOf s v p + 4) * Shape.entryW kw + 4
              + rd32 m.bytes (offsetOf s v p + 8 + i * Shape.entryW kw)

/-- `UnsizedMap::insert(k, init)` is atomic up to `initFail`. -/
theorem umapInsert_atomic {s v p m} {kw : Nat} {el : Shape} {es : List (List Nat × Val)}
    (F : Focus s v p (.umap kw el) (.umap es) m) (sm : Small m) (hc : ChildFocus s v p kw el m)
    (k : List Nat) (hk : k.length = kw) (init : Init) (m' : Mem) (e : Err) (hne : e ≠ .initFail)
    (h : umapInsert ⟨s, p⟩ kw el (offsetOf s v p) k init m = (m', .error e)) :
    m'.bytes = m.bytes ∧ m'.orig = m.orig ∧ m'.refuse = m.refuse := by
  have N := UNode.ofUmap kw el es F.sub
  unfold umapInsert at h
  simp only [] at h
  split at h
  · rename_i i hse
    obtain ⟨x, Fc, hoff⟩ := hc k i hse
    rw [← hoff] at h
    split at h
    · rename_i m1 e1 hrr
      cases h
      exact setDataInner_atomic' Fc sm _ _ _ _ hne hrr
    · cases h
  · split at h
    · rename_i m1 e1 hrr
      cases h
      exact ulistInsert_atomic F N sm el _ _ _ k hk _ _ hne hrr
    · cases h

/-- **Every non-generic op on an `UnsizedMap` node is atomic under any refusal schedule**, up to the known
findings (`initFail`). -/
theorem umap_atomic {s v p m} {kw : Nat} {el : Shape} {es : List (List Nat × Val)}
    (F : Focus s v p (.umap kw el) (.umap es) m) (sm : Small m) (hc : ChildFocus s v p kw el m) (op : Op)
    (hg : genericOp op = false) (m' : Mem) (e : Err) (hne : e ≠ .initFail)
    (h : applyAt ⟨s, p⟩ (.umap kw el) (offsetOf s v p) op m = (m', .error e)) :
    m'.bytes = m.bytes ∧ m'.orig = m.orig ∧ m'.refuse = m.refuse := by
  have N := UNode.ofUmap kw el es F.sub
  have eqm : ∀ {m'' : Mem}, m'' = m → m''.bytes = m.bytes ∧ m''.orig = m.orig ∧ m''.refuse = m.refuse := by
    intro m'' hh; subst hh; exact ⟨rfl, rfl, rfl⟩
  cases op <;> simp [genericOp] at hg <;> simp only [applyAt, Shape.entryW] at h
  all_goals first
    | exact same3' h
    | exact eqm (ulistRemoveRange_atomic F N sm _ _ m' e (unitRes_err_inv h))
    | skip
  · -- uget
    split at h
    · exact same3' h
    · cases h
  · -- uminsert
    split at h
    · rename_i hv
      simp only [Bool.and_eq_true, beq_iff_eq, decide_eq_true_eq] at hv
      exact umapInsert_atomic F sm hc _ hv.1 _ m' e hne h
    · exact same3' h
  · -- uminsertArr
    split at h
    · rename_i hv
      simp only [Bool.and_eq_true, beq_iff_eq, decide_eq_true_eq] at hv
      exact umapInsert_atomic F sm hc _ hv.1.1 _ m' e hne h
    · exact same3' h
  · -- umremove
    split at h
    · split at h
      · cases h
      · split at h
        · rename_i m1 e1 hrr
          cases h
          exact eqm (ulistRemoveRange_atomic F N sm _ _ _ _ hrr)
        · cases h
    · exact same3' h

end Unsized.Machine
