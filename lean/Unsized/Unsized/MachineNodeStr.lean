import Unsized.MachineNodeMisc
/-!
# Node-level refinement: `UnsizedString` (`str_set` = clear then push_all)
-/
namespace Unsized.Machine
open Common Unsized Unsized.Text

theorem str_enc (lw : Nat) (l : List Nat) :
    encode (.str lw) (.bytes l) = leN lw (l.map fun b => [b]).length ++ (l.map fun b => [b]).flatten := by
  simp [encode, flatten_singletons]

theorem good_str_of {lw : Nat} {l : List Nat} (hok : OkS (.str lw)) (hu : utf8Valid l = true) (hw : BytesWF l)
    (hl : l.length < 256 ^ lw) (hs : l.length < Shape.usizeLim) : Good (.str lw) (.bytes l) :=
  ⟨hok, by simp [valid, hu, hw], by simp [fits, hl, hs]⟩

/-- Ops on an `UnsizedString` node. `str_set` = `clear` then `push_all`: on an error the string stays
cleared (composite op). -/
theorem str_refines {s v p m} {lw : Nat} {l : List Nat} (F : Focus s v p (.str lw) (.bytes l) m) (c : Calm m)
    (op : Op) : Refines s v p (.str lw) (.bytes l) m op := by
  cases op with
  | touch => exact touch_refines F
  | replace nv => exact replace_refines F c nv
  | reset => exact reset_refines F c
  | strSet sb =>
    unfold Refines
    simp only [Spec.applyNode, applyAt]
    by_cases hx : (utf8Valid sb && decide (BytesWF sb)) = true
    · simp only [hx, if_true]
      have hx' := hx
      simp only [Bool.and_eq_true, decide_eq_true_eq] at hx'
      -- step 1: clear
      obtain ⟨_, hv, hf⟩ := F.sub
      simp only [fits, Bool.and_eq_true, decide_eq_true_eq] at hf
      have hes : ∀ x ∈ l.map (fun b => [b]), x.length = 1 := by
        intro x hx; obtain ⟨b, _, rfl⟩ := List.mem_map.1 hx; rfl
      have hrd0 : rdN m.bytes (offsetOf s v p) lw = l.length := by
        have := enc_rdN p s v _ _ F.good F.res 0 lw (by simp [encode])
        rw [Nat.add_zero] at this
        rw [F.bytes, this]; simp only [encode]; exact rdN_leN_zero lw _ _ hf.1
      obtain ⟨m1, hm1, hb1, ho1, hr1, hg1⟩ := listRemoveRange_bytes F 1 lw (l.map fun b => [b]) (str_enc lw l) hes
        (by simpa using hf.1) 0 l.length (by omega) (by simp)
      have g0 : Good (.str lw) (.bytes []) := good_str_of F.sub.ok (by decide) (by simp) (Nat.pow_pos (by omega)) (by decide)
      have hb1' : m1.bytes = plug s v p (encode (.str lw) (.bytes [])) := by
        have hra : Spec.removeRange (l.map fun b => [b]) 0 l.length = [] := by
          have := removeRange_all (l.map fun b => [b]); simpa using this
        rw [hb1, hra]; simp [encode]
      have hpl0 := plug_length p s v _ _ F.good F.res (encode (.str lw) (.bytes []))
      have hle := offsetOf_le p s v _ _ F.good F.res
      have hcf := c.fitsNow; have hcs := c.small
      have hsm1 : m1.bytes.length < Shape.u32Lim := by
        rw [hb1']; rw [F.bytes] at hcf
        simp only [encode, List.length_append, leN_length, List.length_nil] at hpl0 hle ⊢; omega
      have F1 := F.finish (.bytes []) g0 m1 hb1' hsm1
      have c1 : Calm m1 := c.next ho1 hr1 (by
        rw [hb1']; rw [F.bytes] at hcf
        simp only [encode, List.length_append, leN_length, List.length_nil] at hpl0 hle ⊢; omega)
      have hrd1 : rdN m1.bytes (offsetOf s v p) lw = 0 := by
        have := enc_rdN p s _ _ _ F1.good F1.res 0 lw (by simp [encode])
        rw [Nat.add_zero, (subst_good p s v _ _ (.bytes []) F.good F.res g0 (by rw [← hb1']; exact hsm1)).2.2.2.1] at this
        rw [F1.bytes, this]; simp only [encode, List.length_nil]; exact rdN_leN_zero lw 0 _ (Nat.pow_pos (by omega))
      have hstr : strSet ⟨s, p⟩ lw (offsetOf s v p) sb m
          = listInsertAll ⟨s, p⟩ 1 lw (offsetOf s v p) 0 (sb.map fun x => [x]) m1 := by
        unfold strSet listClear
        rw [hrd0, hm1]; simp only [hrd1]
      rw [hstr]
      have hoff1 := (subst_good p s v _ _ (.bytes []) F.good F.res g0 (by rw [← hb1']; exact hsm1)).2.2.2.1
      have hplug1 := (subst_good p s v _ _ (.bytes []) F.good F.res g0 (by rw [← hb1']; exact hsm1)).2.2.2.2
      by_cases hov : 256 ^ lw ≤ sb.length
      · simp only [hov, if_true]
        exact Or.inl rfl
      · simp only [hov, if_false]
        intro hroom
        have hpl1 := plug_length p s v _ _ F.good F.res (encode (.str lw) (.bytes sb))
        have hins := listInsertAll_bytes F1 c1 1 lw [] (by simp [encode]) (by simp) (Nat.pow_pos (by omega)) 0
          (sb.map fun x => [x]) (by intro x hx; obtain ⟨b, _, rfl⟩ := List.mem_map.1 hx; rfl) (by simp)
          (by simpa using hov) (by
            rw [← F1.bytes, hb1', ho1]
            simp only [encode, List.length_append, leN_length, List.length_nil, List.length_map] at hpl0 hpl1 hroom ⊢
            omega)
        rw [hoff1] at hins
        obtain ⟨m2, hm2, hb2, ho2, hr2⟩ := hins
        rw [hm2]
        refine ⟨m2, by rw [unitRes_ok], ?_, by rw [ho2, ho1], by rw [hr2, hr1]⟩
        have g2 : Good (.str lw) (.bytes sb) := by
          have := F.small c _ hroom
          simp only [encode, List.length_append, leN_length] at hpl1 this hle
          have h64 := u32_lt_usize
          exact good_str_of F.sub.ok hx'.1 hx'.2 (by omega) (by omega)
        have hb2' : m2.bytes = plug s v p (encode (.str lw) (.bytes sb)) := by
          rw [hb2, hplug1]; simp [Spec.insertAt, encode, flatten_singletons]
        exact F.finish _ g2 m2 hb2' (by rw [hb2']; exact F.small c _ hroom)
    · simp [hx]
  | _ => unfold Refines; simp [Spec.applyNode, applyAt]

end Unsized.Machine
