import Unsized.PtrHonestM3
namespace Unsized.Ptr
open Common Unsized Unsized.Text Unsized.Machine Unsized.PtrT Unsized.PtrM

/-! ## `start_ptr` of an honest object -/

/-- The first own address of a pointer object (any depth). -/
def firstAddr : PtrTree → Option Nat
  | .leaf _ a => some a
  | .ulist _ a _ _ _ _ _ => some a
  | .start a _ _ => some a
  | .node (k :: _) => firstAddr k
  | .node [] => none

theorem startAddr_first (T : PtrTree) (a : Nat) (h : startAddr T = some a) : firstAddr T = some a := by
  cases T with
  | leaf k ad => simpa [startAddr, firstAddr] using h
  | ulist cw ad len lo hi inner pmb => simpa [startAddr, firstAddr] using h
  | start ad idx po => simpa [startAddr, firstAddr] using h
  | node ks =>
    cases ks with
    | nil => simp [startAddr] at h
    | cons k ks =>
      cases k with
      | leaf k ad => simpa [startAddr, firstAddr] using h
      | ulist cw ad len lo hi inner pmb => simpa [startAddr, firstAddr] using h
      | start ad idx po => simpa [startAddr, firstAddr] using h
      | node ks2 =>
        cases ks2 with
        | nil => simp [startAddr] at h
        | cons k2 ks2 =>
          cases k2 <;> first | (simpa [startAddr, firstAddr] using h) | (simp [startAddr] at h)

def FirstOK (s : Shape) : Prop :=
  ∀ top ie, Shape.okAux top ie s = true → ∀ v, valid s v = true → ∀ (b : Nat) (R : PtrTree) (a : Nat),
    Hon s v b R → firstAddr R = some a → (∀ d i, s ≠ .disc d i) → a = b

theorem first_hon (s : Shape) : FirstOK s := by
  induction s using Shape.induct' with
  | struct sized fs ih =>
    intro top ie hok v hv b R a h hf _
    cases v <;> simp only [valid, Bool.false_eq_true] at hv
    rename_i sz vs
    simp only [Shape.okAux, Bool.and_eq_true] at hok
    simp only [Bool.and_eq_true] at hv
    simp only [Hon] at h
    obtain ⟨ks, rfl, hks⟩ := h
    by_cases he : sized.isEmpty = true
    · have hs0 : Fixed.sizeList sized = 0 := by
        cases sized with
        | nil => rfl
        | cons _ _ => simp at he
      simp only [he, if_true] at hf
      cases fs with
      | nil => simp at hok
      | cons f fs =>
        cases vs with
        | nil => simp [validFields] at hv
        | cons x xs =>
          simp only [HonL] at hks
          obtain ⟨k, ks', rfl, hk, _⟩ := hks
          simp only [firstAddr] at hf
          simp only [validFields, Bool.and_eq_true] at hv
          have hfo : Shape.okAux false false f = true := by
            cases fs with
            | nil => simpa [Shape.okFields] using hok.2
            | cons g gs => exact (okFields_cons2 f g gs hok.2).1
          have := ih f List.mem_cons_self false false hfo x hv.2.1 _ k a hk hf (by
            intro d i hd; subst hd; simp [Shape.okAux] at hfo)
          omega
    · simp only [he, Bool.false_eq_true, if_false, firstAddr] at hf
      simpa using hf.symm
  | enum ds ps ih =>
    intro top ie hok v hv b R a h hf _
    cases v <;> simp only [valid, Bool.false_eq_true] at hv
    simp only [Hon] at h
    obtain ⟨po, rfl, _⟩ := h
    simpa [firstAddr] using hf.symm
  | ulist e ih =>
    intro top ie hok v hv b R a h hf _
    cases v <;> simp only [valid, Bool.false_eq_true] at hv
    simp only [Hon] at h
    obtain ⟨inner, pmb, rfl, _⟩ := h
    simpa [firstAddr] using hf.symm
  | umap kw e ih =>
    intro top ie hok v hv b R a h hf _
    cases v <;> simp only [valid, Bool.false_eq_true] at hv
    simp only [Hon] at h
    obtain ⟨inner, pmb, rfl, _⟩ := h
    simpa [firstAddr] using hf.symm
  | disc d inner ih => intro top ie hok v hv b R a h hf hnd; exact absurd rfl (hnd d inner)
  | unit => intro top ie hok v hv b R a h hf _; simp only [Hon] at h; subst h; simp [treeOf, firstAddr] at hf
  | _ =>
    intro top ie hok v hv b R a h hf _
    simp only [Hon] at h; subst h
    simpa [treeOf, firstAddr] using hf.symm

/-- `start_ptr` of an honest pointer object, when it is defined, is the address of the value. -/
theorem startAddr_hon (t : Shape) (u : Val) (B : Nat) (T : PtrTree) (a : Nat) (g : Good t u) (hT : Hon t u B T)
    (hnd : ∀ d i, t ≠ .disc d i) (h : startAddr T = some a) : a = B := by
  obtain ⟨top, ie, hok⟩ := g.ok
  exact first_hon t top ie hok u g.valid B T a hT (startAddr_first T a h) hnd

/-! ## Navigation with the C03 machine's `locTree` -/

theorem tpath_append (p : List Step) : ∀ (s : Shape) (v : Val) (t : Shape) (u : Val) (q : List Step),
    resolve s v p = .ok (t, u) → tpath s v (p ++ q) = tpath s v p ++ tpath t u q := by
  induction p with
  | nil => intro s v t u q h; simp [resolve] at h; obtain ⟨rfl, rfl⟩ := h; simp [tpath]
  | cons st p ih =>
    intro s v t u q h
    simp only [resolve] at h
    cases h1 : resolve1 s v st with
    | error e => simp [h1] at h
    | ok tu =>
      obtain ⟨t1, u1⟩ := tu
      simp only [h1] at h
      simp only [List.cons_append, tpath, h1, ih t1 u1 t u q h, List.append_assoc]

/-- The live pointer the C03 machine finds at a level (`locTree`: follow fields, cached inner pointers,
the stored variant) is the one `HonPath` talks about. -/
theorem locTree_honPath (p : List Step) : ∀ (s : Shape) (v : Val) (t : Shape) (u : Val) (b : Nat) (R T : PtrTree),
    Good s v → resolve s v p = .ok (t, u) → HonPath s v b p R T → locTree s R p = some (tpath s v p, t, T) := by
  induction p with
  | nil =>
    intro s v t u b R T g h hp
    simp [resolve] at h; obtain ⟨rfl, rfl⟩ := h
    simp only [HonPath] at hp; subst hp
    simp [locTree, tpath]
  | cons st p ih =>
    intro s v t u b R T g h hp
    simp only [resolve] at h
    cases h1 : resolve1 s v st with
    | error e => simp [h1] at h
    | ok tu =>
      obtain ⟨t1, u1⟩ := tu
      simp only [h1] at h
      simp only [HonPath, h1] at hp
      obtain ⟨child, hstep, hrest⟩ := hp
      have g1 := (step_facts s v st t1 u1 g h1).1
      have ihc := ih t1 u1 t u _ child T g1 h hrest
      obtain ⟨n1, n2⟩ := step_nav s v st t1 u1 g h1 b R child hstep
      clear n2
      have h1' := h1
      unfold resolve1 at h1
      split at h1
      · rename_i sized fs sz vs i
        split at h1
        · rename_i f x hf hx
          cases h1
          simp only [HonStep] at hstep
          obtain ⟨ks, hks, rfl⟩ := hstep
          by_cases he : sized.isEmpty = true
          · simp only [he, if_true, tstep, subtreeAt] at n1 ⊢
            cases hk : (ks.set i child)[i]? with
            | none => simp [hk] at n1
            | some k =>
              simp only [hk] at n1; cases n1
              simp only [locTree, kidIdx, he, if_true, hf, hk, ihc, tpath, h1', tstep, List.singleton_append]
          · simp only [he, Bool.false_eq_true, if_false, tstep, subtreeAt] at n1 ⊢
            cases hk : (PtrTree.leaf .checked b :: ks.set i child)[i + 1]? with
            | none => simp [hk] at n1
            | some k =>
              simp only [hk] at n1; cases n1
              simp only [locTree, kidIdx, he, Bool.false_eq_true, if_false, hf, hk, ihc, tpath, h1', tstep,
                List.singleton_append]
        · cases h1
      · rename_i e vs i
        split at h1
        · cases h1
          simp only [HonStep] at hstep
          obtain ⟨pmb, rfl⟩ := hstep
          simp only [locTree, ihc, tpath, h1', tstep, List.singleton_append]
        · cases h1
      · rename_i kw e es i
        split at h1
        · cases h1
          simp only [HonStep] at hstep
          obtain ⟨pmb, rfl⟩ := hstep
          simp only [locTree, ihc, tpath, h1', tstep, List.cons_append, List.nil_append]
        · cases h1
      · rename_i ds ps idx pl
        split at h1
        · cases h1
        · cases h1
        · rename_i t' hnu ht
          cases h1
          simp only [HonStep] at hstep
          subst hstep
          simp only [locTree, ht, ihc, tpath, h1', tstep, List.singleton_append]
      · cases h1

end Unsized.Ptr
