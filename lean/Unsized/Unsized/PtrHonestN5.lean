import Unsized.PtrHonestN4
namespace Unsized.Ptr
open Common Unsized Unsized.Text Unsized.Machine Unsized.PtrT Unsized.PtrM

theorem setInsertAll_err (ew lw : Nat) (xs : List (List Nat)) : ∀ (es : List (List Nat)) (n : Nat) (er : Err),
    Spec.setInsertAll ew lw xs es n = .error er → er = .toPrim := by
  induction xs with
  | nil => intro es n er h; simp [Spec.setInsertAll] at h
  | cons x xs ih =>
    intro es n er h
    simp only [Spec.setInsertAll] at h
    split at h
    · exact ih _ _ er h
    · split at h
      · cases h; rfl
      · exact ih _ _ er h

theorem mapInsertAll_err (kw lw : Nat) (kvs : List (List Nat × List Nat)) : ∀ (es : List (List Nat)) (n : Nat) (er : Err),
    Spec.mapInsertAll kw lw kvs es n = .error er → er = .toPrim := by
  induction kvs with
  | nil => intro es n er h; simp [Spec.mapInsertAll] at h
  | cons kx kvs ih =>
    intro es n er h
    obtain ⟨k, x⟩ := kx
    simp only [Spec.mapInsertAll] at h
    split at h
    · exact ih _ _ er h
    · split at h
      · cases h; rfl
      · exact ih _ _ er h

/-- The side condition of a composite op: the model either succeeds inside the allocation or rejects the
arguments (`bad-op`); a composite op failing half-way is the registered finding `map_set_insert_all_partial` /
`unsized_string_set_partial`. -/
def CompOk (s : Shape) (v : Val) (π : List Step) (t : Shape) (u : Val) (op : Op) (orig : Nat) : Prop :=
  match Spec.applyNode t u op with
  | .ok (u', _) => (plug s v π (encode t u')).length ≤ orig + maxIncrease
  | .error e => e = .bad

theorem opAt_hon_sinsertAll {w : World} {s : Shape} {v : Val} (c : PCtx w .A s v) (π : List Step) (e : Fixed) (lw : Nat)
    (es : List (List Nat)) (hres : resolve s v π = .ok (.set e lw, .seq es)) (T : PtrTree)
    (hp : HonPath s v w.a.base π w.a.root T) (hT : Hon (.set e lw) (.seq es) (w.a.base + offsetOf s v π) T)
    (xs : List (List Nat)) (hcmd : CompOk s v π (.set e lw) (.seq es) (.sinsertAll xs) w.a.mem.orig) :
    StepRes w s v π (.set e lw) (.seq es) (.sinsertAll xs)
      (opAt w .A ⟨s, π⟩ (tpath s v π) (.set e lw) (.sinsertAll xs)) := by
  have F : Focus s v π (.set e lw) (.seq es) w.a.mem := ⟨c.good, hres, c.bytes⟩
  have cm := c.calm
  simp only [World.get] at cm
  unfold CompOk at hcmd
  by_cases hval : xs.all (validE e) = true
  · have hval' : ∀ x ∈ xs, validE e x = true := List.all_eq_true.1 hval
    simp only [Spec.applyNode, hval, if_true] at hcmd
    cases hsp : Spec.setInsertAll e.size lw xs es 0 with
    | error er =>
      rw [hsp] at hcmd
      simp only [] at hcmd
      have := setInsertAll_err _ _ _ _ _ _ hsp
      rw [hcmd] at this; cases this
    | ok r =>
      obtain ⟨es', n'⟩ := r
      rw [hsp] at hcmd
      simp only [] at hcmd
      have hspec : Spec.applyNode (.set e lw) (.seq es) (.sinsertAll xs) = .ok (.seq es', .count n') := by
        simp only [Spec.applyNode, hval, if_true, hsp]
      obtain ⟨m', evs, _, hm', _, _, F', ho', hr'⟩ := run_setInsertAll (amb_of_ctx c) w π e lw T xs v w.a.mem es 0
        w.a.root F cm rfl hp hT hval' es' n' hsp hcmd
      refine opAt_hon_comp_core c π _ _ hres T hp hT rfl _ (fun _ _ => rfl) rfl m' (.count n') evs (.seq es')
        (by simp only [applyAtT, hval, if_true]; exact hm') hspec ?_ F' ho' hr'
        (by rw [subst_encode π s v _ _ _ c.good hres]; exact hcmd)
      intro R hpR
      obtain ⟨m2, evs2, R', hm2, hrun, hp', _⟩ := run_setInsertAll (amb_of_ctx c) w π e lw T xs v w.a.mem es 0
        R F cm rfl hpR hT hval' es' n' hsp hcmd
      rw [hm'] at hm2
      simp only [Prod.mk.injEq] at hm2
      obtain ⟨_, rfl⟩ := hm2
      exact ⟨R', hrun, hp'⟩
  · exact opAt_hon_bad c π _ _ hres T hp hT _ ⟨w.a.mem, [], by simp only [applyAtT, hval, Bool.false_eq_true, if_false]⟩


theorem opAt_hon_minsertAll {w : World} {s : Shape} {v : Val} (c : PCtx w .A s v) (π : List Step) (kw : Nat) (f : Fixed)
    (lw : Nat) (es : List (List Nat)) (hres : resolve s v π = .ok (.map kw f lw, .seq es)) (T : PtrTree)
    (hp : HonPath s v w.a.base π w.a.root T) (hT : Hon (.map kw f lw) (.seq es) (w.a.base + offsetOf s v π) T)
    (kvs : List (List Nat × List Nat)) (hcmd : CompOk s v π (.map kw f lw) (.seq es) (.minsertAll kvs) w.a.mem.orig) :
    StepRes w s v π (.map kw f lw) (.seq es) (.minsertAll kvs)
      (opAt w .A ⟨s, π⟩ (tpath s v π) (.map kw f lw) (.minsertAll kvs)) := by
  have F : Focus s v π (.map kw f lw) (.seq es) w.a.mem := ⟨c.good, hres, c.bytes⟩
  have cm := c.calm
  simp only [World.get] at cm
  unfold CompOk at hcmd
  by_cases hval : kvs.all (fun kx => kx.1.length == kw && decide (BytesWF kx.1) && validE f kx.2) = true
  · have hval' : ∀ kx ∈ kvs, kx.1.length = kw ∧ BytesWF kx.1 ∧ validE f kx.2 = true := by
      intro kx hkx
      have := List.all_eq_true.1 hval kx hkx
      simp only [Bool.and_eq_true, beq_iff_eq, decide_eq_true_eq] at this
      exact ⟨this.1.1, this.1.2, this.2⟩
    simp only [Spec.applyNode, hval, if_true] at hcmd
    cases hsp : Spec.mapInsertAll kw lw kvs es 0 with
    | error er =>
      rw [hsp] at hcmd
      simp only [] at hcmd
      have := mapInsertAll_err _ _ _ _ _ _ hsp
      rw [hcmd] at this; cases this
    | ok r =>
      obtain ⟨es', n'⟩ := r
      rw [hsp] at hcmd
      simp only [] at hcmd
      have hspec : Spec.applyNode (.map kw f lw) (.seq es) (.minsertAll kvs) = .ok (.seq es', .count n') := by
        simp only [Spec.applyNode, hval, if_true, hsp]
      obtain ⟨m', evs, _, hm', _, _, F', ho', hr'⟩ := run_mapInsertAll (amb_of_ctx c) w π kw f lw T kvs v w.a.mem es 0
        w.a.root F cm rfl hp hT hval' es' n' hsp hcmd
      refine opAt_hon_comp_core c π _ _ hres T hp hT rfl _ (fun _ _ => rfl) rfl m' (.count n') evs (.seq es')
        (by simp only [applyAtT, hval, if_true]; exact hm') hspec ?_ F' ho' hr'
        (by rw [subst_encode π s v _ _ _ c.good hres]; exact hcmd)
      intro R hpR
      obtain ⟨m2, evs2, R', hm2, hrun, hp', _⟩ := run_mapInsertAll (amb_of_ctx c) w π kw f lw T kvs v w.a.mem es 0
        R F cm rfl hpR hT hval' es' n' hsp hcmd
      rw [hm'] at hm2
      simp only [Prod.mk.injEq] at hm2
      obtain ⟨_, rfl⟩ := hm2
      exact ⟨R', hrun, hp'⟩
  · exact opAt_hon_bad c π _ _ hres T hp hT _ ⟨w.a.mem, [], by simp only [applyAtT, hval, Bool.false_eq_true, if_false]⟩

theorem opAt_hon_strSet {w : World} {s : Shape} {v : Val} (c : PCtx w .A s v) (π : List Step) (lw : Nat) (l : List Nat)
    (hres : resolve s v π = .ok (.str lw, .bytes l)) (T : PtrTree)
    (hp : HonPath s v w.a.base π w.a.root T) (hT : Hon (.str lw) (.bytes l) (w.a.base + offsetOf s v π) T)
    (sb : List Nat) (hcmd : CompOk s v π (.str lw) (.bytes l) (.strSet sb) w.a.mem.orig) :
    StepRes w s v π (.str lw) (.bytes l) (.strSet sb)
      (opAt w .A ⟨s, π⟩ (tpath s v π) (.str lw) (.strSet sb)) := by
  have F : Focus s v π (.str lw) (.bytes l) w.a.mem := ⟨c.good, hres, c.bytes⟩
  have cm := c.calm
  simp only [World.get] at cm
  unfold CompOk at hcmd
  by_cases hx : (utf8Valid sb && decide (BytesWF sb)) = true
  · simp only [Spec.applyNode, hx, if_true] at hcmd
    by_cases hov : 256 ^ lw ≤ sb.length
    · simp only [hov, if_true] at hcmd; cases hcmd
    · simp only [hov, if_false] at hcmd
      have hspec : Spec.applyNode (.str lw) (.bytes l) (.strSet sb) = .ok (.bytes sb, .unit) := by
        simp only [Spec.applyNode, hx, if_true, hov, if_false]
      obtain ⟨m2, evs, _, hm2, _, _, F', ho', hr'⟩ := run_strSet (amb_of_ctx c) w π lw l sb T w.a.root v w.a.mem F cm rfl
        hp hT hx hov hcmd
      refine opAt_hon_comp_core c π _ _ hres T hp hT rfl _ (fun _ _ => rfl) rfl m2 .unit evs (.bytes sb)
        (by simp only [applyAtT, hx, if_true, hm2]; rfl) hspec ?_ F' ho' hr'
        (by rw [subst_encode π s v _ _ _ c.good hres]; exact hcmd)
      intro R hpR
      obtain ⟨m3, evs3, R', hm3, hrun, hp', _⟩ := run_strSet (amb_of_ctx c) w π lw l sb T R v w.a.mem F cm rfl
        hpR hT hx hov hcmd
      rw [hm2] at hm3
      simp only [Prod.mk.injEq] at hm3
      obtain ⟨_, rfl⟩ := hm3
      exact ⟨R', hrun, hp'⟩
  · exact opAt_hon_bad c π _ _ hres T hp hT _ ⟨w.a.mem, [], by simp only [applyAtT, hx, Bool.false_eq_true, if_false]⟩


theorem good_set_val (e : Fixed) (lw : Nat) (u : Val) (g : Good (.set e lw) u) : ∃ es, u = .seq es := by
  have := g.valid; cases u <;> simp [valid] at this; exact ⟨_, rfl⟩
theorem good_map_val (kw : Nat) (f : Fixed) (lw : Nat) (u : Val) (g : Good (.map kw f lw) u) : ∃ es, u = .seq es := by
  have := g.valid; cases u <;> simp [valid] at this; exact ⟨_, rfl⟩
theorem good_str_val (lw : Nat) (u : Val) (g : Good (.str lw) u) : ∃ l, u = .bytes l := by
  have := g.valid; cases u <;> simp [valid] at this; exact ⟨_, rfl⟩

/-- **The three composite ops** (`str_set`, `Set::insert_all`, `Map::insert_all`) on any node. -/
theorem opAt_hon_comp {w : World} {s : Shape} {v : Val} (c : PCtx w .A s v) (π : List Step) (t : Shape) (u : Val)
    (hres : resolve s v π = .ok (t, u)) (T : PtrTree) (hp : HonPath s v w.a.base π w.a.root T)
    (hT : Hon t u (w.a.base + offsetOf s v π) T) (op : Op) (hcomp : simpleOp op = false)
    (hcmd : CompOk s v π t u op w.a.mem.orig) :
    StepRes w s v π t u op (opAt w .A ⟨s, π⟩ (tpath s v π) t op) := by
  have gt : Good t u := (Focus.sub ⟨c.good, hres, c.bytes⟩)
  cases op <;> simp [simpleOp] at hcomp
  case sinsertAll xs =>
    cases t with
    | set e lw =>
      obtain ⟨es, rfl⟩ := good_set_val e lw u gt
      exact opAt_hon_sinsertAll c π e lw es hres T hp hT xs hcmd
    | _ => exact opAt_hon_bad c π _ _ hres T hp hT _ ⟨w.a.mem, [], by simp [applyAtT, applyAt]⟩
  case minsertAll kvs =>
    cases t with
    | map kw f lw =>
      obtain ⟨es, rfl⟩ := good_map_val kw f lw u gt
      exact opAt_hon_minsertAll c π kw f lw es hres T hp hT kvs hcmd
    | _ => exact opAt_hon_bad c π _ _ hres T hp hT _ ⟨w.a.mem, [], by simp [applyAtT, applyAt]⟩
  case strSet sb =>
    cases t with
    | str lw =>
      obtain ⟨l, rfl⟩ := good_str_val lw u gt
      exact opAt_hon_strSet c π lw l hres T hp hT sb hcmd
    | _ => exact opAt_hon_bad c π _ _ hres T hp hT _ ⟨w.a.mem, [], by simp [applyAtT, applyAt]⟩

end Unsized.Ptr
