import Unsized.PtrHonestG
namespace Unsized.Ptr
open Common Unsized Unsized.Text Unsized.Machine Unsized.PtrT

/-! ## Honest objects along an accessor chain -/

/-- `HonPath s v b p R T`: `R` is the pointer object of `v` (at `b`) in which the accessors along `p` have
been taken, `T` is the pointer the deepest accessor holds (a hole: not constrained), everything off the
chain is honest. -/
def HonPath : Shape → Val → Nat → List Step → PtrTree → PtrTree → Prop
  | _, _, _, [], R, T => R = T
  | s, v, b, st :: p, R, T =>
    match resolve1 s v st with
    | .error _ => False
    | .ok (t1, u1) =>
      ∃ child, HonStep s v st b R child ∧ HonPath t1 u1 (b + (stepPre s v st 0).length) p child T

/-- The path inside the pointer object that corresponds to the accessor path `p`. -/
def tpath : Shape → Val → List Step → List TStep
  | _, _, [] => []
  | s, v, st :: p =>
    match resolve1 s v st with
    | .error _ => []
    | .ok (t1, u1) => tstep s st ++ tpath t1 u1 p

theorem honPath_fill (p : List Step) : ∀ (s : Shape) (v : Val) (t : Shape) (u : Val) (b : Nat) (R T : PtrTree),
    Good s v → resolve s v p = .ok (t, u) → HonPath s v b p R T → Hon t u (b + offsetOf s v p) T → Hon s v b R := by
  induction p with
  | nil =>
    intro s v t u b R T g h hp hT
    simp [resolve] at h; obtain ⟨rfl, rfl⟩ := h
    simp only [HonPath] at hp; subst hp
    simpa [offsetOf] using hT
  | cons st p ih =>
    intro s v t u b R T g h hp hT
    simp only [resolve] at h
    cases h1 : resolve1 s v st with
    | error e => simp [h1] at h
    | ok tu =>
      obtain ⟨t1, u1⟩ := tu
      simp only [h1] at h
      simp only [HonPath, h1] at hp
      obtain ⟨child, hstep, hrest⟩ := hp
      have g1 := (step_facts s v st t1 u1 g h1).1
      have hoff : b + offsetOf s v (st :: p) = b + (stepPre s v st 0).length + offsetOf t1 u1 p := by
        simp only [offsetOf, h1]; omega
      rw [hoff] at hT
      exact step_fill s v st t1 u1 g h1 b R child hstep (ih t1 u1 t u _ child T g1 h hrest hT)

theorem honPath_append (p : List Step) : ∀ (s : Shape) (v : Val) (t : Shape) (u : Val) (b : Nat) (q : List Step)
    (R M T : PtrTree), resolve s v p = .ok (t, u) → HonPath s v b p R M →
    HonPath t u (b + offsetOf s v p) q M T → HonPath s v b (p ++ q) R T := by
  induction p with
  | nil =>
    intro s v t u b q R M T h hp hq
    simp [resolve] at h; obtain ⟨rfl, rfl⟩ := h
    simp only [HonPath] at hp; subst hp
    simpa [offsetOf] using hq
  | cons st p ih =>
    intro s v t u b q R M T h hp hq
    simp only [resolve] at h
    cases h1 : resolve1 s v st with
    | error e => simp [h1] at h
    | ok tu =>
      obtain ⟨t1, u1⟩ := tu
      simp only [h1] at h
      simp only [HonPath, h1] at hp
      obtain ⟨child, hstep, hrest⟩ := hp
      have hoff : b + offsetOf s v (st :: p) = b + (stepPre s v st 0).length + offsetOf t1 u1 p := by
        simp only [offsetOf, h1]; omega
      rw [hoff] at hq
      simp only [List.cons_append, HonPath, h1]
      exact ⟨child, hstep, ih t1 u1 t u _ q child M T h hrest hq⟩

theorem honPath_split (p : List Step) : ∀ (s : Shape) (v : Val) (t : Shape) (u : Val) (b : Nat) (q : List Step)
    (R T : PtrTree), resolve s v p = .ok (t, u) → HonPath s v b (p ++ q) R T →
    ∃ M, HonPath s v b p R M ∧ HonPath t u (b + offsetOf s v p) q M T := by
  induction p with
  | nil =>
    intro s v t u b q R T h hp
    simp [resolve] at h; obtain ⟨rfl, rfl⟩ := h
    exact ⟨R, by simp [HonPath], by simpa [offsetOf] using hp⟩
  | cons st p ih =>
    intro s v t u b q R T h hp
    simp only [resolve] at h
    cases h1 : resolve1 s v st with
    | error e => simp [h1] at h
    | ok tu =>
      obtain ⟨t1, u1⟩ := tu
      simp only [h1] at h
      simp only [List.cons_append, HonPath, h1] at hp
      obtain ⟨child, hstep, hrest⟩ := hp
      obtain ⟨M, hM, hq⟩ := ih t1 u1 t u _ q child T h hrest
      have hoff : b + offsetOf s v (st :: p) = b + (stepPre s v st 0).length + offsetOf t1 u1 p := by
        simp only [offsetOf, h1]; omega
      rw [hoff]
      exact ⟨M, by simp only [HonPath, h1]; exact ⟨child, hstep, hM⟩, hq⟩

theorem subtreeAt_append (a : List TStep) : ∀ (R M : PtrTree) (c : List TStep), subtreeAt R a = some M →
    subtreeAt R (a ++ c) = subtreeAt M c := by
  induction a with
  | nil => intro R M c h; simp [subtreeAt] at h; subst h; rfl
  | cons x a ih =>
    intro R M c h
    cases R with
    | leaf k ad => simp [subtreeAt] at h
    | node ks =>
      cases x with
      | kid i =>
        simp only [List.cons_append, subtreeAt] at h ⊢
        cases hk : ks[i]? with
        | none => simp [hk] at h
        | some k => simp only [hk] at h ⊢; exact ih k M c h
      | inner => simp [subtreeAt] at h
      | payload => simp [subtreeAt] at h
    | ulist cw ad len lo hi inner pmb =>
      cases x with
      | inner =>
        cases inner with
        | none => simp [subtreeAt] at h
        | some t => simp only [List.cons_append, subtreeAt] at h ⊢; exact ih t M c h
      | kid i => cases inner <;> simp [subtreeAt] at h
      | payload => cases inner <;> simp [subtreeAt] at h
    | start ad idx po =>
      cases x with
      | payload =>
        cases po with
        | none => simp [subtreeAt] at h
        | some t => simp only [List.cons_append, subtreeAt] at h ⊢; exact ih t M c h
      | kid i => cases po <;> simp [subtreeAt] at h
      | inner => cases po <;> simp [subtreeAt] at h

theorem replaceAt_append (a : List TStep) : ∀ (R M M' R' : PtrTree) (c : List TStep) (q : PtrTree),
    subtreeAt R a = some M → replaceAt M c q = some M' → replaceAt R a M' = some R' →
    replaceAt R (a ++ c) q = some R' := by
  induction a with
  | nil =>
    intro R M M' R' c q h hm hr
    simp [subtreeAt] at h; subst h
    simp [replaceAt] at hr; subst hr
    simpa using hm
  | cons x a ih =>
    intro R M M' R' c q h hm hr
    cases R with
    | leaf k ad => simp [subtreeAt] at h
    | node ks =>
      cases x with
      | kid i =>
        simp only [List.cons_append, subtreeAt, replaceAt] at h hr ⊢
        cases hk : ks[i]? with
        | none => simp [hk] at h
        | some k =>
          simp only [hk] at h hr ⊢
          cases hr1 : replaceAt k a M' with
          | none => simp [hr1] at hr
          | some k' =>
            simp only [hr1] at hr
            rw [ih k M M' k' c q h hm hr1]; exact hr
      | inner => simp [subtreeAt] at h
      | payload => simp [subtreeAt] at h
    | ulist cw ad len lo hi inner pmb =>
      cases x with
      | inner =>
        cases inner with
        | none => simp [subtreeAt] at h
        | some t =>
          simp only [List.cons_append, subtreeAt, replaceAt] at h hr ⊢
          cases hr1 : replaceAt t a M' with
          | none => simp [hr1] at hr
          | some t' =>
            simp only [hr1] at hr
            rw [ih t M M' t' c q h hm hr1]; exact hr
      | kid i => cases inner <;> simp [subtreeAt] at h
      | payload => cases inner <;> simp [subtreeAt] at h
    | start ad idx po =>
      cases x with
      | payload =>
        cases po with
        | none => simp [subtreeAt] at h
        | some t =>
          simp only [List.cons_append, subtreeAt, replaceAt] at h hr ⊢
          cases hr1 : replaceAt t a M' with
          | none => simp [hr1] at hr
          | some t' =>
            simp only [hr1] at hr
            rw [ih t M M' t' c q h hm hr1]; exact hr
      | kid i => cases po <;> simp [subtreeAt] at h
      | inner => cases po <;> simp [subtreeAt] at h

/-- The deepest accessor's pointer sits at `tpath`, and can be replaced there. -/
theorem honPath_nav (p : List Step) : ∀ (s : Shape) (v : Val) (t : Shape) (u : Val) (b : Nat) (R T : PtrTree),
    Good s v → resolve s v p = .ok (t, u) → HonPath s v b p R T →
    subtreeAt R (tpath s v p) = some T
    ∧ ∀ T', ∃ R', replaceAt R (tpath s v p) T' = some R' ∧ HonPath s v b p R' T' := by
  induction p with
  | nil =>
    intro s v t u b R T g h hp
    simp only [HonPath] at hp; subst hp
    exact ⟨by simp [tpath, subtreeAt], fun T' => ⟨T', by simp [tpath, replaceAt], by simp [HonPath]⟩⟩
  | cons st p ih =>
    intro s v t u b R T g h hp
    simp only [resolve] at h
    cases h1 : resolve1 s v st with
    | error e => simp [h1] at h
    | ok tu =>
      obtain ⟨t1, u1⟩ := tu
      simp only [h1] at h
      simp only [HonPath, h1] at hp
      obtain ⟨child, hstep, hrest⟩ := hp
      have g1 := (step_facts s v st t1 u1 g h1).1
      obtain ⟨n1, n2⟩ := step_nav s v st t1 u1 g h1 b R child hstep
      obtain ⟨m1, m2⟩ := ih t1 u1 t u _ child T g1 h hrest
      simp only [tpath, h1]
      refine ⟨by rw [subtreeAt_append _ R child _ n1]; exact m1, fun T' => ?_⟩
      obtain ⟨child', hc1, hc2⟩ := m2 T'
      obtain ⟨R', hr1, hr2⟩ := n2 child'
      exact ⟨R', replaceAt_append _ R child child' R' _ T' n1 hc1 hr1,
        by simp only [HonPath, h1]; exact ⟨child', hr2, hc2⟩⟩

end Unsized.Ptr
