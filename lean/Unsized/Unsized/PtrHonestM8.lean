import Unsized.PtrHonestM7
namespace Unsized.Ptr
open Common Unsized Unsized.Text Unsized.Machine Unsized.PtrT Unsized.PtrM

theorem size_subst1 (s : Shape) (v : Val) (st : Step) (t1 : Shape) (u1 w : Val) (g : Good s v)
    (g' : Good s (subst1 v st w)) (h1 : resolve1 s v st = .ok (t1, u1)) :
    size s (subst1 v st w) + size t1 u1 = size s v + size t1 w := by
  have r1' := resolve1_subst1 s v st t1 u1 w h1
  have hgeo := (step_geom s v st t1 u1 g h1).1
  have hgeo' := (step_geom s _ st t1 w g' r1').1
  have e1 := stepPre_subst1_len s v st t1 u1 w g h1 0 0
  have e2 : (stepPost s (subst1 v st w) st).length = (stepPost s v st).length := by
    have a := step_subst_enc s v st t1 u1 w g h1
    have a' := (step_facts s _ st t1 w g' r1').2.1
    have a'' := (step_facts s _ st t1 w g' r1').2.2.1
    have l1 := congrArg List.length a
    have l2 := congrArg List.length a'
    simp only [List.length_append] at l1 l2
    rw [a'' (encode t1 w).length 0, e1] at l2
    have := (step_facts s v st t1 u1 g h1).2.2.1 (encode t1 w).length 0
    omega
  omega

/-- A same-size replacement of the child leaves the (hole-)object honest for the new value. -/
theorem step_same (s : Shape) (v : Val) (st : Step) (t1 : Shape) (u1 w : Val) (g : Good s v)
    (g' : Good s (subst1 v st w)) (h1 : resolve1 s v st = .ok (t1, u1)) (hsw : size t1 w = size t1 u1)
    (b : Nat) (R child : PtrTree) (hR : HonStep s v st b R child) : HonStep s (subst1 v st w) st b R child := by
  have hsv := size_subst1 s v st t1 u1 w g g' h1
  unfold resolve1 at h1
  split at h1
  · rename_i sized fs sz vs i
    split at h1
    · rename_i f x hf hx
      cases h1
      have hi : i < vs.length := by
        rcases Nat.lt_or_ge i vs.length with h | h
        · exact h
        · simp [List.getElem?_eq_none h] at hx
      have hv := g.valid
      simp only [valid, Bool.and_eq_true, beq_iff_eq, decide_eq_true_eq] at hv
      have hl := validFields_length fs vs hv.2
      simp only [HonStep] at hR ⊢
      obtain ⟨ks, hks, rfl⟩ := hR
      obtain ⟨L, k0, Rr, rfl, hLlen, a1, a2, a3⟩ := honL_split fs vs i t1 u1 _ ks hf hx hks
      have hx' : (vs.set i w)[i]? = some w := by simp [hi]
      refine ⟨L ++ treeOf t1 w (b + Fixed.sizeList sized + sizeFields ((fs.take i)) ((vs.set i w).take i)) :: Rr, ?_, ?_⟩
      · exact honL_join fs (vs.set i w) i t1 w _ L _ Rr hf hx' (by simp [hl])
          (by rw [List.take_set_of_le (Nat.le_refl i)]; exact a1) (hon_treeOf t1 w _)
          (by rw [List.take_set_of_le (Nat.le_refl i), List.drop_set_of_lt (by omega), hsw]; exact a3)
      · rw [set_mid _ _ _ _ _ hLlen.symm, set_mid _ _ _ _ _ hLlen.symm]
    · cases h1
  · rename_i e vs i
    split at h1
    · cases h1
      simp only [HonStep] at hR ⊢
      obtain ⟨pmb, rfl⟩ := hR
      simp only [subst1] at hsv ⊢
      exact ⟨pmb, by rw [List.length_set]; congr 1; omega⟩
    · cases h1
  · rename_i kw e es i
    split at h1
    · rename_i kx hx
      cases h1
      simp only [HonStep] at hR ⊢
      obtain ⟨pmb, rfl⟩ := hR
      simp only [subst1, hx] at hsv ⊢
      exact ⟨pmb, by rw [List.length_set]; congr 3; omega⟩
    · cases h1
  · rename_i ds ps idx pl
    split at h1
    · cases h1
    · cases h1
    · cases h1
      simp only [HonStep] at hR ⊢
      exact hR
  · cases h1

theorem honPath_same (p : List Step) : ∀ (s : Shape) (v : Val) (t : Shape) (u u' : Val) (b : Nat) (R T : PtrTree),
    Good s v → Good s (subst s v p u') → resolve s v p = .ok (t, u) → size t u' = size t u →
    HonPath s v b p R T → HonPath s (subst s v p u') b p R T := by
  induction p with
  | nil => intro s v t u u' b R T g g' h hs hp; simpa [HonPath] using hp
  | cons st p ih =>
    intro s v t u u' b R T g g' h hs hp
    simp only [resolve] at h
    cases h1 : resolve1 s v st with
    | error e => simp [h1] at h
    | ok tu =>
      obtain ⟨t1, u1⟩ := tu
      simp only [h1] at h
      simp only [HonPath, h1] at hp
      obtain ⟨child, hstep, hrest⟩ := hp
      have g1 := (step_facts s v st t1 u1 g h1).1
      obtain ⟨w, hw⟩ : ∃ w, w = subst t1 u1 p u' := ⟨_, rfl⟩
      have hsub : subst s v (st :: p) u' = subst1 v st w := by simp only [subst, h1, hw]
      rw [hsub] at g' ⊢
      have r1' := resolve1_subst1 s v st t1 u1 w h1
      have g1' : Good t1 w := (step_facts s _ st t1 w g' r1').1
      have hX : (encode t u').length = applyDelta false 0 (encode t u).length := by
        have gt := (Focus.sub (m := ⟨encode t1 u1, 0, 0, []⟩) ⟨g1, h, rfl⟩)
        have gt' : Good t u' := by
          have hr := resolve_subst p t1 u1 t u u' h
          rw [← hw] at hr
          exact (Focus.sub (m := ⟨encode t1 w, 0, 0, []⟩) ⟨g1', hr, rfl⟩)
        rw [encode_size_all t u' gt'.valid, encode_size_all t u gt.valid, hs]; simp [applyDelta]
      have hsw : size t1 w = size t1 u1 := by
        have := size_subst_delta p t1 u1 t u u' g1 (by rw [← hw]; exact g1') h false 0 hX (by intro h; cases h)
        rw [hw, this]; simp [applyDelta]
      simp only [HonPath, r1']
      rw [stepPre_subst1_len s v st t1 u1 w g h1 0 0]
      exact ⟨child, step_same s v st t1 u1 w g g' h1 hsw b R child hstep,
        by rw [hw]; exact ih t1 u1 t u u' _ child T g1 (by rw [← hw]; exact g1') h hs hrest⟩

end Unsized.Ptr
