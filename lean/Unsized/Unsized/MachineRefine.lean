import Unsized.MachineNodeMap
import Unsized.MachineNodeUlist
import Unsized.MachineNodeUmap
import Unsized.MachineNodeUget
import Unsized.MachineRun
/-!
# Refinement of whole cases: `node_refines`, the owned-model state machine `stepV`, the invariant
`Inv`, `step_inv` (one line) and `run_inv` (any finite history)
-/
namespace Unsized.Machine
open Common Unsized Unsized.Text

/-- Ops every node supports. -/
def genericOp : Op → Bool
  | .touch => true
  | .replace _ => true
  | .reset => true
  | _ => false

theorem generic_refines {s v p t u m} (F : Focus s v p t u m) (c : Calm m) (op : Op)
    (h : genericOp op = true) : Refines s v p t u m op := by
  cases op <;> simp [genericOp] at h
  · exact touch_refines F
  · exact replace_refines F c _
  · exact reset_refines F c

/-- **Node-level refinement, every node kind, every op of the op language.** -/
theorem node_refines {s v p t u m} (F : Focus s v p t u m) (c : Calm m) (op : Op) :
    Refines s v p t u m op := by
  by_cases hg : genericOp op = true
  · exact generic_refines F c op hg
  · have hv := F.sub.valid
    cases t <;> cases u <;> simp only [valid, Bool.false_eq_true] at hv
    · exact fixed_refines F c op
    · exact list_refines F c op
    · exact set_refines F c op
    · exact map_refines F c op
    · exact str_refines F c op
    · exact rem_refines F c op
    · -- ulist (b-proof-ulist: all ops but `uget`; b-proof-map: `uget`)
      by_cases hu : ∃ i, op = .uget i
      · obtain ⟨i, rfl⟩ := hu; exact ulist_uget_refines F c i
      · exact ulist_refines F c op (fun i h => hu ⟨i, h⟩)
    · -- umap
      by_cases hu : ∃ i, op = .uget i
      · obtain ⟨i, rfl⟩ := hu; exact umap_uget_refines F c i
      · exact umap_refines F c op (fun i h => hu ⟨i, h⟩)
    · exact struct_refines F c op
    · exact enum_refines F c op
    · -- unit payload: never an accessor target; every non-generic op line is inapplicable
      cases op <;> simp [genericOp] at hg <;> (unfold Refines; simp [Spec.applyNode, applyAt])
    all_goals
      -- `AccountDiscriminant<T>` (top level only): no op of the op language applies
      cases op <;> simp [genericOp] at hg <;> (unfold Refines; simp [Spec.applyNode, applyAt])

/-! ## Whole cases: the owned-model state machine and the refinement invariant -/

/-- State of the owned model of one case: the value and the paths of the live accessors. -/
structure VState where
  val : Val
  levels : List (List Step)

def VState.cur (st : VState) : List Step := st.levels.getLastD []

/-- One line of a case on the owned model. -/
def stepV (s : Shape) (st : VState) : Cmd → VState × Except Err Ret
  | .enter x =>
    match resolve s st.val (st.cur ++ [x]) with
    | .error e => (st, .error e)
    | .ok _ => ({ st with levels := st.levels ++ [st.cur ++ [x]] }, .ok .unit)
  | .leave =>
    if st.levels.length ≤ 1 then (st, .error .bad)
    else ({ st with levels := st.levels.dropLast }, .ok .unit)
  | .reborrow => ({ st with levels := [[]] }, .ok .unit)
  | .op p o =>
    match Spec.applyOp s st.val (st.cur ++ p) o with
    | .ok (v', r) => ({ st with val := v' }, .ok r)
    | .error e => (st, .error e)

/-- The refinement invariant: the buffer is the canonical serialization of the model value with
exact length, the same accessors are live, and there is headroom. -/
structure Inv (s : Shape) (vs : VState) (ms : State) : Prop where
  good : Good s vs.val
  bytes : ms.mem.bytes = encode s vs.val
  levels : ms.levels = vs.levels
  calm : Calm ms.mem

/-- The side conditions of the refinement theorem on one line (decidable): if the model succeeds the
new value fits below `orig + 10240` (headroom); if the model fails it is not with one of the two
registered known-finding classes (an initialiser failing behind the resize: `Err.initFail`; a
composite op — `Map/Set::insert_all`, `UnsizedString::set` — failing half-way). EVERY op of the op
language on EVERY node kind is covered. -/
def cmdOk (s : Shape) (vs : VState) (orig : Nat) : Cmd → Bool
  | .op p o =>
    (match Spec.applyOp s vs.val (vs.cur ++ p) o with
     | .ok (v', _) => decide ((encode s v').length ≤ orig + maxIncrease)
     | .error e => e != .initFail && !composite o)
  | _ => true

def CmdOk (s : Shape) (vs : VState) (orig : Nat) (c : Cmd) : Prop := cmdOk s vs orig c = true

/-- **One line**: same outcome, same `ret`, and the invariant is re-established. -/
theorem step_inv (s : Shape) (vs : VState) (ms : State) (inv : Inv s vs ms) (cmd : Cmd)
    (hok : CmdOk s vs ms.mem.orig cmd) :
    (step s ms cmd).2 = (stepV s vs cmd).2
    ∧ Inv s (stepV s vs cmd).1 (step s ms cmd).1
    ∧ (step s ms cmd).1.mem.orig = ms.mem.orig := by
  have hcur : ms.cur = vs.cur := by simp [State.cur, VState.cur, inv.levels]
  cases cmd with
  | enter x =>
    simp only [step, stepV, hcur]
    have hloc := locate_encode (vs.cur ++ [x]) s vs.val inv.good [] [] 0 rfl
    simp only [List.nil_append, List.append_nil, Nat.zero_add] at hloc
    rw [inv.bytes, hloc]
    cases hr : resolve s vs.val (vs.cur ++ [x]) with
    | error e => exact ⟨rfl, inv, rfl⟩
    | ok tu =>
      obtain ⟨t, u⟩ := tu
      exact ⟨rfl, ⟨inv.good, inv.bytes, by simp [inv.levels], inv.calm⟩, rfl⟩
  | leave =>
    simp only [step, stepV, inv.levels]
    by_cases h : vs.levels.length ≤ 1
    · simp only [h, if_true]; exact ⟨by first | trivial | rfl, inv, by first | trivial | rfl⟩
    · simp only [h, if_false]
      exact ⟨by first | trivial | rfl, ⟨inv.good, inv.bytes, by simp [inv.levels], inv.calm⟩, by first | trivial | rfl⟩
  | reborrow =>
    simp only [step, stepV]
    exact ⟨by first | trivial | rfl, ⟨inv.good, inv.bytes, rfl, inv.calm⟩, by first | trivial | rfl⟩
  | op p o =>
    simp only [step, stepV, hcur]
    simp only [CmdOk, cmdOk] at hok
    have hres := hok
    have href := applyOp_refines s vs.val inv.good ms.mem inv.bytes (vs.cur ++ p) o
      (fun t u hr => node_refines ⟨inv.good, hr, inv.bytes⟩ inv.calm o)
    cases ha : Spec.applyOp s vs.val (vs.cur ++ p) o with
    | ok vr =>
      obtain ⟨v', r⟩ := vr
      rw [ha] at href hres
      simp only [decide_eq_true_eq] at href hres
      obtain ⟨m', hm', hb', g', ho', hr'⟩ := href hres
      rw [hm']
      refine ⟨rfl, ⟨g', hb', inv.levels, ?_⟩, ho'⟩
      exact inv.calm.next ho' hr' (by rw [hb']; exact hres)
    | error e =>
      rw [ha] at href hres
      simp only [Bool.and_eq_true, bne_iff_ne, ne_eq, Bool.not_eq_true'] at hres
      cases e <;> simp only [] at href <;> first
        | exact absurd rfl hres.1
        | (rcases href with hc | hm'
           · rw [hres.2] at hc; cases hc
           · rw [hm']
             exact ⟨rfl, inv, rfl⟩)

/-- Run a case on the machine: final state and the outcome of every line. -/
def runM (s : Shape) : State → List Cmd → State × List (Except Err Ret)
  | st, [] => (st, [])
  | st, c :: cs =>
    match step s st c with
    | (st1, r) => match runM s st1 cs with
      | (st2, rs) => (st2, r :: rs)

/-- Run a case on the owned model. -/
def runS (s : Shape) : VState → List Cmd → VState × List (Except Err Ret)
  | st, [] => (st, [])
  | st, c :: cs =>
    match stepV s st c with
    | (st1, r) => match runS s st1 cs with
      | (st2, rs) => (st2, r :: rs)

/-- Every line of the history is covered (`cmdOk`) in the model state it is executed in (decidable). -/
def histOk (s : Shape) (orig : Nat) : VState → List Cmd → Bool
  | _, [] => true
  | st, c :: cs => cmdOk s st orig c && histOk s orig (stepV s st c).1 cs

def HistOk (s : Shape) (orig : Nat) (vs : VState) (cs : List Cmd) : Prop := histOk s orig vs cs = true

/-- **Any finite history**: the machine produces the outcomes of the owned model line by line and ends
in a state satisfying the invariant (bytes = canonical serialization of the model's final value). -/
theorem run_inv (s : Shape) (cmds : List Cmd) : ∀ (vs : VState) (ms : State), Inv s vs ms →
    HistOk s ms.mem.orig vs cmds →
    (runM s ms cmds).2 = (runS s vs cmds).2 ∧ Inv s (runS s vs cmds).1 (runM s ms cmds).1 := by
  induction cmds with
  | nil => intro vs ms inv _; exact ⟨rfl, inv⟩
  | cons c cs ih =>
    intro vs ms inv hok
    simp only [HistOk, histOk, Bool.and_eq_true] at hok
    obtain ⟨h1, h2, h3⟩ := step_inv s vs ms inv c hok.1
    have := ih (stepV s vs c).1 (step s ms c).1 h2 (by rw [h3]; exact hok.2)
    simp only [runM, runS]
    exact ⟨by rw [h1, this.1], this.2⟩

end Unsized.Machine
