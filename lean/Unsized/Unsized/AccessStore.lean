import Unsized.Access
/-!
# The COMPLETE write footprint of every operation: raw accesses + typed stores (C03 `frame`)

`EvS` extends the traced events of `Access.lean` with `store off v`: a typed store of the bytes `v` at
offset `off` — emitted exactly where the byte machine (`Machine.lean`, `MachineOps.lean`) writes with `wr` /
`wr32`: length-prefix and header rewrites, offset-entry writes (`adjust_offsets`, the new entries of
`insert_all_with_offsets`), the `unsized_size` / offset updates of `resize_notification` along the
accessor chain, element / key-value stores, `DerefMut` stores, and the initialisers of `set_data_inner`
and `insert`. These stores are NOT traced by hook H3 (only `memmove` / realloc are); what ties them to the
real code is the byte-exact `bytes=` column of C01/C02 (same machine) plus the harness's frame bit and guard
pages.

Every function `fS` here is `fT` of `Access.lean` with the stores added: `proj (fS …) = fT …`
(`AccessStoreLemmas.lean`: same machine result, and the raw events are exactly `fT`'s).
-/
namespace Unsized.Machine
open Common Unsized Unsized.Text

/-- A traced event or a typed store. -/
inductive EvS where
  | raw (e : Ev)
  | store (off : Nat) (v : List Nat)
  deriving Repr, Inhabited, DecidableEq

abbrev TracedS (α : Type) := (Mem × Except Err α) × List EvS

/-- The traced (raw / marker) events among them. -/
def rawOf : List EvS → List Ev
  | [] => []
  | .raw e :: es => e :: rawOf es
  | .store _ _ :: es => rawOf es

def liftEvs (evs : List Ev) : List EvS := evs.map .raw

/-- Forget the stores. -/
def proj {α : Type} (x : TracedS α) : Traced α := (x.1, rawOf x.2)

/-! ## The writes of `resize_notification` (`Machine.lean`) -/

/-- `shiftOffsets` with its stores. -/
def shiftOffsetsS (cw : Nat) (neg : Bool) (amt : Nat) : (pos n : Nat) → List Nat → List Nat × List EvS
  | _, 0, bs => (bs, [])
  | pos, n + 1, bs =>
    let v := leN 4 (applyDelta neg amt (rd32 bs pos))
    match shiftOffsetsS cw neg amt (pos + cw) n (wr bs pos v) with
    | (r, ev) => (r, .store pos v :: ev)

def adjustOffsetsS (cw base len start : Nat) (neg : Bool) (amt : Nat) (bs : List Nat) :
    Except Err (List Nat) × List EvS :=
  if len = 0 then (.ok bs, [])
  else if amt = 0 then (.ok bs, [])
  else if len ≤ start then (.ok bs, [])
  else if neg then
    if rd32 bs (base + 8 + start * cw) < amt then (.error .arith, [])
    else
      match shiftOffsetsS cw true amt (base + 8 + start * cw) (len - start) bs with
      | (r, ev) => (.ok r, ev)
  else
    if Shape.u32Lim ≤ rd32 bs (base + 8 + (len - 1) * cw) + amt then (.error .arith, [])
    else
      match shiftOffsetsS cw false amt (base + 8 + start * cw) (len - start) bs with
      | (r, ev) => (.ok r, ev)

def adjustOffsetsFromPtrS (cw base len src : Nat) (neg : Bool) (amt : Nat) (bs : List Nat) :
    Except Err (List Nat) × List EvS :=
  if len = 0 then (.ok bs, [])
  else
    let udata := base + 8 + len * cw + 4
    let start := match search (tableOffsets cw bs (base + 8) len) (src - udata) 0 with
      | .at i => i + 1
      | .ins i => i
    adjustOffsetsS cw base len start neg amt bs

def ulistNotifyS (cw base src : Nat) (neg : Bool) (amt : Nat) (bs : List Nat) :
    Except Err (List Nat) × List EvS :=
  let usz := rd32 bs base
  let len := rd32 bs (base + 4)
  if src < base then (.ok bs, [])
  else if src = base then (.ok bs, [])
  else if src < base + (12 + len * cw + usz) then
    if neg && decide (usz < amt) then (.error .arith, [])
    else if Shape.u32Lim ≤ applyDelta neg amt usz then (.error .arith, [])
    else
      let v := leN 4 (applyDelta neg amt usz)
      match adjustOffsetsFromPtrS cw base len src neg amt (wr bs base v) with
      | (r, ev) => (r, .store base v :: ev)
  else (.ok bs, [])

def notifyS : Shape → List Step → (base src : Nat) → (neg : Bool) → (amt : Nat) → List Nat →
    Except Err (List Nat) × List EvS
  | _, [], _, _, _, _, bs => (.ok bs, [])
  | s, st :: p, base, src, neg, amt, bs =>
    match child s st base bs with
    | .error e => (.error e, [])
    | .ok (t, b) =>
      match notifyS t p b src neg amt bs with
      | (.error e, ev) => (.error e, ev)
      | (.ok bs1, ev) =>
        match s with
        | .ulist _ =>
          match ulistNotifyS 4 base src neg amt bs1 with
          | (r, ev2) => (r, ev ++ ev2)
        | .umap kw _ =>
          match ulistNotifyS (Shape.entryW kw) base src neg amt bs1 with
          | (r, ev2) => (r, ev ++ ev2)
        | _ => (.ok bs1, ev)

/-- `add_bytes` + notification, with the notification's stores. (If the notification itself returns an
error — impossible on canonical buffers — the byte machine keeps the pre-notification bytes, so no store is
recorded for it.) -/
def Mem.addBytesNS (m : Mem) (c : Ctx) (src start amount : Nat) : TracedS Unit :=
  match m.addBytesT start amount with
  | ((m1, .error e), ev) => ((m1, .error e), liftEvs ev)
  | ((m1, .ok ()), ev) =>
    if amount = 0 then ((m1, .ok ()), liftEvs ev)
    else
      match notifyS c.shape c.path 0 src false amount m1.bytes with
      | (.error e, _) => ((m1, .error e), liftEvs ev ++ [.raw (.notify src false amount m1.bytes)])
      | (.ok bs, sv) =>
        (({ m1 with bytes := bs }, .ok ()), liftEvs ev ++ .raw (.notify src false amount m1.bytes) :: sv)

def Mem.removeBytesNS (m : Mem) (c : Ctx) (src start stop : Nat) : TracedS Unit :=
  match m.removeBytesT start stop with
  | ((m1, .error e), ev) => ((m1, .error e), liftEvs ev)
  | ((m1, .ok ()), ev) =>
    if stop = start then ((m1, .ok ()), liftEvs ev)
    else
      match notifyS c.shape c.path 0 src true (stop - start) m1.bytes with
      | (.error e, _) => ((m1, .error e), liftEvs ev ++ [.raw (.notify src true (stop - start) m1.bytes)])
      | (.ok bs, sv) =>
        (({ m1 with bytes := bs }, .ok ()), liftEvs ev ++ .raw (.notify src true (stop - start) m1.bytes) :: sv)

/-! ## `List` and the containers built on it -/

def listInsertAllS (c : Ctx) (ew lw b idx : Nat) (items : List (List Nat)) (m : Mem) : TracedS Unit :=
  let len := rdN m.bytes b lw
  if len < idx then ((m, .error .ioob), [])
  else if 256 ^ lw ≤ len + items.length then ((m, .error .toPrim), [])
  else
    match m.addBytesNS c b (b + lw + idx * ew) (ew * items.length) with
    | ((m1, .error e), ev) => ((m1, .error e), ev)
    | ((m1, .ok ()), ev) =>
      let hdr := leN lw (len + items.length)
      let bs1 := wr m1.bytes b hdr
      (({ m1 with bytes := wr bs1 (b + lw + idx * ew) items.flatten }, .ok ()),
        ev ++ [.store b hdr, .store (b + lw + idx * ew) items.flatten])

def listRemoveRangeS (c : Ctx) (ew lw b lo hi : Nat) (m : Mem) : TracedS Unit :=
  let len := rdN m.bytes b lw
  if hi < lo then ((m, .error .range), [])
  else if len < hi then ((m, .error .ioob), [])
  else
    match m.removeBytesNS c b (b + lw + lo * ew) (b + lw + hi * ew) with
    | ((m1, .error e), ev) => ((m1, .error e), ev)
    | ((m1, .ok ()), ev) =>
      let hdr := leN lw (len - (hi - lo))
      (({ m1 with bytes := wr m1.bytes b hdr }, .ok ()), ev ++ [.store b hdr])

def listPopS (c : Ctx) (ew lw b : Nat) (m : Mem) : TracedS Ret :=
  let len := rdN m.bytes b lw
  if len = 0 then ((m, .ok (.flag false)), [])
  else match listRemoveRangeS c ew lw b (len - 1) len m with
    | ((m1, .error e), ev) => ((m1, .error e), ev)
    | ((m1, .ok ()), ev) => ((m1, .ok (.flag true)), ev)

def listClearS (c : Ctx) (ew lw b : Nat) (m : Mem) : TracedS Unit :=
  listRemoveRangeS c ew lw b 0 (rdN m.bytes b lw) m

def setInsertS (c : Ctx) (ew lw b : Nat) (e : List Nat) (m : Mem) : TracedS Bool :=
  match search (listKeys ew lw ew b m.bytes) (rdLE e) 0 with
  | .at _ => ((m, .ok false), [])
  | .ins i =>
    match listInsertAllS c ew lw b i [e] m with
    | ((m1, .error er), ev) => ((m1, .error er), ev)
    | ((m1, .ok ()), ev) => ((m1, .ok true), ev)

def setInsertAllS (c : Ctx) (ew lw b : Nat) : List (List Nat) → Nat → Mem → TracedS Ret
  | [], n, m => ((m, .ok (.count n)), [])
  | e :: es, n, m =>
    match setInsertS c ew lw b e m with
    | ((m1, .error er), ev) => ((m1, .error er), ev)
    | ((m1, .ok new), ev) =>
      match setInsertAllS c ew lw b es (if new then n + 1 else n) m1 with
      | (r, ev2) => (r, ev ++ ev2)

def setRemoveS (c : Ctx) (ew lw b : Nat) (e : List Nat) (m : Mem) : TracedS Ret :=
  match search (listKeys ew lw ew b m.bytes) (rdLE e) 0 with
  | .ins _ => ((m, .ok (.flag false)), [])
  | .at i =>
    match listRemoveRangeS c ew lw b i (i + 1) m with
    | ((m1, .error er), ev) => ((m1, .error er), ev)
    | ((m1, .ok ()), ev) => ((m1, .ok (.flag true)), ev)

def mapInsertS (c : Ctx) (kw vw lw b : Nat) (k v : List Nat) (m : Mem) : TracedS (Option (List Nat)) :=
  let ew := kw + vw
  match search (listKeys ew lw kw b m.bytes) (rdLE k) 0 with
  | .at i =>
    let pos := b + lw + i * ew + kw
    (({ m with bytes := wr m.bytes pos v }, .ok (some (rd m.bytes pos vw))), [.store pos v])
  | .ins i =>
    match listInsertAllS c ew lw b i [k ++ v] m with
    | ((m1, .error er), ev) => ((m1, .error er), ev)
    | ((m1, .ok ()), ev) => ((m1, .ok none), ev)

def mapInsertAllS (c : Ctx) (kw vw lw b : Nat) : List (List Nat × List Nat) → Nat → Mem → TracedS Ret
  | [], n, m => ((m, .ok (.count n)), [])
  | (k, v) :: kvs, n, m =>
    match mapInsertS c kw vw lw b k v m with
    | ((m1, .error er), ev) => ((m1, .error er), ev)
    | ((m1, .ok old), ev) =>
      match mapInsertAllS c kw vw lw b kvs (if old.isNone then n + 1 else n) m1 with
      | (r, ev2) => (r, ev ++ ev2)

def mapRemoveS (c : Ctx) (kw vw lw b : Nat) (k : List Nat) (m : Mem) : TracedS Ret :=
  let ew := kw + vw
  match search (listKeys ew lw kw b m.bytes) (rdLE k) 0 with
  | .ins _ => ((m, .ok (.old none)), [])
  | .at i =>
    let old := rd m.bytes (b + lw + i * ew + kw) vw
    match listRemoveRangeS c ew lw b i (i + 1) m with
    | ((m1, .error er), ev) => ((m1, .error er), ev)
    | ((m1, .ok ()), ev) => ((m1, .ok (.old (some old))), ev)

def strSetS (c : Ctx) (lw b : Nat) (s : List Nat) (m : Mem) : TracedS Unit :=
  match listClearS c 1 lw b m with
  | ((m1, .error e), ev) => ((m1, .error e), ev)
  | ((m1, .ok ()), ev) =>
    match listInsertAllS c 1 lw b (rdN m1.bytes b lw) (s.map fun x => [x]) m1 with
    | (r, ev2) => (r, ev ++ ev2)

def remSetLenS (c : Ctx) (b n : Nat) (m : Mem) : TracedS Unit :=
  let cur := m.bytes.length - b
  if cur < n then m.addBytesNS c b (b + cur) (n - cur)
  else if cur = n then ((m, .ok ()), [])
  else m.removeBytesNS c b (b + n) (b + cur)

/-! ## `set_data_inner` -/

def setDataInnerS (c : Ctx) (t : Shape) (b : Nat) (newBytes : List Nat) (fails : Bool) (m : Mem) :
    TracedS Unit :=
  match extent t (m.bytes.drop b) with
  | .error _ => ((m, .error .parse), [])
  | .ok cur =>
    let new := newBytes.length
    let r : TracedS Unit :=
      if cur < new then m.addBytesNS c b b (new - cur)
      else if new < cur then m.removeBytesNS c b b (b + (cur - new))
      else ((m, .ok ()), [])
    match r with
    | ((m1, .error e), ev) => ((m1, .error e), ev)
    | ((m1, .ok ()), ev) =>
      if fails then ((m1, .error .initFail), ev)
      else (({ m1 with bytes := wr m1.bytes b newBytes }, .ok ()), ev ++ [.store b newBytes])

/-! ## `UnsizedList` -/

/-- `ulistFill` with its stores (element image, then offset entry, per item). -/
def ulistFillS (cw sz : Nat) (key img : List Nat) : (n pos dpos off : Nat) → List Nat → List Nat × List EvS
  | 0, _, _, _, bs => (bs, [])
  | n + 1, pos, dpos, off, bs =>
    match ulistFillS cw sz key img n (pos + cw) (dpos + sz) (off + sz) (wr (wr bs dpos img) pos (leN 4 off ++ key)) with
    | (r, ev) => (r, .store dpos img :: .store pos (leN 4 off ++ key) :: ev)

def ulistInsertS (c : Ctx) (cw : Nat) (e : Shape) (b idx n : Nat) (init : Init) (key : List Nat)
    (m : Mem) : TracedS Unit :=
  let len := rd32 m.bytes (b + 4)
  if len < idx then ((m, .error .ioob), [])
  else
    let offset := ulistOffset cw b idx m.bytes
    let udata := b + 8 + len * cw + 4
    let start := udata + offset
    let sz := initSize e init
    match m.addBytesNS c b start ((sz + cw) * n) with
    | ((m1, .error er), ev) => ((m1, .error er), ev)
    | ((m1, .ok ()), ev0) =>
      let tpos := b + 8 + idx * cw
      let ev1 := ev0 ++ [.raw (.move (tpos + n * cw) tpos (start - tpos))]
      let bs1 := memmove m1.bytes (tpos + n * cw) tpos (start - tpos)
      let newLen := len + n
      if Shape.u32Lim ≤ newLen then (({ m1 with bytes := bs1 }, .error .arith), ev1)
      else
        let bs2 := wr32 bs1 (b + 4) newLen
        let bs3 := wr32 bs2 (b + 8 + newLen * cw) newLen
        let usz := rd32 bs3 b
        let bs4 := wr32 bs3 b (usz + n * sz)
        let ev2 := ev1 ++ [.store (b + 4) (leN 4 newLen), .store (b + 8 + newLen * cw) (leN 4 newLen),
          .store b (leN 4 (usz + n * sz))]
        match adjustOffsetsS cw b newLen (idx + n) false (n * sz) bs4 with
        | (.error er, ev3) => (({ m1 with bytes := bs4 }, .error er), ev2 ++ ev3)
        | (.ok bs5, ev3) =>
          if n = 0 then (({ m1 with bytes := bs5 }, .ok ()), ev2 ++ ev3)
          else if initFails e init then (({ m1 with bytes := bs5 }, .error .initFail), ev2 ++ ev3)
          else
            let udata' := b + 8 + newLen * cw + 4
            match ulistFillS cw sz key (initBytes e init) n tpos (udata' + offset) offset bs5 with
            | (bs6, ev4) => (({ m1 with bytes := bs6 }, .ok ()), ev2 ++ ev3 ++ ev4)

def ulistClearS (c : Ctx) (cw b : Nat) (m : Mem) : TracedS Unit :=
  let usz := rd32 m.bytes b
  let len := rd32 m.bytes (b + 4)
  let udata := b + 8 + len * cw + 4
  match m.removeBytesNS c b (b + 8 + 4) (udata + usz) with
  | ((m1, .error e), ev) => ((m1, .error e), ev)
  | ((m1, .ok ()), ev) =>
    (({ m1 with bytes := wr32 (wr32 (wr32 m1.bytes (b + 4) 0) (b + 8) 0) b 0 }, .ok ()),
      ev ++ [.store (b + 4) (leN 4 0), .store (b + 8) (leN 4 0), .store b (leN 4 0)])

def ulistRemoveRangeS (c : Ctx) (cw b lo hi : Nat) (m : Mem) : TracedS Unit :=
  let len := rd32 m.bytes (b + 4)
  if lo = 0 ∧ hi = len then ulistClearS c cw b m
  else if hi < lo then ((m, .error .range), [])
  else if len < hi then ((m, .error .ioob), [])
  else
    let so := ulistOffset cw b lo m.bytes
    let eo := ulistOffset cw b hi m.bytes
    let udata := b + 8 + len * cw + 4
    let n := hi - lo
    let removed := eo - so
    let dst := b + 8 + lo * cw
    let src := b + 8 + hi * cw
    let ev0 : List EvS := [.raw (.move dst src (udata + so - src))]
    let bs1 := memmove m.bytes dst src (udata + so - src)
    match ({ m with bytes := bs1 } : Mem).removeBytesNS c b (udata + so - cw * n) (udata + eo) with
    | ((m1, .error e), ev) => ((m1, .error e), ev0 ++ ev)
    | ((m1, .ok ()), ev1) =>
      let newLen := len - n
      let bs2 := wr32 m1.bytes (b + 4) newLen
      let bs3 := wr32 bs2 (b + 8 + newLen * cw) newLen
      let usz := rd32 bs3 b
      let bs4 := wr32 bs3 b (usz - removed)
      let ev2 := ev0 ++ ev1 ++ [.store (b + 4) (leN 4 newLen), .store (b + 8 + newLen * cw) (leN 4 newLen),
        .store b (leN 4 (usz - removed))]
      match adjustOffsetsS cw b newLen lo true removed bs4 with
      | (.error e, ev3) => (({ m1 with bytes := bs4 }, .error e), ev2 ++ ev3)
      | (.ok bs5, ev3) => (({ m1 with bytes := bs5 }, .ok ()), ev2 ++ ev3)

def ulistPopS (c : Ctx) (cw b : Nat) (m : Mem) : TracedS Ret :=
  let len := rd32 m.bytes (b + 4)
  if len = 0 then ((m, .ok (.flag false)), [])
  else match ulistRemoveRangeS c cw b (len - 1) len m with
    | ((m1, .error e), ev) => ((m1, .error e), ev)
    | ((m1, .ok ()), ev) => ((m1, .ok (.flag true)), ev)

def unitResS : TracedS Unit → TracedS Ret
  | ((m, .error e), ev) => ((m, .error e), ev)
  | ((m, .ok ()), ev) => ((m, .ok .unit), ev)

def umapInsertS (c : Ctx) (kw : Nat) (e : Shape) (b : Nat) (k : List Nat) (init : Init) (m : Mem) :
    TracedS Ret :=
  let cw := Shape.entryW kw
  match search (umapKeys kw b m.bytes) (rdLE k) 0 with
  | .at i =>
    let len := rd32 m.bytes (b + 4)
    let eb := b + 8 + len * cw + 4 + rd32 m.bytes (b + 8 + i * cw)
    match setDataInnerS { c with path := c.path ++ [.elem i] } e eb (initBytes e init) (initFails e init) m with
    | ((m1, .error er), ev) => ((m1, .error er), ev)
    | ((m1, .ok ()), ev) => ((m1, .ok (.flag false)), ev)
  | .ins i =>
    match ulistInsertS c cw e b i 1 init k m with
    | ((m1, .error er), ev) => ((m1, .error er), ev)
    | ((m1, .ok ()), ev) => ((m1, .ok (.flag true)), ev)

/-! ## One op on the node of shape `t` at `b` -/

/-- The in-place ops (no resize): the machine's result and the one store it performs. -/
def inPlaceS (c : Ctx) (t : Shape) (b : Nat) (op : Op) (m : Mem) : TracedS Ret :=
  let r := applyAt c t b op m
  match t, op with
  | .fixed f, .write h => (r, if validE f h then [.store b h] else [])
  | .struct sized _, .write h => (r, if validE (.record sized) h then [.store b h] else [])
  | .list e lw, .set i x =>
    (r, if validE e x && decide (i < rdN m.bytes b lw) then [.store (b + lw + i * e.size) x] else [])
  | .map kw v lw, .mset k x =>
    (r, if k.length == kw && decide (BytesWF k) && validE v x then
        match search (listKeys (kw + v.size) lw kw b m.bytes) (rdLE k) 0 with
        | .at i => [.store (b + lw + i * (kw + v.size) + kw) x]
        | .ins _ => []
      else [])
  | .rem, .set i x =>
    (r, if x.length == 1 && decide (BytesWF x) && decide (i < m.bytes.length - b) then [.store (b + i) x] else [])
  | _, _ => (r, [])

def applyAtS (c : Ctx) (t : Shape) (b : Nat) (op : Op) (m : Mem) : TracedS Ret :=
  match op with
  | .replace v =>
    if WF t v then unitResS (setDataInnerS c t b (encode t v) false m) else ((m, .error .bad), [])
  | .reset =>
    if initOk t .default then unitResS (setDataInnerS c t b (initBytes t .default) false m)
    else ((m, .error .bad), [])
  | op =>
  match t with
  | .list e lw =>
    let ew := e.size
    let len := rdN m.bytes b lw
    match op with
    | .push x => if validE e x then unitResS (listInsertAllS c ew lw b len [x] m) else ((m, .error .bad), [])
    | .insert i x => if validE e x then unitResS (listInsertAllS c ew lw b i [x] m) else ((m, .error .bad), [])
    | .insertAll i xs =>
      if xs.all (validE e) then unitResS (listInsertAllS c ew lw b i xs m) else ((m, .error .bad), [])
    | .remove i => unitResS (listRemoveRangeS c ew lw b i (i + 1) m)
    | .removeRange lo hi => unitResS (listRemoveRangeS c ew lw b lo hi m)
    | .pop => listPopS c ew lw b m
    | .clear => unitResS (listClearS c ew lw b m)
    | op => inPlaceS c t b op m
  | .set e lw =>
    let ew := e.size
    match op with
    | .sinsert x =>
      if validE e x then
        match setInsertS c ew lw b x m with
        | ((m1, .error er), ev) => ((m1, .error er), ev)
        | ((m1, .ok new), ev) => ((m1, .ok (.flag new)), ev)
      else ((m, .error .bad), [])
    | .sremove x => if validE e x then setRemoveS c ew lw b x m else ((m, .error .bad), [])
    | .sinsertAll xs => if xs.all (validE e) then setInsertAllS c ew lw b xs 0 m else ((m, .error .bad), [])
    | .clear => unitResS (listClearS c ew lw b m)
    | op => inPlaceS c t b op m
  | .map kw v lw =>
    let vw := v.size
    match op with
    | .minsert k x =>
      if k.length == kw && decide (BytesWF k) && validE v x then
        match mapInsertS c kw vw lw b k x m with
        | ((m1, .error er), ev) => ((m1, .error er), ev)
        | ((m1, .ok old), ev) => ((m1, .ok (.old old)), ev)
      else ((m, .error .bad), [])
    | .mremove k =>
      if k.length == kw && decide (BytesWF k) then mapRemoveS c kw vw lw b k m else ((m, .error .bad), [])
    | .minsertAll kvs =>
      if kvs.all (fun kx => kx.1.length == kw && decide (BytesWF kx.1) && validE v kx.2) then
        mapInsertAllS c kw vw lw b kvs 0 m
      else ((m, .error .bad), [])
    | .clear => unitResS (listClearS c (kw + vw) lw b m)
    | op => inPlaceS c t b op m
  | .str lw =>
    match op with
    | .strSet s =>
      if utf8Valid s && decide (BytesWF s) then unitResS (strSetS c lw b s m) else ((m, .error .bad), [])
    | op => inPlaceS c t b op m
  | .rem =>
    match op with
    | .setLen n => unitResS (remSetLenS c b n m)
    | op => inPlaceS c t b op m
  | .ulist e =>
    match op with
    | .uinsert i n => unitResS (ulistInsertS c 4 e b i n .default [] m)
    | .uinsertArr i xs =>
      if arrOk e xs then unitResS (ulistInsertS c 4 e b i 1 (.array xs) [] m) else ((m, .error .bad), [])
    | .remove i => unitResS (ulistRemoveRangeS c 4 b i (i + 1) m)
    | .removeRange lo hi => unitResS (ulistRemoveRangeS c 4 b lo hi m)
    | .pop => ulistPopS c 4 b m
    | .clear => unitResS (ulistClearS c 4 b m)
    | op => inPlaceS c t b op m
  | .umap kw e =>
    let cw := Shape.entryW kw
    match op with
    | .uminsert k =>
      if k.length == kw && decide (BytesWF k) then umapInsertS c kw e b k .default m else ((m, .error .bad), [])
    | .uminsertArr k xs =>
      if k.length == kw && decide (BytesWF k) && arrOk e xs then umapInsertS c kw e b k (.array xs) m
      else ((m, .error .bad), [])
    | .umremove k =>
      if k.length == kw && decide (BytesWF k) then
        match search (umapKeys kw b m.bytes) (rdLE k) 0 with
        | .ins _ => ((m, .ok (.flag false)), [])
        | .at i =>
          match ulistRemoveRangeS c cw b i (i + 1) m with
          | ((m1, .error er), ev) => ((m1, .error er), ev)
          | ((m1, .ok ()), ev) => ((m1, .ok (.flag true)), ev)
      else ((m, .error .bad), [])
    | .clear => unitResS (ulistRemoveRangeS c cw b 0 (rd32 m.bytes (b + 4)) m)
    | op => inPlaceS c t b op m
  | .enum ds _ =>
    match op with
    | .setVariant idx =>
      if idx < ds.length ∧ initOk t (.variant idx .default) then
        unitResS (setDataInnerS c t b (initBytes t (.variant idx .default)) false m)
      else ((m, .error .bad), [])
    | op => inPlaceS c t b op m
  | _ => inPlaceS c t b op m

def applyOpS (s : Shape) (abs : List Step) (op : Op) (m : Mem) : TracedS Ret :=
  match locate s abs 0 m.bytes with
  | .error e => ((m, .error e), [])
  | .ok (t, b) => applyAtS ⟨s, abs⟩ t b op m

/-! ## Checker and replay with stores -/

/-- `evsOk` with the typed stores: every store lies inside the data of that moment. -/
def evsOkS (cap : Nat) : Nat → List EvS → Bool
  | _, [] => true
  | len, .raw (.realloc _ new ok) :: es =>
    if ok then decide (new ≤ cap) && evsOkS cap new es else evsOkS cap len es
  | len, .raw (.move d s n) :: es => decide (d + n ≤ len) && decide (s + n ≤ len) && evsOkS cap len es
  | len, .raw _ :: es => evsOkS cap len es
  | len, .store off v :: es => decide (off + v.length ≤ len) && evsOkS cap len es

/-- Replay on the allocation (`data ++ slack`): raw accesses as `execEv`, a store overwrites `v.length`
bytes at `off`. -/
def execEvS : Alloc → EvS → Alloc
  | a, .raw e => execEv a e
  | (mem, len), .store off v => (wr mem off v, len)

def execEvsS (a : Alloc) (evs : List EvS) : Alloc := evs.foldl execEvS a

end Unsized.Machine
