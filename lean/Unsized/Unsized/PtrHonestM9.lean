import Unsized.PtrHonestM8
namespace Unsized.Ptr
open Common Unsized Unsized.Text Unsized.Machine Unsized.PtrT Unsized.PtrM

theorem listOf_none (sh : Shape) (t : PtrTree) (h1 : ∀ e, sh ≠ .ulist e) (h2 : ∀ kw e, sh ≠ .umap kw e) :
    listOf sh t = none := by
  unfold listOf
  split
  · exact absurd rfl (h1 _)
  · exact absurd rfl (h2 _ _)
  · rfl

/-- **The pointer-level prologue of a call never panics on an honest pointer** (`check_inner_initialized`,
the `check_pointers` assert of `set_data_inner`, `index_exclusive` of `UnsizedMap::insert`) and leaves it
honest. -/
theorem prologue_hon {w : World} {x : Which} {s : Shape} {v : Val} (c : PCtx w x s v) (π : List Step) (t : Shape)
    (u : Val) (hres : resolve s v π = .ok (t, u)) (T : PtrTree)
    (hT : Hon t u ((w.get x).base + offsetOf s v π) T) (pre : Pre) :
    ∃ T1, runPre w (w.get x).rng t T pre = some T1 ∧ Hon t u ((w.get x).base + offsetOf s v π) T1
      ∧ (∀ i t1 u1, (pre = .enter i ∨ pre = .enterSetData i) → resolve1 t u (.elem i) = .ok (t1, u1) →
          HonStep t u (.elem i) ((w.get x).base + offsetOf s v π) T1
            (treeOf t1 u1 ((w.get x).base + offsetOf s v π + (stepPre t u (.elem i) 0).length)))
      ∧ (pre = .checkClear → ∀ cw a len lo hi inner pmb, listOf t T1 = some (.ulist cw a len lo hi inner pmb) →
          inner = none) := by
  have gt : Good t u := (Focus.sub ⟨c.good, hres, c.bytes⟩)
  obtain ⟨A, C, hA, henc, _⟩ := encode_split π s v t u c.good hres
  have hbytes : (w.get x).mem.bytes = A ++ encode t u ++ C := by rw [c.bytes, henc]
  have hB : (w.get x).base + offsetOf s v π = (w.get x).base + A.length := by rw [hA]
  have hle := offsetOf_le π s v t u c.good hres
  have hlen := c.calm.fitsNow
  rw [c.bytes] at hlen
  have hst : size t u = (encode t u).length := (encode_size_all _ _ gt.valid).symm
  obtain ⟨top, ie, hokt⟩ := gt.ok
  have hut : t ≠ .unit → ∃ cc, checkPointers (w.get x).rng T (w.get x).rng.lo = (true, cc) := by
    intro hu
    obtain ⟨cc, hc, _, _⟩ := hon_check t top ie hokt hu u gt.valid _ T hT (w.get x).rng (w.get x).rng.lo
      (Nat.le_refl _) (by simp only [PBuf.rng]; omega) (by simp only [PBuf.rng]; omega)
    exact ⟨cc, hc⟩
  -- the set_data_inner assert
  have hsd : (checkPointers (w.get x).rng T (w.get x).rng.lo).1 = true := by
    by_cases hu : t = .unit
    · subst hu; simp only [Hon] at hT; subst hT; simp [treeOf, checkPointers, checkL]
    · obtain ⟨cc, hc⟩ := hut hu; rw [hc]
  have hl0 : (∀ e, t ≠ .ulist e) → (∀ kw e, t ≠ .umap kw e) → listOf t T = none := listOf_none t T
  cases t with
  | ulist e =>
    obtain ⟨vs, rfl⟩ := good_ulist_val e u gt
    have hT0 := hT
    simp only [Hon] at hT0
    obtain ⟨inner, pmb, rfl, hin⟩ := hT0
    have hok := hokt
    simp only [Shape.okAux, Bool.and_eq_true, Bool.not_eq_true'] at hok
    have hchk := hon_checkInner e _ vs.length _ _ 4 inner pmb hok.1 rfl hin
    cases pre with
    | none => exact ⟨_, rfl, hT, (by intro i t1 u1 h; rcases h with h | h <;> cases h), (by intro h; cases h)⟩
    | check =>
      refine ⟨_, (by simp only [runPre, listOf, hchk, if_true, onList, setFlags]; first | rfl | skip), ?_,
        (by intro i t1 u1 h; rcases h with h | h <;> cases h), (by intro h; cases h)⟩
      simp only [Hon]; exact ⟨inner, false, rfl, hin⟩
    | checkClear =>
      refine ⟨_, (by simp only [runPre, listOf, hchk, if_true, onList, setFlags]; first | rfl | skip), ?_,
        (by intro i t1 u1 h; rcases h with h | h <;> cases h), ?_⟩
      · simp only [Hon]; exact ⟨none, false, rfl, Or.inl rfl⟩
      · intro _ cw a len lo hi inner' pmb' hl
        simp only [listOf, if_true, Option.some.injEq, PtrTree.ulist.injEq] at hl
        exact hl.2.2.2.2.2.1.symm
    | setData => exact ⟨_, (by simp only [runPre, hsd, if_true]; first | rfl | skip), hT, (by intro i t1 u1 h; rcases h with h | h <;> cases h), (by intro h; cases h)⟩
    | enter i =>
      by_cases hi : i < vs.length
      · have h1 : resolve1 (.ulist e) (.useq vs) (.elem i) = .ok (e, vs[i]) := by simp [resolve1, hi]
        obtain ⟨he, _⟩ := enter_elem w x c.own _ _ i e vs[i] A C _ gt h1 hbytes hB _ (Or.inl ⟨e, vs, rfl, rfl, hT⟩)
        have hstep : HonStep (.ulist e) (.useq vs) (.elem i) ((w.get x).base + offsetOf s v π)
            (setInner (.ulist 4 ((w.get x).base + offsetOf s v π) vs.length ((w.get x).base + offsetOf s v π)
              ((w.get x).base + offsetOf s v π + size (.ulist e) (.useq vs)) inner pmb)
              (treeOf e vs[i] ((w.get x).base + offsetOf s v π + (stepPre (.ulist e) (.useq vs) (.elem i) 0).length)))
            (treeOf e vs[i] ((w.get x).base + offsetOf s v π + (stepPre (.ulist e) (.useq vs) (.elem i) 0).length)) := by
          simp only [setInner, HonStep]; exact ⟨true, rfl⟩
        refine ⟨_, (by simp only [runPre, listOf, elemShape, he, onList]; first | rfl | skip),
          step_fill _ _ _ e vs[i] gt h1 _ _ _ hstep (hon_treeOf e _ _), ?_, (by intro h; cases h)⟩
        intro j t1 u1 hj hr
        have : j = i := by rcases hj with h | h <;> cases h <;> rfl
        subst this
        rw [h1] at hr; cases hr
        exact hstep
      · have ho := enter_oob_ulist w e e vs _ i _ hT (by omega)
        refine ⟨_, (by simp only [runPre, listOf, elemShape, ho]; first | rfl | skip), hT, ?_, (by intro h; cases h)⟩
        intro j t1 u1 hj hr
        have : j = i := by rcases hj with h | h <;> cases h <;> rfl
        subst this
        simp [resolve1, hi] at hr
    | enterSetData i =>
      by_cases hi : i < vs.length
      · have h1 : resolve1 (.ulist e) (.useq vs) (.elem i) = .ok (e, vs[i]) := by simp [resolve1, hi]
        obtain ⟨he, _⟩ := enter_elem w x c.own _ _ i e vs[i] A C _ gt h1 hbytes hB _ (Or.inl ⟨e, vs, rfl, rfl, hT⟩)
        have hstep : HonStep (.ulist e) (.useq vs) (.elem i) ((w.get x).base + offsetOf s v π)
            (setInner (.ulist 4 ((w.get x).base + offsetOf s v π) vs.length ((w.get x).base + offsetOf s v π)
              ((w.get x).base + offsetOf s v π + size (.ulist e) (.useq vs)) inner pmb)
              (treeOf e vs[i] ((w.get x).base + offsetOf s v π + (stepPre (.ulist e) (.useq vs) (.elem i) 0).length)))
            (treeOf e vs[i] ((w.get x).base + offsetOf s v π + (stepPre (.ulist e) (.useq vs) (.elem i) 0).length)) := by
          simp only [setInner, HonStep]; exact ⟨true, rfl⟩
        obtain ⟨g1, _⟩ := step_facts _ _ _ e vs[i] gt h1
        obtain ⟨hgeo, hel⟩ := step_geom _ _ _ e vs[i] gt h1
        have hpre12 := hel i rfl
        obtain ⟨cc, hc, _, _⟩ := hon_check e false false hok.1 (okField_not_unit e hok.1) vs[i] g1.valid _ _
          (hon_treeOf e vs[i] ((w.get x).base + offsetOf s v π + (stepPre (.ulist e) (.useq vs) (.elem i) 0).length))
          (w.get x).rng (w.get x).rng.lo (Nat.le_refl _) (by simp only [PBuf.rng]; omega) (by simp only [PBuf.rng]; omega)
        refine ⟨_, (by simp only [runPre, listOf, elemShape, he, hc, if_true, onList]; first | rfl | skip),
          step_fill _ _ _ e vs[i] gt h1 _ _ _ hstep (hon_treeOf e _ _), ?_, (by intro h; cases h)⟩
        intro j t1 u1 hj hr
        have : j = i := by rcases hj with h | h <;> cases h <;> rfl
        subst this
        rw [h1] at hr; cases hr
        exact hstep
      · have ho := enter_oob_ulist w e e vs _ i _ hT (by omega)
        refine ⟨_, (by simp only [runPre, listOf, elemShape, ho]; first | rfl | skip), hT, ?_, (by intro h; cases h)⟩
        intro j t1 u1 hj hr
        have : j = i := by rcases hj with h | h <;> cases h <;> rfl
        subst this
        simp [resolve1, hi] at hr
  | umap kw e =>
    obtain ⟨vs, rfl⟩ := good_umap_val kw e u gt
    have hT0 := hT
    simp only [Hon] at hT0
    obtain ⟨inner, pmb, rfl, hin⟩ := hT0
    have hok := hokt
    simp only [Shape.okAux, Bool.and_eq_true, Bool.not_eq_true', decide_eq_true_eq] at hok
    have hchk := hon_checkInner e _ vs.length _ _ (Shape.entryW kw) inner pmb hok.1.2 rfl hin
    cases pre with
    | none => exact ⟨_, rfl, hT, (by intro i t1 u1 h; rcases h with h | h <;> cases h), (by intro h; cases h)⟩
    | check =>
      refine ⟨_, (by simp only [runPre, listOf, hchk, if_true, onList, setFlags]; first | rfl | skip), ?_,
        (by intro i t1 u1 h; rcases h with h | h <;> cases h), (by intro h; cases h)⟩
      simp only [Hon]; exact ⟨inner, false, rfl, hin⟩
    | checkClear =>
      refine ⟨_, (by simp only [runPre, listOf, hchk, if_true, onList, setFlags]; first | rfl | skip), ?_,
        (by intro i t1 u1 h; rcases h with h | h <;> cases h), ?_⟩
      · simp only [Hon]; exact ⟨none, false, rfl, Or.inl rfl⟩
      · intro _ cw a len lo hi inner' pmb' hl
        simp only [listOf, if_true, Option.some.injEq, PtrTree.ulist.injEq] at hl
        exact hl.2.2.2.2.2.1.symm
    | setData => exact ⟨_, (by simp only [runPre, hsd, if_true]; first | rfl | skip), hT, (by intro i t1 u1 h; rcases h with h | h <;> cases h), (by intro h; cases h)⟩
    | enter i =>
      by_cases hi : i < vs.length
      · have h1 : resolve1 (.umap kw e) (.umap vs) (.elem i) = .ok (e, vs[i].2) := by simp [resolve1, hi]
        obtain ⟨he, _⟩ := enter_elem w x c.own _ _ i e vs[i].2 A C _ gt h1 hbytes hB _ (Or.inr ⟨kw, e, vs, rfl, rfl, hT⟩)
        have hstep : HonStep (.umap kw e) (.umap vs) (.elem i) ((w.get x).base + offsetOf s v π)
            (.node [setInner (.ulist (Shape.entryW kw) ((w.get x).base + offsetOf s v π) vs.length ((w.get x).base + offsetOf s v π)
              ((w.get x).base + offsetOf s v π + size (.umap kw e) (.umap vs)) inner pmb)
              (treeOf e vs[i].2 ((w.get x).base + offsetOf s v π + (stepPre (.umap kw e) (.umap vs) (.elem i) 0).length))])
            (treeOf e vs[i].2 ((w.get x).base + offsetOf s v π + (stepPre (.umap kw e) (.umap vs) (.elem i) 0).length)) := by
          simp only [setInner, HonStep]; exact ⟨true, rfl⟩
        refine ⟨_, (by simp only [runPre, listOf, elemShape, he, onList]; first | rfl | skip),
          step_fill _ _ _ e vs[i].2 gt h1 _ _ _ hstep (hon_treeOf e _ _), ?_, (by intro h; cases h)⟩
        intro j t1 u1 hj hr
        have : j = i := by rcases hj with h | h <;> cases h <;> rfl
        subst this
        rw [h1] at hr; cases hr
        exact hstep
      · have ho := enter_oob_umap w kw e e vs _ i _ hT (by omega)
        refine ⟨_, (by simp only [runPre, listOf, elemShape, ho]; first | rfl | skip), hT, ?_, (by intro h; cases h)⟩
        intro j t1 u1 hj hr
        have : j = i := by rcases hj with h | h <;> cases h <;> rfl
        subst this
        simp [resolve1, hi] at hr
    | enterSetData i =>
      by_cases hi : i < vs.length
      · have h1 : resolve1 (.umap kw e) (.umap vs) (.elem i) = .ok (e, vs[i].2) := by simp [resolve1, hi]
        obtain ⟨he, _⟩ := enter_elem w x c.own _ _ i e vs[i].2 A C _ gt h1 hbytes hB _ (Or.inr ⟨kw, e, vs, rfl, rfl, hT⟩)
        have hstep : HonStep (.umap kw e) (.umap vs) (.elem i) ((w.get x).base + offsetOf s v π)
            (.node [setInner (.ulist (Shape.entryW kw) ((w.get x).base + offsetOf s v π) vs.length ((w.get x).base + offsetOf s v π)
              ((w.get x).base + offsetOf s v π + size (.umap kw e) (.umap vs)) inner pmb)
              (treeOf e vs[i].2 ((w.get x).base + offsetOf s v π + (stepPre (.umap kw e) (.umap vs) (.elem i) 0).length))])
            (treeOf e vs[i].2 ((w.get x).base + offsetOf s v π + (stepPre (.umap kw e) (.umap vs) (.elem i) 0).length)) := by
          simp only [setInner, HonStep]; exact ⟨true, rfl⟩
        obtain ⟨g1, _⟩ := step_facts _ _ _ e vs[i].2 gt h1
        obtain ⟨hgeo, hel⟩ := step_geom _ _ _ e vs[i].2 gt h1
        have hpre12 := hel i rfl
        obtain ⟨cc, hc, _, _⟩ := hon_check e false false hok.1.2 (okField_not_unit e hok.1.2) vs[i].2 g1.valid _ _
          (hon_treeOf e vs[i].2 ((w.get x).base + offsetOf s v π + (stepPre (.umap kw e) (.umap vs) (.elem i) 0).length))
          (w.get x).rng (w.get x).rng.lo (Nat.le_refl _) (by simp only [PBuf.rng]; omega) (by simp only [PBuf.rng]; omega)
        refine ⟨_, (by simp only [runPre, listOf, elemShape, he, hc, if_true, onList]; first | rfl | skip),
          step_fill _ _ _ e vs[i].2 gt h1 _ _ _ hstep (hon_treeOf e _ _), ?_, (by intro h; cases h)⟩
        intro j t1 u1 hj hr
        have : j = i := by rcases hj with h | h <;> cases h <;> rfl
        subst this
        rw [h1] at hr; cases hr
        exact hstep
      · have ho := enter_oob_umap w kw e e vs _ i _ hT (by omega)
        refine ⟨_, (by simp only [runPre, listOf, elemShape, ho]; first | rfl | skip), hT, ?_, (by intro h; cases h)⟩
        intro j t1 u1 hj hr
        have : j = i := by rcases hj with h | h <;> cases h <;> rfl
        subst this
        simp [resolve1, hi] at hr
  | _ =>
    all_goals
      have hl := hl0 (by intro e h; cases h) (by intro kw e h; cases h)
      cases pre <;>
        exact ⟨T, (by simp only [runPre, hsd, hl, elemShape, if_true]), hT,
            (by intro i t1 u1 _ hr; simp [resolve1] at hr), (by intro _ cw a len lo hi inner pmb hl'; rw [hl] at hl'; cases hl')⟩

end Unsized.Ptr
