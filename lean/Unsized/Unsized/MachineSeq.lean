import Unsized.MachineSorted
/-!
# `insert_all` / `remove_range` on any node stored as `leN lw len ++ records` (list, set, map), and the
keys the binary search sees on canonical bytes (`listKeys_enc`)
-/
namespace Unsized.Machine
open Common Unsized Unsized.Text

/-- `insert_all` on any node whose bytes are `leN lw len ++ records` (list / set / map), given that the
resulting value is well formed. -/
theorem seq_insertAll {s v p m} {t : Shape} {es : List (List Nat)} (F : Focus s v p t (.seq es) m) (c : Calm m)
    (ew lw : Nat) (henc : ∀ es', encode t (.seq es') = leN lw es'.length ++ es'.flatten)
    (hes : ∀ x ∈ es, x.length = ew) (hlen : es.length < 256 ^ lw)
    (idx : Nat) (xs : List (List Nat)) (hxs : ∀ x ∈ xs, x.length = ew) (hidx : idx ≤ es.length)
    (hfit : es.length + xs.length < 256 ^ lw) (g' : Good t (.seq (Spec.insertAt es idx xs)))
    (hroom : (plug s v p (encode t (.seq (Spec.insertAt es idx xs)))).length ≤ m.orig + maxIncrease) :
    ∃ m', listInsertAll ⟨s, p⟩ ew lw (offsetOf s v p) idx xs m = (m', .ok ())
      ∧ Focus s (subst s v p (.seq (Spec.insertAt es idx xs))) p t (.seq (Spec.insertAt es idx xs)) m'
      ∧ m'.orig = m.orig ∧ m'.refuse = m.refuse := by
  have hil : (Spec.insertAt es idx xs).length = es.length + xs.length := by
    simp [Spec.insertAt]; omega
  have hwid : ∀ x ∈ Spec.insertAt es idx xs, x.length = ew := by
    intro x hx
    simp only [Spec.insertAt, List.mem_append] at hx
    rcases hx with (hx | hx) | hx
    · exact hes x (List.mem_of_mem_take hx)
    · exact hxs x hx
    · exact hes x (List.mem_of_mem_drop hx)
  have hnew : (encode t (.seq (Spec.insertAt es idx xs))).length = (encode t (.seq es)).length + ew * xs.length := by
    rw [henc, henc]
    simp only [List.length_append, leN_length]
    rw [flatten_width ew _ hwid, flatten_width ew es hes, hil, Nat.add_mul, Nat.mul_comm xs.length]
    omega
  have hpl := plug_length p s v _ _ F.good F.res (encode t (.seq (Spec.insertAt es idx xs)))
  obtain ⟨m1, hm1, hb1, ho1, hr1⟩ := listInsertAll_bytes F c ew lw es (henc es) hes hlen idx xs hxs hidx hfit (by omega)
  have hb1' : m1.bytes = plug s v p (encode t (.seq (Spec.insertAt es idx xs))) := by
    rw [hb1, henc, hil]
  exact ⟨m1, hm1, F.finish _ g' m1 hb1' (by rw [hb1']; exact F.small c _ hroom), ho1, hr1⟩

/-- `remove_range` on any node whose bytes are `leN lw len ++ records`. -/
theorem seq_removeRange {s v p m} {t : Shape} {es : List (List Nat)} (F : Focus s v p t (.seq es) m) (c : Calm m)
    (ew lw : Nat) (henc : ∀ es', encode t (.seq es') = leN lw es'.length ++ es'.flatten)
    (hes : ∀ x ∈ es, x.length = ew) (hlen : es.length < 256 ^ lw)
    (lo hi : Nat) (hlo : lo ≤ hi) (hhi : hi ≤ es.length) (g' : Good t (.seq (Spec.removeRange es lo hi))) :
    ∃ m', listRemoveRange ⟨s, p⟩ ew lw (offsetOf s v p) lo hi m = (m', .ok ())
      ∧ Focus s (subst s v p (.seq (Spec.removeRange es lo hi))) p t (.seq (Spec.removeRange es lo hi)) m'
      ∧ m'.orig = m.orig ∧ m'.refuse = m.refuse := by
  obtain ⟨m1, hm1, hb1, ho1, hr1, hg1⟩ := listRemoveRange_bytes F ew lw es (henc es) hes hlen lo hi hlo hhi
  have hrl : (Spec.removeRange es lo hi).length = es.length - (hi - lo) := by
    simp [Spec.removeRange]; omega
  have hb1' : m1.bytes = plug s v p (encode t (.seq (Spec.removeRange es lo hi))) := by
    rw [hb1, henc, hrl]
  have hwid : ∀ x ∈ Spec.removeRange es lo hi, x.length = ew := by
    intro x hx
    simp only [Spec.removeRange, List.mem_append] at hx
    rcases hx with hx | hx
    · exact hes x (List.mem_of_mem_take hx)
    · exact hes x (List.mem_of_mem_drop hx)
  have hnew : (encode t (.seq (Spec.removeRange es lo hi))).length ≤ (encode t (.seq es)).length := by
    rw [henc, henc]
    simp only [List.length_append, leN_length]
    rw [flatten_width ew _ hwid, flatten_width ew es hes, hrl]
    have := Nat.mul_le_mul_right ew (Nat.sub_le es.length (hi - lo)); omega
  have hpl := plug_length p s v _ _ F.good F.res (encode t (.seq (Spec.removeRange es lo hi)))
  have hle := offsetOf_le p s v _ _ F.good F.res
  have := c.fitsNow; have := c.small
  have hlen1 : m1.bytes.length ≤ m.bytes.length := by rw [hb1', F.bytes]; omega
  exact ⟨m1, hm1, F.finish _ g' m1 hb1' (by omega), ho1, hr1⟩

/-- The keys the binary search of a `Set`/`Map` sees on canonical bytes. -/
theorem listKeys_enc {s v p m} {t : Shape} {es : List (List Nat)} (F : Focus s v p t (.seq es) m)
    (ew lw kw : Nat) (henc : encode t (.seq es) = leN lw es.length ++ es.flatten)
    (hes : ∀ x ∈ es, x.length = ew) (hlen : es.length < 256 ^ lw) :
    listKeys ew lw kw (offsetOf s v p) m.bytes = es.map (keyOf kw) := by
  obtain ⟨A, C, hA, hE, _⟩ := encode_split p s v _ _ F.good F.res
  have hElen : (encode t (.seq es)).length = lw + es.length * ew := by
    rw [henc, List.length_append, leN_length, flatten_width ew es hes]
  have hrd : rdN m.bytes (offsetOf s v p) lw = es.length := by
    have := enc_rdN p s v _ _ F.good F.res 0 lw (by omega)
    rw [Nat.add_zero] at this
    rw [F.bytes, this, henc, rdN_leN_zero lw _ _ hlen]
  unfold listKeys
  rw [hrd, F.bytes, hE, henc]
  have e1 : A ++ (leN lw es.length ++ es.flatten) ++ C = (A ++ leN lw es.length) ++ (es.flatten ++ C) := by
    simp [List.append_assoc]
  rw [e1, drop_append_len _ _ _ (by simp [hA]), chunks_flatten ew es C hes]

end Unsized.Machine
