import Unsized.Machine
/-!
# Pointer trees of the unsized-type system (C03)

`PtrTree` mirrors the Rust `UnsizedType::Ptr` types one-for-one:

| Rust                                                | `PtrTree`                                      |
|-----------------------------------------------------|------------------------------------------------|
| `CheckedPtr<T>` (`checked.rs`)                      | `leaf .checked addr`                           |
| `ListPtr<T, L>` (`list.rs`)                         | `leaf .list addr`                              |
| `RemainingBytesPtr` (`remaining_bytes.rs`)          | `leaf .rem addr`                               |
| `UnsizedListPtr<T, C>` (`unsized_list.rs` 370–380)  | `ulist cw addr len lo hi inner pmb`            |
| generated struct pointer (`struct_impl.rs`)         | `node children` (the `…Sized` part, if any, is the first child: a `CheckedPtr`) |
| `Set`/`Map`/`UnsizedString`/`UnsizedMap`            | `node [child]` (they are `#[unsized_type]` structs with one field) |
| `StartPointer<Enum>` (`wrapper.rs` 635–678, `enum_impl.rs`) | `start addr idx payload` (`payload = none` for a unit variant) |
| `AccountDiscriminant<T>`                            | the tree of `T` (its `Ptr` is `T::Ptr`)        |

Note: a generated struct pointer is NOT wrapped in a `StartPointer` (only enums are): its `start_ptr`
is the `start_ptr` of its first child.

Addresses are absolute (`base` + offset). The functions are the code as it is now:

* `getPtr`              — `UnsizedType::get_ptr` (same `try_advance` chain as `Codec.extent`, see `getPtr_extent`)
* `resizeNotify`        — `UnsizedType::resize_notification`, every impl's case split
* `checkPointers`       — `UnsizedTypePtr::check_pointers` (monotone cursor, half-open `range.contains`,
                          the inclusive end of `RemainingBytesPtr`, the inner check of `UnsizedListPtr`
                          restarting at `range.start`, `&&` short-circuit)
* `checkInnerInitialized` — `UnsizedListPtr::check_inner_initialized`
-/
namespace Unsized.PtrT
open Common Unsized

/-- Which leaf pointer type. -/
inductive LeafKind where
  | checked
  | list
  | rem
  deriving DecidableEq, Repr, Inhabited

/-- A pointer object (`T::Ptr`). -/
inductive PtrTree where
  /-- `CheckedPtr` / `ListPtr` / `RemainingBytesPtr`: one address. -/
  | leaf (k : LeafKind) (addr : Nat)
  /-- `UnsizedListPtr { list_ptr: (addr, len), inner_exclusive, possible_mut_borrow, range: lo..hi }`;
  `cw = size_of::<C>()` is the type parameter, kept here because `total_byte_size` needs it. -/
  | ulist (cw addr len lo hi : Nat) (inner : Option PtrTree) (pmb : Bool)
  /-- generated struct pointer: the children in field order. -/
  | node (kids : List PtrTree)
  /-- `StartPointer { data: <enum value holding the current variant's pointer>, start }`. -/
  | start (addr idx : Nat) (payload : Option PtrTree)
  deriving Repr, Inhabited

/-- `Range<usize>` (half-open). -/
structure Rng where
  lo : Nat
  hi : Nat
  deriving Repr, DecidableEq, Inhabited

/-- `range.contains(&a)`. -/
def Rng.contains (r : Rng) (a : Nat) : Bool := decide (r.lo ≤ a) && decide (a < r.hi)
/-- `(range.start..=range.end).contains(&a)` (`remaining_bytes.rs` 59). -/
def Rng.containsIncl (r : Rng) (a : Nat) : Bool := decide (r.lo ≤ a) && decide (a ≤ r.hi)

/-! ## `get_ptr` -/

def Shape.isUnit : Shape → Bool
  | .unit => true
  | _ => false

mutual
/-- `T::get_ptr(&mut data)` with `data = (base, bs)`: the pointer object and the number of bytes
consumed. Fresh `UnsizedListPtr`s have `inner_exclusive = None`, `possible_mut_borrow = false`,
`range = ptr.addr()..data.addr()`. -/
def getPtr : Shape → List Nat → Nat → Except E (PtrTree × Nat)
  | .fixed f, bs, base =>
    match extentFixed f bs with
    | .error e => .error e
    | .ok n => .ok (.leaf .checked base, n)
  | .list e lw, bs, base =>
    match extentList e.size lw bs with
    | .error e => .error e
    | .ok n => .ok (.leaf .list base, n)
  | .set e lw, bs, base =>
    match extentList e.size lw bs with
    | .error e => .error e
    | .ok n => .ok (.node [.leaf .list base], n)
  | .map kw v lw, bs, base =>
    match extentList (kw + v.size) lw bs with
    | .error e => .error e
    | .ok n => .ok (.node [.leaf .list base], n)
  | .str lw, bs, base =>
    match extentList 1 lw bs with
    | .error e => .error e
    | .ok n => .ok (.node [.leaf .list base], n)
  | .rem, bs, base => .ok (.leaf .rem base, bs.length)
  | .ulist _, bs, base =>
    match extentUlist 4 bs with
    | .error e => .error e
    | .ok n => .ok (.ulist 4 base (rdLE ((bs.drop 4).take 4)) base (base + n) none false, n)
  | .umap kw _, bs, base =>
    match extentUlist (Shape.entryW kw) bs with
    | .error e => .error e
    | .ok n =>
      .ok (.node [.ulist (Shape.entryW kw) base (rdLE ((bs.drop 4).take 4)) base (base + n) none false], n)
  | .struct sized fs, bs, base =>
    if sized.isEmpty then
      match getPtrFields fs bs base with
      | .error e => .error e
      | .ok (ks, n) => .ok (.node ks, n)
    else
      match extentFixed (.record sized) bs with
      | .error e => .error e
      | .ok n =>
        match getPtrFields fs (bs.drop n) (base + n) with
        | .error e => .error e
        | .ok (ks, m) => .ok (.node (.leaf .checked base :: ks), n + m)
  | .enum ds ps, bs, base =>
    match bs with
    | [] => .error .advance
    | r :: rest =>
      match getPtrVariant ds ps r rest (base + 1) 0 with
      | .error e => .error e
      | .ok (idx, p, n) => .ok (.start base idx p, 1 + n)
  | .unit, _, _ => .ok (.node [], 0)
  | .disc d inner, bs, base =>
    if d.length ≤ bs.length then
      match getPtr inner (bs.drop d.length) (base + d.length) with
      | .error e => .error e
      | .ok (t, n) => .ok (t, d.length + n)
    else .error .advance
/-- The generated `Self::Ptr { f1: F1::get_ptr(data)?, f2: F2::get_ptr(data)?, … }`. -/
def getPtrFields : List Shape → List Nat → Nat → Except E (List PtrTree × Nat)
  | [], _, _ => .ok ([], 0)
  | f :: fs, bs, base =>
    match getPtr f bs base with
    | .error e => .error e
    | .ok (t, n) =>
      match getPtrFields fs (bs.drop n) (base + n) with
      | .error e => .error e
      | .ok (ts, m) => .ok (t :: ts, n + m)
/-- The generated `match repr { D1 => Enum::V1(P1::get_ptr(data)?), … }`; returns the variant index,
the payload pointer (`none` for a unit variant) and the bytes consumed. -/
def getPtrVariant : List Nat → List Shape → Nat → List Nat → Nat → Nat →
    Except E (Nat × Option PtrTree × Nat)
  | d :: ds, p :: ps, r, bs, base, i =>
    if r = d then
      match getPtr p bs base with
      | .error e => .error e
      | .ok (t, n) => .ok (i, if Shape.isUnit p then none else some t, n)
    else getPtrVariant ds ps r bs base (i + 1)
  | _, _, _, _, _, _ => .error .invalidData
end

/-! ## `resize_notification` -/

/-- `ptr.wrapping_byte_offset(change)` / `usize::wrapping_add_signed(change)` for `change = ±amt`. -/
def wrapOff (neg : Bool) (amt a : Nat) : Nat :=
  if neg then (if amt ≤ a then a - amt else a + Shape.usizeLim - amt)
  else (a + amt) % Shape.usizeLim

mutual
/-- `T::resize_notification(self_mut, source_ptr, change)`; `usz a` = the `unsized_size` field read
through a list pointer at address `a`. `none` = `Err(UnsizedUnexpected)`.

* leaf (`checked.rs` 99–109, `list.rs` 400–410): `if source < self { self += change }`;
  `RemainingBytes` (`remaining_bytes.rs` 92–109): `Less` → shift, `Equal` → nothing, `Greater` → error.
* `UnsizedList` (`unsized_list.rs` 625–674): the four-way split, including the forwarding to the
  cached inner pointer when the change happened before the list (fix 3706038).
* struct: every child in order (`struct_impl.rs` 672–675); enum: `StartPointer::handle_resize_notification`
  then the current variant (`enum_impl.rs` 487–497). -/
def resizeNotify (usz : Nat → Nat) (src : Nat) (neg : Bool) (amt : Nat) : PtrTree → Option PtrTree
  | .leaf .rem a =>
    if src < a then some (.leaf .rem (wrapOff neg amt a))
    else if src = a then some (.leaf .rem a)
    else none
  | .leaf k a => some (.leaf k (if src < a then wrapOff neg amt a else a))
  | .ulist cw a len lo hi inner pmb =>
    if src < a then
      match notifyO usz src neg amt inner with
      | none => none
      | some inner' =>
        some (.ulist cw (wrapOff neg amt a) len (wrapOff neg amt lo) (wrapOff neg amt hi) inner' pmb)
    else if src = a then some (.ulist cw a len lo (wrapOff neg amt hi) inner pmb)
    else if src < a + (8 + len * cw + 4 + usz a) then
      match inner with
      | none => none
      | some t =>
        match resizeNotify usz src neg amt t with
        | none => none
        | some t' => some (.ulist cw a len lo (wrapOff neg amt hi) (some t') pmb)
    else some (.ulist cw a len lo hi inner pmb)
  | .node ks =>
    match notifyL usz src neg amt ks with
    | none => none
    | some ks' => some (.node ks')
  | .start a idx p =>
    match notifyO usz src neg amt p with
    | none => none
    | some p' => some (.start (if src < a then wrapOff neg amt a else a) idx p')
def notifyO (usz : Nat → Nat) (src : Nat) (neg : Bool) (amt : Nat) : Option PtrTree → Option (Option PtrTree)
  | none => some none
  | some t =>
    match resizeNotify usz src neg amt t with
    | none => none
    | some t' => some (some t')
def notifyL (usz : Nat → Nat) (src : Nat) (neg : Bool) (amt : Nat) : List PtrTree → Option (List PtrTree)
  | [] => some []
  | t :: ts =>
    match resizeNotify usz src neg amt t with
    | none => none
    | some t' =>
      match notifyL usz src neg amt ts with
      | none => none
      | some ts' => some (t' :: ts')
end

/-! ## `check_pointers` -/

mutual
/-- `ptr.check_pointers(&range, &mut cursor)`: the verdict and the new cursor.

* leaf (`checked.rs` 54–59, `list.rs` 339–344): `is_advanced = addr >= *cursor; *cursor = addr;
  is_advanced && range.contains(&addr)`; `RemainingBytesPtr` uses `range.start..=range.end`.
* `UnsizedListPtr` (`unsized_list.rs` 511–521): same on `list_ptr`, `&&` the inner pointer checked with a
  FRESH cursor `range.start` (the caller's `range`, not the list's own).
* struct: `c1.check(..) && c2.check(..) && … && true` (short-circuit: after a failure the remaining
  children are not visited and the cursor stays).
* `StartPointer` (`wrapper.rs` 649–654): `is_advanced && range.contains(&start) && data.check(..)`; the
  enum value itself dispatches to the current variant, `true` for a unit variant. -/
def checkPointers (r : Rng) : PtrTree → Nat → Bool × Nat
  | .leaf k a, cur =>
    (decide (cur ≤ a) && (if k = .rem then r.containsIncl a else r.contains a), a)
  | .ulist _ a _ _ _ inner _, cur =>
    (decide (cur ≤ a) && r.contains a && checkO r inner, a)
  | .node ks, cur => checkL r ks cur
  | .start a _ p, cur =>
    if decide (cur ≤ a) && r.contains a then
      match p with
      | none => (true, a)
      | some t => checkPointers r t a
    else (false, a)
/-- `if let Some(inner) = &self.inner_exclusive { inner.check_pointers(range, &mut { range.start }) } else { true }` -/
def checkO (r : Rng) : Option PtrTree → Bool
  | none => true
  | some t => (checkPointers r t r.lo).1
def checkL (r : Rng) : List PtrTree → Nat → Bool × Nat
  | [], cur => (true, cur)
  | t :: ts, cur =>
    match checkPointers r t cur with
    | (true, c) => checkL r ts c
    | (false, c) => (false, c)
end

/-- The check of `ExclusiveTopDrop::drop` / the `debug_assert!`s of `add_bytes` / `remove_bytes`:
`top_mut.check_pointers(&range, &mut range.start)`. `false` = panic. -/
def checkTop (r : Rng) (t : PtrTree) : Bool := (checkPointers r t r.lo).1

/-- `UnsizedListPtr::check_inner_initialized` (`unsized_list.rs` 387–398): `false` = panic
("Inner pointer invariant violated on UnsizedList. Was I `mem::swapped`?"). Uses the list's OWN range. -/
def checkInnerInitialized : PtrTree → Bool
  | .ulist _ _ _ lo hi inner pmb =>
    if pmb then
      match inner with
      | none => true
      | some t => (checkPointers ⟨lo, hi⟩ t lo).1
    else true
  | _ => true

/-! ## Addresses, paths inside a pointer tree, replacing a subtree -/

mutual
/-- Every address `check_pointers` looks at (own pointer and, for lists, the cached inner pointer). -/
def addrs : PtrTree → List Nat
  | .leaf _ a => [a]
  | .ulist _ a _ _ _ inner _ => a :: addrsO inner
  | .node ks => addrsL ks
  | .start a _ p => a :: addrsO p
def addrsO : Option PtrTree → List Nat
  | none => []
  | some t => addrs t
def addrsL : List PtrTree → List Nat
  | [] => []
  | t :: ts => addrs t ++ addrsL ts
end

/-- One step inside a pointer object. -/
inductive TStep where
  /-- child `i` of a struct pointer -/
  | kid (i : Nat)
  /-- the `inner_exclusive` box of an `UnsizedListPtr` -/
  | inner
  /-- the payload pointer of the current enum variant -/
  | payload
  deriving DecidableEq, Repr, Inhabited

/-- The sub-pointer at a tree path. -/
def subtreeAt : PtrTree → List TStep → Option PtrTree
  | t, [] => some t
  | .node ks, .kid i :: p =>
    match ks[i]? with
    | some k => subtreeAt k p
    | none => none
  | .ulist _ _ _ _ _ (some t) _, .inner :: p => subtreeAt t p
  | .start _ _ (some t), .payload :: p => subtreeAt t p
  | _, _ => none

/-- `mem::swap`/overwrite of the sub-pointer at a tree path: the tree with that sub-pointer replaced
by `q` (`none` if the path does not exist). -/
def replaceAt : PtrTree → List TStep → PtrTree → Option PtrTree
  | _, [], q => some q
  | .node ks, .kid i :: p, q =>
    match ks[i]? with
    | some k =>
      match replaceAt k p q with
      | some k' => some (.node (ks.set i k'))
      | none => none
    | none => none
  | .ulist cw a len lo hi (some t) pmb, .inner :: p, q =>
    match replaceAt t p q with
    | some t' => some (.ulist cw a len lo hi (some t') pmb)
    | none => none
  | .start a idx (some t), .payload :: p, q =>
    match replaceAt t p q with
    | some t' => some (.start a idx (some t'))
    | none => none
  | _, _, _ => none

end Unsized.PtrT
