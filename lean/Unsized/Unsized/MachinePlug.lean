import Unsized.MachineUlistNotify
import Unsized.Spec
/-!
# One accessor step on the serialized value: `resolve1`, `stepPre`, `stepPost`, `subst1`

`encode s v = stepPre s v st n ++ encode t u ++ stepPost s v st` where `(t, u)` is the child reached by the
step `st` and `n` its size; only the header of an `UnsizedList`/`UnsizedMap` depends on `n`.
-/
namespace Unsized.Machine
open Common Unsized Unsized.Text

/-- Some `okAux` flags accept the shape. -/
def OkS (s : Shape) : Prop := ∃ top inEnum, Shape.okAux top inEnum s = true

structure Good (s : Shape) (v : Val) : Prop where
  ok : OkS s
  valid : valid s v = true
  fits : fits s v = true

/-- One accessor step on the owned value (`unsized_ops.md` §2). -/
def resolve1 (s : Shape) (v : Val) (st : Step) : Except Err (Shape × Val) :=
  match s, v, st with
  | .struct _ fs, .record _ vs, .field i =>
    match fs[i]?, vs[i]? with
    | some f, some x => .ok (f, x)
    | _, _ => .error .bad
  | .ulist e, .useq vs, .elem i =>
    match vs[i]? with
    | some x => .ok (e, x)
    | none => .error .ioob
  | .umap _ e, .umap es, .elem i =>
    match es[i]? with
    | some kx => .ok (e, kx.2)
    | none => .error .bad
  | .enum _ ps, .variant idx pl, .payload =>
    match ps[idx]? with
    | none => .error .bad
    | some .unit => .error .bad
    | some t => .ok (t, pl)
  | _, _, _ => .error .bad

/-- The bytes of `encode s v` before the child, with the child's size taken to be `n`
(only an `UnsizedList`/`UnsizedMap` header depends on it). -/
def stepPre (s : Shape) (v : Val) (st : Step) (n : Nat) : List Nat :=
  match s, v, st with
  | .struct _ fs, .record sz vs, .field i => sz ++ encodeFields (fs.take i) (vs.take i)
  | .ulist e, .useq vs, .elem i =>
    uHdrOf (vs.map fun _ => []) (((vs.map (encode e)).map List.length).set i n)
      ++ ((vs.take i).map (encode e)).flatten
  | .umap _ e, .umap es, .elem i =>
    uHdrOf (es.map (·.1)) (((es.map fun kv => encode e kv.2).map List.length).set i n)
      ++ ((es.take i).map fun kv => encode e kv.2).flatten
  | .enum ds _, .variant idx _, .payload => [ds[idx]?.getD 0]
  | _, _, _ => []

/-- The bytes of `encode s v` after the child. -/
def stepPost (s : Shape) (v : Val) (st : Step) : List Nat :=
  match s, v, st with
  | .struct _ fs, .record _ vs, .field i => encodeFields (fs.drop (i + 1)) (vs.drop (i + 1))
  | .ulist e, .useq vs, .elem i => ((vs.drop (i + 1)).map (encode e)).flatten
  | .umap _ e, .umap es, .elem i => ((es.drop (i + 1)).map fun kv => encode e kv.2).flatten
  | _, _, _ => []

/-- Replace the child. -/
def subst1 (v : Val) (st : Step) (u' : Val) : Val :=
  match v, st with
  | .record sz vs, .field i => .record sz (vs.set i u')
  | .useq vs, .elem i => .useq (vs.set i u')
  | .umap es, .elem i => .umap (match es[i]? with | some kx => es.set i (kx.1, u') | none => es)
  | .variant idx _, .payload => .variant idx u'
  | v, _ => v

/-! ### struct fields -/

theorem encodeFields_split (fs : List Shape) (vs : List Val) (i : Nat) (f : Shape) (x : Val)
    (hf : fs[i]? = some f) (hx : vs[i]? = some x) :
    encodeFields fs vs = encodeFields (fs.take i) (vs.take i) ++ encode f x
      ++ encodeFields (fs.drop (i + 1)) (vs.drop (i + 1)) := by
  induction i generalizing fs vs with
  | zero =>
    cases fs with
    | nil => simp at hf
    | cons f' fs =>
      cases vs with
      | nil => simp at hx
      | cons x' vs => simp at hf hx; subst hf hx; simp [encodeFields]
  | succ i ih =>
    cases fs with
    | nil => simp at hf
    | cons f' fs =>
      cases vs with
      | nil => simp at hx
      | cons x' vs =>
        simp at hf hx
        simp [encodeFields, ih fs vs hf hx, List.append_assoc]


theorem okFields_cons2 (f g : Shape) (fs : List Shape) (h : Shape.okFields (f :: g :: fs) = true) :
    Shape.okAux false false f = true ∧ f.zst = false ∧ Shape.okFields (g :: fs) = true := by
  simp [Shape.okFields] at h
  exact ⟨h.1.1, h.1.2, h.2⟩

theorem okFields_get (fs : List Shape) (i : Nat) (f : Shape) (hf : fs[i]? = some f)
    (h : Shape.okFields fs = true) : Shape.okAux false false f = true := by
  induction fs generalizing i with
  | nil => simp at hf
  | cons f' fs ih =>
    cases fs with
    | nil =>
      cases i with
      | zero => simp at hf; subst hf; simpa [Shape.okFields] using h
      | succ i => simp at hf
    | cons g gs =>
      obtain ⟨h1, _, h3⟩ := okFields_cons2 f' g gs h
      cases i with
      | zero => simp at hf; subst hf; exact h1
      | succ i => exact ih i (by simpa using hf) h3

theorem fieldBase_enc (fs : List Shape) (vs : List Val) (i : Nat) (f : Shape) (x : Val)
    (hf : fs[i]? = some f) (hx : vs[i]? = some x) (hok : Shape.okFields fs = true)
    (hv : validFields fs vs = true) (hfit : fitsFields fs vs = true) (P R : List Nat) (base : Nat)
    (hb : base = P.length) :
    fieldBase fs i base (P ++ encodeFields (fs.take i) (vs.take i) ++ R)
      = .ok (f, base + (encodeFields (fs.take i) (vs.take i)).length) := by
  induction i generalizing fs vs P base with
  | zero =>
    cases fs with
    | nil => simp at hf
    | cons f' fs => simp at hf; subst hf; simp [fieldBase, encodeFields]
  | succ i ih =>
    cases fs with
    | nil => simp at hf
    | cons f' fs =>
      cases vs with
      | nil => simp at hx
      | cons x' vs =>
        simp only [List.getElem?_cons_succ] at hf hx
        cases fs with
        | nil => simp at hf
        | cons g gs =>
          obtain ⟨h1, h2, h3⟩ := okFields_cons2 f' g gs hok
          simp only [validFields, fitsFields, Bool.and_eq_true] at hv hfit
          simp only [List.take_succ_cons, encodeFields, fieldBase]
          have hdrop : (P ++ (encode f' x' ++ encodeFields ((g :: gs).take i) (vs.take i)) ++ R).drop base
              = encode f' x' ++ (encodeFields ((g :: gs).take i) (vs.take i) ++ R) := by
            rw [List.append_assoc, drop_append_len P _ base hb]; simp [List.append_assoc]
          rw [hdrop, (roundTrip_all f' false false h1 x' _ hv.1 hfit.1 (Or.inr h2)).1]
          simp only []
          have e : P ++ (encode f' x' ++ encodeFields ((g :: gs).take i) (vs.take i)) ++ R
              = (P ++ encode f' x') ++ encodeFields ((g :: gs).take i) (vs.take i) ++ R := by
            simp [List.append_assoc]
          rw [e, ih (g :: gs) vs hf hx h3 hv.2 hfit.2 (P ++ encode f' x') (base + size f' x')
            (by simp [hb, encode_size_all f' x' hv.1])]
          simp [encode_size_all f' x' hv.1]; omega


/-! ### reading an `UnsizedList` header -/

theorem uHdrOf_length (kw : Nat) (keys : List (List Nat)) (sizes : List Nat) (hl : keys.length = sizes.length)
    (hk : ∀ k ∈ keys, k.length = kw) : (uHdrOf keys sizes).length = 12 + sizes.length * (4 + kw) := by
  simp only [uHdrOf, List.length_append, leN_length]
  rw [tbl_length kw _ keys (by simp; omega) hk]; simp; omega

theorem rd32_uHdr_usz (keys : List (List Nat)) (sizes : List Nat) (pre R : List Nat) (base : Nat)
    (hb : base = pre.length) (hs : sizes.sum < Shape.u32Lim) :
    rd32 (pre ++ uHdrOf keys sizes ++ R) base = sizes.sum := by
  have e : pre ++ uHdrOf keys sizes ++ R = pre ++ leN 4 sizes.sum
      ++ (leN 4 sizes.length ++ tbl (offsets sizes 0) keys ++ leN 4 sizes.length ++ R) := by
    simp [uHdrOf, List.append_assoc]
  rw [e]; exact rd32_at pre _ base _ hb hs

theorem rd32_uHdr_len (keys : List (List Nat)) (sizes : List Nat) (pre R : List Nat) (base : Nat)
    (hb : base = pre.length) (hs : sizes.length < Shape.u32Lim) :
    rd32 (pre ++ uHdrOf keys sizes ++ R) (base + 4) = sizes.length := by
  have e : pre ++ uHdrOf keys sizes ++ R = (pre ++ leN 4 sizes.sum) ++ leN 4 sizes.length
      ++ (tbl (offsets sizes 0) keys ++ leN 4 sizes.length ++ R) := by
    simp [uHdrOf, List.append_assoc]
  rw [e]; exact rd32_at _ _ _ _ (by simp [hb]) hs

theorem rd32_uHdr_off (kw : Nat) (keys : List (List Nat)) (sizes : List Nat) (pre R : List Nat) (base j : Nat)
    (hb : base = pre.length) (hl : keys.length = sizes.length) (hk : ∀ k ∈ keys, k.length = kw)
    (hs : sizes.sum < Shape.u32Lim) (hj : j < sizes.length) :
    rd32 (pre ++ uHdrOf keys sizes ++ R) (base + 8 + j * (4 + kw)) = (sizes.take j).sum := by
  have e : pre ++ uHdrOf keys sizes ++ R = (pre ++ leN 4 sizes.sum ++ leN 4 sizes.length)
      ++ tbl (offsets sizes 0) keys ++ (leN 4 sizes.length ++ R) := by
    simp [uHdrOf, List.append_assoc]
  rw [e, rd32_tbl kw (offsets sizes 0) keys _ _ (base + 8) j (by simp [hb]) (by simp; omega) hk
    (fun o ho => by have := offsets_le sizes 0 o ho; omega) (by simpa using hj)]
  have := offsets_eq_take sizes 0 j hj
  have h2 : (offsets sizes 0)[j]? = some ((offsets sizes 0)[j]'(by simpa using hj)) := by simp [hj]
  rw [h2] at this; simpa using this

theorem flatten_split {α : Type} (l : List (List α)) (i : Nat) (hi : i < l.length) :
    l.flatten = (l.take i).flatten ++ l[i] ++ (l.drop (i + 1)).flatten := by
  have : l = l.take i ++ l[i] :: l.drop (i + 1) := by
    rw [← List.drop_eq_getElem_cons hi, List.take_append_drop]
  have h2 := congrArg List.flatten this
  rw [List.flatten_append, List.flatten_cons] at h2
  rw [List.append_assoc]; exact h2

theorem flatten_set_split {α : Type} (l : List (List α)) (i : Nat) (y : List α) (hi : i < l.length) :
    (l.set i y).flatten = (l.take i).flatten ++ y ++ (l.drop (i + 1)).flatten := by
  rw [flatten_split (l.set i y) i (by simpa using hi)]
  simp [List.take_set_of_le, List.drop_set_of_lt]

theorem sum_map_length_take (l : List (List Nat)) (i : Nat) :
    ((l.map List.length).take i).sum = (l.take i).flatten.length := by
  rw [← List.map_take, sum_map_length_flatten]

/-- The serialized list, split at element `i`. -/
theorem uBytes_split (keys : List (List Nat)) (datas : List (List Nat)) (i : Nat) (hi : i < datas.length) :
    uBytes keys datas = uHdrOf keys ((datas.map List.length).set i (datas[i]).length)
      ++ (datas.take i).flatten ++ datas[i] ++ (datas.drop (i + 1)).flatten := by
  have : (datas.map List.length).set i (datas[i]).length = datas.map List.length := by
    apply List.ext_getElem (by simp)
    intro j h1 h2
    by_cases hji : i = j
    · subst hji; simp
    · simp [List.getElem_set_ne hji]
  rw [this, uBytes, flatten_split datas i hi]; simp [List.append_assoc]

theorem uBytes_set (keys : List (List Nat)) (datas : List (List Nat)) (i : Nat) (Y : List Nat) (hi : i < datas.length) :
    uBytes keys (datas.set i Y) = uHdrOf keys ((datas.map List.length).set i Y.length)
      ++ (datas.take i).flatten ++ Y ++ (datas.drop (i + 1)).flatten := by
  rw [uBytes, List.map_set, flatten_set_split datas i Y hi]; simp [List.append_assoc]

end Unsized.Machine
