import Unsized.MachineSeq
/-!
# Node-level refinement: `Set` (binary search + the `List` ops; `insert_all` = loop of inserts)
-/
namespace Unsized.Machine
open Common Unsized Unsized.Text

theorem set_enc (e : Fixed) (lw : Nat) (es : List (List Nat)) :
    encode (.set e lw) (.seq es) = leN lw es.length ++ es.flatten := rfl

theorem good_set {e : Fixed} {lw : Nat} {es : List (List Nat)} (g : Good (.set e lw) (.seq es)) :
    (∀ x ∈ es, validE e x = true) ∧ es.length < 256 ^ lw ∧ e.size * es.length < Shape.usizeLim
      ∧ strictKeys (es.map (keyOf e.size)) = true := by
  obtain ⟨_, hv, hf⟩ := g
  simp only [valid, Bool.and_eq_true, List.all_eq_true] at hv
  simp only [fits, Bool.and_eq_true, decide_eq_true_eq] at hf
  exact ⟨fun x hx => by have := hv.1 x hx; simpa [validE] using this, hf.1, hf.2, hv.2⟩

theorem good_set_of {e : Fixed} {lw : Nat} {es : List (List Nat)} (hok : OkS (.set e lw))
    (hv : ∀ x ∈ es, validE e x = true) (hl : es.length < 256 ^ lw)
    (hu : e.size * es.length < Shape.usizeLim) (hs : strictKeys (es.map (keyOf e.size)) = true) :
    Good (.set e lw) (.seq es) := by
  refine ⟨hok, ?_, ?_⟩
  · simp only [valid, Bool.and_eq_true, List.all_eq_true]
    exact ⟨fun x hx => by have := hv x hx; simpa [validE] using this, hs⟩
  · simp [fits, hl, hu]

theorem keyOf_full (kw : Nat) (x : List Nat) (h : x.length = kw) : keyOf kw x = rdLE x := by
  simp [keyOf, ← h]

theorem strictKeys_sublist {l l' : List Nat} (h : l'.Sublist l) (hs : strictKeys l = true) :
    strictKeys l' = true := by
  rw [strictKeys, decide_eq_true_eq] at hs ⊢
  exact hs.sublist h

/-- `Set::insert` of one element, machine vs owned model. -/
theorem set_insert_step {s v p m} {e : Fixed} {lw : Nat} {es : List (List Nat)}
    (F : Focus s v p (.set e lw) (.seq es) m) (c : Calm m) (x : List Nat) (hx : validE e x = true) :
    (Spec.hasKey e.size (rdLE x) es = true →
        setInsert ⟨s, p⟩ e.size lw (offsetOf s v p) x m = (m, .ok false))
    ∧ (Spec.hasKey e.size (rdLE x) es = false → 256 ^ lw ≤ es.length + 1 →
        setInsert ⟨s, p⟩ e.size lw (offsetOf s v p) x m = (m, .error .toPrim))
    ∧ (Spec.hasKey e.size (rdLE x) es = false → ¬ 256 ^ lw ≤ es.length + 1 →
        (plug s v p (encode (.set e lw) (.seq (insKey e.size x es)))).length ≤ m.orig + maxIncrease →
        ∃ m', setInsert ⟨s, p⟩ e.size lw (offsetOf s v p) x m = (m', .ok true)
          ∧ Focus s (subst s v p (.seq (insKey e.size x es))) p (.set e lw) (.seq (insKey e.size x es)) m'
          ∧ m'.orig = m.orig ∧ m'.refuse = m.refuse) := by
  obtain ⟨hval, hlen, hus, hsorted⟩ := good_set F.sub
  have hes : ∀ y ∈ es, y.length = e.size := fun y hy => validE_len (hval y hy)
  have hkeys := listKeys_enc F e.size lw e.size (set_enc e lw es) hes hlen
  have hkx : keyOf e.size x = rdLE x := keyOf_full _ _ (validE_len hx)
  unfold setInsert
  rw [hkeys]
  rcases search_sorted (keyOf e.size) es (rdLE x) 0 hsorted with ⟨j, hj, hse, hk, hb, ha⟩ | ⟨j, hj, hse, hb, ha⟩
  · -- present
    have hhas : Spec.hasKey e.size (rdLE x) es = true := by
      simp only [Spec.hasKey, List.any_eq_true, beq_iff_eq]
      exact ⟨es[j], List.getElem_mem _, hk⟩
    rw [hse]
    refine ⟨fun _ => rfl, fun h => ?_, fun h => ?_⟩
    · rw [hhas] at h; cases h
    · rw [hhas] at h; cases h
  · have hhas : Spec.hasKey e.size (rdLE x) es = false := any_false_of_split (keyOf e.size) es (rdLE x) j hb ha
    have hins : insKey e.size x es = Spec.insertAt es j [x] :=
      insKey_new e.size x es j (by rw [hkx]; exact hb) (by rw [hkx]; exact ha)
    rw [hse]
    simp only [Nat.zero_add]
    refine ⟨fun h => (by rw [hhas] at h; cases h), fun _ hov => ?_, fun _ hov hroom => ?_⟩
    · unfold listInsertAll
      have hrd : rdN m.bytes (offsetOf s v p) lw = es.length := by
        have := enc_rdN p s v _ _ F.good F.res 0 lw (by simp [set_enc])
        rw [Nat.add_zero] at this
        rw [F.bytes, this, set_enc, rdN_leN_zero lw _ _ hlen]
      have h1 : ¬ es.length < j := by omega
      simp only [hrd, h1, List.length_singleton, hov, if_true, if_false]
    · rw [hins] at hroom ⊢
      have hil : (Spec.insertAt es j [x]).length = es.length + 1 := by simp [Spec.insertAt]; omega
      have g' : Good (.set e lw) (.seq (Spec.insertAt es j [x])) := by
        apply good_set_of F.sub.ok
        · intro y hy
          simp only [Spec.insertAt, List.mem_append, List.mem_singleton] at hy
          rcases hy with (hy | hy) | hy
          · exact hval y (List.mem_of_mem_take hy)
          · subst hy; exact hx
          · exact hval y (List.mem_of_mem_drop hy)
        · omega
        · have hpl := plug_length p s v _ _ F.good F.res (encode (.set e lw) (.seq (Spec.insertAt es j [x])))
          have hle := offsetOf_le p s v _ _ F.good F.res
          have hsm := F.small c _ hroom
          have hwid : ∀ y ∈ Spec.insertAt es j [x], y.length = e.size := by
            intro y hy
            simp only [Spec.insertAt, List.mem_append, List.mem_singleton] at hy
            rcases hy with (hy | hy) | hy
            · exact hes y (List.mem_of_mem_take hy)
            · subst hy; exact validE_len hx
            · exact hes y (List.mem_of_mem_drop hy)
          have : e.size * (Spec.insertAt es j [x]).length ≤ (encode (.set e lw) (.seq (Spec.insertAt es j [x]))).length := by
            simp only [set_enc, List.length_append, leN_length]
            rw [flatten_width e.size _ hwid, Nat.mul_comm]; omega
          have := u32_lt_usize
          omega
        · rw [← hins]
          have hp := insKey_pairwise e.size x es (by rw [strictKeys, decide_eq_true_eq] at hsorted; exact hsorted)
          rw [strictKeys, decide_eq_true_eq]; exact hp
      obtain ⟨m', hm', F', ho, hr⟩ := seq_insertAll F c e.size lw (set_enc e lw) hes hlen j [x]
        (by intro y hy; simp at hy; subst hy; exact validE_len hx) hj (by simp; omega) g' hroom
      exact ⟨m', by rw [hm'], F', ho, hr⟩


/-- `Set::remove` of one element, machine vs owned model. -/
theorem set_remove_step {s v p m} {e : Fixed} {lw : Nat} {es : List (List Nat)}
    (F : Focus s v p (.set e lw) (.seq es) m) (c : Calm m) (x : List Nat) (_hx : validE e x = true) :
    (Spec.hasKey e.size (rdLE x) es = false →
        setRemove ⟨s, p⟩ e.size lw (offsetOf s v p) x m = (m, .ok (.flag false)))
    ∧ (Spec.hasKey e.size (rdLE x) es = true →
        ∃ m', setRemove ⟨s, p⟩ e.size lw (offsetOf s v p) x m = (m', .ok (.flag true))
          ∧ Focus s (subst s v p (.seq (Spec.delKey e.size (rdLE x) es))) p (.set e lw)
              (.seq (Spec.delKey e.size (rdLE x) es)) m'
          ∧ m'.orig = m.orig ∧ m'.refuse = m.refuse) := by
  obtain ⟨hval, hlen, hus, hsorted⟩ := good_set F.sub
  have hes : ∀ y ∈ es, y.length = e.size := fun y hy => validE_len (hval y hy)
  have hkeys := listKeys_enc F e.size lw e.size (set_enc e lw es) hes hlen
  unfold setRemove
  rw [hkeys]
  rcases search_sorted (keyOf e.size) es (rdLE x) 0 hsorted with ⟨j, hj, hse, hk, hb, ha⟩ | ⟨j, hj, hse, hb, ha⟩
  · have hhas : Spec.hasKey e.size (rdLE x) es = true := by
      simp only [Spec.hasKey, List.any_eq_true, beq_iff_eq]
      exact ⟨es[j], List.getElem_mem _, hk⟩
    have hdel : Spec.delKey e.size (rdLE x) es = Spec.removeRange es j (j + 1) := by
      simp only [Spec.delKey, Spec.removeRange]
      exact filter_ne_of_split (keyOf e.size) es (rdLE x) j hj hk hb ha
    rw [hse]
    simp only [Nat.zero_add]
    refine ⟨fun h => (by rw [hhas] at h; cases h), fun _ => ?_⟩
    rw [hdel]
    have hsub : (Spec.removeRange es j (j + 1)).Sublist es := by
      rw [← hdel]; exact List.filter_sublist
    have g' : Good (.set e lw) (.seq (Spec.removeRange es j (j + 1))) := by
      apply good_set_of F.sub.ok
      · intro y hy; exact hval y (hsub.subset hy)
      · have := hsub.length_le; omega
      · have := Nat.mul_le_mul_left e.size hsub.length_le; omega
      · exact strictKeys_sublist (hsub.map _) hsorted
    obtain ⟨m', hm', F', ho, hr⟩ := seq_removeRange F c e.size lw (set_enc e lw) hes hlen j (j + 1) (by omega) (by omega) g'
    exact ⟨m', by rw [hm'], F', ho, hr⟩
  · have hhas : Spec.hasKey e.size (rdLE x) es = false := any_false_of_split (keyOf e.size) es (rdLE x) j hb ha
    rw [hse]
    exact ⟨fun _ => rfl, fun h => (by rw [hhas] at h; cases h)⟩


/-- After a step the node is found at the same offset and plugging is unchanged. -/
theorem Focus.next_facts {s v p t u m} (F : Focus s v p t u m) (u' : Val) (m' : Mem)
    (F' : Focus s (subst s v p u') p t u' m') (hs : m'.bytes.length < Shape.u32Lim) :
    offsetOf s (subst s v p u') p = offsetOf s v p ∧ (∀ X, plug s (subst s v p u') p X = plug s v p X)
      ∧ (∀ w, subst s (subst s v p u') p w = subst s v p w) := by
  have hb : (plug s v p (encode t u')).length < Shape.u32Lim := by
    rw [← subst_encode p s v t u u' F.good F.res, ← F'.bytes]; exact hs
  obtain ⟨_, _, _, ho, hp⟩ := subst_good p s v t u u' F.good F.res F'.sub hb
  exact ⟨ho, hp, fun w => subst_subst p s v t u u' w F.good F.res⟩

theorem setInsertAll_len_mono (ew lw : Nat) (xs : List (List Nat)) : ∀ (es : List (List Nat)) (n : Nat)
    (es' : List (List Nat)) (n' : Nat), Spec.setInsertAll ew lw xs es n = .ok (es', n') → es.length ≤ es'.length := by
  induction xs with
  | nil => intro es n es' n' h; simp [Spec.setInsertAll] at h; rw [← h.1]; omega
  | cons x xs ih =>
    intro es n es' n' h
    simp only [Spec.setInsertAll] at h
    split at h
    · exact ih es n es' n' h
    · split at h
      · cases h
      · have := ih _ _ es' n' h
        have hl : es.length ≤ (insKey ew x es).length := by
          have : ∀ l : List (List Nat), l.length ≤ (insKey ew x l).length := by
            intro l
            induction l with
            | nil => simp [insKey]
            | cons y r ihr =>
              simp only [insKey]
              split
              · simp
              · split
                · simp
                · simp only [List.length_cons]; omega
          exact this es
        omega

theorem setInsertAll_mem (ew lw : Nat) (xs : List (List Nat)) : ∀ (es : List (List Nat)) (n : Nat)
    (es' : List (List Nat)) (n' : Nat), Spec.setInsertAll ew lw xs es n = .ok (es', n') →
    ∀ y ∈ es', y ∈ es ∨ y ∈ xs := by
  induction xs with
  | nil => intro es n es' n' h; simp [Spec.setInsertAll] at h; rw [← h.1]; intro y hy; exact Or.inl hy
  | cons x xs ih =>
    intro es n es' n' h y hy
    simp only [Spec.setInsertAll] at h
    split at h
    · rcases ih es n es' n' h y hy with h' | h'
      · exact Or.inl h'
      · exact Or.inr (List.mem_cons_of_mem _ h')
    · split at h
      · cases h
      · rcases ih _ _ es' n' h y hy with h' | h'
        · rcases insKey_mem ew x es y h' with h'' | h''
          · subst h''; exact Or.inr List.mem_cons_self
          · exact Or.inl h''
        · exact Or.inr (List.mem_cons_of_mem _ h')

/-- `Set::insert_all`: the loop of single inserts follows the owned model; when the model succeeds the
machine does, with the same count. -/
theorem set_insertAll_loop {s p} {e : Fixed} {lw : Nat} (xs : List (List Nat)) :
    ∀ (v : Val) (m : Mem) (es : List (List Nat)) (n : Nat), Focus s v p (.set e lw) (.seq es) m → Calm m →
      (∀ x ∈ xs, validE e x = true) →
      ∀ (es' : List (List Nat)) (n' : Nat), Spec.setInsertAll e.size lw xs es n = .ok (es', n') →
      (plug s v p (encode (.set e lw) (.seq es'))).length ≤ m.orig + maxIncrease →
      ∃ m', setInsertAll ⟨s, p⟩ e.size lw (offsetOf s v p) xs n m = (m', .ok (.count n'))
        ∧ Focus s (subst s v p (.seq es')) p (.set e lw) (.seq es') m'
        ∧ m'.orig = m.orig ∧ m'.refuse = m.refuse := by
  induction xs with
  | nil =>
    intro v m es n F c _ es' n' h hroom
    simp [Spec.setInsertAll] at h
    obtain ⟨rfl, rfl⟩ := h
    exact ⟨m, rfl, F.same, rfl, rfl⟩
  | cons x xs ih =>
    intro v m es n F c hxs es' n' h hroom
    have hx := hxs x List.mem_cons_self
    have hxs' : ∀ y ∈ xs, validE e y = true := fun y hy => hxs y (List.mem_cons_of_mem _ hy)
    obtain ⟨h1, h2, h3⟩ := set_insert_step F c x hx
    simp only [Spec.setInsertAll] at h
    simp only [setInsertAll]
    by_cases hhas : Spec.hasKey e.size (rdLE x) es = true
    · simp only [hhas, if_true] at h
      rw [h1 hhas]
      simp only [Bool.false_eq_true, if_false]
      exact ih v m es n F c hxs' es' n' h hroom
    · have hhas' : Spec.hasKey e.size (rdLE x) es = false := by simpa using hhas
      simp only [hhas', Bool.false_eq_true, if_false] at h
      by_cases hov : 256 ^ lw ≤ es.length + 1
      · simp only [hov, if_true] at h; cases h
      · simp only [hov, if_false] at h
        -- room for the intermediate value
        have hmono := setInsertAll_len_mono e.size lw xs _ _ es' n' h
        have hpl1 := plug_length p s v _ _ F.good F.res (encode (.set e lw) (.seq (insKey e.size x es)))
        have hpl2 := plug_length p s v _ _ F.good F.res (encode (.set e lw) (.seq es'))
        obtain ⟨hval, _, _, _⟩ := good_set F.sub
        have hw1 : ∀ y ∈ insKey e.size x es, y.length = e.size := by
          intro y hy
          rcases (insKey_mem e.size x es) y hy with h | h
          · subst h; exact validE_len hx
          · exact validE_len (hval y h)
        have hw2 : ∀ y ∈ es', y.length = e.size := by
          intro y hy
          rcases setInsertAll_mem e.size lw xs _ _ es' n' h y hy with h' | h'
          · exact hw1 y h'
          · exact validE_len (hxs' y h')
        have hroom1 : (plug s v p (encode (.set e lw) (.seq (insKey e.size x es)))).length ≤ m.orig + maxIncrease := by
          simp only [set_enc, List.length_append, leN_length] at hpl1 hpl2 hroom ⊢
          rw [flatten_width e.size _ hw1] at hpl1
          rw [flatten_width e.size _ hw2] at hpl2
          have := Nat.mul_le_mul_right e.size hmono
          omega
        obtain ⟨m1, hm1, F1, ho1, hr1⟩ := h3 hhas' hov hroom1
        rw [hm1]
        simp only [if_true]
        have c1 : Calm m1 := c.next ho1 hr1 (by
          rw [F1.bytes, subst_encode p s v _ _ _ F.good F.res]; exact hroom1)
        obtain ⟨hoff, hplug, hss⟩ := F.next_facts _ m1 F1 (by have := c1.fitsNow; have := c1.small; omega)
        have := ih _ m1 _ (n + 1) F1 c1 hxs' es' n' h (by rw [hplug, ho1]; exact hroom)
        rw [hoff, hss] at this
        obtain ⟨m', hm', F', ho', hr'⟩ := this
        exact ⟨m', hm', F', by rw [ho', ho1], by rw [hr', hr1]⟩


/-- Every op on a `Set` node. -/
theorem set_refines {s v p m} {e : Fixed} {lw : Nat} {es : List (List Nat)}
    (F : Focus s v p (.set e lw) (.seq es) m) (c : Calm m) (op : Op) :
    Refines s v p (.set e lw) (.seq es) m op := by
  cases op with
  | touch => exact touch_refines F
  | replace nv => exact replace_refines F c nv
  | reset => exact reset_refines F c
  | sinsert x =>
    unfold Refines
    simp only [Spec.applyNode, applyAt]
    by_cases hx : validE e x = true
    · simp only [hx, if_true]
      obtain ⟨h1, h2, h3⟩ := set_insert_step F c x hx
      by_cases hhas : Spec.hasKey e.size (rdLE x) es = true
      · simp only [hhas, if_true]
        intro _
        exact ⟨m, by rw [h1 hhas], F.same, rfl, rfl⟩
      · have hhas' : Spec.hasKey e.size (rdLE x) es = false := by simpa using hhas
        simp only [hhas', Bool.false_eq_true, if_false]
        by_cases hov : 256 ^ lw ≤ es.length + 1
        · simp only [hov, if_true]; rw [h2 hhas' hov]; exact Or.inr rfl
        · simp only [hov, if_false]
          intro hroom
          obtain ⟨m', hm', F', ho, hr⟩ := h3 hhas' hov hroom
          exact ⟨m', by rw [hm'], F', ho, hr⟩
    · simp [hx]
  | sremove x =>
    unfold Refines
    simp only [Spec.applyNode, applyAt]
    by_cases hx : validE e x = true
    · simp only [hx, if_true]
      obtain ⟨h1, h2⟩ := set_remove_step F c x hx
      by_cases hhas : Spec.hasKey e.size (rdLE x) es = true
      · simp only [hhas, if_true]
        intro _
        obtain ⟨m', hm', F', ho, hr⟩ := h2 hhas
        exact ⟨m', hm', F', ho, hr⟩
      · have hhas' : Spec.hasKey e.size (rdLE x) es = false := by simpa using hhas
        simp only [hhas', Bool.false_eq_true, if_false]
        intro _
        exact ⟨m, h1 hhas', F.same, rfl, rfl⟩
    · simp [hx]
  | sinsertAll xs =>
    unfold Refines
    simp only [Spec.applyNode, applyAt]
    by_cases hx : xs.all (validE e) = true
    · simp only [hx, if_true]
      cases hsp : Spec.setInsertAll e.size lw xs es 0 with
      | error er => cases er <;> first | trivial | exact Or.inl rfl
      | ok r =>
        obtain ⟨es', n'⟩ := r
        simp only []
        intro hroom
        exact set_insertAll_loop xs v m es 0 F c (by simpa [List.all_eq_true] using hx) es' n' hsp hroom
    · simp [hx]
  | clear =>
    unfold Refines
    simp only [Spec.applyNode, applyAt, listClear]
    intro _
    obtain ⟨hval, hlen, _, _⟩ := good_set F.sub
    have hes : ∀ y ∈ es, y.length = e.size := fun y hy => validE_len (hval y hy)
    have hrd : rdN m.bytes (offsetOf s v p) lw = es.length := by
      have := enc_rdN p s v _ _ F.good F.res 0 lw (by simp [set_enc])
      rw [Nat.add_zero] at this
      rw [F.bytes, this, set_enc, rdN_leN_zero lw _ _ hlen]
    rw [hrd]
    have g' : Good (.set e lw) (.seq (Spec.removeRange es 0 es.length)) := by
      rw [removeRange_all]
      exact good_set_of F.sub.ok (by simp) (Nat.pow_pos (by omega)) (by simp [Shape.usizeLim]) (by simp [strictKeys])
    obtain ⟨m', hm', F', ho, hr⟩ := seq_removeRange F c e.size lw (set_enc e lw) hes hlen 0 es.length (by omega) (by omega) g'
    rw [removeRange_all] at F'
    exact ⟨m', by rw [hm', unitRes_ok], F', ho, hr⟩
  | _ => unfold Refines; simp [Spec.applyNode, applyAt]

end Unsized.Machine
