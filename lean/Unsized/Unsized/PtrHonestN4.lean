import Unsized.PtrHonestN3
namespace Unsized.Ptr
open Common Unsized Unsized.Text Unsized.Machine Unsized.PtrT Unsized.PtrM

theorem step_not_disc' (s : Shape) (v : Val) (st : Step) (t : Shape) (u : Val) (g : Good s v)
    (h : resolve1 s v st = .ok (t, u)) : ∀ d i, t ≠ .disc d i := by
  have key : ∀ (f : Shape) (ie : Bool), Shape.okAux false ie f = true → ∀ d i, f ≠ .disc d i := by
    intro f ie h d i hd; subst hd; simp [Shape.okAux] at h
  unfold resolve1 at h
  split at h
  · rename_i sized fs sz vs i
    split at h
    · rename_i f x hf hx
      cases h
      obtain ⟨top, ie, hok⟩ := g.ok
      simp only [Shape.okAux, Bool.and_eq_true] at hok
      exact key t false (okFields_get fs i t hf hok.2)
    · cases h
  · rename_i e vs i
    split at h
    · cases h
      obtain ⟨top, ie, hok⟩ := g.ok
      simp only [Shape.okAux, Bool.and_eq_true, Bool.not_eq_true'] at hok
      exact key t false hok.1
    · cases h
  · rename_i kw e es i
    split at h
    · cases h
      obtain ⟨top, ie, hok⟩ := g.ok
      simp only [Shape.okAux, Bool.and_eq_true, Bool.not_eq_true', decide_eq_true_eq] at hok
      exact key t false hok.1.2
    · cases h
  · rename_i ds ps idx pl
    split at h
    · cases h
    · cases h
    · rename_i t' hnu ht
      cases h
      obtain ⟨top, ie, hok⟩ := g.ok
      simp only [Shape.okAux, Bool.and_eq_true] at hok
      exact key t true (okPayloads_get ps idx t ht hok.2)
  · cases h

theorem resolve_not_disc' (p : List Step) : ∀ (s : Shape) (v : Val) (t : Shape) (u : Val), Good s v →
    (∀ d i, s ≠ .disc d i) → resolve s v p = .ok (t, u) → ∀ d i, t ≠ .disc d i := by
  induction p with
  | nil => intro s v t u g hnd h; simp [resolve] at h; obtain ⟨rfl, rfl⟩ := h; exact hnd
  | cons st p ih =>
    intro s v t u g hnd h
    simp only [resolve] at h
    cases h1 : resolve1 s v st with
    | error e => simp [h1] at h
    | ok tu =>
      obtain ⟨t1, u1⟩ := tu
      simp only [h1] at h
      exact ih t1 u1 t u (step_facts s v st t1 u1 g h1).1 (step_not_disc' s v st t1 u1 g h1) h

theorem amb_of_ctx {w : World} {s : Shape} {v : Val} (c : PCtx w .A s v) : Amb s w.a :=
  ⟨c.ok, c.nd, ⟨by simpa [World.get] using c.far, by simpa [World.get] using c.big⟩⟩

/-- `opAt` for a successful multi-resize op on a single-address node, given what `runEvs` does with its events. -/
theorem opAt_hon_comp_core {w : World} {s : Shape} {v : Val} (c : PCtx w .A s v) (π : List Step) (t : Shape) (u : Val)
    (hres : resolve s v π = .ok (t, u)) (T : PtrTree) (hp : HonPath s v w.a.base π w.a.root T)
    (hT : Hon t u (w.a.base + offsetOf s v π) T) (hl : leafy t = true) (op : Op)
    (hpre : ∀ len fd, preOf t len fd op = .none) (hsd : setDataLen t op = none)
    (m' : Mem) (r : Ret) (evs : List Ev) (u' : Val)
    (htr : applyAtT ⟨s, π⟩ t (offsetOf s v π) op w.a.mem = ((m', .ok r), evs))
    (hspec : Spec.applyNode t u op = .ok (u', r))
    (hrun : ∀ R, HonPath s v w.a.base π R T → ∃ R', runEvs w w.a R evs = .ok R'
      ∧ HonPath s (subst s v π u') w.a.base π R' T)
    (F' : Focus s (subst s v π u') π t u' m') (ho : m'.orig = w.a.mem.orig) (hr : m'.refuse = w.a.mem.refuse)
    (hroom : (encode s (subst s v π u')).length ≤ w.a.mem.orig + maxIncrease) :
    StepRes w s v π t u op (opAt w .A ⟨s, π⟩ (tpath s v π) t op) := by
  have F : Focus s v π t u w.a.mem := ⟨c.good, hres, c.bytes⟩
  have gt := F.sub
  have hnl : ∀ e, t ≠ .ulist e := by intro e h; subst h; simp [leafy] at hl
  have hnm : ∀ kw e, t ≠ .umap kw e := by intro kw e h; subst h; simp [leafy] at hl
  have hnd : ∀ d i, t ≠ .disc d i := by intro d i h; subst h; simp [leafy] at hl
  obtain ⟨hsub, hrep⟩ := honPath_nav π s v t u _ _ T c.good hres hp
  have hle := offsetOf_le π s v t u c.good hres
  have hbytes := c.bytes
  simp only [World.get] at hbytes
  have hlno : ∀ t2, listOf t t2 = none := fun t2 => listOf_none t t2 hnl hnm
  have hon : ∀ t2 f, onList t t2 f = t2 := fun t2 f => onList_other t t2 f hnl hnm
  have hTeq := (hon_leafy t u u' _ T hl hT)
  have hsa : startAddr T = some (w.a.base + offsetOf s v π) := by
    rw [hTeq.1]; cases t <;> simp [leafy] at hl <;> rfl
  unfold opAt
  simp only [World.get, hsub, hsa]
  have hown : w.owner (w.a.base + offsetOf s v π) = some .A :=
    ownsOwn_A w _ (by simp [World.get, PBuf.owns, hbytes]; omega)
  have hb : w.a.base + offsetOf s v π - w.a.base = offsetOf s v π := by omega
  simp only [hown, World.get, hb, htr, hpre, runPre]
  obtain ⟨R1, hR1, hp1⟩ := hrep T
  simp only [hR1, Option.getD_some]
  obtain ⟨R', hrunE, hp2⟩ := hrun R1 hp1
  have g' := F'.good
  have hres' := resolve_subst π s v t u u' hres
  have hoff' := offsetOf_subst π s v t u u' c.good hres
  have htp' := tpath_subst π s v t u u' hres
  obtain ⟨hsub2, hrep2⟩ := honPath_nav π s _ t u' _ _ T g' hres' hp2
  rw [htp'] at hsub2 hrep2
  simp only [hrunE, if_true, hsub2, hon, hlno, hsa, hsd]
  obtain ⟨R3, hR3, hp3⟩ := hrep2 T
  simp only [hR3, Option.getD_some, StepRes]
  refine ⟨subst s v π u', u', T, ?_, hres', ?_, ?_, rfl, rfl, ?_, rfl, rfl, rfl, Or.inl ⟨r, hspec, rfl, rfl⟩⟩
  · exact pctx_after c m' R3 g' F'.bytes ho hr hroom
  · simpa [World.set, World.get] using hp3
  · simp only [World.set, World.get, hoff']; exact hTeq.2
  · simpa [World.set, World.get] using ho


/-- An op the byte machine rejects as inapplicable is a no-op of the pointer machine too. -/
theorem opAt_hon_bad {w : World} {s : Shape} {v : Val} (c : PCtx w .A s v) (π : List Step) (t : Shape) (u : Val)
    (hres : resolve s v π = .ok (t, u)) (T : PtrTree) (hp : HonPath s v w.a.base π w.a.root T)
    (hT : Hon t u (w.a.base + offsetOf s v π) T) (op : Op)
    (hbad : ∃ m0 ev, applyAtT ⟨s, π⟩ t (offsetOf s v π) op w.a.mem = ((m0, .error .bad), ev)) :
    StepRes w s v π t u op (opAt w .A ⟨s, π⟩ (tpath s v π) t op) := by
  have F : Focus s v π t u w.a.mem := ⟨c.good, hres, c.bytes⟩
  have gt := F.sub
  have hnd := resolve_not_disc' π s v t u c.good c.nd hres
  obtain ⟨hsub, _⟩ := honPath_nav π s v t u _ _ T c.good hres hp
  have hle := offsetOf_le π s v t u c.good hres
  have hbytes := c.bytes
  simp only [World.get] at hbytes
  obtain ⟨m0, ev, htr⟩ := hbad
  unfold opAt
  simp only [World.get, hsub]
  cases hsa : startAddr T with
  | none => simp only [StepRes]
  | some a =>
    have ha : a = w.a.base + offsetOf s v π := startAddr_hon t u _ T a gt hT hnd hsa
    subst ha
    have hown : w.owner (w.a.base + offsetOf s v π) = some .A :=
      ownsOwn_A w _ (by simp [World.get, PBuf.owns, hbytes]; omega)
    have hb : w.a.base + offsetOf s v π - w.a.base = offsetOf s v π := by omega
    simp only [hown, World.get, hb, htr, StepRes]

end Unsized.Ptr
