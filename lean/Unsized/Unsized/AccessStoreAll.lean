import Unsized.AccessStoreLoops
/-!
# Every op line on a canonical buffer: all accesses — raw and typed — inside the data of that moment,
final data length = what the reallocs announce, largest length during the op = max(len, len')
-/
namespace Unsized.Machine
open Common Unsized Unsized.Text

theorem init_len (e : Shape) (init : Init) (hoke : Shape.okAux false false e = true) (hio : initOk e init = true) :
    (initBytes e init).length = initSize e init := by
  obtain ⟨hx, hsize, hval⟩ := initP_all e init hio
  rw [hx, hsize]; exact encode_size_all e _ (hval false false hoke)

theorem arr_init_len (e : Shape) (xs : List (List Nat)) (hoke : Shape.okAux false false e = true)
    (ha : arrOk e xs = true) : (initBytes e (.array xs)).length = initSize e (.array xs) := by
  cases e with
  | list ee lw =>
    simp only [arrOk, Bool.and_eq_true] at ha
    exact init_len _ _ hoke (by simpa [initOk, validE] using ha.2)
  | _ => simp [arrOk] at ha

/-- Nothing was resized or stored: same memory, no events. -/
theorem StepOk.same {α : Type} (m : Mem) (x : TracedS α) (h1 : x.1.1 = m) (h2 : x.2 = [])
    (hc : m.bytes.length ≤ m.cap) : StepOk m x m.bytes.length := by
  rcases x with ⟨⟨m1, r⟩, ev⟩
  simp only [] at h1 h2
  subst h1 h2
  exact StepOk.nil _ _ hc

/-- One in-place store (no resize). -/
theorem StepOk.one_store {α : Type} (m : Mem) (r : Except Err α) (off : Nat) (v : List Nat)
    (hc : m.bytes.length ≤ m.cap) (hin : off + v.length ≤ m.bytes.length) :
    StepOk m ((({ m with bytes := wr m.bytes off v }, r), [.store off v]) : TracedS α) m.bytes.length := by
  have := (StepOk.nil (α := Unit) m (.ok ()) hc).add_store (β := α) off v hin r
  simpa using this

theorem umapInsertS_ok {s v p m} {kw : Nat} {e : Shape} {es : List (List Nat × Val)}
    (F : Focus s v p (.umap kw e) (.umap es) m) (c : Calm m) (k : List Nat) (init : Init) (hk : k.length = kw)
    (hsz : initFails e init = false → (initBytes e init).length = initSize e init) :
    ∃ L, StepOk m (umapInsertS ⟨s, p⟩ kw e (offsetOf s v p) k init m) L := by
  have N := unode_umap F.sub
  obtain ⟨_, hs⟩ := good_umap_keys F.sub
  unfold umapInsertS
  simp only []
  rw [umapKeys_enc F c.lt]
  rcases search_sorted (fun kv : List Nat × Val => rdLE kv.1) es (rdLE k) 0 hs with
    ⟨j, hj, hse, _, _, _⟩ | ⟨j, _, hse, _, _⟩
  · rw [hse]
    simp only [Nat.zero_add]
    obtain ⟨Fe, hoff⟩ := Focus.elem F c.lt j es[j] (by simp [hj])
    rw [← hoff]
    obtain ⟨L, h1⟩ := setDataInnerS_ok Fe c (initBytes e init) (initFails e init)
    generalize setDataInnerS ⟨s, p ++ [.elem j]⟩ e (offsetOf s v (p ++ [.elem j])) (initBytes e init) (initFails e init) m = y at *
    rcases y with ⟨⟨m1, r⟩, ev⟩
    cases r with
    | error er => exact ⟨L, h1.retag _⟩
    | ok uu => cases uu; exact ⟨L, h1.retag _⟩
  · rw [hse]
    simp only [Nat.zero_add, Shape.entryW]
    obtain ⟨L, h1, _⟩ := ulistInsertS_ok F c N e j 1 init k hk hsz
    generalize ulistInsertS ⟨s, p⟩ (4 + kw) e (offsetOf s v p) j 1 init k m = y at *
    rcases y with ⟨⟨m1, r⟩, ev⟩
    cases r with
    | error er => exact ⟨L, h1.retag _⟩
    | ok uu => cases uu; exact ⟨L, h1.retag _⟩

theorem unitResS_ok {m : Mem} {x : TracedS Unit} (h : ∃ L, StepOk m x L) : ∃ L, StepOk m (unitResS x) L := by
  obtain ⟨L, h⟩ := h
  rcases x with ⟨⟨m1, r⟩, ev⟩
  cases r with
  | error e => exact ⟨L, h.retag _⟩
  | ok uu => cases uu; exact ⟨L, h.retag _⟩

theorem drop2 {m : Mem} {α : Type} {x : TracedS α} {P : Nat → Prop} (h : ∃ L, StepOk m x L ∧ P L) : ∃ L, StepOk m x L :=
  let ⟨L, h1, _⟩ := h; ⟨L, h1⟩

/-- no resize, no store -/
macro "inplace_nil" c:term : tactic =>
  `(tactic| (refine ⟨_, StepOk.same _ _ ?_ ?_ (Calm.cap_ok $c).1⟩ <;> simp only [inPlaceS, applyAt] <;>
      (repeat' split) <;> rfl))

theorem list_ops_ok {s v p m} {e : Fixed} {lw : Nat} {es : List (List Nat)}
    (F : Focus s v p (.list e lw) (.seq es) m) (c : Calm m) (op : Op) :
    ∃ L, StepOk m (applyAtS ⟨s, p⟩ (.list e lw) (offsetOf s v p) op m) L := by
  have N := lnode_list F.sub
  have hin := F.inside
  have hNs := N.size
  have hrd := N.rdlen F
  cases op <;> simp only [applyAtS]
  case replace nv => split; exact unitResS_ok (setDataInnerS_ok F c _ _); exact ⟨_, StepOk.nil m _ c.cap_ok.1⟩
  case reset => split; exact unitResS_ok (setDataInnerS_ok F c _ _); exact ⟨_, StepOk.nil m _ c.cap_ok.1⟩
  case push x =>
    split
    · rename_i hx
      exact unitResS_ok (drop2 (listInsertAllS_ok F c N _ [x] (by intro y hy; simp at hy; subst hy; exact validE_len hx)))
    · exact ⟨_, StepOk.nil m _ c.cap_ok.1⟩
  case insert i x =>
    split
    · rename_i hx
      exact unitResS_ok (drop2 (listInsertAllS_ok F c N i [x] (by intro y hy; simp at hy; subst hy; exact validE_len hx)))
    · exact ⟨_, StepOk.nil m _ c.cap_ok.1⟩
  case insertAll i xs =>
    split
    · rename_i hx
      exact unitResS_ok (drop2 (listInsertAllS_ok F c N i xs (fun y hy => validE_len (List.all_eq_true.1 hx y hy))))
    · exact ⟨_, StepOk.nil m _ c.cap_ok.1⟩
  case remove i => exact unitResS_ok (drop2 (listRemoveRangeS_ok F c N i (i + 1)))
  case removeRange lo hi => exact unitResS_ok (drop2 (listRemoveRangeS_ok F c N lo hi))
  case pop => exact drop2 (listPopS_ok F c N)
  case clear => exact unitResS_ok (drop2 (listClearS_ok F c N))
  case set i x =>
    simp only [inPlaceS, applyAt, hrd]
    by_cases hx : validE e x = true
    · by_cases hi : i < es.length
      · have hjm : (i + 1) * e.size ≤ es.length * e.size := Nat.mul_le_mul_right _ hi
        rw [Nat.add_mul] at hjm
        simp only [hx, hi, ↓reduceIte, decide_true, Bool.and_self]
        exact ⟨_, StepOk.one_store m _ _ x c.cap_ok.1 (by rw [validE_len hx]; omega)⟩
      · simp only [hx, hi, ↓reduceIte, decide_false, Bool.and_false, Bool.false_eq_true]
        exact ⟨_, StepOk.nil m _ c.cap_ok.1⟩
    · simp only [hx, ↓reduceIte, Bool.false_and, Bool.false_eq_true]
      exact ⟨_, StepOk.nil m _ c.cap_ok.1⟩
  all_goals inplace_nil c

theorem set_ops_ok {s v p m} {e : Fixed} {lw : Nat} {es : List (List Nat)}
    (F : Focus s v p (.set e lw) (.seq es) m) (c : Calm m) (op : Op) :
    ∃ L, StepOk m (applyAtS ⟨s, p⟩ (.set e lw) (offsetOf s v p) op m) L := by
  have N := lnode_set F.sub
  cases op <;> simp only [applyAtS]
  case replace nv => split; exact unitResS_ok (setDataInnerS_ok F c _ _); exact ⟨_, StepOk.nil m _ c.cap_ok.1⟩
  case reset => split; exact unitResS_ok (setDataInnerS_ok F c _ _); exact ⟨_, StepOk.nil m _ c.cap_ok.1⟩
  case sinsert x =>
    split
    · rename_i hx
      obtain ⟨L, h1, _⟩ := setInsertS_step F c x hx
      generalize setInsertS ⟨s, p⟩ e.size lw (offsetOf s v p) x m = y at *
      rcases y with ⟨⟨m1, r⟩, ev⟩
      cases r <;> exact ⟨L, h1.retag _⟩
    · exact ⟨_, StepOk.nil m _ c.cap_ok.1⟩
  case sremove x => split; exact setRemoveS_ok F c x; exact ⟨_, StepOk.nil m _ c.cap_ok.1⟩
  case sinsertAll xs =>
    split
    · rename_i hx
      exact drop2 (setInsertAllS_ok (offsetOf s v p) xs 0 m v es F c rfl (fun y hy => List.all_eq_true.1 hx y hy))
    · exact ⟨_, StepOk.nil m _ c.cap_ok.1⟩
  case clear => exact unitResS_ok (drop2 (listClearS_ok F c N))
  all_goals inplace_nil c

theorem map_ops_ok {s v p m} {kw : Nat} {f : Fixed} {lw : Nat} {es : List (List Nat)}
    (F : Focus s v p (.map kw f lw) (.seq es) m) (c : Calm m) (op : Op) :
    ∃ L, StepOk m (applyAtS ⟨s, p⟩ (.map kw f lw) (offsetOf s v p) op m) L := by
  have N := lnode_map F.sub
  have hin := F.inside
  have hNs := N.size
  cases op <;> simp only [applyAtS]
  case replace nv => split; exact unitResS_ok (setDataInnerS_ok F c _ _); exact ⟨_, StepOk.nil m _ c.cap_ok.1⟩
  case reset => split; exact unitResS_ok (setDataInnerS_ok F c _ _); exact ⟨_, StepOk.nil m _ c.cap_ok.1⟩
  case minsert k x =>
    split
    · rename_i hx
      simp only [Bool.and_eq_true, beq_iff_eq, decide_eq_true_eq] at hx
      obtain ⟨L, h1, _⟩ := mapInsertS_step F c k x hx.1.1 hx.1.2 hx.2
      generalize mapInsertS ⟨s, p⟩ kw f.size lw (offsetOf s v p) k x m = y at *
      rcases y with ⟨⟨m1, r⟩, ev⟩
      cases r <;> exact ⟨L, h1.retag _⟩
    · exact ⟨_, StepOk.nil m _ c.cap_ok.1⟩
  case mremove k => split; exact mapRemoveS_ok F c k; exact ⟨_, StepOk.nil m _ c.cap_ok.1⟩
  case minsertAll kvs =>
    split
    · rename_i hx
      refine drop2 (mapInsertAllS_ok (offsetOf s v p) kvs 0 m v es F c rfl (fun y hy => ?_))
      have := List.all_eq_true.1 hx y hy
      simp only [Bool.and_eq_true, beq_iff_eq, decide_eq_true_eq] at this
      exact ⟨this.1.1, this.1.2, this.2⟩
    · exact ⟨_, StepOk.nil m _ c.cap_ok.1⟩
  case clear => exact unitResS_ok (drop2 (listClearS_ok F c N))
  case mset k x =>
    simp only [inPlaceS, applyAt]
    by_cases hx : (k.length == kw && decide (BytesWF k) && validE f x) = true
    · simp only [hx, ↓reduceIte]
      simp only [Bool.and_eq_true, beq_iff_eq, decide_eq_true_eq] at hx
      rcases map_search F k hx.1.1 hx.1.2 with ⟨j, hj, hse, _⟩ | ⟨j, _, hse, _⟩
      · rw [hse]
        simp only []
        have hjm : (j + 1) * (kw + f.size) ≤ es.length * (kw + f.size) := Nat.mul_le_mul_right _ hj
        rw [Nat.add_mul] at hjm
        exact ⟨_, StepOk.one_store m _ _ x c.cap_ok.1 (by rw [validE_len hx.2]; omega)⟩
      · rw [hse]
        exact ⟨_, StepOk.nil m _ c.cap_ok.1⟩
    · simp only [hx, ↓reduceIte, Bool.false_eq_true]
      exact ⟨_, StepOk.nil m _ c.cap_ok.1⟩
  all_goals inplace_nil c

theorem str_ops_ok {s v p m} {lw : Nat} {l : List Nat}
    (F : Focus s v p (.str lw) (.bytes l) m) (c : Calm m) (op : Op) :
    ∃ L, StepOk m (applyAtS ⟨s, p⟩ (.str lw) (offsetOf s v p) op m) L := by
  cases op <;> simp only [applyAtS]
  case replace nv => split; exact unitResS_ok (setDataInnerS_ok F c _ _); exact ⟨_, StepOk.nil m _ c.cap_ok.1⟩
  case reset => split; exact unitResS_ok (setDataInnerS_ok F c _ _); exact ⟨_, StepOk.nil m _ c.cap_ok.1⟩
  case strSet x => split; exact unitResS_ok (strSetS_ok F c x); exact ⟨_, StepOk.nil m _ c.cap_ok.1⟩
  all_goals inplace_nil c

theorem rem_ops_ok {s v p m} {u : Val} (F : Focus s v p .rem u m) (c : Calm m) (op : Op) :
    ∃ L, StepOk m (applyAtS ⟨s, p⟩ .rem (offsetOf s v p) op m) L := by
  cases op <;> simp only [applyAtS]
  case replace nv => split; exact unitResS_ok (setDataInnerS_ok F c _ _); exact ⟨_, StepOk.nil m _ c.cap_ok.1⟩
  case reset => split; exact unitResS_ok (setDataInnerS_ok F c _ _); exact ⟨_, StepOk.nil m _ c.cap_ok.1⟩
  case setLen n => exact unitResS_ok (remSetLenS_ok F c n)
  case set i x =>
    simp only [inPlaceS, applyAt]
    by_cases hx : (x.length == 1 && decide (BytesWF x)) = true
    · by_cases hi : i < m.bytes.length - offsetOf s v p
      · simp only [hx, hi, ↓reduceIte, decide_true, Bool.and_self]
        simp only [Bool.and_eq_true, beq_iff_eq] at hx
        exact ⟨_, StepOk.one_store m _ _ x c.cap_ok.1 (by rw [hx.1]; omega)⟩
      · simp only [hx, hi, ↓reduceIte, decide_false, Bool.and_false, Bool.false_eq_true]
        exact ⟨_, StepOk.nil m _ c.cap_ok.1⟩
    · simp only [hx, ↓reduceIte, Bool.false_and, Bool.false_eq_true]
      exact ⟨_, StepOk.nil m _ c.cap_ok.1⟩
  all_goals inplace_nil c

theorem ulist_ops_ok {s v p m} {e : Shape} {vs : List Val}
    (F : Focus s v p (.ulist e) (.useq vs) m) (c : Calm m) (op : Op) :
    ∃ L, StepOk m (applyAtS ⟨s, p⟩ (.ulist e) (offsetOf s v p) op m) L := by
  have N := unode_ulist e vs
  obtain ⟨hoke, _⟩ := ulist_elem_ok F.sub.ok
  have h4 : (4 : Nat) = 4 + 0 := rfl
  cases op <;> simp only [applyAtS]
  case replace nv => split; exact unitResS_ok (setDataInnerS_ok F c _ _); exact ⟨_, StepOk.nil m _ c.cap_ok.1⟩
  case reset => split; exact unitResS_ok (setDataInnerS_ok F c _ _); exact ⟨_, StepOk.nil m _ c.cap_ok.1⟩
  case uinsert i n =>
    rw [h4]
    exact unitResS_ok (drop2 (ulistInsertS_ok F c N e i n .default [] rfl
      (fun _ => init_len e .default hoke (initOk_default e false hoke))))
  case uinsertArr i xs =>
    split
    · rename_i ha
      rw [h4]
      exact unitResS_ok (drop2 (ulistInsertS_ok F c N e i 1 (.array xs) [] rfl (fun _ => arr_init_len e xs hoke ha)))
    · exact ⟨_, StepOk.nil m _ c.cap_ok.1⟩
  case remove i => rw [h4]; exact unitResS_ok (drop2 (ulistRemoveRangeS_ok F c N i (i + 1)))
  case removeRange lo hi => rw [h4]; exact unitResS_ok (drop2 (ulistRemoveRangeS_ok F c N lo hi))
  case pop => rw [h4]; exact drop2 (ulistPopS_ok F c N)
  case clear => rw [h4]; exact unitResS_ok (drop2 (ulistClearS_ok F c N))
  all_goals inplace_nil c

theorem umap_ops_ok {s v p m} {kw : Nat} {e : Shape} {es : List (List Nat × Val)}
    (F : Focus s v p (.umap kw e) (.umap es) m) (c : Calm m) (op : Op) :
    ∃ L, StepOk m (applyAtS ⟨s, p⟩ (.umap kw e) (offsetOf s v p) op m) L := by
  have N := unode_umap F.sub
  obtain ⟨_, hoke, _⟩ := umap_elem_ok F.sub.ok
  obtain ⟨_, hs⟩ := good_umap_keys F.sub
  cases op <;> simp only [applyAtS]
  case replace nv => split; exact unitResS_ok (setDataInnerS_ok F c _ _); exact ⟨_, StepOk.nil m _ c.cap_ok.1⟩
  case reset => split; exact unitResS_ok (setDataInnerS_ok F c _ _); exact ⟨_, StepOk.nil m _ c.cap_ok.1⟩
  case uminsert k =>
    split
    · rename_i hk
      simp only [Bool.and_eq_true, beq_iff_eq] at hk
      exact umapInsertS_ok F c k .default hk.1 (fun _ => init_len e .default hoke (initOk_default e false hoke))
    · exact ⟨_, StepOk.nil m _ c.cap_ok.1⟩
  case uminsertArr k xs =>
    split
    · rename_i hk
      simp only [Bool.and_eq_true, beq_iff_eq] at hk
      exact umapInsertS_ok F c k (.array xs) hk.1.1 (fun _ => arr_init_len e xs hoke hk.2)
    · exact ⟨_, StepOk.nil m _ c.cap_ok.1⟩
  case umremove k =>
    split
    · split
      · exact ⟨_, StepOk.nil m _ c.cap_ok.1⟩
      · rename_i i _
        simp only [Shape.entryW]
        obtain ⟨L, h1, _⟩ := ulistRemoveRangeS_ok F c N i (i + 1)
        generalize ulistRemoveRangeS ⟨s, p⟩ (4 + kw) (offsetOf s v p) i (i + 1) m = y at *
        rcases y with ⟨⟨m1, r⟩, ev⟩
        cases r with
        | error er => exact ⟨L, h1.retag _⟩
        | ok uu => cases uu; exact ⟨L, h1.retag _⟩
    · exact ⟨_, StepOk.nil m _ c.cap_ok.1⟩
  case clear =>
    simp only [Shape.entryW]
    exact unitResS_ok (drop2 (ulistRemoveRangeS_ok F c N 0 _))
  all_goals inplace_nil c

theorem other_ops_ok {s v p t u m} (F : Focus s v p t u m) (c : Calm m) (op : Op)
    (ht : match t with | .fixed _ | .struct _ _ | .enum _ _ | .unit | .disc _ _ => true | _ => false) :
    ∃ L, StepOk m (applyAtS ⟨s, p⟩ t (offsetOf s v p) op m) L := by
  have hin := F.inside
  have hsz := encode_size_all t u F.sub.valid
  cases t <;> simp at ht <;> cases op <;> simp only [applyAtS]
  case fixed.write f h =>
    simp only [inPlaceS, applyAt]
    by_cases hx : validE f h = true
    · simp only [hx, ↓reduceIte]
      have hv := F.sub.valid
      cases u <;> simp [valid] at hv
      rename_i l
      refine ⟨_, StepOk.one_store m _ _ h c.cap_ok.1 ?_⟩
      rw [validE_len hx]
      simp only [encode] at hin
      omega
    · simp only [hx, ↓reduceIte, Bool.false_eq_true]
      exact ⟨_, StepOk.nil m _ c.cap_ok.1⟩
  case struct.write sized fs h =>
    simp only [inPlaceS, applyAt]
    by_cases hx : validE (.record sized) h = true
    · simp only [hx, ↓reduceIte]
      have hv := F.sub.valid
      cases u <;> simp [valid] at hv
      rename_i sz vs
      refine ⟨_, StepOk.one_store m _ _ h c.cap_ok.1 ?_⟩
      rw [validE_len hx]
      simp only [encode, List.length_append] at hin
      simp only [Fixed.size]
      omega
    · simp only [hx, ↓reduceIte, Bool.false_eq_true]
      exact ⟨_, StepOk.nil m _ c.cap_ok.1⟩
  case enum.setVariant ds ps idx =>
    split; exact unitResS_ok (setDataInnerS_ok F c _ _); exact ⟨_, StepOk.nil m _ c.cap_ok.1⟩
  all_goals first
    | (split; exact unitResS_ok (setDataInnerS_ok F c _ _); exact ⟨_, StepOk.nil m _ c.cap_ok.1⟩)
    | inplace_nil c

/-- **Every op on the accessor at `p` of a canonical buffer** (any shape, value, path, op): all raw accesses
and all typed stores are inside the data of that moment, the final data length is the one the reallocs
announce, and the largest data length during the op is `max len len'`. -/
theorem applyAtS_ok {s v p t u m} (F : Focus s v p t u m) (c : Calm m) (op : Op) :
    ∃ L, StepOk m (applyAtS ⟨s, p⟩ t (offsetOf s v p) op m) L := by
  have hv := F.sub.valid
  cases t with
  | list e lw => cases u <;> simp [valid] at hv; exact list_ops_ok F c op
  | set e lw => cases u <;> simp [valid] at hv; exact set_ops_ok F c op
  | map kw f lw => cases u <;> simp [valid] at hv; exact map_ops_ok F c op
  | str lw => cases u <;> simp [valid] at hv; exact str_ops_ok F c op
  | rem => exact rem_ops_ok F c op
  | ulist e => cases u <;> simp [valid] at hv; exact ulist_ops_ok F c op
  | umap kw e => cases u <;> simp [valid] at hv; exact umap_ops_ok F c op
  | fixed f => exact other_ops_ok F c op rfl
  | struct sized fs => exact other_ops_ok F c op rfl
  | «enum» ds ps => exact other_ops_ok F c op rfl
  | unit => exact other_ops_ok F c op rfl
  | disc d inner => exact other_ops_ok F c op rfl

/-- The same for an op line addressed by a path from the top (`applyOpS`): invariant state = canonical
bytes of a well-formed value + `Calm` (no scheduled refusal, allocation below 4 GiB, `len ≤ orig + 10240`). -/
theorem applyOpS_ok (s : Shape) (v : Val) (g : Good s v) (m : Mem) (hb : m.bytes = encode s v) (c : Calm m)
    (abs : List Step) (op : Op) : ∃ L, StepOk m (applyOpS s abs op m) L := by
  unfold applyOpS
  have hl := locate_encode abs s v g [] [] 0 rfl
  simp only [List.nil_append, List.append_nil, ← hb] at hl
  rw [hl]
  cases hr : resolve s v abs with
  | error e => exact ⟨_, StepOk.nil m _ c.cap_ok.1⟩
  | ok tu =>
    obtain ⟨t, u⟩ := tu
    simp only [Nat.zero_add]
    exact applyAtS_ok ⟨g, hr, hb⟩ c op

/-- For b-machine: on a canonical buffer the byte machine's final data length is exactly what the realloc
events of the traced op announce (no write past the end ever lengthens the model's byte list). -/
theorem applyAtT_len_exact {s v p t u m} (F : Focus s v p t u m) (c : Calm m) (op : Op) :
    (applyAtT ⟨s, p⟩ t (offsetOf s v p) op m).1.1.bytes.length
      = lenAfter m.bytes.length (applyAtT ⟨s, p⟩ t (offsetOf s v p) op m).2
    ∧ (applyAtT ⟨s, p⟩ t (offsetOf s v p) op m).1.1.orig = m.orig := by
  obtain ⟨L, h⟩ := applyAtS_ok F c op
  rw [← applyAtS_proj]
  simp only [proj]
  exact ⟨by rw [h.len, h.lenAfter], h.orig⟩

end Unsized.Machine
