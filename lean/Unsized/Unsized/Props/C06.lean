import Unsized.MachineAtomicAll
import Unsized.Props.C01
/-!
# C06 — A failed mutation never corrupts, and single-container operations are atomic

Model: the resize machine of C01 (`Unsized/Machine*.lean`, executed by `c06_model`) with the fault
oracle of `Mem` (`refuse` = the growing reallocs that are refused; growth beyond `orig + 10240` is
refused too; shrinking never is). All statements are for EVERY refusal schedule.
-/
namespace Unsized.C06
open Common Unsized Unsized.Text Unsized.Machine

/-
`err_atomic` WITHOUT the hypothesis `e ≠ .initFail` is FALSE of the current code: `UnsizedList::insert` /
`UnsizedMap::insert` with a fallible element initialiser fail after the resize and header rewrite
(`ulist_init_fail_witness`, `set_data_inner_init_fail_witness` below — registered known findings). Without
`composite op = false` it is false as well (`map_insert_all_partial_witness`, `str_set_partial_witness`);
those ops satisfy `err_canonical`. With the two hypotheses it holds for EVERY op on EVERY node kind.
-/

/-- **Atomicity**: ANY single-container op (every op of the op language that is not a loop of container
steps), on any node kind at any nesting depth, that returns an error — index/range out of bounds,
prefix overflow, growth refused by the schedule or beyond `orig + 10240` — leaves bytes, length,
`orig` and the schedule exactly as they were. For EVERY refusal schedule. (`Err.initFail` = an
initialiser failing behind the resize is the registered known finding, see the witnesses below.) -/
theorem err_atomic (s : Shape) (v : Val) (hok : s.ok = true) (hwf : WF s v = true) (m : Mem)
    (hm : m.bytes = encode s v) (hsmall : m.orig + maxIncrease < Shape.u32Lim)
    (hlen : m.bytes.length ≤ m.orig + maxIncrease) (p : List Step) (op : Op)
    (hnc : composite op = false)
    (m' : Mem) (e : Err) (hne : e ≠ .initFail) (h : applyOp s p op m = (m', .error e)) :
    m'.bytes = m.bytes ∧ m'.bytes.length = m.bytes.length ∧ m'.orig = m.orig ∧ m'.refuse = m.refuse := by
  simp only [WF, Bool.and_eq_true] at hwf
  obtain ⟨h1, h2, h3⟩ := applyOp_atomic_all s v ⟨⟨true, false, hok⟩, hwf.1, hwf.2⟩ m hm ⟨hsmall, hlen⟩ p op hnc m' e hne h
  exact ⟨h1, by rw [h1], h2, h3⟩

/-- **No corruption**: after an error of ANY op — single-container or composite (`Map/Set::insert_all`,
`UnsizedString::set`), under EVERY refusal schedule — the buffer is still the canonical serialization (with exact length) of a
well-formed value of the type, so by `Unsized.C01.history_refines` later ops behave correctly. -/
theorem err_canonical (s : Shape) (v : Val) (hok : s.ok = true) (hwf : WF s v = true) (m : Mem)
    (hm : m.bytes = encode s v) (hsmall : m.orig + maxIncrease < Shape.u32Lim)
    (hlen : m.bytes.length ≤ m.orig + maxIncrease) (p : List Step) (op : Op)
    (m' : Mem) (e : Err) (hne : e ≠ .initFail) (h : applyOp s p op m = (m', .error e)) :
    ∃ v', WF s v' = true ∧ m'.bytes = encode s v' ∧ m'.bytes.length = size s v'
      ∧ m'.orig = m.orig ∧ m'.refuse = m.refuse := by
  simp only [WF, Bool.and_eq_true] at hwf
  obtain ⟨v', g', hb, ho, hr⟩ := applyOp_err_canonical s v ⟨⟨true, false, hok⟩, hwf.1, hwf.2⟩ m hm ⟨hsmall, hlen⟩
    p op m' e hne h
  exact ⟨v', by simp [WF, g'.valid, g'.fits], hb, by rw [hb, encode_size_all s v' g'.valid], ho, hr⟩

/-! ## The known findings, as kernel-checked witnesses on the model of the code that exists -/

/-- Did the call fail with class `e`? -/
def failedWith (r : Mem × Except Err Ret) (e : Err) : Bool :=
  match r.2 with
  | .error e' => e' == e
  | .ok _ => false

/-- A fresh buffer holding `encode s v` with refusal schedule `refuse`. -/
def fresh (s : Shape) (v : Val) (refuse : List Nat) : Mem := ⟨encode s v, (encode s v).length, 0, refuse⟩

def w1S : Shape := .ulist (.list (.pod 1) 1)
def w1V : Val := .useq [.seq [[1], [2]], .seq [[3]]]
/-- `UnsizedList<List<u8,u8>>` = `[[1,2],[3]]`, `push([0u8; 256])`: the call returns an error, but the
buffer grew by 261 bytes and `len` says 3 (initialiser runs after the resize and header rewrite).
Hence `err_atomic` at full strength is false of the current code
(known finding `ulist_insert_init_fails_after_resize`). -/
theorem ulist_init_fail_witness :
    failedWith (applyOp w1S [] (.uinsertArr 2 (List.replicate 256 [0])) (fresh w1S w1V [])) .initFail = true
    ∧ (applyOp w1S [] (.uinsertArr 2 (List.replicate 256 [0])) (fresh w1S w1V [])).1.bytes.length
        = (fresh w1S w1V []).bytes.length + 261
    ∧ rd32 (applyOp w1S [] (.uinsertArr 2 (List.replicate 256 [0])) (fresh w1S w1V [])).1.bytes 4 = 3 := by
  decide +kernel

def w2S : Shape := .umap 1 (.list (.pod 1) 1)
def w2V : Val := .umap [([5], .seq [[1]]), ([9], .seq [[2], [3]])]
/-- `UnsizedMap<u8, List<u8,u8>>` = `{5: [1], 9: [2,3]}`, `insert(5, [0u8; 256])` (existing key →
`set_from_init`): error after the element was already resized by 255 bytes
(known finding `set_data_inner_init_fails_after_resize`). -/
theorem set_data_inner_init_fail_witness :
    failedWith (applyOp w2S [] (.uminsertArr [5] (List.replicate 256 [0])) (fresh w2S w2V [])) .initFail = true
    ∧ (applyOp w2S [] (.uminsertArr [5] (List.replicate 256 [0])) (fresh w2S w2V [])).1.bytes.length
        = (fresh w2S w2V []).bytes.length + 255 := by
  decide +kernel

def w3S : Shape := .map 1 (.pod 1) 1
/-- `Map<u8,u8,u8>` = `{5: 1}`, `insert_all([(1,10),(2,11),(3,12)])` with the 2nd growth refused: error,
but the first entry is in — the bytes are canonical for `{1: 10, 5: 1}` (`err_canonical` holds,
`err_atomic` does not; known finding `map_set_insert_all_partial`). -/
theorem map_insert_all_partial_witness :
    failedWith (applyOp w3S [] (.minsertAll [([1], [10]), ([2], [11]), ([3], [12])]) (fresh w3S (.seq [[5, 1]]) [2]))
      .realloc = true
    ∧ (applyOp w3S [] (.minsertAll [([1], [10]), ([2], [11]), ([3], [12])]) (fresh w3S (.seq [[5, 1]]) [2])).1.bytes
        = encode w3S (.seq [[1, 10], [5, 1]]) := by
  decide +kernel

/-- `UnsizedString<u32>` = `"hi"`, `set("hello")` with the growth refused: error, and the string is
empty (known finding `unsized_string_set_partial`). -/
theorem str_set_partial_witness :
    failedWith (applyOp (.str 4) [] (.strSet [104, 101, 108, 108, 111]) (fresh (.str 4) (.bytes [104, 105]) [1]))
      .realloc = true
    ∧ (applyOp (.str 4) [] (.strSet [104, 101, 108, 108, 111]) (fresh (.str 4) (.bytes [104, 105]) [1])).1.bytes
        = encode (.str 4) (.bytes []) := by
  decide +kernel

/-! ## Non-vacuity -/

example : composite (.push [9]) = false ∧ composite (.minsertAll []) = true := by decide

/-- A refused growth at depth 3 (struct → ulist → struct → list): the hypotheses of
`err_atomic` hold and the op indeed fails with `InvalidRealloc`. -/
example : Unsized.C01.exS.ok = true ∧ WF Unsized.C01.exS Unsized.C01.exV = true
    ∧ failedWith (applyOp Unsized.C01.exS [.field 1, .elem 0, .field 0] (.push [9])
        (fresh Unsized.C01.exS Unsized.C01.exV [1])) .realloc = true := by
  decide +kernel


end Unsized.C06
