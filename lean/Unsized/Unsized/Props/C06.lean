import Unsized.MachineLemmas
/-! # C06 — property theorems (under construction; see notes/C01_machine.md) -/
namespace Unsized.C06
open Common Unsized Unsized.Machine

/-- A refused or over-limit growth leaves the bytes untouched. -/
theorem addBytes_err_bytes (m : Mem) (start amount : Nat) (e : Err) (m' : Mem)
    (h : m.addBytes start amount = (m', .error e)) : m'.bytes = m.bytes ∧ m'.orig = m.orig :=
  Unsized.Machine.addBytes_err_bytes m start amount e m' h

end Unsized.C06
