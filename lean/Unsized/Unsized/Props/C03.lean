import Unsized.AccessLemmasCanon
import Unsized.AccessLemmasFrame
import Unsized.AccessStoreFrame
import Unsized.AccessStoreReplay
import Unsized.PtrLemmasSwap
import Unsized.PtrLemmasFresh
import Unsized.AccessLemmasFail
import Unsized.PtrMachine
import Unsized.PtrChainNotify
import Unsized.PtrChainNav
import Unsized.PtrHonestM16
import Unsized.C07Spec
/-!
# C03 — Resizing never reads or writes outside the account's allocation; swapped accessors are detected

Model: `Unsized/Access.lean` (the raw accesses of every op, paired with the byte machine's own result),
`Unsized/PtrTree.lean` (pointer trees, `get_ptr`, `resize_notification`, `check_pointers`),
`Unsized/PtrMachine.lean` (the two-buffer pointer machine the driver runs). Helper lemmas:
`AccessLemmas*.lean`, `PtrLemmas*.lean`.
-/
namespace Unsized.C03
open Common Unsized Unsized.Text Unsized.Machine Unsized.PtrT

/-! ## The traced ops ARE the byte machine's ops -/

/-- The traced op returns exactly the byte machine's result (state and outcome): the access lists are
computed next to, never instead of, the machine's bytes. -/
theorem traced_is_machine (s : Shape) (abs : List Step) (op : Op) (m : Mem) :
    (applyOpT s abs op m).1 = applyOp s abs op m := applyOpT_fst s abs op m

example : (applyOpT (.list (.pod 1) 1) [] (.insert 1 [9]) ⟨[2, 1, 2], 3, 0, []⟩).2.filter Ev.isRaw
    = [.realloc 3 4 true, .move 3 2 1] := by decide

/-! ## accesses_in_bounds -/

/-- Every raw access of an event list that passes `evsOk` lies inside the allocation: a granted realloc
asks for at most `cap` bytes, every `memmove` has `dst + n ≤ cap` and `src + n ≤ cap`. -/
theorem evsOk_in_allocation (cap : Nat) (evs : List Ev) : ∀ len, len ≤ cap → evsOk cap len evs = true →
    ∀ ev ∈ evs, match ev with
      | .move d s n => d + n ≤ cap ∧ s + n ≤ cap
      | .realloc _ new true => new ≤ cap
      | _ => True := by
  induction evs with
  | nil => intro len _ _ ev h; cases h
  | cons e es ih =>
    intro len hl hok ev hev
    cases e with
    | call =>
      simp only [evsOk] at hok
      rcases List.mem_cons.mp hev with rfl | h
      · trivial
      · exact ih len hl hok ev h
    | notify s n a b =>
      simp only [evsOk] at hok
      rcases List.mem_cons.mp hev with rfl | h
      · trivial
      · exact ih len hl hok ev h
    | move d s n =>
      simp only [evsOk, Bool.and_eq_true, decide_eq_true_eq] at hok
      rcases List.mem_cons.mp hev with rfl | h
      · exact ⟨by omega, by omega⟩
      · exact ih len hl hok.2 ev h
    | realloc o n ok =>
      cases ok with
      | false =>
        simp only [evsOk] at hok
        rcases List.mem_cons.mp hev with rfl | h
        · trivial
        · exact ih len hl hok ev h
      | true =>
        simp only [evsOk, ↓reduceIte, Bool.and_eq_true, decide_eq_true_eq] at hok
        rcases List.mem_cons.mp hev with rfl | h
        · exact hok.1
        · exact ih n hok.1 hok.2 ev h

/-- **accesses_in_bounds.** For every state satisfying the invariant (the bytes are the canonical
encoding of a well-formed value, `len ≤ orig + 10240`), every accessor path and every op of the op
language: the emitted accesses pass `evsOk` — each `memmove` reads and writes inside `[0, len)` for the
data length `len` of that moment (after the growth that preceded it, before the shrink that follows it),
and every granted realloc stays `≤ orig + 10240`. Proved for ALL shapes, values, paths, ops, refusal
schedules. (That reachable states satisfy the invariant is C01/C02's `history_refines` / `bytes_canonical`.) -/
theorem accesses_in_bounds (s : Shape) (v : Val) (g : Good s v) (m : Mem) (hb : m.bytes = encode s v)
    (hcap : m.bytes.length ≤ m.orig + maxIncrease) (abs : List Step) (op : Op) :
    evsOk (m.orig + maxIncrease) m.bytes.length (applyOpT s abs op m).2 = true :=
  applyOpT_evsOk s v g m hb hcap abs op

/-- … hence every access is inside the allocation `[0, orig + 10240)`. -/
theorem accesses_in_allocation (s : Shape) (v : Val) (g : Good s v) (m : Mem) (hb : m.bytes = encode s v)
    (hcap : m.bytes.length ≤ m.orig + maxIncrease) (abs : List Step) (op : Op) :
    ∀ ev ∈ (applyOpT s abs op m).2, match ev with
      | .move d s n => d + n ≤ m.orig + maxIncrease ∧ s + n ≤ m.orig + maxIncrease
      | .realloc _ new true => new ≤ m.orig + maxIncrease
      | _ => True :=
  evsOk_in_allocation _ _ _ hcap (accesses_in_bounds s v g m hb hcap abs op)

/-- The same for ANY state (canonical or not) whose data fits the allocation, provided the node the op
is called on — when it is an `UnsizedList` / `UnsizedMap` — has a sane header (`UlistOk`: the list lies
inside the data and no stored offset exceeds `unsized_size`). This isolates the one place where the
code relies on the bytes: the offset-table `memmove` of `UnsizedList::remove_range` runs BEFORE any bounds
check with a length computed from the stored offsets. Everything else is guarded by the checks of
`add_bytes` / `remove_bytes` themselves. -/
theorem accesses_in_bounds_any_state (c : Ctx) (t : Shape) (b : Nat) (op : Op) (m : Mem)
    (hcap : m.bytes.length ≤ m.orig + maxIncrease)
    (hu : ∀ cw, ulistCw t = some cw → UlistOk cw b m.bytes) :
    evsOk (m.orig + maxIncrease) m.bytes.length (applyAtT c t b op m).2 = true :=
  applyAtT_evsOk c t b op m hcap hu

/-- Non-vacuity on a depth-3 shape (`struct{u8; UnsizedList<UnsizedList<List<u8,u8>>>; List<u8,u8>}`):
the hypotheses hold and a remove deep inside emits a table shift, a tail move and a shrink. -/
def exShape : Shape := .struct [.pod 1] [.ulist (.ulist (.list (.pod 1) 1)), .list (.pod 1) 1]
def exVal : Val := .record [7] [.useq [.useq [.seq [[1], [2]], .seq [[3]]], .useq []], .seq [[9]]]
def exMem : Mem := ⟨encode exShape exVal, (encode exShape exVal).length, 0, []⟩

example : exShape.ok = true ∧ WF exShape exVal = true := by decide
example : ((applyOpT exShape [.field 0, .elem 0] (.remove 0) exMem).2.filter Ev.isRaw)
    = [.move 29 33 8, .move 37 44 16, .realloc 60 53 true] := by decide
example : evsOk (exMem.orig + maxIncrease) exMem.bytes.length
    (applyOpT exShape [.field 0, .elem 0] (.remove 0) exMem).2 = true := by decide

/-- Non-vacuity for an ACCOUNT-backed case (`impl UnsizedTypeDataAccess for AccountInfo`, harness cases
`acct-*` / `layout=account`; same op lines and limit): an empty `RemainingBytes` account grown to exactly
`orig + 10240`, one more byte refused by `AccountInfo::resize_unchecked` (the refused realloc is the only
event), then the same wrapper shrinks (`corpus/C03/acct_refused_growth_then_use.replay`). -/
def acctMem : Mem := ⟨[], 0, 0, []⟩
example : (applyOpT .rem [] (.setLen 10240) acctMem).2.filter Ev.isRaw = [.realloc 0 10240 true] := by decide
example : ((applyOpT .rem [] (.setLen 10241) (applyOpT .rem [] (.setLen 10240) acctMem).1.1).2.filter Ev.isRaw)
    = [.realloc 10240 10241 false] := by decide +kernel
example : evsOk (acctMem.orig + maxIncrease) 10240
    (applyOpT .rem [] (.setLen 3) (applyOpT .rem [] (.setLen 10240) acctMem).1.1).2 = true := by decide +kernel

/-- The checker is not trivially true: an access one byte past the data is rejected. -/
example : evsOk 100 10 [.move 3 2 8] = false := by decide
example : evsOk 100 10 [.realloc 10 101 true] = false := by decide

/-! ## A growth beyond the limit returns `Err` before any move -/

/-- **growth_refused_before_move.** When the requested growth exceeds `orig + 10240` (or is refused by
the data access), `add_bytes` returns `Err(InvalidRealloc)`, the bytes are untouched and the only raw
access is the (refused) realloc call: no `memmove` happens. -/
theorem growth_refused_before_move (m : Mem) (start amount : Nat) (hs : start ≤ m.bytes.length)
    (ha : amount ≠ 0)
    (h : m.grows + 1 ∈ m.refuse ∨ m.orig + maxIncrease < m.bytes.length + amount) :
    (m.addBytes start amount).2 = .error .realloc ∧ (m.addBytes start amount).1.bytes = m.bytes ∧
    addBytesEvs m start amount = [.call, .realloc m.bytes.length (m.bytes.length + amount) false] := by
  unfold Mem.addBytes addBytesEvs
  simp only [Nat.not_lt.mpr hs, ↓reduceIte, ha]
  rcases h with h | h
  · simp [h]
  · by_cases h1 : m.grows + 1 ∈ m.refuse
    · simp [h1]
    · simp [h1, h]

example : (Mem.addBytes ⟨[1, 2], 2, 0, []⟩ 1 10240).2.toOption = some () := by decide
example : (Mem.addBytes ⟨[1, 2], 2, 0, []⟩ 1 10241).2.toOption = none := by decide

/-- **failed_growth_is_last.** For EVERY op line (loops such as `insert_all` on sets / maps and
`UnsizedString::set` included) on ANY state: either no realloc of the line was refused, or the refused one
is the very last event of the line — no `memmove`, no further realloc, no notification after it — and the
line answers `Err(InvalidRealloc)`. -/
theorem failed_growth_is_last (s : Shape) (abs : List Step) (op : Op) (m : Mem) :
    noFail (applyOpT s abs op m).2 = true ∨
    (isReallocErr (applyOpT s abs op m).1.2 = true ∧
      ∃ pre o n, (applyOpT s abs op m).2 = pre ++ [Ev.realloc o n false] ∧ noFail pre = true) :=
  applyOpT_failSpec s abs op m

example : (applyOpT (.rem) [] (.setLen 10243) ⟨[1, 2], 2, 0, []⟩).2
    = [.call, .realloc 2 10243 false] := by decide

/-! ## frame -/

/-- **frame (raw accesses only; any refusal schedule).** Model the allocation as `data ++ slack`
(`cap = orig + 10240` bytes). Replaying the RAW accesses (realloc zero-fill and every `memmove`) of any op on
any canonical state — no `Calm` needed, so also under a refusal schedule — changes no byte of the allocation
at an index `≥ maxLen len evs` (the largest data length during the operation) and never changes the
allocation's size. The full-strength statement — raw accesses AND typed stores, `max len len'` — is `frame`
below (which assumes `Calm`); this one is kept for the states `frame` does not cover, hence `_partial`. -/
theorem frame_partial (s : Shape) (v : Val) (g : Good s v) (m : Mem) (hb : m.bytes = encode s v)
    (abs : List Step) (op : Op) (slack : List Nat)
    (hcap : (m.bytes ++ slack).length = m.orig + maxIncrease) :
    let evs := (applyOpT s abs op m).2
    let after := execEvs (m.bytes ++ slack, m.bytes.length) evs
    after.1.length = m.orig + maxIncrease ∧
    after.1.drop (maxLen m.bytes.length evs) = (m.bytes ++ slack).drop (maxLen m.bytes.length evs) ∧
    after.2 = lenAfter m.bytes.length evs := by
  have hl : m.bytes.length ≤ m.orig + maxIncrease := by
    rw [← hcap, List.length_append]; omega
  exact frame_core _ _ _ _ hcap hl (accesses_in_bounds s v g m hb hl abs op)

/-! ### frame at full strength: raw accesses AND typed stores -/

/-- The store-tracing op (`AccessStore.lean`: every `wr` of the byte machine is a `store` event — length
prefixes, list headers, offset entries, the header updates of `resize_notification` along the accessor chain,
initialisers, element / `DerefMut` stores) has the byte machine's own result and exactly the raw events of
`applyOpT`. -/
theorem stores_traced_is_machine (s : Shape) (abs : List Step) (op : Op) (m : Mem) :
    (applyOpS s abs op m).1 = applyOp s abs op m ∧ rawOf (applyOpS s abs op m).2 = (applyOpT s abs op m).2 :=
  ⟨applyOpS_fst s abs op m, applyOpS_raw s abs op m⟩

/-- **footprint_determines_bytes** (no store is missing, none is invented). For every op on ANY state:
replaying the complete event list of the store-tracing op on the old bytes — a granted realloc sets the
length (zero-fill / truncate), `move` is `memmove`, `store off v` writes `v` at `off` — yields exactly the
bytes the byte machine returns. So `frame` below speaks about everything the machine writes. -/
theorem footprint_determines_bytes (s : Shape) (abs : List Step) (op : Op) (m : Mem) :
    replayData m.bytes (applyOpS s abs op m).2 = (applyOp s abs op m).1.bytes := by
  rw [applyOpS_replays, applyOpS_fst]

/-- **complete_footprint_in_bounds.** Invariant state (canonical bytes of a well-formed value, `Calm`: no
scheduled refusal, `orig + 10240 < 2^32`, `len ≤ orig + 10240`), any accessor path, any op: EVERY access
of the op — each realloc, each `memmove`, and each typed store — lies inside `[0, len)` for the data length
`len` of that moment; the data length afterwards is what the reallocs announce and equals the byte machine's;
the largest data length during the op is `max len len'`. -/
theorem complete_footprint_in_bounds (s : Shape) (v : Val) (g : Good s v) (m : Mem) (hb : m.bytes = encode s v)
    (c : Calm m) (abs : List Step) (op : Op) :
    let x := applyOpS s abs op m
    evsOkS (m.orig + maxIncrease) m.bytes.length x.2 = true ∧
    lenAfter m.bytes.length (rawOf x.2) = x.1.1.bytes.length ∧
    maxLen m.bytes.length (rawOf x.2) = max m.bytes.length x.1.1.bytes.length ∧
    x.1.1.bytes.length ≤ m.orig + maxIncrease := by
  obtain ⟨L, h⟩ := applyOpS_ok s v g m hb c abs op
  exact ⟨h.ok, by rw [h.lenAfter, h.len], by rw [h.maxl, h.len], by rw [h.len]; exact h.cap⟩

/-- **frame.** Model the allocation as `data ++ slack` (`orig + 10240` bytes). Replaying the COMPLETE write
footprint of any op (raw accesses and typed stores) on any invariant state leaves every byte of the
allocation at an index `≥ max len len'` unchanged (`len` / `len'` = data length before / after the op),
keeps the allocation's size, and ends with data length `len'`. So no step writes the slack beyond the owned
range, let alone anything outside the allocation. (The stores are not traced by hook H3; their tie to the real
code is the byte-exact `bytes=` column of C01/C02 — same byte machine — plus the harness's frame bit under
guard pages.) -/
theorem frame (s : Shape) (v : Val) (g : Good s v) (m : Mem) (hb : m.bytes = encode s v) (c : Calm m)
    (abs : List Step) (op : Op) (slack : List Nat)
    (hcap : (m.bytes ++ slack).length = m.orig + maxIncrease) :
    let x := applyOpS s abs op m
    let len' := (applyOp s abs op m).1.bytes.length
    let after := execEvsS (m.bytes ++ slack, m.bytes.length) x.2
    after.1.length = m.orig + maxIncrease ∧
    after.1.drop (max m.bytes.length len') = (m.bytes ++ slack).drop (max m.bytes.length len') ∧
    after.2 = len' := by
  obtain ⟨L, h⟩ := applyOpS_ok s v g m hb c abs op
  have hl : m.bytes.length ≤ m.orig + maxIncrease := c.fitsNow
  obtain ⟨f1, f2, f3⟩ := frame_coreS _ _ _ _ hcap hl h.ok
  have hlen : (applyOp s abs op m).1.bytes.length = L := by rw [← applyOpS_fst]; exact h.len
  simp only [hlen]
  exact ⟨f1, by rw [← h.maxl]; exact f2, by rw [f3, h.lenAfter]⟩

/-- Non-vacuity: the depth-3 example with its stores — the table shift, the tail move, the shrink, then the
list's own header rewrites and the `unsized_size` / offset updates of the two enclosing lists. -/
example : (applyOpS exShape [.field 0, .elem 0] (.remove 0) exMem).2.length = 11 := by decide +kernel
example : evsOkS (exMem.orig + maxIncrease) exMem.bytes.length
    (applyOpS exShape [.field 0, .elem 0] (.remove 0) exMem).2 = true := by decide +kernel
/-- … and the checker rejects a store that reaches one byte past the data. -/
example : evsOkS 100 10 [.store 7 [1, 2, 3, 4]] = false := by decide

/-- With at most one granted realloc the largest data length is `max len len'`. -/
theorem maxLen_single (len new old : Nat) (pre post : List Ev)
    (hpre : ∀ ev ∈ pre, ∀ o n ok, ev ≠ .realloc o n ok) (hpost : ∀ ev ∈ post, ∀ o n ok, ev ≠ .realloc o n ok) :
    maxLen len (pre ++ .realloc old new true :: post) = max len new := by
  have h0 : ∀ (l : List Ev) (k : Nat), (∀ ev ∈ l, ∀ o n ok, ev ≠ .realloc o n ok) → maxLen k l = k := by
    intro l
    induction l with
    | nil => intro k _; rfl
    | cons e es ih =>
      intro k h
      cases e with
      | realloc o n ok => exact absurd rfl (h _ List.mem_cons_self o n ok)
      | call => exact ih k (fun ev hev => h ev (List.mem_cons_of_mem _ hev))
      | move d s n => exact ih k (fun ev hev => h ev (List.mem_cons_of_mem _ hev))
      | notify s n a b => exact ih k (fun ev hev => h ev (List.mem_cons_of_mem _ hev))
  induction pre with
  | nil => simp [maxLen, h0 post new hpost]
  | cons e es ih =>
    have hes : ∀ ev ∈ es, ∀ o n ok, ev ≠ .realloc o n ok := fun ev hev => hpre ev (List.mem_cons_of_mem _ hev)
    cases e with
    | realloc o n ok => exact absurd rfl (hpre _ List.mem_cons_self o n ok)
    | call => simpa [maxLen] using ih hes
    | move d s n => simpa [maxLen] using ih hes
    | notify s n a b => simpa [maxLen] using ih hes

/-- **No drift (grow).** Replaying the events of `add_bytes` on `data ++ slack` yields exactly the byte
machine's new data (followed by the untouched rest of the slack). -/
theorem add_bytes_replay (m m1 : Mem) (start amount : Nat) (h : m.addBytes start amount = (m1, .ok ()))
    (slack : List Nat) (hsl : amount ≤ slack.length) :
    execEvs (m.bytes ++ slack, m.bytes.length) (addBytesEvs m start amount)
      = (m1.bytes ++ slack.drop amount, m1.bytes.length) :=
  addBytes_replay m m1 start amount h slack hsl

/-- **No drift (shrink).** Replaying the events of `remove_bytes` yields the machine's new data; the
bytes that fall out of the data keep stale content; the slack is untouched. -/
theorem remove_bytes_replay (m m1 : Mem) (start stop : Nat) (h : m.removeBytes start stop = (m1, .ok ()))
    (slack : List Nat) :
    ∃ stale : List Nat, stale.length = stop - start ∧
      execEvs (m.bytes ++ slack, m.bytes.length) (removeBytesEvs m start stop)
        = (m1.bytes ++ stale ++ slack, m1.bytes.length) :=
  removeBytes_replay m m1 start stop h slack

example : execEvs ([2, 1, 2, 50, 51], 3) [.realloc 3 4 true, .move 3 2 1] = ([2, 1, 2, 2, 51], 4) := by decide

/-! ## ptrtree_nonempty -/

/-- **ptrtree_nonempty.** The pointer object `get_ptr` returns for any well-formed shape contains at
least one address that `check_pointers` tests (unit enum variants included: their `StartPointer` has one). -/
theorem ptrtree_nonempty (s : Shape) (hok : s.ok = true) (bs : List Nat) (base : Nat) (t : PtrTree) (n : Nat)
    (h : getPtr s bs base = .ok (t, n)) : addrs t ≠ [] :=
  solid_addrs t (getPtr_solid s hok bs base t n h)

/-- … and so does every sub-pointer of it (any subtree a program can name). -/
theorem subtree_nonempty (s : Shape) (hok : s.ok = true) (bs : List Nat) (base : Nat) (t q : PtrTree) (n : Nat)
    (p : List TStep) (h : getPtr s bs base = .ok (t, n)) (hq : subtreeAt t p = some q) : addrs q ≠ [] :=
  solid_addrs q (solid_subtreeAt p t q (getPtr_solid s hok bs base t n h) hq)

example : (getPtr (.enum [0, 7] [.unit, .list (.pod 1) 1]) [0] 100).toOption.map (fun x => addrs x.1)
    = some [100] := by decide

/-- **fresh_passes.** The pointer object `get_ptr` produces for a well-formed shape is ACCEPTED by
`check_pointers` against any range that starts at its base and holds its bytes (so the drop check and the
`debug_assert!`s never fire on a freshly taken accessor, and `swap_detected`'s premise "P1 valid for R1"
is satisfiable for every shape). -/
theorem fresh_passes (s : Shape) (hok : s.ok = true) (bs : List Nat) (base hi : Nat) (t : PtrTree) (n : Nat)
    (h : getPtr s bs base = .ok (t, n)) (hfit : base + n ≤ hi) : checkTop ⟨base, hi⟩ t = true := by
  obtain ⟨c, hc, _, _⟩ := freshOk_all s true false hok (isUnit_of_okAux_false s true hok) bs base t n h
    ⟨base, hi⟩ base (Nat.le_refl _) (Nat.le_refl _) hfit
  simp only [checkTop, hc]

/-- `get_ptr` consumes exactly the bytes `Codec.extent` announces (C04/C05 are about `extent`). -/
theorem get_ptr_extent (s : Shape) (bs : List Nat) (base : Nat) :
    (getPtr s bs base).map (·.2) = extent s bs := getPtr_extent s bs base

/-! ## swap_detected -/

/-- Two allocations that do not touch: one ends strictly before the other begins. (Disjoint half-open
ranges that are merely ADJACENT are not enough, see `swap_adjacent_rem_witness`.) -/
def Separated (R1 R2 : Rng) : Prop := R1.hi < R2.lo ∨ R2.hi < R1.lo

/-- **swap_detected (core).** `P1'` = `P1` with the sub-pointer at ANY path replaced by ANY pointer object
`Q` that is non-empty and all of whose addresses lie in `[R2.start, R2.end]` for an allocation `R2`
separated from `R1`: the drop check of buffer 1's top wrapper fails (`ExclusiveTopDrop::drop` panics), and
so does the `debug_assert!` at the head of `add_bytes` / `remove_bytes`. -/
theorem swap_detected_core (R1 R2 : Rng) (hsep : Separated R1 R2) (P1 P1' Q : PtrTree) (p : List TStep)
    (hne : addrs Q ≠ []) (hQ : ∀ a ∈ addrs Q, R2.lo ≤ a ∧ a ≤ R2.hi)
    (hrep : replaceAt P1 p Q = some P1') : checkTop R1 P1' = false := by
  obtain ⟨a, ha⟩ := List.exists_mem_of_ne_nil _ hne
  have hin := addrs_replaceAt p P1 Q P1' hrep a ha
  have hr := hQ a ha
  apply checkPointers_false R1 P1' R1.lo a hin
  rcases hsep with h | h
  · right; omega
  · left; omega

/-- **swap_detected.** Two buffers whose allocations `R1`, `R2` are separated; `P1`, `P2` the pointer
objects `get_ptr` yields for them (same or different shapes `s1`, `s2`, any bytes); `P1'` = `P1` with the
sub-pointer at `p1` replaced by the sub-pointer of `P2` at `p2` (what `mem::swap(&mut *a, &mut *b)` does to
buffer 1): `check_pointers` of `P1'` against `R1` fails. By symmetry the same holds for buffer 2. -/
theorem swap_detected (R1 R2 : Rng) (hsep : Separated R1 R2)
    (s1 s2 : Shape) (hok2 : s2.ok = true) (bs1 bs2 : List Nat) (P1 P2 Q P1' : PtrTree) (n1 n2 : Nat)
    (_h1 : getPtr s1 bs1 R1.lo = .ok (P1, n1))
    (h2 : getPtr s2 bs2 R2.lo = .ok (P2, n2)) (hfit2 : R2.lo + n2 ≤ R2.hi)
    (p1 p2 : List TStep) (hq : subtreeAt P2 p2 = some Q) (hrep : replaceAt P1 p1 Q = some P1') :
    checkTop R1 P1' = false := by
  apply swap_detected_core R1 R2 hsep P1 P1' Q p1 (subtree_nonempty s2 hok2 bs2 R2.lo P2 Q n2 p2 h2 hq) _ hrep
  intro a ha
  have := getPtr_range s2 bs2 R2.lo P2 n2 h2 a (addrs_subtreeAt p2 P2 Q hq a ha)
  omega

/-- **swap_detected (cached element pointer).** If the foreign sub-pointer sits inside the `inner_exclusive`
box of an `UnsizedListPtr` whose `possible_mut_borrow` flag is set (it is set by every `get_mut` /
`index_exclusive`, the only ways to reach that box), `check_inner_initialized` fails — at the list's next
`get` / `get_mut` / `index_exclusive` / `insert` / `remove` / `clear`, before the box is overwritten. -/
theorem swap_detected_inner (cw a len lo hi : Nat) (inner inner' Q : PtrTree) (p : List TStep)
    (hne : addrs Q ≠ []) (hQ : ∀ x ∈ addrs Q, x < lo ∨ hi < x)
    (hrep : replaceAt inner p Q = some inner') :
    checkInnerInitialized (.ulist cw a len lo hi (some inner') true) = false := by
  obtain ⟨x, hx⟩ := List.exists_mem_of_ne_nil _ hne
  simp only [checkInnerInitialized, ↓reduceIte]
  exact checkPointers_false ⟨lo, hi⟩ inner' lo x (addrs_replaceAt p inner Q inner' hrep x hx) (hQ x hx)

/-- **swap_detected (`set_data_inner`).** The unconditional check at the head of `set_from_owned` /
`set_from_init` (`wrapper.rs` 693–699, added after defect D3a) fails on any node whose pointer subtree
contains the foreign sub-pointer — before `data_len` is read through it. -/
theorem swap_detected_set_data (R1 R2 : Rng) (hsep : Separated R1 R2) (node node' Q : PtrTree) (p : List TStep)
    (hne : addrs Q ≠ []) (hQ : ∀ a ∈ addrs Q, R2.lo ≤ a ∧ a ≤ R2.hi)
    (hrep : replaceAt node p Q = some node') : (checkPointers R1 node' R1.lo).1 = false :=
  swap_detected_core R1 R2 hsep node node' Q p hne hQ hrep

/-- **Run level.** In the pointer machine the driver executes, a buffer whose top pointer object contains a
foreign sub-pointer answers `panic@drop` at its `end` (and at `reborrow`): the run reaches a panic no later
than the drop of the top wrapper. -/
theorem end_panics (w : PtrM.World) (x : PtrM.Which) (R2 : Rng) (P1 Q : PtrTree) (p : List TStep)
    (hsep : Separated (w.get x).rng R2) (hne : addrs Q ≠ []) (hQ : ∀ a ∈ addrs Q, R2.lo ≤ a ∧ a ≤ R2.hi)
    (hroot : replaceAt P1 p Q = some (w.get x).root) :
    (PtrM.endBuf w x).2 = false := by
  simp only [PtrM.endBuf]
  exact swap_detected_core _ R2 hsep P1 _ Q p hne hQ hroot

/-- Why "separated" and not merely "disjoint": `RemainingBytesPtr::check_pointers` accepts
`range.start..=range.end` (fix 46b2e18, so that an empty tail may sit at the very end). If buffer 2's
allocation began exactly where buffer 1's ends, a `RemainingBytes` pointer at the start of buffer 2 would
pass buffer 1's check. Account allocations are never adjacent (the runtime puts `rent_epoch` and the next
account's 88-byte header between them), heap allocations of the test buffer neither. -/
theorem swap_adjacent_rem_witness :
    ∃ (R1 R2 : Rng) (Q : PtrTree), R1.hi ≤ R2.lo ∧ addrs Q ≠ [] ∧ (∀ a ∈ addrs Q, R2.lo ≤ a ∧ a < R2.hi) ∧
      checkTop R1 Q = true :=
  ⟨⟨0, 100⟩, ⟨100, 200⟩, .leaf .rem 100, by decide, by decide, by decide, by decide⟩

/-- Non-vacuity: two buffers of the depth-3 shape, the inner `UnsizedList` pointers swapped. -/
def exP1 : PtrTree := ((getPtr exShape (encode exShape exVal) 1000).toOption.map (·.1)).getD (.node [])
def exP2 : PtrTree := ((getPtr exShape (encode exShape exVal) 50000).toOption.map (·.1)).getD (.node [])
example : checkTop ⟨1000, 1000 + 60 + 10240⟩ exP1 = true := by decide
example : checkTop ⟨50000, 50000 + 60 + 10240⟩ exP2 = true := by decide
example : ((subtreeAt exP2 [.kid 1]).bind fun q => replaceAt exP1 [.kid 1] q).map
    (checkTop ⟨1000, 1000 + 60 + 10240⟩) = some false := by decide
example : ((subtreeAt exP2 [.kid 2]).bind fun q => replaceAt exP1 [.kid 2] q).map
    (checkTop ⟨1000, 1000 + 60 + 10240⟩) = some false := by decide

/-! ## ptrs_fresh (proved by b-machine about the definitions of `Unsized/PtrTree.lean`; files `Unsized/Ptr.lean`,
`PtrFresh.lean`, `PtrChain.lean`, `PtrChainNotify.lean`, `PtrChainNav.lean`) -/

/-- `get_ptr` on canonical bytes is the value-level tree `treeOf` (what "a fresh parse would produce"). -/
theorem get_ptr_canonical (s : Shape) (v : Val) (rest : List Nat) (base : Nat) (g : Good s v)
    (ht : rest = [] ∨ s.zst = false) :
    getPtr s (encode s v ++ rest) base = .ok (Unsized.Ptr.treeOf s v base, size s v) :=
  Unsized.Ptr.getPtr_encode s v rest base g ht

/-- **ptrs_fresh_notify (one notification).** `chainOf s v b p` is the top pointer object after taking the live
accessors along `p` on canonical bytes of `v` (every `UnsizedList` on the way holds the cached, armed
pointer of the entered element; everything else is `get_ptr` of its bytes). When the sub-value at `p`
changes its size by `±amt` (bytes after the move, enclosing headers still stale — the snapshot of the
`notify` event), the `resize_notification` broadcast turns it into `chainOf` of the NEW value: every live
pointer, cached inner pointers included, equals a fresh `get_ptr` of the new bytes at its place.

This is the notification step on its own, for every shape / value / path (hypothesis `hself`: the resized
node's own pointer reacts correctly to its own notification — discharged for leaf pointers and lists by
`Ptr.self_notify_leaf/_ulist/_umap`). Its composition with the prologue / epilogue of the pointer machine
into an invariant of runs is `ptrs_fresh` below. -/
theorem ptrs_fresh_notify (p : List Step) (s : Shape) (v : Val) (t : Shape) (u u' : Val) (g : Good s v)
    (hu : s ≠ .unit) (hz : s.zst = false) (g' : Good s (subst s v p u')) (h : resolve s v p = .ok (t, u))
    (pre post : List Nat) (b src : Nat) (neg : Bool) (amt : Nat)
    (hb : b = pre.length) (hX : (encode t u').length = applyDelta neg amt (encode t u).length)
    (hneg : neg = true → amt ≤ (encode t u).length) (hsrc : src = b + offsetOf s v p)
    (hlim : b + (encode s v).length + amt < Shape.usizeLim)
    (usz : Nat → Nat)
    (husz : usz = (fun a => rd32 (pre ++ splice (encode s v) (offsetOf s v p) (encode t u).length (encode t u') ++ post) a))
    (hself : resizeNotify usz src neg amt (Unsized.Ptr.treeOf t u src) = some (Unsized.Ptr.treeOf t u' src)) :
    resizeNotify usz src neg amt (Unsized.Ptr.chainOf s v b p)
      = some (Unsized.Ptr.chainOf s (subst s v p u') b p) :=
  Unsized.Ptr.ptrs_fresh p s v t u u' g hu hz g' h pre post b src neg amt hb hX hneg hsrc hlim usz husz hself

/-- The pointer machine's navigation (`locTree`) finds, at every live depth, exactly the chain of that
sub-value: live levels designate the sub-values at their paths. -/
theorem live_levels_located (s : Shape) (v : Val) (q r : List Step) (tq : Shape) (uq : Val) (t : Shape) (u : Val)
    (b : Nat) (g : Good s v) (hq : resolve s v q = .ok (tq, uq)) (hr : resolve tq uq r = .ok (t, u)) :
    ∃ tp, PtrM.locTree s (Unsized.Ptr.chainOf s v b (q ++ r)) q
      = some (tp, tq, Unsized.Ptr.chainOf tq uq (b + offsetOf s v q) r) :=
  Unsized.Ptr.locTree_chainOf s v q r tq uq t u b g hq hr

/-! ### ptrs_fresh for runs of the pointer machine (b-machine, `Unsized/PtrHonest*.lean`) -/

/-- The pointer-machine invariant holds right after `ExclusiveWrapper::new` (the state the driver's `mkBuf`
builds: canonical bytes, `top_mut = get_ptr`, one live level). -/
theorem ptrs_fresh_init (s : Shape) (v : Val) (base : Nat) (B : PtrM.PBuf) (hok : s.ok = true)
    (hnd : ∀ d i, s ≠ .disc d i) (hwf : WF s v = true)
    (hsmall : (encode s v).length + maxIncrease < Shape.u32Lim)
    (hfar : (encode s v).length + maxIncrease ≤ base)
    (hbig : base + 2 * ((encode s v).length + maxIncrease) < Shape.usizeLim) :
    Unsized.Ptr.PInv s ⟨⟨⟨encode s v, (encode s v).length, 0, []⟩, base, Unsized.Ptr.treeOf s v base, [[]], false, false⟩, B⟩ v :=
  Unsized.Ptr.pinv_init s v base B hok hnd hwf hsmall hfar hbig

/-- **ptrs_fresh (runs).** `PInv s w v`: buffer A of the world holds the canonical bytes of `v`, and its top
pointer object is HONEST for `v` along every live level — every pointer on the chain of live accessors,
every cached `inner_exclusive` pointer included, equals `get_ptr` of the current bytes at its place (or is a
uniformly shifted stale cache that lies inside its list's range), and `locTree` finds each live level.
From such a world, after ANY history of `enter` / `leave` / `reborrow` / op lines — EVERY op of the op
language, the composite ones (`UnsizedString::set`, `Set/Map::insert_all`) included — executed by the functions
the C03 driver runs (`PtrM.execEnter/execLeave/execReborrow/execOp`, i.e. `walk`, `runPre`, `runEvs`, `opAt`;
buffer A, `keepBad = false` = a plain case), the invariant holds again and NO line panicked.

Side conditions (`HistOkP`, at every op line): `NodeOk` = C01's `CmdOk` at node level, required of the
single-resize ops only (a successful model step stays below `orig + 10240`; a failing one is not the
registered "initialiser fails behind the resize" finding) — the composite ops need nothing: every exit of
theirs, the registered half-way error exits included, keeps the invariant for the partially updated value —
and, for `UnsizedMap::insert` on an existing key only,
that `PtrM.startAddr` of the element pointer is defined (it looks two struct levels deep; true for every
curated shape). `PInv` carries the address assumptions `orig + 10240 ≤ base`, `base + 2·(orig + 10240) < 2^64`
and "the top shape is not an `AccountDiscriminant` wrapper". Proved by b-machine (`Unsized/PtrHonest*.lean`,
using `applyAtT_len_exact`). -/
theorem ptrs_fresh (s : Shape) (cmds : List Cmd) (w : PtrM.World) (v : Val)
    (inv : Unsized.Ptr.PInv s w v) (hok : Unsized.Ptr.HistOkP s w cmds) :
    (∀ a ∈ (Unsized.Ptr.prun s w cmds).2, Unsized.Ptr.isPanic a = false) ∧
    ∃ v', Unsized.Ptr.PInv s (Unsized.Ptr.prun s w cmds).1 v' :=
  Unsized.Ptr.ptrs_fresh_history s cmds w v inv hok

/-- One line (the induction step of `ptrs_fresh`). -/
theorem ptrs_fresh_step {s : Shape} {w : PtrM.World} {v : Val} (inv : Unsized.Ptr.PInv s w v) (c : Cmd)
    (hok : Unsized.Ptr.LineOk s w c) :
    Unsized.Ptr.isPanic (Unsized.Ptr.pstep s w c).2 = false ∧ ∃ v', Unsized.Ptr.PInv s (Unsized.Ptr.pstep s w c).1 v' :=
  Unsized.Ptr.ptrs_fresh_step inv c hok

/-- **checkTop_passes.** Honest histories never trip the pointer checks: after any history as above,
`check_pointers` of the top pointer object against the allocation range is `true` — so neither the
`debug_assert!`s at the head of `add_bytes` / `remove_bytes` nor `ExclusiveTopDrop::drop` fire (`X end` answers
`ok`), in contrast to `swap_detected`. (Same `HistOkP` side conditions as `ptrs_fresh`.) -/
theorem checkTop_passes (s : Shape) (cmds : List Cmd) (w : PtrM.World) (v : Val)
    (inv : Unsized.Ptr.PInv s w v) (hok : Unsized.Ptr.HistOkP s w cmds) :
    checkTop (Unsized.Ptr.prun s w cmds).1.a.rng (Unsized.Ptr.prun s w cmds).1.a.root = true
    ∧ (PtrM.endBuf (Unsized.Ptr.prun s w cmds).1 .A).2 = true :=
  Unsized.Ptr.checkTop_passes s cmds w v inv hok

/-! ## The valid range a wrapper is given IS the allocation — after every resize history

`PtrM.PBuf.rng` (what `check_pointers` is run against in every theorem above) is
`base .. base + orig + 10240` BY DEFINITION; what makes that the right model of the code is (1) no op changes
`orig` (`range_fixed`), and (2) the real `AccountInfo::data_mut` (wrapper.rs 76–88; modelled with its
`i64` arithmetic, the borrow byte and pinocchio's `resize_delta` bookkeeping in `Unsized/Runtime.lean`, the
model of C07) returns exactly this range for every new exclusive borrow, whatever grows and shrinks earlier
borrows of the same instruction performed (`account_range_exact`). The harness observes the range of every
new top wrapper (`rng=` on `reborrow` lines, gate `wrapper_range_not_allocation`). -/

/-- **range_fixed.** No op changes the original length, hence the valid range of the buffer: for every op
on an invariant state, the `PBuf` with the op's resulting memory has the same `rng`. -/
theorem range_fixed (s : Shape) (v : Val) (g : Good s v) (m : Mem) (hb : m.bytes = encode s v) (c : Calm m)
    (abs : List Step) (op : Op) (X : PtrM.PBuf) (hX : X.mem = m) :
    (applyOpT s abs op m).1.1.orig = m.orig ∧
    ({ X with mem := (applyOpT s abs op m).1.1 } : PtrM.PBuf).rng = X.rng := by
  obtain ⟨L, h⟩ := applyOpS_ok s v g m hb c abs op
  have ho : (applyOpT s abs op m).1.1.orig = m.orig := by
    have := h.orig
    rwa [applyOpS_fst, ← applyOpT_fst] at this
  refine ⟨ho, ?_⟩
  simp only [PtrM.PBuf.rng, ho, hX]

/-- **account_range_exact.** Over the runtime model of `AccountInfo` (C07's machine: any history of
`borrow_mut` / `borrow` / `release` / `grow` / `shrink` — refused borrows and refused growths included — from a
fresh account): in every reachable state, whenever `data_mut` grants the exclusive borrow, the range it
returns is `base .. base + original_len + 10240` — the `rng` of the pointer machine's buffer with that base
and original length — independent of the current length and of the accumulated `resize_delta`; the slice
length is the current length; and a live wrapper holds that same range. -/
theorem account_range_exact {st : Unsized.Runtime.State} (h : Unsized.C07.Reachable st) (X : PtrM.PBuf)
    (hbase : X.base = st.acct.base) (horig : X.mem.orig = st.acct.orig) :
    (∀ a' dlen lo hi, Unsized.Runtime.dataMut st.acct = (a', .ok (dlen, lo, hi)) →
      X.rng = ⟨lo, hi⟩ ∧ hi = st.acct.base + st.acct.orig + 10240 ∧ dlen = st.acct.len) ∧
    (∀ w, st.excl = some w → X.rng = ⟨w.lo, w.hi⟩) := by
  have hi := Unsized.C07.reachable_inv h
  have hr : X.rng = ⟨st.acct.base, st.acct.base + st.acct.orig + 10240⟩ := by
    simp only [PtrM.PBuf.rng, hbase, horig, maxIncrease]
  refine ⟨?_, fun w hw => ?_⟩
  · intro a' dlen lo hi' hd
    by_cases hf : st.acct.borrow % 16 = 15
    · rw [Unsized.Runtime.dataMut_ok hi.acct hi.bLt hf] at hd
      simp only [Prod.mk.injEq, Unsized.Runtime.Res.ok.injEq] at hd
      obtain ⟨_, h1, h2, h3⟩ := hd
      subst h1 h2 h3
      exact ⟨hr, rfl, rfl⟩
    · rw [Unsized.Runtime.dataMut_refused hi.bLt hf] at hd
      simp at hd
  · obtain ⟨h1, h2, _, _⟩ := hi.wrap w hw
    rw [hr, h1, h2]

/-- Non-vacuity, and what the formula must NOT be: after `borrow_mut; grow a by 300; release` of the account
`d7` (`orig = 20016`) the next `data_mut` returns `len = 20316` and the range end `base + 30256 =
base + orig + 10240` — not `base + len + 10240 = base + 30556` (the formula without `- resize_delta`, red-team
mutant `bonus-resize-delta-range`), under which the first 300 bytes behind the allocation — the next account's
header and data — would count as "inside". -/
def d7Grown : Unsized.Runtime.State :=
  (Unsized.Runtime.run Unsized.C07.d7 [.borrowMut, .grow 0 300, .release 0]).1
def grantedRange (a : Unsized.Runtime.Acct) : Option (Nat × Nat × Nat) :=
  match (Unsized.Runtime.dataMut a).2 with
  | .ok r => some r
  | _ => none
example : grantedRange d7Grown.acct = some (20316, 1048576, 1048576 + 20016 + 10240) := by decide
example : d7Grown.acct.delta = 300 ∧ d7Grown.acct.base + d7Grown.acct.len + 10240 = 1048576 + 30556 := by decide
example : Unsized.C07.Reachable d7Grown := ⟨Unsized.C07.d7, _, ⟨⟨1048576, true, [.list, .list], [2000, 18000], 20016, rfl,
  by simp [Unsized.Runtime.LayoutOK, Unsized.Runtime.Kind.width], by decide, by decide⟩⟩, rfl⟩

end Unsized.C03
