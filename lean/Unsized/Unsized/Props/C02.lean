import Unsized.Props.C01
/-!
# C02 — Stored bytes are always the canonical serialization, with exact length

Same model as C01 (`Unsized/Machine*.lean`, executed by `c02_model`). `absVal` of a machine state is the
owned-model value carried by the refinement invariant `Inv`; `encode` is the model of
`FromOwned::from_owned`, `size` of `FromOwned::byte_size` (`Unsized/Codec.lean`, tied to the real
serializer by C05).
-/
namespace Unsized.C02
open Common Unsized Unsized.Text Unsized.Machine

/-- **After every step** (every op of the op language, any shape / depth; side conditions `CmdOk` =
headroom and not one of the two known-finding classes) the buffer is byte-for-byte the serialization of the current
logical value and the reported length is its serialized size. -/
theorem bytes_canonical (s : Shape) (vs : VState) (ms : State) (inv : Inv s vs ms) (cmd : Cmd)
    (hcmd : CmdOk s vs ms.mem.orig cmd) :
    (step s ms cmd).1.mem.bytes = encode s (stepV s vs cmd).1.val
    ∧ (step s ms cmd).1.mem.bytes.length = size s (stepV s vs cmd).1.val := by
  obtain ⟨_, h2, h3, _⟩ := Unsized.C01.step_refines s vs ms inv cmd hcmd
  exact ⟨h2, h3⟩

/-- … and after any finite history. -/
theorem bytes_canonical_history (s : Shape) (v : Val) (hok : s.ok = true) (hwf : WF s v = true)
    (hsmall : (encode s v).length + maxIncrease < Shape.u32Lim) (cmds : List Cmd)
    (hh : HistOk s (encode s v).length ⟨v, [[]]⟩ cmds) :
    (runM s (Unsized.C01.load s v) cmds).1.mem.bytes = encode s (runS s ⟨v, [[]]⟩ cmds).1.val
    ∧ (runM s (Unsized.C01.load s v) cmds).1.mem.bytes.length = size s (runS s ⟨v, [[]]⟩ cmds).1.val := by
  obtain ⟨_, h2⟩ := run_inv s cmds ⟨v, [[]]⟩ (Unsized.C01.load s v) (Unsized.C01.load_inv s v hok hwf hsmall)
    (by simpa [Unsized.C01.load, State.init] using hh)
  exact ⟨h2.bytes, by rw [h2.bytes, encode_size_all _ _ h2.good.valid]⟩

/-- **No stale metadata**: every redundant field of a list of unsized elements is a function of the
logical value — `unsized_size` is the sum of the element sizes, both copies of `len` are the element
count, and the offset table holds the running sums of the element sizes. (So the trailing `len` copy,
which the framework's own reader never consults, cannot disagree in a canonical buffer.) -/
theorem no_stale_metadata (e : Shape) (vs : List Val) :
    encode (.ulist e) (.useq vs)
      = leN 4 ((vs.map fun v => (encode e v).length).sum) ++ leN 4 vs.length
        ++ ((offsets (vs.map fun v => (encode e v).length) 0).map (leN 4)).flatten
        ++ leN 4 vs.length ++ (vs.map (encode e)).flatten := by
  simp only [encode, List.map_map]; rfl

/-- The same for `UnsizedMap` (entries `le32 offset ++ key`). -/
theorem no_stale_metadata_umap (kw : Nat) (e : Shape) (es : List (List Nat × Val)) :
    encode (.umap kw e) (.umap es)
      = leN 4 ((es.map fun kv => (encode e kv.2).length).sum) ++ leN 4 es.length
        ++ (List.zipWith (fun o (kv : List Nat × Val) => leN 4 o ++ kv.1)
              (offsets (es.map fun kv => (encode e kv.2).length) 0) es).flatten
        ++ leN 4 es.length ++ (es.map fun kv => encode e kv.2).flatten := by
  simp only [encode, List.map_map]; rfl

/-- Non-vacuity: the C01 example history ends in a canonical buffer of the announced size. -/
example : (runM Unsized.C01.exS (Unsized.C01.load Unsized.C01.exS Unsized.C01.exV) Unsized.C01.exH).1.mem.bytes.length
    = size Unsized.C01.exS (runS Unsized.C01.exS ⟨Unsized.C01.exV, [[]]⟩ Unsized.C01.exH).1.val := by
  decide +kernel

end Unsized.C02
