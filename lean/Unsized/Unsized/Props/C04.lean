import Unsized.Codec
namespace Unsized.C04
open Unsized
theorem placeholder : True := trivial
end Unsized.C04
