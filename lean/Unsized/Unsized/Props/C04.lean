import Unsized.CodecLemmasTop
/-!
# C04 — Safe parsing of arbitrary bytes is memory-safe and never admits invalid values

For ALL byte lists and ALL shapes (no well-formedness assumption on either, arbitrary nesting).
The definitions are those of `Unsized/Codec.lean` that the driver `c04_model` executes:
`extent` = `get_ptr`, `decode` = `UnsizedType::owned` (= client `deserialize_type`),
`viewTop m` = wrapper construction + full walk by `get(i)` / `get_mut(i)` / iteration,
`deserializeAccount` = client `deserialize_account`. `E.ub` is the outcome of an out-of-bounds
raw read (`rawSlice`: every `slice::from_raw_parts` / DST-pointer dereference of the real code).
-/
namespace Unsized.C04
open Unsized Common

/-- The extent `get_ptr` reports lies inside the input. -/
theorem parse_extent (s : Shape) (bs : List Nat) (n : Nat) (h : extent s bs = .ok n) :
    n ≤ bs.length := (extP_all s bs).2 n h

/-- … and so does the extent of every successful owned conversion / view. -/
theorem decode_extent (s : Shape) (bs : List Nat) (v : Val) (n : Nat)
    (h : decode s bs = .ok (v, n)) : n ≤ bs.length :=
  parse_extent s bs n ((decode_ok_iff s bs v n).1 h).1

theorem view_extent (m : Mode) (s : Shape) (bs : List Nat) (v : Val) (n : Nat)
    (h : viewTop m s bs = .ok (v, n)) : n ≤ bs.length := by
  unfold viewTop at h
  cases hx : extent s bs with
  | error e => rw [hx] at h; simp at h
  | ok k =>
    rw [hx] at h
    simp only [] at h
    cases hy : view m s bs with
    | error e => rw [hy] at h; simp at h
    | ok w => rw [hy] at h; simp at h; rw [← h.2]; exact parse_extent s bs k hx

example : extent (.ulist (.list (.pod 1) 4)) d4Input = .ok 25 :=
  (okExtent_iff _ _).1 (by decide)

/-- A produced owned value is valid: every record has its width, every `bool` byte is 0/1, every
C-like enum byte and every enum discriminant is a known one, strings are UTF-8, set/map keys are
strictly increasing (`valid`). -/
theorem parse_valid (s : Shape) (bs : List Nat) (v : Val) (n : Nat) (hwf : BytesWF bs)
    (h : decode s bs = .ok (v, n)) : valid s v = true := by
  obtain ⟨h1, h2⟩ := (decode_ok_iff s bs v n).1 h
  exact pv_all s bs hwf n h1 v h2

/-- Every value a view walk exposes — through `get(i)`, `get_mut(i)` or iteration, at any nesting
depth — has valid bit patterns: right widths, `bool` bytes 0/1, known C-like enum bytes and enum
discriminants, UTF-8 strings (`bitsOk` = `valid` without the key-order requirement, since views
show containers in stored order). -/
theorem view_valid (m : Mode) (s : Shape) (bs : List Nat) (v : Val) (n : Nat)
    (h : viewTop m s bs = .ok (v, n)) : bitsOk s v = true := by
  unfold viewTop at h
  cases hx : extent s bs with
  | error e => rw [hx] at h; simp at h
  | ok k =>
    rw [hx] at h
    simp only [] at h
    cases hy : view m s bs with
    | error e => rw [hy] at h; simp at h
    | ok w => rw [hy] at h; simp at h; rw [← h.1]; exact vv_all s m bs k hx w hy

/-- Client `deserialize_account` likewise. -/
theorem client_parse_valid (d : List Nat) (inner : Shape) (bs : List Nat) (v : Val) (n : Nat)
    (hwf : BytesWF bs) (h : deserializeAccount d inner bs = .ok (v, n)) :
    valid inner v = true ∧ n ≤ bs.length ∧ bs.take d.length = d := by
  by_cases h1 : d.length ≤ bs.length
  · by_cases hd : bs.take d.length = d
    · simp only [deserializeAccount, checkDiscriminant, if_pos h1, hd, if_true] at h
      have hv := parse_valid _ bs v n hwf h
      exact ⟨by cases v <;> simpa [valid] using hv, decode_extent _ bs v n h, hd⟩
    · simp [deserializeAccount, checkDiscriminant, h1, hd] at h
  · simp [deserializeAccount, checkDiscriminant, h1] at h

/-- An invalid `bool` is never admitted: the owned conversion of `List<bool>` bytes `01 02` errs. -/
example : decode (.list .bool 1) [1, 2] = .error .checkedCast := (failsWith_iff _ _).1 (by decide)
example : viewTop .get (.list .bool 1) [1, 2] = .error .panic := (failsWith_iff _ _).1 (by decide)
example : decode (.enum [0, 5] [.unit, .rem]) [4] = .error .invalidData :=
  (failsWith_iff _ _).1 (by decide)

/-- No read-side API ever performs an out-of-bounds raw read, on any input: `get_ptr`, the owned
conversion, and the full walk through shared views (`get(i)`), exclusive views (`get_mut(i)`)
and iteration all end in a value, an error or a controlled panic — never `E.ub`. -/
theorem reads_in_bounds (s : Shape) (bs : List Nat) :
    extent s bs ≠ .error .ub ∧ decode s bs ≠ .error .ub ∧ ∀ m, viewTop m s bs ≠ .error .ub :=
  ⟨(extP_all s bs).1, decode_ne_ub s bs, fun m => viewTop_ne_ub m s bs⟩

/-- Client `deserialize_account` likewise. -/
theorem client_reads_in_bounds (d : List Nat) (inner : Shape) (bs : List Nat) :
    deserializeAccount d inner bs ≠ .error .ub := by
  by_cases h1 : d.length ≤ bs.length
  · by_cases hd : bs.take d.length = d
    · simp only [deserializeAccount, checkDiscriminant, if_pos h1, hd, if_true]
      exact decode_ne_ub _ bs
    · simp [deserializeAccount, checkDiscriminant, h1, hd]
  · simp [deserializeAccount, checkDiscriminant, h1]

/-- Non-vacuity of `E.ub`: the iterator as it was BEFORE the fix (`elemsUnchecked`: a raw slice at
the stored offsets with no check) does read out of bounds on the 25-byte input of DESIGN.md D4,
while the current iterator answers `PointerOutOfBounds` on the same bytes. -/
theorem iter_unchecked_ub_witness : iterUncheckedListU8 d4Input = .error .ub :=
  (failsWith_iff _ _).1 (by decide)

theorem iter_checked_on_witness :
    viewTop .iter (.ulist (.list (.pod 1) 4)) d4Input = .error .oob := (failsWith_iff _ _).1 (by decide)

end Unsized.C04
