import Unsized.CodecLemmasTop
/-!
# C05 — Serialize / initialize / deserialize round trip with exact size accounting

All statements are about the definitions of `Unsized/Codec.lean` that the model driver
`c05_model` executes; they hold for ALL shapes (arbitrary nesting), values and initializer
arguments. `Shape.ok` = the shapes rustc accepts; `WF s v` = `valid s v ∧ fits s v` = what the
Rust owned type can hold and `from_owned` can write (counts fit their prefix type).
-/
namespace Unsized.C05
open Unsized Common

/-- Announced size = bytes written: `|encode s v| = byte_size`. -/
theorem encode_size (s : Shape) (v : Val) (hv : valid s v = true) :
    (encode s v).length = size s v := encode_size_all s v hv

example : ∃ s v, valid s v = true ∧ size s v = 25 :=
  ⟨.ulist (.list (.pod 1) 1), .useq [.seq [[1], [2]], .seq [[3]]], by decide, by decide⟩

/-- `from_owned` into any buffer of at least `byte_size` bytes writes exactly `encode s v` and
returns exactly the announced `byte_size` (announced = returned = written, by `encode_size`). -/
theorem from_owned_exact (s : Shape) (v : Val) (cap : Nat) (hwf : WF s v = true)
    (hcap : size s v ≤ cap) : fromOwned s v cap = .ok (encode s v, size s v) := by
  simp only [WF, Bool.and_eq_true] at hwf
  simp [fromOwned, fitsP_all s v hwf.2, hwf.2, Nat.not_lt.2 hcap]

/-- A `List`/`Set`/`Map`/`UnsizedString` whose element count does not fit its length type makes
`from_owned` return `ToPrimitiveError` (it used to panic: fixed in /repo) — provided the buffer
holds the `p` bytes written before that list is reached; with a shorter buffer an earlier advance
fails first (`AdvanceError`). In particular `serialize_type` / `TestByteSet::new`, which allocate
`byte_size` bytes, report `ToPrimitiveError`. -/
theorem from_owned_overflow (s : Shape) (v : Val) (cap p : Nat) (hp : unfitPos s v = some p) :
    fromOwned s v cap = if p ≤ cap then .error .toPrimitive else .error .advancer := by
  simp [fromOwned, hp]

example (es : List (List Nat)) (h : 256 ≤ es.length) :
    unfitPos (.list (.pod 1) 1) (.seq es) = some 0 := by
  simp [unfitPos]; omega
example (es : List (List Nat)) (h : 256 ≤ es.length) :
    unfitPos (.ulist (.list (.pod 1) 1)) (.useq [.seq [[1]], .seq es]) = some 22 := by
  have : ¬ es.length < 256 := by omega
  simp [unfitPos, firstUnfit, size, Fixed.size, this]

/-- `get_ptr` on the serialized bytes (followed by anything) covers exactly the announced size. -/
theorem extent_encode (s : Shape) (v : Val) (rest : List Nat) (hok : s.ok = true)
    (hwf : WF s v = true) (htail : rest = [] ∨ s.zst = false) :
    extent s (encode s v ++ rest) = .ok (size s v) := by
  simp only [WF, Bool.and_eq_true] at hwf
  exact (roundTrip_all s true false hok v rest hwf.1 hwf.2 htail).1

/-- Deserializing the serialized bytes yields the value and consumes exactly the announced size,
leaving `rest`. The tail caveat, exactly: if the shape ends in `RemainingBytes` (`s.zst`), the
statement is for `rest = []` only, since trailing bytes ARE part of such a value. -/
theorem decode_encode (s : Shape) (v : Val) (rest : List Nat) (hok : s.ok = true)
    (hwf : WF s v = true) (htail : rest = [] ∨ s.zst = false) :
    decode s (encode s v ++ rest) = .ok (v, size s v) := by
  simp only [WF, Bool.and_eq_true] at hwf
  have := roundTrip_all s true false hok v rest hwf.1 hwf.2 htail
  exact (decode_ok_iff s _ v _).2 this

example : ∃ s v, s.ok = true ∧ WF s v = true ∧ s.zst = false :=
  ⟨.struct [.bool] [.map 1 (.pod 1) 1, .enum [0, 7] [.unit, .ulist (.str 1)]],
   .record [1] [.seq [[1, 9], [2, 8]], .variant 1 (.useq [.bytes [104, 105]])],
   by decide, by decide, by decide⟩

/-- `INIT_BYTES` = bytes written by `init`. -/
theorem init_size (s : Shape) (a : Init) (hok : s.ok = true) (ha : initOk s a = true) :
    (initBytes s a).length = initSize s a := by
  obtain ⟨h1, h2, h3⟩ := initP_all s a ha
  rw [h1, h2]
  exact encode_size_all s _ (h3 true false hok)

/-- The initialized bytes are the serialization of the value the initializer denotes … -/
theorem init_encodes (s : Shape) (a : Init) (ha : initOk s a = true) :
    initBytes s a = encode s (denote s a) := (initP_all s a ha).1

/-- … and parse back to it, consuming exactly `INIT_BYTES`. (`hf`: the array lengths fit the
length prefix — otherwise the real `init` returns `ToPrimitiveError` instead of writing.) -/
theorem init_denotes (s : Shape) (a : Init) (hok : s.ok = true) (ha : initOk s a = true)
    (hf : fits s (denote s a) = true) :
    decode s (initBytes s a) = .ok (denote s a, initSize s a) := by
  obtain ⟨h1, h2, h3⟩ := initP_all s a ha
  have hv := h3 true false hok
  have := decode_encode s (denote s a) [] hok (by simp [WF, hv, hf]) (Or.inl rfl)
  rw [List.append_nil] at this
  rw [h1, h2]; exact this

example : ∃ s a, s.ok = true ∧ initOk s a = true ∧ fits s (denote s a) = true ∧ initSize s a = 26 :=
  ⟨.ulist (.list (.pod 1) 1), .uarray [.array [[1], [2]], .array [[3], [4]]],
   by decide, by decide, by decide, by decide⟩

/-- Client helpers: `serialize_account` writes the discriminant then the value into exactly
`byte_size` bytes, and `deserialize_account` of those bytes returns the value. -/
theorem account_roundtrip (d : List Nat) (inner : Shape) (v : Val)
    (hok : (Shape.disc d inner).ok = true) (hwf : WF inner v = true) :
    serializeAccount d inner v = .ok (d ++ encode inner v)
      ∧ (d ++ encode inner v).length = size inner v + d.length
      ∧ deserializeAccount d inner (d ++ encode inner v) = .ok (v, size inner v + d.length) := by
  have hwf' : WF (.disc d inner) v = true := by
    simp only [WF, Bool.and_eq_true] at hwf ⊢
    constructor
    · cases v <;> simpa [valid] using hwf.1
    · cases v <;> simpa [fits] using hwf.2
  have e1 : encode (.disc d inner) v = d ++ encode inner v := by cases v <;> rfl
  have e2 : size (.disc d inner) v = size inner v + d.length := by cases v <;> rfl
  have hdec := decode_encode (.disc d inner) v [] hok hwf' (Or.inl rfl)
  rw [List.append_nil, e1, e2] at hdec
  have hlen := encode_size (.disc d inner) v (by simp only [WF, Bool.and_eq_true] at hwf'; exact hwf'.1)
  rw [e1, e2] at hlen
  refine ⟨?_, hlen, ?_⟩
  · have := from_owned_exact (.disc d inner) v (size (.disc d inner) v) hwf' (Nat.le_refl _)
    simp only [serializeAccount, this, e1]
  · have h1 : d.length ≤ (d ++ encode inner v).length := by simp
    have h2 : (d ++ encode inner v).take d.length = d := List.take_left' rfl
    simp only [deserializeAccount, checkDiscriminant, if_pos h1, h2, if_true]
    exact hdec

/-- Data whose discriminant differs (or is cut short) is rejected with `DiscriminantMismatch`,
whatever follows. -/
theorem account_rejects (d : List Nat) (inner : Shape) (bs : List Nat) (h : bs.take d.length ≠ d) :
    deserializeAccount d inner bs = .error .discMismatch := by
  by_cases h1 : d.length ≤ bs.length
  · simp [deserializeAccount, checkDiscriminant, h1, h]
  · simp [deserializeAccount, checkDiscriminant, h1]

example : ∃ (d bs : List Nat), bs.take d.length ≠ d := ⟨[1, 2], [1, 3, 0], by decide⟩

/-- `TestByteSet::new(v).owned() = v` — the helper reads `[..len]`, not the whole backing buffer
with its 10 240 bytes of slack (this is what failed before the D5 fix for `RemainingBytes` tails). -/
theorem test_buffer_owned (s : Shape) (v : Val) (hok : s.ok = true) (hwf : WF s v = true) :
    ∃ buf, testBufferNew s v = .ok buf ∧ buf.2 = size s v ∧ testBufferOwned s buf = .ok v := by
  have hfo := from_owned_exact s v (size s v) hwf (Nat.le_refl _)
  have hlen : (encode s v).length = size s v := by
    simp only [WF, Bool.and_eq_true] at hwf; exact encode_size s v hwf.1
  refine ⟨(encode s v ++ List.replicate testSlack 0, size s v), by simp [testBufferNew, hfo], rfl, ?_⟩
  have hdec := decode_encode s v [] hok hwf (Or.inl rfl)
  rw [List.append_nil] at hdec
  simp only [testBufferOwned]
  rw [List.take_left' hlen, hdec]

/-- After `data_mut()?.set_from_owned(v2)` (any resize, grow or shrink) the helper's
`underlying_data()` is exactly the serialization of `v2` and `owned()` returns `v2`: both read the
CURRENT length, not the length the buffer was created with. -/
theorem test_buffer_after_set (s : Shape) (v2 : Val) (buf : List Nat × Nat) (hok : s.ok = true)
    (hwf : WF s v2 = true) :
    ∃ buf', testBufferSet s buf v2 = .ok buf' ∧ testBufferData buf' = encode s v2
      ∧ testBufferOwned s buf' = .ok v2 := by
  have hfo := from_owned_exact s v2 (size s v2) hwf (Nat.le_refl _)
  have hlen : (encode s v2).length = size s v2 := by
    simp only [WF, Bool.and_eq_true] at hwf; exact encode_size s v2 hwf.1
  refine ⟨(encode s v2 ++ List.replicate testSlack 0, size s v2), by simp [testBufferSet, hfo], ?_, ?_⟩
  · simp only [testBufferData]; exact List.take_left' hlen
  · have hdec := decode_encode s v2 [] hok hwf (Or.inl rfl)
    rw [List.append_nil] at hdec
    simp only [testBufferOwned]
    rw [List.take_left' hlen, hdec]

end Unsized.C05
