import Unsized.Codec
namespace Unsized.C05
open Unsized
theorem placeholder : True := trivial
end Unsized.C05
