import Unsized.C07Spec
/-!
# C07 — Account data can be re-borrowed within an instruction after any resize history

Property theorems only. Model: `Unsized/Runtime.lean` (pinocchio 0.9.2 `AccountInfo` borrow byte and
`resize_unchecked`; `wrapper.rs` `data_mut` range, top wrapper life cycle, `check_pointers`;
`account.rs` `data`/`data_mut`). Statement vocabulary (`Fresh`, `Reachable`, `Good`, `cycleMut`, `d7` …): `Unsized/C07Spec.lean`.
Helper lemmas: `Unsized/RuntimeLemmas.lean`, `Unsized/RuntimeSteps.lean`.

All theorems are about *reachable* states: any state obtained from a fresh well-formed account
(`Fresh`: `resize_delta = 0`, borrow byte `0xFF`, data = a serialized layout, possibly with trailing
slack) by ANY finite history of `borrow_mut / borrow / release / grow / shrink / len?` operations —
including inapplicable ones, refused borrows and refused growths.
-/
namespace Unsized.C07
open Unsized.Runtime

/-! ## The range -/

/-- **The fixed formula.** In every reachable state, whenever `data_mut` hands out a range it is
`base .. base + orig + 10240`: it ends at the end of the allocation, independent of the
accumulated `resize_delta` (i.e. of the whole resize history); and the slice length is the current length.
Likewise the range held by a live wrapper. -/
theorem range_end_is_allocation_end {s : State} (h : Reachable s) :
    (∀ a' dlen lo hi, dataMut s.acct = (a', .ok (dlen, lo, hi)) →
      lo = s.acct.base ∧ hi = s.acct.base + s.acct.orig + MAX_INC ∧ dlen = s.acct.len) ∧
    (∀ w, s.excl = some w → w.lo = s.acct.base ∧ w.hi = s.acct.base + s.acct.orig + MAX_INC) := by
  have hi := reachable_inv h
  refine ⟨?_, fun w hw => ⟨(hi.wrap w hw).1, (hi.wrap w hw).2.1⟩⟩
  intro a' dlen lo hi' hd
  by_cases hf : s.acct.borrow % 16 = 15
  · rw [dataMut_ok hi.acct hi.bLt hf] at hd
    simp only [Prod.mk.injEq, Res.ok.injEq] at hd
    obtain ⟨_, h1, h2, h3⟩ := hd
    exact ⟨h2.symm, h3.symm, h1.symm⟩
  · rw [dataMut_refused hi.bLt hf] at hd
    simp at hd

/-- ... and `resize_delta` really is `current - original` there, with the length inside the allocation. -/
theorem delta_is_len_minus_orig {s : State} (h : Reachable s) :
    s.acct.delta = (s.acct.len : Int) - (s.acct.orig : Int) ∧ s.acct.len ≤ s.acct.orig + MAX_INC :=
  ⟨(reachable_inv h).acct.delta, (reachable_inv h).acct.cap⟩

/-! ## Re-borrowing -/

/-- **Re-borrowing after any resize history.** For every history from a fresh account — whose sizes
necessarily stay `≤ orig + 10240`, since larger growths are refused (see `over_growth_is_err`) —
in every intermediate state: the invariant holds, no operation panics (neither the drop check nor
the pre-resize check fires), every borrow without a conflicting live borrow returns `ok` and
observes the current length and value, every growth within the allowance and every shrink (by any
amount, also by more than 10240) succeeds. -/
theorem reborrow_ok {s0 : State} (h0 : Fresh s0) (ops : List Op) :
    ∀ e ∈ (run s0 ops).2, Reachable e.1 ∧ e.2.2 ≠ .panic ∧ Good e.1 e.2.1 e.2.2 := by
  have key : ∀ (ops : List Op) (s : State), Reachable s →
      ∀ e ∈ (run s ops).2, Reachable e.1 ∧ e.2.2 ≠ .panic ∧ Good e.1 e.2.1 e.2.2 := by
    intro ops
    induction ops with
    | nil => intro s _ e he; simp [run] at he
    | cons op ops ih =>
      intro s hs e he
      simp only [run, List.mem_cons] at he
      rcases he with rfl | he
      · exact ⟨hs, (step_inv (reachable_inv hs) op).2, step_good (reachable_inv hs) op⟩
      · exact ih _ (reachable_step hs op) e he
  exact key ops s0 ⟨s0, [], h0, rfl⟩

/-- The drop check of a live exclusive wrapper passes in every reachable state — also when an empty
`RemainingBytes` tail sits exactly at `range.end` (account grown by exactly the allowance). -/
theorem drop_check_passes {s : State} (h : Reachable s) {w : Wrapper} (hw : s.excl = some w) : w.check = true :=
  (reachable_inv h).check hw

/-! ## Over-growth -/

/-- Exceeding the allowance is an error at the offending operation, and the state is unchanged. -/
theorem over_growth_is_err {s : State} (h : Reachable s) {w : Wrapper} (he : s.excl = some w) {f n : Nat} {k : Kind}
    {c : Nat} (hk : s.kinds[f]? = some k) (hc : s.counts[f]? = some c) (hns : k.isSized = false) (hn : n ≤ N_CAP)
    (hover : s.acct.orig + MAX_INC < s.acct.len + k.unit * n) :
    step s (.grow f n) = (s, .err .invalidRealloc) :=
  grow_over (reachable_inv h) he hk hc hns hn hover

/-- At the runtime level: `resize_unchecked` past `orig + 10240` is `InvalidRealloc` (no panic, nothing
written); within it succeeds; and the zero-filled region of a growth lies inside the allocation. -/
theorem resize_exact {s : State} (h : Reachable s) (n : Nat) :
    (s.acct.orig + MAX_INC < n → resizeUnchecked s.acct n = .err .invalidRealloc) ∧
    (n ≤ s.acct.orig + MAX_INC → ∃ a' fill, resizeUnchecked s.acct n = .ok a' fill ∧ a'.len = n ∧
      a'.delta = (n : Int) - (s.acct.orig : Int) ∧
      ∀ off cnt, fill = some (off, cnt) → off = s.acct.len ∧ off + cnt = n ∧ off + cnt ≤ s.acct.orig + MAX_INC) := by
  have hi := reachable_inv h
  refine ⟨fun ho => resize_over hi.acct ho, fun hf => ?_⟩
  by_cases hne : n = s.acct.len
  · subst hne
    refine ⟨s.acct, none, resize_same hi.acct, rfl, hi.acct.delta, ?_⟩
    intro off cnt hx; cases hx
  · obtain ⟨fill, hr⟩ := resize_ok hi.acct hne hf
    refine ⟨_, fill, hr, rfl, rfl, ?_⟩
    intro off cnt hx
    subst hx
    exact resize_fill_in_allocation hi.acct hr

/-! ## Borrow exclusion and restoration -/

/-- Overlapping borrows are refused (state unchanged): shared or exclusive while exclusive, exclusive
while shared; an eighth simultaneous shared borrow is refused too (3-bit counter). -/
theorem borrow_exclusion {s : State} (h : Reachable s) :
    (s.excl.isSome = true → step s .borrow = (s, .err .accountBorrowFailed) ∧
      step s .borrowMut = (s, .err .accountBorrowFailed)) ∧
    (s.shared ≠ [] → step s .borrowMut = (s, .err .accountBorrowFailed)) ∧
    (s.shared.length = 7 → step s .borrow = (s, .err .accountBorrowFailed)) := by
  have hi := reachable_inv h
  refine ⟨fun he => ⟨?_, ?_⟩, fun hs => ?_, fun hs => ?_⟩
  · simp only [step, accountData_busy hi (Or.inl he)]
  · simp only [step, accountDataMut_busy hi (Or.inr (Or.inl he))]
  · simp only [step, accountDataMut_busy hi (Or.inr (Or.inr hs))]
  · simp only [step, accountData_busy hi (Or.inr hs)]

/-- After release the borrow byte is restored: a borrow/release cycle (exclusive or shared) on an
idle writable account returns `ok` twice and leaves the account, the value and the live-borrow
sets exactly as they were (only the handle counter advances). -/
theorem release_restores {s : State} (h : Reachable s) (hw : s.acct.writable = true) (he : s.excl = none)
    (hs : s.shared = []) :
    (step s .borrowMut).2 = .borrowedMut s.next s.acct.len s.acct.delta (s.acct.borrow - 8) 0
        ((s.acct.orig + MAX_INC : Nat) : Int) s.counts ∧
    (step (step s .borrowMut).1 (.release s.next)).2 = .released s.acct.borrow ∧
    cycleMut s = { s with next := s.next + 1 } ∧
    (step s .borrow).2 = .borrowed s.next s.acct.len s.acct.delta (s.acct.borrow - 1) s.counts ∧
    (step (step s .borrow).1 (.release s.next)).2 = .released s.acct.borrow ∧
    cycleShared s = { s with next := s.next + 1 } := by
  have hi := reachable_inv h
  have hb := hi.bFree he
  simp only [hs, List.length_nil] at hb
  have e1 := accountDataMut_idle hi hw he hs
  have i1 := inv_afterBorrowMut hi he hs
  have e2 := release_excl (k := s.next) i1 (show (afterBorrowMut s).excl = some _ from rfl) rfl
  have e3 := accountData_free hi he (by simp [hs])
  have i3 := inv_afterBorrow hi he (by simp [hs])
  have e4 := release_shared (k := s.next) i3 (by simp [afterBorrow, he]) (by simp [afterBorrow])
  have hb8 : s.acct.borrow - 8 + 8 = s.acct.borrow := by omega
  have hb1 : s.acct.borrow - 1 + 1 = s.acct.borrow := by omega
  refine ⟨by simp only [step, e1], ?_, ?_, by simp only [step, e3], ?_, ?_⟩
  · show (release (accountDataMut s).1 s.next).2 = _
    rw [e1]
    show (release (afterBorrowMut s) s.next).2 = _
    rw [e2]
    show Ans.released (s.acct.borrow - 8 + 8) = _
    rw [hb8]
  · show (release (accountDataMut s).1 s.next).1 = _
    rw [e1]
    show (release (afterBorrowMut s) s.next).1 = _
    rw [e2]
    show afterReleaseExcl (afterBorrowMut s) = _
    simp only [afterReleaseExcl, afterBorrowMut, hb8]
    cases s with
    | mk acct kinds counts excl shared next => simp only at he; subst he; rfl
  · show (release (accountData s).1 s.next).2 = _
    rw [e3]
    show (release (afterBorrow s) s.next).2 = _
    rw [e4]
    show Ans.released (s.acct.borrow - 1 + 1) = _
    rw [hb1]
  · show (release (accountData s).1 s.next).1 = _
    rw [e3]
    show (release (afterBorrow s) s.next).1 = _
    rw [e4]
    show afterReleaseShared (afterBorrow s) s.next = _
    simp only [afterReleaseShared, afterBorrow, hb1, List.erase_cons_head]

/-- Hence any number of re-borrows succeed: after `n` exclusive cycles (or `n` shared cycles) the
state is the original one with the handle counter advanced by `n`. -/
theorem reborrow_many {s : State} (h : Reachable s) (hw : s.acct.writable = true) (he : s.excl = none)
    (hs : s.shared = []) (n : Nat) :
    iter cycleMut n s = { s with next := s.next + n } ∧ iter cycleShared n s = { s with next := s.next + n } := by
  induction n generalizing s with
  | zero => exact ⟨rfl, rfl⟩
  | succ n ih =>
    obtain ⟨_, _, c1, _, _, c2⟩ := release_restores h hw he hs
    have r1 : Reachable ({ s with next := s.next + 1 } : State) := by
      rw [← c1]; exact reachable_step (reachable_step h _) _
    obtain ⟨i1, i2⟩ := ih r1 hw he hs
    refine ⟨?_, ?_⟩
    · simp only [iter, c1, i1]; congr 1; omega
    · simp only [iter, c2, i2]; congr 1; omega

/-! ## The pre-fix formula fails on the D7 history (documentation of the repaired defect) -/

/-- With the pre-fix formula (`+ resize_delta`) the re-borrow after shrinking by 15000 gets the range
`base .. base + 256` and its drop check fails (the real code panicked); with the current formula
(`- resize_delta`) the same check passes. -/
theorem old_formula_witness :
    d7Shrunk.acct.len = 5016 ∧ d7Shrunk.acct.delta = -15000 ∧
    dropCheckWith dataMutOld d7Shrunk = some false ∧ dropCheckWith dataMut d7Shrunk = some true := by
  decide

/-! ## Non-vacuity -/

theorem d7_fresh : Fresh d7 :=
  ⟨⟨1048576, true, [.list, .list], [2000, 18000], 20016, rfl, by simp [LayoutOK, Kind.width], by decide, by decide⟩⟩
example : Reachable d7Shrunk := ⟨d7, _, d7_fresh, rfl⟩

/-- D7 as a model history: every answer is `ok`, the second borrow sees len 5016 and range end 30256. -/
example : ((run d7 [.borrowMut, .shrink 1 15000, .release 0, .borrowMut, .release 1]).2.map (·.2.2)) =
    [.borrowedMut 0 20016 0 247 0 30256 [2000, 18000], .resized 5016 (-15000) [2000, 3000], .released 255,
     .borrowedMut 1 5016 (-15000) 247 0 30256 [2000, 3000], .released 255] := by decide

/-- D7b: empty tail, grown to exactly `orig + 10240`; one more byte is an error; the release is fine. -/
def d7b : State := mkState 1048576 true [.list, .remaining] [0, 0] 12
example : ((run d7b [.borrowMut, .grow 0 10239, .grow 0 1, .grow 0 1, .release 0, .borrowMut]).2.map (·.2.2)) =
    [.borrowedMut 0 12 0 247 0 10252 [0, 0], .resized 10251 10239 [10239, 0], .resized 10252 10240 [10240, 0],
     .err .invalidRealloc, .released 255, .borrowedMut 1 10252 10240 247 0 10252 [10240, 0]] := by decide

/-- Overlaps are refused in a concrete history (hypotheses of `borrow_exclusion` are satisfiable). -/
example : ((run d7 [.borrowMut, .borrow, .borrowMut, .release 0, .borrow, .borrowMut]).2.map (·.2.2)) =
    [.borrowedMut 0 20016 0 247 0 30256 [2000, 18000], .err .accountBorrowFailed, .err .accountBorrowFailed,
     .released 255, .borrowed 1 20016 0 254 [2000, 18000], .err .accountBorrowFailed] := by decide

end Unsized.C07
