import Unsized.MachineObserve
import Unsized.PtrChainNotify
import Unsized.PtrHonestS2
/-!
# C01 — Unsized values behave like their owned models under any operation history

Property theorems only. Model: `Unsized/Machine.lean`, `MachineOps.lean`, `MachineRun.lean` (the byte-level
resize machine the driver `c01_model` executes) against `Unsized/Spec.lean` (the owned model:
`Vec`/`BTreeSet`/`BTreeMap`/`String`/struct/enum). Helper lemmas: `Unsized/Machine*.lean`.

Vocabulary: `Inv s vs ms` = the machine state `ms` holds exactly the canonical serialization
`encode s vs.val` of the model value (so `owned()`, a fresh shared view and every live accessor — all
functions of the bytes and the accessor paths — show the model value), the same accessors are live, and
there is headroom (`Calm`: no scheduled refusal, allocation below 4 GiB). `CmdOk` = the (decidable) side
conditions of one line: a successful model step stays below `orig + 10240`, and a failing one is not one of
the two registered known-finding classes (an initialiser failing behind the resize, a composite op failing
half-way — both refuted at full strength by the witnesses in `Props/C06.lean`). EVERY op of the op language
on EVERY node kind at ANY nesting depth is covered: there is no restriction on shapes, values, paths or ops.
-/
namespace Unsized.C01
open Common Unsized Unsized.Text Unsized.Machine

/-- The machine state right after the case header: `ExclusiveWrapper::new` over `encode s v`. -/
def load (s : Shape) (v : Val) : State := State.init (encode s v) []

/-- The invariant holds initially. -/
theorem load_inv (s : Shape) (v : Val) (hok : s.ok = true) (hwf : WF s v = true)
    (hsmall : (encode s v).length + maxIncrease < Shape.u32Lim) : Inv s ⟨v, [[]]⟩ (load s v) := by
  simp only [WF, Bool.and_eq_true] at hwf
  exact ⟨⟨⟨true, false, hok⟩, hwf.1, hwf.2⟩, rfl, rfl,
    ⟨rfl, by simpa [load, State.init] using hsmall, by simp [load, State.init]⟩⟩

/-- **One op line** — every op of the op language, every shape, any nesting depth, any live accessor
stack: the machine produces exactly the outcome (`ok`/`err` class) and `ret` of the owned model, and afterwards again holds the canonical serialization of the
model's value with exact length; well-formedness is preserved. -/
theorem step_refines (s : Shape) (vs : VState) (ms : State) (inv : Inv s vs ms) (cmd : Cmd)
    (hcmd : CmdOk s vs ms.mem.orig cmd) :
    (step s ms cmd).2 = (stepV s vs cmd).2
    ∧ (step s ms cmd).1.mem.bytes = encode s (stepV s vs cmd).1.val
    ∧ (step s ms cmd).1.mem.bytes.length = size s (stepV s vs cmd).1.val
    ∧ WF s (stepV s vs cmd).1.val = true
    ∧ Inv s (stepV s vs cmd).1 (step s ms cmd).1 := by
  obtain ⟨h1, h2, _⟩ := step_inv s vs ms inv cmd hcmd
  refine ⟨h1, h2.bytes, ?_, ?_, h2⟩
  · rw [h2.bytes, encode_size_all _ _ h2.good.valid]
  · simp [WF, h2.good.valid, h2.good.fits]

/-- **Any finite history** from the case header (side conditions `HistOk` = `CmdOk` at every line): the outcomes agree line by line and
the final buffer is the canonical serialization of the model's final value. -/
theorem history_refines (s : Shape) (v : Val) (hok : s.ok = true) (hwf : WF s v = true)
    (hsmall : (encode s v).length + maxIncrease < Shape.u32Lim) (cmds : List Cmd)
    (hh : HistOk s (encode s v).length ⟨v, [[]]⟩ cmds) :
    (runM s (load s v) cmds).2 = (runS s ⟨v, [[]]⟩ cmds).2
    ∧ (runM s (load s v) cmds).1.mem.bytes = encode s (runS s ⟨v, [[]]⟩ cmds).1.val
    ∧ (runM s (load s v) cmds).1.levels = (runS s ⟨v, [[]]⟩ cmds).1.levels := by
  obtain ⟨h1, h2⟩ := run_inv s cmds ⟨v, [[]]⟩ (load s v) (load_inv s v hok hwf hsmall) (by simpa [load, State.init] using hh)
  exact ⟨h1, h2.bytes, h2.levels⟩

/-- **What the observers see** in a state satisfying the invariant: the owned conversion
(`UnsizedType::owned(&data[..len])`) is the model value, and every live accessor (any path that resolves
in the model, in particular the paths of the live levels) is found by the machine exactly where the
model says and `owned_from_ptr` of it is the model's sub-value. These are exactly the `owned=`,
`shared=` (a fresh shared borrow read through get / get_mut / iterator API) and `live=` columns. -/
theorem observables_agree (s : Shape) (hok : s.ok = true) (vs : VState) (ms : State) (inv : Inv s vs ms) :
    decode s ms.mem.bytes = .ok (vs.val, size s vs.val)
    ∧ (∀ mo, viewTop mo s ms.mem.bytes = .ok (vs.val, size s vs.val))
    ∧ ∀ q t u, resolve s vs.val q = .ok (t, u) →
        locate s q 0 ms.mem.bytes = .ok (t, offsetOf s vs.val q)
        ∧ own t (ms.mem.bytes.drop (offsetOf s vs.val q)) = .ok u := by
  refine ⟨by rw [inv.bytes]; exact owned_view s vs.val hok inv.good,
    fun mo => by rw [inv.bytes]; exact shared_view mo s vs.val hok inv.good, fun q t u hq => ?_⟩
  have F : Focus s vs.val q t u ms.mem := ⟨inv.good, hq, inv.bytes⟩
  exact ⟨live_locate F, live_view F⟩

/-- **Siblings are untouched**: an op that changed the sub-value at `c ++ st2 :: p` (to anything)
leaves every sub-value at or below a sibling step `st1 ≠ st2` of any common prefix `c` unchanged. -/
theorem siblings_untouched (s : Shape) (v : Val) (c p q : List Step) (st1 st2 : Step) (x : Val)
    (hne : st1 ≠ st2) :
    resolve s (subst s v (c ++ st2 :: p) x) (c ++ st1 :: q) = resolve s v (c ++ st1 :: q) :=
  resolve_subst_other c s v st1 st2 p q x hne

/-- What a successful model step does to the value: it replaces exactly the addressed sub-value. -/
theorem step_is_subst (s : Shape) (v : Val) (p : List Step) (op : Op) (v' : Val) (r : Ret)
    (h : Spec.applyOp s v p op = .ok (v', r)) : ∃ t u u', resolve s v p = .ok (t, u) ∧ v' = subst s v p u' := by
  rw [spec_applyOp_eq] at h
  cases hr : resolve s v p with
  | error e => simp [hr] at h
  | ok tu =>
    obtain ⟨t, u⟩ := tu
    simp only [hr] at h
    cases ha : Spec.applyNode t u op with
    | error e => simp [ha] at h
    | ok ur =>
      obtain ⟨u', r'⟩ := ur
      simp only [ha, Except.ok.injEq, Prod.mk.injEq] at h
      exact ⟨t, u, u', rfl, h.1.symm⟩

/-- **Key-ordered containers stay strictly sorted and duplicate free**: in every state reached by a
history, every `Set`, `Map` and `UnsizedMap` anywhere in the value has strictly increasing keys. -/
theorem sorted_preserved (s : Shape) (vs : VState) (ms : State) (inv : Inv s vs ms) (cmds : List Cmd)
    (hh : HistOk s ms.mem.orig vs cmds) (q : List Step) (t : Shape) (u : Val)
    (hq : resolve s (runS s vs cmds).1.val q = .ok (t, u)) :
    (∀ e lw es, t = .set e lw → u = .seq es → strictKeys (es.map (keyOf e.size)) = true)
    ∧ (∀ kw f lw es, t = .map kw f lw → u = .seq es → strictKeys (es.map (keyOf kw)) = true)
    ∧ (∀ kw e es, t = .umap kw e → u = .umap es → strictKeys (es.map fun kv => rdLE kv.1) = true) := by
  have g := resolve_good q s _ t u (run_inv s cmds vs ms inv hh).2.good hq
  refine ⟨?_, ?_, ?_⟩
  · rintro e lw es rfl rfl; have := g.valid; simp only [valid, Bool.and_eq_true] at this; exact this.2
  · rintro kw f lw es rfl rfl; have := g.valid; simp only [valid, Bool.and_eq_true] at this; exact this.2
  · rintro kw e es rfl rfl; have := g.valid; simp only [valid, Bool.and_eq_true] at this; exact this.2


/-! ## Non-vacuity: a depth-3 value and a history crossing a `u8` length-prefix boundary -/

/-- `struct { a: u8, l: List<u8,u8>, ul: UnsizedList<struct { x: List<u8,u8>, y: List<u8,u8> }>, e: enum { A, B(List<u16,u32>) } }` -/
def exS : Shape := .struct [.pod 1] [.list (.pod 1) 1,
  .ulist (.struct [] [.list (.pod 1) 1, .list (.pod 1) 1]), .enum [0, 5] [.unit, .list (.pod 2) 4]]
/-- `l` is full (255 elements of a `u8`-prefixed list). -/
def exV : Val := .record [7] [.seq (List.replicate 255 [1]),
  .useq [.record [] [.seq [[1]], .seq []]], .variant 0 .unit]
def exH : List Cmd := [
  .op [.field 0] (.push [2]),                         -- 256th element: `ToPrimitiveError`, nothing changes
  .op [.field 1, .elem 0, .field 0] (.push [9]),      -- a push at depth 3 (struct → ulist → struct → list)
  .op [.field 2] (.setVariant 1),                     -- enum variant switch after the list of lists
  .op [.field 0] (.remove 0),
  .op [.field 0] (.push [3]),                         -- fits again: exactly 255
  .enter (.field 1), .enter (.elem 0),                -- two live accessors
  .op [.field 1] (.insertAll 0 [[0xaa], [0xbb]]),
  .leave, .reborrow,
  .op [.field 2, .payload] (.push [1, 2])]

/-- The hypotheses of `history_refines` are satisfiable by this history … -/
example : exS.ok = true ∧ WF exS exV = true ∧ (encode exS exV).length + maxIncrease < Shape.u32Lim
    ∧ HistOk exS (encode exS exV).length ⟨exV, [[]]⟩ exH :=
  ⟨by decide, by decide +kernel, by decide +kernel, by unfold HistOk; decide +kernel⟩

/-- … whose first line fails (prefix overflow) and all others succeed, on model and machine alike. -/
example : (runM exS (load exS exV) exH).2.map (fun r => r.toBool)
    = [false, true, true, true, true, true, true, true, true, true, true] := by decide +kernel

/-- `step_refines` applies to the state after the header (non-vacuity of `Inv`/`CmdOk`). -/
example : CmdOk exS ⟨exV, [[]]⟩ (load exS exV).mem.orig (.op [.field 1, .elem 0, .field 0] (.push [9])) := by
  unfold CmdOk; decide +kernel

/-- `siblings_untouched` on the example: growing `ul[0].x` leaves `ul[0].y`, `l` and `e` alone. -/
example : resolve exS (subst exS exV [.field 1, .elem 0, .field 0] (.seq [[1], [9]])) [.field 1, .elem 0, .field 1]
    = resolve exS exV [.field 1, .elem 0, .field 1] :=
  siblings_untouched exS exV [.field 1, .elem 0] [] [] (.field 1) (.field 0) _ (by decide)


/-! ## Stage C — pointer freshness (`ptrs_fresh`)

The pointer objects (`T::Ptr`: `Unsized/PtrTree.lean`, the C03 builder's transcription of `get_ptr`,
`resize_notification`, `check_pointers`) of the live accessors, which the byte machine above does not carry. -/

open Unsized.PtrT Unsized.Ptr in
/-- **`ptrs_fresh`** — one `resize_notification` broadcast keeps every live accessor's pointer fresh.

The sub-value at path `p` of the good value `v` (serialized at address `b`) changes its size by `±amt`
(`encode t u` ↦ `encode t u'`, already moved in place: the bytes are `pre ++ splice … ++ post`, the enclosing
`UnsizedList` headers still stale — that is what `unsized_size` is read from). The top pointer object is
`chainOf s v b p`: the tree after the accessors along `p` were taken from a fresh borrow (every enclosing
`UnsizedListPtr` caches its element's pointer in `inner_exclusive`, D1/D1b). If the deepest accessor's own
pointer ends up as `get_ptr` of its new bytes (`hself`: `Ptr.self_notify_leaf/_ulist/_umap` say when the
notification alone achieves it; `set_data_inner` re-parses it), then after the broadcast

1. the top pointer object is `chainOf s v' b p` — what taking the same accessors on the NEW value
   `v' = subst s v p u'` gives (siblings before the change keep their address, siblings after are shifted,
   list ranges follow the new size, every cached inner pointer is recursively the fresh one);
2. forgetting the cached boxes, that object is `treeOf s v' b`, and
3. `treeOf s v' b` is literally what `get_ptr` returns on the new canonical bytes. -/
theorem ptrs_fresh (p : List Step) (s : Shape) (v : Val) (t : Shape) (u u' : Val) (g : Good s v)
    (hu : s ≠ .unit) (hz : s.zst = false) (g' : Good s (subst s v p u')) (h : resolve s v p = .ok (t, u))
    (pre post : List Nat) (b src : Nat) (neg : Bool) (amt : Nat)
    (hb : b = pre.length) (hX : (encode t u').length = applyDelta neg amt (encode t u).length)
    (hneg : neg = true → amt ≤ (encode t u).length) (hsrc : src = b + offsetOf s v p)
    (hlim : b + (encode s v).length + amt < Shape.usizeLim)
    (usz : Nat → Nat)
    (husz : usz = (fun a => rd32 (pre ++ splice (encode s v) (offsetOf s v p) (encode t u).length (encode t u') ++ post) a))
    (hself : resizeNotify usz src neg amt (treeOf t u src) = some (treeOf t u' src)) :
    resizeNotify usz src neg amt (chainOf s v b p) = some (chainOf s (subst s v p u') b p)
    ∧ forget (chainOf s (subst s v p u') b p) = treeOf s (subst s v p u') b
    ∧ getPtr s (encode s (subst s v p u') ++ post) b
        = .ok (treeOf s (subst s v p u') b, size s (subst s v p u')) := by
  refine ⟨Ptr.ptrs_fresh p s v t u u' g hu hz g' h pre post b src neg amt hb hX hneg hsrc hlim usz husz hself,
    ?_, getPtr_encode s _ post b g' (Or.inr hz)⟩
  have hr := resolve_subst p s v t u u' h
  unfold chainOf
  rw [hr]
  exact forget_chain p s _ t u' b _ g' hr (forget_treeOf t u' _)

/-- `ptrs_fresh` is not vacuous: the push at depth 3 of the example (struct → `UnsizedList` → struct →
list) with two enclosing accessors live, the account data at address 64. -/
example :
    let p : List Step := [.field 1, .elem 0, .field 0]
    let usz : Nat → Nat := fun a => rd32 (List.replicate 64 0
      ++ splice (encode exS exV) (offsetOf exS exV p) 2 (encode (.list (.pod 1) 1) (.seq [[1], [9]])) ++ []) a
    PtrT.resizeNotify usz (64 + offsetOf exS exV p) false 1 (Ptr.chainOf exS exV 64 p)
      = some (Ptr.chainOf exS (subst exS exV p (.seq [[1], [9]])) 64 p) := by
  intro p usz
  have g : Good exS exV := ⟨⟨true, false, by decide⟩, by decide +kernel, by decide +kernel⟩
  have g' : Good exS (subst exS exV p (.seq [[1], [9]])) :=
    ⟨⟨true, false, by decide⟩, by decide +kernel, by decide +kernel⟩
  exact (ptrs_fresh p exS exV (.list (.pod 1) 1) (.seq [[1]]) (.seq [[1], [9]]) g (by intro h; cases h) (by decide)
    g' rfl (List.replicate 64 0) [] 64 _ false 1 (by simp) (by decide +kernel) (by intro h; cases h) rfl
    (by decide +kernel) usz rfl (Ptr.self_notify_leaf _ _ _ _ _ _ _ rfl)).1


/-! ## Stage C, full: the pointer objects of every live accessor along whole histories

The machine is the C03 builder's pointer machine `Unsized/PtrMachine.lean` (what the `c03_model` driver
executes line by line: `PtrM.execOp / execEnter / execLeave / execReborrow`, with `walk`, the prologue `runPre`,
the events of the traced byte-machine op walked by `runEvs`, and the epilogue of `opAt`). `Ptr.PInv s w v` is the
invariant: buffer `A` holds `encode s v` (the C01/C02 invariant, `Calm`), the live levels are nested accessor
paths, and the top pointer object is HONEST for `v` along the innermost live level — every own pointer is what
`get_ptr` returns on the current bytes (`Ptr.Hon`, `Ptr.hon_treeOf`, `Ptr.getPtr_encode`), every `UnsizedListPtr`
caches in `inner_exclusive` nothing, or an honest pointer of the element it was taken for (D1: forwarded by the
notification), or what is left of one after the list itself was edited (a uniformly shifted pointer inside the
list's range; D1b: `remove_range`/`clear`/`pop` drop it first), and `PtrM.locTree` finds the pointer each live
accessor holds (`Ptr.locTree_honPath`, `Ptr.honPath_close`). -/

open Unsized.PtrM Unsized.Ptr in
/-- **`ptrs_fresh_step`** — one line (`enter` / `leave` / `reborrow` / any covered op with any accessor chain
below the innermost live level) keeps every live pointer object fresh and does not panic. -/
theorem ptrs_fresh_step {s : Shape} {w : World} {v : Val} (inv : PInv s w v) (c : Cmd) (hok : LineOk s w c) :
    isPanic (pstep s w c).2 = false ∧ ∃ v', PInv s (pstep s w c).1 v' :=
  Ptr.ptrs_fresh_step inv c hok

/-- **The address assumptions** of the pointer theorems, stated once (`Ptr.AddrOk base orig`): the account data
does not sit in the first `orig + 10240` bytes of the address space, and `base + 2 * (orig + 10240) < 2^64`.
They hold for every address of the runtime's input region and every legal account length. -/
theorem addrOk_realistic (base orig : Nat) (h1 : 0x400000000 ≤ base) (h2 : base < 0x500000000)
    (h3 : orig ≤ 10 * 1024 * 1024) : Ptr.AddrOk base orig :=
  Ptr.addrOk_solana base orig h1 h2 h3

/-- … e.g. the first account of a transaction (a few bytes above `MM_INPUT_START`), of the maximal length. -/
example : Ptr.AddrOk (0x400000000 + 96) (10 * 1024 * 1024) :=
  addrOk_realistic _ _ (by omega) (by omega) (by omega)

open Unsized.PtrM Unsized.Ptr in
/-- **`ptrs_fresh_history`** — from a fresh top accessor over a well-formed value (the state `mkBuf` builds),
after ANY history of `enter` / `leave` / `reborrow` / ops whose side conditions hold (`HistOkP`: C01's `CmdOk` at
node level, and the op is `Covered`), no line panics and every live pointer object is fresh. -/
theorem ptrs_fresh_history (s : Shape) (v : Val) (base : Nat) (B : PBuf) (cmds : List Cmd) (hok : s.ok = true)
    (hnd : ∀ d i, s ≠ .disc d i) (hwf : WF s v = true)
    (hsmall : (encode s v).length + maxIncrease < Shape.u32Lim)
    (haddr : AddrOk base (encode s v).length)
    (hhist : HistOkP s ⟨⟨⟨encode s v, (encode s v).length, 0, []⟩, base, treeOf s v base, [[]], false, false⟩, B⟩ cmds) :
    let w0 : World := ⟨⟨⟨encode s v, (encode s v).length, 0, []⟩, base, treeOf s v base, [[]], false, false⟩, B⟩
    (∀ a ∈ (prun s w0 cmds).2, isPanic a = false) ∧ ∃ v', PInv s (prun s w0 cmds).1 v' :=
  Ptr.ptrs_fresh_history s cmds _ v (pinv_init s v base B hok hnd hwf hsmall haddr.1 haddr.2) hhist

open Unsized.PtrM Unsized.Ptr in
/-- **`ptrs_fresh_history` for a program account** (`AccountDiscriminant<T>` at top level, `Shape.disc d inner`).
The real wrapper has `Ptr = T::Ptr` and forwards `start_ptr` / `data_len` / `resize_notification` to `T`
(`account_set/account.rs` 161–216), so its pointer object, for data at address `a`, IS the payload's at
`a + |d|` (`Ptr.pinv_init_disc`): `get_ptr` of the wrapper on the canonical bytes returns the initial top pointer
object of the payload machine, and from there every history keeps every live pointer object fresh. -/
theorem ptrs_fresh_history_disc (d : List Nat) (inner : Shape) (v : Val) (a : Nat) (B : PBuf) (cmds : List Cmd)
    (hok : (Shape.disc d inner).ok = true) (hwf : WF (.disc d inner) v = true)
    (hsmall : (encode inner v).length + maxIncrease < Shape.u32Lim)
    (haddr : AddrOk (a + d.length) (encode inner v).length)
    (hhist : HistOkP inner ⟨⟨⟨encode inner v, (encode inner v).length, 0, []⟩, a + d.length,
      treeOf inner v (a + d.length), [[]], false, false⟩, B⟩ cmds) :
    let w0 : World := ⟨⟨⟨encode inner v, (encode inner v).length, 0, []⟩, a + d.length,
      treeOf inner v (a + d.length), [[]], false, false⟩, B⟩
    encode (.disc d inner) v = d ++ w0.a.mem.bytes
    ∧ PtrT.getPtr (.disc d inner) (encode (.disc d inner) v) a = .ok (w0.a.root, size inner v + d.length)
    ∧ (∀ x ∈ (prun inner w0 cmds).2, isPanic x = false) ∧ ∃ v', PInv inner (prun inner w0 cmds).1 v' := by
  obtain ⟨h1, h2, _, h4⟩ := pinv_init_disc d inner v a B hok hwf hsmall haddr
  exact ⟨h1, h2, Ptr.ptrs_fresh_history inner cmds _ v h4 hhist⟩

open Unsized.PtrM Unsized.Ptr in
/-- Non-vacuity: the depth-3 example behind an 8-byte discriminant, the account data at a realistic address. -/
example : ∃ v', PInv exS (prun exS ⟨⟨⟨encode exS exV, (encode exS exV).length, 0, []⟩, 0x400000060 + 8,
      treeOf exS exV (0x400000060 + 8), [[]], false, false⟩, default⟩ [.enter (.field 1), .enter (.elem 0)]).1 v' :=
  (ptrs_fresh_history_disc [1, 2, 3, 4, 5, 6, 7, 8] exS exV 0x400000060 default
    [.enter (.field 1), .enter (.elem 0)] (by decide) (by decide +kernel) (by decide +kernel)
    (addrOk_realistic _ _ (by decide) (by decide) (by decide +kernel)) ⟨trivial, trivial, trivial⟩).2.2.2

open Unsized.PtrM Unsized.Ptr in
/-- A line with a composite op (`str_set`, `Set/Map::insert_all`) needs NO side condition: every exit is covered,
including the registered findings (a refused / overflowing resize half-way through). -/
theorem lineOk_composite (s : Shape) (w : World) (p : List Step) (o : Op) (h : simpleOp o = false) :
    LineOk s w (.op p o) := by
  intro v _ sh u2 _
  refine ⟨?_, fun hs => by rw [h] at hs; cases hs⟩
  intro kw e es k _ _ hk _
  rcases hk with rfl | ⟨xs, rfl⟩ <;> simp [simpleOp] at h

open Unsized.PtrM Unsized.Ptr in
/-- The `Covered` half of `LineOk` is discharged once, at the top shape, by the decidable `Ptr.allStart s`
(every `UnsizedMap` element shape occurring in `s` is `Ptr.startOk`: `PtrM.startAddr`, which looks two struct
levels deep, is defined on its pointer objects). -/
theorem covered_of_allStart (s : Shape) (v : Val) (p : List Step) (sh : Shape) (u2 : Val) (o : Op)
    (ha : allStart s = true) (h : resolve s v p = .ok (sh, u2)) : Covered sh u2 o :=
  Ptr.covered_of_allStart s v p sh u2 o ha h

example : Ptr.allStart exS = true := by decide

open Unsized.PtrM Unsized.Ptr in
/-- Non-vacuity on a registered-finding exit: `UnsizedString<u8>::set` of 256 bytes over `"hi"` clears the
string, then the push overflows the `u8` length prefix: the call returns `Err` leaving the EMPTY string (bytes
`[0]`, three resize events walked by the pointer machine) — and the pointer objects are fresh for that partially
updated value. -/
example :
    let w0 : World := ⟨⟨⟨encode (.str 1) (.bytes [104, 105]), (encode (.str 1) (.bytes [104, 105])).length, 0, []⟩,
      1048576, treeOf (.str 1) (.bytes [104, 105]) 1048576, [[]], false, false⟩, default⟩
    let r := pstep (.str 1) w0 (.op [] (.strSet (List.replicate 256 97)))
    (match r.2 with | .res (.error _) evs => evs.length == 3 | _ => false) = true
    ∧ r.1.a.mem.bytes = [0]
    ∧ ∃ v', PInv (.str 1) r.1 v' := by
  intro w0 r
  refine ⟨by decide +kernel, by decide +kernel, ?_⟩
  exact (Ptr.ptrs_fresh_step (pinv_init (.str 1) (.bytes [104, 105]) 1048576 default (by decide)
    (by intro d i h; cases h) (by decide +kernel) (by decide +kernel) (by decide +kernel) (by decide +kernel))
    _ (lineOk_composite _ _ _ _ rfl)).2

open Unsized.PtrM Unsized.Ptr in
/-- **`checkTop_passes`** — on honest histories `check_pointers` of the top pointer object with the allocation
range is `true`: the `debug_assert!`s of `add_bytes` / `remove_bytes` and `ExclusiveTopDrop::drop` never fire
(the positive half of C03's swap theorem). -/
theorem checkTop_passes (s : Shape) (cmds : List Cmd) (w : World) (v : Val) (inv : PInv s w v)
    (hok : HistOkP s w cmds) :
    PtrT.checkTop (prun s w cmds).1.a.rng (prun s w cmds).1.a.root = true
    ∧ (endBuf (prun s w cmds).1 .A).2 = true :=
  Ptr.checkTop_passes s cmds w v inv hok

open Unsized.PtrM Unsized.Ptr in
/-- Non-vacuity: the invariant holds for the depth-3 example at the C03 driver's address of buffer `A`, and the
two `enter` lines of the example history keep it (two live accessors, `inner_exclusive` armed). -/
example : ∃ v', PInv exS (prun exS ⟨⟨⟨encode exS exV, (encode exS exV).length, 0, []⟩, 1048576,
      treeOf exS exV 1048576, [[]], false, false⟩, default⟩ [.enter (.field 1), .enter (.elem 0)]).1 v' :=
  (Ptr.ptrs_fresh_history exS [.enter (.field 1), .enter (.elem 0)] _ exV
    (pinv_init exS exV 1048576 default (by decide) (by intro d i h; cases h) (by decide +kernel) (by decide +kernel)
      (by decide +kernel) (by decide +kernel)) ⟨trivial, trivial, trivial⟩).2

end Unsized.C01
