import Unsized.MachineRefine
/-!
# Siblings are untouched by a substitution (`resolve_subst_other`)
-/
namespace Unsized.Machine
open Common Unsized Unsized.Text

/-- A different step from the same node reaches a child that a substitution below `st2` leaves alone. -/
theorem resolve1_subst1_other (s : Shape) (v : Val) (st1 st2 : Step) (x : Val) (hne : st1 ≠ st2) :
    resolve1 s (subst1 v st2 x) st1 = resolve1 s v st1 := by
  cases st2 with
  | field j =>
    cases v <;> try rfl
    rename_i sz vs
    cases st1 with
    | field i =>
      have hij : j ≠ i := fun h => hne (by rw [h])
      cases s <;> simp only [subst1, resolve1]
      rw [List.getElem?_set_ne hij]
    | _ => cases s <;> rfl
  | elem j =>
    cases v <;> try rfl
    · rename_i vs
      cases st1 with
      | elem i =>
        have hij : j ≠ i := fun h => hne (by rw [h])
        cases s <;> simp only [subst1, resolve1]
        rw [List.getElem?_set_ne hij]
      | _ => cases s <;> rfl
    · rename_i es
      cases st1 with
      | elem i =>
        have hij : j ≠ i := fun h => hne (by rw [h])
        cases s <;> simp only [subst1, resolve1]
        cases hj : es[j]? with
        | none => rfl
        | some kx => simp only []; rw [List.getElem?_set_ne hij]
      | _ => cases s <;> rfl
  | payload =>
    cases v <;> try rfl
    cases st1 with
    | payload => exact absurd rfl hne
    | _ => cases s <;> rfl

/-- **Siblings are untouched**: replacing the sub-value at `c ++ st2 :: p` leaves the sub-value at any
path `c ++ st1 :: q` with `st1 ≠ st2` (a sibling field / element, or anything below it) unchanged. -/
theorem resolve_subst_other (c : List Step) : ∀ (s : Shape) (v : Val) (st1 st2 : Step) (p q : List Step) (x : Val),
    st1 ≠ st2 → resolve s (subst s v (c ++ st2 :: p) x) (c ++ st1 :: q) = resolve s v (c ++ st1 :: q) := by
  induction c with
  | nil =>
    intro s v st1 st2 p q x hne
    simp only [List.nil_append, subst, resolve]
    cases h2 : resolve1 s v st2 with
    | error e => rfl
    | ok tu => obtain ⟨t, u⟩ := tu; simp only []; rw [resolve1_subst1_other s v st1 st2 _ hne]
  | cons st c ih =>
    intro s v st1 st2 p q x hne
    simp only [List.cons_append, subst, resolve]
    cases h1 : resolve1 s v st with
    | error e => simp only [h1]
    | ok tu =>
      obtain ⟨t, u⟩ := tu
      simp only []
      rw [resolve1_subst1 s v st t u _ h1]
      simp only []
      exact ih t u st1 st2 p q x hne


/-- Sub-values of a well-formed value are well formed (in particular: sorted where they must be). -/
theorem resolve_good (p : List Step) : ∀ (s : Shape) (v : Val) (t : Shape) (u : Val), Good s v →
    resolve s v p = .ok (t, u) → Good t u := by
  induction p with
  | nil => intro s v t u g h; simp [resolve] at h; obtain ⟨rfl, rfl⟩ := h; exact g
  | cons st p ih =>
    intro s v t u g h
    simp only [resolve] at h
    cases h1 : resolve1 s v st with
    | error e => simp [h1] at h
    | ok tu =>
      obtain ⟨t1, u1⟩ := tu
      simp only [h1] at h
      exact ih t1 u1 t u (step_facts s v st t1 u1 g h1).1 h

end Unsized.Machine
