import Unsized.PtrHonestM11
namespace Unsized.Ptr
open Common Unsized Unsized.Text Unsized.Machine Unsized.PtrT Unsized.PtrM

/-- What one op line (at the accessor path `π`, node shape `t`) does to buffer `A` of an honest world. -/
def StepRes (w : World) (s : Shape) (v : Val) (π : List Step) (t : Shape) (u : Val) (op : Op)
    (r : World × OpOut) : Prop :=
  match r.2 with
  | .bad => r.1 = w
  | .panic => False
  | .done res _ => ∃ v' u' T', PCtx r.1 .A s v' ∧ resolve s v' π = .ok (t, u')
      ∧ HonPath s v' r.1.a.base π r.1.a.root T' ∧ Hon t u' (r.1.a.base + offsetOf s v' π) T'
      ∧ r.1.a.levels = w.a.levels ∧ r.1.a.base = w.a.base ∧ r.1.a.mem.orig = w.a.mem.orig ∧ r.1.b = w.b
      ∧ r.1.a.finished = w.a.finished ∧ r.1.a.dead = w.a.dead
      ∧ ((∃ r', Spec.applyNode t u op = .ok (u', r') ∧ res = .ok r' ∧ v' = subst s v π u')
         ∨ (∃ e, Spec.applyNode t u op = .error e ∧ res = .error e ∧ v' = v ∧ u' = u)
         ∨ (simpleOp op = false ∧ v' = subst s v π u'))

theorem srcOf_other (t : Shape) (b : Nat) (op : Op) (m : Mem) (h2 : ∀ kw e, t ≠ .umap kw e) : srcOf t b op m = b := by
  unfold srcOf
  split
  · exact absurd rfl (h2 _ _)
  · exact absurd rfl (h2 _ _)
  · rfl

/-- The byte-level invariant after a successful op. -/
theorem pctx_after {w : World} {s : Shape} {v v' : Val} (c : PCtx w .A s v) (m' : Mem) (root : PtrTree)
    (g' : Good s v') (hb : m'.bytes = encode s v') (ho : m'.orig = w.a.mem.orig) (hr : m'.refuse = w.a.mem.refuse)
    (hroom : (encode s v').length ≤ w.a.mem.orig + maxIncrease) :
    PCtx ((w.set .A { w.a with mem := m' }).set .A
      { ((w.set .A { w.a with mem := m' }).get .A) with root := root }) .A s v' := by
  have := c.calm
  have hb0 := c.big
  have hf0 := c.far
  simp only [World.get] at hb0 hf0 this
  refine ⟨g', c.ok, c.nd, ?_, ?_, ownsOwn_A _, ⟨?_, ?_⟩⟩
  · simpa [World.set, World.get] using hb
  · simp only [World.set, World.get]
    exact ⟨by rw [hr]; exact this.noRefuse, by rw [ho]; exact this.small, by rw [hb, ho]; exact hroom⟩
  · simp only [World.set, World.get]; rw [ho]; exact hf0
  · simp only [World.set, World.get]; rw [ho]; exact hb0


/-- A successful op other than `set_data_inner` on a struct / enum / … node (`touch`, `write` of the sized
part) does not change the geometry. -/
theorem plain_nonSD (t : Shape) (u u' : Val) (op : Op) (r : Ret) (B : Nat) (T : PtrTree)
    (hl : leafy t = false) (hnl : ∀ e, t ≠ .ulist e) (hnm : ∀ kw e, t ≠ .umap kw e)
    (hs : Spec.applyNode t u op = .ok (u', r)) (hn : setDataLen t op = none) (hT : Hon t u B T) :
    Hon t u' B T ∧ size t u' = size t u := by
  cases op <;> simp only [setDataLen] at hn <;> try (cases hn)
  all_goals
    first
    | (simp only [Spec.applyNode] at hs; cases hs; exact ⟨hT, rfl⟩)
    | (cases t <;> first
        | (simp [leafy] at hl; done)
        | exact absurd rfl (hnl _)
        | exact absurd rfl (hnm _ _)
        | (cases u <;> simp only [Spec.applyNode] at hs <;> first
            | (cases hs; done)
            | (split at hs
               · cases hs; exact ⟨by simpa [Hon] using hT, by simp [size]⟩
               · cases hs)))

theorem opAt_hon_plain {w : World} {s : Shape} {v : Val} (c : PCtx w .A s v) (π : List Step) (t : Shape) (u : Val)
    (hres : resolve s v π = .ok (t, u)) (T : PtrTree) (hp : HonPath s v w.a.base π w.a.root T)
    (hT : Hon t u (w.a.base + offsetOf s v π) T) (hnl : ∀ e, t ≠ .ulist e) (hnm : ∀ kw e, t ≠ .umap kw e)
    (hnd : ∀ d i, t ≠ .disc d i) (op : Op) (hs : simpleOp op = true)
    (hcmd : match Spec.applyNode t u op with
      | .ok (u', _) => (plug s v π (encode t u')).length ≤ w.a.mem.orig + maxIncrease
      | .error e => e ≠ .initFail) :
    StepRes w s v π t u op (opAt w .A ⟨s, π⟩ (tpath s v π) t op) := by
  have F : Focus s v π t u w.a.mem := ⟨c.good, hres, c.bytes⟩
  have gt := F.sub
  obtain ⟨hsub, hrep⟩ := honPath_nav π s v t u _ _ T c.good hres hp
  have hle := offsetOf_le π s v t u c.good hres
  have hfit := c.calm.fitsNow
  have hbytes := c.bytes
  simp only [World.get] at hfit hbytes
  -- the prologue, whatever its class
  have key1 : ∀ pre, runPre w w.a.rng t T pre ≠ none := by
    intro pre h
    obtain ⟨T1, h1, _⟩ := prologue_hon c π t u hres T hT pre
    simp only [World.get] at h1; rw [h] at h1; cases h1
  have key2 : ∀ pre t1, runPre w w.a.rng t T pre = some t1 → Hon t u (w.a.base + offsetOf s v π) t1 := by
    intro pre t1 h
    obtain ⟨T1, h1, h2, _⟩ := prologue_hon c π t u hres T hT pre
    simp only [World.get] at h1 h2; rw [h] at h1; cases h1; exact h2
  unfold opAt
  simp only [World.get, hsub]
  cases hsa : startAddr T with
  | none => simp only [StepRes]
  | some a =>
    have ha : a = w.a.base + offsetOf s v π := startAddr_hon t u _ T a gt hT hnd hsa
    subst ha
    have hown : w.owner (w.a.base + offsetOf s v π) = some .A :=
      ownsOwn_A w _ (by simp [World.get, PBuf.owns, hbytes]; omega)
    have hb : w.a.base + offsetOf s v π - w.a.base = offsetOf s v π := by omega
    simp only [hown, World.get, hb]
    have hrun := fun R1 t1 (h1 : HonPath s v w.a.base π R1 t1) (h2 : Hon t u (w.a.base + offsetOf s v π) t1) =>
      run_op c π t u hres R1 t1 h1 h2 op hs (srcOf_other t _ op _ hnm) hcmd
    simp only [RunOut, World.get] at hrun
    rcases htr : applyAtT ⟨s, π⟩ t (offsetOf s v π) op w.a.mem with ⟨⟨m', res⟩, evs⟩
    rw [htr] at hrun
    simp only [] at hrun
    have hpreT : ∀ len found t1, runPre w w.a.rng t T (preOf t len found op) = some t1 → t1 = T := by
      intro len found t1 h
      rcases preOf_other t len found op hnl hnm with hq | hq <;> rw [hq] at h <;> simp only [runPre] at h
      · cases h; rfl
      · split at h
        · cases h; rfl
        · cases h
    have hlno : ∀ t2, listOf t t2 = none := fun t2 => listOf_none t t2 hnl hnm
    have hon : ∀ t2 f, onList t t2 f = t2 := fun t2 f => onList_other t t2 f hnl hnm
    cases res with
    | ok r =>
      simp only []
      split
      · rename_i heq; exact absurd heq (key1 _)
      · rename_i t1 heq
        have ht1 := hpreT _ _ _ heq
        subst ht1
        obtain ⟨R1, hR1, hp1⟩ := hrep t1
        simp only [hR1, Option.getD_some]
        rcases hrun R1 t1 hp1 hT with ⟨e, _, h, _⟩ | ⟨u', r', m1, hspec, heq2, F', ho, hr, hcases⟩
        · cases h
        · cases heq2
          have g' := F'.good
          have hres' := resolve_subst π s v t u u' hres
          have hoff' := offsetOf_subst π s v t u u' c.good hres
          have htp' := tpath_subst π s v t u u' hres
          have hroom : (encode s (subst s v π u')).length ≤ w.a.mem.orig + maxIncrease := by
            rw [subst_encode π s v t u u' c.good hres]; rw [hspec] at hcmd; exact hcmd
          have hfresh := fresh_after s _ π t u' g' hres' w { w.a with mem := m' } F'.bytes
          simp only [hoff'] at hfresh
          obtain ⟨root2, T2, hrunE, hp2, hsa2, hT2⟩ : ∃ root2 T2, runEvs w w.a R1 evs = .ok root2
              ∧ HonPath s (subst s v π u') w.a.base π root2 T2
              ∧ startAddr T2 = some (w.a.base + offsetOf s v π)
              ∧ (setDataLen t op = none → Hon t u' (w.a.base + offsetOf s v π) T2) := by
            rcases hcases with ⟨hsz, hre⟩ | ⟨neg, amt, snap, R2, T2, hre, hp2, hself, hsz, hng, hpos, _⟩
            · refine ⟨R1, t1, hre, honPath_same π s v t u u' _ R1 t1 c.good g' hres hsz hp1, hsa, ?_⟩
              intro hn
              by_cases hlf : leafy t = true
              · exact (hon_leafy t u u' _ t1 hlf hT).2
              · exact (plain_nonSD t u u' op r _ t1 (by simpa using hlf) hnl hnm hspec hn hT).1
            · refine ⟨R2, T2, hre, hp2, startAddr_notify_self _ neg amt t1 T2 _ hsa hself, ?_⟩
              intro hn
              by_cases hlf : leafy t = true
              · have := self_notify_leaf t u u' (uszIn w w.a.base snap) (w.a.base + offsetOf s v π) neg amt (by
                  cases t <;> simp [leafy] at hlf <;> rfl)
                rw [← (hon_leafy t u u _ t1 hlf hT).1] at this
                rw [hself] at this; cases this
                exact hon_treeOf t u' _
              · exfalso
                have hp := plain_nonSD t u u' op r _ t1 (by simpa using hlf) hnl hnm hspec hn hT
                rw [hp.2] at hsz
                cases neg with
                | false => simp only [applyDelta, Bool.false_eq_true, if_false] at hsz; omega
                | true => have := hng rfl; simp only [applyDelta, if_true] at hsz; omega
          obtain ⟨hsub2, hrep2⟩ := honPath_nav π s _ t u' _ _ T2 g' hres' hp2
          rw [htp'] at hsub2 hrep2
          simp only [hrunE, if_true, hsub2, hon, hlno, hsa2]
          cases hsd : setDataLen t op with
          | none =>
            simp only []
            split
            · contradiction
            obtain ⟨R3, hR3, hp3⟩ := hrep2 T2
            simp only [hR3, Option.getD_some, StepRes]
            refine ⟨subst s v π u', u', T2, ?_, hres', ?_, ?_, rfl, rfl, ?_, rfl, rfl, rfl, Or.inl ⟨r, hspec, rfl, rfl⟩⟩
            · exact pctx_after c m' R3 g' F'.bytes ho hr hroom
            · simpa [World.set, World.get] using hp3
            · simp only [World.set, World.get, hoff']; exact hT2 hsd
            · simpa [World.set, World.get] using ho
          | some n =>
            have hn := setDataLen_spec t u u' op r n hsd hspec
            subst hn
            simp only [hfresh]
            obtain ⟨R3, hR3, hp3⟩ := hrep2 (treeOf t u' (w.a.base + offsetOf s v π))
            simp only [hR3, Option.getD_some, StepRes]
            refine ⟨subst s v π u', u', treeOf t u' (w.a.base + offsetOf s v π), ?_, hres', ?_, ?_, rfl, rfl, ?_, rfl, rfl, rfl, Or.inl ⟨r, hspec, rfl, rfl⟩⟩
            · exact pctx_after c m' R3 g' F'.bytes ho hr hroom
            · simpa [World.set, World.get] using hp3
            · simp only [World.set, World.get, hoff']; exact hon_treeOf t u' _
            · simpa [World.set, World.get] using ho
    | error e =>
      cases e
      case bad => simp only [StepRes]
      all_goals (
        simp only []
        split
        · rename_i heq; exact absurd heq (key1 _)
        · rename_i t1 heq
          have ht1 := hpreT _ _ _ heq
          subst ht1
          obtain ⟨R1, hR1, hp1⟩ := hrep t1
          simp only [hR1, Option.getD_some]
          rcases hrun R1 t1 hp1 hT with ⟨e', hspec, h, hre⟩ | ⟨u', r', m1, hspec, heq2, _⟩
          · cases h
            simp only [hre, Bool.false_eq_true, if_false, StepRes]
            refine ⟨v, u, t1, ?_, hres, ?_, ?_, rfl, rfl, rfl, rfl, rfl, rfl, Or.inr (Or.inl ⟨_, hspec, rfl, rfl, rfl⟩)⟩
            · exact pctx_after c w.a.mem R1 c.good hbytes rfl rfl (by rw [← hbytes]; exact hfit)
            · simpa [World.set, World.get] using hp1
            · simpa [World.set, World.get] using hT
          · cases heq2)

end Unsized.Ptr
