import Unsized.RuntimeSteps
/-!
# Vocabulary of the C07 property statements

`Fresh` / `Reachable` (what the theorems quantify over), `Good` (what each answer must be),
borrow/release cycles, the D7 witness state — plus the three glue lemmas that tie them to the
invariant. The property theorems themselves are in `Unsized/Props/C07.lean`.
-/
namespace Unsized.C07
open Unsized.Runtime

/-- A fresh account at instruction start holding a well-formed layout. `len ≤ 2^31 - 10241`
(accounts are at most 10 MiB) and the address bound are facts of the runtime. -/
structure Fresh (s : State) : Prop where
  ex : ∃ base wr ks cs len, s = mkState base wr ks cs len ∧ LayoutOK ks cs (base + DISC) (base + len) ∧
    len + MAX_INC ≤ 2147483647 ∧ base + len + MAX_INC + MAX_INC ≤ 4611686018427387904

/-- Reachable = the state after some history from a fresh account. -/
def Reachable (s : State) : Prop := ∃ s0 ops, Fresh s0 ∧ s = (run s0 ops).1

theorem reachable_inv {s : State} (h : Reachable s) : Inv s := by
  obtain ⟨s0, ops, ⟨base, wr, ks, cs, len, rfl, hl, h1, h2⟩, rfl⟩ := h
  exact (run_inv ops (inv_mkState hl h1 h2)).1

theorem reachable_step {s : State} (h : Reachable s) (op : Op) : Reachable (step s op).1 := by
  obtain ⟨s0, ops, hf, rfl⟩ := h
  refine ⟨s0, ops ++ [op], hf, ?_⟩
  have : ∀ (ops : List Op) (s : State), (run s (ops ++ [op])).1 = (step (run s ops).1 op).1 := by
    intro ops
    induction ops with
    | nil => intro s; simp [run]
    | cons o os ih => intro s; simp only [List.cons_append, run]; exact ih _
  exact (this ops s0).symm

/-- What the answer to `op` in state `s` must be. `seen`/`counts` are the field element counts, i.e.
the value as far as this model tracks it; `len` is `data_len()`. -/
def Good (s : State) (op : Op) (ans : Ans) : Prop :=
  ans ≠ .panic ∧
  match op with
  | .borrowMut =>
    -- no live borrow, writable: the exclusive borrow succeeds and sees the CURRENT length and value
    s.acct.writable = true → s.excl = none → s.shared = [] →
      ans = .borrowedMut s.next s.acct.len s.acct.delta (s.acct.borrow - 8) 0 ((s.acct.orig + MAX_INC : Nat) : Int) s.counts
  | .borrow =>
    s.excl = none → s.shared.length < 7 →
      ans = .borrowed s.next s.acct.len s.acct.delta (s.acct.borrow - 1) s.counts
  | .release k =>
    -- dropping the exclusive wrapper: the pointer assertion holds, the flag is given back
    (∀ w, s.excl = some w → w.h = k → ans = .released (s.acct.borrow + 8)) ∧
    (s.excl = none → k ∈ s.shared → ans = .released (s.acct.borrow + 1))
  | .grow f n =>
    ∀ w k c, s.excl = some w → s.kinds[f]? = some k → s.counts[f]? = some c → k.isSized = false → n ≤ N_CAP →
      s.acct.len + k.unit * n ≤ s.acct.orig + MAX_INC →
      ans = .resized (s.acct.len + k.unit * n) (((s.acct.len + k.unit * n : Nat) : Int) - (s.acct.orig : Int))
        (s.counts.set f (c + n))
  | .shrink f n =>
    ∀ w k c, s.excl = some w → s.kinds[f]? = some k → s.counts[f]? = some c → k.isSized = false → n ≤ N_CAP →
      n ≤ c →
      ans = .resized (s.acct.len - k.unit * n) (((s.acct.len - k.unit * n : Nat) : Int) - (s.acct.orig : Int))
        (s.counts.set f (c - n))
  | .query => ans = .info s.acct.len s.acct.delta s.acct.borrow

theorem step_good {s : State} (h : Inv s) (op : Op) : Good s op (step s op).2 := by
  refine ⟨(step_inv h op).2, ?_⟩
  cases op with
  | borrowMut => intro hw he hs; simp only [step, accountDataMut_idle h hw he hs]
  | borrow => intro he hs; simp only [step, accountData_free h he hs]
  | release k =>
    refine ⟨fun w hw hk => ?_, fun he hm => ?_⟩
    · simp only [step, release_excl h hw hk]
    · simp only [step, release_shared h he hm]
  | grow f n =>
    intro w k c he hk hc hns hn hfit
    simp only [step, (grow_fits h he hk hc hns hn hfit).1]
  | shrink f n =>
    intro w k c he hk hc hns hn hnc
    simp only [step, (shrink_ok h he hk hc hns hn hnc).1]
  | query => simp [step]

/-- One exclusive borrow/release cycle resp. one shared borrow/release cycle. -/
def cycleMut (s : State) : State := (step (step s .borrowMut).1 (.release s.next)).1
def cycleShared (s : State) : State := (step (step s .borrow).1 (.release s.next)).1

def iter (f : State → State) : Nat → State → State
  | 0, s => s
  | n + 1, s => iter f n (f s)

/-- D7: `{a: List<u8> x 2000, b: List<u8> x 18000}`. -/
def d7 : State := mkState 1048576 true [.list, .list] [2000, 18000] 20016

/-- The state after `borrow_mut; shrink b 15000; release`. -/
def d7Shrunk : State := (run d7 [.borrowMut, .shrink 1 15000, .release 0]).1

/-- The drop check of a fresh wrapper over `s`, with the range computed by `dm`. -/
def dropCheckWith (dm : Acct → Acct × Res (Nat × Nat × Nat)) (s : State) : Option Bool :=
  match dm s.acct with
  | (_, .ok (_, lo, hi)) => some (checkPointers lo hi lo (ptrsFrom (s.acct.base + DISC) s.kinds s.counts))
  | _ => none

end Unsized.C07
