import Unsized.MachinePlug
/-!
# Facts about one accessor step on canonical bytes (`step_facts`): the child is again well-formed,
`encode` splits around it, and `child` finds it at `base + |stepPre|`
-/
namespace Unsized.Machine
open Common Unsized Unsized.Text

theorem tbl_nokeys (offs : List Nat) (vs : List Val) (h : offs.length = vs.length) :
    tbl offs (vs.map fun _ => ([] : List Nat)) = (offs.map (leN 4)).flatten := by
  induction offs generalizing vs with
  | nil => simp
  | cons o os ih =>
    cases vs with
    | nil => simp at h
    | cons v vs => simp [ih vs (by simpa using h)]

theorem encode_ulist_uBytes (e : Shape) (vs : List Val) :
    encode (.ulist e) (.useq vs) = uBytes (vs.map fun _ => []) (vs.map (encode e)) := by
  simp only [encode, uBytes, uHdrOf, List.length_map]
  rw [tbl_nokeys _ vs (by simp)]

theorem encode_umap_uBytes (kw : Nat) (e : Shape) (es : List (List Nat × Val)) :
    encode (.umap kw e) (.umap es) = uBytes (es.map (·.1)) (es.map fun kv => encode e kv.2) := by
  simp only [encode, uBytes, uHdrOf, List.length_map, tbl, List.zipWith_map_right]

theorem all_get {α : Type} (l : List α) (p : α → Bool) (i : Nat) (x : α) (h : l.all p = true)
    (hx : l[i]? = some x) : p x = true := by
  rw [List.all_eq_true] at h
  exact h x (List.mem_of_getElem? hx)

theorem good_ulist_elem (e : Shape) (vs : List Val) (i : Nat) (x : Val) (g : Good (.ulist e) (.useq vs))
    (hx : vs[i]? = some x) : Good e x ∧ e.zst = false := by
  obtain ⟨⟨top, ie, hok⟩, hv, hf⟩ := g
  simp only [Shape.okAux, Bool.and_eq_true, Bool.not_eq_true'] at hok
  simp only [valid] at hv
  simp only [fits, Bool.and_eq_true] at hf
  exact ⟨⟨⟨false, false, hok.1⟩, all_get vs _ i x hv hx, all_get vs _ i x hf.2 hx⟩, hok.2⟩

theorem good_umap_elem (kw : Nat) (e : Shape) (es : List (List Nat × Val)) (i : Nat) (kx : List Nat × Val)
    (g : Good (.umap kw e) (.umap es)) (hx : es[i]? = some kx) :
    Good e kx.2 ∧ e.zst = false ∧ kx.1.length = kw := by
  obtain ⟨⟨top, ie, hok⟩, hv, hf⟩ := g
  simp only [Shape.okAux, Bool.and_eq_true, Bool.not_eq_true', decide_eq_true_eq] at hok
  simp only [valid, Bool.and_eq_true] at hv
  simp only [fits, Bool.and_eq_true] at hf
  have h1 := all_get es _ i kx hv.1 hx
  have h2 := all_get es _ i kx hf.2 hx
  simp only [Bool.and_eq_true, beq_iff_eq, decide_eq_true_eq] at h1
  exact ⟨⟨⟨false, false, hok.1.2⟩, h1.2, h2⟩, hok.2, h1.1.1⟩

theorem validFields_get (fs : List Shape) (vs : List Val) (i : Nat) (f : Shape) (x : Val)
    (hf : fs[i]? = some f) (hx : vs[i]? = some x) (h : validFields fs vs = true) : valid f x = true := by
  induction i generalizing fs vs with
  | zero =>
    cases fs with
    | nil => simp at hf
    | cons f' fs => cases vs with
      | nil => simp at hx
      | cons x' vs => simp at hf hx; subst hf hx; simp [validFields] at h; exact h.1
  | succ i ih =>
    cases fs with
    | nil => simp at hf
    | cons f' fs => cases vs with
      | nil => simp at hx
      | cons x' vs => simp at hf hx; simp [validFields] at h; exact ih fs vs hf hx h.2

theorem fitsFields_get (fs : List Shape) (vs : List Val) (i : Nat) (f : Shape) (x : Val)
    (hf : fs[i]? = some f) (hx : vs[i]? = some x) (h : fitsFields fs vs = true) : fits f x = true := by
  induction i generalizing fs vs with
  | zero =>
    cases fs with
    | nil => simp at hf
    | cons f' fs => cases vs with
      | nil => simp at hx
      | cons x' vs => simp at hf hx; subst hf hx; simp [fitsFields] at h; exact h.1
  | succ i ih =>
    cases fs with
    | nil => simp at hf
    | cons f' fs => cases vs with
      | nil => simp at hx
      | cons x' vs => simp at hf hx; simp [fitsFields] at h; exact ih fs vs hf hx h.2

theorem good_struct_field (sized : List Fixed) (fs : List Shape) (sz : List Nat) (vs : List Val) (i : Nat)
    (f : Shape) (x : Val) (g : Good (.struct sized fs) (.record sz vs)) (hf : fs[i]? = some f)
    (hx : vs[i]? = some x) : Good f x := by
  obtain ⟨⟨top, ie, hok⟩, hv, hfit⟩ := g
  simp only [Shape.okAux, Bool.and_eq_true] at hok
  simp only [valid, Bool.and_eq_true] at hv
  simp only [fits] at hfit
  exact ⟨⟨false, false, okFields_get fs i f hf hok.2⟩, validFields_get fs vs i f x hf hx hv.2,
    fitsFields_get fs vs i f x hf hx hfit⟩


theorem validVariant_get (ps : List Shape) (i : Nat) (pl : Val) (h : validVariant ps i pl = true) :
    ∃ t, ps[i]? = some t ∧ valid t pl = true := by
  induction i generalizing ps with
  | zero => cases ps with
    | nil => simp [validVariant] at h
    | cons p ps => exact ⟨p, by simp, by simpa [validVariant] using h⟩
  | succ i ih => cases ps with
    | nil => simp [validVariant] at h
    | cons p ps => simpa using ih ps (by simpa [validVariant] using h)

theorem fitsVariant_get (ps : List Shape) (i : Nat) (pl : Val) (t : Shape) (ht : ps[i]? = some t)
    (h : fitsVariant ps i pl = true) : fits t pl = true := by
  induction i generalizing ps with
  | zero => cases ps with
    | nil => simp at ht
    | cons p ps => simp at ht; subst ht; simpa [fitsVariant] using h
  | succ i ih => cases ps with
    | nil => simp at ht
    | cons p ps => exact ih ps (by simpa using ht) (by simpa [fitsVariant] using h)

theorem okPayloads_get (ps : List Shape) (i : Nat) (t : Shape) (ht : ps[i]? = some t)
    (h : Shape.okPayloads ps = true) : Shape.okAux false true t = true := by
  induction i generalizing ps with
  | zero => cases ps with
    | nil => simp at ht
    | cons p ps => simp at ht; subst ht; simp [Shape.okPayloads] at h; exact h.1
  | succ i ih => cases ps with
    | nil => simp at ht
    | cons p ps => simp [Shape.okPayloads] at h; exact ih ps (by simpa using ht) h.2

theorem encodeVariant_get (ds : List Nat) (ps : List Shape) (i : Nat) (pl : Val) (d : Nat) (t : Shape)
    (hd : ds[i]? = some d) (ht : ps[i]? = some t) : encodeVariant ds ps i pl = d :: encode t pl := by
  induction i generalizing ds ps with
  | zero => cases ds with
    | nil => simp at hd
    | cons d' ds => cases ps with
      | nil => simp at ht
      | cons p ps => simp at hd ht; subst hd ht; simp [encodeVariant]
  | succ i ih => cases ds with
    | nil => simp at hd
    | cons d' ds => cases ps with
      | nil => simp at ht
      | cons p ps => simp at hd ht; simp [encodeVariant, ih ds ps hd ht]

theorem variantOf_get (ds : List Nat) (ps : List Shape) (i : Nat) (d : Nat) (t : Shape)
    (hd : ds[i]? = some d) (ht : ps[i]? = some t) (hnd : ds.Nodup) : variantOf ds ps d = some t := by
  induction i generalizing ds ps with
  | zero => cases ds with
    | nil => simp at hd
    | cons d' ds => cases ps with
      | nil => simp at ht
      | cons p ps => simp at hd ht; subst hd ht; simp [variantOf]
  | succ i ih => cases ds with
    | nil => simp at hd
    | cons d' ds => cases ps with
      | nil => simp at ht
      | cons p ps =>
        simp at hd ht
        have hne : d ≠ d' := by
          intro h; subst h
          have := (List.nodup_cons.1 hnd).1
          exact this (List.mem_of_getElem? hd)
        simp [variantOf, hne, ih ds ps hd ht (List.nodup_cons.1 hnd).2]


theorem map_encode_length (e : Shape) (vs : List Val) (h : vs.all (valid e) = true) :
    (vs.map (encode e)).map List.length = vs.map (size e) := by
  rw [List.map_map]
  apply List.map_congr_left
  intro x hx
  rw [List.all_eq_true] at h
  exact encode_size_all e x (h x hx)

theorem set_self_length (datas : List (List Nat)) (i : Nat) (hi : i < datas.length) :
    (datas.map List.length).set i (datas[i]).length = datas.map List.length := by
  apply List.ext_getElem (by simp)
  intro j h1 h2
  by_cases hji : i = j
  · subst hji; simp
  · simp [List.getElem_set_ne hji]

theorem map_encode_length_kv (e : Shape) (es : List (List Nat × Val))
    (h : es.all (fun kv => valid e kv.2) = true) :
    (es.map fun kv => encode e kv.2).map List.length = es.map (fun kv => size e kv.2) := by
  rw [List.map_map]
  apply List.map_congr_left
  intro x hx
  rw [List.all_eq_true] at h
  exact encode_size_all e x.2 (h x hx)

theorem step_facts (s : Shape) (v : Val) (st : Step) (t : Shape) (u : Val) (g : Good s v)
    (h : resolve1 s v st = .ok (t, u)) :
    Good t u
    ∧ encode s v = stepPre s v st (encode t u).length ++ encode t u ++ stepPost s v st
    ∧ (∀ n m, (stepPre s v st n).length = (stepPre s v st m).length)
    ∧ (∀ (pre Z : List Nat) (base : Nat), base = pre.length →
        child s st base (pre ++ stepPre s v st (encode t u).length ++ Z)
          = .ok (t, base + (stepPre s v st 0).length)) := by
  unfold resolve1 at h
  split at h
  · -- struct
    rename_i sized fs sz vs i
    split at h
    · rename_i f x hf hx
      cases h
      have gc := good_struct_field sized fs sz vs i t u g hf hx
      obtain ⟨⟨top, ie, hok⟩, hv, hfit⟩ := g
      simp only [Shape.okAux, Bool.and_eq_true] at hok
      simp only [valid, Bool.and_eq_true, beq_iff_eq] at hv
      simp only [fits] at hfit
      refine ⟨gc, ?_, fun _ _ => rfl, ?_⟩
      · simp only [encode, stepPre, stepPost]
        rw [encodeFields_split fs vs i t u hf hx]; simp [List.append_assoc]
      · intro pre Z base hb
        have hil : i < fs.length := by
          rcases Nat.lt_or_ge i fs.length with h | h
          · exact h
          · simp [List.getElem?_eq_none h] at hf
        simp only [child, stepPre, hil, if_true]
        have e : pre ++ (sz ++ encodeFields (fs.take i) (vs.take i)) ++ Z
            = (pre ++ sz) ++ encodeFields (fs.take i) (vs.take i) ++ Z := by simp [List.append_assoc]
        rw [e, fieldBase_enc fs vs i t u hf hx hok.2 hv.2 hfit (pre ++ sz) Z _ (by simp [hb, hv.1.1.1])]
        simp [hv.1.1.1]; omega
    · cases h
  · -- ulist
    rename_i e vs i
    split at h
    · rename_i x hx
      cases h
      obtain ⟨gc, hz⟩ := good_ulist_elem t vs i u g hx
      obtain ⟨_, hv, hfit⟩ := g
      simp only [valid] at hv
      simp only [fits, Bool.and_eq_true, decide_eq_true_eq] at hfit
      have hi : i < vs.length := by
        rcases Nat.lt_or_ge i vs.length with h | h
        · exact h
        · simp [List.getElem?_eq_none h] at hx
      have hxi : vs[i] = u := by
        have := List.getElem?_eq_getElem hi; rw [hx] at this; exact (Option.some.inj this).symm
      have hdi : (vs.map (encode t))[i]'(by simpa using hi) = encode t u := by simp [hxi]
      have hkeys : ∀ k ∈ vs.map (fun _ => ([] : List Nat)), k.length = 0 := by
        intro k hk; obtain ⟨_, _, rfl⟩ := List.mem_map.1 hk; rfl
      have hsizes := map_encode_length t vs hv
      refine ⟨gc, ?_, ?_, ?_⟩
      · rw [encode_ulist_uBytes, uBytes_split _ _ i (by simpa using hi), hdi]
        simp only [stepPre, stepPost, List.map_take, List.map_drop]
      · intro n m
        simp only [stepPre, List.length_append]
        rw [uHdrOf_length 0 _ _ (by simp) hkeys, uHdrOf_length 0 _ _ (by simp) hkeys]; simp
      · intro pre Z base hb
        have hself : ((vs.map (encode t)).map List.length).set i (encode t u).length
            = (vs.map (encode t)).map List.length := by
          have := set_self_length (vs.map (encode t)) i (by simpa using hi)
          rw [hdi] at this; exact this
        have hbytes : pre ++ stepPre (.ulist t) (.useq vs) (.elem i) (encode t u).length ++ Z
            = pre ++ uHdrOf (vs.map fun _ => []) ((vs.map (encode t)).map List.length)
              ++ (((vs.take i).map (encode t)).flatten ++ Z) := by
          simp only [stepPre, hself, List.append_assoc]
        have hlenr := rd32_uHdr_len (vs.map fun _ => ([] : List Nat)) ((vs.map (encode t)).map List.length) pre
          (((vs.take i).map (encode t)).flatten ++ Z) base hb (by simpa using hfit.1.1)
        have hoff := rd32_uHdr_off 0 (vs.map fun _ => ([] : List Nat)) ((vs.map (encode t)).map List.length) pre
          (((vs.take i).map (encode t)).flatten ++ Z) base i hb (by simp) hkeys
          (by rw [hsizes]; exact hfit.1.2) (by simpa using hi)
        simp only [Nat.add_zero, List.length_map] at hoff hlenr
        rw [hbytes]
        simp only [child, hlenr, hoff, hi, if_true]
        simp only [stepPre, List.length_append]
        rw [uHdrOf_length 0 _ _ (by simp) hkeys, sum_map_length_take, List.map_take]
        simp only [List.length_set, List.length_map, Nat.add_zero]
        congr 2; omega
    · cases h
  · -- umap
    rename_i kw e es i
    split at h
    · rename_i kx hx
      cases h
      obtain ⟨gc, hz, hkx⟩ := good_umap_elem kw t es i kx g hx
      obtain ⟨_, hv, hfit⟩ := g
      simp only [valid, Bool.and_eq_true] at hv
      simp only [fits, Bool.and_eq_true, decide_eq_true_eq] at hfit
      have hvall : es.all (fun kv => valid t kv.2) = true := by
        rw [List.all_eq_true] at hv ⊢
        intro x hx'; have := hv.1 x hx'; simp only [Bool.and_eq_true] at this; exact this.2
      have hi : i < es.length := by
        rcases Nat.lt_or_ge i es.length with h | h
        · exact h
        · simp [List.getElem?_eq_none h] at hx
      have hxi : es[i] = kx := by
        have := List.getElem?_eq_getElem hi; rw [hx] at this; exact (Option.some.inj this).symm
      have hdi : (es.map fun kv => encode t kv.2)[i]'(by simpa using hi) = encode t kx.2 := by simp [hxi]
      have hkeys : ∀ k ∈ es.map (·.1), k.length = kw := by
        intro k hk; obtain ⟨kv, hkv, rfl⟩ := List.mem_map.1 hk
        have := (List.all_eq_true.1 hv.1) kv hkv
        simp only [Bool.and_eq_true, beq_iff_eq] at this; exact this.1.1
      have hsizes := map_encode_length_kv t es hvall
      refine ⟨gc, ?_, ?_, ?_⟩
      · rw [encode_umap_uBytes, uBytes_split _ _ i (by simpa using hi), hdi]
        simp only [stepPre, stepPost, List.map_take, List.map_drop]
      · intro n m
        simp only [stepPre, List.length_append]
        rw [uHdrOf_length kw _ _ (by simp) hkeys, uHdrOf_length kw _ _ (by simp) hkeys]; simp
      · intro pre Z base hb
        have hself : ((es.map fun kv => encode t kv.2).map List.length).set i (encode t kx.2).length
            = (es.map fun kv => encode t kv.2).map List.length := by
          have := set_self_length (es.map fun kv => encode t kv.2) i (by simpa using hi)
          rw [hdi] at this; exact this
        have hbytes : pre ++ stepPre (.umap kw t) (.umap es) (.elem i) (encode t kx.2).length ++ Z
            = pre ++ uHdrOf (es.map (·.1)) ((es.map fun kv => encode t kv.2).map List.length)
              ++ (((es.take i).map fun kv => encode t kv.2).flatten ++ Z) := by
          simp only [stepPre, hself, List.append_assoc]
        have hlenr := rd32_uHdr_len (es.map (·.1)) ((es.map fun kv => encode t kv.2).map List.length) pre
          (((es.take i).map fun kv => encode t kv.2).flatten ++ Z) base hb (by simpa using hfit.1.1)
        have hoff := rd32_uHdr_off kw (es.map (·.1)) ((es.map fun kv => encode t kv.2).map List.length) pre
          (((es.take i).map fun kv => encode t kv.2).flatten ++ Z) base i hb (by simp) hkeys
          (by rw [hsizes]; exact hfit.1.2) (by simpa using hi)
        simp only [List.length_map] at hoff hlenr
        rw [hbytes]
        simp only [child, Shape.entryW, hlenr, hoff, hi, if_true]
        simp only [stepPre, List.length_append]
        rw [uHdrOf_length kw _ _ (by simp) hkeys, sum_map_length_take, List.map_take]
        simp only [List.length_set, List.length_map]
        congr 2; omega
    · cases h
  · -- enum
    rename_i ds ps idx pl
    split at h
    · cases h
    · cases h
    · rename_i t' hnu ht
      cases h
      obtain ⟨⟨top, ie, hok⟩, hv, hfit⟩ := g
      simp only [Shape.okAux, Bool.and_eq_true, beq_iff_eq, decide_eq_true_eq] at hok
      simp only [valid, Bool.and_eq_true, decide_eq_true_eq] at hv
      simp only [fits] at hfit
      obtain ⟨t2, ht2, hvt⟩ := validVariant_get ps idx u hv.2
      rw [ht] at ht2; cases ht2
      have hd : ds[idx]? = some ds[idx] := List.getElem?_eq_getElem hv.1
      refine ⟨⟨⟨false, true, okPayloads_get ps idx t ht hok.2⟩, hvt, fitsVariant_get ps idx u t ht hfit⟩, ?_,
        fun _ _ => rfl, ?_⟩
      · simp only [encode, stepPre, stepPost, hd, Option.getD_some]
        rw [encodeVariant_get ds ps idx u _ t hd ht]; simp
      · intro pre Z base hb
        have hb0 : (pre ++ stepPre (.enum ds ps) (.variant idx u) .payload (encode t u).length ++ Z)[base]?
            = some ds[idx] := by
          simp only [stepPre, hd, Option.getD_some, List.append_assoc]
          rw [List.getElem?_append_right (by omega)]; simp [hb]
        simp only [child, hb0, variantOf_get ds ps idx _ t hd ht hok.1.2]
        cases t with
        | unit => exact absurd rfl hnu
        | _ => simp [stepPre]
  · cases h

end Unsized.Machine
