import Unsized.CodecLemmasParse
/-!
# Every value the parser produces is valid (bit patterns, widths, key order, UTF-8)
-/
namespace Unsized
open Common

theorem listParts_spec {ew lw : Nat} {bs : List Nat} {n : Nat} (h : extentList ew lw bs = .ok n)
    (hwf : BytesWF bs) :
    ∃ es, listParts ew lw bs = .ok es ∧ ∀ x ∈ es, x.length = ew ∧ BytesWF x := by
  obtain ⟨h1, _, h3⟩ := extentList_ok h
  unfold listParts
  rw [rawSlice_of_le (by omega)]
  simp only [List.drop_zero]
  rw [rawSlice_of_le (by omega)]
  refine ⟨_, rfl, ?_⟩
  intro x hx
  refine ⟨chunks_width ew _ _ (by simp; omega) x hx, ?_⟩
  exact chunks_wf ew _ _ (BytesWF_take _ (BytesWF_drop _ hwf)) x hx

theorem ulistParts_spec {cw : Nat} {bs : List Nat} {n : Nat} (h : extentUlist cw bs = .ok n)
    (hwf : BytesWF bs) :
    ∃ tbl data, ulistParts cw bs = .ok (tbl, data) ∧ BytesWF data
      ∧ ∀ p ∈ tbl, p.2.length = cw - 4 ∧ BytesWF p.2 := by
  have h2 := extentUlist_ok h
  simp only at h2
  unfold ulistParts
  rw [rawSlice_of_le (by omega)]
  simp only [List.drop_zero]
  have e1 : ((bs.take 8).take 4) = bs.take 4 := by simp [List.take_take]
  have e2 : ((bs.take 8).drop 4) = (bs.drop 4).take 4 := by rw [List.drop_take]
  rw [e1, e2]
  rw [rawSlice_of_le (by omega)]
  simp only []
  rw [rawSlice_of_le (by omega)]
  refine ⟨_, _, rfl, BytesWF_take _ (BytesWF_drop _ hwf), ?_⟩
  intro p hp
  simp only [parseTable, List.mem_map] at hp
  obtain ⟨c, hc, rfl⟩ := hp
  have hw := chunks_width cw _ _ (by simp; rw [Nat.mul_comm]; omega) c hc
  have hb := chunks_wf cw _ _ (BytesWF_take _ (BytesWF_drop _ hwf)) c hc
  exact ⟨by simp [hw], BytesWF_drop _ hb⟩

theorem elemSlice_wf {sl : Slicing} {data : List Nat} {r : Nat × Nat} {slice : List Nat}
    (h : elemSlice sl data r = some slice) (hwf : BytesWF data) : BytesWF slice := by
  cases sl <;> simp only [elemSlice] at h <;> split at h <;> simp at h <;> subst h
  · exact BytesWF_take _ (BytesWF_drop _ hwf)
  · exact BytesWF_drop _ hwf

theorem elems_mem {α : Type} (sl : Slicing) (bad : E) (stop : Bool)
    (fext : List Nat → Except E Nat) (body : List Nat → Except E α) (data : List Nat)
    (hwf : BytesWF data) :
    ∀ rs vs, elems sl bad stop fext body data rs = .ok vs →
      ∀ v ∈ vs, ∃ slice n, BytesWF slice ∧ fext slice = .ok n ∧ body slice = .ok v := by
  intro rs
  induction rs with
  | nil => intro vs h v hv; simp [elems] at h; subst h; cases hv
  | cons r rs ih =>
    intro vs h v hv
    unfold elems at h
    cases hs : elemSlice sl data r with
    | none => rw [hs] at h; simp at h
    | some slice =>
      rw [hs] at h
      simp only [] at h
      cases hx : fext slice with
      | error e =>
        rw [hx] at h
        simp only [] at h
        cases stop <;> simp at h
        subst h; cases hv
      | ok n =>
        rw [hx] at h
        simp only [] at h
        cases hb : body slice with
        | error e => rw [hb] at h; simp at h
        | ok w =>
          rw [hb] at h
          simp only [] at h
          cases hr : elems sl bad stop fext body data rs with
          | error e => rw [hr] at h; simp at h
          | ok ws =>
            rw [hr] at h
            simp at h
            subst h
            cases hv with
            | head => exact ⟨slice, n, elemSlice_wf hs hwf, hx, hb⟩
            | tail _ hv => exact ih ws hr v hv

/-- Whatever `owned_from_ptr` returns after a successful `get_ptr` is a valid owned value. -/
def PV (s : Shape) : Prop :=
  ∀ bs, BytesWF bs → ∀ n, extent s bs = .ok n → ∀ v, own s bs = .ok v → valid s v = true

theorem pv_fields (fs : List Shape) (ih : ∀ f ∈ fs, PV f) :
    ∀ bs, BytesWF bs → ∀ n, extentFields fs bs = .ok n → ∀ vs, ownFields fs bs = .ok vs →
      validFields fs vs = true := by
  induction fs with
  | nil => intro bs _ n _ vs h; simp [ownFields] at h; subst h; rfl
  | cons f fs ihf =>
    intro bs hwf n h vs ho
    simp only [extentFields] at h
    cases hx : extent f bs with
    | error e => rw [hx] at h; simp at h
    | ok k =>
      rw [hx] at h
      simp only [] at h
      cases hy : extentFields fs (bs.drop k) with
      | error e => rw [hy] at h; simp at h
      | ok j =>
        simp only [ownFields, hx] at ho
        cases hq : own f bs with
        | error e => rw [hq] at ho; simp at ho
        | ok v =>
          rw [hq] at ho
          simp only [] at ho
          cases hp : ownFields fs (bs.drop k) with
          | error e => rw [hp] at ho; simp at ho
          | ok ws =>
            rw [hp] at ho
            simp at ho
            subst ho
            simp only [validFields, Bool.and_eq_true]
            exact ⟨ih f (by simp) bs hwf k hx v hq,
              ihf (fun g hg => ih g (by simp [hg])) _ (BytesWF_drop _ hwf) j hy ws hp⟩

theorem pv_variant (ps : List Shape) (ih : ∀ p ∈ ps, PV p) :
    ∀ (ds : List Nat) (k r : Nat) (bs : List Nat), BytesWF bs → ∀ n,
      extentVariant ds ps r bs = .ok n → ∀ v, ownVariant ds ps k r bs = .ok v →
      ∃ i p, v = .variant (k + i) p ∧ i < ds.length ∧ validVariant ps i p = true := by
  induction ps with
  | nil => intro ds k r bs _ n h; cases ds <;> simp [extentVariant] at h
  | cons q qs ihp =>
    intro ds k r bs hwf n h v ho
    cases ds with
    | nil => simp [extentVariant] at h
    | cons d ds =>
      simp only [extentVariant] at h
      by_cases hrd : r = d
      · rw [if_pos hrd] at h
        simp only [ownVariant, if_pos hrd] at ho
        cases hq : own q bs with
        | error e => rw [hq] at ho; simp at ho
        | ok w =>
          rw [hq] at ho
          simp at ho
          subst ho
          exact ⟨0, w, by simp, by simp, by simpa [validVariant] using ih q (by simp) bs hwf n h w hq⟩
      · rw [if_neg hrd] at h
        simp only [ownVariant, if_neg hrd] at ho
        obtain ⟨i, p, hv, hi, hval⟩ := ihp (fun g hg => ih g (by simp [hg])) ds (k + 1) r bs hwf n h v ho
        exact ⟨i + 1, p, by rw [hv]; congr 1; omega, by simp; omega, by simpa [validVariant] using hval⟩

theorem all_flatten_wf (es : List (List Nat)) (h : ∀ x ∈ es, BytesWF x) : BytesWF es.flatten := by
  intro b hb
  simp only [List.mem_flatten] at hb
  obtain ⟨x, hx, hbx⟩ := hb
  exact h x hx b hbx

theorem pv_all (s : Shape) : PV s := by
  induction s using Shape.induct' with
  | fixed f =>
    intro bs hwf n h v ho
    simp only [extent] at h
    have hk := extentFixed_ok h
    simp only [own, rawSlice_of_le (show 0 + f.size ≤ bs.length by omega), List.drop_zero] at ho
    simp at ho; subst ho
    have hl : (bs.take f.size).length = f.size := by simp; omega
    have hb : BytesWF (bs.take f.size) := BytesWF_take _ hwf
    simp [valid, hl, hk.2.2, hb]
  | list e lw =>
    intro bs hwf n h v ho
    simp only [extent] at h
    obtain ⟨es, hes, hsp⟩ := listParts_spec h hwf
    simp only [own, hes] at ho
    split at ho
    · rename_i hall
      simp at ho; subst ho
      simp only [List.all_eq_true] at hall
      simp only [valid, List.all_eq_true, Bool.and_eq_true, beq_iff_eq, decide_eq_true_eq]
      intro x hx; exact ⟨⟨(hsp x hx).1, hall x hx⟩, (hsp x hx).2⟩
    · simp at ho
  | set e lw =>
    intro bs hwf n h v ho
    simp only [extent] at h
    obtain ⟨es, hes, hsp⟩ := listParts_spec h hwf
    simp only [own, hes] at ho
    split at ho
    · rename_i hall
      simp at ho; subst ho
      simp only [List.all_eq_true] at hall
      simp only [valid, List.all_eq_true, Bool.and_eq_true, beq_iff_eq, decide_eq_true_eq]
      refine ⟨?_, fromEntries_pairwise e.size es⟩
      intro x hx
      have hx' := fromEntries_mem e.size es x hx
      exact ⟨⟨(hsp x hx').1, hall x hx'⟩, (hsp x hx').2⟩
    · simp at ho
  | map kw val lw =>
    intro bs hwf n h v ho
    simp only [extent] at h
    obtain ⟨es, hes, hsp⟩ := listParts_spec h hwf
    simp only [own, hes] at ho
    split at ho
    · rename_i hall
      simp at ho; subst ho
      simp only [List.all_eq_true] at hall
      simp only [valid, List.all_eq_true, Bool.and_eq_true, beq_iff_eq, decide_eq_true_eq]
      refine ⟨?_, fromEntries_pairwise kw es⟩
      intro x hx
      have hx' := fromEntries_mem kw es x hx
      exact ⟨⟨(hsp x hx').1, hall x hx'⟩, (hsp x hx').2⟩
    · simp at ho
  | str lw =>
    intro bs hwf n h v ho
    simp only [extent] at h
    obtain ⟨es, hes, hsp⟩ := listParts_spec h hwf
    simp only [own, hes] at ho
    split at ho
    · rename_i hutf
      simp at ho; subst ho
      simp only [valid, Bool.and_eq_true, decide_eq_true_eq]
      exact ⟨hutf, all_flatten_wf es (fun x hx => (hsp x hx).2)⟩
    · simp at ho
  | rem =>
    intro bs hwf n _ v ho
    simp [own] at ho; subst ho
    simp [valid, hwf]
  | ulist e ih =>
    intro bs hwf n h v ho
    simp only [extent] at h
    obtain ⟨tbl, data, hp, hdwf, _⟩ := ulistParts_spec h hwf
    simp only [own, hp] at ho
    cases hq : elems .suffix .panic false (extent e) (own e) data (ranges (tbl.map (·.1)) data.length) with
    | error er => rw [hq] at ho; simp at ho
    | ok vs =>
      rw [hq] at ho; simp at ho; subst ho
      simp only [valid, List.all_eq_true]
      intro w hw
      obtain ⟨slice, k, hswf, hse, hsb⟩ := elems_mem _ _ _ _ _ data hdwf _ vs hq w hw
      exact ih slice hswf k hse w hsb
  | umap kw e ih =>
    intro bs hwf n h v ho
    simp only [extent] at h
    obtain ⟨tbl, data, hp, hdwf, htbl⟩ := ulistParts_spec h hwf
    simp only [own, hp] at ho
    cases hq : elems .exact .oob true (extent e) (own e) data (ranges (tbl.map (·.1)) data.length) with
    | error er => rw [hq] at ho; simp at ho
    | ok vs =>
      rw [hq] at ho; simp at ho; subst ho
      simp only [valid, List.all_eq_true, Bool.and_eq_true, beq_iff_eq, decide_eq_true_eq]
      refine ⟨?_, fromKVs_pairwise _⟩
      intro kv hkv
      have hz := fromKVs_mem _ kv hkv
      have hz' := List.of_mem_zip (a := kv.1) (b := kv.2) (by simpa using hz)
      obtain ⟨hk1, hv2⟩ := hz'
      simp only [List.mem_map] at hk1
      obtain ⟨p, hpm, hpe⟩ := hk1
      have := htbl p hpm
      obtain ⟨slice, k, hswf, hse, hsb⟩ := elems_mem _ _ _ _ _ data hdwf _ vs hq kv.2 hv2
      refine ⟨⟨?_, ?_⟩, ih slice hswf k hse kv.2 hsb⟩
      · rw [← hpe]; simpa [Shape.entryW] using this.1
      · rw [← hpe]; exact this.2
  | struct sized fs ih =>
    intro bs hwf n h v ho
    simp only [extent] at h
    have hkey : Fixed.sizeList sized ≤ bs.length
        ∧ Fixed.validList sized (bs.take (Fixed.sizeList sized)) = true
        ∧ ∃ j, extentFields fs (bs.drop (Fixed.sizeList sized)) = .ok j := by
      by_cases hemp : sized.isEmpty = true
      · rw [if_pos hemp] at h
        have : sized = [] := by simpa using hemp
        subst this
        exact ⟨by simp [Fixed.sizeList], by simp [Fixed.validList], n, by simpa [Fixed.sizeList] using h⟩
      · rw [if_neg hemp] at h
        cases hx : extentFixed (.record sized) bs with
        | error e => rw [hx] at h; simp at h
        | ok k =>
          rw [hx] at h
          have hk := extentFixed_ok hx
          simp only [Fixed.size, Fixed.valid] at hk
          simp only [] at h
          cases hy : extentFields fs (bs.drop k) with
          | error e => rw [hy] at h; simp at h
          | ok j => exact ⟨hk.2.1, hk.2.2, j, by rw [← hk.1]; exact hy⟩
    obtain ⟨hle, hval, j, hj⟩ := hkey
    simp only [own, rawSlice_of_le (show 0 + Fixed.sizeList sized ≤ bs.length by omega),
      List.drop_zero] at ho
    cases hq : ownFields fs (bs.drop (Fixed.sizeList sized)) with
    | error er => rw [hq] at ho; simp at ho
    | ok vs =>
      rw [hq] at ho; simp at ho; subst ho
      have hl : (bs.take (Fixed.sizeList sized)).length = Fixed.sizeList sized := by simp; omega
      have hb : BytesWF (bs.take (Fixed.sizeList sized)) := BytesWF_take _ hwf
      have hf := pv_fields fs ih _ (BytesWF_drop _ hwf) j hj vs hq
      simp [valid, hl, hval, hb, hf]
  | enum ds ps ih =>
    intro bs hwf n h v ho
    simp only [extent] at h
    cases bs with
    | nil => simp at h
    | cons r rest =>
      simp only [] at h
      cases hy : extentVariant ds ps r rest with
      | error e => rw [hy] at h; simp at h
      | ok k =>
        simp only [own] at ho
        have hrest : BytesWF rest := by
          intro b hb; exact hwf b (by simp [hb])
        obtain ⟨i, p, hv, hi, hval⟩ := pv_variant ps ih ds 0 r rest hrest k hy v ho
        subst hv
        simp [valid, hi, hval]
  | unit =>
    intro bs _ n _ v ho
    simp [own] at ho; subst ho; rfl
  | disc d inner ih =>
    intro bs hwf n h v ho
    simp only [extent] at h
    split at h
    · cases hy : extent inner (bs.drop d.length) with
      | error e => rw [hy] at h; simp at h
      | ok k =>
        simp only [own] at ho
        have := ih _ (BytesWF_drop _ hwf) k hy v ho
        cases v <;> simpa [valid] using this
    · simp at h

end Unsized
