import Unsized.MachineNodeStr
/-!
# `binary_search` (its specification `search`) on strictly sorted keys vs the owned-model
`BTreeSet`/`BTreeMap` operations (`hasKey`, `insKey`, `delKey`, `findKey`)
-/
namespace Unsized.Machine
open Common Unsized Unsized.Text

theorem strictKeys_cons (a : Nat) (r : List Nat) (h : strictKeys (a :: r) = true) :
    strictKeys r = true ∧ ∀ y ∈ r, a < y := by
  rw [strictKeys, decide_eq_true_eq, List.pairwise_cons] at h
  exact ⟨by rw [strictKeys, decide_eq_true_eq]; exact h.2, h.1⟩

/-- **`binary_search` on a strictly sorted list** (its specification `search`): either the key is at
position `j` (everything before is smaller, everything after larger), or `j` is the insertion point. -/
theorem search_sorted {α : Type} (key : α → Nat) (l : List α) (k idx : Nat)
    (hs : strictKeys (l.map key) = true) :
    (∃ j, ∃ hj : j < l.length, search (l.map key) k idx = .at (idx + j) ∧ key l[j] = k
        ∧ (∀ y ∈ l.take j, key y < k) ∧ (∀ y ∈ l.drop (j + 1), k < key y))
    ∨ (∃ j, j ≤ l.length ∧ search (l.map key) k idx = .ins (idx + j)
        ∧ (∀ y ∈ l.take j, key y < k) ∧ (∀ y ∈ l.drop j, k < key y)) := by
  induction l generalizing idx with
  | nil => right; exact ⟨0, by simp, by simp [search], by simp, by simp⟩
  | cons a r ih =>
    simp only [List.map_cons] at hs
    obtain ⟨hs', hgt⟩ := strictKeys_cons (key a) (r.map key) hs
    have hgt' : ∀ y ∈ r, key a < key y := fun y hy => hgt (key y) (List.mem_map.2 ⟨y, hy, rfl⟩)
    simp only [List.map_cons, search]
    by_cases h1 : key a < k
    · simp only [h1, if_true]
      rcases ih (idx + 1) hs' with ⟨j, hj, hse, hk, hb, ha⟩ | ⟨j, hj, hse, hb, ha⟩
      · left
        refine ⟨j + 1, by simp; omega, by rw [hse]; congr 1; omega, by simpa using hk, ?_, by simpa using ha⟩
        intro y hy
        simp only [List.take_succ_cons, List.mem_cons] at hy
        rcases hy with rfl | hy
        · exact h1
        · exact hb y hy
      · right
        refine ⟨j + 1, by simp; omega, by rw [hse]; congr 1; omega, ?_, by simpa using ha⟩
        intro y hy
        simp only [List.take_succ_cons, List.mem_cons] at hy
        rcases hy with rfl | hy
        · exact h1
        · exact hb y hy
    · simp only [h1, if_false]
      by_cases h2 : key a = k
      · simp only [h2, if_true]
        left
        refine ⟨0, by simp, by simp, by simpa using h2, by simp, ?_⟩
        intro y hy
        simp only [Nat.zero_add, List.drop_succ_cons, List.drop_zero] at hy
        have := hgt' y hy; omega
      · simp only [h2, if_false]
        right
        refine ⟨0, by simp, by simp, by simp, ?_⟩
        intro y hy
        simp only [List.drop_zero, List.mem_cons] at hy
        rcases hy with rfl | hy
        · omega
        · have := hgt' y hy; omega

theorem any_false_of_split {α : Type} (key : α → Nat) (l : List α) (k j : Nat)
    (hb : ∀ y ∈ l.take j, key y < k) (ha : ∀ y ∈ l.drop j, k < key y) :
    (l.any fun y => key y == k) = false := by
  rw [← List.take_append_drop j l, List.any_append]
  simp only [Bool.or_eq_false_iff, List.any_eq_false, beq_iff_eq]
  exact ⟨fun y hy => by have := hb y hy; omega, fun y hy => by have := ha y hy; omega⟩

theorem filter_ne_of_split {α : Type} (key : α → Nat) (l : List α) (k j : Nat) (hj : j < l.length)
    (hk : key l[j] = k) (hb : ∀ y ∈ l.take j, key y < k) (ha : ∀ y ∈ l.drop (j + 1), k < key y) :
    (l.filter fun y => key y != k) = l.take j ++ l.drop (j + 1) := by
  have hl : l = l.take j ++ l[j] :: l.drop (j + 1) := by
    rw [← List.drop_eq_getElem_cons hj, List.take_append_drop]
  conv => lhs; rw [hl]
  rw [List.filter_append, List.filter_cons]
  have h1 : (l.take j).filter (fun y => key y != k) = l.take j := by
    apply List.filter_eq_self.2
    intro y hy; have := hb y hy; simp; omega
  have h2 : (l.drop (j + 1)).filter (fun y => key y != k) = l.drop (j + 1) := by
    apply List.filter_eq_self.2
    intro y hy; have := ha y hy; simp; omega
  simp [h1, h2, hk]

theorem find_of_split {α : Type} (key : α → Nat) (l : List α) (k j : Nat) (hj : j < l.length)
    (hk : key l[j] = k) (hb : ∀ y ∈ l.take j, key y < k) :
    (l.find? fun y => key y == k) = some l[j] := by
  have hl : l = l.take j ++ l[j] :: l.drop (j + 1) := by
    rw [← List.drop_eq_getElem_cons hj, List.take_append_drop]
  have h0 : (l.take j).find? (fun y => key y == k) = none := by
    apply List.find?_eq_none.2
    intro y hy; have := hb y hy; simp; omega
  have := congrArg (List.find? fun y => key y == k) hl
  rw [List.find?_append, h0] at this
  rw [this, Option.none_or, List.find?_cons]
  have : (key l[j] == k) = true := by simp [hk]
  rw [this]

/-- `insKey` past a prefix of smaller keys. -/
theorem insKey_prefix (kw : Nat) (x : List Nat) (a b : List (List Nat))
    (h : ∀ y ∈ a, keyOf kw y < keyOf kw x) : insKey kw x (a ++ b) = a ++ insKey kw x b := by
  induction a with
  | nil => rfl
  | cons y r ih =>
    have hy := h y List.mem_cons_self
    have h1 : ¬ keyOf kw x < keyOf kw y := by omega
    have h2 : keyOf kw x ≠ keyOf kw y := by omega
    simp only [List.cons_append, insKey, h1, h2, if_false]
    rw [ih (fun z hz => h z (List.mem_cons_of_mem _ hz))]

theorem insKey_new (kw : Nat) (x : List Nat) (l : List (List Nat)) (j : Nat)
    (hb : ∀ y ∈ l.take j, keyOf kw y < keyOf kw x) (ha : ∀ y ∈ l.drop j, keyOf kw x < keyOf kw y) :
    insKey kw x l = Spec.insertAt l j [x] := by
  conv => lhs; rw [← List.take_append_drop j l]
  rw [insKey_prefix kw x _ _ hb]
  simp only [Spec.insertAt]
  cases hd : l.drop j with
  | nil => simp [insKey]
  | cons y r =>
    have := ha y (by rw [hd]; exact List.mem_cons_self)
    simp [insKey, this]

theorem insKey_replace (kw : Nat) (x : List Nat) (l : List (List Nat)) (j : Nat) (hj : j < l.length)
    (hk : keyOf kw l[j] = keyOf kw x) (hb : ∀ y ∈ l.take j, keyOf kw y < keyOf kw x) :
    insKey kw x l = l.set j x := by
  have hl : l = l.take j ++ l[j] :: l.drop (j + 1) := by
    rw [← List.drop_eq_getElem_cons hj, List.take_append_drop]
  conv => lhs; rw [hl]
  rw [insKey_prefix kw x _ _ hb]
  have h1 : ¬ keyOf kw x < keyOf kw l[j] := by omega
  simp only [insKey, h1, hk, if_false, if_true]
  rw [List.set_eq_take_append_cons_drop]; simp [hj]

end Unsized.Machine
