import Unsized.PtrHonestH
namespace Unsized.Ptr
open Common Unsized Unsized.Text Unsized.Machine Unsized.PtrT

theorem rd32_append_left (X Y : List Nat) (a : Nat) (h : a + 4 ≤ X.length) : rd32 (X ++ Y) a = rd32 X a := by
  unfold rd32 rdN rd
  rw [List.drop_append_of_le_length (by omega), List.take_append_of_le_length (by simp; omega)]

/-- An accessor never yields the unit payload. -/
theorem step_not_unit (s : Shape) (v : Val) (st : Step) (t : Shape) (u : Val) (g : Good s v)
    (h : resolve1 s v st = .ok (t, u)) : t ≠ .unit := by
  have gc := (step_facts s v st t u g h).1
  unfold resolve1 at h
  split at h
  · rename_i sized fs sz vs i
    split at h
    · rename_i f x hf hx
      cases h
      obtain ⟨top, ie, hok⟩ := g.ok
      simp only [Shape.okAux, Bool.and_eq_true] at hok
      exact okField_not_unit t (okFields_get fs i t hf hok.2)
    · cases h
  · rename_i e vs i
    split at h
    · cases h
      obtain ⟨top, ie, hok⟩ := g.ok
      simp only [Shape.okAux, Bool.and_eq_true, Bool.not_eq_true'] at hok
      exact okField_not_unit t hok.1
    · cases h
  · rename_i kw e es i
    split at h
    · cases h
      obtain ⟨top, ie, hok⟩ := g.ok
      simp only [Shape.okAux, Bool.and_eq_true, Bool.not_eq_true', decide_eq_true_eq] at hok
      exact okField_not_unit t hok.1.2
    · cases h
  · rename_i ds ps idx pl
    split at h
    · cases h
    · cases h
    · rename_i t' hnu ht
      cases h
      exact fun hu => hnu (by rw [hu])
  · cases h

/-- **`resize_notification` along the accessor chain, honest version** (`ptrs_fresh`, one broadcast): with
arbitrary honest caches off the chain. `usz` only has to agree with the old canonical bytes before the
source — which every `add_bytes`/`remove_bytes` of the top wrapper guarantees (it moves bytes at or after
the insertion point only). -/
theorem notify_path (p : List Step) : ∀ (s : Shape) (v : Val) (t : Shape) (u u' : Val), Good s v →
    Good s (subst s v p u') → resolve s v p = .ok (t, u) →
    ∀ (pre : List Nat) (b src : Nat) (neg : Bool) (amt : Nat) (R T T' : PtrTree),
    b = pre.length → (encode t u').length = applyDelta neg amt (encode t u).length →
    (neg = true → amt ≤ (encode t u).length) → src = b + offsetOf s v p →
    b + (encode s v).length + amt < Shape.usizeLim →
    ∀ (usz : Nat → Nat), (∀ a, b ≤ a → a + 4 ≤ src → usz a = rd32 (pre ++ encode s v) a) →
    HonPath s v b p R T → resizeNotify usz src neg amt T = some T' →
    ∃ R', resizeNotify usz src neg amt R = some R' ∧ HonPath s (subst s v p u') b p R' T' := by
  induction p with
  | nil =>
    intro s v t u u' g g' h pre b src neg amt R T T' hb hX hneg hsrc hlim usz hag hp hT
    simp only [HonPath] at hp; subst hp
    exact ⟨T', hT, by simp [HonPath]⟩
  | cons st p ih =>
    intro s v t u u' g g' h pre b src neg amt R T T' hb hX hneg hsrc hlim usz hag hp hT
    simp only [resolve] at h
    cases h1 : resolve1 s v st with
    | error e => simp [h1] at h
    | ok tu =>
      obtain ⟨t1, u1⟩ := tu
      simp only [h1] at h
      obtain ⟨g1, henc, hlen, hchild⟩ := step_facts s v st t1 u1 g h1
      clear hchild
      have hu1 := step_not_unit s v st t1 u1 g h1
      have hle := offsetOf_le p t1 u1 t u g1 h
      have hol := fun hz1 => offsetOf_lt p t1 u1 t u g1 hu1 hz1 h
      obtain ⟨w, hw⟩ : ∃ w, w = subst t1 u1 p u' := ⟨_, rfl⟩
      have hsub : subst s v (st :: p) u' = subst1 v st w := by simp only [subst, h1, hw]
      rw [hsub] at g' ⊢
      have r1' := resolve1_subst1 s v st t1 u1 w h1
      have g1' : Good t1 w := (step_facts s _ st t1 w g' r1').1
      have hencl : (encode s v).length = (stepPre s v st 0).length + (encode t1 u1).length + (stepPost s v st).length := by
        conv => lhs; rw [henc]
        simp only [List.length_append]; rw [hlen (encode t1 u1).length 0]
      have hsw : size t1 w = applyDelta neg amt (size t1 u1) := by
        rw [hw]; rw [hw] at g1'
        exact size_subst_delta p t1 u1 t u u' g1 g1' h neg amt hX hneg
      have hs1 : size t1 u1 = (encode t1 u1).length := (encode_size_all _ _ g1.valid).symm
      have hss : size s v = (encode s v).length := (encode_size_all _ _ g.valid).symm
      simp only [HonPath, h1] at hp
      obtain ⟨child, hstep, hrest⟩ := hp
      have hsrc' : src = b + (stepPre s v st 0).length + offsetOf t1 u1 p := by
        rw [hsrc]; simp only [offsetOf, h1]; omega
      -- the child
      have hagc : ∀ a, b + (stepPre s v st 0).length ≤ a → a + 4 ≤ src →
          usz a = rd32 ((pre ++ stepPre s v st (encode t1 u1).length) ++ encode t1 u1) a := by
        intro a ha1 ha2
        rw [hag a (by omega) ha2]
        have e1 : pre ++ encode s v = ((pre ++ stepPre s v st (encode t1 u1).length) ++ encode t1 u1) ++ stepPost s v st := by
          conv => lhs; rw [henc]
          simp [List.append_assoc]
        rw [e1, rd32_append_left _ _ a (by
          simp only [List.length_append]; rw [hlen (encode t1 u1).length 0]; omega)]
      obtain ⟨child', hc1, hc2⟩ := ih t1 u1 t u u' g1 (by rw [← hw]; exact g1') h
        (pre ++ stepPre s v st (encode t1 u1).length) (b + (stepPre s v st 0).length) src neg amt child T T'
        (by simp [hb, hlen 0 (encode t1 u1).length]) hX hneg hsrc' (by omega) usz hagc hrest hT
      rw [← hw] at hc2
      obtain ⟨R', hr1, hr2⟩ := step_notify s v st t1 u1 w g g' h1 neg amt hsw
        (fun hn => by have := hneg hn; omega) pre b hb src (by omega) (by omega) (fun hz1 => by have := hol hz1; omega) (by omega) usz hag R child child' hstep hc1
      refine ⟨R', hr1, ?_⟩
      simp only [HonPath, r1']
      rw [stepPre_subst1_len s v st t1 u1 w g h1 0 0]
      exact ⟨child', hr2, hc2⟩

end Unsized.Ptr
