import Unsized.MachineAtomic
import Unsized.CodecLemmasViewRound
/-!
# What the observers see on a canonical buffer: `live_view` (`owned_from_ptr` of a live accessor),
`live_locate`, `owned_view` (`UnsizedType::owned`)
-/
namespace Unsized.Machine
open Common Unsized Unsized.Text

/-- What a live accessor at path `p` shows (`owned_from_ptr` of its pointer) is the model's sub-value. -/
theorem live_view {s v p t u m} (F : Focus s v p t u m) :
    own t (m.bytes.drop (offsetOf s v p)) = .ok u := by
  obtain ⟨⟨top, ie, hok⟩, hv, hf⟩ := F.sub
  cases hz : t.zst with
  | true =>
    obtain ⟨A, hA, hE⟩ := tail_zst p s v t u F.good F.res hz
    rw [F.bytes, hE, drop_append_len A _ _ hA.symm]
    have := (roundTrip_all t top ie hok u [] hv hf (Or.inl rfl)).2
    rw [List.append_nil] at this
    exact this
  | false =>
    obtain ⟨A, C, hA, hE, _⟩ := encode_split p s v t u F.good F.res
    rw [F.bytes, hE, List.append_assoc, drop_append_len A _ _ hA.symm]
    exact (roundTrip_all t top ie hok u C hv hf (Or.inr hz)).2

/-- The machine finds the accessor where the model says the sub-value is. -/
theorem live_locate {s v p t u m} (F : Focus s v p t u m) :
    locate s p 0 m.bytes = .ok (t, offsetOf s v p) := by
  have hloc := locate_encode p s v F.good [] [] 0 rfl
  simp only [List.nil_append, List.append_nil, Nat.zero_add] at hloc
  rw [F.bytes, hloc, F.res]

/-- `UnsizedType::owned(&data[..len])` returns the model value. -/
theorem owned_view (s : Shape) (v : Val) (hok : s.ok = true) (g : Good s v) :
    decode s (encode s v) = .ok (v, size s v) := by
  have := roundTrip_all s true false hok v [] g.valid g.fits (Or.inl rfl)
  rw [List.append_nil] at this
  exact (decode_ok_iff s _ v _).2 this


/-- A fresh `SharedWrapper` read through the Deref / iterator API (any of the three access modes)
shows the model value (`viewRT_all` by b-proof-map). -/
theorem shared_view (mo : Mode) (s : Shape) (v : Val) (hok : s.ok = true) (g : Good s v) :
    viewTop mo s (encode s v) = .ok (v, size s v) := by
  have hrt := roundTrip_all s true false hok v [] g.valid g.fits (Or.inl rfl)
  have hv := viewRT_all s mo true false hok v [] g.valid g.fits (Or.inl rfl)
  rw [List.append_nil] at hrt hv
  simp only [viewTop, hrt.1, hv]

end Unsized.Machine
