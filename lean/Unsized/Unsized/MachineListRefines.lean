import Unsized.MachineListLemmas
/-!
# `Refines` (machine vs owned model on one node) and the `List` operations
-/
namespace Unsized.Machine
open Common Unsized Unsized.Text

/-- Ops that are a sequence of single-container steps (`Map/Set::insert_all`, `UnsizedString::set`):
on an error the steps already done stay done (known findings `map_set_insert_all_partial`,
`unsized_string_set_partial`). -/
def composite : Op → Bool
  | .strSet _ => true
  | .sinsertAll _ => true
  | .minsertAll _ => true
  | _ => false

/-- What it means for the machine to refine the owned model on one op at one node: same outcome;
on success the node holds the new value (canonically); on an error of a non-composite op nothing
changed (composite ops failing half-way are the subject of `err_canonical`). `Err.initFail` (an initialiser failing behind the resize — known finding) is not claimed. -/
def Refines (s : Shape) (v : Val) (p : List Step) (t : Shape) (u : Val) (m : Mem) (op : Op) : Prop :=
  match Spec.applyNode t u op with
  | .ok (u', r) =>
    (plug s v p (encode t u')).length ≤ m.orig + maxIncrease →
      ∃ m' : Mem, applyAt ⟨s, p⟩ t (offsetOf s v p) op m = (m', .ok r)
        ∧ Focus s (subst s v p u') p t u' m' ∧ m'.orig = m.orig ∧ m'.refuse = m.refuse
  | .error .initFail => True
  | .error e => composite op = true ∨ applyAt ⟨s, p⟩ t (offsetOf s v p) op m = (m, .error e)

theorem Focus.small {s v p t u m} (_F : Focus s v p t u m) (c : Calm m) (X : List Nat)
    (h : (plug s v p X).length ≤ m.orig + maxIncrease) : (plug s v p X).length < Shape.u32Lim := by
  have := c.small; omega

/-- A list-shaped node: its bytes are `leN lw len ++ records`. -/
theorem list_enc (e : Fixed) (lw : Nat) (es : List (List Nat)) :
    encode (.list e lw) (.seq es) = leN lw es.length ++ es.flatten := rfl

theorem good_list {e : Fixed} {lw : Nat} {es : List (List Nat)} (g : Good (.list e lw) (.seq es)) :
    (∀ x ∈ es, x.length = e.size) ∧ es.length < 256 ^ lw := by
  obtain ⟨_, hv, hf⟩ := g
  simp only [valid, List.all_eq_true, Bool.and_eq_true, beq_iff_eq] at hv
  simp only [fits, Bool.and_eq_true, decide_eq_true_eq] at hf
  exact ⟨fun x hx => (hv x hx).1.1, hf.1⟩

theorem validE_len {e : Fixed} {x : List Nat} (h : validE e x = true) : x.length = e.size := by
  simp only [validE, Bool.and_eq_true, beq_iff_eq] at h; exact h.1.1


theorem good_list_of {e : Fixed} {lw : Nat} {es : List (List Nat)} (hok : OkS (.list e lw))
    (hv : ∀ x ∈ es, validE e x = true) (hl : es.length < 256 ^ lw)
    (hu : e.size * es.length < Shape.usizeLim) : Good (.list e lw) (.seq es) := by
  refine ⟨hok, ?_, ?_⟩
  · simp only [valid, List.all_eq_true]; intro x hx; have := hv x hx; simpa [validE] using this
  · simp [fits, hl, hu]

theorem good_list_valid {e : Fixed} {lw : Nat} {es : List (List Nat)} (g : Good (.list e lw) (.seq es)) :
    ∀ x ∈ es, validE e x = true := by
  obtain ⟨_, hv, _⟩ := g
  simp only [valid, List.all_eq_true] at hv
  intro x hx; have := hv x hx; simpa [validE] using this

theorem list_rdlen {s v p m} {e : Fixed} {lw : Nat} {es : List (List Nat)}
    (F : Focus s v p (.list e lw) (.seq es) m) : rdN m.bytes (offsetOf s v p) lw = es.length := by
  have hE : (encode (.list e lw) (.seq es)).length = lw + es.flatten.length := by simp [list_enc]
  have := enc_rdN p s v _ _ F.good F.res 0 lw (by omega)
  rw [Nat.add_zero] at this
  rw [F.bytes, this, list_enc, rdN_leN_zero lw _ _ (good_list F.sub).2]

theorem u32_lt_usize : Shape.u32Lim < Shape.usizeLim := by decide

/-- `insert_all` on a `List` node. -/
theorem list_insertAll_refines {s v p m} {e : Fixed} {lw : Nat} {es : List (List Nat)}
    (F : Focus s v p (.list e lw) (.seq es) m) (c : Calm m) (idx : Nat) (xs : List (List Nat))
    (hxs : ∀ x ∈ xs, validE e x = true) :
    (es.length < idx → listInsertAll ⟨s, p⟩ e.size lw (offsetOf s v p) idx xs m = (m, .error .ioob))
    ∧ (¬ es.length < idx → 256 ^ lw ≤ es.length + xs.length →
        listInsertAll ⟨s, p⟩ e.size lw (offsetOf s v p) idx xs m = (m, .error .toPrim))
    ∧ (¬ es.length < idx → ¬ 256 ^ lw ≤ es.length + xs.length →
        (plug s v p (encode (.list e lw) (.seq (Spec.insertAt es idx xs)))).length ≤ m.orig + maxIncrease →
        ∃ m', listInsertAll ⟨s, p⟩ e.size lw (offsetOf s v p) idx xs m = (m', .ok ())
          ∧ Focus s (subst s v p (.seq (Spec.insertAt es idx xs))) p (.list e lw) (.seq (Spec.insertAt es idx xs)) m'
          ∧ m'.orig = m.orig ∧ m'.refuse = m.refuse) := by
  have hrd := list_rdlen F
  refine ⟨fun h => ?_, fun h1 h2 => ?_, fun h1 h2 hroom => ?_⟩
  · unfold listInsertAll; simp only [hrd, h, if_true]
  · unfold listInsertAll; simp only [hrd, h1, h2, if_true, if_false]
  · obtain ⟨hes, hlen⟩ := good_list F.sub
    have hil : (Spec.insertAt es idx xs).length = es.length + xs.length := by
      simp [Spec.insertAt]; omega
    have hwid : ∀ x ∈ Spec.insertAt es idx xs, x.length = e.size := by
      intro x hx
      simp only [Spec.insertAt, List.mem_append] at hx
      rcases hx with (hx | hx) | hx
      · exact hes x (List.mem_of_mem_take hx)
      · exact validE_len (hxs x hx)
      · exact hes x (List.mem_of_mem_drop hx)
    have hnew : (encode (.list e lw) (.seq (Spec.insertAt es idx xs))).length
        = (encode (.list e lw) (.seq es)).length + e.size * xs.length := by
      simp only [list_enc, List.length_append, leN_length]
      rw [flatten_width e.size _ hwid, flatten_width e.size es hes, hil, Nat.add_mul, Nat.mul_comm xs.length]
      omega
    have hpl := plug_length p s v _ _ F.good F.res (encode (.list e lw) (.seq (Spec.insertAt es idx xs)))
    obtain ⟨m1, hm1, hb1, ho1, hr1⟩ := listInsertAll_bytes F c e.size lw es (list_enc e lw es) hes hlen idx xs
      (fun x hx => validE_len (hxs x hx)) (by omega) (by omega) (by omega)
    have hb1' : m1.bytes = plug s v p (encode (.list e lw) (.seq (Spec.insertAt es idx xs))) := by
      rw [hb1, list_enc, hil]
    have hsm := F.small c _ hroom
    have g' : Good (.list e lw) (.seq (Spec.insertAt es idx xs)) := by
      apply good_list_of F.sub.ok
      · intro x hx
        simp only [Spec.insertAt, List.mem_append] at hx
        rcases hx with (hx | hx) | hx
        · exact good_list_valid F.sub x (List.mem_of_mem_take hx)
        · exact hxs x hx
        · exact good_list_valid F.sub x (List.mem_of_mem_drop hx)
      · omega
      · have : e.size * (Spec.insertAt es idx xs).length ≤ (encode (.list e lw) (.seq (Spec.insertAt es idx xs))).length := by
          simp only [list_enc, List.length_append, leN_length]
          rw [flatten_width e.size _ hwid, Nat.mul_comm]; omega
        have := u32_lt_usize
        have hle := offsetOf_le p s v _ _ F.good F.res
        omega
    exact ⟨m1, hm1, F.finish _ g' m1 hb1' (by rw [hb1']; exact hsm), ho1, hr1⟩


theorem Calm.next {m m' : Mem} (c : Calm m) (ho : m'.orig = m.orig) (hr : m'.refuse = m.refuse)
    (hl : m'.bytes.length ≤ m.orig + maxIncrease) : Calm m' :=
  ⟨by rw [hr]; exact c.noRefuse, by rw [ho]; exact c.small, by rw [ho]; exact hl⟩

/-- `remove_range` on a `List` node. -/
theorem list_removeRange_refines {s v p m} {e : Fixed} {lw : Nat} {es : List (List Nat)}
    (F : Focus s v p (.list e lw) (.seq es) m) (c : Calm m) (lo hi : Nat) :
    (hi < lo → listRemoveRange ⟨s, p⟩ e.size lw (offsetOf s v p) lo hi m = (m, .error .range))
    ∧ (¬ hi < lo → es.length < hi →
        listRemoveRange ⟨s, p⟩ e.size lw (offsetOf s v p) lo hi m = (m, .error .ioob))
    ∧ (¬ hi < lo → ¬ es.length < hi →
        ∃ m', listRemoveRange ⟨s, p⟩ e.size lw (offsetOf s v p) lo hi m = (m', .ok ())
          ∧ Focus s (subst s v p (.seq (Spec.removeRange es lo hi))) p (.list e lw) (.seq (Spec.removeRange es lo hi)) m'
          ∧ m'.orig = m.orig ∧ m'.refuse = m.refuse ∧ m'.grows = m.grows
          ∧ m'.bytes.length ≤ m.bytes.length) := by
  have hrd := list_rdlen F
  refine ⟨fun h => ?_, fun h1 h2 => ?_, fun h1 h2 => ?_⟩
  · unfold listRemoveRange; simp only [hrd, h, if_true]
  · unfold listRemoveRange; simp only [hrd, h1, h2, if_true, if_false]
  · obtain ⟨hes, hlen⟩ := good_list F.sub
    obtain ⟨m1, hm1, hb1, ho1, hr1, hg1⟩ := listRemoveRange_bytes F e.size lw es (list_enc e lw es) hes hlen lo hi
      (by omega) (by omega)
    have hrl : (Spec.removeRange es lo hi).length = es.length - (hi - lo) := by
      simp [Spec.removeRange]; omega
    have hb1' : m1.bytes = plug s v p (encode (.list e lw) (.seq (Spec.removeRange es lo hi))) := by
      rw [hb1, list_enc, hrl]
    have hwid : ∀ x ∈ Spec.removeRange es lo hi, x.length = e.size := by
      intro x hx
      simp only [Spec.removeRange, List.mem_append] at hx
      rcases hx with hx | hx
      · exact hes x (List.mem_of_mem_take hx)
      · exact hes x (List.mem_of_mem_drop hx)
    have hnew : (encode (.list e lw) (.seq (Spec.removeRange es lo hi))).length
        ≤ (encode (.list e lw) (.seq es)).length := by
      simp only [list_enc, List.length_append, leN_length]
      rw [flatten_width e.size _ hwid, flatten_width e.size es hes, hrl]
      have := Nat.mul_le_mul_right e.size (Nat.sub_le es.length (hi - lo)); omega
    have hpl := plug_length p s v _ _ F.good F.res (encode (.list e lw) (.seq (Spec.removeRange es lo hi)))
    have hle := offsetOf_le p s v _ _ F.good F.res
    have hlen1 : m1.bytes.length ≤ m.bytes.length := by rw [hb1', F.bytes]; omega
    have g' : Good (.list e lw) (.seq (Spec.removeRange es lo hi)) := by
      obtain ⟨_, _, hf⟩ := F.sub
      simp only [fits, Bool.and_eq_true, decide_eq_true_eq] at hf
      apply good_list_of F.sub.ok
      · intro x hx
        simp only [Spec.removeRange, List.mem_append] at hx
        rcases hx with hx | hx
        · exact good_list_valid F.sub x (List.mem_of_mem_take hx)
        · exact good_list_valid F.sub x (List.mem_of_mem_drop hx)
      · omega
      · have := Nat.mul_le_mul_left e.size (Nat.sub_le es.length (hi - lo)); rw [hrl]; omega
    have := c.fitsNow; have := c.small
    exact ⟨m1, hm1, F.finish _ g' m1 hb1' (by omega), ho1, hr1, hg1, hlen1⟩

end Unsized.Machine
