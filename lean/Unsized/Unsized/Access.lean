import Unsized.MachineOps
/-!
# The raw accesses of every operation (C03)

`Ev` is what hook H3 (`star_frame::verif_hooks::RAW_TRACE`) records, plus two model-only markers:

* `realloc old new ok` — `unsized_data_realloc` called by the top wrapper's `add_bytes` / `remove_bytes`
  (logged BEFORE the call: a refused or over-limit growth still appears, as the last event; `ok` says
  whether the data access granted it — not part of the printed trace);
* `move dst src n`  — a `sol_memmove`: the one of `add_bytes` (after the realloc, skipped when the insertion
  point is the end), the one of `remove_bytes` (before the realloc, skipped when the removed range ends at
  the end), the offset-table shifts of `UnsizedList::insert_all_with_offsets` (after `add_bytes`, always
  performed) and `UnsizedList::remove_range` (before `remove_bytes`);
* `call`            — the top wrapper's `add_bytes` / `remove_bytes` was entered (that is where the
  `debug_assert!(top_mut.check_pointers(..))` of `wrapper.rs` 361–367 / 455–461 runs — before the bounds
  checks and before the `amount == 0` early return);
* `notify src neg amt bytes` — `Top::resize_notification(top_mut, src, ±amt)` ran on the buffer `bytes`
  (the state after the move, before the notification's own header updates).

Every traced function `fT` returns the machine's own result paired with the events:
`(fT …).1 = f …` (`*_fst` lemmas below; for the two primitives this is true by definition) — the bytes
are never recomputed here, so the access lists cannot drift from the byte machine.
Offsets are relative to the start of the buffer.
-/
namespace Unsized.Machine
open Common Unsized Unsized.Text

/-- One traced event. -/
inductive Ev where
  | call
  | realloc (old new : Nat) (ok : Bool)
  | move (dst src n : Nat)
  | notify (src : Nat) (neg : Bool) (amt : Nat) (bytes : List Nat)
  deriving Repr, Inhabited, DecidableEq

/-- Result of a traced call. -/
abbrev Traced (α : Type) := (Mem × Except Err α) × List Ev

/-! ## The two primitives of the top wrapper -/

/-- Events of `add_bytes(start, amount)` at the top wrapper (`wrapper.rs` 347–434). -/
def addBytesEvs (m : Mem) (start amount : Nat) : List Ev :=
  if m.bytes.length < start then [.call]
  else if amount = 0 then [.call]
  else if m.grows + 1 ∈ m.refuse ∨ m.orig + maxIncrease < m.bytes.length + amount then
    [.call, .realloc m.bytes.length (m.bytes.length + amount) false]
  else if start = m.bytes.length then [.call, .realloc m.bytes.length (m.bytes.length + amount) true]
  else [.call, .realloc m.bytes.length (m.bytes.length + amount) true,
        .move (start + amount) start (m.bytes.length - start)]

def Mem.addBytesT (m : Mem) (start amount : Nat) : Traced Unit :=
  (m.addBytes start amount, addBytesEvs m start amount)

/-- Events of `remove_bytes(start..stop)` at the top wrapper (`wrapper.rs` 437–572). -/
def removeBytesEvs (m : Mem) (start stop : Nat) : List Ev :=
  if m.bytes.length < start then [.call]
  else if stop < start then [.call]
  else if m.bytes.length < stop then [.call]
  else if stop = start then [.call]
  else if stop = m.bytes.length then [.call, .realloc m.bytes.length (m.bytes.length - (stop - start)) true]
  else [.call, .move start stop (m.bytes.length - stop),
        .realloc m.bytes.length (m.bytes.length - (stop - start)) true]

def Mem.removeBytesT (m : Mem) (start stop : Nat) : Traced Unit :=
  (m.removeBytes start stop, removeBytesEvs m start stop)

/-- `add_bytes` + notification. -/
def Mem.addBytesNT (m : Mem) (c : Ctx) (src start amount : Nat) : Traced Unit :=
  match m.addBytesT start amount with
  | ((m1, .error e), ev) => ((m1, .error e), ev)
  | ((m1, .ok ()), ev) =>
    if amount = 0 then ((m1, .ok ()), ev)
    else
      match notify c.shape c.path 0 src false amount m1.bytes with
      | .error e => ((m1, .error e), ev ++ [.notify src false amount m1.bytes])
      | .ok bs => (({ m1 with bytes := bs }, .ok ()), ev ++ [.notify src false amount m1.bytes])

/-- `remove_bytes` + notification. -/
def Mem.removeBytesNT (m : Mem) (c : Ctx) (src start stop : Nat) : Traced Unit :=
  match m.removeBytesT start stop with
  | ((m1, .error e), ev) => ((m1, .error e), ev)
  | ((m1, .ok ()), ev) =>
    if stop = start then ((m1, .ok ()), ev)
    else
      match notify c.shape c.path 0 src true (stop - start) m1.bytes with
      | .error e => ((m1, .error e), ev ++ [.notify src true (stop - start) m1.bytes])
      | .ok bs => (({ m1 with bytes := bs }, .ok ()), ev ++ [.notify src true (stop - start) m1.bytes])

/-! ## `List` and the containers built on it -/

def listInsertAllT (c : Ctx) (ew lw b idx : Nat) (items : List (List Nat)) (m : Mem) : Traced Unit :=
  let len := rdN m.bytes b lw
  if len < idx then ((m, .error .ioob), [])
  else if 256 ^ lw ≤ len + items.length then ((m, .error .toPrim), [])
  else
    match m.addBytesNT c b (b + lw + idx * ew) (ew * items.length) with
    | ((m1, .error e), ev) => ((m1, .error e), ev)
    | ((m1, .ok ()), ev) =>
      let bs1 := wr m1.bytes b (leN lw (len + items.length))
      (({ m1 with bytes := wr bs1 (b + lw + idx * ew) items.flatten }, .ok ()), ev)

def listRemoveRangeT (c : Ctx) (ew lw b lo hi : Nat) (m : Mem) : Traced Unit :=
  let len := rdN m.bytes b lw
  if hi < lo then ((m, .error .range), [])
  else if len < hi then ((m, .error .ioob), [])
  else
    match m.removeBytesNT c b (b + lw + lo * ew) (b + lw + hi * ew) with
    | ((m1, .error e), ev) => ((m1, .error e), ev)
    | ((m1, .ok ()), ev) => (({ m1 with bytes := wr m1.bytes b (leN lw (len - (hi - lo))) }, .ok ()), ev)

def listPopT (c : Ctx) (ew lw b : Nat) (m : Mem) : Traced Ret :=
  let len := rdN m.bytes b lw
  if len = 0 then ((m, .ok (.flag false)), [])
  else match listRemoveRangeT c ew lw b (len - 1) len m with
    | ((m1, .error e), ev) => ((m1, .error e), ev)
    | ((m1, .ok ()), ev) => ((m1, .ok (.flag true)), ev)

def listClearT (c : Ctx) (ew lw b : Nat) (m : Mem) : Traced Unit :=
  listRemoveRangeT c ew lw b 0 (rdN m.bytes b lw) m

def setInsertT (c : Ctx) (ew lw b : Nat) (e : List Nat) (m : Mem) : Traced Bool :=
  match search (listKeys ew lw ew b m.bytes) (rdLE e) 0 with
  | .at _ => ((m, .ok false), [])
  | .ins i =>
    match listInsertAllT c ew lw b i [e] m with
    | ((m1, .error er), ev) => ((m1, .error er), ev)
    | ((m1, .ok ()), ev) => ((m1, .ok true), ev)

def setInsertAllT (c : Ctx) (ew lw b : Nat) : List (List Nat) → Nat → Mem → Traced Ret
  | [], n, m => ((m, .ok (.count n)), [])
  | e :: es, n, m =>
    match setInsertT c ew lw b e m with
    | ((m1, .error er), ev) => ((m1, .error er), ev)
    | ((m1, .ok new), ev) =>
      match setInsertAllT c ew lw b es (if new then n + 1 else n) m1 with
      | (r, ev2) => (r, ev ++ ev2)

def setRemoveT (c : Ctx) (ew lw b : Nat) (e : List Nat) (m : Mem) : Traced Ret :=
  match search (listKeys ew lw ew b m.bytes) (rdLE e) 0 with
  | .ins _ => ((m, .ok (.flag false)), [])
  | .at i =>
    match listRemoveRangeT c ew lw b i (i + 1) m with
    | ((m1, .error er), ev) => ((m1, .error er), ev)
    | ((m1, .ok ()), ev) => ((m1, .ok (.flag true)), ev)

def mapInsertT (c : Ctx) (kw vw lw b : Nat) (k v : List Nat) (m : Mem) : Traced (Option (List Nat)) :=
  let ew := kw + vw
  match search (listKeys ew lw kw b m.bytes) (rdLE k) 0 with
  | .at i =>
    let pos := b + lw + i * ew + kw
    (({ m with bytes := wr m.bytes pos v }, .ok (some (rd m.bytes pos vw))), [])
  | .ins i =>
    match listInsertAllT c ew lw b i [k ++ v] m with
    | ((m1, .error er), ev) => ((m1, .error er), ev)
    | ((m1, .ok ()), ev) => ((m1, .ok none), ev)

def mapInsertAllT (c : Ctx) (kw vw lw b : Nat) : List (List Nat × List Nat) → Nat → Mem → Traced Ret
  | [], n, m => ((m, .ok (.count n)), [])
  | (k, v) :: kvs, n, m =>
    match mapInsertT c kw vw lw b k v m with
    | ((m1, .error er), ev) => ((m1, .error er), ev)
    | ((m1, .ok old), ev) =>
      match mapInsertAllT c kw vw lw b kvs (if old.isNone then n + 1 else n) m1 with
      | (r, ev2) => (r, ev ++ ev2)

def mapRemoveT (c : Ctx) (kw vw lw b : Nat) (k : List Nat) (m : Mem) : Traced Ret :=
  let ew := kw + vw
  match search (listKeys ew lw kw b m.bytes) (rdLE k) 0 with
  | .ins _ => ((m, .ok (.old none)), [])
  | .at i =>
    let old := rd m.bytes (b + lw + i * ew + kw) vw
    match listRemoveRangeT c ew lw b i (i + 1) m with
    | ((m1, .error er), ev) => ((m1, .error er), ev)
    | ((m1, .ok ()), ev) => ((m1, .ok (.old (some old))), ev)

def strSetT (c : Ctx) (lw b : Nat) (s : List Nat) (m : Mem) : Traced Unit :=
  match listClearT c 1 lw b m with
  | ((m1, .error e), ev) => ((m1, .error e), ev)
  | ((m1, .ok ()), ev) =>
    match listInsertAllT c 1 lw b (rdN m1.bytes b lw) (s.map fun x => [x]) m1 with
    | (r, ev2) => (r, ev ++ ev2)

def remSetLenT (c : Ctx) (b n : Nat) (m : Mem) : Traced Unit :=
  let cur := m.bytes.length - b
  if cur < n then m.addBytesNT c b (b + cur) (n - cur)
  else if cur = n then ((m, .ok ()), [])
  else m.removeBytesNT c b (b + n) (b + cur)

/-! ## `set_data_inner` -/

def setDataInnerT (c : Ctx) (t : Shape) (b : Nat) (newBytes : List Nat) (fails : Bool) (m : Mem) :
    Traced Unit :=
  match extent t (m.bytes.drop b) with
  | .error _ => ((m, .error .parse), [])
  | .ok cur =>
    let new := newBytes.length
    let r : Traced Unit :=
      if cur < new then m.addBytesNT c b b (new - cur)
      else if new < cur then m.removeBytesNT c b b (b + (cur - new))
      else ((m, .ok ()), [])
    match r with
    | ((m1, .error e), ev) => ((m1, .error e), ev)
    | ((m1, .ok ()), ev) =>
      if fails then ((m1, .error .initFail), ev)
      else (({ m1 with bytes := wr m1.bytes b newBytes }, .ok ()), ev)

/-! ## `UnsizedList` -/

def ulistInsertT (c : Ctx) (cw : Nat) (e : Shape) (b idx n : Nat) (init : Init) (key : List Nat)
    (m : Mem) : Traced Unit :=
  let len := rd32 m.bytes (b + 4)
  if len < idx then ((m, .error .ioob), [])
  else
    let offset := ulistOffset cw b idx m.bytes
    let udata := b + 8 + len * cw + 4
    let start := udata + offset
    let sz := initSize e init
    match m.addBytesNT c b start ((sz + cw) * n) with
    | ((m1, .error er), ev) => ((m1, .error er), ev)
    | ((m1, .ok ()), ev0) =>
      let tpos := b + 8 + idx * cw
      -- the offset-table shift (`unsized_list.rs` 843–858), performed unconditionally
      let ev := ev0 ++ [.move (tpos + n * cw) tpos (start - tpos)]
      let bs1 := memmove m1.bytes (tpos + n * cw) tpos (start - tpos)
      let newLen := len + n
      if Shape.u32Lim ≤ newLen then (({ m1 with bytes := bs1 }, .error .arith), ev)
      else
        let bs2 := wr32 bs1 (b + 4) newLen
        let bs3 := wr32 bs2 (b + 8 + newLen * cw) newLen
        let usz := rd32 bs3 b
        let bs4 := wr32 bs3 b (usz + n * sz)
        match adjustOffsets cw b newLen (idx + n) false (n * sz) bs4 with
        | .error er => (({ m1 with bytes := bs4 }, .error er), ev)
        | .ok bs5 =>
          if n = 0 then (({ m1 with bytes := bs5 }, .ok ()), ev)
          else if initFails e init then (({ m1 with bytes := bs5 }, .error .initFail), ev)
          else
            let udata' := b + 8 + newLen * cw + 4
            (({ m1 with bytes := ulistFill cw sz key (initBytes e init) n tpos (udata' + offset) offset bs5 },
              .ok ()), ev)

def ulistClearT (c : Ctx) (cw b : Nat) (m : Mem) : Traced Unit :=
  let usz := rd32 m.bytes b
  let len := rd32 m.bytes (b + 4)
  let udata := b + 8 + len * cw + 4
  match m.removeBytesNT c b (b + 8 + 4) (udata + usz) with
  | ((m1, .error e), ev) => ((m1, .error e), ev)
  | ((m1, .ok ()), ev) =>
    (({ m1 with bytes := wr32 (wr32 (wr32 m1.bytes (b + 4) 0) (b + 8) 0) b 0 }, .ok ()), ev)

def ulistRemoveRangeT (c : Ctx) (cw b lo hi : Nat) (m : Mem) : Traced Unit :=
  let len := rd32 m.bytes (b + 4)
  if lo = 0 ∧ hi = len then ulistClearT c cw b m
  else if hi < lo then ((m, .error .range), [])
  else if len < hi then ((m, .error .ioob), [])
  else
    let so := ulistOffset cw b lo m.bytes
    let eo := ulistOffset cw b hi m.bytes
    let udata := b + 8 + len * cw + 4
    let n := hi - lo
    let removed := eo - so
    let dst := b + 8 + lo * cw
    let src := b + 8 + hi * cw
    -- the offset-table shift (`unsized_list.rs` 941–958), BEFORE `remove_bytes`
    let ev0 : List Ev := [.move dst src (udata + so - src)]
    let bs1 := memmove m.bytes dst src (udata + so - src)
    match ({ m with bytes := bs1 } : Mem).removeBytesNT c b (udata + so - cw * n) (udata + eo) with
    | ((m1, .error e), ev) => ((m1, .error e), ev0 ++ ev)
    | ((m1, .ok ()), ev1) =>
      let ev := ev0 ++ ev1
      let newLen := len - n
      let bs2 := wr32 m1.bytes (b + 4) newLen
      let bs3 := wr32 bs2 (b + 8 + newLen * cw) newLen
      let usz := rd32 bs3 b
      let bs4 := wr32 bs3 b (usz - removed)
      match adjustOffsets cw b newLen lo true removed bs4 with
      | .error e => (({ m1 with bytes := bs4 }, .error e), ev)
      | .ok bs5 => (({ m1 with bytes := bs5 }, .ok ()), ev)

def ulistPopT (c : Ctx) (cw b : Nat) (m : Mem) : Traced Ret :=
  let len := rd32 m.bytes (b + 4)
  if len = 0 then ((m, .ok (.flag false)), [])
  else match ulistRemoveRangeT c cw b (len - 1) len m with
    | ((m1, .error e), ev) => ((m1, .error e), ev)
    | ((m1, .ok ()), ev) => ((m1, .ok (.flag true)), ev)

def unitResT : Traced Unit → Traced Ret
  | ((m, .error e), ev) => ((m, .error e), ev)
  | ((m, .ok ()), ev) => ((m, .ok .unit), ev)

def umapInsertT (c : Ctx) (kw : Nat) (e : Shape) (b : Nat) (k : List Nat) (init : Init) (m : Mem) :
    Traced Ret :=
  let cw := Shape.entryW kw
  match search (umapKeys kw b m.bytes) (rdLE k) 0 with
  | .at i =>
    let len := rd32 m.bytes (b + 4)
    let eb := b + 8 + len * cw + 4 + rd32 m.bytes (b + 8 + i * cw)
    match setDataInnerT { c with path := c.path ++ [.elem i] } e eb (initBytes e init) (initFails e init) m with
    | ((m1, .error er), ev) => ((m1, .error er), ev)
    | ((m1, .ok ()), ev) => ((m1, .ok (.flag false)), ev)
  | .ins i =>
    match ulistInsertT c cw e b i 1 init k m with
    | ((m1, .error er), ev) => ((m1, .error er), ev)
    | ((m1, .ok ()), ev) => ((m1, .ok (.flag true)), ev)

/-! ## One op on the node of shape `t` at `b` -/

/-- `applyAt` with its events. Ops that never resize have no events. -/
def applyAtT (c : Ctx) (t : Shape) (b : Nat) (op : Op) (m : Mem) : Traced Ret :=
  match op with
  | .replace v =>
    if WF t v then unitResT (setDataInnerT c t b (encode t v) false m) else ((m, .error .bad), [])
  | .reset =>
    if initOk t .default then unitResT (setDataInnerT c t b (initBytes t .default) false m)
    else ((m, .error .bad), [])
  | op =>
  match t with
  | .list e lw =>
    let ew := e.size
    let len := rdN m.bytes b lw
    match op with
    | .push x => if validE e x then unitResT (listInsertAllT c ew lw b len [x] m) else ((m, .error .bad), [])
    | .insert i x => if validE e x then unitResT (listInsertAllT c ew lw b i [x] m) else ((m, .error .bad), [])
    | .insertAll i xs =>
      if xs.all (validE e) then unitResT (listInsertAllT c ew lw b i xs m) else ((m, .error .bad), [])
    | .remove i => unitResT (listRemoveRangeT c ew lw b i (i + 1) m)
    | .removeRange lo hi => unitResT (listRemoveRangeT c ew lw b lo hi m)
    | .pop => listPopT c ew lw b m
    | .clear => unitResT (listClearT c ew lw b m)
    | op => (applyAt c t b op m, [])
  | .set e lw =>
    let ew := e.size
    match op with
    | .sinsert x =>
      if validE e x then
        match setInsertT c ew lw b x m with
        | ((m1, .error er), ev) => ((m1, .error er), ev)
        | ((m1, .ok new), ev) => ((m1, .ok (.flag new)), ev)
      else ((m, .error .bad), [])
    | .sremove x => if validE e x then setRemoveT c ew lw b x m else ((m, .error .bad), [])
    | .sinsertAll xs => if xs.all (validE e) then setInsertAllT c ew lw b xs 0 m else ((m, .error .bad), [])
    | .clear => unitResT (listClearT c ew lw b m)
    | op => (applyAt c t b op m, [])
  | .map kw v lw =>
    let vw := v.size
    match op with
    | .minsert k x =>
      if k.length == kw && decide (BytesWF k) && validE v x then
        match mapInsertT c kw vw lw b k x m with
        | ((m1, .error er), ev) => ((m1, .error er), ev)
        | ((m1, .ok old), ev) => ((m1, .ok (.old old)), ev)
      else ((m, .error .bad), [])
    | .mremove k =>
      if k.length == kw && decide (BytesWF k) then mapRemoveT c kw vw lw b k m else ((m, .error .bad), [])
    | .minsertAll kvs =>
      if kvs.all (fun kx => kx.1.length == kw && decide (BytesWF kx.1) && validE v kx.2) then
        mapInsertAllT c kw vw lw b kvs 0 m
      else ((m, .error .bad), [])
    | .clear => unitResT (listClearT c (kw + vw) lw b m)
    | op => (applyAt c t b op m, [])
  | .str lw =>
    match op with
    | .strSet s =>
      if utf8Valid s && decide (BytesWF s) then unitResT (strSetT c lw b s m) else ((m, .error .bad), [])
    | op => (applyAt c t b op m, [])
  | .rem =>
    match op with
    | .setLen n => unitResT (remSetLenT c b n m)
    | op => (applyAt c t b op m, [])
  | .ulist e =>
    match op with
    | .uinsert i n => unitResT (ulistInsertT c 4 e b i n .default [] m)
    | .uinsertArr i xs =>
      if arrOk e xs then unitResT (ulistInsertT c 4 e b i 1 (.array xs) [] m) else ((m, .error .bad), [])
    | .remove i => unitResT (ulistRemoveRangeT c 4 b i (i + 1) m)
    | .removeRange lo hi => unitResT (ulistRemoveRangeT c 4 b lo hi m)
    | .pop => ulistPopT c 4 b m
    | .clear => unitResT (ulistClearT c 4 b m)
    | op => (applyAt c t b op m, [])
  | .umap kw e =>
    let cw := Shape.entryW kw
    match op with
    | .uminsert k =>
      if k.length == kw && decide (BytesWF k) then umapInsertT c kw e b k .default m else ((m, .error .bad), [])
    | .uminsertArr k xs =>
      if k.length == kw && decide (BytesWF k) && arrOk e xs then umapInsertT c kw e b k (.array xs) m
      else ((m, .error .bad), [])
    | .umremove k =>
      if k.length == kw && decide (BytesWF k) then
        match search (umapKeys kw b m.bytes) (rdLE k) 0 with
        | .ins _ => ((m, .ok (.flag false)), [])
        | .at i =>
          match ulistRemoveRangeT c cw b i (i + 1) m with
          | ((m1, .error er), ev) => ((m1, .error er), ev)
          | ((m1, .ok ()), ev) => ((m1, .ok (.flag true)), ev)
      else ((m, .error .bad), [])
    | .clear => unitResT (ulistRemoveRangeT c cw b 0 (rd32 m.bytes (b + 4)) m)
    | op => (applyAt c t b op m, [])
  | .enum ds _ =>
    match op with
    | .setVariant idx =>
      if idx < ds.length ∧ initOk t (.variant idx .default) then
        unitResT (setDataInnerT c t b (initBytes t (.variant idx .default)) false m)
      else ((m, .error .bad), [])
    | op => (applyAt c t b op m, [])
  | _ => (applyAt c t b op m, [])

/-- One op line with its events. -/
def applyOpT (s : Shape) (abs : List Step) (op : Op) (m : Mem) : Traced Ret :=
  match locate s abs 0 m.bytes with
  | .error e => ((m, .error e), [])
  | .ok (t, b) => applyAtT ⟨s, abs⟩ t b op m

/-! ## Rendering (`acc=` column of `notes/unsized_ops_c03.md`) -/

/-- The raw accesses among the events (what H3 records). -/
def Ev.isRaw : Ev → Bool
  | .realloc _ _ _ => true
  | .move _ _ _ => true
  | _ => false

def Ev.show : Ev → String
  | .realloc o n _ => s!"r:{o}:{n}"
  | .move d s n => s!"m:{d}:{s}:{n}"
  | .call => "call"
  | .notify .. => "notify"

def showAcc (evs : List Ev) : String :=
  match evs.filter Ev.isRaw with
  | [] => "-"
  | l => ",".intercalate (l.map Ev.show)

/-! ## The bounds checker the theorems are about -/

/-- The data length after the events (`len` before them). -/
def lenAfter : Nat → List Ev → Nat
  | len, [] => len
  | len, .realloc _ new ok :: es => lenAfter (if ok then new else len) es
  | len, _ :: es => lenAfter len es

/-- Every raw access of the event list stays inside the data of that moment: a granted realloc goes to
at most `cap` (= `orig + 10240`), every `memmove` reads and writes inside `[0, len)` where `len` is the
data length at that moment (after the growths that preceded it, before the shrink that follows it). -/
def evsOk (cap : Nat) : Nat → List Ev → Bool
  | _, [] => true
  | len, .realloc _ new ok :: es =>
    if ok then decide (new ≤ cap) && evsOk cap new es else evsOk cap len es
  | len, .move d s n :: es => decide (d + n ≤ len) && decide (s + n ≤ len) && evsOk cap len es
  | len, _ :: es => evsOk cap len es

/-- The largest data length during the events. -/
def maxLen : Nat → List Ev → Nat
  | len, [] => len
  | len, .realloc _ new ok :: es => max len (maxLen (if ok then new else len) es)
  | len, _ :: es => maxLen len es

/-! ## Replaying the raw accesses on the allocation (`data ++ slack`) -/

/-- The allocation the data access grants: `mem` (all `orig + 10240` bytes: data followed by slack)
and the current data length. -/
abbrev Alloc := List Nat × Nat

/-- One raw access performed on the allocation. A granted growth zero-fills `[len, new)` from the allocation's own
current length (what the runtime's realloc / the harness's data access do); a shrink only changes the length; `sol_memmove`
copies inside `mem`. -/
def execEv : Alloc → Ev → Alloc
  | (mem, len), .realloc _ new ok =>
    if ok then (if len < new then wr mem len (List.replicate (new - len) 0) else mem, new) else (mem, len)
  | (mem, len), .move d s n => (memmove mem d s n, len)
  | a, _ => a

def execEvs (a : Alloc) (evs : List Ev) : Alloc := evs.foldl execEv a

end Unsized.Machine
