import Unsized.AccessStoreLemmas
import Unsized.AccessLemmasBounds
/-!
# The stores of `resize_notification` are in bounds whenever the notification keeps the data length

`wr` never shortens a byte list and lengthens it exactly when it reaches past the end. The notification's
stores are 4-byte header / offset writes, so "the bytes after the notification are as long as before"
(which the byte machine's `notify_plug` gives on canonical buffers) forces every one of them inside the data.
-/
namespace Unsized.Machine
open Common Unsized Unsized.Text

/-- Apply the stores of an event list to a byte list. -/
def replayStores : List Nat → List EvS → List Nat
  | bs, [] => bs
  | bs, .store off v :: es => replayStores (wr bs off v) es
  | bs, .raw _ :: es => replayStores bs es

/-- Every store writes exactly 4 bytes. -/
def stores4 : List EvS → Bool
  | [] => true
  | .store _ v :: es => decide (v.length = 4) && stores4 es
  | .raw _ :: es => stores4 es

theorem stores4_append (a b : List EvS) : stores4 (a ++ b) = (stores4 a && stores4 b) := by
  induction a with
  | nil => simp [stores4]
  | cons e es ih => cases e <;> simp [stores4, ih, Bool.and_assoc]

theorem replayStores_append (a b : List EvS) : ∀ bs, replayStores bs (a ++ b) = replayStores (replayStores bs a) b := by
  induction a with
  | nil => intro bs; rfl
  | cons e es ih => intro bs; cases e <;> simp [replayStores, ih]

theorem wr_length_ge (bs : List Nat) (off : Nat) (v : List Nat) : bs.length ≤ (wr bs off v).length := by
  unfold wr; simp only [List.length_append, List.length_take, List.length_drop]; omega

theorem wr_length_eq_in (bs : List Nat) (off : Nat) (v : List Nat) (hv : 0 < v.length)
    (h : (wr bs off v).length = bs.length) : off + v.length ≤ bs.length := by
  unfold wr at h; simp only [List.length_append, List.length_take, List.length_drop] at h; omega

theorem replayStores_length_ge (evs : List EvS) : ∀ bs, bs.length ≤ (replayStores bs evs).length := by
  induction evs with
  | nil => intro bs; exact Nat.le_refl _
  | cons e es ih =>
    intro bs
    cases e with
    | raw e => exact ih bs
    | store o v => exact Nat.le_trans (wr_length_ge bs o v) (ih _)

theorem evsOkS_append (cap : Nat) (a b : List EvS) : ∀ len,
    evsOkS cap len (a ++ b) = (evsOkS cap len a && evsOkS cap (lenAfter len (rawOf a)) b) := by
  induction a with
  | nil => intro len; simp [evsOkS, lenAfter]
  | cons e es ih =>
    intro len
    cases e with
    | store o v => simp [evsOkS, ih, Bool.and_assoc]
    | raw e =>
      cases e with
      | call => simp [evsOkS, lenAfter, ih]
      | notify s n a bs => simp [evsOkS, lenAfter, ih]
      | move d s n => simp [evsOkS, lenAfter, ih, Bool.and_assoc]
      | realloc o n ok => cases ok <;> simp [evsOkS, lenAfter, ih, Bool.and_assoc]

theorem evsOkS_lift (cap : Nat) (evs : List Ev) : ∀ len, evsOkS cap len (liftEvs evs) = evsOk cap len evs := by
  induction evs with
  | nil => intro len; rfl
  | cons e es ih =>
    intro len
    cases e with
    | call => simpa [liftEvs, evsOkS, evsOk] using ih len
    | notify s n a bs => simpa [liftEvs, evsOkS, evsOk] using ih len
    | move d s n => simp only [liftEvs, List.map_cons, evsOkS, evsOk]; rw [← ih len]; rfl
    | realloc o n ok =>
      cases ok
      · simpa [liftEvs, evsOkS, evsOk] using ih len
      · simp only [liftEvs, List.map_cons, evsOkS, evsOk, ↓reduceIte]; rw [← ih n]; rfl

/-- **The length argument.** Store-only events of 4 bytes each whose replay keeps the length are all
inside `[0, len)`. -/
theorem stores_in_bounds (cap : Nat) (evs : List EvS) : ∀ bs, storesOnly evs = true → stores4 evs = true →
    (replayStores bs evs).length = bs.length → evsOkS cap bs.length evs = true := by
  induction evs with
  | nil => intro bs _ _ _; rfl
  | cons e es ih =>
    intro bs h1 h2 h3
    cases e with
    | raw e => simp [storesOnly] at h1
    | store o v =>
      simp only [storesOnly] at h1
      simp only [stores4, Bool.and_eq_true, decide_eq_true_eq] at h2
      simp only [replayStores] at h3
      have hge := replayStores_length_ge es (wr bs o v)
      have hw := wr_length_ge bs o v
      have hweq : (wr bs o v).length = bs.length := by omega
      have hin := wr_length_eq_in bs o v (by omega) hweq
      simp only [evsOkS, Bool.and_eq_true, decide_eq_true_eq]
      refine ⟨hin, ?_⟩
      have := ih (wr bs o v) h1 h2.2 (by omega)
      rw [hweq] at this
      exact this

/-! ## Replay and 4-byte-ness of the notification's stores -/

theorem shiftOffsetsS_replay (cw : Nat) (neg : Bool) (amt : Nat) : ∀ (n pos : Nat) (bs : List Nat),
    replayStores bs (shiftOffsetsS cw neg amt pos n bs).2 = (shiftOffsetsS cw neg amt pos n bs).1 ∧
    stores4 (shiftOffsetsS cw neg amt pos n bs).2 = true := by
  intro n
  induction n with
  | zero => intro pos bs; exact ⟨rfl, rfl⟩
  | succ n ih =>
    intro pos bs
    simp only [shiftOffsetsS]
    have := ih (pos + cw) (wr bs pos (leN 4 (applyDelta neg amt (rd32 bs pos))))
    exact ⟨by simp only [replayStores]; exact this.1, by simp only [stores4, leN_length, decide_true, Bool.true_and]; exact this.2⟩

theorem adjustOffsetsS_replay (cw base len start : Nat) (neg : Bool) (amt : Nat) (bs out : List Nat)
    (h : (adjustOffsetsS cw base len start neg amt bs).1 = .ok out) :
    replayStores bs (adjustOffsetsS cw base len start neg amt bs).2 = out ∧
    stores4 (adjustOffsetsS cw base len start neg amt bs).2 = true := by
  unfold adjustOffsetsS at h ⊢
  by_cases h0 : len = 0
  · simp only [h0, ↓reduceIte, Except.ok.injEq] at h ⊢; subst h; exact ⟨rfl, rfl⟩
  by_cases h1 : amt = 0
  · simp only [h0, h1, ↓reduceIte, Except.ok.injEq] at h ⊢; subst h; exact ⟨rfl, rfl⟩
  by_cases h2 : len ≤ start
  · simp only [h0, h1, h2, ↓reduceIte, Except.ok.injEq] at h ⊢; subst h; exact ⟨rfl, rfl⟩
  cases neg with
  | true =>
    by_cases h3 : rd32 bs (base + 8 + start * cw) < amt
    · simp [h0, h1, h2, h3] at h
    · simp only [h0, h1, h2, h3, ↓reduceIte, Except.ok.injEq] at h ⊢
      have := shiftOffsetsS_replay cw true amt (len - start) (base + 8 + start * cw) bs
      exact ⟨by rw [this.1]; exact h, this.2⟩
  | false =>
    by_cases h3 : Shape.u32Lim ≤ rd32 bs (base + 8 + (len - 1) * cw) + amt
    · simp [h0, h1, h2, h3] at h
    · simp only [h0, h1, h2, h3, ↓reduceIte, Bool.false_eq_true, Except.ok.injEq] at h ⊢
      have := shiftOffsetsS_replay cw false amt (len - start) (base + 8 + start * cw) bs
      exact ⟨by rw [this.1]; exact h, this.2⟩

theorem adjustOffsetsFromPtrS_replay (cw base len src : Nat) (neg : Bool) (amt : Nat) (bs out : List Nat)
    (h : (adjustOffsetsFromPtrS cw base len src neg amt bs).1 = .ok out) :
    replayStores bs (adjustOffsetsFromPtrS cw base len src neg amt bs).2 = out ∧
    stores4 (adjustOffsetsFromPtrS cw base len src neg amt bs).2 = true := by
  unfold adjustOffsetsFromPtrS at h ⊢
  split at h
  · simp only [Except.ok.injEq] at h; subst h; simp [*, replayStores, stores4]
  · rename_i h0
    simp only [h0, ↓reduceIte]
    exact adjustOffsetsS_replay _ _ _ _ _ _ _ _ h

theorem ulistNotifyS_replay (cw base src : Nat) (neg : Bool) (amt : Nat) (bs out : List Nat)
    (h : (ulistNotifyS cw base src neg amt bs).1 = .ok out) :
    replayStores bs (ulistNotifyS cw base src neg amt bs).2 = out ∧
    stores4 (ulistNotifyS cw base src neg amt bs).2 = true := by
  unfold ulistNotifyS at h ⊢
  by_cases h0 : src < base
  · simp only [h0, ↓reduceIte, Except.ok.injEq] at h ⊢; subst h; exact ⟨rfl, rfl⟩
  by_cases h1 : src = base
  · subst h1
    simp only [Nat.lt_irrefl, ↓reduceIte, Except.ok.injEq] at h ⊢; subst h; exact ⟨rfl, rfl⟩
  by_cases h2 : src < base + (12 + rd32 bs (base + 4) * cw + rd32 bs base)
  · by_cases h3 : (neg && decide (rd32 bs base < amt)) = true
    · simp [h0, h1, h2, h3] at h
    · by_cases h4 : Shape.u32Lim ≤ applyDelta neg amt (rd32 bs base)
      · simp [h0, h1, h2, h3, h4] at h
      · simp only [h0, h1, h2, h3, h4, ↓reduceIte, Bool.false_eq_true] at h ⊢
        have := adjustOffsetsFromPtrS_replay cw base (rd32 bs (base + 4)) src neg amt
          (wr bs base (leN 4 (applyDelta neg amt (rd32 bs base)))) out h
        exact ⟨by simp only [replayStores]; exact this.1,
          by simp only [stores4, leN_length, decide_true, Bool.true_and]; exact this.2⟩
  · simp only [h0, h1, h2, ↓reduceIte, Except.ok.injEq] at h ⊢; subst h; exact ⟨rfl, rfl⟩

theorem notifyS_replay (p : List Step) : ∀ (s : Shape) (base src : Nat) (neg : Bool) (amt : Nat) (bs out : List Nat),
    (notifyS s p base src neg amt bs).1 = .ok out →
    replayStores bs (notifyS s p base src neg amt bs).2 = out ∧
    stores4 (notifyS s p base src neg amt bs).2 = true := by
  induction p with
  | nil =>
    intro s base src neg amt bs out h
    simp only [notifyS, Except.ok.injEq] at h
    subst h; exact ⟨rfl, rfl⟩
  | cons st p ih =>
    intro s base src neg amt bs out h
    simp only [notifyS] at h ⊢
    cases hc : child s st base bs with
    | error e => simp [hc] at h
    | ok tb =>
      obtain ⟨t, b⟩ := tb
      simp only [hc] at h ⊢
      have h1 := ih t b src neg amt bs
      generalize notifyS t p b src neg amt bs = x at *
      rcases x with ⟨r, ev⟩
      cases r with
      | error e => simp at h
      | ok bs1 =>
        have h1' := h1 bs1 rfl
        simp only [] at h ⊢ h1'
        cases s with
        | ulist e =>
          simp only [] at h ⊢
          have h2 := ulistNotifyS_replay 4 base src neg amt bs1 out h
          exact ⟨by rw [replayStores_append, h1'.1]; exact h2.1, by rw [stores4_append, h1'.2, h2.2]; rfl⟩
        | umap kw e =>
          simp only [] at h ⊢
          have h2 := ulistNotifyS_replay (Shape.entryW kw) base src neg amt bs1 out h
          exact ⟨by rw [replayStores_append, h1'.1]; exact h2.1, by rw [stores4_append, h1'.2, h2.2]; rfl⟩
        | _ => simp only [Except.ok.injEq] at h; subst h; exact h1'

/-- **The notification's stores are inside the data** when it succeeds and keeps the length. -/
theorem notifyS_in_bounds (cap : Nat) (s : Shape) (p : List Step) (base src : Nat) (neg : Bool) (amt : Nat)
    (bs out : List Nat) (h : (notifyS s p base src neg amt bs).1 = .ok out) (hl : out.length = bs.length) :
    evsOkS cap bs.length (notifyS s p base src neg amt bs).2 = true ∧
    rawOf (notifyS s p base src neg amt bs).2 = [] := by
  obtain ⟨h1, h2⟩ := notifyS_replay p s base src neg amt bs out h
  have h3 := (notifyS_spec p s base src neg amt bs).2
  exact ⟨stores_in_bounds cap _ bs h3 h2 (by rw [h1]; exact hl), rawOf_storesOnly _ h3⟩

end Unsized.Machine
