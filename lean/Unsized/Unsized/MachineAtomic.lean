import Unsized.MachineSiblings
/-!
# Atomicity under ANY refusal schedule: `Focus.grow_cases`, `*_atomic`, `node_atomic`,
`applyOp_atomic`, and `strSet_err_canonical`
-/
namespace Unsized.Machine
open Common Unsized Unsized.Text

/-- The allocation stays below 4 GiB and `len ≤ orig + 10240` (no assumption on the refusal schedule). -/
structure Small (m : Mem) : Prop where
  small : m.orig + maxIncrease < Shape.u32Lim
  fitsNow : m.bytes.length ≤ m.orig + maxIncrease

theorem Calm.toSmall {m : Mem} (c : Calm m) : Small m := ⟨c.small, c.fitsNow⟩

/-- **`add_bytes` under ANY refusal schedule**: either the growth is refused (schedule or limit) and
nothing but the counter changes, or it succeeds exactly as in `grow_at`. -/
theorem Focus.grow_cases {s v p t u m} (F : Focus s v p t u m) (sm : Small m) (k amt : Nat)
    (hk : k ≤ (encode t u).length) :
    m.addBytesN ⟨s, p⟩ (offsetOf s v p) (offsetOf s v p + k) amt = ({ m with grows := m.grows + 1 }, .error .realloc)
    ∨ ∃ (G : List Nat) (m1 : Mem), G.length = amt
        ∧ m.addBytesN ⟨s, p⟩ (offsetOf s v p) (offsetOf s v p + k) amt = (m1, .ok ())
        ∧ m1.bytes = plug s v p ((encode t u).take k ++ G ++ (encode t u).drop k)
        ∧ m1.orig = m.orig ∧ m1.refuse = m.refuse
        ∧ (encode s v).length + amt ≤ m.orig + maxIncrease := by
  have hle := offsetOf_le p s v t u F.good F.res
  by_cases hamt : amt = 0
  · subst hamt
    right
    refine ⟨[], m, rfl, ?_, ?_, rfl, rfl, by have := sm.fitsNow; rw [F.bytes] at this; omega⟩
    · unfold Mem.addBytesN Mem.addBytes
      have h1 : ¬ m.bytes.length < offsetOf s v p + k := by rw [F.bytes]; omega
      simp [h1]
    · simp only [List.append_nil, List.take_append_drop]
      rw [plug_self p s v t u F.good F.res, F.bytes]
  · by_cases href : m.grows + 1 ∈ m.refuse ∨ m.orig + maxIncrease < m.bytes.length + amt
    · left
      exact grow_refused ⟨s, p⟩ m _ _ amt (by rw [F.bytes]; omega) (by omega) href
    · right
      have hnr : m.grows + 1 ∉ m.refuse := fun h => href (Or.inl h)
      have hlim : m.bytes.length + amt ≤ m.orig + maxIncrease := by
        have : ¬ m.orig + maxIncrease < m.bytes.length + amt := fun h => href (Or.inr h)
        omega
      obtain ⟨G, _, hG, hadd⟩ := grow_at p s v t u F.good F.res m F.bytes k amt hk (by omega)
        ⟨hnr, hlim⟩ (by have := sm.small; rw [F.bytes] at hlim; omega)
      exact ⟨G, _, hG, hadd, rfl, rfl, rfl, by rw [F.bytes] at hlim; exact hlim⟩

/-- `List::insert_all` is atomic: whatever the refusal schedule, an error leaves bytes and `orig` alone. -/
theorem listInsertAll_atomic {s v p t u m} (F : Focus s v p t u m) (sm : Small m) (ew lw : Nat)
    (es : List (List Nat)) (henc : encode t u = leN lw es.length ++ es.flatten)
    (hes : ∀ x ∈ es, x.length = ew) (hlen : es.length < 256 ^ lw)
    (idx : Nat) (items : List (List Nat)) (m' : Mem) (e : Err)
    (h : listInsertAll ⟨s, p⟩ ew lw (offsetOf s v p) idx items m = (m', .error e)) :
    m'.bytes = m.bytes ∧ m'.orig = m.orig ∧ m'.refuse = m.refuse := by
  have hElen : (encode t u).length = lw + es.length * ew := by
    rw [henc, List.length_append, leN_length, flatten_width ew es hes]
  have hrdlen : rdN m.bytes (offsetOf s v p) lw = es.length := by
    have := enc_rdN p s v t u F.good F.res 0 lw (by omega)
    rw [Nat.add_zero] at this
    rw [F.bytes, this, henc, rdN_leN_zero lw _ _ hlen]
  unfold listInsertAll at h
  simp only [hrdlen] at h
  split at h
  · cases h; exact ⟨rfl, rfl, rfl⟩
  · split at h
    · cases h; exact ⟨rfl, rfl, rfl⟩
    · rename_i hi _
      have hkle : lw + idx * ew ≤ (encode t u).length := by
        rw [hElen]; have := Nat.mul_le_mul_right ew (Nat.le_of_not_lt hi); omega
      have hpos : offsetOf s v p + lw + idx * ew = offsetOf s v p + (lw + idx * ew) := by omega
      rw [hpos] at h
      rcases F.grow_cases sm (lw + idx * ew) (ew * items.length) hkle with hr | ⟨G, m1, _, hadd, _⟩
      · rw [hr] at h; simp only [] at h; cases h; exact ⟨rfl, rfl, rfl⟩
      · rw [hadd] at h; simp only [] at h; cases h

/-- `List::remove_range` is atomic (it can only fail in its validation). -/
theorem listRemoveRange_atomic {s v p t u m} (F : Focus s v p t u m) (ew lw : Nat)
    (es : List (List Nat)) (henc : encode t u = leN lw es.length ++ es.flatten)
    (hes : ∀ x ∈ es, x.length = ew) (hlen : es.length < 256 ^ lw)
    (lo hi : Nat) (m' : Mem) (e : Err)
    (h : listRemoveRange ⟨s, p⟩ ew lw (offsetOf s v p) lo hi m = (m', .error e)) : m' = m := by
  have hElen : (encode t u).length = lw + es.length * ew := by
    rw [henc, List.length_append, leN_length, flatten_width ew es hes]
  have hrdlen : rdN m.bytes (offsetOf s v p) lw = es.length := by
    have := enc_rdN p s v t u F.good F.res 0 lw (by omega)
    rw [Nat.add_zero] at this
    rw [F.bytes, this, henc, rdN_leN_zero lw _ _ hlen]
  unfold listRemoveRange at h
  simp only [hrdlen] at h
  split at h
  · cases h; rfl
  · split at h
    · cases h; rfl
    · rename_i h1 h2
      have hk1 : lw + lo * ew ≤ lw + hi * ew := by
        have := Nat.mul_le_mul_right ew (Nat.le_of_not_lt h1); omega
      have hk2 : lw + hi * ew ≤ (encode t u).length := by
        rw [hElen]; have := Nat.mul_le_mul_right ew (Nat.le_of_not_lt h2); omega
      obtain ⟨m1, hrem, _⟩ := F.shrink (lw + lo * ew) (lw + hi * ew) hk1 hk2
      have hp1 : offsetOf s v p + lw + lo * ew = offsetOf s v p + (lw + lo * ew) := by omega
      have hp2 : offsetOf s v p + lw + hi * ew = offsetOf s v p + (lw + hi * ew) := by omega
      rw [hp1, hp2, hrem] at h
      simp only [] at h; cases h


theorem unitRes_err_inv {r : Mem × Except Err Unit} {m' : Mem} {e : Err} (h : unitRes r = (m', .error e)) :
    r = (m', .error e) := by
  obtain ⟨m1, r1⟩ := r
  cases r1 with
  | error e1 => simpa [unitRes] using h
  | ok u => cases u; simp [unitRes] at h

/-- `set_data_inner` with an infallible initialiser is atomic. -/
theorem setDataInner_atomic {s v p t u m} (F : Focus s v p t u m) (sm : Small m) (newBytes : List Nat)
    (m' : Mem) (e : Err)
    (h : setDataInner ⟨s, p⟩ t (offsetOf s v p) newBytes false m = (m', .error e)) :
    m'.bytes = m.bytes ∧ m'.orig = m.orig ∧ m'.refuse = m.refuse := by
  unfold setDataInner at h
  rw [extent_at F] at h
  simp only [Bool.false_eq_true, if_false] at h
  by_cases h1 : (encode t u).length < newBytes.length
  · simp only [h1, if_true] at h
    rcases F.grow_cases sm 0 (newBytes.length - (encode t u).length) (by omega) with hr | ⟨G, m1, _, hadd, _⟩
    · rw [Nat.add_zero] at hr; rw [hr] at h; simp only [] at h; cases h; exact ⟨rfl, rfl, rfl⟩
    · rw [Nat.add_zero] at hadd; rw [hadd] at h; simp only [] at h; cases h
  · simp only [h1, if_false] at h
    by_cases h2 : newBytes.length < (encode t u).length
    · simp only [h2, if_true] at h
      obtain ⟨m1, hrem, _⟩ := F.shrink 0 ((encode t u).length - newBytes.length) (by omega) (by omega)
      rw [Nat.add_zero] at hrem
      rw [hrem] at h; simp only [] at h; cases h
    · simp only [h2, if_false] at h; cases h

/-- `RemainingBytes::set_len` is atomic. -/
theorem remSetLen_atomic {s v p m} {l : List Nat} (F : Focus s v p .rem (.bytes l) m) (sm : Small m) (n : Nat)
    (m' : Mem) (e : Err) (h : remSetLen ⟨s, p⟩ (offsetOf s v p) n m = (m', .error e)) :
    m'.bytes = m.bytes ∧ m'.orig = m.orig ∧ m'.refuse = m.refuse := by
  obtain ⟨hcur, _⟩ := rem_tail F
  unfold remSetLen at h
  simp only [hcur] at h
  by_cases h1 : l.length < n
  · simp only [h1, if_true] at h
    rcases F.grow_cases sm l.length (n - l.length) (by simp [encode]) with hr | ⟨G, m1, _, hadd, _⟩
    · rw [hr] at h; cases h; exact ⟨rfl, rfl, rfl⟩
    · rw [hadd] at h; cases h
  · simp only [h1, if_false] at h
    by_cases h2 : l.length = n
    · rw [if_pos h2] at h; cases h
    · rw [if_neg h2] at h
      obtain ⟨m1, hrem, _⟩ := F.shrink n l.length (by omega) (by simp [encode])
      rw [hrem] at h; cases h

/-- Node kinds whose ops are proved atomic / canonical-on-error under any refusal schedule (grows as
the per-container lemmas land; `set`/`map`: see `MachineMapAtomic.lean`). -/
def atomicShape : Shape → Bool
  | .fixed _ => true
  | .list _ _ => true
  | .str _ => true
  | .rem => true
  | .struct _ _ => true
  | .enum _ _ => true
  | _ => false

/-- The (node kind, op) pairs covered by `node_atomic`. -/
def SupportedA (t : Shape) (op : Op) : Bool := atomicShape t || genericOp op

/-- **Atomicity of every covered single-container op under any refusal schedule**: if the call returns
an error (other than the known-finding class `initFail`), the bytes, `orig` and the schedule are what
they were before the call. -/
theorem node_atomic {s v p t u m} (F : Focus s v p t u m) (sm : Small m) (op : Op)
    (hsup : SupportedA t op = true) (hnc : composite op = false) (m' : Mem) (e : Err)
    (h : applyAt ⟨s, p⟩ t (offsetOf s v p) op m = (m', .error e)) :
    m'.bytes = m.bytes ∧ m'.orig = m.orig ∧ m'.refuse = m.refuse := by
  have same : ∀ {m'' : Mem} {e' : Err}, (m, (Except.error e' : Except Err Ret)) = (m'', .error e) →
      m''.bytes = m.bytes ∧ m''.orig = m.orig ∧ m''.refuse = m.refuse := by
    intro m'' e' hh; cases hh; exact ⟨rfl, rfl, rfl⟩
  -- generic ops
  by_cases hg : genericOp op = true
  · cases op <;> simp [genericOp] at hg
    · simp [applyAt] at h
    · simp only [applyAt] at h
      split at h
      · exact setDataInner_atomic F sm _ m' e (unitRes_err_inv h)
      · exact same h
    · simp only [applyAt] at h
      split at h
      · exact setDataInner_atomic F sm _ m' e (unitRes_err_inv h)
      · exact same h
  · have hc : atomicShape t = true := by
      simp only [SupportedA, Bool.or_eq_true] at hsup
      rcases hsup with h | h
      · exact h
      · exact absurd h hg
    have hv := F.sub.valid
    cases t <;> simp [atomicShape] at hc <;> cases u <;> simp only [valid, Bool.false_eq_true] at hv
    · -- fixed
      cases op <;> simp [genericOp] at hg <;> simp only [applyAt] at h <;> first
        | exact same h
        | (split at h <;> first | exact same h | cases h)
    · -- list
      rename_i el lw es
      obtain ⟨hes, hlen⟩ := good_list F.sub
      have hrd := list_rdlen F
      cases op <;> simp [genericOp] at hg <;> simp only [applyAt, hrd] at h
      all_goals first
        | exact same h
        | (split at h
           · exact listInsertAll_atomic F sm _ lw es (list_enc el lw es) hes hlen _ _ m' e (unitRes_err_inv h)
           · exact same h)
        | (have := listRemoveRange_atomic F _ lw es (list_enc el lw es) hes hlen _ _ m' e (unitRes_err_inv h)
           subst this; exact ⟨rfl, rfl, rfl⟩)
        | skip
      · -- pop
        unfold listPop at h; simp only [hrd] at h
        split at h
        · cases h
        · split at h
          · rename_i m1 e1 hrr
            cases h
            have := listRemoveRange_atomic F _ lw es (list_enc el lw es) hes hlen _ _ _ _ hrr
            subst this; exact ⟨rfl, rfl, rfl⟩
          · cases h
      · -- set
        split at h
        · split at h <;> cases h
        · exact same h
    · -- str: the only non-generic op is composite
      cases op <;> simp [genericOp] at hg <;> simp [composite] at hnc <;> simp only [applyAt] at h <;> exact same h
    · -- rem
      cases op <;> simp [genericOp] at hg <;> simp only [applyAt] at h
      all_goals first
        | exact same h
        | exact remSetLen_atomic F sm _ m' e (unitRes_err_inv h)
        | (split at h
           · split at h <;> cases h
           · exact same h)
    · -- struct
      cases op <;> simp [genericOp] at hg <;> simp only [applyAt] at h <;> first
        | exact same h
        | (split at h <;> first | exact same h | cases h)
    · -- enum
      cases op <;> simp [genericOp] at hg <;> simp only [applyAt] at h <;> first
        | exact same h
        | (split at h
           · exact setDataInner_atomic F sm _ m' e (unitRes_err_inv h)
           · exact same h)


/-- `UnsizedString::set` under any refusal schedule: on an error the buffer is canonical for the old
string or for the empty string (the `clear` happened) — never anything else. -/
theorem strSet_err_canonical {s v p m} {lw : Nat} {l : List Nat} (F : Focus s v p (.str lw) (.bytes l) m)
    (sm : Small m) (sb : List Nat) (m' : Mem) (e : Err)
    (h : strSet ⟨s, p⟩ lw (offsetOf s v p) sb m = (m', .error e)) :
    Focus s (subst s v p (.bytes [])) p (.str lw) (.bytes []) m' ∧ m'.orig = m.orig ∧ m'.refuse = m.refuse
      ∧ m'.bytes.length ≤ m.bytes.length := by
  obtain ⟨_, hv, hf⟩ := F.sub
  simp only [fits, Bool.and_eq_true, decide_eq_true_eq] at hf
  have hes : ∀ x ∈ l.map (fun b => [b]), x.length = 1 := by
    intro x hx; obtain ⟨b, _, rfl⟩ := List.mem_map.1 hx; rfl
  have hrd0 : rdN m.bytes (offsetOf s v p) lw = l.length := by
    have := enc_rdN p s v _ _ F.good F.res 0 lw (by simp [encode])
    rw [Nat.add_zero] at this
    rw [F.bytes, this]; simp only [encode]; exact rdN_leN_zero lw _ _ hf.1
  obtain ⟨m1, hm1, hb1, ho1, hr1, hg1⟩ := listRemoveRange_bytes F 1 lw (l.map fun b => [b]) (str_enc lw l) hes
    (by simpa using hf.1) 0 l.length (by omega) (by simp)
  have g0 : Good (.str lw) (.bytes []) := good_str_of F.sub.ok (by decide) (by simp) (Nat.pow_pos (by omega)) (by decide)
  have hb1' : m1.bytes = plug s v p (encode (.str lw) (.bytes [])) := by
    have hra : Spec.removeRange (l.map fun b => [b]) 0 l.length = [] := by
      have := removeRange_all (l.map fun b => [b]); simpa using this
    rw [hb1, hra]; simp [encode]
  have hpl0 := plug_length p s v _ _ F.good F.res (encode (.str lw) (.bytes []))
  have hle := offsetOf_le p s v _ _ F.good F.res
  have hcf := sm.fitsNow; have hcs := sm.small
  have hlen1 : m1.bytes.length ≤ m.bytes.length := by
    rw [hb1', F.bytes]
    simp only [encode, List.length_append, leN_length, List.length_nil] at hpl0 hle ⊢; omega
  have hsm1 : m1.bytes.length < Shape.u32Lim := by omega
  have F1 := F.finish (.bytes []) g0 m1 hb1' hsm1
  have sm1 : Small m1 := ⟨by rw [ho1]; exact hcs, by rw [ho1]; omega⟩
  have hoff1 := (subst_good p s v _ _ (.bytes []) F.good F.res g0 (by rw [← hb1']; exact hsm1)).2.2.2.1
  unfold strSet listClear at h
  rw [hrd0, hm1] at h
  simp only [] at h
  have hat := listInsertAll_atomic F1 sm1 1 lw [] (by simp [encode]) (by simp) (Nat.pow_pos (by omega))
    (rdN m1.bytes (offsetOf s v p) lw) (sb.map fun x => [x]) m' e (by rw [hoff1]; exact h)
  obtain ⟨hbb, hoo, hrr⟩ := hat
  exact ⟨⟨F1.good, F1.res, by rw [hbb]; exact F1.bytes⟩, by rw [hoo, ho1], by rw [hrr, hr1], by rw [hbb]; exact hlen1⟩

/-- Whole-value version of `node_atomic`. -/
theorem applyOp_atomic (s : Shape) (v : Val) (g : Good s v) (m : Mem) (hm : m.bytes = encode s v)
    (sm : Small m) (p : List Step) (op : Op)
    (hsup : ∀ t u, resolve s v p = .ok (t, u) → SupportedA t op = true) (hnc : composite op = false)
    (m' : Mem) (e : Err) (h : applyOp s p op m = (m', .error e)) :
    m'.bytes = m.bytes ∧ m'.orig = m.orig ∧ m'.refuse = m.refuse := by
  have hloc := locate_encode p s v g [] [] 0 rfl
  simp only [List.nil_append, List.append_nil, Nat.zero_add] at hloc
  unfold applyOp at h
  rw [hm, hloc] at h
  cases hr : resolve s v p with
  | error e' => rw [hr] at h; simp only [] at h; cases h; exact ⟨rfl, rfl, rfl⟩
  | ok tu =>
    obtain ⟨t, u⟩ := tu
    rw [hr] at h
    simp only [] at h
    exact node_atomic ⟨g, hr, hm⟩ sm op (hsup t u hr) hnc m' e h

end Unsized.Machine
