import Unsized.MachineTable
/-!
# `UnsizedList::resize_notification` on the serialized list: the "an element in me is changing its
size" branch rewrites the header into the header of the new element sizes (`ulistNotify_core`)
-/
namespace Unsized.Machine
open Common Unsized

/-- Header of an `UnsizedList`: `unsized_size`, `len`, offset table, `len` copy. -/
def uHdrOf (keys : List (List Nat)) (sizes : List Nat) : List Nat :=
  leN 4 sizes.sum ++ leN 4 sizes.length ++ tbl (offsets sizes 0) keys ++ leN 4 sizes.length

/-- Serialized `UnsizedList` with entry payloads `keys` and element images `datas`. -/
def uBytes (keys : List (List Nat)) (datas : List (List Nat)) : List Nat :=
  uHdrOf keys (datas.map List.length) ++ datas.flatten

theorem sum_take_le (l : List Nat) (i : Nat) : (l.take i).sum ≤ l.sum := by
  induction l generalizing i with
  | nil => simp
  | cons x xs ih => cases i with
    | zero => simp
    | succ i => simp; exact ih i

theorem sum_take_succ (l : List Nat) (i : Nat) (hi : i < l.length) :
    (l.take (i + 1)).sum = (l.take i).sum + l[i] := by
  induction l generalizing i with
  | nil => simp at hi
  | cons x xs ih => cases i with
    | zero => simp
    | succ i => simp [ih i (by simpa using hi)]; omega

theorem offsets_lt (sizes : List Nat) (acc : Nat) : ∀ o ∈ offsets sizes acc, o ≤ acc + sizes.sum :=
  offsets_le sizes acc

theorem sum_set (l : List Nat) (i n : Nat) (hi : i < l.length) :
    (l.set i n).sum + l[i] = l.sum + n := by
  induction l generalizing i with
  | nil => simp at hi
  | cons x xs ih => cases i with
    | zero => simp; omega
    | succ i => simp; have := ih i (by simpa using hi); omega

theorem search_offsets2 (sizes : List Nat) (acc idx i a : Nat) (hpos : ∀ s ∈ sizes, 0 < s)
    (hi : i < sizes.length)
    (hlo : acc + (sizes.take i).sum ≤ a) (hhi : a < acc + (sizes.take (i + 1)).sum) :
    search (offsets sizes acc) a idx = .at (idx + i) ∨ search (offsets sizes acc) a idx = .ins (idx + i + 1) := by
  induction sizes generalizing acc idx i with
  | nil => simp at hi
  | cons s ss ih =>
    have hs := hpos s (List.mem_cons_self)
    cases i with
    | zero =>
      simp at hlo hhi
      simp only [offsets, search]
      by_cases h1 : acc < a
      · simp only [h1, if_true]
        cases ss with
        | nil => simp [offsets, search]
        | cons s2 ss2 =>
          simp only [offsets, search]
          have : ¬ acc + s < a := by omega
          have h2 : acc + s ≠ a := by omega
          simp [this, h2]
      · have : acc = a := by omega
        simp [this]
    | succ i =>
      simp only [List.take_succ_cons, List.sum_cons] at hlo hhi
      simp only [offsets, search]
      have hacc : acc < a := by omega
      simp only [hacc, if_true]
      have := ih (acc + s) (idx + 1) i (fun s' hs' => hpos s' (List.mem_cons_of_mem _ hs'))
        (by simpa using hi) (by omega) (by omega)
      have e1 : idx + 1 + i = idx + (i + 1) := by omega
      rw [e1] at this
      exact this

theorem rd32_tbl (kw : Nat) (offs : List Nat) (keys : List (List Nat)) (pre post : List Nat) (pos j : Nat)
    (hp : pos = pre.length) (hl : offs.length = keys.length) (hk : ∀ k ∈ keys, k.length = kw)
    (ho : ∀ o ∈ offs, o < Shape.u32Lim) (hj : j < offs.length) :
    rd32 (pre ++ tbl offs keys ++ post) (pos + j * (4 + kw)) = offs[j] := by
  rw [tbl_split offs keys j]
  have hd : offs.drop j = offs[j] :: offs.drop (j + 1) := by
    rw [List.drop_eq_getElem_cons hj]
  have hj' : j < keys.length := by omega
  have hdk : keys.drop j = keys[j] :: keys.drop (j + 1) := by
    rw [List.drop_eq_getElem_cons hj']
  rw [hd, hdk, tbl_cons]
  have e : pre ++ (tbl (offs.take j) (keys.take j) ++ (leN 4 offs[j] ++ keys[j] ++ tbl (offs.drop (j + 1)) (keys.drop (j + 1)))) ++ post
      = (pre ++ tbl (offs.take j) (keys.take j)) ++ leN 4 offs[j] ++ (keys[j] ++ tbl (offs.drop (j + 1)) (keys.drop (j + 1)) ++ post) := by
    simp [List.append_assoc]
  rw [e]
  apply rd32_at
  · rw [List.length_append, tbl_length kw (offs.take j) (keys.take j) (by simp; omega)
      (fun k hk' => hk k (List.mem_of_mem_take hk'))]
    simp [hp, Nat.min_eq_left (Nat.le_of_lt hj)]
  · exact ho _ (List.getElem_mem _)

theorem ulistNotify_core (kw : Nat) (keys : List (List Nat)) (datas : List (List Nat)) (pre post Y : List Nat)
    (base src i o' : Nat) (neg : Bool) (amt : Nat)
    (hb : base = pre.length) (hl : keys.length = datas.length) (hk : ∀ k ∈ keys, k.length = kw)
    (hi : i < datas.length) (hY : Y.length = applyDelta neg amt (datas[i]).length)
    (hneg : neg = true → amt ≤ (datas[i]).length) (hamt : 0 < amt)
    (hpos : ∀ d ∈ datas, 0 < d.length)
    (hsum : (datas.map List.length).sum < Shape.u32Lim)
    (hsum' : ((datas.set i Y).map List.length).sum < Shape.u32Lim)
    (hlen : datas.length < Shape.u32Lim) (ho : o' < (datas[i]).length)
    (hsrc : src = base + 8 + datas.length * (4 + kw) + 4 + ((datas.map List.length).take i).sum + o') :
    ulistNotify (4 + kw) base src neg amt
        (pre ++ uHdrOf keys (datas.map List.length) ++ (datas.set i Y).flatten ++ post)
      = .ok (pre ++ uBytes keys (datas.set i Y) ++ post) := by
  obtain ⟨sizes, hsizes⟩ : ∃ sizes, sizes = datas.map List.length := ⟨_, rfl⟩
  have hsz : sizes.length = datas.length := by simp [hsizes]
  have hiz : i < sizes.length := by omega
  have hget : sizes[i] = (datas[i]).length := by simp [hsizes]
  have hsizes' : (datas.set i Y).map List.length = sizes.set i Y.length := by
    rw [hsizes, List.map_set]
  rw [← hsizes] at hsum hsrc ⊢
  rw [hsizes'] at hsum'
  obtain ⟨n, hn⟩ : ∃ n, n = sizes.sum := ⟨_, rfl⟩
  obtain ⟨len, hlenDef⟩ : ∃ len, len = datas.length := ⟨_, rfl⟩
  obtain ⟨rest, hrest⟩ : ∃ rest, rest = (datas.set i Y).flatten ++ post := ⟨_, rfl⟩
  rw [← hn] at hsum
  rw [← hlenDef] at hlen hsrc hsz
  have hbs : pre ++ uHdrOf keys sizes ++ (datas.set i Y).flatten ++ post
      = pre ++ leN 4 n ++ (leN 4 len ++ tbl (offsets sizes 0) keys ++ leN 4 len ++ rest) := by
    simp [uHdrOf, hsz, List.append_assoc, hrest, hn]
  have hsum_i : (sizes.take i).sum + sizes[i] ≤ n := by
    rw [hn, ← sum_take_succ sizes i hiz]; exact sum_take_le _ _
  unfold ulistNotify
  rw [hbs]
  have husz : rd32 (pre ++ leN 4 n ++ (leN 4 len ++ tbl (offsets sizes 0) keys ++ leN 4 len ++ rest)) base = n :=
    rd32_at pre _ base n hb hsum
  have hlen' : rd32 (pre ++ leN 4 n ++ (leN 4 len ++ tbl (offsets sizes 0) keys ++ leN 4 len ++ rest)) (base + 4) = len := by
    have e : pre ++ leN 4 n ++ (leN 4 len ++ tbl (offsets sizes 0) keys ++ leN 4 len ++ rest)
        = (pre ++ leN 4 n) ++ leN 4 len ++ (tbl (offsets sizes 0) keys ++ leN 4 len ++ rest) := by
      simp [List.append_assoc]
    rw [e]; exact rd32_at _ _ _ len (by simp [hb]) hlen
  simp only [husz, hlen']
  have h1 : ¬ src < base := by omega
  have h2 : src ≠ base := by omega
  have h3 : src < base + (12 + len * (4 + kw) + n) := by rw [hget] at hsum_i; omega
  simp only [h1, h2, h3, if_false, if_true]
  -- the new unsized_size
  have hn' : (sizes.set i Y.length).sum = applyDelta neg amt n := by
    have hs := sum_set sizes i Y.length hiz
    have hY' : Y.length = applyDelta neg amt sizes[i] := by rw [hget]; exact hY
    cases neg with
    | false => simp only [applyDelta, Bool.false_eq_true, if_false] at hY' ⊢; omega
    | true =>
      have := hneg rfl
      simp only [applyDelta, if_true] at hY' ⊢; omega
  have h4 : ¬ (neg = true ∧ n < amt) := by
    rintro ⟨hnn, hlt⟩; have := hneg hnn; omega
  have h5 : ¬ Shape.u32Lim ≤ applyDelta neg amt n := by rw [← hn']; omega
  simp only [Bool.and_eq_true, decide_eq_true_eq, h4, h5, if_false]
  rw [wr32_at pre _ base n _ hb]
  obtain ⟨n', hn'def⟩ : ∃ n', n' = applyDelta neg amt n := ⟨_, rfl⟩
  rw [← hn'def] at hn' h5 ⊢
  unfold adjustOffsetsFromPtr
  have hlen0 : len ≠ 0 := by omega
  simp only [hlen0, if_false]
  -- the table, framed
  have hfr : pre ++ leN 4 n' ++ (leN 4 len ++ tbl (offsets sizes 0) keys ++ leN 4 len ++ rest)
      = (pre ++ leN 4 n' ++ leN 4 len) ++ tbl (offsets sizes 0) keys ++ (leN 4 len ++ rest) := by
    simp [List.append_assoc]
  have hoffl : (offsets sizes 0).length = keys.length := by simp; omega
  have hoffb : ∀ o ∈ offsets sizes 0, o < Shape.u32Lim := by
    intro o ho'; have := offsets_le sizes 0 o ho'; omega
  have hto : tableOffsets (4 + kw) (pre ++ leN 4 n' ++ (leN 4 len ++ tbl (offsets sizes 0) keys ++ leN 4 len ++ rest))
      (base + 8) len = offsets sizes 0 := by
    rw [hfr]
    have := tableOffsets_tbl kw (offsets sizes 0) keys (pre ++ leN 4 n' ++ leN 4 len) (leN 4 len ++ rest)
      (base + 8) (by simp [hb]) hoffl hk hoffb
    simpa [hsz] using this
  rw [hto]
  have hsrc' : src - (base + 8 + len * (4 + kw) + 4) = (sizes.take i).sum + o' := by omega
  rw [hsrc']
  have hsearch := search_offsets2 sizes 0 0 i ((sizes.take i).sum + o') (by
      intro s hs; rw [hsizes] at hs; obtain ⟨d, hd, rfl⟩ := List.mem_map.1 hs; exact hpos d hd) hiz
      (by omega) (by rw [sum_take_succ sizes i hiz, hget]; omega)
  simp only [Nat.zero_add] at hsearch
  suffices key : adjustOffsets (4 + kw) base len (i + 1) neg amt
      (pre ++ leN 4 n' ++ (leN 4 len ++ tbl (offsets sizes 0) keys ++ leN 4 len ++ rest))
      = Except.ok (pre ++ uBytes keys (datas.set i Y) ++ post) by
    rcases hsearch with h | h <;> rw [h] <;> exact key
  -- the target, with the new header spelled out
  have hoffs' := offsets_set sizes 0 i Y.length neg amt hiz (by rw [hget]; exact hY) (by rw [hget]; exact hneg)
  have hrhs : pre ++ uBytes keys (datas.set i Y) ++ post
      = pre ++ leN 4 n' ++ (leN 4 len ++ tbl ((offsets sizes 0).take (i + 1)
          ++ ((offsets sizes 0).drop (i + 1)).map (applyDelta neg amt)) keys ++ leN 4 len ++ rest) := by
    simp only [uBytes, uHdrOf, hsizes', hn', List.length_set, hsz, hoffs', hrest, List.append_assoc]
  rw [hrhs]
  unfold adjustOffsets
  have hamt0 : amt ≠ 0 := by omega
  simp only [hlen0, hamt0, if_false]
  by_cases hlast : len ≤ i + 1
  · simp only [hlast, if_true]
    have : (offsets sizes 0).drop (i + 1) = [] := by
      apply List.drop_of_length_le; simp; omega
    rw [this, List.map_nil, List.append_nil, List.take_of_length_le (by simp; omega)]
  · simp only [hlast, if_false]
    obtain ⟨offs, hoffs⟩ : ∃ offs, offs = offsets sizes 0 := ⟨_, rfl⟩
    rw [← hoffs] at hoffl hoffb hfr ⊢
    have hoffn : offs.length = len := by rw [hoffs]; simp; omega
    have hjl : i + 1 < offs.length := by omega
    -- reads of single entries
    have hrd : ∀ j (hj : j < offs.length),
        rd32 (pre ++ leN 4 n' ++ (leN 4 len ++ tbl offs keys ++ leN 4 len ++ rest)) (base + 8 + j * (4 + kw)) = offs[j] := by
      intro j hj
      rw [hfr]
      exact rd32_tbl kw offs keys _ _ (base + 8) j (by simp [hb]) hoffl hk hoffb hj
    have hoj : ∀ j (hj : j < offs.length), offs[j] = (sizes.take j).sum := by
      intro j hj
      have := offsets_eq_take sizes 0 j (by omega)
      rw [← hoffs] at this
      have h2 : offs[j]? = some offs[j] := by simp [hj]
      rw [h2] at this; simpa using this
    -- the shift, framed at entry i+1
    have hfr2 : pre ++ leN 4 n' ++ (leN 4 len ++ tbl offs keys ++ leN 4 len ++ rest)
        = (pre ++ leN 4 n' ++ leN 4 len ++ tbl (offs.take (i + 1)) (keys.take (i + 1)))
            ++ tbl (offs.drop (i + 1)) (keys.drop (i + 1)) ++ (leN 4 len ++ rest) := by
      rw [tbl_split offs keys (i + 1)]; simp [List.append_assoc]
    have hshift : ∀ ng, shiftOffsets (4 + kw) ng amt (base + 8 + (i + 1) * (4 + kw)) (len - (i + 1))
        (pre ++ leN 4 n' ++ (leN 4 len ++ tbl offs keys ++ leN 4 len ++ rest))
        = pre ++ leN 4 n' ++ (leN 4 len ++ tbl (offs.take (i + 1) ++ (offs.drop (i + 1)).map (applyDelta ng amt)) keys
            ++ leN 4 len ++ rest) := by
      intro ng
      rw [hfr2]
      have hc : len - (i + 1) = (offs.drop (i + 1)).length := by simp; omega
      rw [hc, shiftOffsets_tbl kw ng amt (offs.drop (i + 1)) (keys.drop (i + 1)) _ _ _ (by
          rw [List.length_append, tbl_length kw (offs.take (i + 1)) (keys.take (i + 1)) (by simp; omega)
            (fun k hk' => hk k (List.mem_of_mem_take hk'))]
          simp [hb, Nat.min_eq_left (Nat.le_of_lt hjl)])
        (by simp; omega) (fun k hk' => hk k (List.mem_of_mem_drop hk'))
        (fun o ho' => hoffb o (List.mem_of_mem_drop ho'))]
      rw [tbl_split (offs.take (i + 1) ++ (offs.drop (i + 1)).map (applyDelta ng amt)) keys (i + 1)]
      have htl : (offs.take (i + 1)).length = i + 1 := by rw [List.length_take]; omega
      have ht : (offs.take (i + 1) ++ (offs.drop (i + 1)).map (applyDelta ng amt)).take (i + 1) = offs.take (i + 1) :=
        List.take_left' htl
      have hd : (offs.take (i + 1) ++ (offs.drop (i + 1)).map (applyDelta ng amt)).drop (i + 1)
          = (offs.drop (i + 1)).map (applyDelta ng amt) := List.drop_left' htl
      rw [ht, hd]; simp [List.append_assoc]
    cases neg with
    | true =>
      simp only [if_true]
      have := hneg rfl
      have h6 : ¬ rd32 (pre ++ leN 4 n' ++ (leN 4 len ++ tbl offs keys ++ leN 4 len ++ rest))
          (base + 8 + (i + 1) * (4 + kw)) < amt := by
        rw [hrd (i + 1) hjl, hoj (i + 1) hjl, sum_take_succ sizes i hiz, hget]; omega
      simp only [h6, if_false]
      rw [hshift true]
    | false =>
      simp only [Bool.false_eq_true, if_false]
      have h7 : ¬ Shape.u32Lim ≤ rd32 (pre ++ leN 4 n' ++ (leN 4 len ++ tbl offs keys ++ leN 4 len ++ rest))
          (base + 8 + (len - 1) * (4 + kw)) + amt := by
        rw [hrd (len - 1) (by omega), hoj (len - 1) (by omega)]
        have := sum_take_le sizes (len - 1)
        simp only [applyDelta, Bool.false_eq_true, if_false] at hn'def
        omega
      simp only [h7, if_false]
      rw [hshift false]

end Unsized.Machine
