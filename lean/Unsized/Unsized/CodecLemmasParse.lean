import Unsized.CodecLemmasSort
/-!
# Parsing arbitrary bytes: extents stay inside the input, raw reads stay in bounds
-/
namespace Unsized
open Common

/-! ## leaf parsers -/

theorem extentFixed_ok {f : Fixed} {bs : List Nat} {n : Nat} (h : extentFixed f bs = .ok n) :
    n = f.size ∧ f.size ≤ bs.length ∧ f.valid (bs.take f.size) = true := by
  unfold extentFixed at h
  split at h
  · split at h
    · simp at h; exact ⟨h.symm, by assumption, by assumption⟩
    · simp at h
  · simp at h

theorem extentList_ok {ew lw : Nat} {bs : List Nat} {n : Nat} (h : extentList ew lw bs = .ok n) :
    lw ≤ bs.length ∧ n = lw + ew * rdLE (bs.take lw) ∧ ew * rdLE (bs.take lw) ≤ bs.length - lw := by
  unfold extentList at h
  split at h
  · simp only at h
    split at h
    · simp at h
    · split at h
      · simp at h; exact ⟨by assumption, h.symm, by assumption⟩
      · simp at h
  · simp at h

theorem extentUlist_ok {cw : Nat} {bs : List Nat} {n : Nat} (h : extentUlist cw bs = .ok n) :
    let usz := rdLE (bs.take 4)
    let len := rdLE ((bs.drop 4).take 4)
    n = 4 + 4 + len * cw + 4 + usz ∧ 4 + 4 + len * cw + 4 + usz ≤ bs.length := by
  unfold extentUlist at h
  split at h
  · simp only at h
    split at h
    · split at h
      · split at h
        · split at h
          · simp at h; refine ⟨h.symm, ?_⟩; omega
          · simp at h
        · simp at h
      · simp at h
    · simp at h
  · simp at h

theorem extentFixed_ne_ub (f : Fixed) (bs : List Nat) : extentFixed f bs ≠ .error .ub := by
  unfold extentFixed; split <;> (try split) <;> simp

theorem extentList_ne_ub (ew lw : Nat) (bs : List Nat) : extentList ew lw bs ≠ .error .ub := by
  unfold extentList
  split
  · simp only; split
    · simp
    · split <;> simp
  · simp

theorem extentUlist_ne_ub (cw : Nat) (bs : List Nat) : extentUlist cw bs ≠ .error .ub := by
  unfold extentUlist
  split
  · simp only
    split
    · split
      · split
        · split <;> simp
        · simp
      · simp
    · simp
  · simp

/-! ## `extent` never reports an out-of-bounds raw read and stays inside the input -/

def ExtP (s : Shape) : Prop :=
  ∀ bs, extent s bs ≠ .error .ub ∧ ∀ n, extent s bs = .ok n → n ≤ bs.length

theorem extP_fields (fs : List Shape) (ih : ∀ f ∈ fs, ExtP f) :
    ∀ bs, extentFields fs bs ≠ .error .ub ∧ ∀ n, extentFields fs bs = .ok n → n ≤ bs.length := by
  induction fs with
  | nil => intro bs; simp [extentFields]
  | cons f fs ihf =>
    intro bs
    have hf := ih f (by simp) bs
    simp only [extentFields]
    cases hx : extent f bs with
    | error e => simp only []; exact ⟨fun h => hf.1 (by rw [hx, Except.error.injEq] at *; simpa using h), by simp⟩
    | ok n =>
      have hn := hf.2 n hx
      have hr := ihf (fun g hg => ih g (by simp [hg])) (bs.drop n)
      simp only []
      cases hy : extentFields fs (bs.drop n) with
      | error e =>
        simp only []
        refine ⟨fun h => hr.1 (by rw [hy]; simpa using h), by simp⟩
      | ok m =>
        have hm := hr.2 m hy
        simp only [List.length_drop] at hm
        simp; omega

theorem extP_variant (ps : List Shape) (ih : ∀ p ∈ ps, ExtP p) :
    ∀ (ds : List Nat) (r : Nat) (bs : List Nat),
      extentVariant ds ps r bs ≠ .error .ub ∧ ∀ n, extentVariant ds ps r bs = .ok n → n ≤ bs.length := by
  induction ps with
  | nil => intro ds r bs; cases ds <;> simp [extentVariant]
  | cons p ps ihp =>
    intro ds r bs
    cases ds with
    | nil => simp [extentVariant]
    | cons d ds =>
      simp only [extentVariant]
      split
      · exact ih p (by simp) bs
      · exact ihp (fun g hg => ih g (by simp [hg])) ds r bs

theorem extP_all (s : Shape) : ExtP s := by
  induction s using Shape.induct' with
  | fixed f =>
    intro bs; simp only [extent]
    exact ⟨extentFixed_ne_ub f bs, fun n h => by have := extentFixed_ok h; omega⟩
  | list e lw =>
    intro bs; simp only [extent]
    exact ⟨extentList_ne_ub _ _ bs, fun n h => by have := extentList_ok h; omega⟩
  | set e lw =>
    intro bs; simp only [extent]
    exact ⟨extentList_ne_ub _ _ bs, fun n h => by have := extentList_ok h; omega⟩
  | map kw v lw =>
    intro bs; simp only [extent]
    exact ⟨extentList_ne_ub _ _ bs, fun n h => by have := extentList_ok h; omega⟩
  | str lw =>
    intro bs; simp only [extent]
    exact ⟨extentList_ne_ub _ _ bs, fun n h => by have := extentList_ok h; omega⟩
  | rem => intro bs; simp [extent]
  | ulist e _ =>
    intro bs; simp only [extent]
    exact ⟨extentUlist_ne_ub _ bs, fun n h => by have := extentUlist_ok h; simp only at this; omega⟩
  | umap kw e _ =>
    intro bs; simp only [extent]
    exact ⟨extentUlist_ne_ub _ bs, fun n h => by have := extentUlist_ok h; simp only at this; omega⟩
  | struct sized fs ih =>
    intro bs
    simp only [extent]
    split
    · exact extP_fields fs ih bs
    · cases hx : extentFixed (.record sized) bs with
      | error e =>
        simp only []
        exact ⟨fun h => extentFixed_ne_ub _ bs (by rw [hx]; simpa using h), by simp⟩
      | ok n =>
        have hn := extentFixed_ok hx
        have hr := extP_fields fs ih (bs.drop n)
        simp only []
        cases hy : extentFields fs (bs.drop n) with
        | error e => simp only []; exact ⟨fun h => hr.1 (by rw [hy]; simpa using h), by simp⟩
        | ok m =>
          have hm := hr.2 m hy
          simp only [List.length_drop] at hm
          simp; omega
  | enum ds ps ih =>
    intro bs
    simp only [extent]
    cases bs with
    | nil => simp
    | cons r rest =>
      have hv := extP_variant ps ih ds r rest
      simp only []
      cases hy : extentVariant ds ps r rest with
      | error e => simp only []; exact ⟨fun h => hv.1 (by rw [hy]; simpa using h), by simp⟩
      | ok m =>
        have hm := hv.2 m hy
        simp; omega
  | unit => intro bs; simp [extent]
  | disc d inner ih =>
    intro bs
    simp only [extent]
    split
    · have hi := ih (bs.drop d.length)
      cases hy : extent inner (bs.drop d.length) with
      | error e => simp only []; exact ⟨fun h => hi.1 (by rw [hy]; simpa using h), by simp⟩
      | ok m =>
        have hm := hi.2 m hy
        simp only [List.length_drop] at hm
        simp; omega
    · simp

end Unsized

namespace Unsized
open Common

/-! ## No out-of-bounds raw read after a successful `get_ptr` -/

theorem listParts_ne_ub {ew lw : Nat} {bs : List Nat} {n : Nat} (h : extentList ew lw bs = .ok n) :
    ∃ es, listParts ew lw bs = .ok es := by
  obtain ⟨h1, _, h3⟩ := extentList_ok h
  unfold listParts
  rw [rawSlice_of_le (by omega)]
  simp only [List.drop_zero]
  rw [rawSlice_of_le (by omega)]
  exact ⟨_, rfl⟩

theorem ulistParts_ne_ub {cw : Nat} {bs : List Nat} {n : Nat} (h : extentUlist cw bs = .ok n) :
    ∃ p, ulistParts cw bs = .ok p := by
  have h2 := extentUlist_ok h
  simp only at h2
  unfold ulistParts
  rw [rawSlice_of_le (by omega)]
  simp only [List.drop_zero]
  have e1 : ((bs.take 8).take 4) = bs.take 4 := by simp [List.take_take]
  have e2 : ((bs.take 8).drop 4) = (bs.drop 4).take 4 := by
    rw [List.drop_take]
  rw [e1, e2]
  rw [rawSlice_of_le (by omega)]
  simp only []
  rw [rawSlice_of_le (by omega)]
  exact ⟨_, rfl⟩

theorem elems_ne_ub {α : Type} (sl : Slicing) (bad : E) (stop : Bool)
    (fext : List Nat → Except E Nat) (body : List Nat → Except E α) (data : List Nat)
    (hbad : bad ≠ .ub) (hext : ∀ sl, fext sl ≠ .error .ub)
    (hbody : ∀ sl n, fext sl = .ok n → body sl ≠ .error .ub) :
    ∀ rs, elems sl bad stop fext body data rs ≠ .error .ub := by
  intro rs
  induction rs with
  | nil => simp [elems]
  | cons r rs ih =>
    unfold elems
    cases hs : elemSlice sl data r with
    | none => simp only []; intro h; exact hbad (by simpa using h)
    | some slice =>
      simp only []
      cases hx : fext slice with
      | error e =>
        simp only []
        cases stop
        · simp only [Bool.false_eq_true, if_false]; intro h; exact hext slice (by rw [hx]; simpa using h)
        · simp
      | ok n =>
        simp only []
        cases hb : body slice with
        | error e => simp only []; intro h; exact hbody slice n hx (by rw [hb]; simpa using h)
        | ok v =>
          simp only []
          cases hr : elems sl bad stop fext body data rs with
          | error e => simp only []; intro h; exact ih (by rw [hr]; simpa using h)
          | ok vs => simp

/-- After `get_ptr` succeeded, neither `owned_from_ptr` nor any view walk does an out-of-bounds
raw read. -/
def NoUb (s : Shape) : Prop :=
  ∀ bs n, extent s bs = .ok n → own s bs ≠ .error .ub ∧ ∀ m, view m s bs ≠ .error .ub

theorem noUb_fields (fs : List Shape) (ih : ∀ f ∈ fs, NoUb f) :
    ∀ bs n, extentFields fs bs = .ok n →
      ownFields fs bs ≠ .error .ub ∧ ∀ m, viewFields m fs bs ≠ .error .ub := by
  induction fs with
  | nil => intro bs n _; simp [ownFields, viewFields]
  | cons f fs ihf =>
    intro bs n h
    simp only [extentFields] at h
    cases hx : extent f bs with
    | error e => rw [hx] at h; simp at h
    | ok k =>
      rw [hx] at h
      simp only [] at h
      cases hy : extentFields fs (bs.drop k) with
      | error e => rw [hy] at h; simp at h
      | ok j =>
        have hf := ih f (by simp) bs k hx
        have hr := ihf (fun g hg => ih g (by simp [hg])) (bs.drop k) j hy
        refine ⟨?_, ?_⟩
        · simp only [ownFields, hx]
          cases ho : own f bs with
          | error e => simp only []; intro h'; exact hf.1 (by rw [ho]; simpa using h')
          | ok v =>
            simp only []
            cases hq : ownFields fs (bs.drop k) with
            | error e => simp only []; intro h'; exact hr.1 (by rw [hq]; simpa using h')
            | ok vs => simp
        · intro m
          simp only [viewFields, hx]
          cases ho : view m f bs with
          | error e => simp only []; intro h'; exact hf.2 m (by rw [ho]; simpa using h')
          | ok v =>
            simp only []
            cases hq : viewFields m fs (bs.drop k) with
            | error e => simp only []; intro h'; exact hr.2 m (by rw [hq]; simpa using h')
            | ok vs => simp

theorem noUb_variant (ps : List Shape) (ih : ∀ p ∈ ps, NoUb p) :
    ∀ (ds : List Nat) (i r : Nat) (bs : List Nat) (n : Nat), extentVariant ds ps r bs = .ok n →
      ownVariant ds ps i r bs ≠ .error .ub ∧ ∀ m, viewVariant m ds ps i r bs ≠ .error .ub := by
  induction ps with
  | nil => intro ds i r bs n h; cases ds <;> simp [extentVariant] at h
  | cons p ps ihp =>
    intro ds i r bs n h
    cases ds with
    | nil => simp [extentVariant] at h
    | cons d ds =>
      simp only [extentVariant] at h
      by_cases hrd : r = d
      · rw [if_pos hrd] at h
        have hp := ih p (by simp) bs n h
        refine ⟨?_, ?_⟩
        · simp only [ownVariant, if_pos hrd]
          cases ho : own p bs with
          | error e => simp only []; intro h'; exact hp.1 (by rw [ho]; simpa using h')
          | ok v => simp
        · intro m
          simp only [viewVariant, if_pos hrd]
          cases ho : view m p bs with
          | error e => simp only []; intro h'; exact hp.2 m (by rw [ho]; simpa using h')
          | ok v => simp
      · rw [if_neg hrd] at h
        have := ihp (fun g hg => ih g (by simp [hg])) ds (i + 1) r bs n h
        refine ⟨?_, ?_⟩
        · simp only [ownVariant, if_neg hrd]; exact this.1
        · intro m; simp only [viewVariant, if_neg hrd]; exact this.2 m

theorem noUb_all (s : Shape) : NoUb s := by
  induction s using Shape.induct' with
  | fixed f =>
    intro bs n h
    simp only [extent] at h
    have := extentFixed_ok h
    have hr : rawSlice bs 0 f.size = .ok ((bs.drop 0).take f.size) := rawSlice_of_le (by omega)
    exact ⟨by simp [own, hr], fun m => by simp [view, hr]⟩
  | list e lw =>
    intro bs n h
    simp only [extent] at h
    obtain ⟨es, hes⟩ := listParts_ne_ub h
    refine ⟨?_, fun m => ?_⟩
    · simp only [own, hes]; split <;> simp
    · simp only [view, hes]; split <;> simp
  | set e lw =>
    intro bs n h
    simp only [extent] at h
    obtain ⟨es, hes⟩ := listParts_ne_ub h
    refine ⟨?_, fun m => ?_⟩
    · simp only [own, hes]; split <;> simp
    · simp only [view, hes]; split <;> simp
  | map kw v lw =>
    intro bs n h
    simp only [extent] at h
    obtain ⟨es, hes⟩ := listParts_ne_ub h
    refine ⟨?_, fun m => ?_⟩
    · simp only [own, hes]; split <;> simp
    · simp only [view, hes]; split <;> simp
  | str lw =>
    intro bs n h
    simp only [extent] at h
    obtain ⟨es, hes⟩ := listParts_ne_ub h
    refine ⟨?_, fun m => ?_⟩
    · simp only [own, hes]; split <;> simp
    · simp only [view, hes]; split <;> simp
  | rem => intro bs n _; simp [own, view]
  | ulist e ih =>
    intro bs n h
    simp only [extent] at h
    obtain ⟨⟨tbl, data⟩, hp⟩ := ulistParts_ne_ub h
    have hex : ∀ sl, extent e sl ≠ .error .ub := fun sl => (extP_all e sl).1
    refine ⟨?_, fun m => ?_⟩
    · simp only [own, hp]
      have := elems_ne_ub .suffix .panic false (extent e) (own e) data (by decide) hex
        (fun sl k hk => (ih sl k hk).1) (ranges (tbl.map (·.1)) data.length)
      cases hq : elems .suffix .panic false (extent e) (own e) data (ranges (tbl.map (·.1)) data.length) with
      | error er => simp only []; intro h'; exact this (by rw [hq]; simpa using h')
      | ok vs => simp
    · simp only [view, hp]
      have := elems_ne_ub (if m = .getMut then .suffix else .exact) (if m = .iter then .oob else .panic)
        (decide (m = .iter)) (extent e) (view m e) data (by split <;> decide) hex
        (fun sl k hk => (ih sl k hk).2 m) (ranges (tbl.map (·.1)) data.length)
      cases hq : elems (if m = .getMut then .suffix else .exact) (if m = .iter then .oob else .panic)
          (decide (m = .iter)) (extent e) (view m e) data (ranges (tbl.map (·.1)) data.length) with
      | error er => simp only []; intro h'; exact this (by rw [hq]; simpa using h')
      | ok vs => simp
  | umap kw e ih =>
    intro bs n h
    simp only [extent] at h
    obtain ⟨⟨tbl, data⟩, hp⟩ := ulistParts_ne_ub h
    have hex : ∀ sl, extent e sl ≠ .error .ub := fun sl => (extP_all e sl).1
    refine ⟨?_, fun m => ?_⟩
    · simp only [own, hp]
      have := elems_ne_ub .exact .oob true (extent e) (own e) data (by decide) hex
        (fun sl k hk => (ih sl k hk).1) (ranges (tbl.map (·.1)) data.length)
      cases hq : elems .exact .oob true (extent e) (own e) data (ranges (tbl.map (·.1)) data.length) with
      | error er => simp only []; intro h'; exact this (by rw [hq]; simpa using h')
      | ok vs => simp
    · simp only [view, hp]
      have := elems_ne_ub (if m = .getMut then .suffix else .exact) (if m = .iter then .oob else .panic)
        (decide (m = .iter)) (extent e) (view m e) data (by split <;> decide) hex
        (fun sl k hk => (ih sl k hk).2 m) (ranges (tbl.map (·.1)) data.length)
      cases hq : elems (if m = .getMut then .suffix else .exact) (if m = .iter then .oob else .panic)
          (decide (m = .iter)) (extent e) (view m e) data (ranges (tbl.map (·.1)) data.length) with
      | error er => simp only []; intro h'; exact this (by rw [hq]; simpa using h')
      | ok vs => simp
  | struct sized fs ih =>
    intro bs n h
    simp only [extent] at h
    have hkey : Fixed.sizeList sized ≤ bs.length ∧
        ∃ j, extentFields fs (bs.drop (Fixed.sizeList sized)) = .ok j := by
      by_cases hemp : sized.isEmpty = true
      · rw [if_pos hemp] at h
        have : sized = [] := by simpa using hemp
        subst this
        exact ⟨by simp [Fixed.sizeList], n, by simpa [Fixed.sizeList] using h⟩
      · rw [if_neg hemp] at h
        cases hx : extentFixed (.record sized) bs with
        | error e => rw [hx] at h; simp at h
        | ok k =>
          rw [hx] at h
          have hk := extentFixed_ok hx
          simp only [Fixed.size] at hk
          simp only [] at h
          cases hy : extentFields fs (bs.drop k) with
          | error e => rw [hy] at h; simp at h
          | ok j => exact ⟨hk.2.1, j, by rw [← hk.1]; exact hy⟩
    obtain ⟨hle, j, hj⟩ := hkey
    have hr : rawSlice bs 0 (Fixed.sizeList sized) = .ok ((bs.drop 0).take (Fixed.sizeList sized)) :=
      rawSlice_of_le (by omega)
    have hf := noUb_fields fs ih _ j hj
    refine ⟨?_, fun m => ?_⟩
    · simp only [own, hr]
      cases hq : ownFields fs (bs.drop (Fixed.sizeList sized)) with
      | error er => simp only []; intro h'; exact hf.1 (by rw [hq]; simpa using h')
      | ok vs => simp
    · simp only [view, hr]
      cases hq : viewFields m fs (bs.drop (Fixed.sizeList sized)) with
      | error er => simp only []; intro h'; exact hf.2 m (by rw [hq]; simpa using h')
      | ok vs => simp
  | enum ds ps ih =>
    intro bs n h
    simp only [extent] at h
    cases bs with
    | nil => simp at h
    | cons r rest =>
      simp only [] at h
      cases hy : extentVariant ds ps r rest with
      | error e => rw [hy] at h; simp at h
      | ok k =>
        have := noUb_variant ps ih ds 0 r rest k hy
        exact ⟨by simp only [own]; exact this.1, fun m => by simp only [view]; exact this.2 m⟩
  | unit => intro bs n _; simp [own, view]
  | disc d inner ih =>
    intro bs n h
    simp only [extent] at h
    split at h
    · cases hy : extent inner (bs.drop d.length) with
      | error e => rw [hy] at h; simp at h
      | ok k =>
        have := ih _ k hy
        exact ⟨by simp only [own]; exact this.1, fun m => by simp only [view]; exact this.2 m⟩
    · simp at h

end Unsized
