import Unsized.PtrChain
/-!
# Stage C (C01 `ptrs_fresh`): `resize_notification` keeps every pointer on the accessor chain fresh

`notify_chain`: let the sub-value at path `p` of a good value `v` (serialized at address `b`) change its
size by `±amt` (new bytes `encode t u'`), and let the broadcast `resize_notification(source = b + offsetOf s v p,
±amt)` run on the top pointer object `chainWith s v b p T` (the pointer tree after the accessors along `p`
were taken: cached `inner_exclusive` boxes, `possible_mut_borrow = true`), reading `unsized_size` fields from
the bytes as they are when the broadcast starts (the moved bytes with the still stale list headers). If the
pointer `T` of the deepest accessor becomes `T'`, the whole tree becomes `chainWith s (subst s v p u') b p T'`:
exactly the tree one gets by taking the same accessors on the NEW value — siblings before the change keep
their addresses, siblings after it are shifted, every enclosing `UnsizedListPtr` keeps its start, gets the new
range end and its cached inner pointer is the (recursively) fresh one.
-/
namespace Unsized.Ptr
open Common Unsized Unsized.Text Unsized.Machine Unsized.PtrT

theorem stepPre_len_ulist (e : Shape) (vs : List Val) (i : Nat) (w : Val) (n m : Nat) :
    (stepPre (.ulist e) (.useq (vs.set i w)) (.elem i) n).length
      = (stepPre (.ulist e) (.useq vs) (.elem i) m).length := by
  have hk : ∀ (l : List Val), ∀ k ∈ l.map (fun _ => ([] : List Nat)), k.length = 0 := by
    intro l k hk; obtain ⟨_, _, rfl⟩ := List.mem_map.1 hk; rfl
  simp only [stepPre, List.length_append, List.take_set_of_le (Nat.le_refl i)]
  rw [uHdrOf_length 0 _ _ (by simp) (hk _), uHdrOf_length 0 _ _ (by simp) (hk _)]
  simp

theorem appD_add' (neg : Bool) (amt b k : Nat) (h : neg = true → amt ≤ k) :
    applyDelta neg amt (b + k) = b + applyDelta neg amt k := by
  unfold applyDelta; cases neg
  · simp; omega
  · have := h rfl; simp; omega

theorem stepPre_len_umap (kw : Nat) (e : Shape) (es : List (List Nat × Val)) (i : Nat) (kx : List Nat × Val)
    (w : Val) (n m : Nat) (hx : es[i]? = some kx) (hkeys : ∀ k ∈ es.map (·.1), k.length = kw) :
    (stepPre (.umap kw e) (.umap (es.set i (kx.1, w))) (.elem i) n).length
      = (stepPre (.umap kw e) (.umap es) (.elem i) m).length := by
  have hi : i < es.length := by
    rcases Nat.lt_or_ge i es.length with h | h
    · exact h
    · simp [List.getElem?_eq_none h] at hx
  have hxi : es[i] = kx := by
    have := List.getElem?_eq_getElem hi; rw [hx] at this; exact (Option.some.inj this).symm
  have hk : (es.set i (kx.1, w)).map (·.1) = es.map (·.1) := by
    have := map_fst_set es i kx.1 w id hi (by rw [hxi])
    simpa using this
  simp only [stepPre, List.length_append, List.take_set_of_le (Nat.le_refl i), hk]
  rw [uHdrOf_length kw _ _ (by simp) hkeys, uHdrOf_length kw _ _ (by simp) hkeys]
  simp

theorem validFields_drop (fs : List Shape) (vs : List Val) (i : Nat) (hv : validFields fs vs = true) :
    validFields (fs.drop i) (vs.drop i) = true := by
  induction i generalizing fs vs with
  | zero => simpa using hv
  | succ i ih => cases fs with
    | nil => cases vs <;> simp [validFields] at hv ⊢
    | cons f fs => cases vs with
      | nil => simp [validFields] at hv
      | cons x xs => simp only [validFields, Bool.and_eq_true] at hv; simpa using ih fs xs hv.2

theorem validFields_length (fs : List Shape) (vs : List Val) (hv : validFields fs vs = true) :
    fs.length = vs.length := by
  induction fs generalizing vs with
  | nil => cases vs <;> simp [validFields] at hv ⊢
  | cons f fs ih => cases vs with
    | nil => simp [validFields] at hv
    | cons x xs => simp only [validFields, Bool.and_eq_true] at hv; simp [ih xs hv.2]

theorem set_self_len (l : List Nat) (i n : Nat) (h : l[i]? = some n) : l.set i n = l := by
  apply List.ext_getElem? 
  intro j
  by_cases hj : i = j
  · subst hj
    rw [h]
    have : i < l.length := by
      rcases Nat.lt_or_ge i l.length with h' | h'
      · exact h'
      · simp [List.getElem?_eq_none h'] at h
    simp [this]
  · simp [List.getElem?_set_ne hj]

theorem notify_chain (p : List Step) : ∀ (s : Shape) (v : Val) (t : Shape) (u u' : Val), Good s v →
    s ≠ .unit → s.zst = false →
    Good s (subst s v p u') → resolve s v p = .ok (t, u) →
    ∀ (pre post : List Nat) (b src : Nat) (neg : Bool) (amt : Nat) (T T' : PtrTree),
    b = pre.length → (encode t u').length = applyDelta neg amt (encode t u).length →
    (neg = true → amt ≤ (encode t u).length) → src = b + offsetOf s v p →
    b + (encode s v).length + amt < Shape.usizeLim →
    ∀ (usz : Nat → Nat),
    usz = (fun a => rd32 (pre ++ splice (encode s v) (offsetOf s v p) (encode t u).length (encode t u') ++ post) a) →
    resizeNotify usz src neg amt T = some T' →
    resizeNotify usz src neg amt (chainWith s v b p T) = some (chainWith s (subst s v p u') b p T') := by
  induction p with
  | nil =>
    intro s v t u u' g hu hz g' h pre post b src neg amt T T' hb hX hneg hsrc hlim usz husz hT
    simpa [chainWith] using hT
  | cons st p ih =>
    intro s v t u u' g hu hz g' h pre post b src neg amt T T' hb hX hneg hsrc hlim usz husz hT
    simp only [resolve] at h
    cases h1 : resolve1 s v st with
    | error e => simp [h1] at h
    | ok tu =>
      obtain ⟨t1, u1⟩ := tu
      simp only [h1] at h
      obtain ⟨g1, henc, hlen, hchild⟩ := step_facts s v st t1 u1 g h1
      clear hchild
      obtain ⟨hu1, hz1⟩ := step_nonzst s v st t1 u1 g hz h1
      have hle := offsetOf_le p t1 u1 t u g1 h
      have hol := offsetOf_lt p t1 u1 t u g1 hu1 hz1 h
      obtain ⟨w, hw⟩ : ∃ w, w = subst t1 u1 p u' := ⟨_, rfl⟩
      have hsub : subst s v (st :: p) u' = subst1 v st w := by simp only [subst, h1, hw]
      rw [hsub] at g' ⊢
      have r1' := resolve1_subst1 s v st t1 u1 w h1
      have g1' : Good t1 w := (step_facts s _ st t1 w g' r1').1
      have hsp : pre ++ splice (encode s v) (offsetOf s v (st :: p)) (encode t u).length (encode t u') ++ post
          = (pre ++ stepPre s v st (encode t1 u1).length)
            ++ splice (encode t1 u1) (offsetOf t1 u1 p) (encode t u).length (encode t u')
            ++ (stepPost s v st ++ post) := by
        simp only [offsetOf, h1]
        conv => lhs; rw [henc]
        rw [splice_mid _ _ _ _ _ _ _ (hlen 0 (encode t1 u1).length) hle]
        simp [List.append_assoc]
      have hencl : (encode s v).length = (stepPre s v st 0).length + (encode t1 u1).length + (stepPost s v st).length := by
        conv => lhs; rw [henc]
        simp only [List.length_append]; rw [hlen (encode t1 u1).length 0]
      have hsw : size t1 w = applyDelta neg amt (size t1 u1) := by
        rw [hw]; rw [hw] at g1'
        exact size_subst_delta p t1 u1 t u u' g1 g1' h neg amt hX hneg
      have hsv : size s (subst1 v st w) = applyDelta neg amt (size s v) := by
        rw [← hsub]; rw [← hsub] at g'
        exact size_subst_delta (st :: p) s v t u u' g g' (by simp only [resolve, h1]; exact h) neg amt hX hneg
      have hih := ih t1 u1 t u u' g1 hu1 hz1 (by rw [← hw]; exact g1') h
        (pre ++ stepPre s v st (encode t1 u1).length) (stepPost s v st ++ post)
        (b + (stepPre s v st 0).length) src neg amt T T'
        (by simp [hb, hlen 0 (encode t1 u1).length]) hX hneg
        (by rw [hsrc]; simp only [offsetOf, h1]; omega)
        (by omega) usz (by rw [husz, hsp]) hT
      rw [← hw] at hih
      have h1' := h1
      unfold resolve1 at h1
      split at h1
      · -- struct
        rename_i sized fs sz vs i
        split at h1
        · rename_i f x hf hx
          cases h1
          have hi : i < vs.length := by
            rcases Nat.lt_or_ge i vs.length with h | h
            · exact h
            · simp [List.getElem?_eq_none h] at hx
          have hif : i < fs.length := by
            rcases Nat.lt_or_ge i fs.length with h | h
            · exact h
            · simp [List.getElem?_eq_none h] at hf
          obtain ⟨top, ie, hok⟩ := g.ok
          have hv := g.valid
          have hfit := g.fits
          simp only [Shape.okAux, Bool.and_eq_true] at hok
          simp only [valid, Bool.and_eq_true, beq_iff_eq, decide_eq_true_eq] at hv
          simp only [fits] at hfit
          have hl := validFields_length fs vs hv.2
          have hvt := validFields_take fs vs i hv.2
          have hvd := validFields_drop fs vs (i + 1) hv.2
          have hft := fitsFields_take fs vs i hfit
          have hst := sizeFields_enc _ _ hvt
          have hsd := sizeFields_enc _ _ hvd
          have hs1 : size t1 u1 = (encode t1 u1).length := (encode_size_all _ _ g1.valid).symm
          have hpl : (stepPre (.struct sized fs) (.record sz vs) (.field i) 0).length
              = Fixed.sizeList sized + sizeFields (fs.take i) (vs.take i) := by
            simp only [stepPre, List.length_append, hst, hv.1.1.1]
          have hpo : (stepPost (.struct sized fs) (.record sz vs) (.field i)).length
              = sizeFields (fs.drop (i + 1)) (vs.drop (i + 1)) := by
            simp only [stepPost, hsd]
          have hsrc' : src = b + (Fixed.sizeList sized + sizeFields (fs.take i) (vs.take i)) + offsetOf t1 u1 p := by
            rw [hsrc]; simp only [offsetOf, h1', hpl]; omega
          obtain ⟨hokt, hzt⟩ := okFields_take fs i hok.2 hif
          -- the fields before: unchanged
          have hL : notifyL usz src neg amt (treesOf (fs.take i) (vs.take i) (b + Fixed.sizeList sized))
              = some (treesOf (fs.take i) (vs.take i) (b + Fixed.sizeList sized)) := by
            by_cases hi0 : i = 0
            · subst hi0; simp [treesOf, notifyL]
            · rw [husz, hsp]
              simp only [stepPre]
              have e1 : ∀ Z Z2 : List Nat, pre ++ (sz ++ encodeFields (fs.take i) (vs.take i)) ++ Z ++ Z2
                  = (pre ++ sz) ++ encodeFields (fs.take i) (vs.take i) ++ (Z ++ Z2) := by
                intro Z Z2; simp [List.append_assoc]
              rw [e1]
              exact before_trees (fs.take i) (fun f _ => before_all f) hokt (hzt hi0) _ hvt hft (pre ++ sz) _
                (b + Fixed.sizeList sized) (by simp [hb, hv.1.1.1]) src (by omega) neg amt
          -- the fields after: shifted
          have hR : notifyL usz src neg amt (treesOf (fs.drop (i + 1)) (vs.drop (i + 1))
                (b + Fixed.sizeList sized + sizeFields (fs.take i) (vs.take i) + size t1 u1))
              = some (treesOf (fs.drop (i + 1)) (vs.drop (i + 1))
                (b + Fixed.sizeList sized + sizeFields (fs.take i) (vs.take i) + size t1 w)) := by
            rw [after_trees (fs.drop (i + 1)) (fun f _ => after_all f) (vs.drop (i + 1)) _
              (b + (encode (.struct sized fs) (.record sz vs)).length) usz src neg amt (by omega)
              (fun hn => by have := hneg hn; omega) (by omega) (fun _ => by omega)]
            rw [appD_add' neg amt _ _ (fun hn => by have := hneg hn; omega), hsw]
          have hK := struct_kids fs vs i t1 u1 w (b + Fixed.sizeList sized) usz src neg amt _ _ hl hf hx hL hih hR
          simp only [subst1] at r1' ⊢
          simp only [chainWith, h1', r1']
          have hpl' : (stepPre (.struct sized fs) (.record sz (vs.set i w)) (.field i) 0).length
              = (stepPre (.struct sized fs) (.record sz vs) (.field i) 0).length := by
            simp only [stepPre, List.take_set_of_le (Nat.le_refl i)]
          rw [hpl']
          have hsb : ¬ src < b := by omega
          by_cases he : sized.isEmpty = true
          · have hs0 : Fixed.sizeList sized = 0 := by
              cases sized with
              | nil => rfl
              | cons _ _ => simp at he
            simp only [hs0, Nat.add_zero] at hK
            simp only [he, if_true, resizeNotify, hK]
          · simp only [he, Bool.false_eq_true, if_false, resizeNotify, notifyL, hK, hsb]
        · cases h1
      · -- ulist
        rename_i e vs i
        split at h1
        · rename_i x hx
          cases h1
          have hi : i < vs.length := by
            rcases Nat.lt_or_ge i vs.length with h | h
            · exact h
            · simp [List.getElem?_eq_none h] at hx
          have hv := g.valid
          have hfit := g.fits
          simp only [valid] at hv
          simp only [fits, Bool.and_eq_true, decide_eq_true_eq] at hfit
          have hsizes := map_encode_length t1 vs hv
          have hkeys : ∀ k ∈ vs.map (fun _ => ([] : List Nat)), k.length = 0 := by
            intro k hk; obtain ⟨_, _, rfl⟩ := List.mem_map.1 hk; rfl
          have hset : ((vs.map (encode t1)).map List.length).set i (encode t1 u1).length
              = (vs.map (encode t1)).map List.length := by
            apply set_self_len; simp [hx]
          have husz : usz b = (vs.map (size t1)).sum := by
            rw [husz, hsp]
            simp only [stepPre, hset]
            have e1 : ∀ F Z Z2 : List Nat, pre ++ (uHdrOf (vs.map fun _ => []) ((vs.map (encode t1)).map List.length) ++ F)
                ++ Z ++ Z2 = pre ++ uHdrOf (vs.map fun _ => []) ((vs.map (encode t1)).map List.length)
                  ++ (F ++ Z ++ Z2) := by intro F Z Z2; simp [List.append_assoc]
            rw [e1, rd32_uHdr_usz _ _ pre _ b hb (by rw [hsizes]; exact hfit.1.2), hsizes]
          simp only [subst1] at r1' hsv ⊢
          simp only [chainWith, h1', r1', stepPre_len_ulist t1 vs i w 0 0, List.length_set]
          have hpl : (stepPre (.ulist t1) (.useq vs) (.elem i) 0).length = 12 + vs.length * 4
              + (((vs.take i).map (encode t1)).flatten).length := by
            simp only [stepPre, List.length_append]
            rw [uHdrOf_length 0 _ _ (by simp) hkeys]; simp
          have hsz : size (.ulist t1) (.useq vs) = (encode (.ulist t1) (.useq vs)).length :=
            (encode_size_all _ _ g.valid).symm
          have hsz0 : size (.ulist t1) (.useq vs) = 4 + 4 + vs.length * 4 + 4 + (vs.map (size t1)).sum := by
            simp only [size]
          have hs1 : ¬ src < b := by omega
          have hs2 : src ≠ b := by
            rw [hsrc]; simp only [offsetOf, h1']; omega
          have hs3 : src < b + (8 + vs.length * 4 + 4 + (vs.map (size t1)).sum) := by
            rw [hsrc]; simp only [offsetOf, h1']; omega
          simp only [resizeNotify, hs1, hs2, hs3, husz, hih, if_true, if_false]
          rw [hsv, wrapOff_eq neg amt _ (fun hn => by have := hneg hn; omega) (fun _ => by omega)]
          rw [appD_add' neg amt b _ (fun hn => by have := hneg hn; omega)]
        · cases h1
      · -- umap
        rename_i kw e es i
        split at h1
        · rename_i kx hx
          cases h1
          have hi : i < es.length := by
            rcases Nat.lt_or_ge i es.length with h | h
            · exact h
            · simp [List.getElem?_eq_none h] at hx
          have hv := g.valid
          have hfit := g.fits
          simp only [valid, Bool.and_eq_true] at hv
          simp only [fits, Bool.and_eq_true, decide_eq_true_eq] at hfit
          have hvall : es.all (fun kv => valid t1 kv.2) = true := by
            rw [List.all_eq_true] at hv ⊢
            intro x hx'; have := hv.1 x hx'; simp only [Bool.and_eq_true] at this; exact this.2
          have hkeys : ∀ k ∈ es.map (·.1), k.length = kw := by
            intro k hk; obtain ⟨kv, hkv, rfl⟩ := List.mem_map.1 hk
            have := (List.all_eq_true.1 hv.1) kv hkv
            simp only [Bool.and_eq_true, beq_iff_eq] at this; exact this.1.1
          have hsizes := map_encode_length_kv t1 es hvall
          have hset : ((es.map fun kv => encode t1 kv.2).map List.length).set i (encode t1 kx.2).length
              = (es.map fun kv => encode t1 kv.2).map List.length := by
            apply set_self_len; simp [hx]
          have husz : usz b = (es.map (fun kv => size t1 kv.2)).sum := by
            rw [husz, hsp]
            simp only [stepPre, hset]
            have e1 : ∀ F Z Z2 : List Nat, pre ++ (uHdrOf (es.map (·.1)) ((es.map fun kv => encode t1 kv.2).map List.length) ++ F)
                ++ Z ++ Z2 = pre ++ uHdrOf (es.map (·.1)) ((es.map fun kv => encode t1 kv.2).map List.length)
                  ++ (F ++ Z ++ Z2) := by intro F Z Z2; simp [List.append_assoc]
            rw [e1, rd32_uHdr_usz _ _ pre _ b hb (by rw [hsizes]; exact hfit.1.2), hsizes]
          simp only [subst1, hx] at r1' hsv ⊢
          simp only [chainWith, h1', r1', stepPre_len_umap kw t1 es i kx w 0 0 hx hkeys, List.length_set]
          have hpl : (stepPre (.umap kw t1) (.umap es) (.elem i) 0).length = 12 + es.length * (4 + kw)
              + (((es.take i).map fun kv => encode t1 kv.2).flatten).length := by
            simp only [stepPre, List.length_append]
            rw [uHdrOf_length kw _ _ (by simp) hkeys]; simp
          have hsz : size (.umap kw t1) (.umap es) = (encode (.umap kw t1) (.umap es)).length :=
            (encode_size_all _ _ g.valid).symm
          have hsz0 : size (.umap kw t1) (.umap es)
              = 4 + 4 + es.length * Shape.entryW kw + 4 + (es.map (fun kv => size t1 kv.2)).sum := by
            simp only [size]
          have hew : Shape.entryW kw = 4 + kw := rfl
          have hs1 : ¬ src < b := by omega
          have hs2 : src ≠ b := by
            rw [hsrc]; simp only [offsetOf, h1']; omega
          have hs3 : src < b + (8 + es.length * Shape.entryW kw + 4 + (es.map (fun kv => size t1 kv.2)).sum) := by
            rw [hsrc]; simp only [offsetOf, h1']; omega
          simp only [resizeNotify, notifyL, hs1, hs2, hs3, husz, hih, if_true, if_false]
          rw [hsv, wrapOff_eq neg amt _ (fun hn => by have := hneg hn; omega) (fun _ => by omega)]
          rw [appD_add' neg amt b _ (fun hn => by have := hneg hn; omega)]
        · cases h1
      · -- enum
        rename_i ds ps idx pl
        split at h1
        · cases h1
        · cases h1
        · rename_i t' hnu ht
          cases h1
          simp only [subst1] at r1' ⊢
          simp only [chainWith, h1', r1', stepPre, List.length_singleton]
          simp only [stepPre, List.length_singleton] at hih
          have hsb : ¬ src < b := by omega
          simp only [resizeNotify, notifyO, hih, hsb, if_false]
      · cases h1

theorem resolve_subst (p : List Step) : ∀ (s : Shape) (v : Val) (t : Shape) (u u' : Val),
    resolve s v p = .ok (t, u) → resolve s (subst s v p u') p = .ok (t, u') := by
  induction p with
  | nil => intro s v t u u' h; simp [resolve] at h; obtain ⟨rfl, rfl⟩ := h; simp [resolve, subst]
  | cons st p ih =>
    intro s v t u u' h
    simp only [resolve] at h
    cases h1 : resolve1 s v st with
    | error e => simp [h1] at h
    | ok tu =>
      obtain ⟨t1, u1⟩ := tu
      simp only [h1] at h
      simp only [subst, h1, resolve, resolve1_subst1 s v st t1 u1 _ h1]
      exact ih t1 u1 t u u' h

/-- Replacing the child does not move it (the bytes before it keep their length). -/
theorem stepPre_subst1_len (s : Shape) (v : Val) (st : Step) (t1 : Shape) (u1 w : Val) (g : Good s v)
    (h1 : resolve1 s v st = .ok (t1, u1)) (n m : Nat) :
    (stepPre s (subst1 v st w) st n).length = (stepPre s v st m).length := by
  unfold resolve1 at h1
  split at h1
  · rename_i sized fs sz vs i
    split at h1
    · simp only [subst1, stepPre, List.take_set_of_le (Nat.le_refl i)]
    · cases h1
  · rename_i e vs i
    split at h1
    · simp only [subst1]; exact stepPre_len_ulist e vs i w n m
    · cases h1
  · rename_i kw e es i
    split at h1
    · rename_i kx hx
      have hv := g.valid
      simp only [valid, Bool.and_eq_true] at hv
      have hkeys : ∀ k ∈ es.map (·.1), k.length = kw := by
        intro k hk; obtain ⟨kv, hkv, rfl⟩ := List.mem_map.1 hk
        have := (List.all_eq_true.1 hv.1) kv hkv
        simp only [Bool.and_eq_true, beq_iff_eq] at this; exact this.1.1
      simp only [subst1, hx]; exact stepPre_len_umap kw e es i kx w n m hx hkeys
    · cases h1
  · rename_i ds ps idx pl
    split at h1
    · cases h1
    · cases h1
    · simp only [subst1, stepPre]
  · cases h1

theorem offsetOf_subst (p : List Step) : ∀ (s : Shape) (v : Val) (t : Shape) (u u' : Val), Good s v →
    resolve s v p = .ok (t, u) → offsetOf s (subst s v p u') p = offsetOf s v p := by
  induction p with
  | nil => intro s v t u u' g h; simp [offsetOf]
  | cons st p ih =>
    intro s v t u u' g h
    simp only [resolve] at h
    cases h1 : resolve1 s v st with
    | error e => simp [h1] at h
    | ok tu =>
      obtain ⟨t1, u1⟩ := tu
      simp only [h1] at h
      have g1 := (step_facts s v st t1 u1 g h1).1
      simp only [subst, h1, offsetOf, resolve1_subst1 s v st t1 u1 _ h1]
      rw [stepPre_subst1_len s v st t1 u1 _ g h1 0 0, ih t1 u1 t u u' g1 h]

/-- **`ptrs_fresh`** — the fresh chain stays the fresh chain: if the deepest accessor's own pointer is the
`get_ptr` tree of the new sub-value after the notification (`hself`; see `self_notify_*` below for when the
notification alone achieves this), then after the broadcast the whole pointer object is the one obtained by
taking the same accessors on the new value — every pointer on it is `get_ptr` of the new bytes at its place
(`getPtr_encode`), including the cached `inner_exclusive` boxes. -/
theorem ptrs_fresh (p : List Step) (s : Shape) (v : Val) (t : Shape) (u u' : Val) (g : Good s v)
    (hu : s ≠ .unit) (hz : s.zst = false) (g' : Good s (subst s v p u')) (h : resolve s v p = .ok (t, u))
    (pre post : List Nat) (b src : Nat) (neg : Bool) (amt : Nat)
    (hb : b = pre.length) (hX : (encode t u').length = applyDelta neg amt (encode t u).length)
    (hneg : neg = true → amt ≤ (encode t u).length) (hsrc : src = b + offsetOf s v p)
    (hlim : b + (encode s v).length + amt < Shape.usizeLim)
    (usz : Nat → Nat)
    (husz : usz = (fun a => rd32 (pre ++ splice (encode s v) (offsetOf s v p) (encode t u).length (encode t u') ++ post) a))
    (hself : resizeNotify usz src neg amt (treeOf t u src) = some (treeOf t u' src)) :
    resizeNotify usz src neg amt (chainOf s v b p) = some (chainOf s (subst s v p u') b p) := by
  unfold chainOf
  rw [h, resolve_subst p s v t u u' h, offsetOf_subst p s v t u u' g h]
  simp only []
  rw [← hsrc]
  exact notify_chain p s v t u u' g hu hz g' h pre post b src neg amt _ _ hb hX hneg hsrc hlim usz husz hself

/-- The deepest accessor's own pointer when it is a single address (`CheckedPtr`, `ListPtr`,
`RemainingBytesPtr`, and the one-field structs `Set`/`Map`/`UnsizedString`): the notification whose source
is that very address leaves it alone. -/
theorem self_notify_leaf (t : Shape) (u u' : Val) (usz : Nat → Nat) (src : Nat) (neg : Bool) (amt : Nat)
    (ht : (match t with | .fixed _ | .list _ _ | .set _ _ | .map _ _ _ | .str _ | .rem => true | _ => false) = true) :
    resizeNotify usz src neg amt (treeOf t u src) = some (treeOf t u' src) := by
  cases t <;> simp at ht <;> simp [treeOf, resizeNotify, notifyL]


/-- The deepest accessor is an `UnsizedList` whose own bytes changed size (its methods call
`resize_notification` with the list's own address as source): start and cached state stay, the range end
follows the new size; the length metadata is NOT touched by the notification (the method updates it). -/
theorem self_notify_ulist (e : Shape) (vs vs' : List Val) (usz : Nat → Nat) (src : Nat) (neg : Bool) (amt : Nat)
    (hsz : size (.ulist e) (.useq vs') = applyDelta neg amt (size (.ulist e) (.useq vs)))
    (hneg : neg = true → amt ≤ size (.ulist e) (.useq vs))
    (hlim : src + size (.ulist e) (.useq vs) + amt < Shape.usizeLim) :
    resizeNotify usz src neg amt (treeOf (.ulist e) (.useq vs) src)
      = some (.ulist 4 src vs.length src (src + size (.ulist e) (.useq vs')) none false) := by
  simp only [treeOf, resizeNotify, Nat.lt_irrefl, if_false, if_true]
  rw [wrapOff_eq neg amt _ (fun hn => by have := hneg hn; omega) (fun _ => by omega),
    appD_add' neg amt src _ hneg, hsz]

theorem self_notify_umap (kw : Nat) (e : Shape) (es es' : List (List Nat × Val)) (usz : Nat → Nat) (src : Nat)
    (neg : Bool) (amt : Nat)
    (hsz : size (.umap kw e) (.umap es') = applyDelta neg amt (size (.umap kw e) (.umap es)))
    (hneg : neg = true → amt ≤ size (.umap kw e) (.umap es))
    (hlim : src + size (.umap kw e) (.umap es) + amt < Shape.usizeLim) :
    resizeNotify usz src neg amt (treeOf (.umap kw e) (.umap es) src)
      = some (.node [.ulist (Shape.entryW kw) src es.length src (src + size (.umap kw e) (.umap es')) none false]) := by
  simp only [treeOf, resizeNotify, notifyL, Nat.lt_irrefl, if_false, if_true]
  rw [wrapOff_eq neg amt _ (fun hn => by have := hneg hn; omega) (fun _ => by omega),
    appD_add' neg amt src _ hneg, hsz]


/-! ## Apart from the caches the chain is `get_ptr` of the value -/

mutual
/-- Drop the cached `inner_exclusive` boxes (and `possible_mut_borrow`): what is left are the pointers
`check_pointers` of the accessor itself walks over. -/
def forget : PtrTree → PtrTree
  | .leaf k a => .leaf k a
  | .ulist cw a len lo hi _ _ => .ulist cw a len lo hi none false
  | .node ks => .node (forgetL ks)
  | .start a idx p => .start a idx (forgetO p)
def forgetO : Option PtrTree → Option PtrTree
  | none => none
  | some t => some (forget t)
def forgetL : List PtrTree → List PtrTree
  | [] => []
  | t :: ts => forget t :: forgetL ts
end

theorem forgetL_append (a c : List PtrTree) : forgetL (a ++ c) = forgetL a ++ forgetL c := by
  induction a with
  | nil => simp [forgetL]
  | cons t ts ih => simp [forgetL, ih]

def ForgetOK (s : Shape) : Prop := ∀ (v : Val) (b : Nat), forget (treeOf s v b) = treeOf s v b

theorem forget_trees (fs : List Shape) (ih : ∀ f ∈ fs, ForgetOK f) :
    ∀ (vs : List Val) (b : Nat), forgetL (treesOf fs vs b) = treesOf fs vs b := by
  induction fs with
  | nil => intro vs b; simp [treesOf, forgetL]
  | cons f fs ihf =>
    intro vs b
    cases vs with
    | nil => simp [treesOf, forgetL]
    | cons v vs =>
      simp only [treesOf, forgetL, ih f List.mem_cons_self v b,
        ihf (fun g hg => ih g (List.mem_cons_of_mem _ hg)) vs _]

theorem forget_variant (ps : List Shape) (ih : ∀ p ∈ ps, ForgetOK p) :
    ∀ (i : Nat) (v : Val) (b : Nat), forgetO (variantTree ps i v b) = variantTree ps i v b := by
  induction ps with
  | nil => intro i v b; simp [variantTree, forgetO]
  | cons q qs ihq =>
    intro i v b
    cases i with
    | zero =>
      cases q <;> simp only [variantTree, forgetO] <;>
        first
        | rfl
        | (rw [ih _ List.mem_cons_self v b])
    | succ i =>
      simp only [variantTree]
      exact ihq (fun g hg => ih g (List.mem_cons_of_mem _ hg)) i v b

theorem forget_treeOf (s : Shape) : ForgetOK s := by
  induction s using Shape.induct' with
  | struct sized fs ih =>
    intro v b
    cases v <;> try (simp only [treeOf, forget])
    rename_i sz vs
    by_cases he : sized.isEmpty = true
    · simp only [treeOf, he, if_true, forget, forget_trees fs ih]
    · simp only [treeOf, he, Bool.false_eq_true, if_false, forget, forgetL, forget_trees fs ih]
  | enum ds ps ih =>
    intro v b
    cases v <;> try (simp only [treeOf, forget])
    rename_i i pl
    rw [forget_variant ps ih]
  | ulist e ih => intro v b; cases v <;> simp only [treeOf, forget]
  | umap kw e ih => intro v b; cases v <;> simp only [treeOf, forget, forgetL]
  | disc d inner ih => intro v b; simp only [treeOf]; exact ih v _
  | unit => intro v b; simp [treeOf, forget, forgetL]
  | _ => intro v b; simp only [treeOf, forget, forgetL]

theorem forgetL_set (ks : List PtrTree) (i : Nat) (c : PtrTree) :
    forgetL (ks.set i c) = (forgetL ks).set i (forget c) := by
  induction ks generalizing i with
  | nil => simp [forgetL]
  | cons k ks ih => cases i with
    | zero => simp [forgetL]
    | succ i => simp [forgetL, ih]

theorem treesOf_set_self (fs : List Shape) (vs : List Val) (i : Nat) (f : Shape) (x : Val) (b : Nat)
    (hl : fs.length = vs.length) (hf : fs[i]? = some f) (hx : vs[i]? = some x) :
    (treesOf fs vs b).set i (treeOf f x (b + sizeFields (fs.take i) (vs.take i))) = treesOf fs vs b := by
  have hLlen : (treesOf (fs.take i) (vs.take i) b).length = i := by
    have hif : i < fs.length := by
      rcases Nat.lt_or_ge i fs.length with h | h
      · exact h
      · simp [List.getElem?_eq_none h] at hf
    rw [treesOf_length _ _ _ (by simp [hl])]; simp; omega
  rw [treesOf_split fs vs i f x b hf hx, set_mid _ _ _ _ _ hLlen.symm]

/-- **Apart from the cached boxes, the chain IS `get_ptr` of the value**: forgetting `inner_exclusive`,
the pointer object after taking the accessors along `p` is the fresh tree `treeOf s v b`
(= `getPtr s (encode s v ++ rest) b`, `getPtr_encode`), provided the deepest accessor's pointer is. -/
theorem forget_chain (p : List Step) : ∀ (s : Shape) (v : Val) (t : Shape) (u : Val) (b : Nat) (T : PtrTree),
    Good s v → resolve s v p = .ok (t, u) → forget T = treeOf t u (b + offsetOf s v p) →
    forget (chainWith s v b p T) = treeOf s v b := by
  induction p with
  | nil =>
    intro s v t u b T g h hT
    simp [resolve] at h; obtain ⟨rfl, rfl⟩ := h
    simpa [chainWith, offsetOf] using hT
  | cons st p ih =>
    intro s v t u b T g h hT
    simp only [resolve] at h
    cases h1 : resolve1 s v st with
    | error e => simp [h1] at h
    | ok tu =>
      obtain ⟨t1, u1⟩ := tu
      simp only [h1] at h
      have g1 := (step_facts s v st t1 u1 g h1).1
      have hoff : b + offsetOf s v (st :: p) = b + (stepPre s v st 0).length + offsetOf t1 u1 p := by
        simp only [offsetOf, h1]; omega
      rw [hoff] at hT
      have hc := ih t1 u1 t u (b + (stepPre s v st 0).length) T g1 h hT
      have h1' := h1
      unfold resolve1 at h1
      split at h1
      · rename_i sized fs sz vs i
        split at h1
        · rename_i f x hf hx
          cases h1
          have hv := g.valid
          simp only [valid, Bool.and_eq_true, beq_iff_eq, decide_eq_true_eq] at hv
          have hl := validFields_length fs vs hv.2
          have hst := sizeFields_enc _ _ (validFields_take fs vs i hv.2)
          have hpl : (stepPre (.struct sized fs) (.record sz vs) (.field i) 0).length
              = Fixed.sizeList sized + sizeFields (fs.take i) (vs.take i) := by
            simp only [stepPre, List.length_append, hst, hv.1.1.1]
          rw [hpl] at hc
          simp only [chainWith, h1', hpl]
          by_cases he : sized.isEmpty = true
          · have hs0 : Fixed.sizeList sized = 0 := by
              cases sized with
              | nil => rfl
              | cons _ _ => simp at he
            simp only [hs0, Nat.zero_add] at hc
            simp only [he, if_true, forget, forgetL_set, hs0, Nat.zero_add, hc, forget_trees fs (fun f _ => forget_treeOf f),
              treeOf, treesOf_set_self fs vs i t1 u1 b hl hf hx]
          · rw [← Nat.add_assoc] at hc
            simp only [he, Bool.false_eq_true, if_false, forget, forgetL, forgetL_set, ← Nat.add_assoc, hc,
              forget_trees fs (fun f _ => forget_treeOf f), treeOf,
              treesOf_set_self fs vs i t1 u1 (b + Fixed.sizeList sized) hl hf hx]
        · cases h1
      · rename_i e vs i
        split at h1
        · cases h1; simp only [chainWith, h1', forget, treeOf]
        · cases h1
      · rename_i kw e es i
        split at h1
        · cases h1; simp only [chainWith, h1', forget, forgetL, treeOf]
        · cases h1
      · rename_i ds ps idx pl
        split at h1
        · cases h1
        · cases h1
        · rename_i t' hnu ht
          cases h1
          simp only [stepPre, List.length_singleton] at hc
          simp only [chainWith, h1', forget, forgetO, stepPre, List.length_singleton, hc, treeOf,
            variantTree_some ps idx t1 u1 (b + 1) ht (fun h => hnu (by rw [h]))]
      · cases h1

end Unsized.Ptr
