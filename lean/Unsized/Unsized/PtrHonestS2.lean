import Unsized.PtrHonestM17
namespace Unsized.Ptr
open Common Unsized Unsized.Text Unsized.Machine Unsized.PtrT Unsized.PtrM

mutual
/-- Every `UnsizedMap` element shape occurring in `s` is `startOk`: a decidable condition on the TOP shape under
which `Covered` holds at every node for every op (`covered_of_allStart`). -/
def allStart : Shape → Bool
  | .ulist e => allStart e
  | .umap _ e => startOk e && allStart e
  | .struct _ fs => allStartL fs
  | .enum _ ps => allStartL ps
  | .disc _ i => allStart i
  | _ => true
def allStartL : List Shape → Bool
  | [] => true
  | f :: fs => allStart f && allStartL fs
end

theorem allStartL_get (fs : List Shape) (h : allStartL fs = true) (i : Nat) (f : Shape) (hf : fs[i]? = some f) :
    allStart f = true := by
  induction fs generalizing i with
  | nil => simp at hf
  | cons g gs ih =>
    simp only [allStartL, Bool.and_eq_true] at h
    cases i with
    | zero => simp at hf; subst hf; exact h.1
    | succ j => simp at hf; exact ih h.2 j hf

theorem allStart_step (s : Shape) (v : Val) (st : Step) (t : Shape) (u : Val)
    (h : resolve1 s v st = .ok (t, u)) (ha : allStart s = true) : allStart t = true := by
  unfold resolve1 at h
  split at h
  · rename_i sized fs sz vs i
    split at h
    · rename_i f x hf hx
      cases h
      simp only [allStart] at ha
      exact allStartL_get fs ha i t hf
    · cases h
  · rename_i e vs i
    split at h
    · cases h; simpa [allStart] using ha
    · cases h
  · rename_i kw e es i
    split at h
    · cases h
      simp only [allStart, Bool.and_eq_true] at ha
      exact ha.2
    · cases h
  · rename_i ds ps idx pl
    split at h
    · cases h
    · cases h
    · rename_i t' hnu ht
      cases h
      simp only [allStart] at ha
      exact allStartL_get ps ha idx t ht
  · cases h

theorem allStart_resolve (p : List Step) : ∀ (s : Shape) (v : Val) (t : Shape) (u : Val),
    resolve s v p = .ok (t, u) → allStart s = true → allStart t = true := by
  induction p with
  | nil => intro s v t u h ha; simp [resolve] at h; obtain ⟨rfl, rfl⟩ := h; exact ha
  | cons st p ih =>
    intro s v t u h ha
    simp only [resolve] at h
    cases h1 : resolve1 s v st with
    | error e => simp [h1] at h
    | ok tu =>
      obtain ⟨t1, u1⟩ := tu
      simp only [h1] at h
      exact ih t1 u1 t u h (allStart_step s v st t1 u1 h1 ha)

/-- Under `allStart` of the top shape, `Covered` holds at every reachable node for every op. -/
theorem covered_of_allStart (s : Shape) (v : Val) (p : List Step) (sh : Shape) (u2 : Val) (o : Op)
    (ha : allStart s = true) (h : resolve s v p = .ok (sh, u2)) : Covered sh u2 o := by
  intro kw e es k hsh _ _ _
  subst hsh
  have := allStart_resolve p s v _ u2 h ha
  simp only [allStart, Bool.and_eq_true] at this
  exact this.1

end Unsized.Ptr
