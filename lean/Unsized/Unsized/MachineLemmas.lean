import Unsized.MachineRun
import Unsized.Spec
/-!
# Lemmas about the resize machine (helpers for `Props/C01.lean`, `C02.lean`, `C06.lean`)
-/
namespace Unsized.Machine
open Common Unsized Unsized.Text

/-! ## `add_bytes` / `remove_bytes` without notification -/

theorem addBytesRaw_length (bs : List Nat) (start amount : Nat) (h : start ≤ bs.length) :
    (addBytesRaw bs start amount).length = bs.length + amount := by
  simp [addBytesRaw]; omega

theorem removeBytesRaw_length (bs : List Nat) (start stop : Nat) (h1 : start ≤ stop)
    (h2 : stop ≤ bs.length) : (removeBytesRaw bs start stop).length = bs.length - (stop - start) := by
  simp [removeBytesRaw]; omega

/-- A failing `add_bytes` leaves the bytes alone (realloc happens before the move). -/
theorem addBytes_err_bytes (m : Mem) (start amount : Nat) (e : Err) (m' : Mem)
    (h : m.addBytes start amount = (m', .error e)) : m'.bytes = m.bytes ∧ m'.orig = m.orig := by
  unfold Mem.addBytes at h
  split at h
  · cases h; simp
  · split at h
    · cases h
    · simp only at h
      split at h
      · cases h; simp
      · split at h
        · cases h; simp
        · cases h

theorem removeBytes_err_same (m : Mem) (start stop : Nat) (e : Err) (m' : Mem)
    (h : m.removeBytes start stop = (m', .error e)) : m' = m := by
  unfold Mem.removeBytes at h
  repeat' split at h
  all_goals first | (cases h; rfl) | cases h

end Unsized.Machine
