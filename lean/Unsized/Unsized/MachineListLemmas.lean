import Unsized.MachineResize
/-!
# `Focus` (an accessor on a canonical buffer), `Calm` (headroom), and `List::insert_all` /
`List::remove_range` at any nesting depth (`listInsertAll_bytes`, `listRemoveRange_bytes`)
-/
namespace Unsized.Machine
open Common Unsized Unsized.Text

/-- The accessor at `p` of a canonical buffer: value, path and bytes belong together. -/
structure Focus (s : Shape) (v : Val) (p : List Step) (t : Shape) (u : Val) (m : Mem) : Prop where
  good : Good s v
  res : resolve s v p = .ok (t, u)
  bytes : m.bytes = encode s v

/-- Enough headroom: nothing is scheduled to be refused and the allocation stays below 4 GiB. -/
structure Calm (m : Mem) : Prop where
  noRefuse : m.refuse = []
  small : m.orig + maxIncrease < Shape.u32Lim
  /-- the data access never lets `len` exceed `orig + 10240` -/
  fitsNow : m.bytes.length ≤ m.orig + maxIncrease

theorem Focus.sub {s v p t u m} (F : Focus s v p t u m) : Good t u := by
  have : ∀ (p : List Step) (s : Shape) (v : Val), Good s v → resolve s v p = .ok (t, u) → Good t u := by
    intro p
    induction p with
    | nil => intro s v g h; simp [resolve] at h; obtain ⟨rfl, rfl⟩ := h; exact g
    | cons st p ih =>
      intro s v g h
      simp only [resolve] at h
      cases h1 : resolve1 s v st with
      | error e => simp [h1] at h
      | ok tu =>
        obtain ⟨t1, u1⟩ := tu
        simp only [h1] at h
        exact ih t1 u1 (step_facts s v st t1 u1 g h1).1 h
  exact this p s v F.good F.res

/-- After the node's bytes became `encode t u'`: a focus on the new value. -/
theorem Focus.finish {s v p t u m} (F : Focus s v p t u m) (u' : Val) (g' : Good t u') (m' : Mem)
    (hb : m'.bytes = plug s v p (encode t u')) (hsmall : m'.bytes.length < Shape.u32Lim) :
    Focus s (subst s v p u') p t u' m' := by
  obtain ⟨gs, he, hr, _, _⟩ := subst_good p s v t u u' F.good F.res g' (by rw [← hb]; exact hsmall)
  exact ⟨gs, hr, by rw [hb, he]⟩

theorem flatten_width (ew : Nat) (es : List (List Nat)) (h : ∀ x ∈ es, x.length = ew) :
    es.flatten.length = es.length * ew := by
  induction es with
  | nil => simp
  | cons x xs ih =>
    simp only [List.flatten_cons, List.length_append, List.length_cons]
    rw [ih (fun y hy => h y (List.mem_cons_of_mem _ hy)), h x List.mem_cons_self, Nat.add_mul]; omega

theorem flatten_take (ew : Nat) (es : List (List Nat)) (h : ∀ x ∈ es, x.length = ew) (i : Nat) :
    es.flatten.take (i * ew) = (es.take i).flatten := by
  induction es generalizing i with
  | nil => simp
  | cons x xs ih =>
    cases i with
    | zero => simp
    | succ i =>
      simp only [List.flatten_cons, List.take_succ_cons]
      have hx := h x List.mem_cons_self
      have : (i + 1) * ew = x.length + i * ew := by rw [hx, Nat.add_mul]; omega
      rw [this, take_append_add x _ _ _ rfl, ih (fun y hy => h y (List.mem_cons_of_mem _ hy))]

theorem flatten_drop (ew : Nat) (es : List (List Nat)) (h : ∀ x ∈ es, x.length = ew) (i : Nat) :
    es.flatten.drop (i * ew) = (es.drop i).flatten := by
  induction es generalizing i with
  | nil => simp
  | cons x xs ih =>
    cases i with
    | zero => simp
    | succ i =>
      simp only [List.flatten_cons, List.drop_succ_cons]
      have hx := h x List.mem_cons_self
      have : (i + 1) * ew = x.length + i * ew := by rw [hx, Nat.add_mul]; omega
      rw [this, drop_append_add x _ _ _ rfl, ih (fun y hy => h y (List.mem_cons_of_mem _ hy))]

/-- Byte algebra of `List::insert_all`: gap opened at element `idx`, prefix and items written. -/
theorem list_insert_bytes (ew lw : Nat) (es items : List (List Nat)) (idx n' : Nat) (G : List Nat)
    (hes : ∀ x ∈ es, x.length = ew) (hG : G.length = items.flatten.length) (hidx : idx ≤ es.length) :
    wr (wr ((leN lw es.length ++ es.flatten).take (lw + idx * ew) ++ G
              ++ (leN lw es.length ++ es.flatten).drop (lw + idx * ew)) 0 (leN lw n'))
        (lw + idx * ew) items.flatten
      = leN lw n' ++ (Spec.insertAt es idx items).flatten := by
  have ht : (leN lw es.length ++ es.flatten).take (lw + idx * ew) = leN lw es.length ++ (es.take idx).flatten := by
    rw [take_append_add _ _ _ _ (by simp), flatten_take ew es hes]
  have hd : (leN lw es.length ++ es.flatten).drop (lw + idx * ew) = (es.drop idx).flatten := by
    rw [drop_append_add _ _ _ _ (by simp), flatten_drop ew es hes]
  rw [ht, hd]
  have e1 : leN lw es.length ++ (es.take idx).flatten ++ G ++ (es.drop idx).flatten
      = leN lw es.length ++ ((es.take idx).flatten ++ G ++ (es.drop idx).flatten) := by
    simp [List.append_assoc]
  rw [e1, wr_zero _ _ _ (by simp)]
  have e2 : leN lw n' ++ ((es.take idx).flatten ++ G ++ (es.drop idx).flatten)
      = (leN lw n' ++ (es.take idx).flatten) ++ G ++ (es.drop idx).flatten := by
    simp [List.append_assoc]
  rw [e2, wr_after _ G items.flatten _ _ (by
    simp only [List.length_append, leN_length]
    rw [flatten_width ew (es.take idx) (fun x hx => hes x (List.mem_of_mem_take hx))]
    simp [Nat.min_eq_left hidx]) hG]
  simp [Spec.insertAt, List.append_assoc]


theorem wr_nil (bs : List Nat) (k : Nat) : wr bs k [] = bs := by simp [wr]

/-- `grow_at`, also for an empty growth (then nothing happens at all). -/
theorem Focus.grow {s v p t u m} (F : Focus s v p t u m) (c : Calm m) (k amt : Nat)
    (hk : k ≤ (encode t u).length) (hroom : (encode s v).length + amt ≤ m.orig + maxIncrease) :
    ∃ (G : List Nat) (m1 : Mem), G = ((m.bytes.drop (offsetOf s v p + k) ++ List.replicate amt 0).take amt)
      ∧ G.length = amt
      ∧ m.addBytesN ⟨s, p⟩ (offsetOf s v p) (offsetOf s v p + k) amt = (m1, .ok ())
      ∧ m1.bytes = plug s v p ((encode t u).take k ++ G ++ (encode t u).drop k)
      ∧ m1.orig = m.orig ∧ m1.refuse = m.refuse := by
  by_cases hamt : amt = 0
  · subst hamt
    refine ⟨[], m, by simp, rfl, ?_, ?_, rfl, rfl⟩
    · unfold Mem.addBytesN Mem.addBytes
      have hle := offsetOf_le p s v t u F.good F.res
      have h1 : ¬ m.bytes.length < offsetOf s v p + k := by rw [F.bytes]; omega
      simp [h1]
    · simp only [List.append_nil, List.take_append_drop]
      rw [plug_self p s v t u F.good F.res, F.bytes]
  · obtain ⟨G, hGd, hG, hadd⟩ := grow_at p s v t u F.good F.res m F.bytes k amt hk (by omega)
      ⟨by rw [c.noRefuse]; simp, by rw [F.bytes]; exact hroom⟩ (by have := c.small; omega)
    exact ⟨G, _, hGd, hG, hadd, rfl, rfl, rfl⟩

/-- `List::insert_all` on the bytes `leN lw len ++ records` of the node at `p`. -/
theorem listInsertAll_bytes {s v p t u m} (F : Focus s v p t u m) (c : Calm m) (ew lw : Nat)
    (es : List (List Nat)) (henc : encode t u = leN lw es.length ++ es.flatten)
    (hes : ∀ x ∈ es, x.length = ew) (hlen : es.length < 256 ^ lw)
    (idx : Nat) (items : List (List Nat)) (hitems : ∀ x ∈ items, x.length = ew) (hidx : idx ≤ es.length)
    (hfit : es.length + items.length < 256 ^ lw)
    (hroom : (encode s v).length + ew * items.length ≤ m.orig + maxIncrease) :
    ∃ m1 : Mem, listInsertAll ⟨s, p⟩ ew lw (offsetOf s v p) idx items m = (m1, .ok ())
      ∧ m1.bytes = plug s v p (leN lw (es.length + items.length) ++ (Spec.insertAt es idx items).flatten)
      ∧ m1.orig = m.orig ∧ m1.refuse = m.refuse := by
  have hElen : (encode t u).length = lw + es.length * ew := by
    rw [henc, List.length_append, leN_length, flatten_width ew es hes]
  have hrdlen : rdN m.bytes (offsetOf s v p) lw = es.length := by
    have := enc_rdN p s v t u F.good F.res 0 lw (by omega)
    rw [Nat.add_zero] at this
    rw [F.bytes, this, henc, rdN_leN_zero lw _ _ hlen]
  have hifl : items.flatten.length = ew * items.length := by
    rw [flatten_width ew items hitems, Nat.mul_comm]
  have hkle : lw + idx * ew ≤ (encode t u).length := by
    rw [hElen]; have := Nat.mul_le_mul_right ew hidx; omega
  obtain ⟨G, m1, _, hG, hadd, hb1, ho1, hr1⟩ := F.grow c (lw + idx * ew) (ew * items.length) hkle hroom
  unfold listInsertAll
  simp only [hrdlen]
  have h1 : ¬ es.length < idx := by omega
  have h2 : ¬ 256 ^ lw ≤ es.length + items.length := by omega
  simp only [h1, h2, if_false]
  have hpos : offsetOf s v p + lw + idx * ew = offsetOf s v p + (lw + idx * ew) := by omega
  rw [hpos, hadd]
  simp only []
  refine ⟨_, rfl, ?_, ho1, hr1⟩
  simp only []
  rw [hb1]
  obtain ⟨X, hX⟩ : ∃ X, X = (encode t u).take (lw + idx * ew) ++ G ++ (encode t u).drop (lw + idx * ew) := ⟨_, rfl⟩
  have hXl : X.length = (encode t u).length + ew * items.length := by
    rw [hX]; simp only [List.length_append, List.length_take, List.length_drop, hG]; omega
  rw [← hX]
  have hw1 := plug_wr p s v t u F.good F.res X (leN lw (es.length + items.length)) 0 (by simp; omega)
  rw [Nat.add_zero] at hw1
  rw [hw1]
  have hw2 := plug_wr p s v t u F.good F.res (wr X 0 (leN lw (es.length + items.length))) items.flatten
    (lw + idx * ew) (by rw [wr_length _ _ _ (by simp; omega), hXl, hifl]; omega)
  rw [hw2, hX, henc, list_insert_bytes ew lw es items idx _ G hes (by rw [hG, hifl]) hidx]


/-- `shrink_at`, also for an empty range. -/
theorem Focus.shrink {s v p t u m} (F : Focus s v p t u m) (k1 k2 : Nat) (hk : k1 ≤ k2)
    (hk2 : k2 ≤ (encode t u).length) :
    ∃ m1 : Mem, m.removeBytesN ⟨s, p⟩ (offsetOf s v p) (offsetOf s v p + k1) (offsetOf s v p + k2) = (m1, .ok ())
      ∧ m1.bytes = plug s v p ((encode t u).take k1 ++ (encode t u).drop k2)
      ∧ m1.orig = m.orig ∧ m1.refuse = m.refuse ∧ m1.grows = m.grows := by
  by_cases heq : k1 = k2
  · subst heq
    refine ⟨m, ?_, ?_, rfl, rfl, rfl⟩
    · unfold Mem.removeBytesN Mem.removeBytes
      have hle := offsetOf_le p s v t u F.good F.res
      have h1 : ¬ m.bytes.length < offsetOf s v p + k1 := by rw [F.bytes]; omega
      simp [h1]
    · rw [List.take_append_drop, plug_self p s v t u F.good F.res, F.bytes]
  · exact ⟨_, shrink_at p s v t u F.good F.res m F.bytes k1 k2 (by omega) hk2, rfl, rfl, rfl, rfl⟩

theorem list_remove_bytes (ew lw : Nat) (es : List (List Nat)) (lo hi n' : Nat)
    (hes : ∀ x ∈ es, x.length = ew) :
    wr ((leN lw es.length ++ es.flatten).take (lw + lo * ew)
          ++ (leN lw es.length ++ es.flatten).drop (lw + hi * ew)) 0 (leN lw n')
      = leN lw n' ++ (Spec.removeRange es lo hi).flatten := by
  have ht : (leN lw es.length ++ es.flatten).take (lw + lo * ew) = leN lw es.length ++ (es.take lo).flatten := by
    rw [take_append_add _ _ _ _ (by simp), flatten_take ew es hes]
  have hd : (leN lw es.length ++ es.flatten).drop (lw + hi * ew) = (es.drop hi).flatten := by
    rw [drop_append_add _ _ _ _ (by simp), flatten_drop ew es hes]
  rw [ht, hd, List.append_assoc, wr_zero _ _ _ (by simp)]
  simp [Spec.removeRange]

/-- `List::remove_range` on the bytes `leN lw len ++ records` of the node at `p`. -/
theorem listRemoveRange_bytes {s v p t u m} (F : Focus s v p t u m) (ew lw : Nat)
    (es : List (List Nat)) (henc : encode t u = leN lw es.length ++ es.flatten)
    (hes : ∀ x ∈ es, x.length = ew) (hlen : es.length < 256 ^ lw)
    (lo hi : Nat) (hlo : lo ≤ hi) (hhi : hi ≤ es.length) :
    ∃ m1 : Mem, listRemoveRange ⟨s, p⟩ ew lw (offsetOf s v p) lo hi m = (m1, .ok ())
      ∧ m1.bytes = plug s v p (leN lw (es.length - (hi - lo)) ++ (Spec.removeRange es lo hi).flatten)
      ∧ m1.orig = m.orig ∧ m1.refuse = m.refuse ∧ m1.grows = m.grows := by
  have hElen : (encode t u).length = lw + es.length * ew := by
    rw [henc, List.length_append, leN_length, flatten_width ew es hes]
  have hrdlen : rdN m.bytes (offsetOf s v p) lw = es.length := by
    have := enc_rdN p s v t u F.good F.res 0 lw (by omega)
    rw [Nat.add_zero] at this
    rw [F.bytes, this, henc, rdN_leN_zero lw _ _ hlen]
  have hk1 : lw + lo * ew ≤ lw + hi * ew := by have := Nat.mul_le_mul_right ew hlo; omega
  have hk2 : lw + hi * ew ≤ (encode t u).length := by
    rw [hElen]; have := Nat.mul_le_mul_right ew hhi; omega
  obtain ⟨m1, hrem, hb1, ho1, hr1, hg1⟩ := F.shrink (lw + lo * ew) (lw + hi * ew) hk1 hk2
  unfold listRemoveRange
  simp only [hrdlen]
  have h1 : ¬ hi < lo := by omega
  have h2 : ¬ es.length < hi := by omega
  simp only [h1, h2, if_false]
  have hp1 : offsetOf s v p + lw + lo * ew = offsetOf s v p + (lw + lo * ew) := by omega
  have hp2 : offsetOf s v p + lw + hi * ew = offsetOf s v p + (lw + hi * ew) := by omega
  rw [hp1, hp2, hrem]
  simp only []
  refine ⟨_, rfl, ?_, ho1, hr1, hg1⟩
  simp only []
  rw [hb1]
  have hw1 := plug_wr p s v t u F.good F.res
    ((encode t u).take (lw + lo * ew) ++ (encode t u).drop (lw + hi * ew)) (leN lw (es.length - (hi - lo))) 0
    (by simp only [List.length_append, List.length_take, List.length_drop, leN_length]; omega)
  rw [Nat.add_zero] at hw1
  rw [hw1, henc, list_remove_bytes ew lw es lo hi _ hes]

end Unsized.Machine
