import Unsized.PtrHonestB
namespace Unsized.Ptr
open Common Unsized Unsized.Text Unsized.Machine Unsized.PtrT

/-! ## An honest (non-ZST) object entirely BEFORE the source, its bytes intact: nothing moves -/

def HonBeforeOK (s : Shape) : Prop :=
  ∀ top ie, Shape.okAux top ie s = true → s.zst = false → ∀ v, valid s v = true → fits s v = true →
    ∀ (pre rest : List Nat) (b : Nat), b = pre.length → ∀ (src : Nat), b + size s v ≤ src →
    ∀ (usz : Nat → Nat), (∀ a, b ≤ a → a + 4 ≤ b + size s v → usz a = rd32 (pre ++ encode s v ++ rest) a) →
    ∀ (neg : Bool) (amt : Nat) (R : PtrTree), Hon s v b R → resizeNotify usz src neg amt R = some R

theorem honL_before (fs : List Shape) (ih : ∀ f ∈ fs, HonBeforeOK f) :
    Shape.okFields fs = true → Shape.zstLast false fs = false → ∀ vs, validFields fs vs = true →
      fitsFields fs vs = true → ∀ (pre rest : List Nat) (b : Nat), b = pre.length → ∀ (src : Nat),
      b + sizeFields fs vs ≤ src → ∀ (usz : Nat → Nat),
      (∀ a, b ≤ a → a + 4 ≤ b + sizeFields fs vs → usz a = rd32 (pre ++ encodeFields fs vs ++ rest) a) →
      ∀ (neg : Bool) (amt : Nat) (ks : List PtrTree), HonL fs vs b ks →
      notifyL usz src neg amt ks = some ks := by
  induction fs with
  | nil => intro _ _ vs _ _ pre rest b _ src _ usz _ neg amt ks h; simp only [HonL] at h; subst h; simp [notifyL]
  | cons f fs ihf =>
    intro hok hz vs hv hf pre rest b hb src hs usz hag neg amt ks h
    cases vs with
    | nil => simp [validFields] at hv
    | cons x xs =>
      simp only [validFields, fitsFields, Bool.and_eq_true] at hv hf
      simp only [sizeFields] at hs hag
      simp only [HonL] at h
      obtain ⟨k, ks', rfl, hk, hks⟩ := h
      have hfo : Shape.okAux false false f = true ∧ f.zst = false ∧ (fs ≠ [] → Shape.okFields fs = true ∧ Shape.zstLast false fs = false) := by
        cases fs with
        | nil => exact ⟨by simpa [Shape.okFields] using hok, by simpa [Shape.zstLast] using hz, fun h => absurd rfl h⟩
        | cons g gs =>
          obtain ⟨h1, h2, h3⟩ := okFields_cons2 f g gs hok
          rw [zstLast_cons_cons] at hz
          exact ⟨h1, h2, fun _ => ⟨h3, hz⟩⟩
      have e1 : pre ++ encodeFields (f :: fs) (x :: xs) ++ rest = pre ++ encode f x ++ (encodeFields fs xs ++ rest) := by
        simp [encodeFields, List.append_assoc]
      have hk' := ih f List.mem_cons_self false false hfo.1 hfo.2.1 x hv.1 hf.1 pre _ b hb src (by omega) usz
        (fun a h1 h2 => by rw [← e1]; exact hag a h1 (by omega)) neg amt k hk
      simp only [notifyL, hk']
      by_cases hfs : fs = []
      · subst hfs; cases xs <;> simp only [HonL] at hks <;> subst hks <;> simp [notifyL]
      · obtain ⟨h3, h4⟩ := hfo.2.2 hfs
        have e2 : pre ++ encodeFields (f :: fs) (x :: xs) ++ rest = (pre ++ encode f x) ++ encodeFields fs xs ++ rest := by
          simp [encodeFields, List.append_assoc]
        rw [ihf (fun g hg => ih g (List.mem_cons_of_mem _ hg)) h3 h4 xs hv.2 hf.2 (pre ++ encode f x) rest
          (b + size f x) (by simp [hb, encode_size_all f x hv.1]) src (by omega) usz
          (fun a h1 h2 => by rw [← e2]; exact hag a (by omega) (by omega)) neg amt ks' hks]

theorem hon_before (s : Shape) : HonBeforeOK s := by
  induction s using Shape.induct' with
  | struct sized fs ih =>
    intro top ie hok hz v hv hf pre rest b hb src hs usz hag neg amt R h
    cases v <;> simp only [valid, Bool.false_eq_true] at hv
    rename_i sz vs
    simp only [Shape.okAux, Bool.and_eq_true] at hok
    simp only [Bool.and_eq_true, beq_iff_eq, decide_eq_true_eq] at hv
    simp only [fits] at hf
    simp only [Shape.zst] at hz
    simp only [size] at hs hag
    simp only [Hon] at h
    obtain ⟨ks, rfl, hks⟩ := h
    have e1 : pre ++ encode (.struct sized fs) (.record sz vs) ++ rest = (pre ++ sz) ++ encodeFields fs vs ++ rest := by
      simp [encode, List.append_assoc]
    have hK := honL_before fs ih hok.2 hz vs hv.2 hf (pre ++ sz) rest (b + Fixed.sizeList sized)
      (by simp [hb, hv.1.1.1]) src (by omega) usz (fun a h1 h2 => by rw [← e1]; exact hag a (by omega) (by omega))
      neg amt ks hks
    by_cases he : sized.isEmpty = true
    · simp only [he, if_true, resizeNotify, hK]
    · have h1 : ¬ src < b := by omega
      simp only [he, Bool.false_eq_true, if_false, resizeNotify, notifyL, h1, hK]
  | enum ds ps ih =>
    intro top ie hok hz v hv hf pre rest b hb src hs usz hag neg amt R h
    cases v <;> simp only [valid, Bool.false_eq_true] at hv
    rename_i i pl
    simp only [Shape.okAux, Bool.and_eq_true, beq_iff_eq, decide_eq_true_eq] at hok
    simp only [Bool.and_eq_true, decide_eq_true_eq] at hv
    simp only [fits] at hf
    simp only [Shape.zst] at hz
    obtain ⟨t, ht, hvt⟩ := validVariant_get ps i pl hv.2
    have hd : ds[i]? = some ds[i] := List.getElem?_eq_getElem hv.1
    simp only [size, sizeVariant_get ps i t pl ht] at hs hag
    simp only [Hon] at h
    obtain ⟨po, rfl, hpo⟩ := h
    have h1 : ¬ src < b := by omega
    by_cases hu : t = .unit
    · subst hu
      rw [honV_unit ps i pl (b + 1) po ht] at hpo
      subst hpo
      simp [resizeNotify, notifyO, h1]
    · rw [honV_some ps i t pl (b + 1) po ht hu] at hpo
      obtain ⟨k, rfl, hk⟩ := hpo
      have e1 : pre ++ encode (.enum ds ps) (.variant i pl) ++ rest = (pre ++ [ds[i]]) ++ encode t pl ++ rest := by
        simp only [encode]; rw [encodeVariant_get ds ps i pl _ t hd ht]; simp [List.append_assoc]
      have := ih _ (List.mem_of_getElem? ht) false true (okPayloads_get ps i _ ht hok.2)
        (zstAny_false_mem ps hz _ (List.mem_of_getElem? ht)) pl hvt (fitsVariant_get ps i pl _ ht hf)
        (pre ++ [ds[i]]) rest (b + 1) (by simp [hb]) src (by omega) usz
        (fun a h1 h2 => by rw [← e1]; exact hag a (by omega) (by omega)) neg amt k hk
      simp only [resizeNotify, notifyO, this, h1, if_false]
  | ulist e ih =>
    intro top ie hok hz v hv hf pre rest b hb src hs usz hag neg amt R h
    cases v <;> simp only [valid, Bool.false_eq_true] at hv
    rename_i vs
    simp only [fits, Bool.and_eq_true, decide_eq_true_eq] at hf
    have hsizes := map_encode_length e vs hv
    have husz : usz b = (vs.map (size e)).sum := by
      rw [hag b (Nat.le_refl _) (by simp only [size]; omega)]
      rw [encode_ulist_uBytes, uBytes, ← hsizes]
      have e1 : pre ++ (uHdrOf (vs.map fun _ => []) ((vs.map (encode e)).map List.length)
          ++ (vs.map (encode e)).flatten) ++ rest
          = pre ++ uHdrOf (vs.map fun _ => []) ((vs.map (encode e)).map List.length)
            ++ ((vs.map (encode e)).flatten ++ rest) := by simp [List.append_assoc]
      rw [e1, rd32_uHdr_usz _ _ pre _ b hb (by rw [hsizes]; exact hf.1.2)]
    simp only [size] at hs
    simp only [Hon] at h
    obtain ⟨inner, pmb, rfl, _⟩ := h
    have h1 : ¬ src < b := by omega
    have h2 : src ≠ b := by omega
    have h3 : ¬ src < b + (8 + vs.length * 4 + 4 + (vs.map (size e)).sum) := by omega
    cases inner <;> simp only [resizeNotify, husz, h1, h2, h3, if_false]
  | umap kw e ih =>
    intro top ie hok hz v hv hf pre rest b hb src hs usz hag neg amt R h
    cases v <;> simp only [valid, Bool.false_eq_true] at hv
    rename_i es
    simp only [Bool.and_eq_true] at hv
    simp only [fits, Bool.and_eq_true, decide_eq_true_eq] at hf
    have hvall : es.all (fun kv => valid e kv.2) = true := by
      rw [List.all_eq_true] at hv ⊢
      intro x hx'; have := hv.1 x hx'; simp only [Bool.and_eq_true] at this; exact this.2
    have hsizes := map_encode_length_kv e es hvall
    have husz : usz b = (es.map (fun kv => size e kv.2)).sum := by
      rw [hag b (Nat.le_refl _) (by simp only [size]; omega)]
      rw [encode_umap_uBytes, uBytes, ← hsizes]
      have e1 : pre ++ (uHdrOf (es.map (·.1)) ((es.map fun kv => encode e kv.2).map List.length)
          ++ (es.map fun kv => encode e kv.2).flatten) ++ rest
          = pre ++ uHdrOf (es.map (·.1)) ((es.map fun kv => encode e kv.2).map List.length)
            ++ ((es.map fun kv => encode e kv.2).flatten ++ rest) := by simp [List.append_assoc]
      rw [e1, rd32_uHdr_usz _ _ pre _ b hb (by rw [hsizes]; exact hf.1.2)]
    simp only [size] at hs
    simp only [Hon] at h
    obtain ⟨inner, pmb, rfl, _⟩ := h
    have h1 : ¬ src < b := by omega
    have h2 : src ≠ b := by omega
    have h3 : ¬ src < b + (8 + es.length * Shape.entryW kw + 4 + (es.map (fun kv => size e kv.2)).sum) := by omega
    cases inner <;> simp only [resizeNotify, notifyL, husz, h1, h2, h3, if_false]
  | rem => intro top ie hok hz; simp [Shape.zst] at hz
  | unit => intro top ie hok hz v hv hf pre rest b hb src hs usz hag neg amt R h; simp only [Hon] at h; subst h; simp [treeOf, resizeNotify, notifyL]
  | disc d inner ih =>
    intro top ie hok hz v hv hf pre rest b hb src hs usz hag neg amt R h
    simp only [Shape.okAux, Bool.and_eq_true] at hok
    simp only [valid] at hv
    simp only [fits] at hf
    simp only [size] at hs hag
    simp only [Hon] at h
    have e1 : pre ++ encode (.disc d inner) v ++ rest = (pre ++ d) ++ encode inner v ++ rest := by
      simp [encode, List.append_assoc]
    exact ih false false hok.2 (by simpa [Shape.zst] using hz) v hv hf (pre ++ d) rest (b + d.length)
      (by simp [hb]) src (by omega) usz (fun a h1 h2 => by rw [← e1]; exact hag a (by omega) (by omega)) neg amt R h
  | _ =>
    intro top ie hok hz v hv hf pre rest b hb src hs usz hag neg amt R h
    have h1 : ¬ src < b := by omega
    simp only [Hon] at h; subst h
    simp only [treeOf, resizeNotify, notifyL, h1, if_false]

end Unsized.Ptr
