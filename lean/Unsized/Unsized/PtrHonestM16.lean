import Unsized.PtrHonestM15
namespace Unsized.Ptr
open Common Unsized Unsized.Text Unsized.Machine Unsized.PtrT Unsized.PtrM

/-- One line of a plain case on buffer `A`, as the C03 driver executes it (`Driver.C03.execLine` dispatches
to exactly these four functions; `replace` = `op p (.replace v)` with the value parsed against the target). -/
def pstep (s : Shape) (w : World) : Cmd → World × Ans
  | .enter st => execEnter s w .A false st
  | .leave => execLeave w .A
  | .reborrow => execReborrow s w .A
  | .op p o => execOp s w .A false p (fun _ => some o)

/-- The side condition of one line (C01's `CmdOk`, stated on the pointer machine's own state): the op is one
whose pointer-level effect is proved (`Covered`), a successful model step stays inside the allocation and a
failing one is not the registered "initialiser fails behind the resize" finding (`NodeOk`). -/
def LineOk (s : Shape) (w : World) : Cmd → Prop
  | .op p o => ∀ v, PInv s w v → ∀ sh u2, resolve s v (w.a.cur ++ p) = .ok (sh, u2) →
      Covered sh u2 o ∧ NodeOk s v (w.a.cur ++ p) sh u2 o w.a.mem.orig
  | _ => True

def HistOkP (s : Shape) : World → List Cmd → Prop
  | _, [] => True
  | w, c :: cs => LineOk s w c ∧ HistOkP s (pstep s w c).1 cs

/-- The worlds and answers of a history. -/
def prun (s : Shape) : World → List Cmd → World × List Ans
  | w, [] => (w, [])
  | w, c :: cs =>
    let r := pstep s w c
    let rest := prun s r.1 cs
    (rest.1, r.2 :: rest.2)

def isPanic : Ans → Bool
  | .panic => true
  | .panicDrop => true
  | _ => false

theorem pstep_hon {s : Shape} {w : World} {v : Val} (inv : PInv s w v) (c : Cmd) (hok : LineOk s w c) :
    LineRes s w (pstep s w c) := by
  cases c with
  | enter st => exact execEnter_hon inv st
  | leave => exact execLeave_hon inv
  | reborrow => exact execReborrow_hon inv
  | op p o =>
    simp only [pstep]
    exact execOp_hon inv p _ (fun sh u2 op hr hmk => by
      simp only [Option.some.injEq] at hmk; subst hmk
      exact hok v inv sh u2 hr)

/-- **`ptrs_fresh_step`** in invariant form: one line keeps the world honest and does not panic. -/
theorem ptrs_fresh_step {s : Shape} {w : World} {v : Val} (inv : PInv s w v) (c : Cmd) (hok : LineOk s w c) :
    isPanic (pstep s w c).2 = false ∧ ∃ v', PInv s (pstep s w c).1 v' := by
  have h := pstep_hon inv c hok
  unfold LineRes at h
  cases hr : (pstep s w c).2 with
  | bad => rw [hr] at h; simp only [] at h; exact ⟨rfl, v, by rw [h]; exact inv⟩
  | panic => rw [hr] at h; exact absurd h id
  | panicDrop => rw [hr] at h; exact absurd h id
  | res r evs => rw [hr] at h; simp only [] at h; obtain ⟨v', hv', _⟩ := h; exact ⟨rfl, v', hv'⟩

/-- **`ptrs_fresh_history`**: from an honest world, after any history of `enter` / `leave` / `reborrow` / ops
whose side conditions hold, every live pointer object is fresh (`PInv`: honest along every live level, caches
included) and no line panicked. -/
theorem ptrs_fresh_history (s : Shape) (cmds : List Cmd) : ∀ (w : World) (v : Val), PInv s w v → HistOkP s w cmds →
    (∀ a ∈ (prun s w cmds).2, isPanic a = false) ∧ ∃ v', PInv s (prun s w cmds).1 v' := by
  induction cmds with
  | nil => intro w v inv _; exact ⟨by simp [prun], v, inv⟩
  | cons c cs ih =>
    intro w v inv hok
    obtain ⟨h1, h2⟩ := hok
    obtain ⟨hp, v1, inv1⟩ := ptrs_fresh_step inv c h1
    obtain ⟨hr, v2, inv2⟩ := ih _ v1 inv1 h2
    refine ⟨?_, v2, inv2⟩
    intro a ha
    simp only [prun, List.mem_cons] at ha
    rcases ha with rfl | ha
    · exact hp
    · exact hr a ha

/-- **`checkTop_passes`**: after any honest history `check_pointers` of the top pointer object with the
allocation range is true — the `debug_assert!`s of `add_bytes`/`remove_bytes` and `ExclusiveTopDrop::drop` never
fire (`endBuf` answers `true`). -/
theorem checkTop_passes (s : Shape) (cmds : List Cmd) (w : World) (v : Val) (inv : PInv s w v)
    (hok : HistOkP s w cmds) :
    checkTop (prun s w cmds).1.a.rng (prun s w cmds).1.a.root = true
    ∧ (endBuf (prun s w cmds).1 .A).2 = true := by
  obtain ⟨_, v', inv'⟩ := ptrs_fresh_history s cmds w v inv hok
  have := checkTop_inv inv'
  exact ⟨this, by simpa [endBuf, World.get] using this⟩

/-- The invariant holds for a freshly created top wrapper (`Driver.C03.mkBuf`, no scheduled refusal). -/
theorem pinv_init (s : Shape) (v : Val) (base : Nat) (B : PBuf) (hok : s.ok = true) (hnd : ∀ d i, s ≠ .disc d i)
    (hwf : WF s v = true) (hsmall : (encode s v).length + maxIncrease < Shape.u32Lim)
    (hfar : (encode s v).length + maxIncrease ≤ base)
    (hbig : base + 2 * ((encode s v).length + maxIncrease) < Shape.usizeLim) :
    PInv s ⟨⟨⟨encode s v, (encode s v).length, 0, []⟩, base, treeOf s v base, [[]], false, false⟩, B⟩ v := by
  simp only [WF, Bool.and_eq_true] at hwf
  have g : Good s v := ⟨⟨true, false, hok⟩, hwf.1, hwf.2⟩
  refine ⟨⟨g, hok, hnd, rfl, ⟨rfl, hsmall, by simp [World.get]⟩, ownsOwn_A _, ⟨hfar, hbig⟩⟩, by simp, ⟨s, v, treeOf s v base, ?_, ?_, ?_⟩⟩
  · simp [PBuf.cur, resolve]
  · simp [PBuf.cur, HonPath]
  · simp only [PBuf.cur, List.getLastD, List.getLast_singleton, offsetOf, Nat.add_zero]; exact hon_treeOf s v _

end Unsized.Ptr
