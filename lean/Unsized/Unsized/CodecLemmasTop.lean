import Unsized.CodecLemmasRound
import Unsized.CodecLemmasInit
import Unsized.CodecLemmasValid
import Unsized.CodecLemmasView
import Unsized.CodecLemmasFits
/-!
# Top-level corollaries about `decode`, `viewTop`, the client helpers and the test buffer;
and a model of the PRE-FIX `UnsizedList` iterator used as a non-vacuity witness for `E.ub`.
-/
namespace Unsized
open Common

theorem decode_generic (s : Shape) (h : ∀ d i, s ≠ .disc d i) (bs : List Nat) :
    decode s bs = match extent s bs with
      | .error e => .error e
      | .ok n => match own s bs with
        | .error e => .error e
        | .ok v => .ok (v, n) := by
  cases s <;> first | rfl | exact absurd rfl (h _ _)

theorem decode_disc (d : List Nat) (inner : Shape) (bs : List Nat) :
    decode (.disc d inner) bs =
      if d.length ≤ bs.length then
        match extent inner (bs.drop d.length) with
        | .error e => .error e
        | .ok n => match own inner (bs.drop d.length) with
          | .error e => .error e
          | .ok v => .ok (v, d.length + n)
      else .error .advancer := rfl

/-- `decode` succeeds exactly when `get_ptr` and `owned_from_ptr` do, with the same extent. -/
theorem decode_ok_iff (s : Shape) (bs : List Nat) (v : Val) (n : Nat) :
    decode s bs = .ok (v, n) ↔ extent s bs = .ok n ∧ own s bs = .ok v := by
  by_cases hd : ∃ d i, s = .disc d i
  · obtain ⟨d, i, rfl⟩ := hd
    rw [decode_disc]
    simp only [extent, own]
    split
    · cases hx : extent i (bs.drop d.length) with
      | error e => simp
      | ok k =>
        cases hy : own i (bs.drop d.length) with
        | error e => simp
        | ok w => simp; constructor <;> (intro h; exact ⟨h.2, h.1⟩)
    · simp
  · have hd' : ∀ d i, s ≠ .disc d i := fun d i h => hd ⟨d, i, h⟩
    rw [decode_generic s hd']
    cases hx : extent s bs with
    | error e => simp
    | ok k =>
      cases hy : own s bs with
      | error e => simp
      | ok w => simp; constructor <;> (intro h; exact ⟨h.2, h.1⟩)

theorem decode_ne_ub (s : Shape) (bs : List Nat) : decode s bs ≠ .error .ub := by
  by_cases hd : ∃ d i, s = .disc d i
  · obtain ⟨d, i, rfl⟩ := hd
    rw [decode_disc]
    split
    · cases hx : extent i (bs.drop d.length) with
      | error e => simp only []; intro h; exact (extP_all i _).1 (by rw [hx]; simpa using h)
      | ok k =>
        simp only []
        cases hy : own i (bs.drop d.length) with
        | error e => simp only []; intro h; exact (noUb_all i _ k hx).1 (by rw [hy]; simpa using h)
        | ok w => simp
    · simp
  · have hd' : ∀ d i, s ≠ .disc d i := fun d i h => hd ⟨d, i, h⟩
    rw [decode_generic s hd']
    cases hx : extent s bs with
    | error e => simp only []; intro h; exact (extP_all s _).1 (by rw [hx]; simpa using h)
    | ok k =>
      simp only []
      cases hy : own s bs with
      | error e => simp only []; intro h; exact (noUb_all s _ k hx).1 (by rw [hy]; simpa using h)
      | ok w => simp

theorem viewTop_ne_ub (m : Mode) (s : Shape) (bs : List Nat) : viewTop m s bs ≠ .error .ub := by
  unfold viewTop
  cases hx : extent s bs with
  | error e => simp only []; intro h; exact (extP_all s _).1 (by rw [hx]; simpa using h)
  | ok k =>
    simp only []
    cases hy : view m s bs with
    | error e => simp only []; intro h; exact (noUb_all s _ k hx).2 m (by rw [hy]; simpa using h)
    | ok w => simp

/-- Decidable observations of an outcome (there is no `DecidableEq Val`). -/
def failsWith {α : Type} (r : Except E α) (e : E) : Bool :=
  match r with
  | .error e' => e' == e
  | .ok _ => false

def okExtent (r : Except E Nat) (n : Nat) : Bool :=
  match r with
  | .ok k => k == n
  | .error _ => false

theorem failsWith_iff {α : Type} (r : Except E α) (e : E) : failsWith r e = true ↔ r = .error e := by
  cases r <;> simp [failsWith]

theorem okExtent_iff (r : Except E Nat) (n : Nat) : okExtent r n = true ↔ r = .ok n := by
  cases r <;> simp [okExtent]

/-! ## The iterator BEFORE the fix (commit "bounds-check element offsets in the UnsizedList
iterator"): `slice_from_raw_parts(unsized_data_ptr + start, end − start)` with no check. -/

def elemsUnchecked {α : Type} (fext : List Nat → Except E Nat) (body : List Nat → Except E α)
    (data : List Nat) : List (Nat × Nat) → Except E (List α)
  | [] => .ok []
  | r :: rs =>
    match rawSlice data r.1 (r.2 - r.1) with
    | .error e => .error e
    | .ok slice =>
      match fext slice with
      | .error _ => .ok []
      | .ok _ =>
        match body slice with
        | .error e => .error e
        | .ok v =>
          match elemsUnchecked fext body data rs with
          | .error e => .error e
          | .ok vs => .ok (v :: vs)

/-- Iterating an `UnsizedList<List<u8>>` with the unchecked iterator. -/
def iterUncheckedListU8 (bs : List Nat) : Except E (List Val) :=
  match extentUlist 4 bs with
  | .error e => .error e
  | .ok _ =>
    match ulistParts 4 bs with
    | .error e => .error e
    | .ok (tbl, data) =>
      elemsUnchecked (extent (.list (.pod 1) 4)) (view .iter (.list (.pod 1) 4)) data
        (ranges (tbl.map (·.1)) data.length)

/-- The 25-byte input of DESIGN.md D4:
`unsized_size=5, len=2, offsets=[64,72], lencopy=2, data=01 00 00 00 09`. -/
def d4Input : List Nat :=
  [5,0,0,0, 2,0,0,0, 64,0,0,0, 72,0,0,0, 2,0,0,0, 1,0,0,0,9]

end Unsized
