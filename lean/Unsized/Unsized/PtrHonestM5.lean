import Unsized.PtrHonestM4
namespace Unsized.Ptr
open Common Unsized Unsized.Text Unsized.Machine Unsized.PtrT Unsized.PtrM

/-! ## The notification whose source is the object's own address -/

def HonSelfOK (s : Shape) : Prop :=
  ∀ top ie, Shape.okAux top ie s = true → ∀ v, valid s v = true → ∀ (b hi : Nat) (usz : Nat → Nat) (neg : Bool)
    (amt : Nat) (R : PtrTree), (neg = true → amt ≤ b) → b + size s v ≤ hi → (neg = false → hi + amt < Shape.usizeLim) →
    Hon s v b R → ∃ R', resizeNotify usz b neg amt R = some R'

theorem hon_self (s : Shape) : HonSelfOK s := by
  induction s using Shape.induct' with
  | struct sized fs ih =>
    intro top ie hok v hv b hi usz neg amt R hn hb hh h
    cases v <;> simp only [valid, Bool.false_eq_true] at hv
    rename_i sz vs
    simp only [Shape.okAux, Bool.and_eq_true, Bool.or_eq_true, decide_eq_true_eq] at hok
    simp only [Bool.and_eq_true] at hv
    simp only [size] at hb
    simp only [Hon] at h
    obtain ⟨ks, rfl, hks⟩ := h
    have hsb : ¬ b < b := Nat.lt_irrefl b
    by_cases he : sized.isEmpty = true
    · have hs0 : Fixed.sizeList sized = 0 := by
        cases sized with
        | nil => rfl
        | cons _ _ => simp at he
      simp only [he, if_true, resizeNotify]
      rw [hs0, Nat.add_zero] at hks
      cases fs with
      | nil => simp at hok
      | cons f fs =>
        cases vs with
        | nil => simp [validFields] at hv
        | cons x xs =>
          simp only [HonL] at hks
          obtain ⟨k, ks', rfl, hk, hks'⟩ := hks
          simp only [validFields, Bool.and_eq_true] at hv
          simp only [sizeFields] at hb
          have hfo : Shape.okAux false false f = true := by
            cases fs with
            | nil => simpa [Shape.okFields] using hok.2
            | cons g gs => exact (okFields_cons2 f g gs hok.2).1
          obtain ⟨k1, hk1⟩ := ih f List.mem_cons_self false false hfo x hv.2.1 b hi usz neg amt k hn (by omega) hh hk
          have hrest : ∃ ks1, notifyL usz b neg amt ks' = some ks1 := by
            cases fs with
            | nil => cases xs <;> simp only [HonL] at hks' <;> subst hks' <;> exact ⟨[], by simp [notifyL]⟩
            | cons g gs =>
              obtain ⟨_, hzf, hok3⟩ := okFields_cons2 f g gs hok.2
              have hpos := size_pos f false hfo hzf x hv.2.1
              obtain ⟨ks1, h1, _⟩ := honL_after (g :: gs) (fun f _ => hon_after f) xs (b + size f x) hi usz b neg amt ks'
                (by omega) (fun h => by have := hn h; omega) (by omega) hh hks'
              exact ⟨ks1, h1⟩
          obtain ⟨ks1, hks1⟩ := hrest
          exact ⟨_, by simp only [notifyL, hk1, hks1]; first | rfl | skip⟩
    · have hpos : 0 < Fixed.sizeList sized := by
        rcases hok.1.1.2 with h | h
        · exact absurd h he
        · exact h
      obtain ⟨ks1, h1, _⟩ := honL_after fs (fun f _ => hon_after f) vs (b + Fixed.sizeList sized) hi usz b neg amt ks
        (by omega) (fun h => by have := hn h; omega) (by omega) hh hks
      exact ⟨_, by simp only [he, Bool.false_eq_true, if_false, resizeNotify, notifyL, hsb, h1]; first | rfl | skip⟩
  | enum ds ps ih =>
    intro top ie hok v hv b hi usz neg amt R hn hb hh h
    cases v <;> simp only [valid, Bool.false_eq_true] at hv
    rename_i i pl
    simp only [size] at hb
    simp only [Hon] at h
    obtain ⟨po, rfl, hpo⟩ := h
    obtain ⟨po1, h1, _⟩ := honV_after ps (fun p _ => hon_after p) i pl (b + 1) hi usz b neg amt po (by omega)
      (fun h => by have := hn h; omega) (by omega) hh hpo
    exact ⟨_, by simp only [resizeNotify, h1]; first | rfl | skip⟩
  | ulist e ih =>
    intro top ie hok v hv b hi usz neg amt R hn hb hh h
    cases v <;> simp only [valid, Bool.false_eq_true] at hv
    simp only [Hon] at h
    obtain ⟨inner, pmb, rfl, _⟩ := h
    cases inner <;> exact ⟨_, by simp only [resizeNotify, Nat.lt_irrefl, if_false, if_true]; first | rfl | skip⟩
  | umap kw e ih =>
    intro top ie hok v hv b hi usz neg amt R hn hb hh h
    cases v <;> simp only [valid, Bool.false_eq_true] at hv
    simp only [Hon] at h
    obtain ⟨inner, pmb, rfl, _⟩ := h
    cases inner <;> exact ⟨_, by simp only [resizeNotify, notifyL, Nat.lt_irrefl, if_false, if_true]; first | rfl | skip⟩
  | disc d inner ih =>
    intro top ie hok v hv b hi usz neg amt R hn hb hh h
    simp only [Shape.okAux, Bool.and_eq_true, Bool.not_eq_true'] at hok
    simp only [size] at hb
    simp only [Hon] at h
    have hd : 0 < d.length := by
      cases d with
      | nil => simp at hok
      | cons _ _ => simp
    obtain ⟨R1, h1, _⟩ := hon_after inner v (b + d.length) hi usz b neg amt R (by omega)
      (fun h => by have := hn h; omega) (by omega) hh h
    exact ⟨R1, h1⟩
  | unit => intro top ie hok v hv b hi usz neg amt R hn hb hh h; simp only [Hon] at h; subst h; exact ⟨.node [], by simp [treeOf, resizeNotify, notifyL]⟩
  | rem =>
    intro top ie hok v hv b hi usz neg amt R hn hb hh h
    simp only [Hon] at h; subst h
    exact ⟨_, by simp only [treeOf, resizeNotify, Nat.lt_irrefl, if_false, if_true]; first | rfl | skip⟩
  | _ =>
    intro top ie hok v hv b hi usz neg amt R hn hb hh h
    simp only [Hon] at h; subst h
    exact ⟨_, by simp only [treeOf, resizeNotify, notifyL, Nat.lt_irrefl, if_false]; first | rfl | skip⟩

end Unsized.Ptr
