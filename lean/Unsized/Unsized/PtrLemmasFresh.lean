import Unsized.PtrLemmasSwap
/-!
# A fresh pointer object passes `check_pointers` on any range that contains its bytes

(the check is not vacuous: the pointer trees `get_ptr` produces are accepted, in any allocation that
holds the value; this is the `P1 valid for R1` premise of `swap_detected` made a theorem)
-/
namespace Unsized.PtrT
open Common Unsized

theorem lenW_pos (lw : Nat) (h : Shape.lenW lw = true) : 0 < lw := by
  simp [Shape.lenW] at h; omega

theorem extentList_pos (ew lw : Nat) (bs : List Nat) (n : Nat) (hlw : 0 < lw) (h : extentList ew lw bs = .ok n) :
    0 < n := by
  unfold extentList at h
  split at h
  · simp only at h
    split at h
    · cases h
    · split at h
      · cases h; omega
      · cases h
  · cases h

theorem extentUlist_pos (cw : Nat) (bs : List Nat) (n : Nat) (h : extentUlist cw bs = .ok n) : 0 < n := by
  unfold extentUlist at h
  split at h
  · split at h
    · simp only [] at h
      split at h
      · split at h
        · split at h
          · cases h; omega
          · cases h
        · cases h
      · cases h
    · cases h
  · cases h

theorem extentFixed_eq (f : Fixed) (bs : List Nat) (n : Nat) (h : extentFixed f bs = .ok n) : n = f.size := by
  unfold extentFixed at h
  split at h
  · split at h
    · cases h; rfl
    · cases h
  · cases h

/-- A successful check never moves the cursor backwards. -/
theorem cursor_mono_all (r : Rng) :
    (∀ t cur c, checkPointers r t cur = (true, c) → cur ≤ c) ∧
    (∀ o t, o = some t → ∀ cur c, checkPointers r t cur = (true, c) → cur ≤ c) ∧
    (∀ l cur c, checkL r l cur = (true, c) → cur ≤ c) := by
  apply PtrTree.induct3
  · intro k a cur c h
    simp only [checkPointers, Prod.mk.injEq, Bool.and_eq_true, decide_eq_true_eq] at h
    omega
  · intro cw a len lo hi inner pmb _ cur c h
    simp only [checkPointers, Prod.mk.injEq, Bool.and_eq_true, decide_eq_true_eq] at h
    omega
  · intro ks ih cur c h
    simp only [checkPointers] at h
    exact ih cur c h
  · intro a idx p ih cur c h
    cases p with
    | none =>
      simp only [checkPointers] at h
      split at h
      · rename_i hc
        simp only [Bool.and_eq_true, decide_eq_true_eq] at hc
        simp only [Prod.mk.injEq, true_and] at h
        omega
      · simp at h
    | some t =>
      simp only [checkPointers] at h
      split at h
      · rename_i hc
        simp only [Bool.and_eq_true, decide_eq_true_eq] at hc
        have := ih t rfl a c h
        omega
      · simp at h
  · intro t h; cases h
  · intro t ih t' h; cases h; exact ih
  · intro cur c h; simp only [checkL, Prod.mk.injEq, true_and] at h; omega
  · intro t ts ih1 ih2 cur c h
    simp only [checkL] at h
    split at h
    · rename_i c1 hc1
      have := ih1 cur c1 hc1
      have := ih2 c1 c h
      omega
    · simp at h

theorem cursor_mono (r : Rng) (t : PtrTree) (cur c : Nat) (h : checkPointers r t cur = (true, c)) : cur ≤ c :=
  (cursor_mono_all r).1 t cur c h

theorem checkL_cons_ok (r : Rng) (t : PtrTree) (ts : List PtrTree) (cur c1 c2 : Nat)
    (h1 : checkPointers r t cur = (true, c1)) (h2 : checkL r ts c1 = (true, c2)) :
    checkL r (t :: ts) cur = (true, c2) := by
  rw [checkL, h1]; exact h2

theorem check_single (r : Rng) (t : PtrTree) (cur c : Nat) (h : checkPointers r t cur = (true, c)) :
    checkPointers r (.node [t]) cur = (true, c) := by
  rw [checkPointers]; exact checkL_cons_ok r t [] cur c c h rfl

/-- What `check_pointers` does on a fresh pointer: accepted, and the cursor ends inside the value. -/
def FreshOk (s : Shape) : Prop :=
  ∀ top ie, Shape.okAux top ie s = true → Shape.isUnit s = false →
  ∀ bs base t n, getPtr s bs base = .ok (t, n) →
  ∀ (r : Rng) (cur : Nat), r.lo ≤ cur → cur ≤ base → base + n ≤ r.hi →
    ∃ c, checkPointers r t cur = (true, c) ∧ base ≤ c ∧ c ≤ base + n

theorem leaf_ok (r : Rng) (k : LeafKind) (base n cur : Nat) (hk : k ≠ .rem) (hn : 0 < n) (h1 : r.lo ≤ cur)
    (h2 : cur ≤ base) (h3 : base + n ≤ r.hi) :
    ∃ c, checkPointers r (.leaf k base) cur = (true, c) ∧ base ≤ c ∧ c ≤ base + n := by
  refine ⟨base, ?_, Nat.le_refl _, by omega⟩
  simp only [checkPointers, hk, ↓reduceIte, Rng.contains, Prod.mk.injEq, Bool.and_eq_true, decide_eq_true_eq, and_true]
  omega

theorem freshOk_all (s : Shape) : FreshOk s := by
  induction s using Shape.induct' with
  | fixed f =>
    intro top ie hok _ bs base t n h r cur h1 h2 h3
    simp only [Shape.okAux, Bool.and_eq_true, decide_eq_true_eq] at hok
    simp only [getPtr] at h
    cases hx : extentFixed f bs with
    | error e => simp [hx] at h
    | ok m =>
      simp [hx] at h; obtain ⟨rfl, rfl⟩ := h
      have := extentFixed_eq f bs m hx
      exact leaf_ok r .checked base m cur (by decide) (by omega) h1 h2 h3
  | list e lw =>
    intro top ie hok _ bs base t n h r cur h1 h2 h3
    simp only [Shape.okAux, Bool.and_eq_true] at hok
    simp only [getPtr] at h
    cases hx : extentList e.size lw bs with
    | error e => simp [hx] at h
    | ok m =>
      simp [hx] at h; obtain ⟨rfl, rfl⟩ := h
      exact leaf_ok r .list base m cur (by decide) (extentList_pos _ _ _ _ (lenW_pos lw hok.2) hx) h1 h2 h3
  | set e lw =>
    intro top ie hok _ bs base t n h r cur h1 h2 h3
    simp only [Shape.okAux, Bool.and_eq_true] at hok
    simp only [getPtr] at h
    cases hx : extentList e.size lw bs with
    | error e => simp [hx] at h
    | ok m =>
      simp [hx] at h; obtain ⟨rfl, rfl⟩ := h
      obtain ⟨c, hc, hc1, hc2⟩ := leaf_ok r .list base m cur (by decide)
        (extentList_pos _ _ _ _ (lenW_pos lw hok.2) hx) h1 h2 h3
      exact ⟨c, check_single r _ cur c hc, hc1, hc2⟩
  | map kw v lw =>
    intro top ie hok _ bs base t n h r cur h1 h2 h3
    simp only [Shape.okAux, Bool.and_eq_true] at hok
    simp only [getPtr] at h
    cases hx : extentList (kw + v.size) lw bs with
    | error e => simp [hx] at h
    | ok m =>
      simp [hx] at h; obtain ⟨rfl, rfl⟩ := h
      obtain ⟨c, hc, hc1, hc2⟩ := leaf_ok r .list base m cur (by decide)
        (extentList_pos _ _ _ _ (lenW_pos lw hok.2) hx) h1 h2 h3
      exact ⟨c, check_single r _ cur c hc, hc1, hc2⟩
  | str lw =>
    intro top ie hok _ bs base t n h r cur h1 h2 h3
    simp only [Shape.okAux] at hok
    simp only [getPtr] at h
    cases hx : extentList 1 lw bs with
    | error e => simp [hx] at h
    | ok m =>
      simp [hx] at h; obtain ⟨rfl, rfl⟩ := h
      obtain ⟨c, hc, hc1, hc2⟩ := leaf_ok r .list base m cur (by decide)
        (extentList_pos _ _ _ _ (lenW_pos lw hok) hx) h1 h2 h3
      exact ⟨c, check_single r _ cur c hc, hc1, hc2⟩
  | rem =>
    intro top ie _ _ bs base t n h r cur h1 h2 h3
    simp only [getPtr, Except.ok.injEq, Prod.mk.injEq] at h
    obtain ⟨rfl, rfl⟩ := h
    refine ⟨base, ?_, Nat.le_refl _, by omega⟩
    simp only [checkPointers, ↓reduceIte, Rng.containsIncl, Prod.mk.injEq, Bool.and_eq_true, decide_eq_true_eq,
      and_true]
    omega
  | ulist e _ =>
    intro top ie _ _ bs base t n h r cur h1 h2 h3
    simp only [getPtr] at h
    cases hx : extentUlist 4 bs with
    | error e => simp [hx] at h
    | ok m =>
      simp [hx] at h; obtain ⟨rfl, rfl⟩ := h
      have := extentUlist_pos 4 bs m hx
      refine ⟨base, ?_, Nat.le_refl _, by omega⟩
      simp only [checkPointers, checkO, Rng.contains, Prod.mk.injEq, Bool.and_eq_true, decide_eq_true_eq, and_true]
      omega
  | umap kw e _ =>
    intro top ie _ _ bs base t n h r cur h1 h2 h3
    simp only [getPtr] at h
    cases hx : extentUlist (Shape.entryW kw) bs with
    | error e => simp [hx] at h
    | ok m =>
      simp [hx] at h; obtain ⟨rfl, rfl⟩ := h
      have := extentUlist_pos _ bs m hx
      refine ⟨base, ?_, Nat.le_refl _, by omega⟩
      simp only [checkPointers, checkL, checkO, Rng.contains, Bool.and_true, Bool.and_eq_true, decide_eq_true_eq]
      have hh : (decide (cur ≤ base) && (decide (r.lo ≤ base) && decide (base < r.hi))) = true := by
        simp only [Bool.and_eq_true, decide_eq_true_eq]; omega
      simp [hh]
  | unit => intro top ie _ hu; simp [Shape.isUnit] at hu
  | disc d inner ih =>
    intro top ie hok _ bs base t n h r cur h1 h2 h3
    simp only [Shape.okAux, Bool.and_eq_true] at hok
    simp only [getPtr] at h
    split at h
    · cases hg : getPtr inner (List.drop d.length bs) (base + d.length) with
      | error e => simp [hg] at h
      | ok tn =>
        obtain ⟨t1, n1⟩ := tn
        simp [hg] at h
        obtain ⟨rfl, rfl⟩ := h
        obtain ⟨c, hc, hc1, hc2⟩ := ih false false hok.2 (isUnit_of_okAux_false inner false hok.2) _ _ _ _ hg
          r cur h1 (by omega) (by omega)
        exact ⟨c, hc, by omega, by omega⟩
    · simp at h
  | struct sized fs ih =>
    have hf : ∀ (fs : List Shape), (∀ f ∈ fs, FreshOk f) → Shape.okFields fs = true →
        ∀ bs base ts n, getPtrFields fs bs base = .ok (ts, n) →
        ∀ (r : Rng) (cur : Nat), r.lo ≤ cur → cur ≤ base → base + n ≤ r.hi →
          ∃ c, checkL r ts cur = (true, c) ∧ cur ≤ c ∧ c ≤ base + n := by
      intro fs
      induction fs with
      | nil =>
        intro _ _ bs base ts n h r cur h1 h2 h3
        simp only [getPtrFields, Except.ok.injEq, Prod.mk.injEq] at h
        obtain ⟨rfl, rfl⟩ := h
        exact ⟨cur, rfl, Nat.le_refl _, by omega⟩
      | cons f fs ihf =>
        intro hall hok bs base ts n h r cur h1 h2 h3
        have hokf : Shape.okAux false false f = true ∧ Shape.okFields fs = true := by
          cases fs with
          | nil => simp [Shape.okFields] at hok ⊢; exact hok
          | cons g gs => simp [Shape.okFields] at hok ⊢; exact ⟨hok.1.1, hok.2⟩
        simp only [getPtrFields] at h
        cases hg : getPtr f bs base with
        | error e => simp [hg] at h
        | ok tn =>
          obtain ⟨t1, n1⟩ := tn
          simp only [hg] at h
          cases hg2 : getPtrFields fs (List.drop n1 bs) (base + n1) with
          | error e => simp [hg2] at h
          | ok tsm =>
            obtain ⟨ts2, m⟩ := tsm
            simp only [hg2, Except.ok.injEq, Prod.mk.injEq] at h
            obtain ⟨rfl, rfl⟩ := h
            obtain ⟨c1, hc1, hb1, hb2⟩ := hall f (by simp) false false hokf.1
              (isUnit_of_okAux_false f false hokf.1) _ _ _ _ hg r cur h1 h2 (by omega)
            obtain ⟨c2, hc2, hb3, hb4⟩ := ihf (fun g hg' => hall g (by simp [hg'])) hokf.2 _ _ _ _ hg2
              r c1 (by omega) hb2 (by omega)
            exact ⟨c2, checkL_cons_ok r _ _ cur c1 c2 hc1 hc2, by omega, by omega⟩
    intro top ie hok _ bs base t n h r cur h1 h2 h3
    simp only [Shape.okAux, Bool.and_eq_true, Bool.not_eq_true', List.isEmpty_eq_false_iff, Bool.or_eq_true,
      decide_eq_true_eq] at hok
    simp only [getPtr] at h
    split at h
    · cases hg2 : getPtrFields fs bs base with
      | error e => simp [hg2] at h
      | ok tsm =>
        obtain ⟨ts2, m⟩ := tsm
        simp only [hg2, Except.ok.injEq, Prod.mk.injEq] at h
        obtain ⟨rfl, rfl⟩ := h
        obtain ⟨c, hc, hb1, hb2⟩ := hf fs ih hok.2 _ _ _ _ hg2 r cur h1 h2 h3
        -- the first field starts at `base`, so the final cursor is at least `base`
        have hne : fs ≠ [] := hok.1.2
        have hcb : base ≤ c := by
          cases fs with
          | nil => exact absurd rfl hne
          | cons f fs' =>
            simp only [getPtrFields] at hg2
            cases hg : getPtr f bs base with
            | error e => simp [hg] at hg2
            | ok tn =>
              obtain ⟨t1, n1⟩ := tn
              simp only [hg] at hg2
              cases hg3 : getPtrFields fs' (List.drop n1 bs) (base + n1) with
              | error e => simp [hg3] at hg2
              | ok tsm =>
                obtain ⟨ts3, m3⟩ := tsm
                simp only [hg3, Except.ok.injEq, Prod.mk.injEq] at hg2
                obtain ⟨rfl, rfl⟩ := hg2
                have hokf : Shape.okAux false false f = true ∧ Shape.okFields fs' = true := by
                  have := hok.2
                  cases fs' with
                  | nil => simp [Shape.okFields] at this ⊢; exact this
                  | cons g gs => simp [Shape.okFields] at this ⊢; exact ⟨this.1.1, this.2⟩
                obtain ⟨c1, hc1, hb1', hb2'⟩ := ih f (by simp) false false hokf.1
                  (isUnit_of_okAux_false f false hokf.1) _ _ _ _ hg r cur h1 h2 (by omega)
                obtain ⟨c2, hc2, hb3, _⟩ := hf fs' (fun g hg' => ih g (by simp [hg'])) hokf.2 _ _ _ _ hg3
                  r c1 (by omega) hb2' (by omega)
                rw [checkL_cons_ok r _ _ cur c1 c2 hc1 hc2] at hc
                simp only [Prod.mk.injEq, true_and] at hc
                omega
        exact ⟨c, by simpa only [checkPointers] using hc, hcb, hb2⟩
    · rename_i hse
      cases hx : extentFixed (.record sized) bs with
      | error e => simp [hx] at h
      | ok n0 =>
        simp only [hx] at h
        cases hg2 : getPtrFields fs (List.drop n0 bs) (base + n0) with
        | error e => simp [hg2] at h
        | ok tsm =>
          obtain ⟨ts2, m⟩ := tsm
          simp only [hg2, Except.ok.injEq, Prod.mk.injEq] at h
          obtain ⟨rfl, rfl⟩ := h
          have hn0 : n0 = Fixed.sizeList sized := by
            have := extentFixed_eq (.record sized) bs n0 hx; simpa [Fixed.size] using this
          have hpos : 0 < n0 := by
            rcases hok.1.1.2 with h' | h'
            · exact absurd h' hse
            · omega
          obtain ⟨c1, hc1, hb1, hb2⟩ := leaf_ok r .checked base n0 cur (by decide) hpos h1 h2 (by omega)
          obtain ⟨c2, hc2, hb3, hb4⟩ := hf fs ih hok.2 _ _ _ _ hg2 r c1 (by omega) hb2 (by omega)
          exact ⟨c2, by rw [checkPointers]; exact checkL_cons_ok r _ _ cur c1 c2 hc1 hc2, by omega, by omega⟩
  | «enum» ds ps ih =>
    have hv : ∀ (ds : List Nat) (ps : List Shape), (∀ p ∈ ps, FreshOk p) → Shape.okPayloads ps = true →
        ∀ rr bs base i idx o n, getPtrVariant ds ps rr bs base i = .ok (idx, o, n) →
        ∀ (r : Rng) (cur : Nat), r.lo ≤ cur → cur ≤ base → base + n ≤ r.hi →
          match o with
          | none => True
          | some t => ∃ c, checkPointers r t cur = (true, c) ∧ c ≤ base + n := by
      intro ds
      induction ds with
      | nil => intro ps _ _ rr bs base i idx o n h; cases ps <;> simp [getPtrVariant] at h
      | cons d ds ihd =>
        intro ps hall hok rr bs base i idx o n h r cur h1 h2 h3
        cases ps with
        | nil => simp [getPtrVariant] at h
        | cons p ps =>
          simp only [Shape.okPayloads, Bool.and_eq_true] at hok
          simp only [getPtrVariant] at h
          split at h
          · cases hg : getPtr p bs base with
            | error e => simp [hg] at h
            | ok tn =>
              obtain ⟨t1, n1⟩ := tn
              simp only [hg, Except.ok.injEq, Prod.mk.injEq] at h
              obtain ⟨rfl, rfl, rfl⟩ := h
              cases hu : Shape.isUnit p with
              | true => simp
              | false =>
                simp only [Bool.false_eq_true, ↓reduceIte]
                obtain ⟨c, hc, _, hb⟩ := hall p (by simp) false true hok.1 hu _ _ _ _ hg r cur h1 h2 h3
                exact ⟨c, hc, hb⟩
          · exact ihd ps (fun q hq => hall q (by simp [hq])) hok.2 rr bs base (i + 1) idx o n h r cur h1 h2 h3
    intro top ie hok _ bs base t n h r cur h1 h2 h3
    simp only [Shape.okAux, Bool.and_eq_true] at hok
    simp only [getPtr] at h
    cases bs with
    | nil => simp at h
    | cons rr rest =>
      simp only [] at h
      cases hg2 : getPtrVariant ds ps rr rest (base + 1) 0 with
      | error e => simp [hg2] at h
      | ok x =>
        obtain ⟨idx, o, m⟩ := x
        simp only [hg2, Except.ok.injEq, Prod.mk.injEq] at h
        obtain ⟨rfl, rfl⟩ := h
        have hcont : (decide (cur ≤ base) && r.contains base) = true := by
          simp only [Rng.contains, Bool.and_eq_true, decide_eq_true_eq]; omega
        have := hv ds ps ih hok.2 _ _ _ _ _ _ _ hg2 r base (by omega) (by omega) (by omega)
        cases o with
        | none => exact ⟨base, by simp only [checkPointers, hcont, ↓reduceIte], Nat.le_refl _, by omega⟩
        | some t1 =>
          obtain ⟨c, hc, hb⟩ := this
          -- the payload's cursor never goes below the start pointer
          have hge : base ≤ c := by
            have hall := checkPointers_addrs r t1 base c hc
            -- the cursor returned by a successful check is an address of the tree or the old cursor;
            -- we only need `base ≤ c`, which follows from monotonicity of the cursor
            exact cursor_mono r t1 base c hc
          exact ⟨c, by simp only [checkPointers, hcont, ↓reduceIte, hc], hge, by omega⟩

end Unsized.PtrT
