import Unsized.MachineSubst
/-!
# Path-level facts: `subst_good` (`encode s (subst …) = plug …`), `plug_decomp`, `child_err`,
`locate_encode` (the accessor chain on canonical bytes finds exactly the sub-value of the path)
-/
namespace Unsized.Machine
open Common Unsized Unsized.Text

/-- Replacing the sub-value at a path. -/
theorem subst_good (p : List Step) : ∀ (s : Shape) (v : Val) (t : Shape) (u u' : Val), Good s v →
    resolve s v p = .ok (t, u) → Good t u' → (plug s v p (encode t u')).length < Shape.u32Lim →
    Good s (subst s v p u')
    ∧ encode s (subst s v p u') = plug s v p (encode t u')
    ∧ resolve s (subst s v p u') p = .ok (t, u')
    ∧ offsetOf s (subst s v p u') p = offsetOf s v p
    ∧ (∀ X, plug s (subst s v p u') p X = plug s v p X) := by
  induction p with
  | nil =>
    intro s v t u u' g h g' hb
    simp [resolve] at h; obtain ⟨rfl, rfl⟩ := h
    exact ⟨by simpa [subst] using g', by simp [subst, plug], by simp [subst, resolve], by simp [offsetOf],
      fun X => by simp [plug]⟩
  | cons st p ih =>
    intro s v t u u' g h g' hb
    simp only [resolve] at h
    cases h1 : resolve1 s v st with
    | error e => simp [h1] at h
    | ok tu =>
      obtain ⟨t1, u1⟩ := tu
      simp only [h1] at h
      obtain ⟨g1, henc, hlen, _⟩ := step_facts s v st t1 u1 g h1
      simp only [plug, h1, List.length_append] at hb
      obtain ⟨gi, hei, hri, hoi, hpi⟩ := ih t1 u1 t u u' g1 h g' (by omega)
      obtain ⟨gs, hes, hrs, hps, hposts⟩ := step_subst s v st t1 u1 (subst t1 u1 p u') g h1 gi
        (by rw [hei]; omega)
      refine ⟨?_, ?_, ?_, ?_, ?_⟩
      · simpa only [subst, h1] using gs
      · simp only [subst, h1, plug]; rw [hes, hei]
      · simp only [subst, h1, resolve, hrs]; exact hri
      · simp only [subst, h1, offsetOf, hrs, hps, hoi]
      · intro X; simp only [subst, h1, plug, hrs, hps, hposts, hpi]

/-- `plug` is "prefix ++ hole ++ suffix", the prefix having the length of the original prefix. -/
theorem plug_decomp (p : List Step) : ∀ (s : Shape) (v : Val) (t : Shape) (u : Val), Good s v →
    resolve s v p = .ok (t, u) → ∃ C : List Nat, ∀ n : Nat, ∃ A : List Nat,
      A.length = offsetOf s v p ∧ ∀ X : List Nat, X.length = n → plug s v p X = A ++ X ++ C := by
  induction p with
  | nil =>
    intro s v t u g h
    exact ⟨[], fun n => ⟨[], by simp [offsetOf], fun X _ => by simp [plug]⟩⟩
  | cons st p ih =>
    intro s v t u g h
    simp only [resolve] at h
    cases h1 : resolve1 s v st with
    | error e => simp [h1] at h
    | ok tu =>
      obtain ⟨t1, u1⟩ := tu
      simp only [h1] at h
      obtain ⟨g1, henc, hlen, _⟩ := step_facts s v st t1 u1 g h1
      obtain ⟨C, hC⟩ := ih t1 u1 t u g1 h
      refine ⟨C ++ stepPost s v st, fun n => ?_⟩
      obtain ⟨A, hA, hAX⟩ := hC n
      refine ⟨stepPre s v st (A.length + n + C.length) ++ A, ?_, fun X hX => ?_⟩
      · simp only [List.length_append, offsetOf, h1, hA]; rw [hlen _ 0]
      · simp only [plug, h1]; rw [hAX X hX]; simp [List.append_assoc, hX, Nat.add_assoc]


theorem validFields_length (fs : List Shape) (vs : List Val) (h : validFields fs vs = true) :
    fs.length = vs.length := by
  induction fs generalizing vs with
  | nil => cases vs <;> simp [validFields] at h ⊢
  | cons f fs ih => cases vs with
    | nil => simp [validFields] at h
    | cons x vs => simp [validFields] at h; simp [ih vs h.2]

/-- An inapplicable / out-of-range step fails in the machine with the same class. -/
theorem child_err (s : Shape) (v : Val) (st : Step) (e : Err) (g : Good s v)
    (h : resolve1 s v st = .error e) (pre post : List Nat) (base : Nat) (hb : base = pre.length) :
    child s st base (pre ++ encode s v ++ post) = .error e := by
  obtain ⟨⟨top, ie, hok⟩, hv, hfit⟩ := g
  unfold resolve1 at h
  split at h
  · rename_i sized fs sz vs i
    simp only [valid, Bool.and_eq_true] at hv
    have hl := validFields_length fs vs hv.2
    split at h
    · cases h
    · rename_i hne
      cases h
      have : ¬ i < fs.length := by
        intro hi
        exact hne fs[i] vs[i] (List.getElem?_eq_getElem hi) (List.getElem?_eq_getElem (by omega))
      simp [child, this]
  · rename_i el vs i
    split at h
    · cases h
    · rename_i hx
      cases h
      simp only [fits, Bool.and_eq_true, decide_eq_true_eq] at hfit
      have hi : ¬ i < vs.length := by
        intro hi; simp [List.getElem?_eq_getElem hi] at hx
      have hlen : rd32 (pre ++ encode (.ulist el) (.useq vs) ++ post) (base + 4) = vs.length := by
        rw [encode_ulist_uBytes, uBytes]
        have e1 : pre ++ (uHdrOf (vs.map fun _ => []) ((vs.map (encode el)).map List.length)
            ++ (vs.map (encode el)).flatten) ++ post
            = pre ++ uHdrOf (vs.map fun _ => []) ((vs.map (encode el)).map List.length)
              ++ ((vs.map (encode el)).flatten ++ post) := by simp [List.append_assoc]
        rw [e1, rd32_uHdr_len _ _ pre _ base hb (by simpa using hfit.1.1)]; simp
      simp only [child, hlen, hi, if_false]
  · rename_i kw el es i
    split at h
    · cases h
    · rename_i hx
      cases h
      simp only [fits, Bool.and_eq_true, decide_eq_true_eq] at hfit
      have hi : ¬ i < es.length := by
        intro hi; simp [List.getElem?_eq_getElem hi] at hx
      have hlen : rd32 (pre ++ encode (.umap kw el) (.umap es) ++ post) (base + 4) = es.length := by
        rw [encode_umap_uBytes, uBytes]
        have e1 : pre ++ (uHdrOf (es.map (·.1)) ((es.map fun kv => encode el kv.2).map List.length)
            ++ (es.map fun kv => encode el kv.2).flatten) ++ post
            = pre ++ uHdrOf (es.map (·.1)) ((es.map fun kv => encode el kv.2).map List.length)
              ++ ((es.map fun kv => encode el kv.2).flatten ++ post) := by simp [List.append_assoc]
        rw [e1, rd32_uHdr_len _ _ pre _ base hb (by simpa using hfit.1.1)]; simp
      simp only [child, hlen, hi, if_false]
  · rename_i ds ps idx pl
    simp only [valid, Bool.and_eq_true, decide_eq_true_eq] at hv
    simp only [Shape.okAux, Bool.and_eq_true, beq_iff_eq, decide_eq_true_eq] at hok
    obtain ⟨t2, ht2, hvt⟩ := validVariant_get ps idx pl hv.2
    have hd : ds[idx]? = some ds[idx] := List.getElem?_eq_getElem hv.1
    split at h
    · rename_i hn; rw [ht2] at hn; cases hn
    · rename_i hu
      cases h
      rw [ht2] at hu; cases hu
      have hb0 : (pre ++ encode (.enum ds ps) (.variant idx pl) ++ post)[base]? = some ds[idx] := by
        simp only [encode]
        rw [encodeVariant_get ds ps idx pl _ .unit hd ht2]
        rw [List.append_assoc, List.getElem?_append_right (by omega)]; simp [hb]
      simp only [child, hb0, variantOf_get ds ps idx _ .unit hd ht2 hok.1.2]
    · cases h
  · -- shape / value / step do not fit together
    rename_i hs1 hs2 hs3 hs4
    cases h
    cases s <;> cases st <;> simp only [child] <;> first
      | rfl
      | (cases v <;> first | (simp [valid] at hv; done) | (exfalso; first | exact hs1 _ _ _ _ _ rfl rfl rfl | exact hs2 _ _ _ rfl rfl rfl | exact hs3 _ _ _ _ rfl rfl rfl | exact hs4 _ _ _ _ rfl rfl rfl))


/-- Taking the accessor chain on canonical bytes finds exactly the sub-value the path denotes. -/
theorem locate_encode (p : List Step) : ∀ (s : Shape) (v : Val), Good s v →
    ∀ (pre post : List Nat) (base : Nat), base = pre.length →
    locate s p base (pre ++ encode s v ++ post)
      = match resolve s v p with
        | .ok (t, _) => .ok (t, base + offsetOf s v p)
        | .error e => .error e := by
  induction p with
  | nil => intro s v g pre post base hb; simp [locate, resolve, offsetOf]
  | cons st p ih =>
    intro s v g pre post base hb
    simp only [locate, resolve]
    cases h1 : resolve1 s v st with
    | error e => simp only [child_err s v st e g h1 pre post base hb]
    | ok tu =>
      obtain ⟨t1, u1⟩ := tu
      obtain ⟨g1, henc, hlen, hchild⟩ := step_facts s v st t1 u1 g h1
      have hbytes : pre ++ encode s v ++ post
          = pre ++ stepPre s v st (encode t1 u1).length ++ (encode t1 u1 ++ (stepPost s v st ++ post)) := by
        conv => lhs; rw [henc]
        simp [List.append_assoc]
      have hch := hchild pre (encode t1 u1 ++ (stepPost s v st ++ post)) base hb
      rw [hbytes, hch]
      simp only []
      have hb2 : pre ++ stepPre s v st (encode t1 u1).length ++ (encode t1 u1 ++ (stepPost s v st ++ post))
          = (pre ++ stepPre s v st (encode t1 u1).length) ++ encode t1 u1 ++ (stepPost s v st ++ post) := by
        simp [List.append_assoc]
      rw [hb2, ih t1 u1 g1 _ _ _ (by simp [hb, hlen 0 (encode t1 u1).length])]
      simp only [offsetOf, h1]
      cases resolve t1 u1 p with
      | error e => rfl
      | ok tu2 => simp [Nat.add_assoc]

end Unsized.Machine
