import Unsized.AccessLemmas
/-!
# Every emitted access is inside the data of that moment (`evsOk`) — lemmas per operation

`Indep cap evs`: the events are fine whatever the data length was before them (growing ops: the realloc
comes first and the moves are bounded by the new length).
`evsOk cap len evs`: fine when the data length before them is `len` (shrinking ops move first).
-/
namespace Unsized.Machine
open Common Unsized Unsized.Text

/-- `orig + 10240`: the size of the allocation. -/
def Mem.cap (m : Mem) : Nat := m.orig + maxIncrease

def Indep (cap : Nat) (evs : List Ev) : Prop := ∀ len, evsOk cap len evs = true

theorem evsOk_append (cap : Nat) (a b : List Ev) : ∀ len,
    evsOk cap len (a ++ b) = (evsOk cap len a && evsOk cap (lenAfter len a) b) := by
  induction a with
  | nil => intro len; simp [evsOk, lenAfter]
  | cons e es ih =>
    intro len
    cases e with
    | call => simp [evsOk, lenAfter, ih]
    | notify s n a bs => simp [evsOk, lenAfter, ih]
    | move d s n => simp [evsOk, lenAfter, ih, Bool.and_assoc]
    | realloc o n ok => cases ok <;> simp [evsOk, lenAfter, ih, Bool.and_assoc]

theorem lenAfter_append (a b : List Ev) : ∀ len, lenAfter len (a ++ b) = lenAfter (lenAfter len a) b := by
  induction a with
  | nil => intro len; rfl
  | cons e es ih =>
    intro len
    cases e <;> simp [lenAfter, ih]

theorem Indep.nil (cap : Nat) : Indep cap [] := fun _ => rfl

theorem Indep.append {cap : Nat} {a b : List Ev} (ha : Indep cap a) (hb : Indep cap b) : Indep cap (a ++ b) := by
  intro len; rw [evsOk_append, ha, hb]; rfl

theorem evsOk_append_indep {cap len : Nat} {a b : List Ev} (ha : evsOk cap len a = true) (hb : Indep cap b) :
    evsOk cap len (a ++ b) = true := by
  rw [evsOk_append, ha, hb]; rfl

theorem Indep.notify {cap : Nat} {a : List Ev} (ha : Indep cap a) (s : Nat) (n : Bool) (k : Nat) (bs : List Nat) :
    Indep cap (a ++ [.notify s n k bs]) := ha.append (fun _ => rfl)

theorem evsOk_notify {cap len : Nat} {a : List Ev} (ha : evsOk cap len a = true) (s : Nat) (n : Bool) (k : Nat)
    (bs : List Nat) : evsOk cap len (a ++ [.notify s n k bs]) = true :=
  evsOk_append_indep ha (fun _ => rfl)

theorem lenAfter_notify (a : List Ev) (len s : Nat) (n : Bool) (k : Nat) (bs : List Nat) :
    lenAfter len (a ++ [.notify s n k bs]) = lenAfter len a := by
  rw [lenAfter_append]; rfl

/-! ## `add_bytes` -/

theorem addBytesEvs_indep (m : Mem) (start amount : Nat) : Indep m.cap (addBytesEvs m start amount) := by
  intro len
  unfold addBytesEvs
  split
  · rfl
  · split
    · rfl
    · split
      · rfl
      · rename_i h1 _ h3
        have hcap : m.bytes.length + amount ≤ m.cap := by
          simp only [not_or, Nat.not_lt] at h3; exact h3.2
        split
        · simp [evsOk, hcap]
        · simp only [evsOk, hcap, decide_true, Bool.true_and, Bool.and_true, ↓reduceIte, Bool.and_eq_true,
            decide_eq_true_eq]
          omega

/-- What a successful `add_bytes` means. -/
theorem addBytes_ok (m m1 : Mem) (start amount : Nat) (h : m.addBytes start amount = (m1, .ok ())) :
    start ≤ m.bytes.length ∧ m1.bytes.length = m.bytes.length + amount ∧ m1.orig = m.orig ∧
    (amount ≠ 0 → m.bytes.length + amount ≤ m.cap) ∧
    ∀ len, lenAfter len (addBytesEvs m start amount) = if amount = 0 then len else m.bytes.length + amount := by
  unfold Mem.addBytes at h
  unfold addBytesEvs
  split at h
  · cases h
  · rename_i h1
    simp only [Nat.not_lt] at h1
    split at h
    · rename_i h2
      simp only [Prod.mk.injEq] at h
      obtain ⟨rfl, _⟩ := h
      simp [h2, Nat.not_lt.mpr h1, lenAfter]
      exact h1
    · rename_i h2
      simp only at h
      split at h
      · cases h
      · rename_i h3
        split at h
        · cases h
        · rename_i h4
          simp only [Prod.mk.injEq] at h
          obtain ⟨rfl, _⟩ := h
          simp only [Nat.not_lt] at h4
          refine ⟨h1, ?_, rfl, fun _ => h4, ?_⟩
          · simp [addBytesRaw]; omega
          · intro len
            simp only [Nat.not_lt.mpr h1, h2, ↓reduceIte, h3, false_or, Nat.not_lt.mpr h4]
            split <;> simp [lenAfter]

theorem addBytesNT_indep (m : Mem) (c : Ctx) (src start amount : Nat) :
    Indep m.cap (m.addBytesNT c src start amount).2 := by
  unfold Mem.addBytesNT Mem.addBytesT
  rcases h : m.addBytes start amount with ⟨m1, r⟩
  cases r with
  | error e => exact addBytesEvs_indep m start amount
  | ok u =>
    cases u
    simp only []
    split
    · exact addBytesEvs_indep m start amount
    · split <;> exact (addBytesEvs_indep m start amount).notify _ _ _ _

/-- What a successful `add_bytes` + notification means. -/
theorem addBytesNT_ok (m m1 : Mem) (c : Ctx) (src start amount : Nat) (ev : List Ev)
    (h : m.addBytesNT c src start amount = ((m1, .ok ()), ev)) :
    start ≤ m.bytes.length ∧ m1.orig = m.orig ∧ (amount ≠ 0 → m.bytes.length + amount ≤ m.cap) ∧
    ∀ len, lenAfter len ev = if amount = 0 then len else m.bytes.length + amount := by
  unfold Mem.addBytesNT Mem.addBytesT at h
  rcases h0 : m.addBytes start amount with ⟨m0, r⟩
  rw [h0] at h
  cases r with
  | error e => simp at h
  | ok u =>
    cases u
    obtain ⟨h1, _, h3, h4, h5⟩ := addBytes_ok m m0 start amount h0
    simp only [] at h
    split at h
    · simp only [Prod.mk.injEq] at h
      obtain ⟨⟨rfl, _⟩, rfl⟩ := h
      exact ⟨h1, h3, h4, h5⟩
    · split at h
      · simp at h
      · simp only [Prod.mk.injEq] at h
        obtain ⟨⟨rfl, _⟩, rfl⟩ := h
        refine ⟨h1, h3, h4, fun len => ?_⟩
        rw [lenAfter_notify]; exact h5 len

/-! ## `remove_bytes` -/

theorem removeBytesEvs_ok (m : Mem) (start stop : Nat) (hcap : m.bytes.length ≤ m.cap) :
    evsOk m.cap m.bytes.length (removeBytesEvs m start stop) = true := by
  unfold removeBytesEvs
  split
  · rfl
  · split
    · rfl
    · split
      · rfl
      · split
        · rfl
        · split
          · simp only [evsOk, ↓reduceIte, Bool.and_true, decide_eq_true_eq]; omega
          · simp only [evsOk, ↓reduceIte, Bool.and_true, Bool.and_eq_true, decide_eq_true_eq]; omega

theorem removeBytesNT_evsOk (m : Mem) (c : Ctx) (src start stop : Nat) (hcap : m.bytes.length ≤ m.cap) :
    evsOk m.cap m.bytes.length (m.removeBytesNT c src start stop).2 = true := by
  unfold Mem.removeBytesNT Mem.removeBytesT
  rcases h : m.removeBytes start stop with ⟨m1, r⟩
  cases r with
  | error e => exact removeBytesEvs_ok m start stop hcap
  | ok u =>
    cases u
    simp only []
    split
    · exact removeBytesEvs_ok m start stop hcap
    · split <;> exact evsOk_notify (removeBytesEvs_ok m start stop hcap) ..

/-! ## `orig` never changes -/

theorem addBytes_orig (m : Mem) (start amount : Nat) : (m.addBytes start amount).1.orig = m.orig := by
  unfold Mem.addBytes
  split
  · rfl
  · split
    · rfl
    · simp only []
      split
      · rfl
      · split <;> rfl

theorem removeBytes_orig (m : Mem) (start stop : Nat) : (m.removeBytes start stop).1.orig = m.orig := by
  unfold Mem.removeBytes
  repeat' split
  all_goals rfl

theorem addBytesNT_orig (m : Mem) (c : Ctx) (src start amount : Nat) :
    (m.addBytesNT c src start amount).1.1.orig = m.orig := by
  unfold Mem.addBytesNT Mem.addBytesT
  have := addBytes_orig m start amount
  rcases h : m.addBytes start amount with ⟨m1, r⟩
  rw [h] at this
  cases r with
  | error e => exact this
  | ok u =>
    cases u
    simp only []
    split
    · exact this
    · split <;> exact this

theorem removeBytesNT_orig (m : Mem) (c : Ctx) (src start stop : Nat) :
    (m.removeBytesNT c src start stop).1.1.orig = m.orig := by
  unfold Mem.removeBytesNT Mem.removeBytesT
  have := removeBytes_orig m start stop
  rcases h : m.removeBytes start stop with ⟨m1, r⟩
  rw [h] at this
  cases r with
  | error e => exact this
  | ok u =>
    cases u
    simp only []
    split
    · exact this
    · split <;> exact this

/-! ## `List` and the containers built on it -/

theorem listInsertAllT_indep (c : Ctx) (ew lw b idx : Nat) (items : List (List Nat)) (m : Mem) :
    Indep m.cap (listInsertAllT c ew lw b idx items m).2 ∧ (listInsertAllT c ew lw b idx items m).1.1.orig = m.orig := by
  unfold listInsertAllT
  simp only []
  split
  · exact ⟨Indep.nil _, rfl⟩
  · split
    · exact ⟨Indep.nil _, rfl⟩
    · have h1 := addBytesNT_indep m c b (b + lw + idx * ew) (ew * items.length)
      have h2 := addBytesNT_orig m c b (b + lw + idx * ew) (ew * items.length)
      generalize m.addBytesNT c b (b + lw + idx * ew) (ew * items.length) = x at *
      rcases x with ⟨⟨m1, r⟩, ev⟩
      cases r with
      | error e => exact ⟨h1, h2⟩
      | ok u => cases u; exact ⟨h1, h2⟩

theorem listRemoveRangeT_ok (c : Ctx) (ew lw b lo hi : Nat) (m : Mem) (hcap : m.bytes.length ≤ m.cap) :
    evsOk m.cap m.bytes.length (listRemoveRangeT c ew lw b lo hi m).2 = true ∧
    (listRemoveRangeT c ew lw b lo hi m).1.1.orig = m.orig := by
  unfold listRemoveRangeT
  simp only []
  split
  · exact ⟨rfl, rfl⟩
  · split
    · exact ⟨rfl, rfl⟩
    · have h1 := removeBytesNT_evsOk m c b (b + lw + lo * ew) (b + lw + hi * ew) hcap
      have h2 := removeBytesNT_orig m c b (b + lw + lo * ew) (b + lw + hi * ew)
      generalize m.removeBytesNT c b (b + lw + lo * ew) (b + lw + hi * ew) = x at *
      rcases x with ⟨⟨m1, r⟩, ev⟩
      cases r with
      | error e => exact ⟨h1, h2⟩
      | ok u => cases u; exact ⟨h1, h2⟩

theorem listPopT_ok (c : Ctx) (ew lw b : Nat) (m : Mem) (hcap : m.bytes.length ≤ m.cap) :
    evsOk m.cap m.bytes.length (listPopT c ew lw b m).2 = true := by
  unfold listPopT
  simp only []
  split
  · rfl
  · have h1 := (listRemoveRangeT_ok c ew lw b (rdN m.bytes b lw - 1) (rdN m.bytes b lw) m hcap).1
    generalize listRemoveRangeT c ew lw b (rdN m.bytes b lw - 1) (rdN m.bytes b lw) m = x at *
    rcases x with ⟨⟨m1, r⟩, ev⟩
    cases r with
    | error e => exact h1
    | ok u => cases u; exact h1

theorem setInsertT_indep (c : Ctx) (ew lw b : Nat) (e : List Nat) (m : Mem) :
    Indep m.cap (setInsertT c ew lw b e m).2 ∧ (setInsertT c ew lw b e m).1.1.orig = m.orig := by
  unfold setInsertT
  split
  · exact ⟨Indep.nil _, rfl⟩
  · rename_i i _
    have h1 := listInsertAllT_indep c ew lw b i [e] m
    generalize listInsertAllT c ew lw b i [e] m = x at *
    rcases x with ⟨⟨m1, r⟩, ev⟩
    cases r with
    | error e => exact h1
    | ok u => cases u; exact h1

theorem setInsertAllT_indep (c : Ctx) (ew lw b : Nat) (es : List (List Nat)) :
    ∀ (n : Nat) (m : Mem), Indep m.cap (setInsertAllT c ew lw b es n m).2 := by
  induction es with
  | nil => intro n m; exact Indep.nil _
  | cons e es ih =>
    intro n m
    simp only [setInsertAllT]
    have h1 := setInsertT_indep c ew lw b e m
    generalize setInsertT c ew lw b e m = x at *
    rcases x with ⟨⟨m1, r⟩, ev⟩
    cases r with
    | error e => exact h1.1
    | ok new =>
      simp only []
      have h2 := ih (if new then n + 1 else n) m1
      have hc : m1.cap = m.cap := by simp only [Mem.cap]; rw [h1.2]
      rw [hc] at h2
      exact h1.1.append h2

theorem setRemoveT_ok (c : Ctx) (ew lw b : Nat) (e : List Nat) (m : Mem) (hcap : m.bytes.length ≤ m.cap) :
    evsOk m.cap m.bytes.length (setRemoveT c ew lw b e m).2 = true := by
  unfold setRemoveT
  split
  · rfl
  · rename_i i _
    have h1 := (listRemoveRangeT_ok c ew lw b i (i + 1) m hcap).1
    generalize listRemoveRangeT c ew lw b i (i + 1) m = x at *
    rcases x with ⟨⟨m1, r⟩, ev⟩
    cases r with
    | error e => exact h1
    | ok u => cases u; exact h1

theorem mapInsertT_indep (c : Ctx) (kw vw lw b : Nat) (k v : List Nat) (m : Mem) :
    Indep m.cap (mapInsertT c kw vw lw b k v m).2 ∧ (mapInsertT c kw vw lw b k v m).1.1.orig = m.orig := by
  unfold mapInsertT
  simp only []
  split
  · exact ⟨Indep.nil _, rfl⟩
  · rename_i i _
    have h1 := listInsertAllT_indep c (kw + vw) lw b i [k ++ v] m
    generalize listInsertAllT c (kw + vw) lw b i [k ++ v] m = x at *
    rcases x with ⟨⟨m1, r⟩, ev⟩
    cases r with
    | error e => exact h1
    | ok u => cases u; exact h1

theorem mapInsertAllT_indep (c : Ctx) (kw vw lw b : Nat) (kvs : List (List Nat × List Nat)) :
    ∀ (n : Nat) (m : Mem), Indep m.cap (mapInsertAllT c kw vw lw b kvs n m).2 := by
  induction kvs with
  | nil => intro n m; exact Indep.nil _
  | cons kv kvs ih =>
    intro n m
    obtain ⟨k, v⟩ := kv
    simp only [mapInsertAllT]
    have h1 := mapInsertT_indep c kw vw lw b k v m
    generalize mapInsertT c kw vw lw b k v m = x at *
    rcases x with ⟨⟨m1, r⟩, ev⟩
    cases r with
    | error e => exact h1.1
    | ok old =>
      simp only []
      have h2 := ih (if old.isNone then n + 1 else n) m1
      have hc : m1.cap = m.cap := by simp only [Mem.cap]; rw [h1.2]
      rw [hc] at h2
      exact h1.1.append h2

theorem mapRemoveT_ok (c : Ctx) (kw vw lw b : Nat) (k : List Nat) (m : Mem) (hcap : m.bytes.length ≤ m.cap) :
    evsOk m.cap m.bytes.length (mapRemoveT c kw vw lw b k m).2 = true := by
  unfold mapRemoveT
  simp only []
  split
  · rfl
  · rename_i i _
    have h1 := (listRemoveRangeT_ok c (kw + vw) lw b i (i + 1) m hcap).1
    generalize listRemoveRangeT c (kw + vw) lw b i (i + 1) m = x at *
    rcases x with ⟨⟨m1, r⟩, ev⟩
    cases r with
    | error e => exact h1
    | ok u => cases u; exact h1

theorem strSetT_ok (c : Ctx) (lw b : Nat) (s : List Nat) (m : Mem) (hcap : m.bytes.length ≤ m.cap) :
    evsOk m.cap m.bytes.length (strSetT c lw b s m).2 = true := by
  unfold strSetT listClearT
  have h1 := listRemoveRangeT_ok c 1 lw b 0 (rdN m.bytes b lw) m hcap
  generalize listRemoveRangeT c 1 lw b 0 (rdN m.bytes b lw) m = x at *
  rcases x with ⟨⟨m1, r⟩, ev⟩
  cases r with
  | error e => exact h1.1
  | ok u =>
    cases u
    simp only []
    have h2 := (listInsertAllT_indep c 1 lw b (rdN m1.bytes b lw) (s.map fun x => [x]) m1).1
    have hc : m1.cap = m.cap := by simp only [Mem.cap]; rw [h1.2]
    rw [hc] at h2
    exact evsOk_append_indep h1.1 h2

theorem remSetLenT_ok (c : Ctx) (b n : Nat) (m : Mem) (hcap : m.bytes.length ≤ m.cap) :
    evsOk m.cap m.bytes.length (remSetLenT c b n m).2 = true := by
  unfold remSetLenT
  simp only []
  split
  · exact addBytesNT_indep _ _ _ _ _ _
  · split
    · rfl
    · exact removeBytesNT_evsOk _ _ _ _ _ hcap

theorem setDataInnerT_ok (c : Ctx) (t : Shape) (b : Nat) (newBytes : List Nat) (fails : Bool) (m : Mem)
    (hcap : m.bytes.length ≤ m.cap) :
    evsOk m.cap m.bytes.length (setDataInnerT c t b newBytes fails m).2 = true := by
  unfold setDataInnerT
  cases hx : extent t (m.bytes.drop b) with
  | error e => rfl
  | ok cur =>
    simp only []
    by_cases h1 : cur < newBytes.length
    · simp only [h1, ↓reduceIte]
      have := addBytesNT_indep m c b b (newBytes.length - cur) m.bytes.length
      generalize m.addBytesNT c b b (newBytes.length - cur) = x at *
      rcases x with ⟨⟨m1, r⟩, ev⟩
      cases r with
      | error e => exact this
      | ok u => cases u; simp only []; split <;> exact this
    · by_cases h2 : newBytes.length < cur
      · simp only [h1, h2, ↓reduceIte]
        have := removeBytesNT_evsOk m c b b (b + (cur - newBytes.length)) hcap
        generalize m.removeBytesNT c b b (b + (cur - newBytes.length)) = x at *
        rcases x with ⟨⟨m1, r⟩, ev⟩
        cases r with
        | error e => exact this
        | ok u => cases u; simp only []; split <;> exact this
      · simp only [h1, h2, ↓reduceIte]
        split <;> rfl

/-! ## `UnsizedList` -/

theorem evsOk_move_tail {cap len : Nat} {a : List Ev} (d s n : Nat) (ha : evsOk cap len a = true)
    (h1 : d + n ≤ lenAfter len a) (h2 : s + n ≤ lenAfter len a) :
    evsOk cap len (a ++ [.move d s n]) = true := by
  rw [evsOk_append, ha]
  simp [evsOk, h1, h2]

theorem ulistInsertT_ok (c : Ctx) (cw : Nat) (e : Shape) (b idx n : Nat) (init : Init) (key : List Nat)
    (m : Mem) : evsOk m.cap m.bytes.length (ulistInsertT c cw e b idx n init key m).2 = true := by
  unfold ulistInsertT
  simp only []
  split
  · rfl
  · rename_i hidx
    simp only [Nat.not_lt] at hidx
    have h1 := addBytesNT_indep m c b (b + 8 + rd32 m.bytes (b + 4) * cw + 4 + ulistOffset cw b idx m.bytes)
      ((initSize e init + cw) * n)
    generalize hx : m.addBytesNT c b (b + 8 + rd32 m.bytes (b + 4) * cw + 4 + ulistOffset cw b idx m.bytes)
      ((initSize e init + cw) * n) = x at *
    rcases x with ⟨⟨m1, r⟩, ev⟩
    cases r with
    | error er => exact h1 _
    | ok u =>
      cases u
      obtain ⟨hs, _, _, hlen⟩ := addBytesNT_ok m m1 c b _ _ ev hx
      have hmul : idx * cw ≤ rd32 m.bytes (b + 4) * cw := Nat.mul_le_mul_right cw hidx
      have hmv : evsOk m.cap m.bytes.length
          (ev ++ [Ev.move (b + 8 + idx * cw + n * cw) (b + 8 + idx * cw)
            (b + 8 + rd32 m.bytes (b + 4) * cw + 4 + ulistOffset cw b idx m.bytes - (b + 8 + idx * cw))]) = true := by
        apply evsOk_move_tail _ _ _ (h1 _)
        · rw [hlen]
          split
          · rename_i h0
            have : n * cw = 0 := by
              rcases Nat.mul_eq_zero.mp h0 with h | h
              · have : cw = 0 := by omega
                simp [this]
              · simp [h]
            omega
          · have : (initSize e init + cw) * n = initSize e init * n + n * cw := by
              rw [Nat.add_mul, Nat.mul_comm cw n]
            omega
        · rw [hlen]
          split <;> omega
      simp only []
      split
      · exact hmv
      · split
        · exact hmv
        · split
          · exact hmv
          · split <;> exact hmv

theorem ulistClearT_ok (c : Ctx) (cw b : Nat) (m : Mem) (hcap : m.bytes.length ≤ m.cap) :
    evsOk m.cap m.bytes.length (ulistClearT c cw b m).2 = true := by
  unfold ulistClearT
  simp only []
  have h1 := removeBytesNT_evsOk m c b (b + 8 + 4) (b + 8 + rd32 m.bytes (b + 4) * cw + 4 + rd32 m.bytes b) hcap
  generalize m.removeBytesNT c b (b + 8 + 4) (b + 8 + rd32 m.bytes (b + 4) * cw + 4 + rd32 m.bytes b) = x at *
  rcases x with ⟨⟨m1, r⟩, ev⟩
  cases r with
  | error e => exact h1
  | ok u => cases u; exact h1

/-- The list header at `b` describes a list that lies inside the data: what canonical bytes guarantee
(`ulistOk_of_focus`) and what `UnsizedList::remove_range`'s unchecked offset-table `memmove` relies on. -/
structure UlistOk (cw b : Nat) (bs : List Nat) : Prop where
  /-- the whole list (header, table, len copy, `unsized_size` data bytes) is inside the data -/
  inside : b + 8 + rd32 bs (b + 4) * cw + 4 + rd32 bs b ≤ bs.length
  /-- every stored offset is at most `unsized_size` -/
  offs : ∀ i, ulistOffset cw b i bs ≤ rd32 bs b

theorem memmove_length (bs : List Nat) (dst src n : Nat) (h : dst + n ≤ bs.length) :
    (memmove bs dst src n).length = bs.length := by
  unfold memmove wr rd
  simp only [List.length_append, List.length_take, List.length_drop]
  omega

theorem ulistRemoveRangeT_ok (c : Ctx) (cw b lo hi : Nat) (m : Mem) (hcap : m.bytes.length ≤ m.cap)
    (hu : UlistOk cw b m.bytes) :
    evsOk m.cap m.bytes.length (ulistRemoveRangeT c cw b lo hi m).2 = true := by
  unfold ulistRemoveRangeT
  simp only []
  split
  · exact ulistClearT_ok c cw b m hcap
  · split
    · rfl
    · rename_i hlo
      split
      · rfl
      · rename_i hhi
        simp only [Nat.not_lt] at hlo hhi
        have hso := hu.offs lo
        have hin := hu.inside
        have hm1 : lo * cw ≤ hi * cw := Nat.mul_le_mul_right cw hlo
        have hm2 : hi * cw ≤ rd32 m.bytes (b + 4) * cw := Nat.mul_le_mul_right cw hhi
        -- the table shift stays inside the data
        have hd : b + 8 + lo * cw + (b + 8 + rd32 m.bytes (b + 4) * cw + 4 + ulistOffset cw b lo m.bytes - (b + 8 + hi * cw))
            ≤ m.bytes.length := by omega
        have hs : b + 8 + hi * cw + (b + 8 + rd32 m.bytes (b + 4) * cw + 4 + ulistOffset cw b lo m.bytes - (b + 8 + hi * cw))
            ≤ m.bytes.length := by omega
        have hl := memmove_length m.bytes (b + 8 + lo * cw) (b + 8 + hi * cw)
          (b + 8 + rd32 m.bytes (b + 4) * cw + 4 + ulistOffset cw b lo m.bytes - (b + 8 + hi * cw)) hd
        generalize hbs : memmove m.bytes (b + 8 + lo * cw) (b + 8 + hi * cw)
          (b + 8 + rd32 m.bytes (b + 4) * cw + 4 + ulistOffset cw b lo m.bytes - (b + 8 + hi * cw)) = bs1 at *
        have h1 := removeBytesNT_evsOk ({ m with bytes := bs1 } : Mem) c b
          (b + 8 + rd32 m.bytes (b + 4) * cw + 4 + ulistOffset cw b lo m.bytes - cw * (hi - lo))
          (b + 8 + rd32 m.bytes (b + 4) * cw + 4 + ulistOffset cw b hi m.bytes) (by simp only [Mem.cap] at hcap ⊢; omega)
        simp only [Mem.cap] at h1
        rw [hl] at h1
        have hall : ∀ ev, evsOk m.cap m.bytes.length ev = true →
            evsOk m.cap m.bytes.length ([Ev.move (b + 8 + lo * cw) (b + 8 + hi * cw)
              (b + 8 + rd32 m.bytes (b + 4) * cw + 4 + ulistOffset cw b lo m.bytes - (b + 8 + hi * cw))] ++ ev) = true := by
          intro ev hev
          simp only [List.singleton_append, evsOk, hev, Bool.and_true, Bool.and_eq_true, decide_eq_true_eq]
          exact ⟨hd, hs⟩
        generalize Mem.removeBytesNT _ c b _ _ = x at *
        rcases x with ⟨⟨m1, r⟩, ev⟩
        cases r with
        | error e => exact hall ev h1
        | ok u =>
          cases u
          simp only []
          split <;> exact hall ev h1

theorem ulistPopT_ok (c : Ctx) (cw b : Nat) (m : Mem) (hcap : m.bytes.length ≤ m.cap) (hu : UlistOk cw b m.bytes) :
    evsOk m.cap m.bytes.length (ulistPopT c cw b m).2 = true := by
  unfold ulistPopT
  simp only []
  split
  · rfl
  · have h1 := ulistRemoveRangeT_ok c cw b (rd32 m.bytes (b + 4) - 1) (rd32 m.bytes (b + 4)) m hcap hu
    generalize ulistRemoveRangeT c cw b (rd32 m.bytes (b + 4) - 1) (rd32 m.bytes (b + 4)) m = x at *
    rcases x with ⟨⟨m1, r⟩, ev⟩
    cases r with
    | error e => exact h1
    | ok u => cases u; exact h1

theorem unitResT_snd (x : Traced Unit) : (unitResT x).2 = x.2 := by
  rcases x with ⟨⟨m1, r⟩, ev⟩
  cases r with
  | error e => rfl
  | ok u => cases u; rfl

theorem umapInsertT_ok (c : Ctx) (kw : Nat) (e : Shape) (b : Nat) (k : List Nat) (init : Init) (m : Mem)
    (hcap : m.bytes.length ≤ m.cap) :
    evsOk m.cap m.bytes.length (umapInsertT c kw e b k init m).2 = true := by
  unfold umapInsertT
  simp only []
  split
  · rename_i i _
    have h1 := setDataInnerT_ok { c with path := c.path ++ [.elem i] } e
      (b + 8 + rd32 m.bytes (b + 4) * Shape.entryW kw + 4 + rd32 m.bytes (b + 8 + i * Shape.entryW kw))
      (initBytes e init) (initFails e init) m hcap
    generalize setDataInnerT _ e _ _ _ m = x at *
    rcases x with ⟨⟨m1, r⟩, ev⟩
    cases r with
    | error e => exact h1
    | ok u => cases u; exact h1
  · rename_i i _
    have h1 := ulistInsertT_ok c (Shape.entryW kw) e b i 1 init k m
    generalize ulistInsertT c (Shape.entryW kw) e b i 1 init k m = x at *
    rcases x with ⟨⟨m1, r⟩, ev⟩
    cases r with
    | error e => exact h1
    | ok u => cases u; exact h1

/-! ## Every op -/

/-- `size_of::<C>()` of the offset entries if the node is an `UnsizedList`/`UnsizedMap`. -/
def ulistCw : Shape → Option Nat
  | .ulist _ => some 4
  | .umap kw _ => some (Shape.entryW kw)
  | _ => none

theorem listInsertAllT_ok (c : Ctx) (ew lw b idx : Nat) (items : List (List Nat)) (m : Mem) (len : Nat) :
    evsOk m.cap len (listInsertAllT c ew lw b idx items m).2 = true := (listInsertAllT_indep c ew lw b idx items m).1 len

theorem setInsertAllT_ok (c : Ctx) (ew lw b : Nat) (es : List (List Nat)) (n : Nat) (m : Mem) (len : Nat) :
    evsOk m.cap len (setInsertAllT c ew lw b es n m).2 = true := setInsertAllT_indep c ew lw b es n m len

theorem mapInsertAllT_ok (c : Ctx) (kw vw lw b : Nat) (kvs : List (List Nat × List Nat)) (n : Nat) (m : Mem)
    (len : Nat) : evsOk m.cap len (mapInsertAllT c kw vw lw b kvs n m).2 = true :=
  mapInsertAllT_indep c kw vw lw b kvs n m len

theorem sinsert_ok (c : Ctx) (e : Fixed) (lw b : Nat) (x : List Nat) (m : Mem) :
    evsOk m.cap m.bytes.length (applyAtT c (.set e lw) b (.sinsert x) m).2 = true := by
  simp only [applyAtT]
  split
  · have h1 := (setInsertT_indep c e.size lw b x m).1 m.bytes.length
    generalize setInsertT c e.size lw b x m = y at *
    rcases y with ⟨⟨m1, r⟩, ev⟩
    cases r <;> exact h1
  · rfl

theorem minsert_ok (c : Ctx) (kw : Nat) (v : Fixed) (lw b : Nat) (k x : List Nat) (m : Mem) :
    evsOk m.cap m.bytes.length (applyAtT c (.map kw v lw) b (.minsert k x) m).2 = true := by
  simp only [applyAtT]
  split
  · have h1 := (mapInsertT_indep c kw v.size lw b k x m).1 m.bytes.length
    generalize mapInsertT c kw v.size lw b k x m = y at *
    rcases y with ⟨⟨m1, r⟩, ev⟩
    cases r <;> exact h1
  · rfl

theorem umremove_ok (c : Ctx) (kw : Nat) (e : Shape) (b : Nat) (k : List Nat) (m : Mem)
    (hcap : m.bytes.length ≤ m.cap) (hu : UlistOk (Shape.entryW kw) b m.bytes) :
    evsOk m.cap m.bytes.length (applyAtT c (.umap kw e) b (.umremove k) m).2 = true := by
  simp only [applyAtT]
  split
  · split
    · rfl
    · rename_i i _
      have h1 := ulistRemoveRangeT_ok c (Shape.entryW kw) b i (i + 1) m hcap hu
      generalize ulistRemoveRangeT c (Shape.entryW kw) b i (i + 1) m = y at *
      rcases y with ⟨⟨m1, r⟩, ev⟩
      cases r with
      | error e => exact h1
      | ok u => cases u; exact h1
  · rfl

set_option linter.unusedSimpArgs false in
/-- **Every access of every op stays inside the data of that moment**, for any state whose data fits the
allocation and whose list header (when the op is called on an `UnsizedList`/`UnsizedMap`) is sane. -/
theorem applyAtT_evsOk (c : Ctx) (t : Shape) (b : Nat) (op : Op) (m : Mem) (hcap : m.bytes.length ≤ m.cap)
    (hu : ∀ cw, ulistCw t = some cw → UlistOk cw b m.bytes) :
    evsOk m.cap m.bytes.length (applyAtT c t b op m).2 = true := by
  cases op with
  | sinsert x =>
    cases t with
    | set e lw => exact sinsert_ok ..
    | _ => simp only [applyAtT, evsOk]
  | minsert k x =>
    cases t with
    | map kw v lw => exact minsert_ok ..
    | _ => simp only [applyAtT, evsOk]
  | umremove k =>
    cases t with
    | umap kw e => exact umremove_ok c kw e b k m hcap (hu _ rfl)
    | _ => simp only [applyAtT, evsOk]
  | _ =>
    cases t <;> simp only [applyAtT] <;> (try split) <;> (try simp only [unitResT_snd, listClearT]) <;> first
      | (simp only [evsOk]; done)
      | with_reducible exact setDataInnerT_ok _ _ _ _ _ _ hcap
      | with_reducible exact listInsertAllT_ok _ _ _ _ _ _ _ _
      | with_reducible exact setInsertAllT_ok _ _ _ _ _ _ _ _
      | with_reducible exact mapInsertAllT_ok _ _ _ _ _ _ _ _ _
      | with_reducible exact setRemoveT_ok _ _ _ _ _ _ hcap
      | with_reducible exact mapRemoveT_ok _ _ _ _ _ _ _ hcap
      | with_reducible exact strSetT_ok _ _ _ _ _ hcap
      | with_reducible exact ulistInsertT_ok _ _ _ _ _ _ _ _ _
      | with_reducible exact umapInsertT_ok _ _ _ _ _ _ _ hcap
      | with_reducible exact (listRemoveRangeT_ok _ _ _ _ _ _ _ hcap).1
      | with_reducible exact listPopT_ok _ _ _ _ _ hcap
      | with_reducible exact remSetLenT_ok _ _ _ _ hcap
      | with_reducible exact ulistRemoveRangeT_ok _ _ _ _ _ _ hcap (hu _ rfl)
      | with_reducible exact ulistPopT_ok _ _ _ _ hcap (hu _ rfl)
      | with_reducible exact ulistClearT_ok _ _ _ _ hcap

theorem applyOpT_evsOk_of (s : Shape) (abs : List Step) (op : Op) (m : Mem) (hcap : m.bytes.length ≤ m.cap)
    (hu : ∀ t b cw, locate s abs 0 m.bytes = .ok (t, b) → ulistCw t = some cw → UlistOk cw b m.bytes) :
    evsOk m.cap m.bytes.length (applyOpT s abs op m).2 = true := by
  unfold applyOpT
  cases h : locate s abs 0 m.bytes with
  | error e => rfl
  | ok tb =>
    obtain ⟨t, b⟩ := tb
    exact applyAtT_evsOk _ t b op m hcap (fun cw hc => hu t b cw h hc)

end Unsized.Machine
