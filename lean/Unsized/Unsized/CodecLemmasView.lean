import Unsized.CodecLemmasParse
/-!
# Every value a view walk exposes has valid bit patterns (`bitsOk`)
-/
namespace Unsized
open Common

theorem listParts_widths {ew lw : Nat} {bs : List Nat} {n : Nat} (h : extentList ew lw bs = .ok n) :
    ∃ es, listParts ew lw bs = .ok es ∧ ∀ x ∈ es, x.length = ew := by
  obtain ⟨h1, _, h3⟩ := extentList_ok h
  unfold listParts
  rw [rawSlice_of_le (by omega)]
  simp only [List.drop_zero]
  rw [rawSlice_of_le (by omega)]
  exact ⟨_, rfl, fun x hx => chunks_width ew _ _ (by simp; omega) x hx⟩

theorem ulistParts_keys {cw : Nat} {bs : List Nat} {n : Nat} (h : extentUlist cw bs = .ok n) :
    ∃ tbl data, ulistParts cw bs = .ok (tbl, data) ∧ ∀ p ∈ tbl, p.2.length = cw - 4 := by
  have h2 := extentUlist_ok h
  simp only at h2
  unfold ulistParts
  rw [rawSlice_of_le (by omega)]
  simp only [List.drop_zero]
  have e1 : ((bs.take 8).take 4) = bs.take 4 := by simp [List.take_take]
  have e2 : ((bs.take 8).drop 4) = (bs.drop 4).take 4 := by rw [List.drop_take]
  rw [e1, e2]
  rw [rawSlice_of_le (by omega)]
  simp only []
  rw [rawSlice_of_le (by omega)]
  refine ⟨_, _, rfl, ?_⟩
  intro p hp
  simp only [parseTable, List.mem_map] at hp
  obtain ⟨c, hc, rfl⟩ := hp
  have hw := chunks_width cw _ _ (by simp; rw [Nat.mul_comm]; omega) c hc
  simp [hw]

theorem elems_mem' {α : Type} (sl : Slicing) (bad : E) (stop : Bool)
    (fext : List Nat → Except E Nat) (body : List Nat → Except E α) (data : List Nat) :
    ∀ rs vs, elems sl bad stop fext body data rs = .ok vs →
      ∀ v ∈ vs, ∃ slice n, fext slice = .ok n ∧ body slice = .ok v := by
  intro rs
  induction rs with
  | nil => intro vs h v hv; simp [elems] at h; subst h; cases hv
  | cons r rs ih =>
    intro vs h v hv
    unfold elems at h
    cases hs : elemSlice sl data r with
    | none => rw [hs] at h; simp at h
    | some slice =>
      rw [hs] at h
      simp only [] at h
      cases hx : fext slice with
      | error e =>
        rw [hx] at h
        simp only [] at h
        cases stop <;> simp at h
        subst h; cases hv
      | ok n =>
        rw [hx] at h
        simp only [] at h
        cases hb : body slice with
        | error e => rw [hb] at h; simp at h
        | ok w =>
          rw [hb] at h
          simp only [] at h
          cases hr : elems sl bad stop fext body data rs with
          | error e => rw [hr] at h; simp at h
          | ok ws =>
            rw [hr] at h
            simp at h
            subst h
            cases hv with
            | head => exact ⟨slice, n, hx, hb⟩
            | tail _ hv => exact ih ws hr v hv

/-- What any view walk returns after a successful `get_ptr` has valid bit patterns. -/
def VV (s : Shape) : Prop :=
  ∀ m bs n, extent s bs = .ok n → ∀ v, view m s bs = .ok v → bitsOk s v = true

theorem vv_fields (fs : List Shape) (ih : ∀ f ∈ fs, VV f) :
    ∀ m bs n, extentFields fs bs = .ok n → ∀ vs, viewFields m fs bs = .ok vs →
      bitsOkFields fs vs = true := by
  induction fs with
  | nil => intro m bs n _ vs h; simp [viewFields] at h; subst h; rfl
  | cons f fs ihf =>
    intro m bs n h vs ho
    simp only [extentFields] at h
    cases hx : extent f bs with
    | error e => rw [hx] at h; simp at h
    | ok k =>
      rw [hx] at h
      simp only [] at h
      cases hy : extentFields fs (bs.drop k) with
      | error e => rw [hy] at h; simp at h
      | ok j =>
        simp only [viewFields, hx] at ho
        cases hq : view m f bs with
        | error e => rw [hq] at ho; simp at ho
        | ok v =>
          rw [hq] at ho
          simp only [] at ho
          cases hp : viewFields m fs (bs.drop k) with
          | error e => rw [hp] at ho; simp at ho
          | ok ws =>
            rw [hp] at ho
            simp at ho
            subst ho
            simp only [bitsOkFields, Bool.and_eq_true]
            exact ⟨ih f (by simp) m bs k hx v hq,
              ihf (fun g hg => ih g (by simp [hg])) m _ j hy ws hp⟩

theorem vv_variant (ps : List Shape) (ih : ∀ p ∈ ps, VV p) :
    ∀ m (ds : List Nat) (k r : Nat) (bs : List Nat) n,
      extentVariant ds ps r bs = .ok n → ∀ v, viewVariant m ds ps k r bs = .ok v →
      ∃ i p, v = .variant (k + i) p ∧ i < ds.length ∧ bitsOkVariant ps i p = true := by
  induction ps with
  | nil => intro m ds k r bs n h; cases ds <;> simp [extentVariant] at h
  | cons q qs ihp =>
    intro m ds k r bs n h v ho
    cases ds with
    | nil => simp [extentVariant] at h
    | cons d ds =>
      simp only [extentVariant] at h
      by_cases hrd : r = d
      · rw [if_pos hrd] at h
        simp only [viewVariant, if_pos hrd] at ho
        cases hq : view m q bs with
        | error e => rw [hq] at ho; simp at ho
        | ok w =>
          rw [hq] at ho
          simp at ho
          subst ho
          exact ⟨0, w, by simp, by simp, by simpa [bitsOkVariant] using ih q (by simp) m bs n h w hq⟩
      · rw [if_neg hrd] at h
        simp only [viewVariant, if_neg hrd] at ho
        obtain ⟨i, p, hv, hi, hval⟩ := ihp (fun g hg => ih g (by simp [hg])) m ds (k + 1) r bs n h v ho
        exact ⟨i + 1, p, by rw [hv]; congr 1; omega, by simp; omega, by simpa [bitsOkVariant] using hval⟩

theorem vv_all (s : Shape) : VV s := by
  induction s using Shape.induct' with
  | fixed f =>
    intro m bs n h v ho
    simp only [extent] at h
    have hk := extentFixed_ok h
    simp only [view, rawSlice_of_le (show 0 + f.size ≤ bs.length by omega), List.drop_zero] at ho
    simp at ho; subst ho
    have hl : (bs.take f.size).length = f.size := by simp; omega
    simp [bitsOk, hl, hk.2.2]
  | list e lw =>
    intro m bs n h v ho
    simp only [extent] at h
    obtain ⟨es, hes, hsp⟩ := listParts_widths h
    simp only [view, hes] at ho
    split at ho
    · rename_i hall
      simp at ho; subst ho
      simp only [List.all_eq_true] at hall
      simp only [bitsOk, List.all_eq_true, Bool.and_eq_true, beq_iff_eq]
      intro x hx; exact ⟨hsp x hx, hall x hx⟩
    · simp at ho
  | set e lw =>
    intro m bs n h v ho
    simp only [extent] at h
    obtain ⟨es, hes, hsp⟩ := listParts_widths h
    simp only [view, hes] at ho
    split at ho
    · rename_i hall
      simp at ho; subst ho
      simp only [List.all_eq_true] at hall
      simp only [bitsOk, List.all_eq_true, Bool.and_eq_true, beq_iff_eq]
      intro x hx; exact ⟨hsp x hx, hall x hx⟩
    · simp at ho
  | map kw val lw =>
    intro m bs n h v ho
    simp only [extent] at h
    obtain ⟨es, hes, hsp⟩ := listParts_widths h
    simp only [view, hes] at ho
    split at ho
    · rename_i hall
      simp at ho; subst ho
      simp only [List.all_eq_true] at hall
      simp only [bitsOk, List.all_eq_true, Bool.and_eq_true, beq_iff_eq]
      intro x hx; exact ⟨hsp x hx, hall x hx⟩
    · simp at ho
  | str lw =>
    intro m bs n h v ho
    simp only [extent] at h
    obtain ⟨es, hes, _⟩ := listParts_widths h
    simp only [view, hes] at ho
    split at ho
    · rename_i hutf
      simp at ho; subst ho
      simpa [bitsOk] using hutf
    · simp at ho
  | rem =>
    intro m bs n _ v ho
    simp [view] at ho; subst ho
    simp [bitsOk]
  | ulist e ih =>
    intro m bs n h v ho
    simp only [extent] at h
    obtain ⟨tbl, data, hp, _⟩ := ulistParts_keys h
    simp only [view, hp] at ho
    cases hq : elems (if m = .getMut then .suffix else .exact) (if m = .iter then .oob else .panic)
        (decide (m = .iter)) (extent e) (view m e) data (ranges (tbl.map (·.1)) data.length) with
    | error er => rw [hq] at ho; simp at ho
    | ok vs =>
      rw [hq] at ho; simp at ho; subst ho
      simp only [bitsOk, List.all_eq_true]
      intro w hw
      obtain ⟨slice, k, hse, hsb⟩ := elems_mem' _ _ _ _ _ data _ vs hq w hw
      exact ih m slice k hse w hsb
  | umap kw e ih =>
    intro m bs n h v ho
    simp only [extent] at h
    obtain ⟨tbl, data, hp, htbl⟩ := ulistParts_keys h
    simp only [view, hp] at ho
    cases hq : elems (if m = .getMut then .suffix else .exact) (if m = .iter then .oob else .panic)
        (decide (m = .iter)) (extent e) (view m e) data (ranges (tbl.map (·.1)) data.length) with
    | error er => rw [hq] at ho; simp at ho
    | ok vs =>
      rw [hq] at ho; simp at ho; subst ho
      simp only [bitsOk, List.all_eq_true, Bool.and_eq_true, beq_iff_eq]
      intro kv hkv
      obtain ⟨hk1, hv2⟩ := List.of_mem_zip (a := kv.1) (b := kv.2) (by simpa using hkv)
      simp only [List.mem_map] at hk1
      obtain ⟨p, hpm, hpe⟩ := hk1
      obtain ⟨slice, k, hse, hsb⟩ := elems_mem' _ _ _ _ _ data _ vs hq kv.2 hv2
      refine ⟨?_, ih m slice k hse kv.2 hsb⟩
      rw [← hpe]; simpa [Shape.entryW] using htbl p hpm
  | struct sized fs ih =>
    intro m bs n h v ho
    simp only [extent] at h
    have hkey : Fixed.sizeList sized ≤ bs.length
        ∧ Fixed.validList sized (bs.take (Fixed.sizeList sized)) = true
        ∧ ∃ j, extentFields fs (bs.drop (Fixed.sizeList sized)) = .ok j := by
      by_cases hemp : sized.isEmpty = true
      · rw [if_pos hemp] at h
        have : sized = [] := by simpa using hemp
        subst this
        exact ⟨by simp [Fixed.sizeList], by simp [Fixed.validList], n, by simpa [Fixed.sizeList] using h⟩
      · rw [if_neg hemp] at h
        cases hx : extentFixed (.record sized) bs with
        | error e => rw [hx] at h; simp at h
        | ok k =>
          rw [hx] at h
          have hk := extentFixed_ok hx
          simp only [Fixed.size, Fixed.valid] at hk
          simp only [] at h
          cases hy : extentFields fs (bs.drop k) with
          | error e => rw [hy] at h; simp at h
          | ok j => exact ⟨hk.2.1, hk.2.2, j, by rw [← hk.1]; exact hy⟩
    obtain ⟨hle, hval, j, hj⟩ := hkey
    simp only [view, rawSlice_of_le (show 0 + Fixed.sizeList sized ≤ bs.length by omega),
      List.drop_zero] at ho
    cases hq : viewFields m fs (bs.drop (Fixed.sizeList sized)) with
    | error er => rw [hq] at ho; simp at ho
    | ok vs =>
      rw [hq] at ho; simp at ho; subst ho
      have hl : (bs.take (Fixed.sizeList sized)).length = Fixed.sizeList sized := by simp; omega
      have hf := vv_fields fs ih m _ j hj vs hq
      simp [bitsOk, hl, hval, hf]
  | enum ds ps ih =>
    intro m bs n h v ho
    simp only [extent] at h
    cases bs with
    | nil => simp at h
    | cons r rest =>
      simp only [] at h
      cases hy : extentVariant ds ps r rest with
      | error e => rw [hy] at h; simp at h
      | ok k =>
        simp only [view] at ho
        obtain ⟨i, p, hv, hi, hval⟩ := vv_variant ps ih m ds 0 r rest k hy v ho
        subst hv
        simp [bitsOk, hi, hval]
  | unit =>
    intro m bs n _ v ho
    simp [view] at ho; subst ho; rfl
  | disc d inner ih =>
    intro m bs n h v ho
    simp only [extent] at h
    split at h
    · cases hy : extent inner (bs.drop d.length) with
      | error e => rw [hy] at h; simp at h
      | ok k =>
        simp only [view] at ho
        have := ih m _ k hy v ho
        cases v <;> simpa [bitsOk] using this
    · simp at h

end Unsized
