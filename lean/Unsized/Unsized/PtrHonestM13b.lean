import Unsized.PtrHonestM13
namespace Unsized.Ptr
open Common Unsized Unsized.Text Unsized.Machine Unsized.PtrT Unsized.PtrM

/-- `found` of `opAt` for an `UnsizedMap` node whose keys (as `binary_search` sees them) are `keys`. -/
def umapFound (keys : List Nat) (op : Op) : Option Found :=
  match op with
  | .uminsert k => some (search keys (rdLE k) 0)
  | .uminsertArr k _ => some (search keys (rdLE k) 0)
  | .umremove k => some (search keys (rdLE k) 0)
  | _ => none

theorem size_umap (kw : Nat) (e : Shape) (es : List (List Nat × Val)) :
    size (.umap kw e) (.umap es) = 12 + es.length * Shape.entryW kw + (es.map (fun kv => size e kv.2)).sum := by
  simp only [size]; omega

theorem umap_ins_facts (kw : Nat) (e : Shape) (es : List (List Nat × Val)) (k : List Nat) (x : Val) (j : Nat)
    (hb : ∀ y ∈ es.take j, rdLE y.1 < rdLE k) (ha : ∀ y ∈ es.drop j, rdLE k < rdLE y.1) :
    (insKV k x es).length = es.length + 1
    ∧ size (.umap kw e) (.umap es) ≤ size (.umap kw e) (.umap (insKV k x es)) := by
  rw [insKV_new k x es j hb ha]
  have hl : (Spec.insertAt es j [(k, x)]).length = es.length + 1 := by simp [Spec.insertAt]; omega
  refine ⟨hl, ?_⟩
  rw [size_umap, size_umap, hl, Nat.add_mul, sum_map_split (fun kv => size e kv.2) es j]
  simp [Spec.insertAt]; omega

/-- What the model says about the successful non-`set_data_inner` ops of an `UnsizedMap`, except `insert` on
an existing key (which resizes the ELEMENT): new length = what the method stores, and unless the call clears
the cached inner pointer first the map does not shrink. -/
theorem umap_spec_facts (kw : Nat) (e : Shape) (es : List (List Nat × Val)) (op : Op) (found : Option Found)
    (u' : Val) (r : Ret) (hs : strictKeys (es.map fun kv => rdLE kv.1) = true)
    (hfound : found = umapFound (es.map fun kv => rdLE kv.1) op)
    (hne : ∀ i, found ≠ some (.at i) ∨ (∃ k, op = .umremove k))
    (hn : setDataLen (.umap kw e) op = none) (hsp : Spec.applyNode (.umap kw e) (.umap es) op = .ok (u', r)) :
    ∃ es', u' = .umap es' ∧ es'.length = postLen (.umap kw e) op found es.length
      ∧ (preOf (.umap kw e) es.length found op = .checkClear
          ∨ size (.umap kw e) (.umap es) ≤ size (.umap kw e) (.umap es')) := by
  subst hfound
  cases op <;> simp only [setDataLen] at hn <;> try (cases hn)
  all_goals simp only [Spec.applyNode] at hsp
  case touch => cases hsp; exact ⟨es, rfl, rfl, Or.inr (Nat.le_refl _)⟩
  case uget i => cases hsp; exact ⟨es, rfl, rfl, Or.inr (Nat.le_refl _)⟩
  case utouch i => cases hsp; exact ⟨es, rfl, rfl, Or.inr (Nat.le_refl _)⟩
  case clear => cases hsp; exact ⟨[], rfl, by simp [postLen], Or.inl (by simp [preOf])⟩
  case uminsert k =>
    split at hsp
    · cases hsp
      rcases search_sorted (fun kv : List Nat × Val => rdLE kv.1) es (rdLE k) 0 hs with
        ⟨j, hj, hse, hkj, hb, ha⟩ | ⟨j, hj, hse, hb, ha⟩
      · simp only [Nat.zero_add] at hse
        rcases hne j with h | ⟨k', h⟩
        · simp [umapFound, hse] at h
        · cases h
      · simp only [Nat.zero_add] at hse
        obtain ⟨h1, h2⟩ := umap_ins_facts kw e es k (denote e .default) j hb ha
        exact ⟨_, rfl, by simp [umapFound, hse, postLen, h1], Or.inr h2⟩
    · cases hsp
  case uminsertArr k xs =>
    split at hsp
    · split at hsp
      · cases hsp
      · cases hsp
        rcases search_sorted (fun kv : List Nat × Val => rdLE kv.1) es (rdLE k) 0 hs with
          ⟨j, hj, hse, hkj, hb, ha⟩ | ⟨j, hj, hse, hb, ha⟩
        · simp only [Nat.zero_add] at hse
          rcases hne j with h | ⟨k', h⟩
          · simp [umapFound, hse] at h
          · cases h
        · simp only [Nat.zero_add] at hse
          obtain ⟨h1, h2⟩ := umap_ins_facts kw e es k (denote e (.array xs)) j hb ha
          exact ⟨_, rfl, by simp [umapFound, hse, postLen, h1], Or.inr h2⟩
    · cases hsp
  case umremove k =>
    split at hsp
    · cases hsp
      rcases search_sorted (fun kv : List Nat × Val => rdLE kv.1) es (rdLE k) 0 hs with
        ⟨j, hj, hse, hkj, hb, ha⟩ | ⟨j, hj, hse, hb, ha⟩
      · simp only [Nat.zero_add] at hse
        have hdel : Spec.delUKey (rdLE k) es = Spec.removeRange es j (j + 1) :=
          filter_ne_of_split _ es (rdLE k) j hj hkj hb ha
        refine ⟨_, rfl, ?_, Or.inl (by simp [umapFound, hse, preOf])⟩
        rw [hdel]; simp [umapFound, hse, postLen, Spec.removeRange]; omega
      · simp only [Nat.zero_add] at hse
        have hhas : Spec.hasUKey (rdLE k) es = false := any_false_of_split _ es (rdLE k) j hb ha
        have hdel : Spec.delUKey (rdLE k) es = es := by
          unfold Spec.delUKey
          apply List.filter_eq_self.2
          intro y hy
          have : ¬ rdLE y.1 = rdLE k := by
            intro heq
            have : (es.any fun y => rdLE y.1 == rdLE k) = true :=
              List.any_eq_true.2 ⟨y, hy, by simpa using heq⟩
            rw [Spec.hasUKey] at hhas; rw [hhas] at this; cases this
          simpa using this
        refine ⟨_, rfl, ?_, Or.inr ?_⟩
        · rw [hdel]; simp [umapFound, hse, postLen]
        · rw [hdel]; exact Nat.le_refl _
    · cases hsp
  all_goals cases hsp

theorem preOf_esd_at (kw : Nat) (e : Shape) (len : Nat) (found : Option Found) (op : Op) (i : Nat)
    (h : preOf (.umap kw e) len found op = .enterSetData i) : found = some (.at i) ∧ ∀ k, op ≠ .umremove k := by
  cases op <;> simp only [preOf] at h <;> try (cases h)
  all_goals first
    | (split at h <;> first | (cases h; done) | (cases h; exact ⟨rfl, by intro k hk; cases hk⟩))
    | (split at h <;> cases h)

theorem srcOf_ne_at (kw : Nat) (e : Shape) (off : Nat) (op : Op) (m : Mem)
    (hsrc : srcOf (.umap kw e) off op m = off) :
    ∀ i, umapFound (umapKeys kw off m.bytes) op ≠ some (.at i) ∨ ∃ k, op = .umremove k := by
  intro i
  cases op <;> first
    | exact Or.inr ⟨_, rfl⟩
    | (left; simp only [umapFound]; intro h; cases h; done)
    | (left
       simp only [srcOf] at hsrc
       simp only [umapFound]
       intro h
       simp only [Option.some.injEq] at h
       rw [h] at hsrc
       simp only [] at hsrc
       omega)

theorem opAt_hon_umap {w : World} {s : Shape} {v : Val} (c : PCtx w .A s v) (π : List Step) (kw : Nat) (e : Shape) (vs : List (List Nat × Val))
    (hres : resolve s v π = .ok (.umap kw e, .umap vs)) (T : PtrTree) (hp : HonPath s v w.a.base π w.a.root T)
    (hT : Hon (.umap kw e) (.umap vs) (w.a.base + offsetOf s v π) T) (op : Op) (hs : simpleOp op = true)
    (hsrc : srcOf (.umap kw e) (offsetOf s v π) op w.a.mem = offsetOf s v π)
    (hcmd : match Spec.applyNode (.umap kw e) (.umap vs) op with
      | .ok (u', _) => (plug s v π (encode (.umap kw e) u')).length ≤ w.a.mem.orig + maxIncrease
      | .error er => er ≠ .initFail) :
    StepRes w s v π (.umap kw e) (.umap vs) op (opAt w .A ⟨s, π⟩ (tpath s v π) (.umap kw e) op) := by
  have F : Focus s v π (.umap kw e) (.umap vs) w.a.mem := ⟨c.good, hres, c.bytes⟩
  have gt := F.sub
  obtain ⟨hsub, hrep⟩ := honPath_nav π s v _ _ _ _ T c.good hres hp
  have hle := offsetOf_le π s v _ _ c.good hres
  have hfit := c.calm.fitsNow
  have hbytes := c.bytes
  have hbig := c.big
  have hfar := c.far
  simp only [World.get] at hfit hbytes hbig hfar
  have hsu : size (.umap kw e) (.umap vs) = (encode (.umap kw e) (.umap vs)).length := (encode_size_all _ _ gt.valid).symm
  -- the form of the target pointer
  have hT0 := hT
  simp only [Hon] at hT0
  obtain ⟨inner, pmb, rfl, hin⟩ := hT0
  have key1 : ∀ pre, runPre w w.a.rng (.umap kw e) (.node [.ulist (Shape.entryW kw) (w.a.base + offsetOf s v π) vs.length (w.a.base + offsetOf s v π) (w.a.base + offsetOf s v π + size (.umap kw e) (.umap vs)) inner pmb]) pre ≠ none := by
    intro pre h
    obtain ⟨T1, h1, _⟩ := prologue_hon c π _ _ hres _ hT pre
    simp only [World.get] at h1; rw [h] at h1; cases h1
  have key2 : ∀ pre t1, runPre w w.a.rng (.umap kw e) (.node [.ulist (Shape.entryW kw) (w.a.base + offsetOf s v π) vs.length (w.a.base + offsetOf s v π) (w.a.base + offsetOf s v π + size (.umap kw e) (.umap vs)) inner pmb]) pre = some t1 →
      ∃ inner1 pmb1, t1 = .node [.ulist (Shape.entryW kw) (w.a.base + offsetOf s v π) vs.length (w.a.base + offsetOf s v π)
          (w.a.base + offsetOf s v π + size (.umap kw e) (.umap vs)) inner1 pmb1]
        ∧ (pre = .checkClear → inner1 = none)
        ∧ (inner1 = none ∨ ∃ J x b0, inner1 = some J ∧ Good e x ∧ w.a.base + offsetOf s v π + 12 ≤ b0
            ∧ b0 + size e x ≤ w.a.base + offsetOf s v π + size (.umap kw e) (.umap vs) ∧ Hon e x b0 J) := by
    intro pre t1 h
    obtain ⟨T1, h1, h2, _, h4⟩ := prologue_hon c π _ _ hres _ hT pre
    simp only [World.get] at h1 h2 h4; rw [h] at h1; cases h1
    simp only [Hon] at h2
    obtain ⟨inner1, pmb1, rfl, hin1⟩ := h2
    exact ⟨inner1, pmb1, rfl, fun hc => h4 hc _ _ _ _ _ _ _ rfl, hin1⟩
  unfold opAt
  simp only [World.get, hsub, startAddr]
  have hown : w.owner (w.a.base + offsetOf s v π) = some .A :=
    ownsOwn_A w _ (by simp [World.get, PBuf.owns, hbytes]; omega)
  have hb : w.a.base + offsetOf s v π - w.a.base = offsetOf s v π := by omega
  simp only [hown, World.get, hb, listOf, lenOf]
  have hrun := fun R1 t1 (h1 : HonPath s v w.a.base π R1 t1) (h2 : Hon (.umap kw e) (.umap vs) (w.a.base + offsetOf s v π) t1) =>
    run_op c π _ _ hres R1 t1 h1 h2 op hs hsrc hcmd
  simp only [RunOut, World.get] at hrun
  rcases htr : applyAtT ⟨s, π⟩ (.umap kw e) (offsetOf s v π) op w.a.mem with ⟨⟨m', res⟩, evs⟩
  rw [htr] at hrun
  simp only [] at hrun
  cases res with
  | ok r =>
    simp only []
    split
    · rename_i heq; exact absurd heq (key1 _)
    · rename_i t1 heq
      generalize hpre : preOf (Shape.umap kw e) _ _ op = pre at heq ⊢
      obtain ⟨inner1, pmb1, rfl, hcc, hin1⟩ := key2 _ _ heq
      have hT1 : Hon (.umap kw e) (.umap vs) (w.a.base + offsetOf s v π) (.node [.ulist (Shape.entryW kw) (w.a.base + offsetOf s v π) vs.length (w.a.base + offsetOf s v π) (w.a.base + offsetOf s v π + size (.umap kw e) (.umap vs)) inner1 pmb1]) := by
        simp only [Hon]; exact ⟨inner1, pmb1, rfl, hin1⟩
      obtain ⟨R1, hR1, hp1⟩ := hrep (.node [.ulist (Shape.entryW kw) (w.a.base + offsetOf s v π) vs.length (w.a.base + offsetOf s v π) (w.a.base + offsetOf s v π + size (.umap kw e) (.umap vs)) inner1 pmb1])
      simp only [hR1, Option.getD_some]
      rcases hrun R1 _ hp1 hT1 with ⟨e', _, h, _⟩ | ⟨u', r', m1, hspec, heq2, F', ho, hr, hcases⟩
      · cases h
      · cases heq2
        have g' := F'.good
        have hres' := resolve_subst π s v _ _ u' hres
        have hoff' := offsetOf_subst π s v _ _ u' c.good hres
        have htp' := tpath_subst π s v _ _ u' hres
        have hroom : (encode s (subst s v π u')).length ≤ w.a.mem.orig + maxIncrease := by
          rw [subst_encode π s v _ _ u' c.good hres]; rw [hspec] at hcmd; exact hcmd
        have hfresh := fresh_after s _ π _ u' g' hres' w { w.a with mem := m' } F'.bytes
        simp only [hoff'] at hfresh
        -- the list pointer after the events
        obtain ⟨root2, hrunE, hp2⟩ : ∃ root2, runEvs w w.a R1 evs = .ok root2
            ∧ HonPath s (subst s v π u') w.a.base π root2 (.node [.ulist (Shape.entryW kw) (w.a.base + offsetOf s v π) vs.length (w.a.base + offsetOf s v π) (w.a.base + offsetOf s v π + size (.umap kw e) u') inner1 pmb1])
            ∧ True := by
          rcases hcases with ⟨hsz, hre⟩ | ⟨neg, amt, snap, R2, T2, hre, hp2, hself, hsz, hng, hpos, hroom2⟩
          · refine ⟨R1, hre, ?_, trivial⟩
            rw [hsz]
            exact honPath_same π s v _ _ u' _ R1 _ c.good g' hres hsz hp1
          · refine ⟨R2, hre, ?_, trivial⟩
            have hw : wrapOff neg amt (w.a.base + offsetOf s v π + size (.umap kw e) (.umap vs))
                = w.a.base + offsetOf s v π + size (.umap kw e) u' := by
              rw [wrapOff_eq neg amt _ (fun hn => by have := hng hn; omega)
                (fun hn => by
                  have h1 := hroom2 hn
                  have hsv : size s v = (encode s v).length := (encode_size_all _ _ c.good.valid).symm
                  omega),
                appD_add' neg amt _ _ hng, hsz]
            have : T2 = .node [.ulist (Shape.entryW kw) (w.a.base + offsetOf s v π) vs.length (w.a.base + offsetOf s v π)
                (w.a.base + offsetOf s v π + size (.umap kw e) u') inner1 pmb1] := by
              cases inner1 <;> simp only [resizeNotify, notifyL, Nat.lt_irrefl, if_false, if_true, Option.some.injEq] at hself <;>
                rw [← hself, hw]
            rw [← this]; exact hp2
        obtain ⟨hp2, _⟩ := hp2
        obtain ⟨hsub2, hrep2⟩ := honPath_nav π s _ _ u' _ _ _ g' hres' hp2
        rw [htp'] at hsub2 hrep2
        simp only [hrunE, if_true, hsub2, onList, setLen, startAddr, listOf, elemShape]
        cases hsd : setDataLen (.umap kw e) op with
        | none =>
          simp only []
          generalize hpl : postLen (Shape.umap kw e) op _ vs.length = pl
          have hkeys := umapKeys_enc F c.calm.lt
          obtain ⟨fd, hfd, hpre', hpl'⟩ : ∃ fd, fd = umapFound (vs.map fun kv => rdLE kv.1) op
              ∧ preOf (.umap kw e) vs.length fd op = pre ∧ postLen (.umap kw e) op fd vs.length = pl :=
            ⟨_, (by cases op <;> first | rfl | (rw [← hkeys]; rfl)), hpre, hpl⟩
          have hne := srcOf_ne_at kw e (offsetOf s v π) op w.a.mem hsrc
          rw [hkeys, ← hfd] at hne
          split
          · exfalso
            obtain ⟨h1, h2⟩ := preOf_esd_at kw e vs.length fd op _ hpre'
            rcases hne _ with h | ⟨k, h⟩
            · exact h h1
            · exact h2 k h
          obtain ⟨vs', rfl, hlen', hgrow⟩ := umap_spec_facts kw e vs op fd u' r (good_umap_keys gt).2 hfd hne hsd hspec
          obtain ⟨R3, hR3, hp3⟩ := hrep2 (.node [.ulist (Shape.entryW kw) (w.a.base + offsetOf s v π) vs'.length (w.a.base + offsetOf s v π) (w.a.base + offsetOf s v π + size (.umap kw e) (.umap vs')) inner1 pmb1])
          rw [← hpl', ← hlen']
          simp only [hR3, Option.getD_some, StepRes]
          refine ⟨subst s v π (.umap vs'), .umap vs', (.node [.ulist (Shape.entryW kw) (w.a.base + offsetOf s v π) vs'.length (w.a.base + offsetOf s v π) (w.a.base + offsetOf s v π + size (.umap kw e) (.umap vs')) inner1 pmb1]), ?_, hres', ?_, ?_, rfl, rfl, ?_, rfl, rfl, rfl,
            Or.inl ⟨r, hspec, rfl, rfl⟩⟩
          · exact pctx_after c m' R3 g' F'.bytes ho hr hroom
          · simpa [World.set, World.get] using hp3
          · simp only [World.set, World.get, hoff', Hon]
            refine ⟨inner1, pmb1, rfl, ?_⟩
            rcases hin1 with h | ⟨J, x, b0, h, gx, a1, a2, a3⟩
            · exact Or.inl h
            · rcases hgrow with hq | hq
              · have := hcc (by rw [← hpre']; exact hq); rw [this] at h; cases h
              · exact Or.inr ⟨J, x, b0, h, gx, a1, by omega, a3⟩
          · simpa [World.set, World.get] using ho
        | some n =>
          have hn := setDataLen_spec _ _ u' op r n hsd hspec
          subst hn
          simp only [hfresh]
          obtain ⟨R3, hR3, hp3⟩ := hrep2 (treeOf (.umap kw e) u' (w.a.base + offsetOf s v π))
          simp only [hR3, Option.getD_some, StepRes]
          refine ⟨subst s v π u', u', treeOf (.umap kw e) u' (w.a.base + offsetOf s v π), ?_, hres', ?_, ?_, rfl, rfl, ?_, rfl, rfl, rfl, Or.inl ⟨r, hspec, rfl, rfl⟩⟩
          · exact pctx_after c m' R3 g' F'.bytes ho hr hroom
          · simpa [World.set, World.get] using hp3
          · simp only [World.set, World.get, hoff']; exact hon_treeOf _ u' _
          · simpa [World.set, World.get] using ho
  | error er =>
    cases er
    case bad => simp only [StepRes]
    all_goals (
      simp only []
      split
      · rename_i heq; exact absurd heq (key1 _)
      · rename_i t1 heq
        obtain ⟨inner1, pmb1, rfl, hcc, hin1⟩ := key2 _ _ heq
        have hT1 : Hon (.umap kw e) (.umap vs) (w.a.base + offsetOf s v π) (.node [.ulist (Shape.entryW kw) (w.a.base + offsetOf s v π) vs.length (w.a.base + offsetOf s v π) (w.a.base + offsetOf s v π + size (.umap kw e) (.umap vs)) inner1 pmb1]) := by
          simp only [Hon]; exact ⟨inner1, pmb1, rfl, hin1⟩
        obtain ⟨R1, hR1, hp1⟩ := hrep (.node [.ulist (Shape.entryW kw) (w.a.base + offsetOf s v π) vs.length (w.a.base + offsetOf s v π) (w.a.base + offsetOf s v π + size (.umap kw e) (.umap vs)) inner1 pmb1])
        simp only [hR1, Option.getD_some]
        rcases hrun R1 _ hp1 hT1 with ⟨e', hspec, h, hre⟩ | ⟨u', r', m1, hspec, heq2, _⟩
        · cases h
          simp only [hre, Bool.false_eq_true, if_false, StepRes]
          refine ⟨v, .umap vs, (.node [.ulist (Shape.entryW kw) (w.a.base + offsetOf s v π) vs.length (w.a.base + offsetOf s v π) (w.a.base + offsetOf s v π + size (.umap kw e) (.umap vs)) inner1 pmb1]), ?_, hres, ?_, ?_, rfl, rfl, rfl, rfl, rfl, rfl, Or.inr (Or.inl ⟨_, hspec, rfl, rfl, rfl⟩)⟩
          · exact pctx_after c w.a.mem R1 c.good hbytes rfl rfl (by rw [← hbytes]; exact hfit)
          · simpa [World.set, World.get] using hp1
          · simpa [World.set, World.get] using hT1
        · cases heq2)



/-- `insert` of a key the map does not hold resizes the map itself (source = the map). -/
theorem srcOf_of_nokey {s : Shape} {v : Val} {π : List Step} {kw : Nat} {e : Shape} {es : List (List Nat × Val)} {m : Mem}
    (F : Focus s v π (.umap kw e) (.umap es) m) (c : Calm m) (op : Op)
    (h : ∀ k, (op = .uminsert k ∨ ∃ xs, op = .uminsertArr k xs) → Spec.hasUKey (rdLE k) es = false) :
    srcOf (.umap kw e) (offsetOf s v π) op m = offsetOf s v π := by
  have hkeys := umapKeys_enc F c.lt
  have hs := (good_umap_keys F.sub).2
  have key : ∀ k, Spec.hasUKey (rdLE k) es = false →
      ∃ j, search (umapKeys kw (offsetOf s v π) m.bytes) (rdLE k) 0 = .ins j := by
    intro k hk
    rw [hkeys]
    rcases search_sorted (fun kv : List Nat × Val => rdLE kv.1) es (rdLE k) 0 hs with
      ⟨j, hj, hse, hkj, hb, ha⟩ | ⟨j, hj, hse, hb, ha⟩
    · have := hasUKey_at (rdLE k) es j hj hkj; rw [hk] at this; cases this
    · exact ⟨0 + j, hse⟩
  cases op <;> simp only [srcOf]
  · rename_i k
    obtain ⟨j, hj⟩ := key k (h k (Or.inl rfl))
    rw [hj]
  · rename_i k xs
    obtain ⟨j, hj⟩ := key k (h k (Or.inr ⟨xs, rfl⟩))
    rw [hj]

end Unsized.Ptr
