import Unsized.Codec
/-!
# Basic lemmas for the codec model

* induction principles `Fixed.induct'`, `Shape.induct'` (the nested `List` occurrences turned into
  `∀ x ∈ xs, P x` hypotheses);
* `chunks` / `flatten` / `offsets` / `rawSlice` arithmetic;
* sorted-insertion facts for `fromEntries` / `fromKVs`.
-/
namespace Unsized
open Common

theorem Fixed.induct' {P : Fixed → Prop} (pod : ∀ n, P (.pod n)) (bool : P .bool)
    (cenum : ∀ k, P (.cenum k)) (record : ∀ fs, (∀ f ∈ fs, P f) → P (.record fs))
    (podd : ∀ d, P (.podd d)) (f : Fixed) : P f :=
  Fixed.rec (motive_1 := P) (motive_2 := fun fs => ∀ f ∈ fs, P f)
    pod bool cenum (fun fs ih => record fs ih) podd
    (by intro f h; cases h)
    (fun hd tl ih1 ih2 f h => by
      cases h with
      | head => exact ih1
      | tail _ h => exact ih2 f h) f

theorem Shape.induct' {P : Shape → Prop}
    (fixed : ∀ f, P (.fixed f)) (list : ∀ e lw, P (.list e lw)) (set : ∀ e lw, P (.set e lw))
    (map : ∀ kw v lw, P (.map kw v lw)) (str : ∀ lw, P (.str lw)) (rem : P .rem)
    (ulist : ∀ e, P e → P (.ulist e)) (umap : ∀ kw e, P e → P (.umap kw e))
    (struct : ∀ sized fs, (∀ f ∈ fs, P f) → P (.struct sized fs))
    (enum : ∀ ds ps, (∀ p ∈ ps, P p) → P (.enum ds ps))
    (unit : P .unit) (disc : ∀ d inner, P inner → P (.disc d inner)) (s : Shape) : P s :=
  Shape.rec (motive_1 := P) (motive_2 := fun fs => ∀ f ∈ fs, P f)
    fixed list set map str rem (fun e ih => ulist e ih) (fun kw e ih => umap kw e ih)
    (fun sized fs ih => struct sized fs ih) (fun ds ps ih => enum ds ps ih) unit
    (fun d inner ih => disc d inner ih)
    (by intro f h; cases h)
    (fun hd tl ih1 ih2 f h => by
      cases h with
      | head => exact ih1
      | tail _ h => exact ih2 f h) s

/-! ## chunks -/

@[simp] theorem chunks_length (w k : Nat) (l : List Nat) : (chunks w k l).length = k := by
  induction k generalizing l with
  | zero => rfl
  | succ k ih => simp [chunks, ih]

theorem chunks_flatten (ew : Nat) (es : List (List Nat)) (rest : List Nat)
    (h : ∀ e ∈ es, e.length = ew) : chunks ew es.length (es.flatten ++ rest) = es := by
  induction es with
  | nil => simp [chunks]
  | cons e es ih =>
    have he : e.length = ew := h e (by simp)
    simp only [List.length_cons, chunks, List.flatten_cons, List.append_assoc]
    rw [List.take_left' he, List.drop_left' he]
    rw [ih (fun x hx => h x (by simp [hx]))]

theorem flatten_length (ew : Nat) (es : List (List Nat)) (h : ∀ e ∈ es, e.length = ew) :
    es.flatten.length = ew * es.length := by
  induction es with
  | nil => simp
  | cons e es ih =>
    simp only [List.flatten_cons, List.length_append, List.length_cons]
    rw [h e (by simp), ih (fun x hx => h x (by simp [hx]))]
    rw [Nat.mul_succ]; omega

theorem chunks_width (w k : Nat) (l : List Nat) (h : w * k ≤ l.length) :
    ∀ c ∈ chunks w k l, c.length = w := by
  induction k generalizing l with
  | zero => intro c hc; simp [chunks] at hc
  | succ k ih =>
    intro c hc
    simp only [chunks, List.mem_cons] at hc
    rw [Nat.mul_succ] at h
    cases hc with
    | inl hc => subst hc; simp; omega
    | inr hc => exact ih (l.drop w) (by simp; omega) c hc

theorem chunks_wf (w k : Nat) (l : List Nat) (h : BytesWF l) : ∀ c ∈ chunks w k l, BytesWF c := by
  induction k generalizing l with
  | zero => intro c hc; simp [chunks] at hc
  | succ k ih =>
    intro c hc
    simp only [chunks, List.mem_cons] at hc
    cases hc with
    | inl hc => subst hc; exact BytesWF_take _ h
    | inr hc => exact ih (l.drop w) (BytesWF_drop _ h) c hc

theorem chunks_one (l rest : List Nat) : chunks 1 l.length (l ++ rest) = l.map (fun b => [b]) := by
  induction l with
  | nil => simp [chunks]
  | cons b bs ih => simp [chunks, ih]

theorem flatten_singletons (l : List Nat) : (l.map (fun b => [b])).flatten = l := by
  induction l with
  | nil => rfl
  | cons b bs ih => simp [ih]

/-! ## rawSlice -/

theorem rawSlice_ok {bs : List Nat} {off n : Nat} {x : List Nat} (h : rawSlice bs off n = .ok x) :
    off + n ≤ bs.length ∧ x = (bs.drop off).take n := by
  unfold rawSlice at h
  split at h
  · simp at h; exact ⟨by assumption, h.symm⟩
  · simp at h

theorem rawSlice_of_le {bs : List Nat} {off n : Nat} (h : off + n ≤ bs.length) :
    rawSlice bs off n = .ok ((bs.drop off).take n) := by
  simp [rawSlice, h]

theorem rawSlice_ne_ub_of_le {bs : List Nat} {off n : Nat} (h : off + n ≤ bs.length) :
    rawSlice bs off n ≠ .error .ub := by
  simp [rawSlice, h]

/-- A raw slice that covers exactly a known middle part. -/
theorem rawSlice_mid (a b c : List Nat) : rawSlice (a ++ b ++ c) a.length b.length = .ok b := by
  simp [rawSlice]

theorem rawSlice_zero_left (b c : List Nat) : rawSlice (b ++ c) 0 b.length = .ok b := by
  simp [rawSlice]

/-! ## offsets -/

@[simp] theorem offsets_length (ss : List Nat) (acc : Nat) : (offsets ss acc).length = ss.length := by
  induction ss generalizing acc with
  | nil => rfl
  | cons s ss ih => simp [offsets, ih]

theorem offsets_le (ss : List Nat) (acc : Nat) : ∀ o ∈ offsets ss acc, o ≤ acc + ss.sum := by
  induction ss generalizing acc with
  | nil => intro o h; simp [offsets] at h
  | cons s ss ih =>
    intro o h
    simp only [offsets, List.mem_cons] at h
    cases h with
    | inl h => subst h; simp
    | inr h => have := ih (acc + s) o h; simp; omega

end Unsized
