import Unsized.PtrHonestM16
namespace Unsized.Ptr
open Common Unsized Unsized.Text Unsized.Machine Unsized.PtrT Unsized.PtrM

/-- A shape that is well-formed below the top level is a well-formed top-level shape, and is not the
`AccountDiscriminant` wrapper. -/
theorem ok_of_inner (s : Shape) (h : Shape.okAux false false s = true) :
    s.ok = true ∧ ∀ d i, s ≠ .disc d i := by
  refine ⟨?_, not_disc_of_ok s false h⟩
  cases s <;> simp_all [Shape.ok, Shape.okAux]

/-- **The top-level `AccountDiscriminant<T>` wrapper (`Shape.disc d inner`).** In the real code
(`account_set/account.rs` 161–216) `AccountDiscriminant<T>` has `Ptr = T::Ptr`; its `get_ptr` advances past the
discriminant and returns `T::get_ptr`, and `start_ptr` / `data_len` / `resize_notification` ARE `T`'s. So the
pointer object of such an account whose data sits at address `a` is the pointer object of the payload `T` at
address `a + |d|`, and every accessor and op on it is `T`'s. This theorem is that reduction for the model:
the canonical bytes are `d ++ encode inner v`, `get_ptr` of the wrapper returns the payload's fresh tree at
`a + |d|`, being honest for the wrapper at `a` IS being honest for the payload at `a + |d|`, and the initial state
of the pointer machine for the payload there satisfies the invariant `PInv` — so `ptrs_fresh_step` /
`ptrs_fresh_history` / `checkTop_passes` apply to the account through its payload (`PCtx.nd` only excludes
running the machine ON the wrapper shape, where neither machine has an accessor step). The allocation range of
the payload machine `[a + |d|, a + |d| + orig + 10240]` has the wrapper's upper end and a tighter lower end, so
`checkTop = true` there implies the wrapper's `check_pointers`. -/
theorem pinv_init_disc (d : List Nat) (inner : Shape) (v : Val) (a : Nat) (B : PBuf)
    (hok : (Shape.disc d inner).ok = true) (hwf : WF (.disc d inner) v = true)
    (hsmall : (encode inner v).length + maxIncrease < Shape.u32Lim)
    (haddr : AddrOk (a + d.length) (encode inner v).length) :
    encode (.disc d inner) v = d ++ encode inner v
    ∧ getPtr (.disc d inner) (encode (.disc d inner) v) a
        = .ok (treeOf inner v (a + d.length), size inner v + d.length)
    ∧ (∀ R, Hon (.disc d inner) v a R ↔ Hon inner v (a + d.length) R)
    ∧ PInv inner ⟨⟨⟨encode inner v, (encode inner v).length, 0, []⟩, a + d.length,
        treeOf inner v (a + d.length), [[]], false, false⟩, B⟩ v := by
  have hwf' := hwf
  simp only [WF, Bool.and_eq_true] at hwf'
  have g : Good (.disc d inner) v := ⟨⟨true, false, hok⟩, hwf'.1, hwf'.2⟩
  have hin : Shape.okAux false false inner = true := by
    simp only [Shape.ok, Shape.okAux, Bool.and_eq_true] at hok; exact hok.2
  obtain ⟨hoki, hndi⟩ := ok_of_inner inner hin
  refine ⟨by simp [encode], ?_, fun R => by simp [Hon], ?_⟩
  · have h := getPtr_encode (.disc d inner) v [] a g (Or.inl rfl)
    simpa [treeOf, size] using h
  · exact pinv_init inner v (a + d.length) B hoki hndi
      (by simpa [WF, valid, fits] using hwf) hsmall haddr.1 haddr.2

end Unsized.Ptr
