import Unsized.AccessStoreNotify
import Unsized.AccessLemmasFrame
import Unsized.MachineNodeUmap
/-!
# Every store of every op is inside the data of that moment — on canonical buffers (`Focus`)

Built on the byte machine's refinement lemmas (`grow_at`, `shrink_plug`, `Focus`, the `*_step` lemmas of
`MachineNode*.lean`): they say what the notification returns, the length argument of
`AccessStoreNotify.lean` then bounds its stores; the op's own stores are bounded by the node-local layout.
-/
namespace Unsized.Machine
open Common Unsized Unsized.Text

/-- What one traced call did to the data length, and that all its accesses were in bounds.
`L` = data length afterwards. -/
structure StepOk {α : Type} (m : Mem) (x : TracedS α) (L : Nat) : Prop where
  ok : evsOkS m.cap m.bytes.length x.2 = true
  lenAfter : lenAfter m.bytes.length (rawOf x.2) = L
  maxl : maxLen m.bytes.length (rawOf x.2) = max m.bytes.length L
  len : x.1.1.bytes.length = L
  orig : x.1.1.orig = m.orig
  cap : L ≤ m.cap

theorem maxLen_append (a b : List Ev) : ∀ len, maxLen len (a ++ b) = max (maxLen len a) (maxLen (lenAfter len a) b) := by
  induction a with
  | nil => intro len; simp [maxLen, lenAfter]; exact (Nat.max_eq_right (maxLen_ge b len)).symm
  | cons e es ih =>
    intro len
    cases e with
    | realloc o n ok => simp only [List.cons_append, maxLen, lenAfter, ih]; omega
    | call => simpa [maxLen, lenAfter] using ih len
    | move d s n => simpa [maxLen, lenAfter] using ih len
    | notify s n a b => simpa [maxLen, lenAfter] using ih len

theorem lenAfter_le_maxLen (evs : List Ev) : ∀ len, lenAfter len evs ≤ maxLen len evs := by
  induction evs with
  | nil => intro len; exact Nat.le_refl _
  | cons e es ih =>
    intro len
    cases e with
    | realloc o n ok => simp only [maxLen, lenAfter]; have := ih (if ok = true then n else len); omega
    | call => exact ih len
    | move d s n => exact ih len
    | notify s n a b => exact ih len

/-- Appending the notification marker and its stores changes neither the final nor the largest length. -/
theorem lens_notify (len : Nat) (evs : List Ev) (s : Nat) (n : Bool) (a : Nat) (bs : List Nat)
    (sv : List EvS) (hsv : rawOf sv = []) :
    lenAfter len (rawOf (liftEvs evs ++ .raw (.notify s n a bs) :: sv)) = lenAfter len evs ∧
    maxLen len (rawOf (liftEvs evs ++ .raw (.notify s n a bs) :: sv)) = maxLen len evs := by
  simp only [rawOf_append, rawOf_lift, rawOf_raw, hsv, maxLen_append, lenAfter_append, maxLen, lenAfter]
  exact ⟨trivial, Nat.max_eq_left (lenAfter_le_maxLen evs len)⟩

/-- Lengths announced by the events of `add_bytes`. -/
theorem addBytesEvs_lens (m : Mem) (start amount : Nat) :
    (∀ m1, m.addBytes start amount = (m1, .ok ()) →
      lenAfter m.bytes.length (addBytesEvs m start amount) = m.bytes.length + amount ∧
      maxLen m.bytes.length (addBytesEvs m start amount) = m.bytes.length + amount) ∧
    (∀ m1 e, m.addBytes start amount = (m1, .error e) →
      lenAfter m.bytes.length (addBytesEvs m start amount) = m.bytes.length ∧
      maxLen m.bytes.length (addBytesEvs m start amount) = m.bytes.length ∧ m1.bytes = m.bytes) := by
  by_cases h1 : m.bytes.length < start
  · constructor
    · intro m1 h; simp [Mem.addBytes, h1] at h
    · intro m1 e h
      simp only [Mem.addBytes, h1, ↓reduceIte, Prod.mk.injEq] at h
      obtain ⟨rfl, _⟩ := h
      simp [addBytesEvs, h1, lenAfter, maxLen]
  by_cases h2 : amount = 0
  · constructor
    · intro m1 h; simp [addBytesEvs, h1, h2, lenAfter, maxLen]
    · intro m1 e h; simp [Mem.addBytes, h1, h2] at h
  by_cases h3 : m.grows + 1 ∈ m.refuse
  · constructor
    · intro m1 h; simp [Mem.addBytes, h1, h2, h3] at h
    · intro m1 e h
      simp only [Mem.addBytes, h1, h2, h3, ↓reduceIte, Prod.mk.injEq] at h
      obtain ⟨rfl, _⟩ := h
      simp [addBytesEvs, h1, h2, h3, lenAfter, maxLen]
  by_cases h4 : m.orig + maxIncrease < m.bytes.length + amount
  · constructor
    · intro m1 h; simp [Mem.addBytes, h1, h2, h3, h4] at h
    · intro m1 e h
      simp only [Mem.addBytes, h1, h2, h3, h4, ↓reduceIte, Prod.mk.injEq] at h
      obtain ⟨rfl, _⟩ := h
      simp [addBytesEvs, h1, h2, h3, h4, lenAfter, maxLen]
  constructor
  · intro m1 h
    simp only [addBytesEvs, h1, h2, h3, h4, or_self, ↓reduceIte]
    split <;> simp [lenAfter, maxLen]
  · intro m1 e h; simp [Mem.addBytes, h1, h2, h3, h4] at h

theorem addBytes_ok_room (m m1 : Mem) (start amount : Nat) (h : m.addBytes start amount = (m1, .ok ()))
    (ha : amount ≠ 0) : Room m amount ∧ m1.bytes = addBytesRaw m.bytes start amount := by
  by_cases h1 : m.bytes.length < start
  · simp [Mem.addBytes, h1] at h
  by_cases h3 : m.grows + 1 ∈ m.refuse
  · simp [Mem.addBytes, h1, ha, h3] at h
  by_cases h4 : m.orig + maxIncrease < m.bytes.length + amount
  · simp [Mem.addBytes, h1, ha, h3, h4] at h
  simp only [Mem.addBytes, h1, ha, h3, h4, ↓reduceIte, Prod.mk.injEq, and_true] at h
  subst h
  exact ⟨⟨h3, by omega⟩, rfl⟩

/-- Lengths announced by the events of `remove_bytes`. -/
theorem removeBytesEvs_lens (m : Mem) (start stop : Nat) :
    (∀ m1, m.removeBytes start stop = (m1, .ok ()) →
      lenAfter m.bytes.length (removeBytesEvs m start stop) = m.bytes.length - (stop - start) ∧
      maxLen m.bytes.length (removeBytesEvs m start stop) = m.bytes.length ∧
      m1.bytes.length = m.bytes.length - (stop - start) ∧ m1.orig = m.orig) := by
  intro m1 h
  by_cases h1 : m.bytes.length < start
  · simp [Mem.removeBytes, h1] at h
  by_cases h2 : stop < start
  · simp [Mem.removeBytes, h1, h2] at h
  by_cases h3 : m.bytes.length < stop
  · simp [Mem.removeBytes, h1, h2, h3] at h
  by_cases h4 : stop = start
  · subst h4
    simp only [Mem.removeBytes, h1, h3, Nat.lt_irrefl, ↓reduceIte, Prod.mk.injEq, and_true] at h
    subst h
    simp [removeBytesEvs, h1, lenAfter, maxLen]
  · simp only [Mem.removeBytes, h1, h2, h3, h4, ↓reduceIte, Prod.mk.injEq, and_true] at h
    subst h
    simp only [removeBytesEvs, h1, h2, h3, h4, ↓reduceIte]
    split <;> simp [lenAfter, maxLen, removeBytesRaw] <;> omega

/-- The sub-value at `p` lies inside the data. -/
theorem Focus.inside {s v p t u m} (F : Focus s v p t u m) :
    offsetOf s v p + (encode t u).length ≤ m.bytes.length := by
  obtain ⟨A, C, hA, henc, _⟩ := encode_split p s v t u F.good F.res
  rw [F.bytes, henc]; simp only [List.length_append]; omega

/-- **`add_bytes` through the accessor at `p` of a canonical buffer**, `k` bytes into the node. -/
theorem addBytesNS_focus {s v p t u m} (F : Focus s v p t u m) (k amt : Nat) (hk : k ≤ (encode t u).length)
    (hcap : m.bytes.length ≤ m.cap) (hsmall : m.cap < Shape.u32Lim) :
    (∃ m1 ev, m.addBytesNS ⟨s, p⟩ (offsetOf s v p) (offsetOf s v p + k) amt = ((m1, .ok ()), ev) ∧
      StepOk m (((m1, .ok ()), ev) : TracedS Unit) (m.bytes.length + amt)) ∨
    (∃ m1 e ev, m.addBytesNS ⟨s, p⟩ (offsetOf s v p) (offsetOf s v p + k) amt = ((m1, .error e), ev) ∧
      StepOk m (((m1, .error e), ev) : TracedS Unit) m.bytes.length ∧ m1.bytes = m.bytes) := by
  have hind := addBytesEvs_indep m (offsetOf s v p + k) amt
  have hlens := addBytesEvs_lens m (offsetOf s v p + k) amt
  have horig := addBytes_orig m (offsetOf s v p + k) amt
  unfold Mem.addBytesNS Mem.addBytesT
  rcases hadd : m.addBytes (offsetOf s v p + k) amt with ⟨m1, r⟩
  rw [hadd] at horig
  simp only [] at horig
  cases r with
  | error e =>
    obtain ⟨h1, h2, h3⟩ := hlens.2 m1 e hadd
    right
    refine ⟨m1, e, _, rfl, ⟨?_, ?_, ?_, ?_, horig, hcap⟩, h3⟩
    · rw [evsOkS_lift]; exact hind _
    · simpa using h1
    · simpa using h2
    · simp only []; rw [h3]
  | ok uu =>
    cases uu
    obtain ⟨h1, h2⟩ := hlens.1 m1 hadd
    obtain ⟨hs, hl1, _, hcapn, _⟩ := addBytes_ok m m1 _ _ hadd
    left
    by_cases h0 : amt = 0
    · subst h0
      simp only [↓reduceIte]
      refine ⟨m1, _, rfl, ⟨?_, ?_, ?_, ?_, horig, by simpa using hcap⟩⟩
      · rw [evsOkS_lift]; exact hind _
      · simpa using h1
      · simpa using h2
      · simpa using hl1
    · simp only [h0, ↓reduceIte]
      obtain ⟨hroom, hraw⟩ := addBytes_ok_room m m1 _ _ hadd h0
      have hc := hcapn h0
      obtain ⟨G, _, hG, hN⟩ := grow_at p s v t u F.good F.res m F.bytes k amt hk (by omega) hroom
        (by rw [← F.bytes]; simp only [Mem.cap] at hc hsmall ⊢; omega)
      unfold Mem.addBytesN at hN
      rw [hadd] at hN
      simp only [h0, ↓reduceIte] at hN
      have hspec := notifyS_spec p s 0 (offsetOf s v p) false amt m1.bytes
      cases hn : notify s p 0 (offsetOf s v p) false amt m1.bytes with
      | error e => rw [hn] at hN; simp at hN
      | ok bs =>
        rw [hn] at hN
        simp only [Prod.mk.injEq, and_true] at hN
        have hbs : bs = plug s v p ((encode t u).take k ++ G ++ (encode t u).drop k) := by
          have := congrArg Mem.bytes hN; simpa using this
        have hlen : bs.length = m1.bytes.length := by
          have hp := plug_length p s v t u F.good F.res ((encode t u).take k ++ G ++ (encode t u).drop k)
          have hX : ((encode t u).take k ++ G ++ (encode t u).drop k).length = (encode t u).length + amt := by
            simp only [List.length_append, List.length_take, List.length_drop, hG]; omega
          rw [hbs, hl1, F.bytes]; omega
        rw [hn] at hspec
        have hb := notifyS_in_bounds m.cap s p 0 (offsetOf s v p) false amt m1.bytes bs hspec.1 hlen
        generalize notifyS s p 0 (offsetOf s v p) false amt m1.bytes = y at *
        rcases y with ⟨r2, sv⟩
        simp only [] at hspec hb
        obtain ⟨hr2, _⟩ := hspec
        subst hr2
        simp only []
        obtain ⟨hl, hm⟩ := lens_notify m.bytes.length (addBytesEvs m (offsetOf s v p + k) amt)
          (offsetOf s v p) false amt m1.bytes sv hb.2
        refine ⟨_, _, rfl, ⟨?_, ?_, ?_, ?_, horig, hc⟩⟩
        · rw [evsOkS_append, evsOkS_lift, hind _, rawOf_lift, h1]
          simp only [Bool.true_and, evsOkS]
          rw [← hl1]; exact hb.1
        · rw [hl]; exact h1
        · rw [hm, h2]; omega
        · simp only []; rw [hlen, hl1]

/-- **`remove_bytes` through the accessor at `p`**, inside a node whose bytes `X0` may already have been
touched (the offset-table shift of `UnsizedList::remove_range` precedes it); the rest is canonical. -/
theorem removeBytesNS_plug {s v p t u} (g : Good s v) (h : resolve s v p = .ok (t, u)) (m : Mem) (X0 : List Nat)
    (hX0 : X0.length = (encode t u).length) (hm : m.bytes = plug s v p X0) (k1 k2 : Nat) (hk : k1 ≤ k2)
    (hk2 : k2 ≤ X0.length) (hcap : m.bytes.length ≤ m.cap) :
    ∃ m1 ev, m.removeBytesNS ⟨s, p⟩ (offsetOf s v p) (offsetOf s v p + k1) (offsetOf s v p + k2) = ((m1, .ok ()), ev) ∧
      StepOk m (((m1, .ok ()), ev) : TracedS Unit) (m.bytes.length - (k2 - k1)) ∧
      m1.bytes = plug s v p (X0.take k1 ++ X0.drop k2) ∧ m1.refuse = m.refuse ∧ m1.grows = m.grows := by
  obtain ⟨mN, hN, hNb, hNo, hNr, hNg⟩ := shrink_plug g h m X0 hX0 hm k1 k2 hk hk2
  have hev := removeBytesEvs_ok m (offsetOf s v p + k1) (offsetOf s v p + k2) hcap
  have hlens := removeBytesEvs_lens m (offsetOf s v p + k1) (offsetOf s v p + k2)
  unfold Mem.removeBytesN at hN
  unfold Mem.removeBytesNS Mem.removeBytesT
  rcases hrem : m.removeBytes (offsetOf s v p + k1) (offsetOf s v p + k2) with ⟨m0, r⟩
  rw [hrem] at hN
  cases r with
  | error e => simp at hN
  | ok uu =>
    cases uu
    obtain ⟨h1, h2, h3, h4⟩ := hlens m0 hrem
    have hd : offsetOf s v p + k2 - (offsetOf s v p + k1) = k2 - k1 := by omega
    rw [hd] at h1 h3
    simp only [] at hN ⊢
    by_cases h0 : offsetOf s v p + k2 = offsetOf s v p + k1
    · have hk12 : k1 = k2 := by omega
      subst hk12
      simp only [↓reduceIte, Prod.mk.injEq, and_true] at hN
      simp only [↓reduceIte]
      subst hN
      refine ⟨_, _, rfl, ⟨?_, ?_, ?_, ?_, h4, by omega⟩, hNb, hNr, hNg⟩
      · rw [evsOkS_lift]; exact hev
      · simp only [rawOf_lift]; exact h1
      · simp only [rawOf_lift]; rw [h2]; omega
      · exact h3
    · simp only [h0, ↓reduceIte] at hN ⊢
      rw [hd] at hN ⊢
      have hspec := notifyS_spec p s 0 (offsetOf s v p) true (k2 - k1) m0.bytes
      cases hn : notify s p 0 (offsetOf s v p) true (k2 - k1) m0.bytes with
      | error e => rw [hn] at hN; simp at hN
      | ok bs =>
        rw [hn] at hN
        simp only [Prod.mk.injEq, and_true] at hN
        have hbs : bs = plug s v p (X0.take k1 ++ X0.drop k2) := by
          have := congrArg Mem.bytes hN; simp only [] at this; rw [this, hNb]
        have hlen : bs.length = m0.bytes.length := by
          have hp := plug_length p s v t u g h (X0.take k1 ++ X0.drop k2)
          have hp0 := plug_length p s v t u g h X0
          have hX : (X0.take k1 ++ X0.drop k2).length = X0.length - (k2 - k1) := by
            simp only [List.length_append, List.length_take, List.length_drop]; omega
          rw [hbs, h3, hm]; omega
        rw [hn] at hspec
        have hb := notifyS_in_bounds m.cap s p 0 (offsetOf s v p) true (k2 - k1) m0.bytes bs hspec.1 hlen
        generalize notifyS s p 0 (offsetOf s v p) true (k2 - k1) m0.bytes = y at *
        rcases y with ⟨r2, sv⟩
        simp only [] at hspec hb
        obtain ⟨hr2, _⟩ := hspec
        subst hr2
        simp only []
        obtain ⟨hl, hmx⟩ := lens_notify m.bytes.length (removeBytesEvs m (offsetOf s v p + k1) (offsetOf s v p + k2))
          (offsetOf s v p) true (k2 - k1) m0.bytes sv hb.2
        refine ⟨_, _, rfl, ⟨?_, ?_, ?_, ?_, h4, by omega⟩, hbs, ?_, ?_⟩
        · rw [evsOkS_append, evsOkS_lift, hev, rawOf_lift, h1]
          simp only [Bool.true_and, evsOkS]
          rw [← h3]; exact hb.1
        · rw [hl]; exact h1
        · rw [hmx, h2]; omega
        · simp only []; rw [hlen, h3]
        · have := congrArg Mem.refuse hN; simp only [] at this; rw [this, hNr]
        · have := congrArg Mem.grows hN; simp only [] at this; rw [this, hNg]

/-- The same on canonical bytes. -/
theorem removeBytesNS_focus {s v p t u m} (F : Focus s v p t u m) (k1 k2 : Nat) (hk : k1 ≤ k2)
    (hk2 : k2 ≤ (encode t u).length) (hcap : m.bytes.length ≤ m.cap) :
    ∃ m1 ev, m.removeBytesNS ⟨s, p⟩ (offsetOf s v p) (offsetOf s v p + k1) (offsetOf s v p + k2) = ((m1, .ok ()), ev) ∧
      StepOk m (((m1, .ok ()), ev) : TracedS Unit) (m.bytes.length - (k2 - k1)) :=
  let ⟨m1, ev, h1, h2, _⟩ := removeBytesNS_plug F.good F.res m (encode t u) rfl
    (by rw [F.bytes, plug_self p s v t u F.good F.res]) k1 k2 hk hk2 hcap
  ⟨m1, ev, h1, h2⟩

end Unsized.Machine
