import Unsized.PtrTree
import Unsized.Access
import Unsized.MachineRun
/-!
# The pointer-level machine of C03: buffers with their live pointer trees, in one address space

`PBuf` = one buffer with its top wrapper: the byte machine's `Mem`, the absolute address of the data,
the top pointer object (`ExclusiveTopDrop.top_mut`) and the live accessor levels. A `World` holds two
such buffers (`A`, `B`; a plain case only uses `A`). Pointer objects carry absolute addresses, so a
pointer swapped into the other buffer's tree still designates the memory it was derived from.

Per op line the machine
1. takes the accessor chain (`walk`: `f<i>` = field of the pointer struct, `v` = the variant stored in
   the pointer object, `e<i>` = `index_exclusive` / `get_mut`: `check_inner_initialized`, a FRESH
   `get_ptr` of the element, `inner_exclusive := Some(fresh)`, `possible_mut_borrow := true`);
2. applies the pointer-level prologue of the call (`check_inner_initialized`, flag / cache updates of the
   `UnsizedList` methods; the unconditional `check_pointers` of `set_data_inner`, `wrapper.rs` 693–699);
3. runs the byte machine's traced op (`applyAtT`) on the buffer the target pointer points INTO and walks
   its events: `call` = the `debug_assert!(check_pointers)` of the top wrapper, `notify` =
   `Top::resize_notification` on the top pointer object (`resizeNotify`);
4. applies the epilogue (list length metadata, the pointer replaced by a fresh `get_ptr` after
   `set_data_inner`).

A failed check is a `panic` (the buffer's borrow is over); `end`/`reborrow` run `ExclusiveTopDrop::drop`.
-/
namespace Unsized.PtrM
open Common Unsized Unsized.Text Unsized.Machine Unsized.PtrT

inductive Which where
  | A
  | B
  deriving DecidableEq, Repr, Inhabited

structure PBuf where
  mem : Mem
  /-- absolute address of `data[0]` -/
  base : Nat
  /-- `top_mut` -/
  root : PtrTree
  /-- absolute shape-paths of the live accessors, outermost first (`[]` = the top wrapper) -/
  levels : List (List Step)
  /-- the exclusive borrow is over (ended or panicked) -/
  finished : Bool
  /-- known finding "initialiser failed behind the resize": the bytes are no encoding any more -/
  dead : Bool
  deriving Repr, Inhabited

/-- `ExclusiveTopDrop.range`: the allocation. -/
def PBuf.rng (x : PBuf) : Rng := ⟨x.base, x.base + x.mem.orig + maxIncrease⟩
def PBuf.cur (x : PBuf) : List Step := x.levels.getLastD []

structure World where
  a : PBuf
  b : PBuf
  deriving Repr, Inhabited

def World.get (w : World) : Which → PBuf
  | .A => w.a
  | .B => w.b
def World.set (w : World) (x : Which) (p : PBuf) : World :=
  match x with
  | .A => { w with a := p }
  | .B => { w with b := p }

/-- Does the address designate data of this buffer (the end address included: an empty tail). -/
def PBuf.owns (x : PBuf) (addr : Nat) : Bool := decide (x.base ≤ addr) && decide (addr ≤ x.base + x.mem.bytes.length)
def World.owner (w : World) (addr : Nat) : Option Which :=
  if w.a.owns addr then some .A else if w.b.owns addr then some .B else none
/-- `n` bytes at an absolute address (cut at the end of that buffer's data; nothing outside). -/
def World.read (w : World) (addr n : Nat) : List Nat :=
  match w.owner addr with
  | some x => (((w.get x).mem.bytes.drop (addr - (w.get x).base)).take n)
  | none => []
def World.rd32 (w : World) (addr : Nat) : Nat := rdLE (w.read addr 4)

/-! ## Navigation -/

/-- Index of unsized field `i` among the children of a struct pointer (the `…Sized` part, if any, is
child 0). -/
def kidIdx (sized : List Fixed) (i : Nat) : Nat := if sized.isEmpty then i else i + 1

/-- The sub-pointer of a live level (no side effects): follow fields, the CACHED `inner_exclusive`,
the stored variant. -/
def locTree : Shape → PtrTree → List Step → Option (List TStep × Shape × PtrTree)
  | sh, t, [] => some ([], sh, t)
  | .struct sized fs, .node ks, .field i :: p =>
    match fs[i]?, ks[kidIdx sized i]? with
    | some f, some k =>
      match locTree f k p with
      | some (tp, s, t) => some (.kid (kidIdx sized i) :: tp, s, t)
      | none => none
    | _, _ => none
  | .ulist e, .ulist _ _ _ _ _ (some t) _, .elem _ :: p =>
    match locTree e t p with
    | some (tp, s, t) => some (.inner :: tp, s, t)
    | none => none
  | .umap _ e, .node [.ulist _ _ _ _ _ (some t) _], .elem _ :: p =>
    match locTree e t p with
    | some (tp, s, t) => some (.kid 0 :: .inner :: tp, s, t)
    | none => none
  | .enum _ ps, .start _ idx (some t), .payload :: p =>
    match ps[idx]? with
    | some sh =>
      match locTree sh t p with
      | some (tp, s, t) => some (.payload :: tp, s, t)
      | none => none
    | none => none
  | _, _, _ => none

inductive WalkOut where
  | ok (tp : List TStep) (sh : Shape)
  /-- inapplicable step -/
  | bad
  /-- `index_exclusive` out of range: `Err(IndexOutOfBounds)` -/
  | ioob
  /-- a `get_ptr` on the way failed -/
  | perr
  /-- `check_inner_initialized` failed -/
  | panic
  deriving Repr, Inhabited

def WalkOut.pre (st : List TStep) : WalkOut → WalkOut
  | .ok tp sh => .ok (st ++ tp) sh
  | o => o

inductive EnterOut where
  | ok (fresh : PtrTree)
  | oob
  | perr
  | panic
  | bad

/-- `index_exclusive(i)` / `get_exclusive(&key_i)` / `get_mut(i)` on the list pointer `L`
(`unsized_list.rs` 421–438, 677–716): range check on the pointer's length metadata, then
`check_inner_initialized`, then a fresh `get_ptr` on `unsized_bytes[start..]`. -/
def listEnter (w : World) (e : Shape) (L : PtrTree) (i : Nat) : EnterOut :=
  match L with
  | .ulist cw a len _ _ _ _ =>
    if len ≤ i then .oob
    else if !checkInnerInitialized L then .panic
    else
      let start := w.rd32 (a + 8 + i * cw)
      let usz := w.rd32 a
      let udata := a + 8 + len * cw + 4
      match getPtr e (w.read (udata + start) (usz - start)) (udata + start) with
      | .error _ => .perr
      | .ok (fresh, _) => .ok fresh
  | _ => .bad

def setInner : PtrTree → PtrTree → PtrTree
  | .ulist cw a len lo hi _ _, fresh => .ulist cw a len lo hi (some fresh) true
  | t, _ => t

/-- Take the accessor chain `p` from the pointer `t` of shape `sh`, with its side effects on
`inner_exclusive` / `possible_mut_borrow`. Returns the updated pointer and where the chain ended.
`swapNav`: the navigation of a `swap` line (`get_mut`: out of range is inapplicable). -/
def walk (w : World) (swapNav : Bool) : Shape → PtrTree → List Step → PtrTree × WalkOut
  | sh, t, [] => (t, .ok [] sh)
  | .struct sized fs, .node ks, .field i :: p =>
    match fs[i]?, ks[kidIdx sized i]? with
    | some f, some k =>
      match walk w swapNav f k p with
      | (k', o) => (.node (ks.set (kidIdx sized i) k'), o.pre [.kid (kidIdx sized i)])
    | _, _ => (.node ks, .bad)
  | .ulist e, L, .elem i :: p =>
    match listEnter w e L i with
    | .oob => (L, if swapNav then .bad else .ioob)
    | .panic => (L, .panic)
    | .perr => (L, if swapNav then .bad else .perr)
    | .bad => (L, .bad)
    | .ok fresh =>
      match walk w swapNav e fresh p with
      | (fresh', o) => (setInner L fresh', o.pre [.inner])
  | .umap kw e, .node [L], .elem i :: p =>
    match listEnter w e L i with
    | .oob => (.node [L], .bad)
    | .panic => (.node [L], .panic)
    | .perr => (.node [L], if swapNav then .bad else .perr)
    | .bad => (.node [L], .bad)
    | .ok fresh =>
      match walk w swapNav e fresh p with
      | (fresh', o) => (.node [setInner L fresh'], o.pre [.kid 0, .inner])
  | .enum ds ps, .start a idx (some k), .payload :: p =>
    match ps[idx]? with
    | some sh =>
      match walk w swapNav sh k p with
      | (k', o) => (.start a idx (some k'), o.pre [.payload])
    | none => (.start a idx (some k), .bad)
  | _, t, _ => (t, .bad)

/-- `UnsizedType::start_ptr` of a pointer object. -/
def startAddr : PtrTree → Option Nat
  | .leaf _ a => some a
  | .ulist _ a _ _ _ _ _ => some a
  | .start a _ _ => some a
  | .node (k :: _) =>
    match k with
    | .leaf _ a => some a
    | .ulist _ a _ _ _ _ _ => some a
    | .start a _ _ => some a
    | .node (.leaf _ a :: _) => some a
    | .node (.ulist _ a _ _ _ _ _ :: _) => some a
    | .node (.start a _ _ :: _) => some a
    | _ => none
  | .node [] => none

/-! ## Pointer-level prologue / epilogue of the calls -/

/-- Apply `f` to the `UnsizedListPtr` of an `UnsizedList` / `UnsizedMap` pointer. -/
def onList (sh : Shape) (t : PtrTree) (f : PtrTree → PtrTree) : PtrTree :=
  match sh, t with
  | .ulist _, L => f L
  | .umap _ _, .node [L] => .node [f L]
  | _, t => t

def listOf (sh : Shape) (t : PtrTree) : Option PtrTree :=
  match sh, t with
  | .ulist _, L => some L
  | .umap _ _, .node [L] => some L
  | _, _ => none

def setFlags (pmb : Bool) (clearInner : Bool) : PtrTree → PtrTree
  | .ulist cw a len lo hi inner _ => .ulist cw a len lo hi (if clearInner then none else inner) pmb
  | t => t

def setLen (f : Nat → Nat) : PtrTree → PtrTree
  | .ulist cw a len lo hi inner pmb => .ulist cw a (f len) lo hi inner pmb
  | t => t

def lenOf : PtrTree → Nat
  | .ulist _ _ len _ _ _ _ => len
  | _ => 0

/-- What the call does to the pointer object BEFORE it touches the top wrapper. -/
inductive Pre where
  /-- nothing at pointer level -/
  | none
  /-- `check_inner_initialized(); possible_mut_borrow := false` (`insert_all_with_offsets`, `get`) -/
  | check
  /-- … and `inner_exclusive := None` (`remove_range`, `clear`) -/
  | checkClear
  /-- `get_mut(i)` / `index_exclusive(i)`: check, fresh inner, flag true -/
  | enter (i : Nat)
  /-- `set_data_inner`: `assert!(check_pointers(self, top_range, top_range.start))` -/
  | setData
  /-- `UnsizedMap::insert` on an existing key at position `i`: `index_exclusive(i)` then `set_from_init` -/
  | enterSetData (i : Nat)
  deriving Repr, Inhabited

/-- The prologue class of `op` on a node of shape `sh` whose list pointer (if any) has `len` entries;
`found` = result of the key search of the `UnsizedMap` methods. -/
def preOf (sh : Shape) (len : Nat) (found : Option Found) : Op → Pre
  | .replace _ => .setData
  | .reset => .setData
  | .setVariant _ => .setData
  | .uinsert _ _ => match sh with | .ulist _ => .check | _ => .none
  | .uinsertArr _ _ => match sh with | .ulist _ => .check | _ => .none
  | .remove _ => match sh with | .ulist _ => .checkClear | _ => .none
  | .removeRange _ _ => match sh with | .ulist _ => .checkClear | _ => .none
  | .pop => match sh with | .ulist _ => (if len = 0 then .none else .checkClear) | _ => .none
  | .clear => match sh with | .ulist _ => .checkClear | .umap _ _ => .checkClear | _ => .none
  | .uget i => match sh with
    | .ulist _ => if i < len then .check else .none
    | .umap _ _ => if i < len then .check else .none
    | _ => .none
  | .utouch i => match sh with
    | .ulist _ => if i < len then .enter i else .none
    | .umap _ _ => if i < len then .enter i else .none
    | _ => .none
  | .uminsert _ => match sh, found with
    | .umap _ _, some (.at i) => .enterSetData i
    | .umap _ _, some (.ins _) => .check
    | _, _ => .none
  | .uminsertArr _ _ => match sh, found with
    | .umap _ _, some (.at i) => .enterSetData i
    | .umap _ _, some (.ins _) => .check
    | _, _ => .none
  | .umremove _ => match sh, found with
    | .umap _ _, some (.at _) => .checkClear
    | _, _ => .none
  | _ => .none

/-- The element shape of a list shape. -/
def elemShape : Shape → Option Shape
  | .ulist e => some e
  | .umap _ e => some e
  | _ => none

/-- Outcome of the prologue: the updated target pointer, or a panic. -/
def runPre (w : World) (rng : Rng) (sh : Shape) (t : PtrTree) : Pre → Option PtrTree
  | .none => some t
  | .check =>
    match listOf sh t with
    | some L => if checkInnerInitialized L then some (onList sh t (setFlags false false)) else none
    | none => some t
  | .checkClear =>
    match listOf sh t with
    | some L => if checkInnerInitialized L then some (onList sh t (setFlags false true)) else none
    | none => some t
  | .enter i =>
    match listOf sh t, elemShape sh with
    | some L, some e =>
      match listEnter w e L i with
      | .ok fresh => some (onList sh t (fun L => setInner L fresh))
      | .panic => none
      | _ => some t
    | _, _ => some t
  | .setData => if (checkPointers rng t rng.lo).1 then some t else none
  | .enterSetData i =>
    match listOf sh t, elemShape sh with
    | some L, some e =>
      match listEnter w e L i with
      | .ok fresh =>
        if (checkPointers rng fresh rng.lo).1 then some (onList sh t (fun L => setInner L fresh)) else none
      | .panic => none
      | _ => some t
    | _, _ => some t

/-- The `unsized_size` field read through a list pointer at absolute address `a`, in the snapshot
`bytes` of the buffer at `base` (outside of it: the other buffer as it is now). -/
def uszIn (w : World) (base : Nat) (bytes : List Nat) (a : Nat) : Nat :=
  if base ≤ a ∧ a + 4 ≤ base + bytes.length then rd32 bytes (a - base) else w.rd32 a

inductive EvOut where
  | ok (root : PtrTree)
  | panic

/-- Walk the events of a call made through buffer `x`'s wrappers: `call` = the `debug_assert!` of the top
wrapper, `notify` = the broadcast on `x`'s top pointer object. -/
def runEvs (w : World) (x : PBuf) : PtrTree → List Ev → EvOut
  | root, [] => .ok root
  | root, .call :: es => if checkTop x.rng root then runEvs w x root es else .panic
  | root, .notify src neg amt bytes :: es =>
    match resizeNotify (uszIn w x.base bytes) (x.base + src) neg amt root with
    | some root' => runEvs w x root' es
    | none => runEvs w x root es
  | root, _ :: es => runEvs w x root es

/-- The bytes after the moves that precede the first `call` (what has already happened when the
`debug_assert!` of the top wrapper panics). -/
def movesBeforeCall : List Nat → List Ev → List Nat
  | bs, [] => bs
  | bs, .call :: _ => bs
  | bs, .move d s n :: es => movesBeforeCall (memmove bs d s n) es
  | bs, _ :: es => movesBeforeCall bs es

/-- New length metadata of the list pointer after a successful call. -/
def postLen (sh : Shape) (op : Op) (found : Option Found) (len : Nat) : Nat :=
  match sh, op with
  | .ulist _, .uinsert _ n => len + n
  | .ulist _, .uinsertArr _ _ => len + 1
  | .ulist _, .remove _ => len - 1
  | .ulist _, .removeRange lo hi => len - (hi - lo)
  | .ulist _, .pop => len - 1
  | .ulist _, .clear => 0
  | .umap _ _, .clear => 0
  | .umap _ _, .uminsert _ => match found with | some (.ins _) => len + 1 | _ => len
  | .umap _ _, .uminsertArr _ _ => match found with | some (.ins _) => len + 1 | _ => len
  | .umap _ _, .umremove _ => match found with | some (.at _) => len - 1 | _ => len
  | _, _ => len

/-- Length of the bytes `set_data_inner` writes for this op (the slice the new pointer is parsed from). -/
def setDataLen (sh : Shape) : Op → Option Nat
  | .replace v => some (encode sh v).length
  | .reset => some (initBytes sh .default).length
  | .setVariant idx => some (initBytes sh (.variant idx .default)).length
  | _ => none

/-! ## One op on the pointer at tree path `tp` of buffer `x` -/

inductive OpOut where
  /-- inapplicable: nothing happened at the target -/
  | bad
  | panic
  /-- the call returned (`res` = the byte machine's result) -/
  | done (res : Except Err Ret) (evs : List Ev)
  deriving Inhabited

/-- Perform `op` through buffer `x`'s accessor whose pointer is the subtree at `tp` (shape `sh`).
`c` = the byte machine's context (top shape and the accessor's shape-path, for the notification). -/
def opAt (w : World) (x : Which) (c : Ctx) (tp : List TStep) (sh : Shape) (op : Op) : World × OpOut :=
  let X := w.get x
  match subtreeAt X.root tp with
  | none => (w, .bad)
  | some t =>
    match startAddr t with
    | none => (w, .bad)
    | some a =>
      match w.owner a with
      | none => (w, .done (.error .parse) [])
      | some y =>
        let Y := w.get y
        let b := a - Y.base
        -- the byte machine's verdict on the memory the pointer designates
        match applyAtT c sh b op Y.mem with
        | ((_, .error .bad), _) => (w, .bad)
        | ((m', res), evs) =>
          let L := listOf sh t
          let len := match L with | some L => lenOf L | none => 0
          let found : Option Found := match sh, op with
            | .umap kw _, .uminsert k => some (search (umapKeys kw b Y.mem.bytes) (rdLE k) 0)
            | .umap kw _, .uminsertArr k _ => some (search (umapKeys kw b Y.mem.bytes) (rdLE k) 0)
            | .umap kw _, .umremove k => some (search (umapKeys kw b Y.mem.bytes) (rdLE k) 0)
            | _, _ => none
          match runPre w X.rng sh t (preOf sh len found op) with
          | none => (w.set x { X with finished := true }, .panic)
          | some t1 =>
            let root1 := (replaceAt X.root tp t1).getD X.root
            match runEvs w X root1 evs with
            | .panic =>
              -- what preceded the failing `debug_assert!` stays done
              let w1 := w.set y { Y with mem := { Y.mem with bytes := movesBeforeCall Y.mem.bytes evs } }
              let X1 := w1.get x
              (w1.set x { X1 with root := root1, finished := true }, .panic)
            | .ok root2 =>
              -- epilogue
              let w2 := w.set y { Y with mem := m' }
              let ok := match res with | .ok _ => true | .error _ => false
              let root3 :=
                if ok then
                  match subtreeAt root2 tp with
                  | none => root2
                  | some t2 =>
                    let t3 := onList sh t2 (setLen fun l => postLen sh op found l)
                    let t4 :=
                      match setDataLen sh op, startAddr t3 with
                      | some n, some a' =>
                        match getPtr sh (w2.read a' n) a' with
                        | .ok (fresh, _) => fresh
                        | .error _ => t3
                      | _, _ =>
                        -- `UnsizedMap::insert` on an existing key: the element pointer is replaced
                        match preOf sh len found op, listOf sh t3, elemShape sh with
                        | .enterSetData _, some (.ulist _ _ _ _ _ (some el) _), some e =>
                          match startAddr el with
                          | some ea =>
                            match getPtr e (w2.read ea (initSize e (match op with
                                | .uminsertArr _ xs => .array xs | _ => .default))) ea with
                            | .ok (fresh, _) => onList sh t3 (fun L => setInner L fresh)
                            | .error _ => t3
                          | none => t3
                        | _, _, _ => t3
                    (replaceAt root2 tp t4).getD root2
                else root2
              let X2 := w2.get x
              (w2.set x { X2 with root := root3 }, .done res evs)

/-- `X end`: drop every accessor; the top one runs `ExclusiveTopDrop::drop` (`false` = it panics). -/
def endBuf (w : World) (x : Which) : World × Bool :=
  let X := w.get x
  (w.set x { X with finished := true }, checkTop X.rng X.root)

/-! ## One line on one buffer (what the C03 driver executes; `Driver/C03.lean` only parses and prints) -/

inductive Ans where
  | bad
  | panic
  | panicDrop
  /-- a call that returned -/
  | res (r : Except Err Ret) (evs : List Ev)
  deriving Inhabited

/-- The live pointer of the innermost level. -/
def curPtr (s : Shape) (X : PBuf) : Option (List TStep × Shape × PtrTree) := locTree s X.root X.cur

/-- `leave`: drop the innermost accessor. -/
def execLeave (w : World) (x : Which) : World × Ans :=
  let X := w.get x
  if X.levels.length ≤ 1 then (w, .bad)
  else (w.set x { X with levels := X.levels.dropLast }, .res (.ok .unit) [])

/-- `reborrow`: drop every accessor (the top one runs `ExclusiveTopDrop::drop`), then a new top wrapper. -/
def execReborrow (s : Shape) (w : World) (x : Which) : World × Ans :=
  let X := w.get x
  if !checkTop X.rng X.root then (w.set x { X with finished := true }, .panicDrop)
  else
    match getPtr s X.mem.bytes X.base with
    | .ok (root, _) => (w.set x { X with root := root, levels := [[]] }, .res (.ok .unit) [])
    | .error _ => (w.set x { X with levels := [[]] }, .res (.error .parse) [])

/-- `enter st`: take the child accessor and keep it alive. `keepBad`: after a swap the navigation's side
effects remain even when the line turns out inapplicable. -/
def execEnter (s : Shape) (w : World) (x : Which) (keepBad : Bool) (st : Step) : World × Ans :=
  let X := w.get x
  match curPtr s X with
  | none => (w, .bad)
  | some (tp0, sh0, t0) =>
    match walk w false sh0 t0 [st] with
    | (t0', out) =>
      let w' := w.set x { X with root := (replaceAt X.root tp0 t0').getD X.root }
      match out with
      | .bad => (if keepBad then w' else w, .bad)
      | .panic => (w'.set x { (w'.get x) with finished := true }, .panic)
      | .ioob => (w', .res (.error .ioob) [])
      | .perr => (w', .res (.error .parse) [])
      | .ok _ _ =>
        let X' := w'.get x
        (w'.set x { X' with levels := X'.levels ++ [X'.cur ++ [st]] }, .res (.ok .unit) [])

/-- An op line `op p …`: take the accessor chain `p` below the innermost live level, then `opAt`.
`mk` builds the op once the target's shape is known (`replace` parses its value against it). -/
def execOp (s : Shape) (w : World) (x : Which) (keepBad : Bool) (p : List Step) (mk : Shape → Option Op) :
    World × Ans :=
  let X := w.get x
  match curPtr s X with
  | none => (w, .bad)
  | some (tp0, sh0, t0) =>
    match walk w false sh0 t0 p with
    | (t0', out) =>
      let w' := w.set x { X with root := (replaceAt X.root tp0 t0').getD X.root }
      match out with
      | .bad => (if keepBad then w' else w, .bad)
      | .panic => (w'.set x { (w'.get x) with finished := true }, .panic)
      | .ioob => (w', .res (.error .ioob) [])
      | .perr => (w', .res (.error .parse) [])
      | .ok tp sh =>
        match mk sh with
        | none => (if keepBad then w' else w, .bad)
        | some op =>
          match opAt w' x ⟨s, X.cur ++ p⟩ (tp0 ++ tp) sh op with
          | (_, .bad) => (if keepBad then w' else w, .bad)
          | (w2, .panic) => (w2, .panic)
          | (w2, .done r evs) => (w2, .res r evs)

end Unsized.PtrM
