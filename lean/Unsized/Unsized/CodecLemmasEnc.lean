import Unsized.CodecLemmas
/-!
# Size accounting: `|encode s v| = size s v`
-/
namespace Unsized
open Common

theorem sum_map_length_flatten (ls : List (List Nat)) : ls.flatten.length = (ls.map List.length).sum := by
  induction ls with
  | nil => rfl
  | cons l ls ih => simp [ih]

theorem zipWith_entries_length (kw : Nat) (offs : List Nat) (es : List (List Nat × Val))
    (hl : offs.length = es.length) (hk : ∀ kv ∈ es, kv.1.length = kw) :
    (List.zipWith (fun o (kv : List Nat × Val) => leN 4 o ++ kv.1) offs es).flatten.length
      = es.length * (4 + kw) := by
  induction es generalizing offs with
  | nil => simp
  | cons kv es ih =>
    cases offs with
    | nil => simp at hl
    | cons o os =>
      simp only [List.zipWith_cons_cons, List.flatten_cons, List.length_append, leN_length,
        List.length_cons]
      rw [ih os (by simpa using hl) (fun x hx => hk x (by simp [hx])), hk kv (by simp)]
      rw [Nat.succ_mul]; omega

/-- The statement proved by induction on the shape. -/
def EncSize (s : Shape) : Prop := ∀ v, valid s v = true → (encode s v).length = size s v

theorem encSize_fields (fs : List Shape) (ih : ∀ f ∈ fs, EncSize f) :
    ∀ vs, validFields fs vs = true → (encodeFields fs vs).length = sizeFields fs vs := by
  induction fs with
  | nil => intro vs h; cases vs <;> simp [encodeFields, sizeFields]
  | cons f fs ihf =>
    intro vs h
    cases vs with
    | nil => simp [validFields] at h
    | cons v vs =>
      simp only [validFields, Bool.and_eq_true] at h
      simp only [encodeFields, sizeFields, List.length_append]
      rw [ih f (by simp) v h.1, ihf (fun g hg => ih g (by simp [hg])) vs h.2]

theorem encSize_variant (ps : List Shape) (ih : ∀ p ∈ ps, EncSize p) :
    ∀ (ds : List Nat) (i : Nat) (v : Val), i < ds.length → validVariant ps i v = true →
      (encodeVariant ds ps i v).length = 1 + sizeVariant ps i v := by
  induction ps with
  | nil => intro ds i v _ h; simp [validVariant] at h
  | cons p ps ihp =>
    intro ds i v hi h
    cases ds with
    | nil => simp at hi
    | cons d ds =>
      cases i with
      | zero =>
        simp only [validVariant] at h
        simp only [encodeVariant, sizeVariant, List.length_cons]
        rw [ih p (by simp) v h]; omega
      | succ i =>
        simp only [validVariant] at h
        simp only [encodeVariant, sizeVariant]
        exact ihp (fun g hg => ih g (by simp [hg])) ds i v (by simpa using hi) h

theorem encode_size_all (s : Shape) : EncSize s := by
  induction s using Shape.induct' with
  | fixed f =>
    intro v h; cases v <;> simp [valid] at h
    simp [encode, size, h.1.1]
  | list e lw =>
    intro v h; cases v <;> simp [valid] at h
    rename_i es
    simp only [encode, size, List.length_append, leN_length]
    rw [flatten_length e.size es (fun x hx => (h x hx).1.1)]
  | set e lw =>
    intro v h; cases v <;> simp [valid] at h
    rename_i es
    simp only [encode, size, List.length_append, leN_length]
    rw [flatten_length e.size es (fun x hx => (h.1 x hx).1.1)]
  | map kw val lw =>
    intro v h; cases v <;> simp [valid] at h
    rename_i es
    simp only [encode, size, List.length_append, leN_length]
    rw [flatten_length (kw + val.size) es (fun x hx => (h.1 x hx).1.1)]
  | str lw =>
    intro v h; cases v <;> simp [valid] at h
    simp [encode, size]
  | rem =>
    intro v h; cases v <;> simp [valid] at h
    simp [encode, size]
  | ulist e ih =>
    intro v h; cases v <;> simp [valid] at h
    rename_i vs
    have hmap : (vs.map (encode e)).map List.length = vs.map (size e) := by
      rw [List.map_map]; apply List.map_congr_left; intro x hx; exact ih x (h x hx)
    simp only [encode, size, List.length_append, leN_length, sum_map_length_flatten, hmap]
    rw [← sum_map_length_flatten, flatten_length 4 _ (by
      intro x hx; simp only [List.mem_map] at hx; obtain ⟨o, _, rfl⟩ := hx; simp)]
    simp; omega
  | umap kw e ih =>
    intro v h; cases v <;> simp [valid] at h
    rename_i es
    have hmap : (es.map (fun kv => encode e kv.2)).map List.length = es.map (fun kv => size e kv.2) := by
      rw [List.map_map]; apply List.map_congr_left; intro x hx; exact ih x.2 (h.1 x.1 x.2 hx).2
    simp only [encode, size, List.length_append, leN_length, sum_map_length_flatten (es.map _), hmap]
    rw [zipWith_entries_length kw _ es (by simp) (fun kv hkv => (h.1 kv.1 kv.2 hkv).1.1)]
    simp [Shape.entryW] <;> omega
  | struct sized fs ih =>
    intro v h; cases v <;> simp [valid] at h
    rename_i sz vs
    simp only [encode, size, List.length_append]
    rw [encSize_fields fs ih vs h.2, h.1.1.1]
  | enum ds ps ih =>
    intro v h; cases v <;> simp [valid] at h
    rename_i i p
    simp only [encode, size]
    exact encSize_variant ps ih ds i p h.1 h.2
  | unit => intro v _; simp [encode, size]
  | disc d inner ih =>
    intro v h
    have h' : valid inner v = true := by
      cases v <;> simpa [valid] using h
    have e1 : encode (.disc d inner) v = d ++ encode inner v := by cases v <;> rfl
    have e2 : size (.disc d inner) v = size inner v + d.length := by cases v <;> rfl
    rw [e1, e2, List.length_append, ih v h']; omega

end Unsized
