import Unsized.AccessLemmasBounds
import Unsized.MachineListLemmas
/-!
# Canonical bytes give a sane list header at every accessor (`UlistOk`)

This is the one place where C03 needs the invariant "bytes canonical": `UnsizedList::remove_range`
shifts the offset table with a raw `memmove` whose length is computed from the STORED offsets, before
any bounds check of the top wrapper.
-/
namespace Unsized.Machine
open Common Unsized Unsized.Text

theorem flatten_length_sum (datas : List (List Nat)) : datas.flatten.length = (datas.map List.length).sum := by
  induction datas with
  | nil => rfl
  | cons d ds ih => simp [ih]

/-- A serialized `UnsizedList`/`UnsizedMap` anywhere in the data has a sane header. -/
theorem ulistOk_uBytes (kw : Nat) (keys : List (List Nat)) (datas : List (List Nat)) (pre R : List Nat) (b : Nat)
    (hb : b = pre.length) (hl : keys.length = datas.length) (hk : ∀ k ∈ keys, k.length = kw)
    (hsum : (datas.map List.length).sum < Shape.u32Lim) (hlen : datas.length < Shape.u32Lim) :
    UlistOk (4 + kw) b (pre ++ uBytes keys datas ++ R) := by
  have hl' : keys.length = (datas.map List.length).length := by simp [hl]
  have e : pre ++ uBytes keys datas ++ R = pre ++ uHdrOf keys (datas.map List.length) ++ (datas.flatten ++ R) := by
    simp [uBytes, List.append_assoc]
  have husz : rd32 (pre ++ uBytes keys datas ++ R) b = (datas.map List.length).sum := by
    rw [e]; exact rd32_uHdr_usz keys _ pre _ b hb hsum
  have hln : rd32 (pre ++ uBytes keys datas ++ R) (b + 4) = datas.length := by
    rw [e]; have := rd32_uHdr_len keys (datas.map List.length) pre (datas.flatten ++ R) b hb (by simpa using hlen)
    simpa using this
  refine ⟨?_, ?_⟩
  · rw [husz, hln]
    simp only [uBytes, List.length_append, uHdrOf_length kw keys _ hl' hk, flatten_length_sum, List.length_map]
    omega
  · intro i
    unfold ulistOffset
    rw [hln, husz]
    split
    · rename_i hi
      rw [e, rd32_uHdr_off kw keys _ pre _ b i hb hl' hk hsum (by simpa using hi)]
      exact sum_take_le _ i
    · exact Nat.le_refl _

/-- On canonical bytes, the node an op is called on (if it is a list) has a sane header. -/
theorem ulistOk_of_focus {s : Shape} {v : Val} {p : List Step} {t : Shape} {u : Val} {m : Mem}
    (F : Focus s v p t u m) (cw : Nat) (hcw : ulistCw t = some cw) :
    UlistOk cw (offsetOf s v p) m.bytes := by
  obtain ⟨A, C, hA, henc, _⟩ := encode_split p s v t u F.good F.res
  have gt := F.sub
  rw [F.bytes, henc]
  cases t with
  | ulist e =>
    simp only [ulistCw, Option.some.injEq] at hcw
    subst hcw
    obtain ⟨_, hv, hf⟩ := gt
    cases u with
    | useq vs => ?_
    | _ => simp [valid] at hv
    simp [valid] at hv
    simp only [fits, Bool.and_eq_true, decide_eq_true_eq] at hf
    rw [encode_ulist_uBytes]
    have := ulistOk_uBytes 0 (vs.map fun _ => []) (vs.map (encode e)) A C (offsetOf s v p) hA.symm (by simp)
      (by intro k hk; simp at hk; rcases hk with ⟨_, _, rfl⟩; rfl)
      (by rw [map_encode_length e vs (by simpa using hv)]; exact hf.1.2) (by simpa using hf.1.1)
    simpa using this
  | umap kw e =>
    simp only [ulistCw, Option.some.injEq] at hcw
    subst hcw
    obtain ⟨_, hv, hf⟩ := gt
    cases u with
    | umap es => ?_
    | _ => simp [valid] at hv
    simp [valid] at hv
    simp only [fits, Bool.and_eq_true, decide_eq_true_eq] at hf
    rw [encode_umap_uBytes]
    have hvalid : es.all (fun kv => valid e kv.2) = true := by
      rw [List.all_eq_true]; intro x hx; exact (hv.1 x.1 x.2 hx).2
    have := ulistOk_uBytes kw (es.map (·.1)) (es.map fun kv => encode e kv.2) A C (offsetOf s v p) hA.symm (by simp)
      (by intro k hk; rw [List.mem_map] at hk; obtain ⟨kv, hkv, rfl⟩ := hk; exact (hv.1 kv.1 kv.2 hkv).1.1)
      (by rw [map_encode_length_kv e es hvalid]; exact hf.1.2) (by simpa using hf.1.1)
    simpa [Shape.entryW] using this
  | _ => simp [ulistCw] at hcw

end Unsized.Machine

namespace Unsized.Machine
open Common Unsized Unsized.Text

/-- **On canonical bytes every access of every op line is inside the data of that moment.** -/
theorem applyOpT_evsOk (s : Shape) (v : Val) (g : Good s v) (m : Mem) (hb : m.bytes = encode s v)
    (hcap : m.bytes.length ≤ m.cap) (abs : List Step) (op : Op) :
    evsOk m.cap m.bytes.length (applyOpT s abs op m).2 = true := by
  apply applyOpT_evsOk_of s abs op m hcap
  intro t b cw hloc hcw
  have hl := locate_encode abs s v g [] [] 0 rfl
  simp only [List.nil_append, List.append_nil, ← hb] at hl
  rw [hl] at hloc
  cases hr : resolve s v abs with
  | error e => rw [hr] at hloc; cases hloc
  | ok tu =>
    obtain ⟨t', u⟩ := tu
    rw [hr] at hloc
    simp only [Nat.zero_add, Except.ok.injEq, Prod.mk.injEq] at hloc
    obtain ⟨rfl, rfl⟩ := hloc
    exact ulistOk_of_focus ⟨g, hr, hb⟩ cw hcw

end Unsized.Machine
