import Unsized.PtrChainNotify
import Unsized.PtrMachine
/-!
# Stage C: navigation on the accessor chain with the C03 pointer machine's `locTree`

The pointer held by the live accessor at depth `q` of the chain is the chain of its own sub-value, based at
that sub-value's address (so `ptrs_fresh` speaks about every live accessor, not only the top one).
-/
namespace Unsized.Ptr
open Common Unsized Unsized.Text Unsized.Machine Unsized.PtrT Unsized.PtrM


/-- b-c03's `locTree` (follow fields, the cached `inner_exclusive`, the stored variant) on the chain: the
accessor at depth `q` holds the chain of its own sub-value, based at that sub-value's address. -/
theorem locTree_chain (q : List Step) : ∀ (s : Shape) (v : Val) (tq : Shape) (uq : Val) (b : Nat)
    (r : List Step) (T : PtrTree), Good s v → resolve s v q = .ok (tq, uq) →
    ∃ tp, locTree s (chainWith s v b (q ++ r) T) q
      = some (tp, tq, chainWith tq uq (b + offsetOf s v q) r T) := by
  induction q with
  | nil =>
    intro s v tq uq b r T g h
    simp [resolve] at h; obtain ⟨rfl, rfl⟩ := h
    exact ⟨[], by simp [locTree, offsetOf]⟩
  | cons st q ih =>
    intro s v tq uq b r T g h
    simp only [resolve] at h
    cases h1 : resolve1 s v st with
    | error e => simp [h1] at h
    | ok tu =>
      obtain ⟨t1, u1⟩ := tu
      simp only [h1] at h
      have g1 := (step_facts s v st t1 u1 g h1).1
      obtain ⟨tp, htp⟩ := ih t1 u1 tq uq (b + (stepPre s v st 0).length) r T g1 h
      have hoff : b + offsetOf s v (st :: q) = b + (stepPre s v st 0).length + offsetOf t1 u1 q := by
        simp only [offsetOf, h1]; omega
      rw [hoff]
      have h1' := h1
      unfold resolve1 at h1
      split at h1
      · rename_i sized fs sz vs i
        split at h1
        · rename_i f x hf hx
          cases h1
          have hv := g.valid
          simp only [valid, Bool.and_eq_true] at hv
          have hl := validFields_length fs vs hv.2
          have hif : i < fs.length := by
            rcases Nat.lt_or_ge i fs.length with h | h
            · exact h
            · simp [List.getElem?_eq_none h] at hf
          simp only [List.cons_append, chainWith, h1']
          by_cases he : sized.isEmpty = true
          · refine ⟨.kid i :: tp, ?_⟩
            simp only [he, if_true, locTree, kidIdx, hf]
            rw [List.getElem?_set_self (by rw [treesOf_length _ _ _ hl]; exact hif)]
            simp only [htp]
          · refine ⟨.kid (i + 1) :: tp, ?_⟩
            simp only [he, Bool.false_eq_true, if_false, locTree, kidIdx, hf, List.getElem?_cons_succ]
            rw [List.getElem?_set_self (by rw [treesOf_length _ _ _ hl]; exact hif)]
            simp only [htp]
        · cases h1
      · rename_i e vs i
        split at h1
        · cases h1
          refine ⟨.inner :: tp, ?_⟩
          simp only [List.cons_append, chainWith, h1', locTree, htp]
        · cases h1
      · rename_i kw e es i
        split at h1
        · cases h1
          refine ⟨.kid 0 :: .inner :: tp, ?_⟩
          simp only [List.cons_append, chainWith, h1', locTree, htp]
        · cases h1
      · rename_i ds ps idx pl
        split at h1
        · cases h1
        · cases h1
        · rename_i t' hnu ht
          cases h1
          refine ⟨.payload :: tp, ?_⟩
          simp only [List.cons_append, chainWith, h1', locTree, ht, htp]
      · cases h1

theorem resolve_app (q : List Step) : ∀ (s : Shape) (v : Val) (tq : Shape) (uq : Val) (r : List Step),
    resolve s v q = .ok (tq, uq) →
    resolve s v (q ++ r) = resolve tq uq r ∧ offsetOf s v (q ++ r) = offsetOf s v q + offsetOf tq uq r := by
  induction q with
  | nil => intro s v tq uq r h; simp [resolve] at h; obtain ⟨rfl, rfl⟩ := h; simp [offsetOf]
  | cons st q ih =>
    intro s v tq uq r h
    simp only [resolve] at h
    cases h1 : resolve1 s v st with
    | error e => simp [h1] at h
    | ok tu =>
      obtain ⟨t1, u1⟩ := tu
      simp only [h1] at h
      obtain ⟨a, c⟩ := ih t1 u1 tq uq r h
      simp only [List.cons_append, resolve, offsetOf, h1, a, c]
      exact ⟨trivial, by omega⟩

/-- Every live accessor of the fresh chain holds the fresh chain of its own sub-value. -/
theorem locTree_chainOf (s : Shape) (v : Val) (q r : List Step) (tq : Shape) (uq : Val) (t : Shape) (u : Val)
    (b : Nat) (g : Good s v) (hq : resolve s v q = .ok (tq, uq)) (hr : resolve tq uq r = .ok (t, u)) :
    ∃ tp, locTree s (chainOf s v b (q ++ r)) q = some (tp, tq, chainOf tq uq (b + offsetOf s v q) r) := by
  obtain ⟨a, c⟩ := resolve_app q s v tq uq r hq
  unfold chainOf
  rw [a, hr, c]
  simp only []
  rw [← Nat.add_assoc]
  exact locTree_chain q s v tq uq b r _ g hq

end Unsized.Ptr
