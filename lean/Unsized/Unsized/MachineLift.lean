import Unsized.MachineSetData
/-!
# Lifting node-level refinement to whole-value refinement: `spec_applyOp_eq`, `subst_encode`,
`applyOp_refines`
-/
namespace Unsized.Machine
open Common Unsized Unsized.Text

/-- The recursive owned-model semantics = resolve the path, apply at the node, put the result back. -/
theorem spec_applyOp_eq (p : List Step) : ∀ (s : Shape) (v : Val) (op : Op),
    Spec.applyOp s v p op =
      match resolve s v p with
      | .error e => .error e
      | .ok (t, u) =>
        match Spec.applyNode t u op with
        | .error e => .error e
        | .ok (u', r) => .ok (subst s v p u', r) := by
  induction p with
  | nil => intro s v op; simp only [Spec.applyOp, resolve, subst]; cases Spec.applyNode s v op <;> rfl
  | cons st p ih =>
    intro s v op
    cases st with
    | field i =>
      cases s <;> cases v <;> simp only [Spec.applyOp, resolve, resolve1, subst]
      rename_i sized fs sz vs
      cases hf : fs[i]? <;> cases hx : vs[i]? <;> simp only []
      rename_i f x
      rw [ih f x op]
      cases resolve f x p with
      | error e => rfl
      | ok tu =>
        obtain ⟨t, u⟩ := tu
        simp only []
        cases Spec.applyNode t u op with
        | error e => rfl
        | ok ur => obtain ⟨u', r⟩ := ur; simp [subst1]
    | elem i =>
      cases s <;> cases v <;> simp only [Spec.applyOp, resolve, resolve1, subst]
      · rename_i e vs
        cases hx : vs[i]? <;> simp only []
        rename_i x
        rw [ih e x op]
        cases resolve e x p with
        | error er => rfl
        | ok tu =>
          obtain ⟨t, u⟩ := tu
          simp only []
          cases Spec.applyNode t u op with
          | error er => rfl
          | ok ur => obtain ⟨u', r⟩ := ur; simp [subst1]
      · rename_i kw e es
        cases hx : es[i]? <;> simp only []
        rename_i kx
        obtain ⟨k, x⟩ := kx
        simp only []
        rw [ih e x op]
        cases resolve e x p with
        | error er => rfl
        | ok tu =>
          obtain ⟨t, u⟩ := tu
          simp only []
          cases Spec.applyNode t u op with
          | error er => rfl
          | ok ur => obtain ⟨u', r⟩ := ur; simp [subst1, hx]
    | payload =>
      cases s <;> cases v <;> simp only [Spec.applyOp, resolve, resolve1, subst]
      rename_i ds ps idx pl
      cases ht : ps[idx]? with
      | none => rfl
      | some t1 =>
      cases t1 <;> try rfl
      all_goals
      (simp only []
       rw [ih _ pl op]
       cases resolve _ pl p with
       | error er => rfl
       | ok tu =>
         obtain ⟨t, u⟩ := tu
         simp only []
         cases Spec.applyNode t u op with
         | error er => rfl
         | ok ur => obtain ⟨u', r⟩ := ur; simp [subst1])


/-- The serialization part of `step_subst` needs no well-formedness of the new child. -/
theorem step_subst_enc (s : Shape) (v : Val) (st : Step) (t : Shape) (u u' : Val) (g : Good s v)
    (h : resolve1 s v st = .ok (t, u)) :
    encode s (subst1 v st u') = stepPre s v st (encode t u').length ++ encode t u' ++ stepPost s v st := by
  unfold resolve1 at h
  split at h
  · rename_i sized fs sz vs i
    split at h
    · rename_i f x hf hx
      cases h
      have hi : i < vs.length := by
        rcases Nat.lt_or_ge i vs.length with h | h
        · exact h
        · simp [List.getElem?_eq_none h] at hx
      have hx' : (vs.set i u')[i]? = some u' := by simp [hi]
      simp only [subst1, encode, stepPre, stepPost]
      rw [encodeFields_split fs (vs.set i u') i t u' hf hx', List.take_set_of_le (Nat.le_refl i),
        List.drop_set_of_lt (by omega)]
      simp [List.append_assoc]
    · cases h
  · rename_i e vs i
    split at h
    · rename_i x hx
      cases h
      have hi : i < vs.length := by
        rcases Nat.lt_or_ge i vs.length with h | h
        · exact h
        · simp [List.getElem?_eq_none h] at hx
      rw [subst1, encode_ulist_uBytes, map_const_set, List.map_set, uBytes_set _ _ i _ (by simpa using hi)]
      simp only [stepPre, stepPost, List.map_take, List.map_drop]
    · cases h
  · rename_i kw e es i
    split at h
    · rename_i kx hx
      cases h
      have hi : i < es.length := by
        rcases Nat.lt_or_ge i es.length with h | h
        · exact h
        · simp [List.getElem?_eq_none h] at hx
      have hxi : es[i] = kx := by
        have := List.getElem?_eq_getElem hi; rw [hx] at this; exact (Option.some.inj this).symm
      have hsub : subst1 (.umap es) (.elem i) u' = .umap (es.set i (kx.1, u')) := by
        simp only [subst1, hx]
      have hk1 : (es.set i (kx.1, u')).map (·.1) = es.map (·.1) := by
        have := map_fst_set es i kx.1 u' id hi (by rw [hxi]); simpa using this
      rw [hsub, encode_umap_uBytes, hk1, List.map_set, uBytes_set _ _ i _ (by simpa using hi)]
      simp only [stepPre, stepPost, List.map_take, List.map_drop]
    · cases h
  · rename_i ds ps idx pl
    split at h
    · cases h
    · cases h
    · rename_i t' hnu ht
      cases h
      obtain ⟨_, hv, _⟩ := g
      simp only [valid, Bool.and_eq_true, decide_eq_true_eq] at hv
      have hd : ds[idx]? = some ds[idx] := List.getElem?_eq_getElem hv.1
      simp only [subst1, encode, stepPre, stepPost, hd, Option.getD_some]
      rw [encodeVariant_get ds ps idx u' _ t hd ht]; simp
  · cases h

/-- `encode` of the substituted value is the plugged serialization — for ANY new sub-value. -/
theorem subst_encode (p : List Step) : ∀ (s : Shape) (v : Val) (t : Shape) (u u' : Val), Good s v →
    resolve s v p = .ok (t, u) → encode s (subst s v p u') = plug s v p (encode t u') := by
  induction p with
  | nil => intro s v t u u' g h; simp [resolve] at h; obtain ⟨rfl, rfl⟩ := h; simp [subst, plug]
  | cons st p ih =>
    intro s v t u u' g h
    simp only [resolve] at h
    cases h1 : resolve1 s v st with
    | error e => simp [h1] at h
    | ok tu =>
      obtain ⟨t1, u1⟩ := tu
      simp only [h1] at h
      obtain ⟨g1, _, _, _⟩ := step_facts s v st t1 u1 g h1
      simp only [subst, h1, plug]
      rw [step_subst_enc s v st t1 u1 _ g h1, ih t1 u1 t u u' g1 h]


/-- **From one node to the whole value.** If the machine refines the owned model at the node the
path resolves to, then `Machine.applyOp` refines `Spec.applyOp` on the whole value. -/
theorem applyOp_refines (s : Shape) (v : Val) (g : Good s v) (m : Mem) (hm : m.bytes = encode s v)
    (p : List Step) (op : Op)
    (hnode : ∀ t u, resolve s v p = .ok (t, u) → Refines s v p t u m op) :
    match Spec.applyOp s v p op with
    | .ok (v', r) =>
      (encode s v').length ≤ m.orig + maxIncrease →
        ∃ m' : Mem, applyOp s p op m = (m', .ok r) ∧ m'.bytes = encode s v' ∧ Good s v'
          ∧ m'.orig = m.orig ∧ m'.refuse = m.refuse
    | .error .initFail => True
    | .error e => composite op = true ∨ applyOp s p op m = (m, .error e) := by
  have hloc := locate_encode p s v g [] [] 0 rfl
  simp only [List.nil_append, List.append_nil, Nat.zero_add] at hloc
  rw [spec_applyOp_eq]
  unfold applyOp
  rw [hm, hloc]
  cases hr : resolve s v p with
  | error e => cases e <;> simp
  | ok tu =>
    obtain ⟨t, u⟩ := tu
    have hn := hnode t u hr
    unfold Refines at hn
    simp only []
    cases ha : Spec.applyNode t u op with
    | error e =>
      rw [ha] at hn
      cases e <;> simp only [] at hn ⊢ <;> first | exact hn | trivial
    | ok ur =>
      obtain ⟨u', r⟩ := ur
      rw [ha] at hn
      simp only [] at hn ⊢
      intro hroom
      rw [subst_encode p s v t u u' g hr] at hroom
      obtain ⟨m', hm', F', ho, hrf⟩ := hn hroom
      exact ⟨m', hm', F'.bytes, F'.good, ho, hrf⟩

end Unsized.Machine
